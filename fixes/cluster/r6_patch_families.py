#!/usr/bin/env python3
"""apply R6's edits to a families.json (idempotent): python3 patch_families.py <path>"""
import json, sys
p = sys.argv[1]
d = json.load(open(p))

def fam(prop, name):
    for f in d[prop]["families"]:
        if f["name"] == name:
            return f
    return None

def add_family(prop, entry):
    if fam(prop, entry["name"]) is None:
        d[prop]["families"].append(entry)

def add_module(prop, mod):
    mods = d[prop].setdefault("props_modules", [f"PgVerif.Props.{prop}"])
    if mod not in mods:
        mods.append(mod)

# C01
d["C01"]["assumptions"] = [
  "C01_dump / C01_columns / C01_databases instantiate the row reader with heap.go:ReadRows (Model.readRows, area rows) on the encoded files of a Spec.Cluster; the scalar decoder is a parameter constrained on the seven catalog column types (CatDec), discharged for the composed model of types.go:DecodeType (C01_catDec_real, C01_dump_real: decodeTypeC of Props/C10/Entry.lean) and for the local decoder the families execute (catDec_local); user values are rendered by varlenaVal dec applied to the stored bytes (what the renderings mean is C04-C07's business); C01_rowcount / C01_listonly / C01_dump_partial hold for ANY row reader",
  "catalog layouts of PostgreSQL 12-16 per DESIGN.md section 3; since fixes/cluster/08 the tool reads pg_attribute through the same three layouts up to attisdropped (dropped.go's tables, regenerated from the source into Generated/Cluster.lean), so attlen/attnum/attalign/attstorage positions are what both sides agree on (confidence B for the bytes behind attisdropped, which nothing reads)",
  "the Spec takes PostgreSQL's notions, not the tool's: template database = datistemplate; the value of an inline-compressed / out-of-line datum = the original bytes (DbContent.detoast); a heap = all its segment files (Cluster.segPages) in its tablespace (ClassRow.tblspc). The four OPEN findings C01-TPL, A02, C01-SEG, C01-TBLSPC (fixes/cluster/known_findings.json; witnesses = fixed cases 4-8 of cluster_dump / cluster_files / remote) are the clusters where the tool's answer differs; C01_dump carries them as the explicit hypotheses Spec.TemplatesByName, Spec.A02Free, Cluster.Plain; generated cases in those classes carry kf: tags decided by Lean predicates on the abstract cluster (Driver.Fam.inTPL / inA02 / inSEG / inTBLSPC)",
  "interpretations stated in Spec/Cluster.lean: 'ordinary user table' = relkind r with a relfilenode of its own (relkind r with relfilenode 0 is a mapped system catalog); the system-table filter is the documented SkipSystemTables = 'skip pg_* tables' (name prefix); a dropped column keeps its pg_attribute row and is listed with type id 0; tables are listed in filenode order (the property fixes no order; compared exactly, no sorting in the harness any more)",
  "strings.ToLower / EqualFold are Go's Unicode functions (Model/GoCase.lean: ASCII fast path, invalid UTF-8 -> U+FFFD, Latin-1 / Greek / Cyrillic capitals, U+212A, U+0130, U+017F; other code points taken as caseless — the generators stay inside this alphabet); the Spec folds ASCII letters only; theorems assume GoCase.FilterStable / foldStable (the strings on which both notions coincide: every ASCII string, 'été', '日本'), generated cases outside (upper-case non-ASCII names and filters, invalid bytes) are tagged case=unicode / spec-silent-name and have no SPEC",
  "other hypotheses of C01_dump beyond Spec.Cluster.WF (true of every real cluster, not stated by WF; no finding): attnums of a relation are 1..n without gaps, a dumped table's filenode is not 1259/1249 and not that of a non-heap file, a version hint (if given) names the cluster's layout (16+, 14-15, 12-13), and without a hint every live pg_attribute row has attstorage in {p,e,m,x}; the executable form Model.ClusterHyp.dumpHypB (sound: dumpHypB_sound) of ALL hypotheses (findings included) is evaluated on every generated case (tag hyp:dump=ok: about 70 % of the cases; the others carry a kf: tag, hint=wrong, case=unicode or seg=unsplit); tags zerocol / alignfb / v16order count the cases in the classes of the three repaired findings",
  "type names are compared only for the type oids Spec.typeNames lists (normCol blanks the others), as the canonical text of the families does"
]
# C12
add_module("C12", "PgVerif.Props.C12Remote")
add_family("C12", {"name": "exec", "area": "cluster", "quick": [80, 2], "thorough": [1000, 3], "fixed": 10})
add_family("C12", {"name": "remote_refresh", "area": "cluster", "quick": [60, 2], "thorough": [600, 3], "fixed": 0})
for n in ("cluster_files", "remote"):
    f = fam("C12", n)
    if f: f["fixed"] = 10
f = fam("C12", "clirender")
if f: f["fixed"] = 30
f = fam("C01", "cluster_dump")
if f: f["fixed"] = 10
d["C12"]["assumptions"] = [
  "Go's flag package fills the Flags record per standard flag syntax: a stated parameter (exercised by family cli with -x v, -x=v, --x forms; the driver-side parser is not Go's on malformed command lines, which are not generated)",
  "CLI: stdout / stderr / exit code of every mode the model renders are compared byte for byte with the real binary (family clirender; TZ=UTC; the scratch directory is replaced by @DIR): all non-dump modes and, since R6, the dump modes JSON / -sql / -csv with -db -t -list -v (no sorting of any array; only the timestamp of the SQL header line `-- Generated at:` is masked); not rendered in Lean (compared with the library's own JSON by the handler): -f -index, -f -toast-verbose, -dropped, -search, -secrets, and the JSON dump of a result that holds a float cell (never generated); -debug output is outside the model; the older family cli compares the binary with the library call the model's decision table names",
  "RemoteClient: Credentials / Control results are other areas' business (C14, C16); family remote compares every listing / query / dump method with the Spec views EXACTLY (no sorting, table-less databases included); family exec ties Exec's dispatch to the methods (SPEC -); family remote_refresh drives one client over a reader whose files change: Credentials / Control / table rows must follow the files (SPEC = a fresh client on the second tree), Databases / Tables / Columns are cached by design (C12_cache_transparent / C11_no_hidden_state_*: a cache holding what the loaders computed is transparent) and not judged after the change",
  "the open findings C01-TPL, A02, C01-SEG, C01-TBLSPC are shared by all access paths and registered under C12 as well (same hypotheses in C12_remote_*); the third, undocumented difference between DumpAll and DumpDataDir (a database without a directory is listed with no tables / left out) is part of the statement of C12_remote_all_vs_directory_dump",
  "name lookup (Database / Table): exact match first, else Go's strings.EqualFold; the Spec (exact, else unique ASCII-case-insensitive match) is silent where EqualFold and ASCII folding differ (tag spec-silent-name)"
]
# C11
add_family("C11", {"name": "remote_refresh", "area": "cluster", "quick": [40, 2], "thorough": [300, 3], "fixed": 0})
a = d["C11"]["assumptions"]
d["C11"]["assumptions"] = [x for x in a if not x.startswith("a RemoteClient object is not shared")] + \
  [y for y in ["a RemoteClient may be shared between goroutines since fixes/cluster/06 (cache guarded by a mutex; the concurrent family shares one client); what its cache remembers (Databases, catalogs per database) is remembered for the life of the client BY DESIGN: C12_cache_transparent (Props/C12Remote.lean) and C11_no_hidden_state_* say that a cache holding what the loaders computed is transparent for every method; family remote_refresh checks which answers follow changed files (Credentials, Control, rows) and which are remembered"] if y not in a]
# C14 / C16: the refresh family also exercises Credentials() / Control() through the remote client
add_family("C14", {"name": "remote_refresh", "area": "cluster", "quick": [30, 1], "thorough": [200, 2], "fixed": 0})
add_family("C16", {"name": "remote_refresh", "area": "cluster", "quick": [30, 1], "thorough": [200, 2], "fixed": 0})
json.dump(d, open(p, "w"), indent=1)
print("patched", p)
