/-
  Hex, PRNG, generator monad and the canonical text form of Go values.
  Everything here is on the driver path (core Lean only).  Nothing here is used in theorem
  statements except `GoVal` itself.
-/
import PgVerif.Basic.Bytes
namespace PgVerif

def hexDigit (n : Nat) : Char := if n < 10 then Char.ofNat (48 + n) else Char.ofNat (87 + n)

def hexOf (bs : Bytes) : String :=
  String.ofList (bs.flatMap fun b => [hexDigit (b.toNat / 16), hexDigit (b.toNat % 16)])

/-- hex with run-length coding of zero runs: `z<count>.` -/
def hexRle (bs : Bytes) : String := Id.run do
  let mut out : String := ""
  let mut zrun : Nat := 0
  for b in bs do
    if b == 0 then zrun := zrun + 1
    else
      if zrun > 0 then
        if zrun < 4 then out := out ++ String.ofList (List.replicate (2*zrun) '0')
        else out := out ++ "z" ++ toString zrun ++ "."
        zrun := 0
      out := (out.push (hexDigit (b.toNat / 16))).push (hexDigit (b.toNat % 16))
  if zrun > 0 then
    if zrun < 4 then out := out ++ String.ofList (List.replicate (2*zrun) '0')
    else out := out ++ "z" ++ toString zrun ++ "."
  if out.isEmpty then "-" else out

def hexVal (c : Char) : Option Nat :=
  if '0' ≤ c ∧ c ≤ '9' then some (c.toNat - 48)
  else if 'a' ≤ c ∧ c ≤ 'f' then some (c.toNat - 87)
  else if 'A' ≤ c ∧ c ≤ 'F' then some (c.toNat - 55)
  else none

/-- inverse of `hexRle`/`hexOf` (`-` is the empty string) -/
partial def unhex (s : String) : Bytes :=
  let rec go (cs : List Char) (acc : Array UInt8) : Array UInt8 :=
    match cs with
    | [] => acc
    | '-' :: rest => go rest acc
    | 'z' :: rest =>
      let digits := rest.takeWhile (· != '.')
      let n := (String.ofList digits).toNat!
      go (rest.drop (digits.length + 1)) (acc ++ Array.replicate n (0 : UInt8))
    | a :: b :: rest =>
      match hexVal a, hexVal b with
      | some x, some y => go rest (acc.push (UInt8.ofNat (16 * x + y)))
      | _, _ => acc
    | _ => acc
  (go s.toList #[]).toList

def strBytes (s : String) : Bytes := s.toUTF8.toList
def hexN (width : Nat) (v : Nat) : String :=
  String.ofList ((List.range width).reverse.map fun i => hexDigit ((v / 16 ^ i) % 16))

/-! ## PRNG (splitmix64) and a small generator monad -/

structure Prng where
  s : UInt64
deriving Inhabited

def Prng.next (g : Prng) : UInt64 × Prng :=
  let s := g.s + 0x9E3779B97F4A7C15
  let z := s
  let z := (z ^^^ (z >>> 30)) * 0xBF58476D1CE4E5B9
  let z := (z ^^^ (z >>> 27)) * 0x94D049BB133111EB
  (z ^^^ (z >>> 31), ⟨s⟩)

def Prng.ofSeed (seed idx : Nat) : Prng :=
  let g : Prng := ⟨UInt64.ofNat (seed * 0x9E3779B9 + idx * 0x85EBCA6B + 12345)⟩
  (g.next).2

abbrev Gen := StateM Prng

namespace Gen
def u64 : Gen UInt64 := fun g => g.next
def below (n : Nat) : Gen Nat := do
  if n = 0 then return 0
  let x ← u64
  return x.toNat % n
/-- uniform in [lo, hi] -/
def range (lo hi : Nat) : Gen Nat := do
  if hi < lo then return lo
  let x ← below (hi - lo + 1)
  return lo + x
def bool : Gen Bool := do return (← below 2) == 1
/-- true with probability num/den -/
def prob (num den : Nat) : Gen Bool := do return (← below den) < num
def byte : Gen UInt8 := do return UInt8.ofNat (← below 256)
def bytes (n : Nat) : Gen Bytes := do
  let mut out : Array UInt8 := #[]
  for _ in [0:n] do out := out.push (← byte)
  return out.toList
def oneOf [Inhabited α] (xs : List α) : Gen α := do
  let i ← below xs.length
  return xs.getD i default
def listOf (n : Nat) (g : Gen α) : Gen (List α) := do
  let mut out : Array α := #[]
  for _ in [0:n] do out := out.push (← g)
  return out.toList
/-- a value biased to the boundaries of [lo, hi] -/
def edgy (lo hi : Nat) : Gen Nat := do
  match ← below 6 with
  | 0 => return lo
  | 1 => return hi
  | 2 => return (if lo < hi then lo + 1 else lo)
  | 3 => return (if lo < hi then hi - 1 else hi)
  | _ => range lo hi
/-- Fisher–Yates shuffle -/
def shuffle (xs : List α) : Gen (List α) := do
  let mut a := xs.toArray
  let n := a.size
  for i in [0:n] do
    let j ← range i (n - 1)
    if h1 : i < a.size then
      if h2 : j < a.size then
        a := a.swap i j
  return a.toList
end Gen

/-! ## Go values and their canonical text -/

inductive GoVal where
  | nil
  | bool (b : Bool)
  | int (i : Int)             -- every Go integer kind, collapsed to its value
  | f64 (bits : Nat)          -- float64 as IEEE bits
  | f32 (bits : Nat)          -- float32 as IEEE bits
  | str (s : Bytes)
  | arr (xs : List GoVal)
  | obj (kvs : List (Bytes × GoVal))
deriving Repr, Inhabited

def bytesLt : Bytes → Bytes → Bool
  | [], [] => false
  | [], _ :: _ => true
  | _ :: _, [] => false
  | a :: as, b :: bs => if a < b then true else if b < a then false else bytesLt as bs

def bytesLe (a b : Bytes) : Bool := !bytesLt b a

/-- Go map semantics: inserting an existing key overwrites it -/
def mapInsert (m : List (Bytes × GoVal)) (k : Bytes) (v : GoVal) : List (Bytes × GoVal) :=
  if m.any (·.1 == k) then m.map fun kv => if kv.1 == k then (k, v) else kv else m ++ [(k, v)]

mutual
def GoVal.canon : GoVal → String
  | .nil => "~"
  | .bool b => if b then "T" else "F"
  | .int i => "i" ++ toString i
  | .f64 b => "d" ++ hexN 16 b
  | .f32 b => "e" ++ hexN 8 b
  | .str s => "s" ++ hexOf s
  | .arr xs => "[" ++ canonList xs ++ "]"
  | .obj kvs => "{" ++ canonKvs kvs ++ "}"
def canonList : List GoVal → String
  | [] => ""
  | [x] => x.canon
  | x :: xs => x.canon ++ "," ++ canonList xs
def canonKvs : List (Bytes × GoVal) → String
  | [] => ""
  | [(k, v)] => hexOf k ++ ":" ++ v.canon
  | (k, v) :: rest => hexOf k ++ ":" ++ v.canon ++ "," ++ canonKvs rest
end

/-- sort object keys at the top level and recursively (canonical form of a Go map) -/
partial def GoVal.sorted : GoVal → GoVal
  | .arr xs => .arr (xs.map GoVal.sorted)
  | .obj kvs => .obj ((kvs.map fun (k, v) => (k, v.sorted)).mergeSort fun a b => bytesLe a.1 b.1)
  | v => v

def GoVal.show (v : GoVal) : String := v.sorted.canon

def faultStr (f : Fault) : String := "PANIC:" ++ f.name

/-- canonical rendering of a model result -/
def showM {α} (f : α → String) : M α → String
  | .ok a => f a
  | .error e => faultStr e

def joinWith (sep : String) (xs : List String) : String := String.intercalate sep xs

end PgVerif
