/-
  Byte strings, little-endian readers/writers, and the fault-aware primitives that mirror
  Go's slice/index checks.  Core Lean only (this file is on the path of the compiled driver).
-/
namespace PgVerif

abbrev Bytes := List UInt8

/-- little-endian encoding of `v` on `n` bytes (truncating) -/
def le (n : Nat) (v : Nat) : Bytes :=
  match n with
  | 0 => []
  | n+1 => UInt8.ofNat (v % 256) :: le n (v / 256)

/-- little-endian value of the first `n` bytes (missing bytes read as nothing) -/
def rd (n : Nat) (bs : Bytes) : Nat :=
  match n, bs with
  | 0, _ => 0
  | _+1, [] => 0
  | n+1, b :: bs => b.toNat + 256 * rd n bs

def rdAt (n off : Nat) (bs : Bytes) : Nat := rd n (bs.drop off)

def zeros (n : Nat) : Bytes := List.replicate n 0

/-- two's complement reinterpretation of an `n`-bit unsigned value -/
def toSigned (bits : Nat) (v : Nat) : Int :=
  if v < 2 ^ (bits - 1) then (v : Int) else (v : Int) - (2 ^ bits : Nat)

/-- the unsigned `bits`-bit representation of an integer (wraps) -/
def ofSigned (bits : Nat) (v : Int) : Nat := (v % ((2 ^ bits : Nat) : Int)).toNat

@[simp] theorem le_length (n v : Nat) : (le n v).length = n := by
  induction n generalizing v with
  | zero => rfl
  | succ n ih => simp [le, ih]

@[simp] theorem zeros_length (n : Nat) : (zeros n).length = n := by simp [zeros]

theorem rd_le (n v : Nat) (rest : Bytes) (h : v < 256 ^ n) : rd n (le n v ++ rest) = v := by
  induction n generalizing v with
  | zero => simp [rd]; omega
  | succ n ih =>
    simp only [le, List.cons_append, rd]
    rw [ih]
    · simp [UInt8.toNat_ofNat']; omega
    · rw [Nat.pow_succ] at h; omega

theorem rd_lt (n : Nat) (bs : Bytes) : rd n bs < 256 ^ n := by
  induction n generalizing bs with
  | zero => simp [rd]
  | succ n ih =>
    cases bs with
    | nil => simp [rd]; exact Nat.pow_pos (by decide)
    | cons b bs =>
      simp only [rd]
      have := ih bs
      have hb := b.toNat_lt
      rw [Nat.pow_succ]; omega

/-- reading a field that sits right after a prefix `pre` -/
theorem rdAt_append (n v : Nat) (pre rest : Bytes) (h : v < 256 ^ n) :
    rdAt n pre.length (pre ++ le n v ++ rest) = v := by
  simp only [rdAt, List.append_assoc, List.drop_left']
  exact rd_le n v rest h

theorem rdAt_append' (n v k : Nat) (pre rest : Bytes) (hk : k = pre.length) (h : v < 256 ^ n) :
    rdAt n k (pre ++ (le n v ++ rest)) = v := by
  subst hk
  simp only [rdAt, List.drop_left']
  exact rd_le n v rest h

/-- `rd` only looks at the first `n` bytes -/
theorem rd_take (n : Nat) (bs : Bytes) (m : Nat) (h : n ≤ m) : rd n (bs.take m) = rd n bs := by
  induction n generalizing bs m with
  | zero => simp [rd]
  | succ n ih =>
    cases bs with
    | nil => simp [rd]
    | cons b bs =>
      cases m with
      | zero => omega
      | succ m => simp only [List.take_succ_cons, rd]; rw [ih bs m (by omega)]

theorem rd_append_left (n : Nat) (a b : Bytes) (h : n ≤ a.length) : rd n (a ++ b) = rd n a := by
  induction n generalizing a with
  | zero => simp [rd]
  | succ n ih =>
    cases a with
    | nil => simp at h
    | cons x a => simp only [List.cons_append, rd]; rw [ih a (by simpa using h)]

/-! ## Faults: the ways a Go slice expression, index, make or division can panic -/

inductive Fault where
  | index    -- index out of range
  | slice    -- slice bounds out of range
  | makeLen  -- makeslice: len out of range
  | divZero  -- integer divide by zero
  | nilDeref -- nil pointer dereference
  | budget   -- model-side work budget exhausted (non-termination / blow-up guard)
deriving Repr, DecidableEq, Inhabited

def Fault.name : Fault → String
  | .index => "index" | .slice => "slice" | .makeLen => "makeLen"
  | .divZero => "divZero" | .nilDeref => "nilDeref" | .budget => "budget"

abbrev M := Except Fault

/-- Go: `binary.LittleEndian.UintN(data[off:])` for N = 8·n -/
def uN (n : Nat) (data : Bytes) (off : Nat) : M Nat :=
  if off > data.length then throw .slice
  else if data.length - off < n then throw .index
  else pure (rd n (data.drop off))

/-- same with a Go `int` offset that may be negative -/
def uNi (n : Nat) (data : Bytes) (off : Int) : M Nat :=
  if off < 0 then throw .slice else uN n data off.toNat

/-- Go: `data[i]` -/
def idx (data : Bytes) (i : Nat) : M UInt8 :=
  match data[i]? with
  | some b => pure b
  | none => throw .index

def idxi (data : Bytes) (i : Int) : M UInt8 :=
  if i < 0 then throw .index else idx data i.toNat

/-- Go: `data[lo:]` (checked against len, i.e. stricter than Go's cap check) -/
def sliceFrom (data : Bytes) (lo : Nat) : M Bytes :=
  if lo > data.length then throw .slice else pure (data.drop lo)

def sliceFromi (data : Bytes) (lo : Int) : M Bytes :=
  if lo < 0 then throw .slice else sliceFrom data lo.toNat

/-- Go: `data[lo:hi]` -/
def slice (data : Bytes) (lo hi : Nat) : M Bytes :=
  if hi > data.length ∨ lo > hi then throw .slice else pure ((data.take hi).drop lo)

def slicei (data : Bytes) (lo hi : Int) : M Bytes :=
  if lo < 0 ∨ hi < 0 then throw .slice else slice data lo.toNat hi.toNat

/-- Go: `data[:hi]` -/
def sliceTo (data : Bytes) (hi : Nat) : M Bytes :=
  if hi > data.length then throw .slice else pure (data.take hi)

theorem uN_ok (n : Nat) (data : Bytes) (off : Nat) (h : off + n ≤ data.length) :
    uN n data off = .ok (rd n (data.drop off)) := by
  unfold uN; rw [if_neg (by omega), if_neg (by omega)]; rfl

theorem idx_ok (data : Bytes) (i : Nat) (h : i < data.length) : idx data i = .ok data[i] := by
  unfold idx; rw [List.getElem?_eq_getElem h]; rfl

theorem sliceFrom_ok (data : Bytes) (lo : Nat) (h : lo ≤ data.length) :
    sliceFrom data lo = .ok (data.drop lo) := by
  unfold sliceFrom; rw [if_neg (by omega)]; rfl

theorem slice_ok (data : Bytes) (lo hi : Nat) (h : hi ≤ data.length) (h2 : lo ≤ hi) :
    slice data lo hi = .ok ((data.take hi).drop lo) := by
  unfold slice; rw [if_neg (by omega)]; rfl

theorem sliceTo_ok (data : Bytes) (hi : Nat) (h : hi ≤ data.length) :
    sliceTo data hi = .ok (data.take hi) := by
  unfold sliceTo; rw [if_neg (by omega)]; rfl

@[simp] theorem ok_bind {α β} (a : α) (f : α → M β) : (Except.ok a >>= f) = f a := rfl
@[simp] theorem pure_eq_ok {α} (a : α) : (pure a : M α) = .ok a := rfl
@[simp] theorem error_bind {α β} (e : Fault) (f : α → M β) : ((Except.error e : M α) >>= f) = .error e := rfl
@[simp] theorem throw_eq_error {α} (e : Fault) : (throw e : M α) = .error e := rfl

/-! ## Bit masks over `Nat` (no `bv_decide`, no big `decide`) -/

theorem land_pow_eq_zero_iff (m k : Nat) : m &&& 2 ^ k = 0 ↔ m.testBit k = false := by
  constructor
  · intro h
    have := congrArg (fun x => x.testBit k) h
    simpa [Nat.testBit_and, Nat.testBit_two_pow] using this
  · intro h
    apply Nat.eq_of_testBit_eq
    intro i
    simp only [Nat.testBit_and, Nat.testBit_two_pow, Nat.zero_testBit]
    by_cases hik : k = i
    · subst hik; simp [h]
    · simp [hik]

theorem land_pow_ne_zero (m k : Nat) : (m &&& 2 ^ k != 0) = m.testBit k := by
  cases h : m.testBit k
  · simp [(land_pow_eq_zero_iff m k).2 h]
  · have : m &&& 2^k ≠ 0 := fun h0 => by simp [(land_pow_eq_zero_iff m k).1 h0] at h
    simp [this]

theorem land_mask (x k : Nat) : x &&& (2 ^ k - 1) = x % 2 ^ k :=
  Nat.and_two_pow_sub_one_eq_mod x k

/-- Go's `(o + a - 1) &^ (a - 1)` on non-negative operands -/
def andNot (x m : Nat) : Nat := x - (x &&& m)

theorem andNot_mask (x k : Nat) : andNot x (2 ^ k - 1) = x / 2 ^ k * 2 ^ k := by
  unfold andNot
  rw [land_mask]
  have := Nat.div_add_mod x (2 ^ k)
  have h2 := Nat.mul_comm (2 ^ k) (x / 2 ^ k)
  omega

end PgVerif
