/-
  Spec side of pg_control (PostgreSQL 12–16, `ControlFileData` in src/include/catalog/pg_control.h,
  DESIGN.md section 3): abstract control data, the encoder that lays the struct out as PostgreSQL
  writes it (little-endian, 64-bit alignment, padding zero), well-formedness, and the `view` a
  correct tool must report.  Knows nothing about the Go code.
-/
import PgVerif.Spec.Crc
namespace PgVerif.Spec
open PgVerif

/-! ### fixed-offset records: a record is a list of (width, value) fields; padding = (w, 0) -/

abbrev Field := Nat × Nat
def encFields (fs : List Field) : Bytes := fs.flatMap fun f => le f.1 f.2
def offsetOf (fs : List Field) (i : Nat) : Nat := ((fs.take i).map (·.1)).sum

/-! ### text forms PostgreSQL uses -/

def upperHexDigit (n : Nat) : Char := if n < 10 then Char.ofNat (48 + n) else Char.ofNat (55 + n)

/-- most significant digit first; `fuel` bounds the number of digits -/
def hexDigitsAux : Nat → Nat → List Char → List Char
  | 0, _, acc => acc
  | fuel+1, v, acc =>
    let acc := upperHexDigit (v % 16) :: acc
    if v / 16 = 0 then acc else hexDigitsAux fuel (v / 16) acc

/-- C `%X` of a value below 2^64 -/
def hexX (v : Nat) : String := String.ofList (hexDigitsAux 16 v [])

/-- C `%08X` -/
def hex08X (v : Nat) : String :=
  let ds := hexDigitsAux 16 v []
  String.ofList (List.replicate (8 - ds.length) '0' ++ ds)

/-- an LSN as PostgreSQL prints it: `%X/%X` of the high and low 32 bits -/
def lsnText (lsn : Nat) : String := hexX (lsn / 2 ^ 32) ++ "/" ++ hexX (lsn % 2 ^ 32)

/-- `XLogFileName(tli, XLByteToSeg(lsn, segsz), segsz)` -/
def xlogFileName (tli lsn segsz : Nat) : String :=
  let segno := lsn / segsz
  let perId := 2 ^ 32 / segsz
  hex08X tli ++ hex08X (segno / perId) ++ hex08X (segno % perId)

/-- `dbState()` of pg_controldata for the seven defined states -/
def stateNames : List String :=
  ["starting up", "shut down", "shut down in recovery", "shutting down", "in crash recovery",
   "in archive recovery", "in production"]

def stateName (s : Int) : String :=
  if 0 ≤ s ∧ s < 7 then stateNames.getD s.toNat "" else "unknown (" ++ toString s ++ ")"

/-- `wal_level_str()`: WAL_LEVEL_MINIMAL 0, REPLICA 1, LOGICAL 2 -/
def walLevelNames : List String := ["minimal", "replica", "logical"]

/-! ### which PostgreSQL wrote the file

`pg_control_version` (PG_CONTROL_VERSION, pg_control.h) and `catalog_version_no` (CATALOG_VERSION_NO, catversion.h) are
compile-time constants of the server.  PG_CONTROL_VERSION is 1201 in PostgreSQL 12, 1300 in 13, 14, 15 and 16 and 1700
in 17; CATALOG_VERSION_NO is bumped by every major release and never within a stable branch, so every released server of
a major version writes the same pair.  (Values as in the REL_12..REL_17 stable branches; there is no PostgreSQL source in
the sandbox to anchor them on — the only genuine file, a PostgreSQL 10 pg_control, carries 1002 / 201707211.) -/

/-- (major version, PG_CONTROL_VERSION, CATALOG_VERSION_NO) of the released PostgreSQL 12–17 -/
def pgReleases : List (Nat × Nat × Nat) :=
  [(12, 1201, 201909212), (13, 1300, 202007201), (14, 1300, 202107181), (15, 1300, 202209061), (16, 1300, 202307071),
   (17, 1700, 202406281)]

/-- the major version of the PostgreSQL 12–17 server that writes this pair of version numbers; `none` for a pair no
released 12–17 server writes (older or newer servers, development snapshots, damaged files) -/
def pgMajorOf (controlVersion catalogVersion : Nat) : Option Nat :=
  (pgReleases.find? fun r => r.2.1 == controlVersion && r.2.2 == catalogVersion).map (·.1)

example : pgMajorOf 1201 201909212 = some 12 ∧ pgMajorOf 1300 202107181 = some 14 ∧ pgMajorOf 1201 202107181 = none ∧
    pgMajorOf 1700 202406281 = some 17 := by
  decide

/-- the released major 12–17 whose CATALOG_VERSION_NO this is, if any (the catalog version alone identifies the major:
the six values are distinct) -/
def pgMajorOfCatalog (catalogVersion : Nat) : Option Nat :=
  (pgReleases.find? fun r => r.2.2 == catalogVersion).map (·.1)

/-- **What a correct tool reports as the major version** (`some 0` = "unknown"; `none` = the Spec is silent):
* a pair a released PostgreSQL 12–17 writes → that major;
* a control version of PostgreSQL 12 or later (≥ 1201) with a catalog version NO release 12–17 carries (a development
  snapshot, a release newer than the table, a damaged file) → 0: no server this table knows wrote the file, and a
  confident wrong major is worse than none;
* silent on the rest: a release's catalog version beside a control version that release does not write (damaged
  file; the tool lets the catalog version decide), and control versions below 1201 (PostgreSQL 11 and older: outside
  the property, the tool's older rules apply). -/
def majorReport (controlVersion catalogVersion : Nat) : Option Nat :=
  match pgMajorOf controlVersion catalogVersion with
  | some M => some M
  | none =>
    match pgMajorOfCatalog catalogVersion with
    | some _ => none
    | none => if controlVersion ≥ 1201 then some 0 else none

example : majorReport 1300 202307071 = some 16 ∧ majorReport 1700 202406281 = some 17 ∧ majorReport 1201 0 = some 0 ∧
    majorReport 1300 202406280 = some 0 ∧ majorReport 1800 202506291 = some 0 ∧ majorReport 1300 202406281 = none ∧
    majorReport 1100 201809051 = none := by decide

/-! ### the control data -/

structure ControlData where
  systemIdentifier : Nat
  pgControlVersion : Nat
  catalogVersionNo : Nat
  state : Int                       -- DBState (int32 enum)
  time : Int                        -- pg_time_t of the last pg_control update
  checkPoint : Nat
  -- CheckPoint checkPointCopy
  redo : Nat
  thisTLI : Nat
  prevTLI : Nat
  fullPageWrites : Bool
  nextXid : Nat                     -- low half of the FullTransactionId
  nextXidEpoch : Nat                -- high half
  nextOid : Nat
  nextMulti : Nat
  nextMultiOffset : Nat
  oldestXid : Nat
  oldestXidDB : Nat
  oldestMulti : Nat
  oldestMultiDB : Nat
  cpTime : Int
  oldestCommitTsXid : Nat
  newestCommitTsXid : Nat
  oldestActiveXid : Nat
  -- rest of ControlFileData
  unloggedLSN : Nat
  minRecoveryPoint : Nat
  minRecoveryPointTLI : Nat
  backupStartPoint : Nat
  backupEndPoint : Nat
  backupEndRequired : Bool
  walLevel : Nat
  walLogHints : Bool
  maxConnections : Nat
  maxWorkerProcesses : Nat
  maxWalSenders : Nat
  maxPreparedXacts : Nat
  maxLocksPerXact : Nat
  trackCommitTimestamp : Bool
  maxAlign : Nat
  floatFormat : Nat                 -- IEEE bits of the double
  blcksz : Nat
  relsegSize : Nat
  xlogBlcksz : Nat
  xlogSegSize : Nat
  nameDataLen : Nat
  indexMaxKeys : Nat
  toastMaxChunkSize : Nat
  loblksize : Nat
  byVal0 : Bool                     -- float8ByVal (13+) / float4ByVal (12)
  byVal1 : Bool                     -- float8ByVal (12) / padding (13+)
  dataChecksumVersion : Nat
  nonce : Nat                       -- mock_authentication_nonce, 32 bytes
deriving Repr, DecidableEq, Inhabited

def b2n (b : Bool) : Nat := if b then 1 else 0

/-- the struct up to (excluding) the crc: 288 bytes -/
def ControlData.fields (c : ControlData) : List Field :=
  [(8, c.systemIdentifier), (4, c.pgControlVersion), (4, c.catalogVersionNo), (4, ofSigned 32 c.state), (4, 0),
   (8, ofSigned 64 c.time), (8, c.checkPoint),
   (8, c.redo), (4, c.thisTLI), (4, c.prevTLI), (1, b2n c.fullPageWrites), (7, 0),
   (4, c.nextXid), (4, c.nextXidEpoch), (4, c.nextOid), (4, c.nextMulti), (4, c.nextMultiOffset),
   (4, c.oldestXid), (4, c.oldestXidDB), (4, c.oldestMulti), (4, c.oldestMultiDB), (4, 0),
   (8, ofSigned 64 c.cpTime), (4, c.oldestCommitTsXid), (4, c.newestCommitTsXid), (4, c.oldestActiveXid), (4, 0),
   (8, c.unloggedLSN), (8, c.minRecoveryPoint), (4, c.minRecoveryPointTLI), (4, 0),
   (8, c.backupStartPoint), (8, c.backupEndPoint), (1, b2n c.backupEndRequired), (3, 0),
   (4, c.walLevel), (1, b2n c.walLogHints), (3, 0),
   (4, c.maxConnections), (4, c.maxWorkerProcesses), (4, c.maxWalSenders), (4, c.maxPreparedXacts),
   (4, c.maxLocksPerXact), (1, b2n c.trackCommitTimestamp), (3, 0),
   (4, c.maxAlign), (8, c.floatFormat), (4, c.blcksz), (4, c.relsegSize), (4, c.xlogBlcksz), (4, c.xlogSegSize),
   (4, c.nameDataLen), (4, c.indexMaxKeys), (4, c.toastMaxChunkSize), (4, c.loblksize),
   (1, b2n c.byVal0), (1, b2n c.byVal1), (2, 0), (4, c.dataChecksumVersion), (32, c.nonce)]

/-- the bytes the CRC covers (offsets 0..288) -/
def ControlData.body (c : ControlData) : Bytes := encFields c.fields

/-- a pg_control image: body, the stored crc, 4 bytes of struct padding (sizeof = 296), then `pad`
zero bytes (PostgreSQL pads the file to 8192: pad = 7896) -/
def encControl (c : ControlData) (crc : Nat) (pad : Nat) : Bytes :=
  c.body ++ (le 4 crc ++ (zeros 4 ++ zeros pad))

def legalBlockSizes : List Nat := [1024, 2048, 4096, 8192, 16384, 32768]
def legalXlogBlockSizes : List Nat := [1024, 2048, 4096, 8192, 16384, 32768, 65536]
def legalSegSizes : List Nat := (List.range 11).map fun k => 2 ^ (20 + k)

def ControlData.WF (c : ControlData) : Prop :=
  c.systemIdentifier < 2 ^ 64 ∧ c.pgControlVersion < 2 ^ 32 ∧ c.catalogVersionNo < 2 ^ 32 ∧
  (-(2 ^ 31 : Int) ≤ c.state ∧ c.state < 2 ^ 31) ∧ (-(2 ^ 63 : Int) ≤ c.time ∧ c.time < 2 ^ 63) ∧
  c.checkPoint < 2 ^ 64 ∧ c.redo < 2 ^ 64 ∧ c.thisTLI < 2 ^ 32 ∧ c.prevTLI < 2 ^ 32 ∧
  c.nextXid < 2 ^ 32 ∧ c.nextXidEpoch < 2 ^ 32 ∧ c.nextOid < 2 ^ 32 ∧ c.nextMulti < 2 ^ 32 ∧
  c.nextMultiOffset < 2 ^ 32 ∧ c.oldestXid < 2 ^ 32 ∧ c.oldestXidDB < 2 ^ 32 ∧ c.oldestMulti < 2 ^ 32 ∧
  c.oldestMultiDB < 2 ^ 32 ∧ (-(2 ^ 63 : Int) ≤ c.cpTime ∧ c.cpTime < 2 ^ 63) ∧
  c.oldestCommitTsXid < 2 ^ 32 ∧ c.newestCommitTsXid < 2 ^ 32 ∧ c.oldestActiveXid < 2 ^ 32 ∧
  c.unloggedLSN < 2 ^ 64 ∧ c.minRecoveryPoint < 2 ^ 64 ∧ c.minRecoveryPointTLI < 2 ^ 32 ∧
  c.backupStartPoint < 2 ^ 64 ∧ c.backupEndPoint < 2 ^ 64 ∧
  c.walLevel ≤ 2 ∧ c.maxConnections < 2 ^ 31 ∧ c.maxWorkerProcesses < 2 ^ 31 ∧ c.maxWalSenders < 2 ^ 31 ∧
  c.maxPreparedXacts < 2 ^ 31 ∧ c.maxLocksPerXact < 2 ^ 31 ∧
  c.maxAlign < 2 ^ 32 ∧ c.floatFormat < 2 ^ 64 ∧ c.blcksz ∈ legalBlockSizes ∧ (0 < c.relsegSize ∧ c.relsegSize < 2 ^ 32) ∧
  c.xlogBlcksz ∈ legalXlogBlockSizes ∧ c.xlogSegSize ∈ legalSegSizes ∧ c.nameDataLen < 2 ^ 32 ∧
  c.indexMaxKeys < 2 ^ 32 ∧ c.toastMaxChunkSize < 2 ^ 32 ∧ c.loblksize < 2 ^ 32 ∧
  c.dataChecksumVersion < 2 ^ 32 ∧ c.nonce < 256 ^ 32

instance ControlData.decWF (c : ControlData) : Decidable c.WF := by unfold ControlData.WF; infer_instance

/-- what a reader of pg_control must report (the fields the property names) -/
structure ControlView where
  systemIdentifier : Nat
  pgControlVersion : Nat
  catalogVersionNo : Nat
  state : Int
  stateString : String
  checkpointLSN : String
  redoLSN : String
  redoWALFile : String
  timeLineID : Nat
  prevTimeLineID : Nat
  fullPageWrites : Bool
  nextXIDEpoch : Nat
  nextXID : Nat
  nextOID : Nat
  nextMulti : Nat
  nextMultiOffset : Nat
  oldestXID : Nat
  oldestXIDDB : Nat
  oldestActiveXID : Nat
  oldestMulti : Nat
  oldestMultiDB : Nat
  oldestCommitTsXID : Nat
  newestCommitTsXID : Nat
  checkpointTime : Int              -- seconds since 1970-01-01 UTC
  walLevel : String
  walLogHints : Bool
  maxConnections : Int
  maxWorkerProcesses : Int
  maxWALSenders : Int
  maxPreparedXacts : Int
  maxLocksPerXact : Int
  trackCommitTS : Bool
  maxAlign : Nat
  blockSize : Nat
  blocksPerSeg : Nat
  walBlockSize : Nat
  walSegmentSize : Nat
  nameDataLen : Nat
  indexMaxKeys : Nat
  toastMaxChunk : Nat
  largeObjectChunk : Nat
  floatFormatOK : Bool
  dataChecksumsEnabled : Bool
  crc : Nat
  crcValid : Bool
deriving Repr, DecidableEq, Inhabited

/-- IEEE-754 bits of 1234567.0 (`FLOATFORMAT_VALUE`) -/
def floatFormatBits : Nat := 0x4132D68700000000

def viewControl (c : ControlData) (crc : Nat) : ControlView :=
  { systemIdentifier := c.systemIdentifier, pgControlVersion := c.pgControlVersion,
    catalogVersionNo := c.catalogVersionNo, state := c.state, stateString := stateName c.state,
    checkpointLSN := lsnText c.checkPoint, redoLSN := lsnText c.redo,
    redoWALFile := xlogFileName c.thisTLI c.redo c.xlogSegSize,
    timeLineID := c.thisTLI, prevTimeLineID := c.prevTLI, fullPageWrites := c.fullPageWrites,
    nextXIDEpoch := c.nextXidEpoch, nextXID := c.nextXid, nextOID := c.nextOid, nextMulti := c.nextMulti,
    nextMultiOffset := c.nextMultiOffset, oldestXID := c.oldestXid, oldestXIDDB := c.oldestXidDB,
    oldestActiveXID := c.oldestActiveXid, oldestMulti := c.oldestMulti, oldestMultiDB := c.oldestMultiDB,
    oldestCommitTsXID := c.oldestCommitTsXid, newestCommitTsXID := c.newestCommitTsXid,
    checkpointTime := c.cpTime, walLevel := walLevelNames.getD c.walLevel "", walLogHints := c.walLogHints,
    maxConnections := c.maxConnections, maxWorkerProcesses := c.maxWorkerProcesses,
    maxWALSenders := c.maxWalSenders, maxPreparedXacts := c.maxPreparedXacts,
    maxLocksPerXact := c.maxLocksPerXact, trackCommitTS := c.trackCommitTimestamp,
    maxAlign := c.maxAlign, blockSize := c.blcksz, blocksPerSeg := c.relsegSize, walBlockSize := c.xlogBlcksz,
    walSegmentSize := c.xlogSegSize, nameDataLen := c.nameDataLen, indexMaxKeys := c.indexMaxKeys,
    toastMaxChunk := c.toastMaxChunkSize, largeObjectChunk := c.loblksize,
    floatFormatOK := c.floatFormat == floatFormatBits,
    dataChecksumsEnabled := c.dataChecksumVersion != 0,
    crc := crc, crcValid := crc == crc32c c.body }

end PgVerif.Spec
