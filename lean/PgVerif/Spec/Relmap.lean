/-
  Spec side of pg_filenode.map (src/backend/utils/cache/relmapper.c).  Two layouts, same magic 0x592717:

    PostgreSQL 12–15   MAX_MAPPINGS = 62:  magic i32, num_mappings i32, 62 × {mapoid, mapfilenode}, crc u32 @504,
                       pad i32 @508; sizeof(RelMapFile) = 512
    PostgreSQL 16      MAX_MAPPINGS = 64 (commit d8cd0c6c95, "Remove the restriction that the relmap must be 512
                       bytes"): magic, num_mappings, 64 × {mapoid, mapfilenode}, crc u32 @520, no padding;
                       sizeof(RelMapFile) = 524

  PostgreSQL writes and reads exactly sizeof(RelMapFile) bytes, so a genuine file is 512 bytes long up to
  version 15 and 524 bytes long in version 16.  The crc is the CRC-32C (`Spec.crc32c`) of the bytes before it, and
  load_relmap_file refuses a file whose stored crc is not that (`relmapCrcOk`).  Unused mapping slots may hold anything
  (PostgreSQL leaves them zero).

  A reader that is handed an image in a buffer — possibly longer than the struct: a file read into a larger
  buffer, a padded copy — cannot go by the length.  What it can go by is PostgreSQL's own validity check: an intact
  file verifies at the crc offset of the layout it was written in.  The two layouts OVERLAP byte for byte (a 12–15
  struct followed by 12 more bytes is, member by member, a 16 struct with ≤ 62 mappings: Props.C20.C20_relmap_overlap),
  so nothing but the crc (and a count above 62) tells them apart, and an image that verifies at both offsets is
  genuinely both (Props.C20.C20_relmap_collision).
  (The PostgreSQL 16 numbers are from the relmapper.c source as I know it; there is no PostgreSQL source or
  PostgreSQL 16 cluster in the sandbox to anchor them on.)
-/
import PgVerif.Basic.Bytes
import PgVerif.Spec.Crc
namespace PgVerif.Spec
open PgVerif

def relmapMagic : Nat := 0x592717
/-- MAX_MAPPINGS of PostgreSQL 12–15 -/
def relmapMax : Nat := 62
/-- MAX_MAPPINGS of PostgreSQL 16 -/
def relmapMax16 : Nat := 64

/-- the two on-disk layouts -/
inductive RelMapLayout where
  | v12    -- PostgreSQL 12, 13, 14, 15
  | v16    -- PostgreSQL 16
deriving Repr, DecidableEq, Inhabited

def RelMapLayout.maxMappings : RelMapLayout → Nat | .v12 => 62 | .v16 => 64
def RelMapLayout.padLen : RelMapLayout → Nat | .v12 => 4 | .v16 => 0
/-- offsetof(RelMapFile, crc) -/
def RelMapLayout.crcOffset (l : RelMapLayout) : Nat := 8 + 8 * l.maxMappings
/-- sizeof(RelMapFile) -/
def RelMapLayout.size (l : RelMapLayout) : Nat := l.crcOffset + 4 + l.padLen

example : RelMapLayout.v12.size = 512 ∧ RelMapLayout.v12.crcOffset = 504 ∧
    RelMapLayout.v16.size = 524 ∧ RelMapLayout.v16.crcOffset = 520 := by decide

structure RelMap where
  mappings : List (Nat × Nat)      -- (oid, filenode) in stored order; duplicates allowed
  unused : Bytes                   -- the unused slots: 8·(MAX_MAPPINGS − n) bytes
  crc : Nat
  pad : Bytes                      -- 4 bytes after the crc (12–15), nothing (16)
deriving Repr, DecidableEq, Inhabited

def encMapping (m : Nat × Nat) : Bytes := le 4 m.1 ++ le 4 m.2

/-- header fields given explicitly: used for rejected images too -/
def encRelMapRaw (magic count : Nat) (m : RelMap) : Bytes :=
  le 4 magic ++ (le 4 count ++ (m.mappings.flatMap encMapping ++ (m.unused ++ (le 4 m.crc ++ m.pad))))

def encRelMap (m : RelMap) : Bytes := encRelMapRaw relmapMagic m.mappings.length m

/-- a map that fits layout `l` -/
def RelMap.WFL (l : RelMapLayout) (m : RelMap) : Prop :=
  m.mappings.length ≤ l.maxMappings ∧ m.unused.length = 8 * (l.maxMappings - m.mappings.length) ∧
  m.crc < 2 ^ 32 ∧ m.pad.length = l.padLen ∧ ∀ e ∈ m.mappings, e.1 < 2 ^ 32 ∧ e.2 < 2 ^ 32

instance RelMap.decWFL (l : RelMapLayout) (m : RelMap) : Decidable (m.WFL l) := by unfold RelMap.WFL; infer_instance

/-- PostgreSQL 12–15 -/
def RelMap.WF (m : RelMap) : Prop :=
  m.mappings.length ≤ relmapMax ∧ m.unused.length = 8 * (relmapMax - m.mappings.length) ∧
  m.crc < 2 ^ 32 ∧ m.pad.length = 4 ∧ ∀ e ∈ m.mappings, e.1 < 2 ^ 32 ∧ e.2 < 2 ^ 32

instance RelMap.decWF (m : RelMap) : Decidable m.WF := by unfold RelMap.WF; infer_instance

/-- PostgreSQL 16 -/
def RelMap.WF16 (m : RelMap) : Prop :=
  m.mappings.length ≤ relmapMax16 ∧ m.unused.length = 8 * (relmapMax16 - m.mappings.length) ∧
  m.crc < 2 ^ 32 ∧ m.pad.length = 0 ∧ ∀ e ∈ m.mappings, e.1 < 2 ^ 32 ∧ e.2 < 2 ^ 32

instance RelMap.decWF16 (m : RelMap) : Decidable m.WF16 := by unfold RelMap.WF16; infer_instance

theorem RelMap.WF_iff (m : RelMap) : m.WF ↔ m.WFL .v12 := Iff.rfl
theorem RelMap.WF16_iff (m : RelMap) : m.WF16 ↔ m.WFL .v16 := Iff.rfl

/-! ### the crc, and which counts fit -/

/-- the bytes the crc of layout `l` covers: everything before offsetof(RelMapFile, crc) -/
def relmapBody (l : RelMapLayout) (img : Bytes) : Bytes := img.take l.crcOffset

/-- load_relmap_file's crc check on an image that holds at least sizeof(RelMapFile) bytes of layout `l`: the stored
crc equals the CRC-32C of the bytes before it (bytes after the struct play no part) -/
def relmapCrcOk (l : RelMapLayout) (img : Bytes) : Bool :=
  decide (l.size ≤ img.length) && (rdAt 4 l.crcOffset img == crc32c (relmapBody l img))

/-- an intact map of layout `l`: the stored crc is the one PostgreSQL computes when it writes the file -/
def RelMap.Intact (l : RelMapLayout) (m : RelMap) : Prop := m.crc = crc32c (relmapBody l (encRelMap m))

instance (l : RelMapLayout) (m : RelMap) : Decidable (m.Intact l) := by unfold RelMap.Intact; infer_instance

/-- the count fits layout `l` in an image of `len` bytes: the struct fits and 0 ≤ count ≤ MAX_MAPPINGS -/
def relmapCountFits (l : RelMapLayout) (len : Nat) (count : Int) : Prop :=
  l.size ≤ len ∧ 0 ≤ count ∧ count ≤ (l.maxMappings : Int)

instance (l : RelMapLayout) (len : Nat) (count : Int) : Decidable (relmapCountFits l len count) := by
  unfold relmapCountFits; infer_instance

/-- a possible count for an image of `len` bytes: it fits one of the layouts whose struct fits.  (0..62 from 512
bytes on, 0..64 from 524 bytes on; anything else is an impossible count.) -/
def relmapCountOk (len : Nat) (count : Int) : Prop := relmapCountFits .v12 len count ∨ relmapCountFits .v16 len count

instance (len : Nat) (count : Int) : Decidable (relmapCountOk len count) := by unfold relmapCountOk; infer_instance

example : relmapCountOk 512 62 ∧ ¬ relmapCountOk 512 63 ∧ ¬ relmapCountOk 523 63 ∧ relmapCountOk 524 64 ∧ relmapCountOk 8192 64 ∧
    ¬ relmapCountOk 8192 65 ∧ ¬ relmapCountOk 8192 (-1) ∧ ¬ relmapCountOk 511 0 := by decide

/-- lookups: first stored match or 0 -/
def filenodeOf (ms : List (Nat × Nat)) (oid : Nat) : Nat :=
  match ms.find? (·.1 == oid) with | some e => e.2 | none => 0

def oidOf (ms : List (Nat × Nat)) (filenode : Nat) : Nat :=
  match ms.find? (·.2 == filenode) with | some e => e.1 | none => 0

end PgVerif.Spec
