/-
  Spec side of pg_filenode.map (src/backend/utils/cache/relmapper.c, PostgreSQL 12–15 layout with
  MAX_MAPPINGS = 62): magic i32 0x592717, num_mappings i32, 62 × {mapoid, mapfilenode}, crc u32 @504,
  padding to 512.  Unused mapping slots may hold anything (PostgreSQL leaves them zero).
-/
import PgVerif.Basic.Bytes
namespace PgVerif.Spec
open PgVerif

def relmapMagic : Nat := 0x592717
def relmapMax : Nat := 62

structure RelMap where
  mappings : List (Nat × Nat)      -- (oid, filenode) in stored order; duplicates allowed
  unused : Bytes                   -- the unused slots: 8·(62 − n) bytes
  crc : Nat
  pad : Bytes                      -- 4 bytes after the crc
deriving Repr, DecidableEq, Inhabited

def encMapping (m : Nat × Nat) : Bytes := le 4 m.1 ++ le 4 m.2

/-- header fields given explicitly: used for rejected images too -/
def encRelMapRaw (magic count : Nat) (m : RelMap) : Bytes :=
  le 4 magic ++ (le 4 count ++ (m.mappings.flatMap encMapping ++ (m.unused ++ (le 4 m.crc ++ m.pad))))

def encRelMap (m : RelMap) : Bytes := encRelMapRaw relmapMagic m.mappings.length m

def RelMap.WF (m : RelMap) : Prop :=
  m.mappings.length ≤ relmapMax ∧ m.unused.length = 8 * (relmapMax - m.mappings.length) ∧
  m.crc < 2 ^ 32 ∧ m.pad.length = 4 ∧ ∀ e ∈ m.mappings, e.1 < 2 ^ 32 ∧ e.2 < 2 ^ 32

instance RelMap.decWF (m : RelMap) : Decidable m.WF := by unfold RelMap.WF; infer_instance

/-- lookups: first stored match or 0 -/
def filenodeOf (ms : List (Nat × Nat)) (oid : Nat) : Nat :=
  match ms.find? (·.1 == oid) with | some e => e.2 | none => 0

def oidOf (ms : List (Nat × Nat)) (filenode : Nat) : Nat :=
  match ms.find? (·.2 == filenode) with | some e => e.1 | none => 0

end PgVerif.Spec
