/-
  C15 — dumps that hold Go `[]byte` values (REVIEW.md C4).

  pgread's own decoders never produce a `[]byte` (bytea is decoded to the string `\x…`), so the dumps made by
  DumpDataDir are covered by Spec/Search.lean, whose cells are `GoVal`s.  The exported `SearchInDump` and
  `SecretScanner.ScanDumpResult` however take ANY `*DumpResult`, and `matchValue` has a `case []byte`; a hand-built dump
  may hold `[]byte` cells, at any depth.  This file extends the value type by that kind and says what a correct search /
  secret scan reports for such dumps:

      a `[]byte` value is searched and scanned as the text it holds (exactly like the `string` of the same bytes).

  For the search that is what the code always did (`re.Match(v)`); for the secret scan it was not: `%v` prints a
  `[]byte` as decimal numbers (`[115 107 95 …]`), in which no detector finds anything — finding
  `search-04-secret-scan-bytes-cells-as-decimal`, repaired by fix search/04 (`fmtDecimal` below is the old text).
  Knows nothing about the Go code.  Core Lean only (driver path).
-/
import PgVerif.Spec.Search
namespace PgVerif.Spec.SearchB
open PgVerif PgVerif.Spec.Search

/-- the values a `DumpResult` can hold: the decoded kinds of `GoVal` plus Go `[]byte` -/
inductive SVal where
  | nil
  | bool (b : Bool)
  | int (i : Int)
  | f64 (bits : Nat)
  | f32 (bits : Nat)
  | str (s : Bytes)
  | bytes (b : Bytes)          -- Go []byte
  | arr (xs : List SVal)
  | obj (kvs : List (Bytes × SVal))
deriving Repr, Inhabited

abbrev SRow := List (Bytes × SVal)

structure STable where
  name : Bytes
  columns : List Bytes
  rows : List SRow
deriving Inhabited

structure SDatabase where
  name : Bytes
  tables : List STable
deriving Inhabited

abbrev SDump := List SDatabase

mutual
/-- the value with every `[]byte` (at any depth) read as the text it holds -/
def asText : SVal → GoVal
  | .nil => .nil
  | .bool b => .bool b
  | .int i => .int i
  | .f64 b => .f64 b
  | .f32 b => .f32 b
  | .str s => .str s
  | .bytes b => .str b
  | .arr xs => .arr (asTextList xs)
  | .obj kvs => .obj (asTextKvs kvs)
def asTextList : List SVal → List GoVal
  | [] => []
  | x :: xs => asText x :: asTextList xs
def asTextKvs : List (Bytes × SVal) → List (Bytes × GoVal)
  | [] => []
  | (k, v) :: rest => (k, asText v) :: asTextKvs rest
end

mutual
/-- a decoded value as a dump value (no `[]byte` anywhere) -/
def ofGo : GoVal → SVal
  | .nil => .nil
  | .bool b => .bool b
  | .int i => .int i
  | .f64 b => .f64 b
  | .f32 b => .f32 b
  | .str s => .str s
  | .arr xs => .arr (ofGoList xs)
  | .obj kvs => .obj (ofGoKvs kvs)
def ofGoList : List GoVal → List SVal
  | [] => []
  | x :: xs => ofGo x :: ofGoList xs
def ofGoKvs : List (Bytes × GoVal) → List (Bytes × SVal)
  | [] => []
  | (k, v) :: rest => (k, ofGo v) :: ofGoKvs rest
end

/-- the row with every `[]byte` read as text (same keys, same order) -/
def asTextRow (r : SRow) : Row := r.map fun kv => (kv.1, asText kv.2)

def asTextTable (t : STable) : Table := { name := t.name, columns := t.columns, rows := t.rows.map asTextRow }
def asTextDb (D : SDatabase) : Database := { name := D.name, tables := D.tables.map asTextTable }
/-- the dump with every `[]byte` read as text -/
def asTextDump (d : SDump) : Dump := d.map asTextDb

def SRow.WF (r : SRow) : Prop := (r.map (·.1)).Nodup
def SDump.WF (d : SDump) : Prop := ∀ db ∈ d, ∀ t ∈ db.tables, ∀ r ∈ t.rows, SRow.WF r

/-! ### search -/

/-- a value matches when it does with its `[]byte`s read as text -/
def cellMatchesS (re : Bytes → Bool) (sh : GoVal → Bytes) (v : SVal) : Bool := cellMatches re sh (asText v)

/-- the texts the pattern is tried on -/
def searchTextsS (sh : GoVal → Bytes) (v : SVal) : List Bytes := searchTexts sh (asText v)

def lookupS (c : Bytes) : SRow → Option SVal
  | [] => none
  | (k, v) :: rest => if k = c then some v else lookupS c rest

/-- the column order of a row depends on its keys only: it is `Spec.Search.colOrder` -/
def colOrderS (cols : List Bytes) (row : SRow) : List Bytes := colOrder cols (asTextRow row)

def rowCellsS (cols : List Bytes) (row : SRow) : List (Bytes × SVal) :=
  (colOrderS cols row).filterMap fun c => (lookupS c row).map fun v => (c, v)

/-- a hit carries the cell's value and the row as they are in the dump (`[]byte`s included) -/
structure HitS where
  db : Bytes
  table : Bytes
  row : Nat
  col : Bytes
  value : SVal
  fullRow : Option SRow
deriving Inhabited

def rowHitsS (re : Bytes → Bool) (sh : GoVal → Bytes) (incl : Bool) (db tbl : Bytes) (cols : List Bytes)
    (ri : SRow × Nat) : List HitS :=
  ((rowCellsS cols ri.1).filter fun cv => cellMatchesS re sh cv.2).map fun cv =>
    { db := db, table := tbl, row := ri.2, col := cv.1, value := cv.2, fullRow := if incl then some ri.1 else none }

/-- every matching cell, in (database, table, row, column) order -/
def allMatchesS (re : Bytes → Bool) (sh : GoVal → Bytes) (incl : Bool) (d : SDump) : List HitS :=
  d.flatMap fun D => D.tables.flatMap fun t => t.rows.zipIdx.flatMap (rowHitsS re sh incl D.name t.name t.columns)

/-- the view of the search on a dump that may hold `[]byte` values -/
def expectedS (R : Regex) (sh : GoVal → Bytes) (d : SDump) (o : Opts) : Option (List HitS) :=
  match R.compile (effPattern o) with
  | none => none
  | some re =>
    let all := allMatchesS re sh o.includeRow d
    some (if o.maxResults > 0 then all.take o.maxResults.toNat else all)

/-- every matching binding of every row, in the order in which the rows store their bindings -/
def matchingCellsS (re : Bytes → Bool) (sh : GoVal → Bytes) (incl : Bool) (d : SDump) : List HitS :=
  d.flatMap fun D => D.tables.flatMap fun t => t.rows.zipIdx.flatMap fun ri =>
    (ri.1.filter fun cv => cellMatchesS re sh cv.2).map fun cv =>
      ({ db := D.name, table := t.name, row := ri.2, col := cv.1, value := cv.2, fullRow := if incl then some ri.1 else none } : HitS)

def IsCellS (d : SDump) (db tbl : Bytes) (i : Nat) (col : Bytes) (v : SVal) (row : SRow) : Prop :=
  ∃ D ∈ d, D.name = db ∧ ∃ t ∈ D.tables, t.name = tbl ∧ t.rows[i]? = some row ∧ (col, v) ∈ row

/-! ### secret scan -/

/-- the text of a cell the detectors must be given: `%v` with every `[]byte` read as the text it holds -/
def cellTextS (sh : GoVal → Bytes) (v : SVal) : Bytes := fmtV sh (asText v)

def cellFindingsS (dets : List Detector) (sh : GoVal → Bytes) (db tbl : Bytes) (i : Nat) (cv : Bytes × SVal) : List Finding :=
  if (cellTextS sh cv.2).length < 8 then []
  else (scanText dets (cellTextS sh cv.2)).map fun r =>
    { detector := r.detector, db := db, table := tbl, col := cv.1, row := i, raw := r.raw }

/-- the view of the secret scan on a dump that may hold `[]byte` values -/
def expectedFindingsS (dets : List Detector) (sh : GoVal → Bytes) (d : SDump) : List Finding :=
  d.flatMap fun D => D.tables.flatMap fun t => t.rows.zipIdx.flatMap fun ri =>
    (rowCellsS t.columns ri.1).flatMap (cellFindingsS dets sh D.name t.name ri.2)

/-! ### what `%v` makes of a `[]byte` (the text the scan looked at before fix search/04) -/

/-- decimal text of a byte -/
def decByte (b : UInt8) : Bytes :=
  let n := b.toNat
  if n < 10 then [UInt8.ofNat (48 + n)]
  else if n < 100 then [UInt8.ofNat (48 + n / 10), UInt8.ofNat (48 + n % 10)]
  else [UInt8.ofNat (48 + n / 100), UInt8.ofNat (48 + n / 10 % 10), UInt8.ofNat (48 + n % 10)]

/-- `fmt.Sprintf("%v", []byte{…})`: `[115 107 95]` -/
def fmtDecimal (b : Bytes) : Bytes := [91] ++ joinSp (b.map decByte) ++ [93]

end PgVerif.Spec.SearchB
