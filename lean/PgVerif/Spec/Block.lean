/-
  Spec side of area block (C19): PostgreSQL's relation-file layout — a relation fork is a sequence of
  8192-byte blocks cut into segment files `<filenode>`, `<filenode>.1`, … of `bps` blocks each; every
  block starts with the 24-byte PageHeaderData (DESIGN.md section 3) — written as encoders from
  abstract values, plus the views a correct tool must report.  Knows nothing about the Go code.
-/
import PgVerif.Basic.Bytes
namespace PgVerif.Spec.BlockAddr
open PgVerif

/-! ## Blocks -/

/-- PageHeaderData: pd_lsn {xlogid, xrecoff}, pd_checksum, pd_flags, pd_lower, pd_upper, pd_special,
pd_pagesize_version, pd_prune_xid -/
structure PageHdr where
  xlogid : Nat
  xrecoff : Nat
  checksum : Nat
  flags : Nat
  lower : Nat
  upper : Nat
  special : Nat
  psv : Nat
  prune : Nat
deriving Repr, DecidableEq, Inhabited

/-- a block: header fields and the 8168 bytes that follow -/
structure RawBlock where
  hdr : PageHdr
  body : Bytes
deriving Repr, DecidableEq, Inhabited

def encHdr (h : PageHdr) : Bytes :=
  le 4 h.xlogid ++ (le 4 h.xrecoff ++ (le 2 h.checksum ++ (le 2 h.flags ++ (le 2 h.lower ++ (le 2 h.upper ++
    (le 2 h.special ++ (le 2 h.psv ++ le 4 h.prune)))))))

def encBlock (b : RawBlock) : Bytes := encHdr b.hdr ++ b.body

def PageHdr.WF (h : PageHdr) : Prop :=
  h.xlogid < 2 ^ 32 ∧ h.xrecoff < 2 ^ 32 ∧ h.checksum < 2 ^ 16 ∧ h.flags < 2 ^ 16 ∧ h.lower < 2 ^ 16 ∧
  h.upper < 2 ^ 16 ∧ h.special < 2 ^ 16 ∧ h.psv < 2 ^ 16 ∧ h.prune < 2 ^ 32

instance (h : PageHdr) : Decidable h.WF := by unfold PageHdr.WF; infer_instance

def RawBlock.WF (b : RawBlock) : Prop := b.hdr.WF ∧ b.body.length = 8168

instance (b : RawBlock) : Decidable b.WF := by unfold RawBlock.WF; infer_instance

def zeroHdr : PageHdr := ⟨0, 0, 0, 0, 0, 0, 0, 0, 0⟩
def zeroBlock : RawBlock := ⟨zeroHdr, zeros 8168⟩

/-- a never-initialised block: every byte zero -/
def RawBlock.isZero (b : RawBlock) : Bool := b.hdr == zeroHdr && b.body.all (· == 0)

theorem encHdr_length (h : PageHdr) : (encHdr h).length = 24 := by simp [encHdr]

theorem encBlock_length (b : RawBlock) (h : b.WF) : (encBlock b).length = 8192 := by
  simp [encBlock, encHdr_length, h.2]

/-- a segment file (or any relation file): whole blocks, then a partial tail (< 8192 bytes) -/
structure RelFile where
  blocks : List RawBlock
  tail : Bytes
deriving Repr, DecidableEq, Inhabited

def encFile (f : RelFile) : Bytes := f.blocks.flatMap encBlock ++ f.tail

def RelFile.WF (f : RelFile) : Prop := (∀ b ∈ f.blocks, b.WF) ∧ f.tail.length < 8192

instance (f : RelFile) : Decidable f.WF := by unfold RelFile.WF; infer_instance

/-! ## Block ranges -/

/-- why a request is rejected -/
inductive Reject where
  | beyond    -- the first requested block does not exist
  | invalid   -- first > last after clamping
deriving Repr, DecidableEq, Inhabited

/-- The documented meaning of a request `(start, stop)` (a negative number = open on that side;
`none` = the whole file) against a file of `total` blocks: the first and last block to deliver.
The start defaults to 0, the stop to the last block and is clamped to it; a start at or beyond
the end is rejected. -/
def resolve (r : Option (Int × Int)) (total : Nat) : Except Reject (Nat × Nat) :=
  let a : Nat := match r with
    | some (s, _) => if s < 0 then 0 else s.toNat
    | none => 0
  let b? : Option Nat := match r with
    | some (_, e) => if e < 0 then none else some e.toNat
    | none => none
  if a ≥ total then .error .beyond
  else
    let b := match b? with
      | some e => min e (total - 1)
      | none => total - 1
    if a > b then .error .invalid else .ok (a, b)

/-- the requested blocks with the number of the first one -/
def selectBlocks (f : RelFile) (r : Option (Int × Int)) : Except Reject (Nat × List RawBlock) :=
  match resolve r f.blocks.length with
  | .error e => .error e
  | .ok (a, b) => .ok (a, (f.blocks.drop a).take (b - a + 1))

/-- the grammar of the range option: `a`, `a:b`, `a:`, `:b` with decimal numbers (digits only) and
a ≤ b; numbers are limited to the platform `int` (< 2^63) -/
def isDigits (s : Bytes) : Bool := !s.isEmpty && s.all fun c => 48 ≤ c && c ≤ 57

def decimal (s : Bytes) : Nat := s.foldl (fun acc c => acc * 10 + (c.toNat - 48)) 0

def number (s : Bytes) : Option Nat := if isDigits s && decimal s < 2 ^ 63 then some (decimal s) else none

/-- split at the first ':' -/
def splitFirstColon : Bytes → Option (Bytes × Bytes)
  | [] => none
  | c :: rest =>
    if c == 58 then some ([], rest)
    else (splitFirstColon rest).map fun (l, r) => (c :: l, r)

/-- `some (start, stop)` (−1 = open) for the strings of the grammar, `none` for every other string -/
def rangeSyntax (s : Bytes) : Option (Int × Int) :=
  match splitFirstColon s with
  | none => (number s).map fun a => ((a : Int), (a : Int))
  | some (l, r) =>
    if l.isEmpty && r.isEmpty then none
    else if l.isEmpty then (number r).map fun b => (-1, (b : Int))
    else if r.isEmpty then (number l).map fun a => ((a : Int), -1)
    else match number l, number r with
      | some a, some b => if a ≤ b then some ((a : Int), (b : Int)) else none
      | _, _ => none

/-! ## Views -/

/-- what a block summary must say -/
structure InfoView where
  number : Nat
  lsn : Nat            -- xlogid · 2^32 + xrecoff
  checksum : Nat
  flags : Nat
  lower : Nat
  upper : Nat
  special : Nat
  pageSize : Nat       -- pd_pagesize_version with the version byte cleared
  version : Nat        -- low byte
  itemCount : Nat      -- line pointers between the header and pd_lower
  freeSpace : Nat      -- pd_upper − pd_lower
  isEmpty : Bool
deriving Repr, DecidableEq, Inhabited

def infoView (number : Nat) (b : RawBlock) : InfoView :=
  if b.isZero then ⟨number, 0, 0, 0, 0, 0, 0, 0, 0, 0, 0, true⟩
  else
    let h := b.hdr
    ⟨number, h.xlogid * 2 ^ 32 + h.xrecoff, h.checksum, h.flags, h.lower, h.upper, h.special,
     h.psv / 256 * 256, h.psv % 256, (h.lower - 24) / 4, h.upper - h.lower, false⟩

/-- number the blocks of a selection: block `i` of the selection is block `first + i` of the file -/
def numbered {α} (first : Nat) : List α → List (Nat × α)
  | [] => []
  | b :: bs => (first, b) :: numbered (first + 1) bs

def infoViews (first : Nat) (bs : List RawBlock) : List InfoView :=
  (numbered first bs).map fun (n, b) => infoView n b

/-- binary dump of a block: number, byte offset in the file, the block's bytes -/
structure DumpView where
  number : Nat
  offset : Nat
  bytes : Bytes
deriving Repr, DecidableEq, Inhabited

def dumpViews (first : Nat) (bs : List RawBlock) : List DumpView :=
  (numbered first bs).map fun (n, b) => ⟨n, 8192 * n, encBlock b⟩

/-- the tallies of a range summary (fill = Σ over formatted blocks with a page size of
(page size − free space), against 8192 per formatted block) -/
structure StatsView where
  totalBlocks : Nat
  startBlock : Nat
  endBlock : Nat
  emptyBlocks : Nat
  usedBlocks : Nat
  totalItems : Nat
  totalFree : Nat
  fillNum : Int
  fillDen : Nat
deriving Repr, DecidableEq, Inhabited

def statsView (vs : List InfoView) : StatsView :=
  let used := vs.filter (!·.isEmpty)
  { totalBlocks := vs.length,
    startBlock := (vs.head?.map (·.number)).getD 0,
    endBlock := (vs.getLast?.map (·.number)).getD 0,
    emptyBlocks := (vs.filter (·.isEmpty)).length,
    usedBlocks := used.length,
    totalItems := (used.map (·.itemCount)).sum,
    totalFree := (used.map (·.freeSpace)).sum,
    fillNum := ((used.filter (·.pageSize > 0)).map fun v => (v.pageSize : Int) - (v.freeSpace : Int)).sum,
    fillDen := if vs.isEmpty then 0 else used.length * 8192 }

/-! ## Segments -/

/-- global block `g` of a relation cut into segments of `bps` blocks -/
def segmentOf (g bps : Nat) : Nat × Nat := (g / bps, g % bps)

/-- a relation as its segment files, in order (`base`, `base.1`, …) -/
abbrev Relation := List RelFile

def globalBlock (rel : Relation) (bps g : Nat) : Option RawBlock :=
  match rel[(segmentOf g bps).1]? with
  | some f => f.blocks[(segmentOf g bps).2]?
  | none => none

/-- global blocks `g, g+1, …` (at most `n`) up to the first one that is not there -/
def globalRun (rel : Relation) (bps : Nat) : Nat → Nat → List RawBlock
  | 0, _ => []
  | n+1, g =>
    match globalBlock rel bps g with
    | some b => b :: globalRun rel bps n (g + 1)
    | none => []

/-- the multi-segment read of global blocks a..b (inclusive) -/
def multiView (rel : Relation) (bps a b : Nat) : Bytes :=
  (globalRun rel bps (b + 1 - a) a).flatMap encBlock

/-- segment number carried by a segment file name: `<stem>` → 0, `<stem>.<digits>` → the number -/
def segName (stem : Bytes) (seg : Nat) : Bytes :=
  if seg = 0 then stem else stem ++ [46] ++ (toString seg).toUTF8.toList

/-! ## Checksum accounting (for any checksum function `ck : block bytes → block number → 16-bit value`) -/

structure CkError where
  number : Nat
  stored : Nat
  computed : Nat
deriving Repr, DecidableEq, Inhabited

structure CkFileView where
  totalBlocks : Nat
  validBlocks : Nat
  invalidBlocks : Nat
  zeroBlocks : Nat
  errors : List CkError
deriving Repr, DecidableEq, Inhabited

/-- the verdict for one block: depends on the block's bytes and its relation-wide number only -/
def ckVerdict (ck : Bytes → Nat → Nat) (number : Nat) (b : RawBlock) : Option CkError :=
  if b.isZero then none
  else if b.hdr.checksum = ck (encBlock b) number then none
  else some ⟨number, b.hdr.checksum, ck (encBlock b) number⟩

/-- relation-wide number of block `i` of segment `seg` (1 GiB segments = 131072 blocks) -/
def relBlockNumber (seg i : Nat) : Nat := seg * 131072 + i

def ckFileView (ck : Bytes → Nat → Nat) (seg : Nat) (bs : List RawBlock) : CkFileView :=
  let errs := (numbered 0 bs).filterMap fun (i, b) => ckVerdict ck (relBlockNumber seg i) b
  { totalBlocks := bs.length, validBlocks := bs.length - errs.length, invalidBlocks := errs.length,
    zeroBlocks := (bs.filter (·.isZero)).length, errors := errs }

/-! ## Data directories -/

/-- a relation segment file inside a database directory -/
structure SegFile where
  filenode : Nat
  seg : Nat
  file : RelFile
deriving Repr, DecidableEq, Inhabited

def decimalName (n : Nat) : Bytes := (toString n).toUTF8.toList

def SegFile.name (s : SegFile) : Bytes := segName (decimalName s.filenode) s.seg

/-- a database directory: relation segment files, other files (forks, maps, version files …),
sub-directories -/
structure Database where
  oid : Nat
  segs : List SegFile
  others : List (Bytes × Bytes)
  subdirs : List Bytes
deriving Repr, Inhabited

/-- `<dataDir>/base`: databases, plus entries that are not database directories -/
structure BaseDir where
  dbs : List Database
  strayFiles : List Bytes                               -- plain files directly in base/
  strayDirs : List (Bytes × List (Bytes × Bytes))       -- directories whose name is not an OID
deriving Repr, Inhabited

/-- `<digits>` or `<digits>.<digits>` — the names of main-fork relation segment files -/
def isRelSegName (name : Bytes) : Bool :=
  match (name.reverse.span (· != 46)) with
  | (_, []) => isDigits name
  | (revSuffix, _ :: revStem) => isDigits revSuffix.reverse && isDigits revStem.reverse

/-- result per visited file -/
structure CkDirFile where
  db : Bytes
  name : Bytes
  view : CkFileView
deriving Repr, DecidableEq, Inhabited

/-- every relation segment file with at least one block is visited, with its own segment number -/
def ckDirFiles (ck : Bytes → Nat → Nat) (base : BaseDir) : List CkDirFile :=
  base.dbs.flatMap fun db =>
    (db.segs.filter fun s => s.file.blocks.length ≥ 1).map fun s =>
      ⟨decimalName db.oid, s.name, ckFileView ck s.seg s.file.blocks⟩

structure CkDirView where
  totalFiles : Nat
  totalBlocks : Nat
  validBlocks : Nat
  invalidBlocks : Nat
  files : List CkDirFile      -- those with at least one invalid block (any order)
deriving Repr, Inhabited

def ckDirView (ck : Bytes → Nat → Nat) (base : BaseDir) : CkDirView :=
  let fs := ckDirFiles ck base
  { totalFiles := fs.length,
    totalBlocks := (fs.map (·.view.totalBlocks)).sum,
    validBlocks := (fs.map (·.view.validBlocks)).sum,
    invalidBlocks := (fs.map (·.view.invalidBlocks)).sum,
    files := fs.filter fun f => !f.view.errors.isEmpty }

end PgVerif.Spec.BlockAddr
