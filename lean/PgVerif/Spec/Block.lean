/-
  Spec side of area block (C19): PostgreSQL's relation-file layout — a relation fork is a sequence of
  8192-byte blocks cut into segment files `<filenode>`, `<filenode>.1`, … of `bps` blocks each; every
  block starts with the 24-byte PageHeaderData (DESIGN.md section 3) — written as encoders from
  abstract values, plus the views a correct tool must report.  Knows nothing about the Go code.
-/
import PgVerif.Basic.Bytes
namespace PgVerif.Spec.BlockAddr
open PgVerif

/-! ## Blocks -/

/-- PageHeaderData: pd_lsn {xlogid, xrecoff}, pd_checksum, pd_flags, pd_lower, pd_upper, pd_special,
pd_pagesize_version, pd_prune_xid -/
structure PageHdr where
  xlogid : Nat
  xrecoff : Nat
  checksum : Nat
  flags : Nat
  lower : Nat
  upper : Nat
  special : Nat
  psv : Nat
  prune : Nat
deriving Repr, DecidableEq, Inhabited

/-- a block: header fields and the 8168 bytes that follow -/
structure RawBlock where
  hdr : PageHdr
  body : Bytes
deriving Repr, DecidableEq, Inhabited

def encHdr (h : PageHdr) : Bytes :=
  le 4 h.xlogid ++ (le 4 h.xrecoff ++ (le 2 h.checksum ++ (le 2 h.flags ++ (le 2 h.lower ++ (le 2 h.upper ++
    (le 2 h.special ++ (le 2 h.psv ++ le 4 h.prune)))))))

def encBlock (b : RawBlock) : Bytes := encHdr b.hdr ++ b.body

def PageHdr.WF (h : PageHdr) : Prop :=
  h.xlogid < 2 ^ 32 ∧ h.xrecoff < 2 ^ 32 ∧ h.checksum < 2 ^ 16 ∧ h.flags < 2 ^ 16 ∧ h.lower < 2 ^ 16 ∧
  h.upper < 2 ^ 16 ∧ h.special < 2 ^ 16 ∧ h.psv < 2 ^ 16 ∧ h.prune < 2 ^ 32

instance (h : PageHdr) : Decidable h.WF := by unfold PageHdr.WF; infer_instance

def RawBlock.WF (b : RawBlock) : Prop := b.hdr.WF ∧ b.body.length = 8168

instance (b : RawBlock) : Decidable b.WF := by unfold RawBlock.WF; infer_instance

def zeroHdr : PageHdr := ⟨0, 0, 0, 0, 0, 0, 0, 0, 0⟩
def zeroBlock : RawBlock := ⟨zeroHdr, zeros 8168⟩

/-- a never-initialised block: every byte zero -/
def RawBlock.isZero (b : RawBlock) : Bool := b.hdr == zeroHdr && b.body.all (· == 0)

theorem encHdr_length (h : PageHdr) : (encHdr h).length = 24 := by simp [encHdr]

theorem encBlock_length (b : RawBlock) (h : b.WF) : (encBlock b).length = 8192 := by
  simp [encBlock, encHdr_length, h.2]

/-- a segment file (or any relation file): whole blocks, then a partial tail (< 8192 bytes) -/
structure RelFile where
  blocks : List RawBlock
  tail : Bytes
deriving Repr, DecidableEq, Inhabited

def encFile (f : RelFile) : Bytes := f.blocks.flatMap encBlock ++ f.tail

def RelFile.WF (f : RelFile) : Prop := (∀ b ∈ f.blocks, b.WF) ∧ f.tail.length < 8192

instance (f : RelFile) : Decidable f.WF := by unfold RelFile.WF; infer_instance

/-! ## Block ranges -/

/-- why a request is rejected -/
inductive Reject where
  | beyond    -- the first requested block does not exist
  | invalid   -- first > last after clamping
deriving Repr, DecidableEq, Inhabited

/-- The documented meaning of a request `(start, stop)` (a negative number = open on that side;
`none` = the whole file) against a file of `total` blocks: the first and last block to deliver.
The start defaults to 0, the stop to the last block and is clamped to it; a start at or beyond
the end is rejected. -/
def resolve (r : Option (Int × Int)) (total : Nat) : Except Reject (Nat × Nat) :=
  let a : Nat := match r with
    | some (s, _) => if s < 0 then 0 else s.toNat
    | none => 0
  let b? : Option Nat := match r with
    | some (_, e) => if e < 0 then none else some e.toNat
    | none => none
  if a ≥ total then .error .beyond
  else
    let b := match b? with
      | some e => min e (total - 1)
      | none => total - 1
    if a > b then .error .invalid else .ok (a, b)

/-- the requested blocks with the number of the first one -/
def selectBlocks (f : RelFile) (r : Option (Int × Int)) : Except Reject (Nat × List RawBlock) :=
  match resolve r f.blocks.length with
  | .error e => .error e
  | .ok (a, b) => .ok (a, (f.blocks.drop a).take (b - a + 1))

/-- the grammar of the range option: `a`, `a:b`, `a:`, `:b` with decimal numbers (digits only) and
a ≤ b; numbers are limited to the platform `int` (< 2^63) -/
def isDigits (s : Bytes) : Bool := !s.isEmpty && s.all fun c => 48 ≤ c && c ≤ 57

def decimal (s : Bytes) : Nat := s.foldl (fun acc c => acc * 10 + (c.toNat - 48)) 0

def number (s : Bytes) : Option Nat := if isDigits s && decimal s < 2 ^ 63 then some (decimal s) else none

/-- split at the first ':' -/
def splitFirstColon : Bytes → Option (Bytes × Bytes)
  | [] => none
  | c :: rest =>
    if c == 58 then some ([], rest)
    else (splitFirstColon rest).map fun (l, r) => (c :: l, r)

/-- `some (start, stop)` (−1 = open) for the strings of the grammar, `none` for every other string -/
def rangeSyntax (s : Bytes) : Option (Int × Int) :=
  match splitFirstColon s with
  | none => (number s).map fun a => ((a : Int), (a : Int))
  | some (l, r) =>
    if l.isEmpty && r.isEmpty then none
    else if l.isEmpty then (number r).map fun b => (-1, (b : Int))
    else if r.isEmpty then (number l).map fun a => ((a : Int), -1)
    else match number l, number r with
      | some a, some b => if a ≤ b then some ((a : Int), (b : Int)) else none
      | _, _ => none

/-! ## Views -/

/-- what a block summary must say -/
structure InfoView where
  number : Nat
  lsn : Nat            -- xlogid · 2^32 + xrecoff
  checksum : Nat
  flags : Nat
  lower : Nat
  upper : Nat
  special : Nat
  pageSize : Nat       -- pd_pagesize_version with the version byte cleared
  version : Nat        -- low byte
  itemCount : Nat      -- line pointers between the header and pd_lower
  freeSpace : Nat      -- pd_upper − pd_lower
  isEmpty : Bool
deriving Repr, DecidableEq, Inhabited

def infoView (number : Nat) (b : RawBlock) : InfoView :=
  if b.isZero then ⟨number, 0, 0, 0, 0, 0, 0, 0, 0, 0, 0, true⟩
  else
    let h := b.hdr
    ⟨number, h.xlogid * 2 ^ 32 + h.xrecoff, h.checksum, h.flags, h.lower, h.upper, h.special,
     h.psv / 256 * 256, h.psv % 256, (h.lower - 24) / 4, h.upper - h.lower, false⟩

/-- number the blocks of a selection: block `i` of the selection is block `first + i` of the file -/
def numbered {α} (first : Nat) : List α → List (Nat × α)
  | [] => []
  | b :: bs => (first, b) :: numbered (first + 1) bs

def infoViews (first : Nat) (bs : List RawBlock) : List InfoView :=
  (numbered first bs).map fun (n, b) => infoView n b

/-- binary dump of a block: number, byte offset in the file, the block's bytes -/
structure DumpView where
  number : Nat
  offset : Nat
  bytes : Bytes
deriving Repr, DecidableEq, Inhabited

def dumpViews (first : Nat) (bs : List RawBlock) : List DumpView :=
  (numbered first bs).map fun (n, b) => ⟨n, 8192 * n, encBlock b⟩

/-- the tallies of a range summary (fill = Σ over formatted blocks with a page size of
(page size − free space), against 8192 per formatted block) -/
structure StatsView where
  totalBlocks : Nat
  startBlock : Nat
  endBlock : Nat
  emptyBlocks : Nat
  usedBlocks : Nat
  totalItems : Nat
  totalFree : Nat
  fillNum : Int
  fillDen : Nat
deriving Repr, DecidableEq, Inhabited

def statsView (vs : List InfoView) : StatsView :=
  let used := vs.filter (!·.isEmpty)
  { totalBlocks := vs.length,
    startBlock := (vs.head?.map (·.number)).getD 0,
    endBlock := (vs.getLast?.map (·.number)).getD 0,
    emptyBlocks := (vs.filter (·.isEmpty)).length,
    usedBlocks := used.length,
    totalItems := (used.map (·.itemCount)).sum,
    totalFree := (used.map (·.freeSpace)).sum,
    fillNum := ((used.filter (·.pageSize > 0)).map fun v => (v.pageSize : Int) - (v.freeSpace : Int)).sum,
    fillDen := if vs.isEmpty then 0 else used.length * 8192 }

/-! ## Segments -/

/-- global block `g` of a relation cut into segments of `bps` blocks -/
def segmentOf (g bps : Nat) : Nat × Nat := (g / bps, g % bps)

/-- a relation as its segment files, in order (`base`, `base.1`, …) -/
abbrev Relation := List RelFile

def globalBlock (rel : Relation) (bps g : Nat) : Option RawBlock :=
  match rel[(segmentOf g bps).1]? with
  | some f => f.blocks[(segmentOf g bps).2]?
  | none => none

/-- global blocks `g, g+1, …` (at most `n`) up to the first one that is not there -/
def globalRun (rel : Relation) (bps : Nat) : Nat → Nat → List RawBlock
  | 0, _ => []
  | n+1, g =>
    match globalBlock rel bps g with
    | some b => b :: globalRun rel bps n (g + 1)
    | none => []

/-- the multi-segment read of global blocks a..b (inclusive) -/
def multiView (rel : Relation) (bps a b : Nat) : Bytes :=
  (globalRun rel bps (b + 1 - a) a).flatMap encBlock

/-- segment number carried by a segment file name: `<stem>` → 0, `<stem>.<digits>` → the number -/
def segName (stem : Bytes) (seg : Nat) : Bytes :=
  if seg = 0 then stem else stem ++ [46] ++ (toString seg).toUTF8.toList

/-! ## Checksum accounting (for any checksum function `ck : block bytes → block number → 16-bit value`) -/

structure CkError where
  number : Nat
  stored : Nat
  computed : Nat
deriving Repr, DecidableEq, Inhabited

structure CkFileView where
  totalBlocks : Nat
  validBlocks : Nat
  invalidBlocks : Nat
  zeroBlocks : Nat
  errors : List CkError
deriving Repr, DecidableEq, Inhabited

/-- the verdict for one block: depends on the block's bytes and its relation-wide number only -/
def ckVerdict (ck : Bytes → Nat → Nat) (number : Nat) (b : RawBlock) : Option CkError :=
  if b.isZero then none
  else if b.hdr.checksum = ck (encBlock b) number then none
  else some ⟨number, b.hdr.checksum, ck (encBlock b) number⟩

/-- relation-wide number of block `i` of segment `seg` (1 GiB segments = 131072 blocks) -/
def relBlockNumber (seg i : Nat) : Nat := seg * 131072 + i

def ckFileView (ck : Bytes → Nat → Nat) (seg : Nat) (bs : List RawBlock) : CkFileView :=
  let errs := (numbered 0 bs).filterMap fun (i, b) => ckVerdict ck (relBlockNumber seg i) b
  { totalBlocks := bs.length, validBlocks := bs.length - errs.length, invalidBlocks := errs.length,
    zeroBlocks := (bs.filter (·.isZero)).length, errors := errs }

/-! ## Data directories

PostgreSQL's side (relpath.c `GetRelationPath`, md.c `_mdfd_segpath`, pg_checksums.c `scan_directory`):
the data files of a cluster live in `global/` (shared relations), `base/<dboid>/` and
`pg_tblspc/<spcoid>/PG_<major>_<catversion>/<dboid>/`.  A relation has up to four forks — main, free space map,
visibility map, init — each stored as segment files `<relfilenode>[_fsm|_vm|_init][.<segno>]` (segment 0 has no
suffix; relfilenode and segno are 32-bit numbers).  EVERY fork consists of ordinary 8 KiB pages that carry
`pd_checksum`, and the blocks of a fork are numbered from 0 in that fork: block i of segment `seg` of any fork is
block `seg · 131072 + i`.  pg_checksums verifies all of them; what it skips are the non-relation files
(`pg_control`, `pg_filenode.map`, `pg_internal.init`, `PG_VERSION`, temporary files). -/

/-- the forks of a relation (`ForkNumber`, `forkNames[]` in relpath.c) -/
inductive Fork where
  | main | fsm | vm | init
deriving Repr, DecidableEq, Inhabited

/-- the suffix of a fork in file names: "", "_fsm", "_vm", "_init" -/
def Fork.suffix : Fork → Bytes
  | .main => []
  | .fsm => [95, 102, 115, 109]
  | .vm => [95, 118, 109]
  | .init => [95, 105, 110, 105, 116]

/-- a relation segment file inside a directory of relation files -/
structure SegFile where
  filenode : Nat
  fork : Fork
  seg : Nat
  file : RelFile
deriving Repr, DecidableEq, Inhabited

def decimalName (n : Nat) : Bytes := (toString n).toUTF8.toList

/-- `<relfilenode>[_fsm|_vm|_init][.<segno>]` -/
def SegFile.name (s : SegFile) : Bytes := segName (decimalName s.filenode ++ s.fork.suffix) s.seg

/-- a directory of relation files (a database directory, or `global/`): relation segment files, other files
(maps, version files, temporary files …), sub-directories -/
structure Database where
  oid : Nat
  segs : List SegFile
  others : List (Bytes × Bytes)
  subdirs : List Bytes
deriving Repr, Inhabited

/-- a directory of database directories (`<dataDir>/base`, or one version directory of a tablespace): databases,
plus entries that are not database directories -/
structure BaseDir where
  dbs : List Database
  strayFiles : List Bytes                               -- plain files directly in it
  strayDirs : List (Bytes × List (Bytes × Bytes))       -- directories whose name is not an OID
deriving Repr, Inhabited

/-- a tablespace: `pg_tblspc/<oid>` (a symbolic link to, or a directory at, the tablespace location), inside it the
version directory `PG_<major>_<catversion>` with the database directories -/
structure Tablespace where
  oid : Nat
  verDir : Bytes
  dbs : BaseDir
deriving Repr, Inhabited

/-- a data directory as far as relation files go -/
structure DataDir where
  globalDir : Option Database        -- `global/` (its `oid` is not used); none: no such directory
  base : BaseDir
  tablespaces : List Tablespace
deriving Repr, Inhabited

/-! ### the grammar of relation segment file names -/

/-- `s` ends in `suf` -/
def endsIn (s suf : Bytes) : Bool := suf.length ≤ s.length && s.drop (s.length - suf.length) == suf

/-- the part of `<relfilenode>[_fork]` before the fork suffix (the whole string when there is none) -/
def beforeFork (s : Bytes) : Bytes :=
  if endsIn s Fork.fsm.suffix then s.take (s.length - 4)
  else if endsIn s Fork.vm.suffix then s.take (s.length - 3)
  else if endsIn s Fork.init.suffix then s.take (s.length - 5)
  else s

/-- a 32-bit decimal number (Oid, segment number) -/
def number32 (s : Bytes) : Option Nat := if isDigits s && decimal s < 2 ^ 32 then some (decimal s) else none

/-- The recogniser of relation segment file names, with the segment number the name carries:
`<relfilenode>[_fsm|_vm|_init]` → 0, `<relfilenode>[_fsm|_vm|_init].<segno>` → segno; every other name
(`PG_VERSION`, `pg_filenode.map`, `pg_internal.init`, `t3_16384`, `16384.`, `16384.1x`, `16384_fsm_vm` …) → none. -/
def relSegNumber (name : Bytes) : Option Nat :=
  match (name.reverse.span (· != 46)) with
  | (_, []) => if (number32 (beforeFork name)).isSome then some 0 else none
  | (revSuffix, _ :: revStem) =>
    match number32 revSuffix.reverse with
    | none => none
    | some seg => if (number32 (beforeFork revStem.reverse)).isSome then some seg else none

/-- is the name that of a relation segment file (any fork)? -/
def isRelSegName (name : Bytes) : Bool := (relSegNumber name).isSome

/-- result per visited file -/
structure CkDirFile where
  db : Bytes           -- the directory, relative to the data directory (`global`, `base/5`, `pg_tblspc/16400/PG_15_202209061/5`)
  name : Bytes
  view : CkFileView
deriving Repr, DecidableEq, Inhabited

def slash (a b : Bytes) : Bytes := a ++ [47] ++ b

/-- every relation segment file (any fork) with at least one block is verified, with its own segment number -/
def ckFilesOf (ck : Bytes → Nat → Nat) (dir : Bytes) (db : Database) : List CkDirFile :=
  (db.segs.filter fun s => s.file.blocks.length ≥ 1).map fun s => ⟨dir, s.name, ckFileView ck s.seg s.file.blocks⟩

def ckBaseFiles (ck : Bytes → Nat → Nat) (dir : Bytes) (b : BaseDir) : List CkDirFile :=
  b.dbs.flatMap fun db => ckFilesOf ck (slash dir (decimalName db.oid)) db

/-- "global", "base", "pg_tblspc", "PG_" -/
def globalDirName : Bytes := [103, 108, 111, 98, 97, 108]
def baseDirName : Bytes := [98, 97, 115, 101]
def tblspcDirName : Bytes := [112, 103, 95, 116, 98, 108, 115, 112, 99]
def versionDirPrefix : Bytes := [80, 71, 95]

def ckDirFiles (ck : Bytes → Nat → Nat) (d : DataDir) : List CkDirFile :=
  (match d.globalDir with | some g => ckFilesOf ck globalDirName g | none => []) ++
  ckBaseFiles ck baseDirName d.base ++
  d.tablespaces.flatMap fun t =>
    ckBaseFiles ck (slash (slash tblspcDirName (decimalName t.oid)) t.verDir) t.dbs

/-! ### well-formed data directories (decidable; checked on every generated directory) -/

/-- every relation segment file is a well-formed relation file whose name the grammar reads back with its own segment
number and whose block numbers fit PostgreSQL's 32-bit BlockNumber; no other file has a relation segment file name -/
def Database.WF (db : Database) : Prop :=
  (∀ s ∈ db.segs, s.file.WF ∧ relSegNumber s.name = some s.seg ∧ s.seg * 131072 + s.file.blocks.length ≤ 2 ^ 32) ∧
  (∀ o ∈ db.others, relSegNumber o.1 = none)

instance (db : Database) : Decidable db.WF := by unfold Database.WF; infer_instance

/-- database directories are named by their 32-bit OID; the other directories are not -/
def BaseDir.WF (b : BaseDir) : Prop :=
  (∀ db ∈ b.dbs, db.WF ∧ (number32 (decimalName db.oid)).isSome = true) ∧ (∀ d ∈ b.strayDirs, number32 d.1 = none)

instance (b : BaseDir) : Decidable b.WF := by unfold BaseDir.WF; infer_instance

def Tablespace.WF (t : Tablespace) : Prop :=
  (number32 (decimalName t.oid)).isSome = true ∧ t.verDir.take 3 = versionDirPrefix ∧ t.dbs.WF

instance (t : Tablespace) : Decidable t.WF := by unfold Tablespace.WF; infer_instance

def DataDir.WF (d : DataDir) : Prop :=
  (∀ g, d.globalDir = some g → g.WF) ∧ d.base.WF ∧ ∀ t ∈ d.tablespaces, t.WF

instance (d : DataDir) : Decidable d.WF := by
  unfold DataDir.WF
  cases d.globalDir with
  | none => exact decidable_of_iff (d.base.WF ∧ ∀ t ∈ d.tablespaces, t.WF) (by simp)
  | some g => exact decidable_of_iff (g.WF ∧ d.base.WF ∧ ∀ t ∈ d.tablespaces, t.WF) (by simp)

structure CkDirView where
  totalFiles : Nat
  totalBlocks : Nat
  validBlocks : Nat
  invalidBlocks : Nat
  files : List CkDirFile      -- those with at least one invalid block (any order)
deriving Repr, Inhabited

def ckDirView (ck : Bytes → Nat → Nat) (d : DataDir) : CkDirView :=
  let fs := ckDirFiles ck d
  { totalFiles := fs.length,
    totalBlocks := (fs.map (·.view.totalBlocks)).sum,
    validBlocks := (fs.map (·.view.validBlocks)).sum,
    invalidBlocks := (fs.map (·.view.invalidBlocks)).sum,
    files := fs.filter fun f => !f.view.errors.isEmpty }

end PgVerif.Spec.BlockAddr
