/-
  Spec side of WAL segments (DESIGN.md section 3 row "WAL", 4.C17): PostgreSQL's XLogRecord /
  XLogRecordBlockHeader / XLogPageHeaderData layout written as encoders from abstract values, the
  layout of records over 8 KiB pages (XLogBytePosToRecPtr: the records form one MAXALIGNed stream of
  "usable bytes" that is cut into pages, each page getting a header whose xlp_rem_len says how much of
  the record cut by the page start is still to come), and the `view` a correct reader must report.
  Also PostgreSQL's own resource-manager / operation names (hand-written, PG 14–16).
  Knows nothing about the Go code.
-/
import PgVerif.Basic.Bytes
namespace PgVerif.Spec.Wal
open PgVerif

/-! ### records -/

structure RelFileNode where
  spc : Nat
  db : Nat
  rel : Nat
deriving Repr, DecidableEq, Inhabited

/-- a full-page image attached to a block reference: the image bytes live in the block-data area, the
header (length, hole_offset, bimg_info [, hole_length]) in the block header -/
structure Image where
  data : Bytes
  holeOffset : Nat
  bimgInfo : Nat
  holeLength : Option Nat      -- XLogRecordBlockCompressHeader present
deriving Repr, DecidableEq, Inhabited

structure BlockRef where
  id : Nat
  fork : Nat                   -- low 4 bits of fork_flags
  willInit : Bool              -- BKPBLOCK_WILL_INIT 0x40
  image : Option Image         -- BKPBLOCK_HAS_IMAGE 0x10
  data : Option Bytes          -- BKPBLOCK_HAS_DATA 0x20, data_length = its length
  rel : Option RelFileNode     -- `none` = BKPBLOCK_SAME_REL 0x80: same relation as the previous reference
  blkno : Nat
deriving Repr, DecidableEq, Inhabited

def BlockRef.forkFlags (b : BlockRef) : Nat :=
  b.fork + (if b.image.isSome then 0x10 else 0) + (if b.data.isSome then 0x20 else 0) +
    (if b.willInit then 0x40 else 0) + (if b.rel.isNone then 0x80 else 0)

/-- an optional part of an encoding -/
def optBytes {α} (f : α → Bytes) : Option α → Bytes
  | some a => f a
  | none => []

def encImageHdr (i : Image) : Bytes :=
  le 2 i.data.length ++ le 2 i.holeOffset ++ [UInt8.ofNat i.bimgInfo] ++ optBytes (le 2) i.holeLength

def encRel (r : RelFileNode) : Bytes := le 4 r.spc ++ le 4 r.db ++ le 4 r.rel

/-- XLogRecordBlockHeader [+ image header] [+ RelFileNode] + BlockNumber -/
def encBlockHdr (b : BlockRef) : Bytes :=
  [UInt8.ofNat b.id, UInt8.ofNat b.forkFlags] ++ le 2 ((b.data.getD []).length) ++
    optBytes encImageHdr b.image ++ optBytes encRel b.rel ++ le 4 b.blkno

def encBlockData (b : BlockRef) : Bytes := optBytes (·.data) b.image ++ b.data.getD []

structure WalRecord where
  xid : Nat
  prev : Nat
  info : Nat
  rmid : Nat
  crc : Nat
  blocks : List BlockRef
  origin : Option Nat          -- XLR_BLOCK_ID_ORIGIN 253 + RepOriginId u16
  topXid : Option Nat          -- XLR_BLOCK_ID_TOPLEVEL_XID 252 + xid u32
  mainData : Bytes             -- short header (255, u8) up to 255 bytes, long (254, u32) beyond; none when empty
deriving Repr, DecidableEq, Inhabited

def encMainHdr (d : Bytes) : Bytes :=
  if d.isEmpty then [] else if d.length ≤ 255 then [255, UInt8.ofNat d.length] else 254 :: le 4 d.length

/-- the header part of the payload: block headers, origin, top-level xid, main-data header -/
def encHeaders (r : WalRecord) : Bytes :=
  r.blocks.flatMap encBlockHdr ++ optBytes (fun o => 253 :: le 2 o) r.origin ++
    optBytes (fun x => 252 :: le 4 x) r.topXid ++ encMainHdr r.mainData

/-- everything after the 24-byte XLogRecord -/
def encBody (r : WalRecord) : Bytes := encHeaders r ++ r.blocks.flatMap encBlockData ++ r.mainData

def WalRecord.totLen (r : WalRecord) : Nat := 24 + (encBody r).length

def encRecHeader (r : WalRecord) : Bytes :=
  le 4 r.totLen ++ le 4 r.xid ++ le 8 r.prev ++ [UInt8.ofNat r.info, UInt8.ofNat r.rmid, 0, 0] ++ le 4 r.crc

def encRecord (r : WalRecord) : Bytes := encRecHeader r ++ encBody r

/-- PG ≤ 14: hole_length follows iff HAS_HOLE (0x01) and IS_COMPRESSED (0x02) -/
def compressHdr14 (bimg : Nat) : Bool := bimg.testBit 0 && bimg.testBit 1
/-- PG ≥ 15: hole_length follows iff HAS_HOLE (0x01) and one of COMPRESS_PGLZ/LZ4/ZSTD (0x04/0x08/0x10) -/
def compressHdr15 (bimg : Nat) : Bool := bimg.testBit 0 && (bimg.testBit 2 || bimg.testBit 3 || bimg.testBit 4)

/-- the bimg_info bit assignment changed in PostgreSQL 15; a well-formed image here uses a bimg_info on which
both assignments agree about the presence of the compress header, so statements hold for 14, 15 and 16 -/
def Image.WF (i : Image) : Prop :=
  i.data.length < 65536 ∧ i.holeOffset < 65536 ∧ i.bimgInfo < 256 ∧
  compressHdr14 i.bimgInfo = i.holeLength.isSome ∧ compressHdr15 i.bimgInfo = i.holeLength.isSome ∧
  (∀ h ∈ i.holeLength, h < 65536)

instance (i : Image) : Decidable i.WF := by unfold Image.WF; infer_instance

def RelFileNode.WF (r : RelFileNode) : Prop := r.spc < 2 ^ 32 ∧ r.db < 2 ^ 32 ∧ r.rel < 2 ^ 32
instance (r : RelFileNode) : Decidable r.WF := by unfold RelFileNode.WF; infer_instance

def BlockRef.WF (b : BlockRef) : Prop :=
  b.id ≤ 32 ∧ b.fork < 16 ∧ (∀ i ∈ b.image, i.WF) ∧ (∀ d ∈ b.data, 0 < d.length ∧ d.length < 65536) ∧
  (∀ r ∈ b.rel, r.WF) ∧ b.blkno < 2 ^ 32

instance (b : BlockRef) : Decidable b.WF := by unfold BlockRef.WF; infer_instance

/-- block ids strictly ascending -/
def idsAscending : List BlockRef → Bool
  | a :: b :: rest => a.id < b.id && idsAscending (b :: rest)
  | _ => true

/-- SAME_REL needs a previous reference carrying a relation: the first reference always has one -/
def firstHasRel : List BlockRef → Bool
  | [] => true
  | b :: _ => b.rel.isSome

def WalRecord.WF (r : WalRecord) : Prop :=
  r.xid < 2 ^ 32 ∧ r.prev < 2 ^ 64 ∧ r.info < 256 ∧ r.rmid < 256 ∧ r.crc < 2 ^ 32 ∧
  (∀ b ∈ r.blocks, b.WF) ∧ idsAscending r.blocks = true ∧ firstHasRel r.blocks = true ∧
  (∀ o ∈ r.origin, o < 65536) ∧ (∀ x ∈ r.topXid, x < 2 ^ 32) ∧ r.totLen ≤ 16000

instance (r : WalRecord) : Decidable r.WF := by unfold WalRecord.WF; infer_instance

/-! ### what must be reported for a record -/

structure BlockView where
  id : Nat
  fork : Nat
  flags : Nat                  -- the fork_flags byte
  rel : Option RelFileNode     -- resolved: SAME_REL reports the relation of the previous reference
  blkno : Nat
deriving Repr, DecidableEq, Inhabited

def blockViews : Option RelFileNode → List BlockRef → List BlockView
  | _, [] => []
  | last, b :: bs =>
    let rel := match b.rel with | some r => some r | none => last
    ⟨b.id, b.fork, b.forkFlags, rel, b.blkno⟩ :: blockViews rel bs

structure RecView where
  lsn : Nat
  totLen : Nat
  xid : Nat
  prev : Nat
  info : Nat
  rmid : Nat
  crc : Nat
  blocks : List BlockView
deriving Repr, DecidableEq, Inhabited

def recView (lsn : Nat) (r : WalRecord) : RecView :=
  ⟨lsn, r.totLen, r.xid, r.prev, r.info, r.rmid, r.crc, blockViews none r.blocks⟩

/-! ### segments -/

def align8 (n : Nat) : Nat := (n + 7) / 8 * 8

def pad8 (b : Bytes) : Bytes := b ++ zeros (align8 b.length - b.length)

/-- a segment file (possibly shorter than a full segment): page 0 carries the long header;
`pre` = the tail of a record begun in the previous segment (xlp_rem_len of page 0), then the records,
then zeros to the end of the last page used, then `tailPages` never-written (all-zero) pages -/
structure WalSegment where
  magic : Nat
  tli : Nat
  startAddr : Nat
  sysid : Nat
  segSize : Nat
  removable : Bool             -- XLP_BKP_REMOVABLE 0x0004 on the pages
  pre : Bytes
  records : List WalRecord
  tailPages : Nat
deriving Repr, Inhabited

def cap0 : Nat := 8192 - 40
def capN : Nat := 8192 - 24

/-- the stream of usable bytes -/
def WalSegment.stream (s : WalSegment) : Bytes := pad8 s.pre ++ s.records.flatMap fun r => pad8 (encRecord r)

/-- stream offset of every record -/
def offsetsFrom : Nat → List WalRecord → List Nat
  | _, [] => []
  | o, r :: rs => o :: offsetsFrom (o + align8 r.totLen) rs

def WalSegment.offsets (s : WalSegment) : List Nat := offsetsFrom (align8 s.pre.length) s.records

def WalSegment.streamLen (s : WalSegment) : Nat :=
  align8 s.pre.length + (s.records.map fun r => align8 r.totLen).sum

/-- stream position of the first usable byte of page `k` -/
def pageStart (k : Nat) : Nat := if k = 0 then 0 else cap0 + (k - 1) * capN

/-- stream position → (page number, offset inside the page) -/
def locate (o : Nat) : Nat × Nat :=
  if o < cap0 then (0, 40 + o) else ((o - cap0) / capN + 1, 24 + (o - cap0) % capN)

/-- pages needed for a stream of `n` bytes (at least one) -/
def pagesFor (n : Nat) : Nat := if n ≤ cap0 then 1 else 1 + (n - cap0 + capN - 1) / capN

/-- true log position of the byte at stream offset `o` -/
def WalSegment.lsnAt (s : WalSegment) (o : Nat) : Nat := s.startAddr + 8192 * (locate o).1 + (locate o).2

/-- the (offset, length) items of the stream that can be cut by a page start -/
def WalSegment.items (s : WalSegment) : List (Nat × Nat) :=
  s.offsets.zip (s.records.map (·.totLen))

/-- xlp_rem_len of the page whose usable bytes start at stream position `b` -/
def WalSegment.remLen (s : WalSegment) (b : Nat) : Nat :=
  if b < s.pre.length then s.pre.length - b
  else match s.items.find? (fun it => it.1 < b && b < it.1 + it.2) with
    | some it => it.1 + it.2 - b
    | none => 0

/-- XLogPageHeaderData (24 bytes: magic, info, timeline, page address, rem_len, padding) followed by the
long-header extension `ext` (system id, segment size, block size on the first page of a segment; else nothing) -/
def pageHdrBytes (magic info tli addr rem : Nat) (ext : Bytes) : Bytes :=
  le 2 magic ++ (le 2 info ++ (le 4 tli ++ (le 8 addr ++ (le 4 rem ++ (zeros 4 ++ ext)))))

/-- xlp_info: FIRST_IS_CONTRECORD 1 when the page starts inside a record, LONG_HEADER 2 on page 0, BKP_REMOVABLE 4 -/
def pageInfo (s : WalSegment) (k rem : Nat) : Nat :=
  (if rem > 0 then 1 else 0) + (if k = 0 then 2 else 0) + (if s.removable then 4 else 0)

def longExt (s : WalSegment) (k : Nat) : Bytes :=
  if k = 0 then le 8 s.sysid ++ (le 4 s.segSize ++ le 4 8192) else []

/-- the header of page `k` when `rem` bytes of a record begun earlier are still to come -/
def pageHeader (s : WalSegment) (k rem : Nat) : Bytes :=
  pageHdrBytes s.magic (pageInfo s k rem) s.tli (s.startAddr + 8192 * k) rem (longExt s k)

def encPageHeader (s : WalSegment) (k : Nat) : Bytes := pageHeader s k (s.remLen (pageStart k))

/-- cut the stream into the pages `k, k+1, …` (`n` pages) -/
def encPagesFrom (s : WalSegment) : Nat → Nat → Bytes → Bytes
  | 0, _, _ => []
  | n+1, k, rest =>
    let cap := if k = 0 then cap0 else capN
    let chunk := rest.take cap
    encPageHeader s k ++ chunk ++ zeros (cap - chunk.length) ++ encPagesFrom s n (k + 1) (rest.drop cap)

def WalSegment.usedPages (s : WalSegment) : Nat := pagesFor s.streamLen

def encSegment (s : WalSegment) : Bytes :=
  encPagesFrom s s.usedPages 0 s.stream ++ zeros (8192 * s.tailPages)

def WalSegment.WF (s : WalSegment) : Prop :=
  s.magic < 65536 ∧ 0 < s.tli ∧ s.tli < 2 ^ 32 ∧ s.sysid < 2 ^ 64 ∧ 0 < s.segSize ∧ s.segSize < 2 ^ 32 ∧
  s.segSize % 8192 = 0 ∧ s.startAddr % s.segSize = 0 ∧
  s.startAddr + 8192 * (s.usedPages + s.tailPages) < 2 ^ 64 ∧ s.pre.length < 2 ^ 32 ∧
  (∀ r ∈ s.records, r.WF)

instance (s : WalSegment) : Decidable s.WF := by unfold WalSegment.WF; infer_instance

/-- the 24-byte XLogRecord header of the record at stream offset `o` lies on one page -/
def headerOnOnePage (o : Nat) : Bool := (locate o).2 + 24 ≤ 8192

/-- the whole record at stream offset `o` with total length `len` lies on one page -/
def recordOnOnePage (o len : Nat) : Bool := (locate o).2 + len ≤ 8192

/-- every record, in order, with its true position -/
def WalSegment.view (s : WalSegment) : List RecView :=
  (s.records.zip s.offsets).map fun ro => recView (s.lsnAt ro.2) ro.1

/-! ### names (PostgreSQL 14–16: rmgrlist.h, the XLOG_* opcode macros of each resource manager) -/

def pgRmgrName : Nat → Option String
  | 0 => "XLOG" | 1 => "Transaction" | 2 => "Storage" | 3 => "CLOG" | 4 => "Database" | 5 => "Tablespace"
  | 6 => "MultiXact" | 7 => "RelMap" | 8 => "Standby" | 9 => "Heap2" | 10 => "Heap" | 11 => "Btree"
  | 12 => "Hash" | 13 => "Gin" | 14 => "Gist" | 15 => "Sequence" | 16 => "SPGist" | 17 => "BRIN"
  | 18 => "CommitTs" | 19 => "ReplicationOrigin" | 20 => "Generic" | 21 => "LogicalMessage"
  | _ => none

/-- names are compared modulo case and punctuation, and two documented abbreviations (DESIGN.md section 5) -/
def normRm (s : String) : String :=
  let n := String.ofList (s.toList.filterMap fun c =>
    if 'A' ≤ c ∧ c ≤ 'Z' then some (Char.ofNat (c.toNat + 32))
    else if ('a' ≤ c ∧ c ≤ 'z') ∨ ('0' ≤ c ∧ c ≤ '9') then some c else none)
  if n == "replorigin" then "replicationorigin" else if n == "logicalmsg" then "logicalmessage" else n

/-- the bits of xl_info that select the operation, per resource manager (the low four bits belong to the
WAL machinery; heap, heap2, xact and brin use bit 7 as a flag) -/
def opMask (rmid : Nat) : Nat :=
  if rmid = 1 ∨ rmid = 9 ∨ rmid = 10 ∨ rmid = 17 then 0x70 else 0xF0

/-- (rmid, opcode, name): the XLOG_<RMGR>_<NAME> macros, PostgreSQL 14, 15 and 16 agree on all of these.
Database (rmid 4) is version dependent and listed separately. -/
def pgOpTable : List (Nat × Nat × String) := [
  (0, 0x00, "CHECKPOINT_SHUTDOWN"), (0, 0x10, "CHECKPOINT_ONLINE"), (0, 0x20, "NOOP"), (0, 0x30, "NEXTOID"),
  (0, 0x40, "SWITCH"), (0, 0x50, "BACKUP_END"), (0, 0x60, "PARAMETER_CHANGE"), (0, 0x70, "RESTORE_POINT"),
  (0, 0x80, "FPW_CHANGE"), (0, 0x90, "END_OF_RECOVERY"), (0, 0xA0, "FPI_FOR_HINT"), (0, 0xB0, "FPI"),
  (0, 0xD0, "OVERWRITE_CONTRECORD"),
  (1, 0x00, "COMMIT"), (1, 0x10, "PREPARE"), (1, 0x20, "ABORT"), (1, 0x30, "COMMIT_PREPARED"),
  (1, 0x40, "ABORT_PREPARED"), (1, 0x50, "ASSIGNMENT"), (1, 0x60, "INVALIDATIONS"),
  (2, 0x10, "CREATE"), (2, 0x20, "TRUNCATE"),
  (3, 0x00, "ZEROPAGE"), (3, 0x10, "TRUNCATE"),
  (5, 0x00, "CREATE"), (5, 0x10, "DROP"),
  (6, 0x00, "ZERO_OFF_PAGE"), (6, 0x10, "ZERO_MEM_PAGE"), (6, 0x20, "CREATE_ID"), (6, 0x30, "TRUNCATE_ID"),
  (7, 0x00, "UPDATE"),
  (8, 0x00, "LOCK"), (8, 0x10, "RUNNING_XACTS"), (8, 0x20, "INVALIDATIONS"),
  (9, 0x00, "REWRITE"), (9, 0x10, "PRUNE"), (9, 0x20, "VACUUM"), (9, 0x30, "FREEZE_PAGE"), (9, 0x40, "VISIBLE"),
  (9, 0x50, "MULTI_INSERT"), (9, 0x60, "LOCK_UPDATED"), (9, 0x70, "NEW_CID"),
  (10, 0x00, "INSERT"), (10, 0x10, "DELETE"), (10, 0x20, "UPDATE"), (10, 0x30, "TRUNCATE"),
  (10, 0x40, "HOT_UPDATE"), (10, 0x50, "CONFIRM"), (10, 0x60, "LOCK"), (10, 0x70, "INPLACE"),
  (11, 0x00, "INSERT_LEAF"), (11, 0x10, "INSERT_UPPER"), (11, 0x20, "INSERT_META"), (11, 0x30, "SPLIT_L"),
  (11, 0x40, "SPLIT_R"), (11, 0x50, "INSERT_POST"), (11, 0x60, "DEDUP"), (11, 0x70, "DELETE"),
  (11, 0x80, "UNLINK_PAGE"), (11, 0x90, "UNLINK_PAGE_META"), (11, 0xA0, "NEWROOT"),
  (11, 0xB0, "MARK_PAGE_HALFDEAD"), (11, 0xC0, "VACUUM"), (11, 0xD0, "REUSE_PAGE"), (11, 0xE0, "META_CLEANUP"),
  (15, 0x00, "LOG"),
  (19, 0x00, "SET"), (19, 0x10, "DROP"),
  (21, 0x00, "MESSAGE")]

/-- Database operations: PostgreSQL 14 -/
def pgDbaseOps14 : List (Nat × String) := [(0x00, "CREATE"), (0x10, "DROP")]
/-- Database operations: PostgreSQL 15 and 16 -/
def pgDbaseOps15 : List (Nat × String) := [(0x00, "CREATE_FILE_COPY"), (0x10, "CREATE_WAL_LOG"), (0x20, "DROP")]

/-- the operation name PostgreSQL (major version `ver` ∈ {14, 15, 16}) assigns to (rmid, info), when it defines one -/
def pgOpName (ver rmid info : Nat) : Option String :=
  let op := info &&& opMask rmid
  if rmid = 4 then ((if ver ≤ 14 then pgDbaseOps14 else pgDbaseOps15).find? (·.1 == op)).map (·.2)
  else (pgOpTable.find? (fun e => e.1 == rmid && e.2.1 == op)).map (·.2.2)

/-- commit / abort status a transaction-manager record gives to its xid -/
def xactStatus (rmid info : Nat) : Option String :=
  if rmid = 1 then
    let op := info &&& 0x70
    if op = 0x00 ∨ op = 0x30 then some "COMMIT" else if op = 0x20 ∨ op = 0x40 then some "ABORT" else none
  else none

/-- a WAL segment file name: 24 upper-case hexadecimal digits (XLogFileName: timeline, log, segment) -/
def isSegmentName (n : String) : Bool :=
  n.length == 24 && n.toList.all fun c => ('0' ≤ c && c ≤ '9') || ('A' ≤ c && c ≤ 'F')

/-! ### directory summary: tallies over the records of the segment files -/

/-- what the summary needs to know about one reported record -/
structure RecInfo where
  lsn : Nat
  xid : Nat
  op : String                  -- operation name
  status : Option String       -- commit/abort verdict this record gives to its xid
  tables : List String         -- "db/rel" of every referenced relation with a non-zero filenode
deriving Repr, DecidableEq, Inhabited

def dedup [BEq α] : List α → List α
  | [] => []
  | x :: xs => x :: (dedup xs).filter (· != x)

/-- number of records per key, keys in first-appearance order -/
def countBy [BEq κ] (keys : List κ) : List (κ × Nat) := (dedup keys).map fun k => (k, keys.count k)

def lastStatus (rs : List RecInfo) (xid : Nat) : String :=
  match (rs.filter fun r => r.xid == xid && r.status.isSome).getLast? with
  | some r => r.status.getD "IN_PROGRESS"
  | none => "IN_PROGRESS"

structure Tallies where
  records : Nat
  firstLSN : Nat               -- smallest position (0 when there is no record)
  lastLSN : Nat                -- largest position
  ops : List (String × Nat)
  txs : List (Nat × String × Nat)   -- (xid, status, records), xid ≠ 0
  tables : List (String × Nat)
deriving Repr, Inhabited

def tally (rs : List RecInfo) : Tallies :=
  let xids := (rs.map (·.xid)).filter (· != 0)
  { records := rs.length,
    firstLSN := (rs.map (·.lsn)).foldl (fun m x => if m == 0 || x < m then x else m) 0,
    lastLSN := (rs.map (·.lsn)).foldl max 0,
    ops := countBy (rs.map (·.op)),
    txs := (countBy xids).map fun e => (e.1, lastStatus rs e.1, e.2),
    tables := countBy (rs.flatMap (·.tables)) }

def tableKey (r : RelFileNode) : String := toString r.db ++ "/" ++ toString r.rel

def tablesOf (bs : List BlockView) : List String :=
  bs.filterMap fun b => match b.rel with
    | some r => if r.rel != 0 then some (tableKey r) else none
    | none => none

end PgVerif.Spec.Wal
