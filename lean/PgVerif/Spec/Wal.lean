/-
  Spec side of WAL segments (DESIGN.md section 3 row "WAL", 4.C17): PostgreSQL's XLogRecord /
  XLogRecordBlockHeader / XLogPageHeaderData layout written as encoders from abstract values, the
  layout of records over 8 KiB pages (XLogBytePosToRecPtr: the records form one MAXALIGNed stream of
  "usable bytes" that is cut into pages, each page getting a header whose xlp_rem_len says how much of
  the record cut by the page start is still to come), and the `view` a correct reader must report.
  Also PostgreSQL's own tables, written from the PostgreSQL side: XLOG_PAGE_MAGIC per major version (12–16),
  the resource-manager names of rmgrlist.h, the opcode names of every resource manager per major version,
  the file-name rule of WAL segments, and which transactions a commit/abort record decides.
  Knows nothing about the Go code.
-/
import PgVerif.Basic.Bytes
namespace PgVerif.Spec.Wal
open PgVerif

/-! ### records -/

structure RelFileNode where
  spc : Nat
  db : Nat
  rel : Nat
deriving Repr, DecidableEq, Inhabited

/-- a full-page image attached to a block reference: the image bytes live in the block-data area, the
header (length, hole_offset, bimg_info [, hole_length]) in the block header -/
structure Image where
  data : Bytes
  holeOffset : Nat
  bimgInfo : Nat
  holeLength : Option Nat      -- XLogRecordBlockCompressHeader present
deriving Repr, DecidableEq, Inhabited

structure BlockRef where
  id : Nat
  fork : Nat                   -- low 4 bits of fork_flags
  willInit : Bool              -- BKPBLOCK_WILL_INIT 0x40
  image : Option Image         -- BKPBLOCK_HAS_IMAGE 0x10
  data : Option Bytes          -- BKPBLOCK_HAS_DATA 0x20, data_length = its length
  rel : Option RelFileNode     -- `none` = BKPBLOCK_SAME_REL 0x80: same relation as the previous reference
  blkno : Nat
deriving Repr, DecidableEq, Inhabited

def BlockRef.forkFlags (b : BlockRef) : Nat :=
  b.fork + (if b.image.isSome then 0x10 else 0) + (if b.data.isSome then 0x20 else 0) +
    (if b.willInit then 0x40 else 0) + (if b.rel.isNone then 0x80 else 0)

/-- an optional part of an encoding -/
def optBytes {α} (f : α → Bytes) : Option α → Bytes
  | some a => f a
  | none => []

def encImageHdr (i : Image) : Bytes :=
  le 2 i.data.length ++ le 2 i.holeOffset ++ [UInt8.ofNat i.bimgInfo] ++ optBytes (le 2) i.holeLength

def encRel (r : RelFileNode) : Bytes := le 4 r.spc ++ le 4 r.db ++ le 4 r.rel

/-- XLogRecordBlockHeader [+ image header] [+ RelFileNode] + BlockNumber -/
def encBlockHdr (b : BlockRef) : Bytes :=
  [UInt8.ofNat b.id, UInt8.ofNat b.forkFlags] ++ le 2 ((b.data.getD []).length) ++
    optBytes encImageHdr b.image ++ optBytes encRel b.rel ++ le 4 b.blkno

def encBlockData (b : BlockRef) : Bytes := optBytes (·.data) b.image ++ b.data.getD []

structure WalRecord where
  xid : Nat
  prev : Nat
  info : Nat
  rmid : Nat
  crc : Nat
  blocks : List BlockRef
  origin : Option Nat          -- XLR_BLOCK_ID_ORIGIN 253 + RepOriginId u16
  topXid : Option Nat          -- XLR_BLOCK_ID_TOPLEVEL_XID 252 + xid u32
  mainData : Bytes             -- short header (255, u8) up to 255 bytes, long (254, u32) beyond; none when empty
deriving Repr, DecidableEq, Inhabited

def encMainHdr (d : Bytes) : Bytes :=
  if d.isEmpty then [] else if d.length ≤ 255 then [255, UInt8.ofNat d.length] else 254 :: le 4 d.length

/-- the header part of the payload: block headers, origin, top-level xid, main-data header -/
def encHeaders (r : WalRecord) : Bytes :=
  r.blocks.flatMap encBlockHdr ++ optBytes (fun o => 253 :: le 2 o) r.origin ++
    optBytes (fun x => 252 :: le 4 x) r.topXid ++ encMainHdr r.mainData

/-- everything after the 24-byte XLogRecord -/
def encBody (r : WalRecord) : Bytes := encHeaders r ++ r.blocks.flatMap encBlockData ++ r.mainData

def WalRecord.totLen (r : WalRecord) : Nat := 24 + (encBody r).length

def encRecHeader (r : WalRecord) : Bytes :=
  le 4 r.totLen ++ le 4 r.xid ++ le 8 r.prev ++ [UInt8.ofNat r.info, UInt8.ofNat r.rmid, 0, 0] ++ le 4 r.crc

def encRecord (r : WalRecord) : Bytes := encRecHeader r ++ encBody r

/-- PG ≤ 14: hole_length follows iff HAS_HOLE (0x01) and IS_COMPRESSED (0x02) -/
def compressHdr14 (bimg : Nat) : Bool := bimg.testBit 0 && bimg.testBit 1
/-- PG ≥ 15: hole_length follows iff HAS_HOLE (0x01) and one of COMPRESS_PGLZ/LZ4/ZSTD (0x04/0x08/0x10) -/
def compressHdr15 (bimg : Nat) : Bool := bimg.testBit 0 && (bimg.testBit 2 || bimg.testBit 3 || bimg.testBit 4)

/-- is the XLogRecordBlockCompressHeader (hole_length) present?  The bimg_info bit assignment changed in
PostgreSQL 15; `pre15` = the record was written by PostgreSQL ≤ 14 -/
def compressHdr (pre15 : Bool) (bimg : Nat) : Bool := if pre15 then compressHdr14 bimg else compressHdr15 bimg

/-- a well-formed image as PostgreSQL ≤ 14 (`pre15`) / ≥ 15 writes it: any bimg_info byte — among them the ordinary
full-page image with a hole, HAS_HOLE|APPLY = 0x05 on ≤ 14 and 0x03 on ≥ 15 —, hole_length present exactly
when that version's rule says so -/
def Image.WF (pre15 : Bool) (i : Image) : Prop :=
  i.data.length < 65536 ∧ i.holeOffset < 65536 ∧ i.bimgInfo < 256 ∧
  compressHdr pre15 i.bimgInfo = i.holeLength.isSome ∧
  (∀ h ∈ i.holeLength, h < 65536)

instance (pre15 : Bool) (i : Image) : Decidable (i.WF pre15) := by unfold Image.WF; infer_instance

def RelFileNode.WF (r : RelFileNode) : Prop := r.spc < 2 ^ 32 ∧ r.db < 2 ^ 32 ∧ r.rel < 2 ^ 32
instance (r : RelFileNode) : Decidable r.WF := by unfold RelFileNode.WF; infer_instance

def BlockRef.WF (pre15 : Bool) (b : BlockRef) : Prop :=
  b.id ≤ 32 ∧ b.fork < 16 ∧ (∀ i ∈ b.image, i.WF pre15) ∧ (∀ d ∈ b.data, 0 < d.length ∧ d.length < 65536) ∧
  (∀ r ∈ b.rel, r.WF) ∧ b.blkno < 2 ^ 32

instance (pre15 : Bool) (b : BlockRef) : Decidable (b.WF pre15) := by unfold BlockRef.WF; infer_instance

/-- block ids strictly ascending -/
def idsAscending : List BlockRef → Bool
  | a :: b :: rest => a.id < b.id && idsAscending (b :: rest)
  | _ => true

/-- SAME_REL needs a previous reference carrying a relation: the first reference always has one -/
def firstHasRel : List BlockRef → Bool
  | [] => true
  | b :: _ => b.rel.isSome

/-- XLogRecordMaxSize (xlogrecord.h): the largest xl_tot_len PostgreSQL writes, 1020 MiB -/
def xlogRecordMaxSize : Nat := 1020 * 1024 * 1024

/-- `totLen ≤ 1069547520` = `xlogRecordMaxSize` (written as a literal so that `omega` sees it; `xlogRecordMaxSize_eq`):
PostgreSQL's own limit on a record, XLogRecordMaxSize.  A record may span any number of pages. -/
def WalRecord.WF (pre15 : Bool) (r : WalRecord) : Prop :=
  r.xid < 2 ^ 32 ∧ r.prev < 2 ^ 64 ∧ r.info < 256 ∧ r.rmid < 256 ∧ r.crc < 2 ^ 32 ∧
  (∀ b ∈ r.blocks, b.WF pre15) ∧ idsAscending r.blocks = true ∧ firstHasRel r.blocks = true ∧
  (∀ o ∈ r.origin, o < 65536) ∧ (∀ x ∈ r.topXid, x < 2 ^ 32) ∧ r.totLen ≤ 1069547520

instance (pre15 : Bool) (r : WalRecord) : Decidable (r.WF pre15) := by unfold WalRecord.WF; infer_instance

theorem xlogRecordMaxSize_eq : xlogRecordMaxSize = 1069547520 := by decide

/-! ### what must be reported for a record -/

structure BlockView where
  id : Nat
  fork : Nat
  flags : Nat                  -- the fork_flags byte
  rel : Option RelFileNode     -- resolved: SAME_REL reports the relation of the previous reference
  blkno : Nat
deriving Repr, DecidableEq, Inhabited

def blockViews : Option RelFileNode → List BlockRef → List BlockView
  | _, [] => []
  | last, b :: bs =>
    let rel := match b.rel with | some r => some r | none => last
    ⟨b.id, b.fork, b.forkFlags, rel, b.blkno⟩ :: blockViews rel bs

structure RecView where
  lsn : Nat
  totLen : Nat
  xid : Nat
  prev : Nat
  info : Nat
  rmid : Nat
  crc : Nat
  blocks : List BlockView
deriving Repr, DecidableEq, Inhabited

def recView (lsn : Nat) (r : WalRecord) : RecView :=
  ⟨lsn, r.totLen, r.xid, r.prev, r.info, r.rmid, r.crc, blockViews none r.blocks⟩

/-! ### segments -/

def align8 (n : Nat) : Nat := (n + 7) / 8 * 8

def pad8 (b : Bytes) : Bytes := b ++ zeros (align8 b.length - b.length)

/-- XLOG_PAGE_MAGIC (xlog_internal.h) of the released major versions 12–16: (version, magic) -/
def pageMagicTable : List (Nat × Nat) := [(12, 0xD101), (13, 0xD106), (14, 0xD10D), (15, 0xD110), (16, 0xD113)]

/-- the page magics of PostgreSQL 12–16 -/
def pageMagics : List Nat := pageMagicTable.map (·.2)

/-- the major version that writes pages with this magic -/
def versionOfMagic (m : Nat) : Option Nat := (pageMagicTable.find? (·.2 == m)).map (·.1)

/-- the page was written by PostgreSQL ≤ 14 (old bimg_info bit assignment) -/
def pre15 (m : Nat) : Bool := match versionOfMagic m with
  | some v => v ≤ 14
  | none => false

/-- a segment file (possibly shorter than a full segment): page 0 carries the long header;
`pre` = the tail of a record begun in the previous segment (xlp_rem_len of page 0), then the records,
then zeros to the end of the last page used, then `tailPages` never-written (all-zero) pages -/
structure WalSegment where
  magic : Nat
  tli : Nat
  startAddr : Nat
  sysid : Nat
  segSize : Nat
  removable : Bool             -- XLP_BKP_REMOVABLE 0x0004 on the pages
  pre : Bytes
  records : List WalRecord
  tailPages : Nat
deriving Repr, Inhabited

def cap0 : Nat := 8192 - 40
def capN : Nat := 8192 - 24

/-- the stream of usable bytes -/
def WalSegment.stream (s : WalSegment) : Bytes := pad8 s.pre ++ s.records.flatMap fun r => pad8 (encRecord r)

/-- stream offset of every record -/
def offsetsFrom : Nat → List WalRecord → List Nat
  | _, [] => []
  | o, r :: rs => o :: offsetsFrom (o + align8 r.totLen) rs

def WalSegment.offsets (s : WalSegment) : List Nat := offsetsFrom (align8 s.pre.length) s.records

def WalSegment.streamLen (s : WalSegment) : Nat :=
  align8 s.pre.length + (s.records.map fun r => align8 r.totLen).sum

/-- stream position of the first usable byte of page `k` -/
def pageStart (k : Nat) : Nat := if k = 0 then 0 else cap0 + (k - 1) * capN

/-- stream position → (page number, offset inside the page) -/
def locate (o : Nat) : Nat × Nat :=
  if o < cap0 then (0, 40 + o) else ((o - cap0) / capN + 1, 24 + (o - cap0) % capN)

/-- pages needed for a stream of `n` bytes (at least one) -/
def pagesFor (n : Nat) : Nat := if n ≤ cap0 then 1 else 1 + (n - cap0 + capN - 1) / capN

/-- true log position of the byte at stream offset `o` -/
def WalSegment.lsnAt (s : WalSegment) (o : Nat) : Nat := s.startAddr + 8192 * (locate o).1 + (locate o).2

/-- the (offset, length) items of the stream that can be cut by a page start -/
def WalSegment.items (s : WalSegment) : List (Nat × Nat) :=
  s.offsets.zip (s.records.map (·.totLen))

/-- xlp_rem_len of the page whose usable bytes start at stream position `b` -/
def WalSegment.remLen (s : WalSegment) (b : Nat) : Nat :=
  if b < s.pre.length then s.pre.length - b
  else match s.items.find? (fun it => it.1 < b && b < it.1 + it.2) with
    | some it => it.1 + it.2 - b
    | none => 0

/-- XLogPageHeaderData (24 bytes: magic, info, timeline, page address, rem_len, padding) followed by the
long-header extension `ext` (system id, segment size, block size on the first page of a segment; else nothing) -/
def pageHdrBytes (magic info tli addr rem : Nat) (ext : Bytes) : Bytes :=
  le 2 magic ++ (le 2 info ++ (le 4 tli ++ (le 8 addr ++ (le 4 rem ++ (zeros 4 ++ ext)))))

/-- xlp_info: FIRST_IS_CONTRECORD 1 when the page starts inside a record, LONG_HEADER 2 on page 0, BKP_REMOVABLE 4 -/
def pageInfo (s : WalSegment) (k rem : Nat) : Nat :=
  (if rem > 0 then 1 else 0) + (if k = 0 then 2 else 0) + (if s.removable then 4 else 0)

def longExt (s : WalSegment) (k : Nat) : Bytes :=
  if k = 0 then le 8 s.sysid ++ (le 4 s.segSize ++ le 4 8192) else []

/-- the header of page `k` when `rem` bytes of a record begun earlier are still to come -/
def pageHeader (s : WalSegment) (k rem : Nat) : Bytes :=
  pageHdrBytes s.magic (pageInfo s k rem) s.tli (s.startAddr + 8192 * k) rem (longExt s k)

def encPageHeader (s : WalSegment) (k : Nat) : Bytes := pageHeader s k (s.remLen (pageStart k))

/-- cut the stream into the pages `k, k+1, …` (`n` pages) -/
def encPagesFrom (s : WalSegment) : Nat → Nat → Bytes → Bytes
  | 0, _, _ => []
  | n+1, k, rest =>
    let cap := if k = 0 then cap0 else capN
    let chunk := rest.take cap
    encPageHeader s k ++ chunk ++ zeros (cap - chunk.length) ++ encPagesFrom s n (k + 1) (rest.drop cap)

def WalSegment.usedPages (s : WalSegment) : Nat := pagesFor s.streamLen

def encSegment (s : WalSegment) : Bytes :=
  encPagesFrom s s.usedPages 0 s.stream ++ zeros (8192 * s.tailPages)

def WalSegment.WF (s : WalSegment) : Prop :=
  s.magic < 65536 ∧ 0 < s.tli ∧ s.tli < 2 ^ 32 ∧ s.sysid < 2 ^ 64 ∧ 0 < s.segSize ∧ s.segSize < 2 ^ 32 ∧
  s.segSize % 8192 = 0 ∧ s.startAddr % s.segSize = 0 ∧
  s.startAddr + 8192 * (s.usedPages + s.tailPages) < 2 ^ 64 ∧ s.pre.length < 2 ^ 32 ∧
  (∀ r ∈ s.records, r.WF (pre15 s.magic))

instance (s : WalSegment) : Decidable s.WF := by unfold WalSegment.WF; infer_instance

/-- the 24-byte XLogRecord header of the record at stream offset `o` lies on one page -/
def headerOnOnePage (o : Nat) : Bool := (locate o).2 + 24 ≤ 8192

/-- the whole record at stream offset `o` with total length `len` lies on one page -/
def recordOnOnePage (o len : Nat) : Bool := (locate o).2 + len ≤ 8192

/-- every record, in order, with its true position -/
def WalSegment.view (s : WalSegment) : List RecView :=
  (s.records.zip s.offsets).map fun ro => recView (s.lsnAt ro.2) ro.1

/-! ### names (PostgreSQL 12–16: rmgrlist.h; the XLOG_* opcode macros / rm_identify strings of each resource manager) -/

/-- PG_RMGR(…) names of rmgrlist.h, spelled as PostgreSQL spells them (ids 0..21; PostgreSQL 15+ lets extensions
register ids 128..255 under names of their own: not listed) -/
def pgRmgrName : Nat → Option String
  | 0 => "XLOG" | 1 => "Transaction" | 2 => "Storage" | 3 => "CLOG" | 4 => "Database" | 5 => "Tablespace"
  | 6 => "MultiXact" | 7 => "RelMap" | 8 => "Standby" | 9 => "Heap2" | 10 => "Heap" | 11 => "Btree"
  | 12 => "Hash" | 13 => "Gin" | 14 => "Gist" | 15 => "Sequence" | 16 => "SPGist" | 17 => "BRIN"
  | 18 => "CommitTs" | 19 => "ReplicationOrigin" | 20 => "Generic" | 21 => "LogicalMessage"
  | _ => none

/-- the bits of xl_info rm_identify switches on, per resource manager: `info & ~XLR_INFO_MASK` (the low four bits belong
to the WAL machinery) — for heap, heap2 and brin this includes bit 7, XLOG_HEAP_INIT_PAGE / XLOG_BRIN_INIT_PAGE: the flag
is part of the record type's name (`INSERT+INIT`), and an opcode that cannot carry it has no name with it;
xact_identify masks with XLOG_XACT_OPMASK 0x70 (bit 7 is XLOG_XACT_HAS_INFO); a Generic record has no opcode -/
def opMask (rmid : Nat) : Nat :=
  if rmid = 20 then 0x00 else if rmid = 1 then 0x70 else 0xF0

/-- rmid ↦ (opcode, first version, last version, name): the record types as rm_identify of each resource manager names
them (what pg_waldump prints), for the major versions 12..16.  The string is rm_identify's, which is the suffix of the
XLOG_<RMGR>_<NAME> macro except: heap_identify says HEAP_CONFIRM for XLOG_HEAP_CONFIRM, xact_identify INVALIDATION for
XLOG_XACT_INVALIDATIONS; and heap_identify / heap2_identify / brin_identify name the combinations with
XLOG_HEAP_INIT_PAGE / XLOG_BRIN_INIT_PAGE (0x80) that exist: INSERT+INIT, UPDATE+INIT, HOT_UPDATE+INIT (heap),
MULTI_INSERT+INIT (heap2), INSERT+INIT, UPDATE+INIT (brin) — no other opcode has a name with that bit.
Version-dependent: Heap2 0x10..0x30 (renumbered in 14), Database (15), Btree INSERT_POST/DEDUP (13),
Transaction INVALIDATION (14), Gist ASSIGN_LSN (13).  Not listed, i.e. the Spec is silent there:
CommitTs 0x20 (SETTS, dropped in some release of this range), resource managers of extensions (ids ≥ 128). -/
def pgOps : Nat → List (Nat × Nat × Nat × String)
  -- XLOG (pg_control.h)
  | 0 => [(0x00, 12, 16, "CHECKPOINT_SHUTDOWN"), (0x10, 12, 16, "CHECKPOINT_ONLINE"),
    (0x20, 12, 16, "NOOP"), (0x30, 12, 16, "NEXTOID"), (0x40, 12, 16, "SWITCH"),
    (0x50, 12, 16, "BACKUP_END"), (0x60, 12, 16, "PARAMETER_CHANGE"),
    (0x70, 12, 16, "RESTORE_POINT"), (0x80, 12, 16, "FPW_CHANGE"),
    (0x90, 12, 16, "END_OF_RECOVERY"), (0xA0, 12, 16, "FPI_FOR_HINT"), (0xB0, 12, 16, "FPI"),
    (0xD0, 12, 16, "OVERWRITE_CONTRECORD")]
  -- Transaction (xact.h, xact_identify; XLOG_XACT_OPMASK 0x70)
  | 1 => [(0x00, 12, 16, "COMMIT"), (0x10, 12, 16, "PREPARE"), (0x20, 12, 16, "ABORT"),
    (0x30, 12, 16, "COMMIT_PREPARED"), (0x40, 12, 16, "ABORT_PREPARED"),
    (0x50, 12, 16, "ASSIGNMENT"), (0x60, 14, 16, "INVALIDATION")]
  -- Storage (storage_xlog.h)
  | 2 => [(0x10, 12, 16, "CREATE"), (0x20, 12, 16, "TRUNCATE")]
  -- CLOG (clog.h)
  | 3 => [(0x00, 12, 16, "ZEROPAGE"), (0x10, 12, 16, "TRUNCATE")]
  -- Database (dbcommands_xlog.h; renumbered in 15)
  | 4 => [(0x00, 12, 14, "CREATE"), (0x10, 12, 14, "DROP"), (0x00, 15, 16, "CREATE_FILE_COPY"),
    (0x10, 15, 16, "CREATE_WAL_LOG"), (0x20, 15, 16, "DROP")]
  -- Tablespace (tablespace.h)
  | 5 => [(0x00, 12, 16, "CREATE"), (0x10, 12, 16, "DROP")]
  -- MultiXact (multixact.h)
  | 6 => [(0x00, 12, 16, "ZERO_OFF_PAGE"), (0x10, 12, 16, "ZERO_MEM_PAGE"), (0x20, 12, 16, "CREATE_ID"),
    (0x30, 12, 16, "TRUNCATE_ID")]
  -- RelMap (relmapper.h)
  | 7 => [(0x00, 12, 16, "UPDATE")]
  -- Standby (standbydefs.h)
  | 8 => [(0x00, 12, 16, "LOCK"), (0x10, 12, 16, "RUNNING_XACTS"), (0x20, 12, 16, "INVALIDATIONS")]
  -- Heap2 (heapam_xlog.h; 0x10..0x30 renumbered in 14)
  | 9 => [(0x00, 12, 16, "REWRITE"), (0x10, 12, 13, "CLEAN"), (0x20, 12, 13, "FREEZE_PAGE"),
    (0x30, 12, 13, "CLEANUP_INFO"), (0x10, 14, 16, "PRUNE"), (0x20, 14, 16, "VACUUM"),
    (0x30, 14, 16, "FREEZE_PAGE"), (0x40, 12, 16, "VISIBLE"), (0x50, 12, 16, "MULTI_INSERT"),
    (0x60, 12, 16, "LOCK_UPDATED"), (0x70, 12, 16, "NEW_CID"), (0xD0, 12, 16, "MULTI_INSERT+INIT")]
  -- Heap (heapam_xlog.h, heap_identify)
  | 10 => [(0x00, 12, 16, "INSERT"), (0x10, 12, 16, "DELETE"), (0x20, 12, 16, "UPDATE"),
    (0x30, 12, 16, "TRUNCATE"), (0x40, 12, 16, "HOT_UPDATE"), (0x50, 12, 16, "HEAP_CONFIRM"),
    (0x60, 12, 16, "LOCK"), (0x70, 12, 16, "INPLACE"), (0x80, 12, 16, "INSERT+INIT"),
    (0xA0, 12, 16, "UPDATE+INIT"), (0xC0, 12, 16, "HOT_UPDATE+INIT")]
  -- Btree (nbtxlog.h; INSERT_POST, DEDUP since 13)
  | 11 => [(0x00, 12, 16, "INSERT_LEAF"), (0x10, 12, 16, "INSERT_UPPER"), (0x20, 12, 16, "INSERT_META"),
    (0x30, 12, 16, "SPLIT_L"), (0x40, 12, 16, "SPLIT_R"), (0x50, 13, 16, "INSERT_POST"),
    (0x60, 13, 16, "DEDUP"), (0x70, 12, 16, "DELETE"), (0x80, 12, 16, "UNLINK_PAGE"),
    (0x90, 12, 16, "UNLINK_PAGE_META"), (0xA0, 12, 16, "NEWROOT"),
    (0xB0, 12, 16, "MARK_PAGE_HALFDEAD"), (0xC0, 12, 16, "VACUUM"), (0xD0, 12, 16, "REUSE_PAGE"),
    (0xE0, 12, 16, "META_CLEANUP")]
  -- Hash (hash_xlog.h)
  | 12 => [(0x00, 12, 16, "INIT_META_PAGE"), (0x10, 12, 16, "INIT_BITMAP_PAGE"), (0x20, 12, 16, "INSERT"),
    (0x30, 12, 16, "ADD_OVFL_PAGE"), (0x40, 12, 16, "SPLIT_ALLOCATE_PAGE"),
    (0x50, 12, 16, "SPLIT_PAGE"), (0x60, 12, 16, "SPLIT_COMPLETE"),
    (0x70, 12, 16, "MOVE_PAGE_CONTENTS"), (0x80, 12, 16, "SQUEEZE_PAGE"), (0x90, 12, 16, "DELETE"),
    (0xA0, 12, 16, "SPLIT_CLEANUP"), (0xB0, 12, 16, "UPDATE_META_PAGE"),
    (0xC0, 12, 16, "VACUUM_ONE_PAGE")]
  -- Gin (ginxlog.h)
  | 13 => [(0x10, 12, 16, "CREATE_PTREE"), (0x20, 12, 16, "INSERT"), (0x30, 12, 16, "SPLIT"),
    (0x40, 12, 16, "VACUUM_PAGE"), (0x50, 12, 16, "DELETE_PAGE"),
    (0x60, 12, 16, "UPDATE_META_PAGE"), (0x70, 12, 16, "INSERT_LISTPAGE"),
    (0x80, 12, 16, "DELETE_LISTPAGE"), (0x90, 12, 16, "VACUUM_DATA_LEAF_PAGE")]
  -- Gist (gistxlog.h; ASSIGN_LSN since 13)
  | 14 => [(0x00, 12, 16, "PAGE_UPDATE"), (0x10, 12, 16, "DELETE"), (0x20, 12, 16, "PAGE_REUSE"),
    (0x30, 12, 16, "PAGE_SPLIT"), (0x60, 12, 16, "PAGE_DELETE"), (0x70, 13, 16, "ASSIGN_LSN")]
  -- Sequence (sequence.h)
  | 15 => [(0x00, 12, 16, "LOG")]
  -- SPGist (spgxlog.h)
  | 16 => [(0x10, 12, 16, "ADD_LEAF"), (0x20, 12, 16, "MOVE_LEAFS"), (0x30, 12, 16, "ADD_NODE"),
    (0x40, 12, 16, "SPLIT_TUPLE"), (0x50, 12, 16, "PICKSPLIT"), (0x60, 12, 16, "VACUUM_LEAF"),
    (0x70, 12, 16, "VACUUM_ROOT"), (0x80, 12, 16, "VACUUM_REDIRECT")]
  -- BRIN (brin_xlog.h, brin_identify; 0x80 is XLOG_BRIN_INIT_PAGE)
  | 17 => [(0x00, 12, 16, "CREATE_INDEX"), (0x10, 12, 16, "INSERT"), (0x20, 12, 16, "UPDATE"),
    (0x30, 12, 16, "SAMEPAGE_UPDATE"), (0x40, 12, 16, "REVMAP_EXTEND"),
    (0x50, 12, 16, "DESUMMARIZE"), (0x90, 12, 16, "INSERT+INIT"), (0xA0, 12, 16, "UPDATE+INIT")]
  -- CommitTs (commit_ts.h)
  | 18 => [(0x00, 12, 16, "ZEROPAGE"), (0x10, 12, 16, "TRUNCATE")]
  -- ReplicationOrigin (origin.h)
  | 19 => [(0x00, 12, 16, "SET"), (0x10, 12, 16, "DROP")]
  -- Generic (generic_desc.c: every record is "Generic")
  | 20 => [(0x00, 12, 16, "Generic")]
  -- LogicalMessage (message.h)
  | 21 => [(0x00, 12, 16, "MESSAGE")]
  | _ => []

/-- the operation name PostgreSQL (major version `ver` ∈ 12..16) assigns to (rmid, info), when it defines one -/
def pgOpName (ver rmid info : Nat) : Option String :=
  let op := info &&& opMask rmid
  ((pgOps rmid).find? fun e => e.1 == op && e.2.1 ≤ ver && ver ≤ e.2.2.1).map (·.2.2.2)

/-- commit / abort verdict of a transaction-manager record's opcode -/
def xactStatus (rmid info : Nat) : Option String :=
  if rmid = 1 then
    let op := info &&& 0x70
    if op = 0x00 ∨ op = 0x30 then some "COMMIT" else if op = 0x20 ∨ op = 0x40 then some "ABORT" else none
  else none

/-! #### which transactions a commit / abort record decides (xact.h: xl_xact_commit / xl_xact_abort) -/

/-- the parts of the main data of a COMMIT / ABORT / COMMIT_PREPARED / ABORT_PREPARED record that name transactions:
xl_xact_commit|abort { TimestampTz xact_time }, then — when xl_info has XLOG_XACT_HAS_INFO (0x80) — xl_xact_xinfo
{ uint32 xinfo } and the parts xinfo announces, of which here: XACT_XINFO_HAS_SUBXACTS (0x02): int nsubxacts,
TransactionId[nsubxacts]; XACT_XINFO_HAS_TWOPHASE (0x10): xl_xact_twophase { TransactionId xid } — the prepared
transaction a COMMIT PREPARED / ROLLBACK PREPARED ends (the record header's xl_xid is that of the backend running
the command, normally 0) -/
structure XactEnd where
  time : Nat
  subxacts : List Nat
  twophase : Option Nat
deriving Repr, DecidableEq, Inhabited

def XactEnd.xinfo (x : XactEnd) : Nat := (if x.subxacts.isEmpty then 0 else 0x02) + (if x.twophase.isSome then 0x10 else 0)

def encXactEnd (x : XactEnd) : Bytes :=
  le 8 x.time ++ (if x.xinfo = 0 then [] else le 4 x.xinfo) ++
    (if x.subxacts.isEmpty then [] else le 4 x.subxacts.length ++ x.subxacts.flatMap (le 4)) ++ optBytes (le 4) x.twophase

def XactEnd.WF (x : XactEnd) : Prop :=
  x.time < 2 ^ 64 ∧ x.subxacts.length < 2 ^ 31 ∧ (∀ s ∈ x.subxacts, s < 2 ^ 32) ∧ (∀ t ∈ x.twophase, t < 2 ^ 32)

instance (x : XactEnd) : Decidable x.WF := by unfold XactEnd.WF; infer_instance

/-- read `n` TransactionIds -/
def takeXids : Nat → Bytes → Option (List Nat × Bytes)
  | 0, bs => some ([], bs)
  | n+1, bs => if bs.length < 4 then none else
      match takeXids n (bs.drop 4) with
      | some (xs, rest) => some (rd 4 bs :: xs, rest)
      | none => none

/-- ParseCommitRecord / ParseAbortRecord restricted to main data whose xinfo announces nothing but subtransactions
and a two-phase xid (any other bit: `none`, the Spec is silent) -/
def decXactEnd (info : Nat) (d : Bytes) : Option XactEnd :=
  if d.length < 8 then none
  else if info &&& 0x80 = 0 then some ⟨rd 8 d, [], none⟩
  else if d.length < 12 then none
  else
    let xinfo := rd 4 (d.drop 8)
    if xinfo &&& 0xFFFFFFED ≠ 0 then none
    else
      let rest := d.drop 12
      let subs : Option (List Nat × Bytes) :=
        if xinfo &&& 0x02 ≠ 0 then (if rest.length < 4 then none else takeXids (rd 4 rest) (rest.drop 4)) else some ([], rest)
      match subs with
      | none => none
      | some (xs, rest) =>
        if xinfo &&& 0x10 ≠ 0 then (if rest.length < 4 then none else some ⟨rd 8 d, xs, some (rd 4 rest)⟩)
        else some ⟨rd 8 d, xs, none⟩

/-- the transactions whose fate the record decides: for COMMIT / ABORT the transaction of the record header and its
subtransactions; for COMMIT_PREPARED / ABORT_PREPARED the prepared transaction named in the body (not the header's
xid) and its subtransactions.  Main data the decoder above does not cover: the header xid alone. -/
def decidedXids (r : WalRecord) : List Nat :=
  if r.rmid = 1 ∧ (xactStatus 1 r.info).isSome then
    match decXactEnd r.info r.mainData with
    | some x =>
      let op := r.info &&& 0x70
      (if op = 0x30 ∨ op = 0x40 then x.twophase.toList else [r.xid]) ++ x.subxacts
    | none => [r.xid]
  else []

/-- a WAL segment file name: 24 upper-case hexadecimal digits (XLogFileName: timeline, log, segment;
IsXLogFileName: `strlen(fname) == 24 && strspn(fname, "0123456789ABCDEF") == 24`) -/
def isSegmentName (n : String) : Bool :=
  n.length == 24 && n.toList.all fun c => ('0' ≤ c && c ≤ '9') || ('A' ≤ c && c ≤ 'F')

/-! ### directory summary: tallies over the records of the segment files -/

/-- what the summary needs to know about one reported record -/
structure RecInfo where
  lsn : Nat
  xid : Nat
  op : String                  -- operation name
  status : Option String       -- commit/abort verdict of the record's opcode
  decided : List Nat           -- the transactions that verdict applies to (`decidedXids`)
  tables : List String         -- "db/rel" of every referenced relation with a non-zero filenode
deriving Repr, DecidableEq, Inhabited

def dedup [BEq α] : List α → List α
  | [] => []
  | x :: xs => x :: (dedup xs).filter (· != x)

/-- number of records per key, keys in first-appearance order -/
def countBy [BEq κ] (keys : List κ) : List (κ × Nat) := (dedup keys).map fun k => (k, keys.count k)

def lastStatus (rs : List RecInfo) (xid : Nat) : String :=
  match (rs.filter fun r => r.decided.contains xid && r.status.isSome).getLast? with
  | some r => r.status.getD "IN_PROGRESS"
  | none => "IN_PROGRESS"

structure Tallies where
  records : Nat
  firstLSN : Nat               -- smallest position (0 when there is no record)
  lastLSN : Nat                -- largest position
  ops : List (String × Nat)
  txs : List (Nat × String × Nat)   -- (xid, status, records) for every xid ≠ 0 that is the xl_xid of some record
  tables : List (String × Nat)
deriving Repr, Inhabited

def tally (rs : List RecInfo) : Tallies :=
  let xids := (rs.map (·.xid)).filter (· != 0)
  { records := rs.length,
    firstLSN := (rs.map (·.lsn)).foldl (fun m x => if m == 0 || x < m then x else m) 0,
    lastLSN := (rs.map (·.lsn)).foldl max 0,
    ops := countBy (rs.map (·.op)),
    txs := (countBy xids).map fun e => (e.1, lastStatus rs e.1, e.2),
    tables := countBy (rs.flatMap (·.tables)) }

def tableKey (r : RelFileNode) : String := toString r.db ++ "/" ++ toString r.rel

def tablesOf (bs : List BlockView) : List String :=
  bs.filterMap fun b => match b.rel with
    | some r => if r.rel != 0 then some (tableKey r) else none
    | none => none

end PgVerif.Spec.Wal
