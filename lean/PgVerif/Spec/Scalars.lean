/-
  Spec side of scalar values (property C04): PostgreSQL's stored representation of every supported
  scalar type (DESIGN.md section 3, rows "Other scalars", "Range", "Varlena"), written as encoders
  from abstract values, the well-formedness predicate ("valid stored value in its common range"),
  and the `view`: the value a correct tool must show.  Knows nothing about the Go code.

  The view is a `GoVal`: Go numbers for numbers (floats as IEEE bit patterns), strings for
  everything the tool prints as text.  Where text is shown the notation is fixed here, per type,
  as an injective notation of the abstract value: PostgreSQL's own output format where the tool follows
  it (ISO dates and timestamps with fractional seconds `.ffffff` without trailing zeros, `infinity`,
  `hh:mm:ss[.ffffff]`, zone `+hh[:mm[:ss]]`, uuid, macaddr, bit strings, `\x` hex bytea, `(block,offset)`,
  `%X/%X` LSNs, dotted IPv4, `[lo,hi)` ranges) and the tool's notation where it has its own (`$-12.34` money,
  `1y 2mo 3d 4h 5m 6.5s` intervals with per-component signs, uncompressed IPv6 groups, inet/cidr without the
  prefix when it is the full width, `%g` floats inside geometric values — carried as bit patterns, see
  Types/FStr.lean — and unquoted range bounds).

  What is written here from PostgreSQL's sources and NOT shared with the model (Model/Scalars.lean):
  the calendar (`pgDate`: date2j-style day count; the model inverts it with Go's `time` algorithm),
  the split of a time of day and of an interval into fields (`timeFields`, `intervalFields`: time2tm /
  interval2itm, successive truncating division and subtraction; the model uses Go's `/` and `%`), the
  fractional seconds (`fracText`: AppendSeconds + TrimTrailingZeros), the zone (`zoneText`: EncodeTimezone),
  money from integer cents, uuid / macaddr grouping, the bit string from the abstract bits, IPv4 / IPv6 groups,
  range_out.  What IS shared with the model is the neutral numeral library `PgVerif.Txt` (Types/Text.lean):
  `decNat` / `decInt` (decimal numerals), `padNat` (zero-padded fixed width), `hexNat` / `hexPad` / `hexBytes`
  (hexadecimal numerals), `joinBytes`, and the `%g` piece convention of Types/FStr.lean.  Those functions are
  pinned down independently in Proofs/TxtNumerals.lean (value of the numeral = the number, canonical form,
  uniqueness), so a wrong numeral function cannot satisfy the round-trip theorems silently.
-/
import PgVerif.Basic.Canon
import PgVerif.Types.Text
import PgVerif.Types.FStr
import PgVerif.Spec.Numeric
namespace PgVerif.Spec.Scalars
open PgVerif PgVerif.Txt

/-! ### calendar (PostgreSQL: proleptic Gregorian, day 0 = 2000-01-01) -/

def isLeap (y : Nat) : Bool := y % 4 == 0 && (y % 100 != 0 || y % 400 == 0)

def daysInMonth (y m : Nat) : Nat :=
  if m == 2 then (if isLeap y then 29 else 28)
  else if m == 4 || m == 6 || m == 9 || m == 11 then 30 else 31

/-- days of the year before the first of month `m` (1..12) -/
def daysBeforeMonth (y m : Nat) : Nat :=
  [0, 31, 59, 90, 120, 151, 181, 212, 243, 273, 304, 334].getD (m - 1) 0 + (if isLeap y && m > 2 then 1 else 0)

/-- days from 0001-01-01 to January 1st of year `y` (y ≥ 1) -/
def daysBeforeYear (y : Nat) : Nat := 365 * (y - 1) + (y - 1) / 4 - (y - 1) / 100 + (y - 1) / 400

/-- PostgreSQL's date value: days from 2000-01-01 (730119 = day number of 2000-01-01 from 0001-01-01) -/
def pgDate (y m d : Nat) : Int := (daysBeforeYear y + daysBeforeMonth y m + (d - 1) : Nat) - 730119

def validYMD (y m d : Nat) : Bool :=
  1 ≤ y && y ≤ 9999 && 1 ≤ m && m ≤ 12 && 1 ≤ d && d ≤ daysInMonth y m

inductive DateV where
  | fin (y m d : Nat)
  | posInf
  | negInf
deriving Repr, DecidableEq, Inhabited

inductive TsV where
  | fin (y m d hh mi ss usec : Nat)
  | posInf
  | negInf
deriving Repr, DecidableEq, Inhabited

def DateV.wf : DateV → Bool
  | .fin y m d => validYMD y m d
  | _ => true

def TsV.wf : TsV → Bool
  | .fin y m d hh mi ss usec => validYMD y m d && hh < 24 && mi < 60 && ss < 60 && usec < 1000000
  | _ => true

/-- stored date: i32 days, INT32_MAX / INT32_MIN = ±infinity -/
def DateV.stored : DateV → Int
  | .fin y m d => pgDate y m d
  | .posInf => 2147483647
  | .negInf => -2147483648

/-- stored timestamp: i64 microseconds from 2000-01-01 00:00:00, INT64_MAX / INT64_MIN = ±infinity -/
def TsV.stored : TsV → Int
  | .fin y m d hh mi ss usec => ((pgDate y m d * 86400 + (hh * 3600 + mi * 60 + ss : Nat)) * 1000000 + (usec : Nat))
  | .posInf => 9223372036854775807
  | .negInf => -9223372036854775808

def ymdText (y m d : Nat) : Bytes := padNat 4 y ++ [45] ++ padNat 2 m ++ [45] ++ padNat 2 d
def hmsText (hh mi ss : Nat) : Bytes := padNat 2 hh ++ [58] ++ padNat 2 mi ++ [58] ++ padNat 2 ss

def DateV.text : DateV → Bytes
  | .fin y m d => ymdText y m d
  | .posInf => asc "infinity"
  | .negInf => asc "-infinity"

/-- datetime.c:TrimTrailingZeros — the text without the `0` characters at its end -/
def trimTrailingZeros : Bytes → Bytes
  | [] => []
  | c :: rest =>
    match trimTrailingZeros rest with
    | [] => if c == 48 then [] else [c]
    | r => c :: r

/-- the fraction of a second as PostgreSQL prints it (AppendSeconds with precision 6, then TrimTrailingZeros):
nothing when zero, else `.` and the six digits of the microsecond count without the trailing zeros -/
def fracText (usec : Nat) : Bytes := if usec = 0 then [] else [46] ++ trimTrailingZeros (padNat 6 usec)

/-- PostgreSQL's ISO output: date, time of day, fractional seconds when there are any -/
def TsV.text : TsV → Bytes
  | .fin y m d hh mi ss usec => ymdText y m d ++ [32] ++ hmsText hh mi ss ++ fracText usec
  | .posInf => asc "infinity"
  | .negInf => asc "-infinity"

/-! ### JSON documents (type `json` stores the text verbatim) -/

inductive JV where
  | null
  | bool (b : Bool)
  | num (neg : Bool) (mant : Nat) (exp : Int)   -- ±mant·10^exp
  | str (s : Bytes)
  | arr (xs : List JV)
  | obj (kvs : List (Bytes × JV))
deriving Repr, Inhabited

def jsonEscape (s : Bytes) : Bytes :=
  s.flatMap fun b =>
    if b == 34 then [92, 34] else if b == 92 then [92, 92]
    else if b.toNat < 32 then asc "\\u00" ++ hexPad 2 b.toNat else [b]

/-- a JSON number literal for ±mant·10^exp: plain digits, a decimal point for negative exponents
down to −30, `e` notation otherwise -/
def jsonNum (neg : Bool) (mant : Nat) (exp : Int) : Bytes :=
  let s : Bytes := if neg then [45] else []
  let d := decNat mant
  if exp == 0 then s ++ d
  else if exp < 0 && exp ≥ -30 then
    let k := (-exp).toNat
    let d := zpad (k + 1) d
    s ++ d.take (d.length - k) ++ [46] ++ d.drop (d.length - k)
  else s ++ d ++ [101] ++ decInt exp

mutual
/-- serialisation; `ws` = whitespace style (0 compact, 1 a space after `:` and `,`, 2 spaces inside brackets too) -/
def JV.render (ws : Nat) : JV → Bytes
  | .null => asc "null"
  | .bool b => if b then asc "true" else asc "false"
  | .num n m e => jsonNum n m e
  | .str s => [34] ++ jsonEscape s ++ [34]
  | .arr xs => [91] ++ (if ws ≥ 2 then [32] else []) ++ renderList ws xs ++ (if ws ≥ 2 then [10] else []) ++ [93]
  | .obj kvs => [123] ++ (if ws ≥ 2 then [32] else []) ++ renderKvs ws kvs ++ (if ws ≥ 2 then [9] else []) ++ [125]
def renderList (ws : Nat) : List JV → Bytes
  | [] => []
  | [x] => x.render ws
  | x :: xs => x.render ws ++ [44] ++ (if ws ≥ 1 then [32] else []) ++ renderList ws xs
def renderKvs (ws : Nat) : List (Bytes × JV) → Bytes
  | [] => []
  | [(k, v)] => [34] ++ jsonEscape k ++ [34, 58] ++ (if ws ≥ 1 then [32] else []) ++ v.render ws
  | (k, v) :: rest =>
    [34] ++ jsonEscape k ++ [34, 58] ++ (if ws ≥ 1 then [32] else []) ++ v.render ws ++ [44] ++
      (if ws ≥ 1 then [32] else []) ++ renderKvs ws rest
end

mutual
/-- the document as a Go value: numbers are the nearest binary64 -/
def JV.view : JV → GoVal
  | .null => .nil
  | .bool b => .bool b
  | .num n m e => .f64 (if e ≥ 0 then f64OfRat n (m * 10 ^ e.toNat) 1 else f64OfRat n m (10 ^ (-e).toNat))
  | .str s => .str s
  | .arr xs => .arr (viewList xs)
  | .obj kvs => .obj (viewKvs kvs)
def viewList : List JV → List GoVal
  | [] => []
  | x :: xs => x.view :: viewList xs
def viewKvs : List (Bytes × JV) → List (Bytes × GoVal)
  | [] => []
  | (k, v) :: rest => (k, v.view) :: viewKvs rest
end

mutual
/-- common range: valid UTF-8 strings, unique keys, numbers with mantissa < 10^20 and |exponent| ≤ 30 -/
def JV.wf : JV → Bool
  | .num _ m e => m < 10 ^ 20 && -30 ≤ e && e ≤ 30
  | .str s => utf8Valid s
  | .arr xs => wfList xs
  | .obj kvs => wfKvs kvs && (kvs.map (·.1)).Nodup
  | _ => true
def wfList : List JV → Bool
  | [] => true
  | x :: xs => x.wf && wfList xs
def wfKvs : List (Bytes × JV) → Bool
  | [] => true
  | (k, v) :: rest => utf8Valid k && v.wf && wfKvs rest
end

/-! ### the abstract values -/

inductive TextTy where
  | text | varchar | bpchar | xml
deriving Repr, DecidableEq, Inhabited

inductive RangeTy where
  | int4 | int8 | date | ts | tstz | num
deriving Repr, DecidableEq, Inhabited

/-- a range bound; `num n form` is the numeric value `n` (Spec/Numeric.lean: NaN, ±Infinity or sign, weight, display
scale and base-10000 digits) held in the given numeric header form -/
inductive Bound where
  | int (i : Int)
  | date (d : DateV)
  | ts (t : TsV)
  | num (n : Spec.Numeric) (form : Spec.HeaderForm)
deriving Repr, DecidableEq, Inhabited

/-- a point as two binary64 bit patterns -/
abbrev Pt := Nat × Nat

inductive Val where
  | bool (b : Bool)
  | char (c : UInt8)
  | name (s : Bytes)
  | int2 (i : Int)
  | int4 (i : Int)
  | int8 (i : Int)
  | oid (n : Nat)
  | xid (n : Nat)
  | cid (n : Nat)
  | tid (block off : Nat)
  | float4 (bits : Nat)
  | float8 (bits : Nat)
  | money (cents : Int)
  | text (ty : TextTy) (s : Bytes)
  | json (doc : JV) (ws : Nat)
  | bytea (b : Bytes)
  | bit (varbit : Bool) (bits : List Bool)
  | date (d : DateV)
  | time (us : Nat)
  | timetz (us : Nat) (zoneWest : Int)
  | timestamp (tz : Bool) (t : TsV)
  | interval (months days us : Int)
  | uuid (b : Bytes)
  | pglsn (v : Nat)
  | macaddr (b : Bytes)
  | macaddr8 (b : Bytes)
  | inet (cidr v6 : Bool) (addr : Bytes) (bits : Nat)
  | point (p : Pt)
  | lseg (a b : Pt)
  | box (a b : Pt)
  | line (a b c : Nat)
  | circle (center : Pt) (r : Nat)
  | path (closed : Bool) (pts : List Pt)
  | polygon (bbox : Bytes) (pts : List Pt)
  /-- flags: EMPTY 1, LB_INC 2, UB_INC 4, LB_INF 8, UB_INF 16 -/
  | range (ty : RangeTy) (flags : Nat) (lo hi : Bound)
deriving Repr, Inhabited

def TextTy.oid : TextTy → Nat
  | .text => 25 | .varchar => 1043 | .bpchar => 1042 | .xml => 142

def RangeTy.oid : RangeTy → Nat
  | .int4 => 3904 | .num => 3906 | .ts => 3908 | .tstz => 3910 | .date => 3912 | .int8 => 3926

/-- the type oid (pg_type.dat) -/
def Val.typeOid : Val → Nat
  | .bool _ => 16 | .char _ => 18 | .name _ => 19 | .int2 _ => 21 | .int4 _ => 23 | .int8 _ => 20
  | .oid _ => 26 | .xid _ => 28 | .cid _ => 29 | .tid .. => 27 | .float4 _ => 700 | .float8 _ => 701
  | .money _ => 790 | .text ty _ => ty.oid | .json .. => 114 | .bytea _ => 17
  | .bit vb _ => if vb then 1562 else 1560
  | .date _ => 1082 | .time _ => 1083 | .timetz .. => 1266
  | .timestamp tz _ => if tz then 1184 else 1114
  | .interval .. => 1186 | .uuid _ => 2950 | .pglsn _ => 3220 | .macaddr _ => 829 | .macaddr8 _ => 774
  | .inet cidr .. => if cidr then 650 else 869
  | .point _ => 600 | .lseg .. => 601 | .box .. => 603 | .line .. => 628 | .circle .. => 718
  | .path .. => 602 | .polygon .. => 604
  | .range ty .. => ty.oid

/-! ### encoders (the stored payload handed to a type decoder: after the varlena header, if any) -/

def encPt (p : Pt) : Bytes := le 8 p.1 ++ le 8 p.2

/-- the byte holding the first 8 bits of `bs`, most significant first, missing bits zero -/
def byteOfBits (bs : List Bool) : UInt8 :=
  UInt8.ofNat ((List.range 8).foldl (fun acc k => 2 * acc + (if bs.getD k false then 1 else 0)) 0)

def packBitsN : Nat → List Bool → Bytes
  | 0, _ => []
  | n+1, bs => byteOfBits bs :: packBitsN n (bs.drop 8)

/-- bits packed MSB first, last byte zero-padded -/
def packBits (bs : List Bool) : Bytes := packBitsN ((bs.length + 7) / 8) bs

/-- a varlena bound as range_serialize (datum_write) stores it, without the padding in front: a value whose packed size
(payload + 1) is at most 127 bytes gets the 1-byte header, a longer one the 4-byte header -/
def encVarlenaBound (payload : Bytes) : Bytes :=
  if payload.length + 1 ≤ 127 then Spec.varlena1 payload else Spec.varlena4 payload

def encBound : Bound → Bytes
  | .int _ => []  -- width depends on the range type; see encBoundAs
  | .date d => le 4 (ofSigned 32 d.stored)
  | .ts t => le 8 (ofSigned 64 t.stored)
  | .num n form => encVarlenaBound (Spec.encNumeric form n)

def encBoundAs (ty : RangeTy) : Bound → Bytes
  | .int i => if ty == .int8 then le 8 (ofSigned 64 i) else le 4 (ofSigned 32 i)
  | b => encBound b

/-- the alignment padding range_serialize puts in front of a bound that follows `before` bytes of range payload (type oid and
lower bound): a varlena with a 4-byte header is int-aligned relative to the start of the range's own 4-byte header
(position = 4 + before), with zero bytes; a 1-byte-header varlena is not aligned; the fixed-width element types need no
padding (see `enc`) -/
def boundPad (before : Nat) : Bound → Bytes
  | .num n form => if (Spec.encNumeric form n).length + 1 ≤ 127 then [] else zeros ((4 - before % 4) % 4)
  | _ => []

def rangeHasLower (flags : Nat) : Bool := !(flags.testBit 0 || flags.testBit 3)
def rangeHasUpper (flags : Nat) : Bool := !(flags.testBit 0 || flags.testBit 4)

def enc : Val → Bytes
  | .bool b => [if b then 1 else 0]
  | .char c => [c]
  | .name s => s ++ zeros (64 - s.length)
  | .int2 i => le 2 (ofSigned 16 i)
  | .int4 i => le 4 (ofSigned 32 i)
  | .int8 i => le 8 (ofSigned 64 i)
  | .oid n => le 4 n
  | .xid n => le 4 n
  | .cid n => le 4 n
  | .tid block off => le 2 (block / 65536) ++ le 2 (block % 65536) ++ le 2 off   -- bi_hi, bi_lo, posid
  | .float4 b => le 4 b
  | .float8 b => le 8 b
  | .money c => le 8 (ofSigned 64 c)
  | .text _ s => s
  | .json d ws => d.render ws
  | .bytea b => b
  | .bit _ bits => le 4 bits.length ++ packBits bits
  | .date d => le 4 (ofSigned 32 d.stored)
  | .time us => le 8 us
  | .timetz us z => le 8 us ++ le 4 (ofSigned 32 z)
  | .timestamp _ t => le 8 (ofSigned 64 t.stored)
  | .interval months days us => le 8 (ofSigned 64 us) ++ le 4 (ofSigned 32 days) ++ le 4 (ofSigned 32 months)
  | .uuid b => b
  | .pglsn v => le 8 v
  | .macaddr b => b
  | .macaddr8 b => b
  | .inet _ v6 addr bits => [if v6 then 3 else 2, UInt8.ofNat bits] ++ addr
  | .point p => encPt p
  | .lseg a b => encPt a ++ encPt b
  | .box a b => encPt a ++ encPt b
  | .line a b c => le 8 a ++ le 8 b ++ le 8 c
  | .circle c r => encPt c ++ le 8 r
  | .path closed pts => le 4 pts.length ++ le 4 (if closed then 1 else 0) ++ le 4 0 ++ pts.flatMap encPt
  | .polygon bbox pts => le 4 pts.length ++ bbox ++ pts.flatMap encPt
  /- rangetypid, [lower], [upper], flags last.  Bounds are aligned to the element's typalign relative
     to the varlena start; rangetypid ends at offset 8 there and every fixed element's size equals its
     alignment (4 or 8): no padding appears between them.  A numeric bound of up to 126 payload bytes carries a 1-byte
     header (no alignment); a longer one a 4-byte header, int-aligned (`boundPad`; the lower bound starts at offset 8 of the
     range and is always aligned). -/
  | .range ty flags lo hi =>
    le 4 ty.oid ++ (if rangeHasLower flags then encBoundAs ty lo else []) ++
      (if rangeHasUpper flags then
        boundPad (4 + (if rangeHasLower flags then encBoundAs ty lo else []).length) hi ++ encBoundAs ty hi else []) ++
      [UInt8.ofNat flags]

/-! ### well-formedness: a valid stored value in the common range of its type -/

def inI (bits : Nat) (i : Int) : Bool := -(2 ^ (bits - 1) : Int) ≤ i && i < (2 ^ (bits - 1) : Int)

def Bound.wf (ty : RangeTy) : Bound → Bool
  | .int i => (ty == .int4 && inI 32 i) || (ty == .int8 && inI 64 i)
  | .date d => ty == .date && d.wf
  | .ts t => (ty == .ts || ty == .tstz) && t.wf
  | .num n form => ty == .num && decide n.WF && decide (form.admits n) && decide ((Spec.encNumeric form n).length + 4 < 2 ^ 30)

def Val.wf : Val → Bool
  | .name s => s.length < 64 && !s.contains 0
  | .int2 i => inI 16 i
  | .int4 i => inI 32 i
  | .int8 i => inI 64 i
  | .oid n | .xid n | .cid n => n < 2 ^ 32
  | .tid block off => block < 2 ^ 32 && off < 2 ^ 16
  | .float4 b => b < 2 ^ 32
  | .float8 b => b < 2 ^ 64
  | .money c => inI 64 c
  -- the empty string never reaches a type decoder (the row reader reports it itself)
  | .text _ s => s.length ≥ 1 && utf8Valid s
  | .json d ws => d.wf && ws ≤ 2
  | .bytea b => b.length ≥ 1
  | .bit _ bits => bits.length < 2 ^ 31
  | .date d => d.wf
  | .time us => us ≤ 86400000000
  | .timetz us z => us ≤ 86400000000 && -57600 < z && z < 57600
  | .timestamp _ t => t.wf
  | .interval months days us => inI 32 months && inI 32 days && inI 64 us
  | .uuid b => b.length == 16
  | .pglsn v => v < 2 ^ 64
  | .macaddr b => b.length == 6
  | .macaddr8 b => b.length == 8
  | .inet _ v6 addr bits => if v6 then addr.length == 16 && bits ≤ 128 else addr.length == 4 && bits ≤ 32
  | .point p => p.1 < 2 ^ 64 && p.2 < 2 ^ 64
  | .lseg a b | .box a b => a.1 < 2 ^ 64 && a.2 < 2 ^ 64 && b.1 < 2 ^ 64 && b.2 < 2 ^ 64
  | .line a b c => a < 2 ^ 64 && b < 2 ^ 64 && c < 2 ^ 64
  | .circle c r => c.1 < 2 ^ 64 && c.2 < 2 ^ 64 && r < 2 ^ 64
  | .path _ pts => 1 ≤ pts.length && pts.length < 2 ^ 27 && pts.all fun p => p.1 < 2 ^ 64 && p.2 < 2 ^ 64
  | .polygon bbox pts => bbox.length == 32 && 1 ≤ pts.length && pts.length < 2 ^ 27 && pts.all fun p => p.1 < 2 ^ 64 && p.2 < 2 ^ 64
  | .range ty flags lo hi =>
    flags < 32 && (!rangeHasLower flags || lo.wf ty) && (!rangeHasUpper flags || hi.wf ty)
  | _ => true

def Val.WF (v : Val) : Prop := v.wf = true
instance (v : Val) : Decidable v.WF := by unfold Val.WF; infer_instance

/-! ### views -/

def ptPieces (p : Pt) : List GoVal := [lit "(", hole p.1, lit ",", hole p.2, lit ")"]

/-- `+hh[:mm[:ss]]`, east of UTC positive (PostgreSQL's EncodeTimezone) -/
def zoneText (zoneWest : Int) : Bytes :=
  let e := (-zoneWest).natAbs
  [if zoneWest > 0 then 45 else 43] ++ padNat 2 (e / 3600) ++
    (if e % 3600 != 0 then [58] ++ padNat 2 (e / 60 % 60) ++ (if e % 60 != 0 then [58] ++ padNat 2 (e % 60) else []) else [])

/-- date.c:time2tm — hours, minutes, seconds and microseconds of a time of day, by successive division and
subtraction -/
def timeFields (us : Nat) : Nat × Nat × Nat × Nat :=
  let h := us / 3600000000
  let r := us - h * 3600000000
  let m := r / 60000000
  let r := r - m * 60000000
  let sec := r / 1000000
  (h, m, sec, r - sec * 1000000)

/-- `hh:mm:ss[.ffffff]` (EncodeTimeOnly) -/
def timeText (us : Nat) : Bytes :=
  let f := timeFields us
  hmsText f.1 f.2.1 f.2.2.1 ++ fracText f.2.2.2

/-- timestamp.c:interval2itm — years, months, days, hours, minutes, seconds, microseconds; every division truncates
toward zero (C), so all time fields carry the sign of `us` and year / month the sign of `months` -/
structure IntervalFields where
  year : Int
  mon : Int
  day : Int
  hour : Int
  min : Int
  sec : Int
  usec : Int
deriving Repr, DecidableEq

def intervalFields (months days us : Int) : IntervalFields :=
  let y := months.tdiv 12
  let h := us.tdiv 3600000000
  let r := us - h * 3600000000
  let mi := r.tdiv 60000000
  let r := r - mi * 60000000
  let sec := r.tdiv 1000000
  { year := y, mon := months - y * 12, day := days, hour := h, min := mi, sec := sec, usec := r - sec * 1000000 }

/-- interval notation (the tool's): the non-zero fields in the order years `y`, months `mo`, days `d`, hours `h`,
minutes `m`, seconds `s`, separated by blanks, each with its own sign; the seconds carry their fraction
(`-0.5s`, `6.25s`) and are present when seconds or microseconds are non-zero; `0` if no field is -/
def intervalText (months days us : Int) : Bytes :=
  let f := intervalFields months days us
  let part (v : Int) (suffix : String) : List Bytes := if v = 0 then [] else [decInt v ++ asc suffix]
  let secs : List Bytes :=
    if f.sec = 0 ∧ f.usec = 0 then []
    else [(if f.sec < 0 ∨ f.usec < 0 then [45] else []) ++ decNat f.sec.natAbs ++ fracText f.usec.natAbs ++ asc "s"]
  let parts := part f.year "y" ++ part f.mon "mo" ++ part f.day "d" ++ part f.hour "h" ++ part f.min "m" ++ secs
  if parts.isEmpty then asc "0" else joinBytes [32] parts

def ipv4Text (addr : Bytes) : Bytes := joinBytes [46] (addr.map fun b => decNat b.toNat)

def ipv6Text : Bytes → List Bytes
  | hi :: lo :: rest => hexNat false (hi.toNat * 256 + lo.toNat) :: ipv6Text rest
  | _ => []

def Bound.text : Bound → Bytes
  | .int i => decInt i
  | .date d => d.text
  | .ts t => t.text
  | .num .. => []   -- a numeric bound is a `%g` hole, not bytes: see `Bound.pieces`

/-- PostgreSQL's range_out, bounds unquoted -/
def rangeText (flags : Nat) (lo hi : Bound) : Bytes :=
  if flags.testBit 0 then asc "empty"
  else
    [if flags.testBit 1 then 91 else 40] ++ (if rangeHasLower flags then lo.text else []) ++ [44] ++
      (if rangeHasUpper flags then hi.text else []) ++ [if flags.testBit 2 then 93 else 41]

/-- a bound as pieces of a formatted string: a numeric bound is shown as the float64 nearest to its value (what the tool
returns for every numeric, property C05) printed with `%g` — carried as its bit pattern (Types/FStr.lean) -/
def Bound.pieces : Bound → List GoVal
  | .num n _ => [hole n.view.bits]
  | b => [.str b.text]

/-- range_out for a numrange, as pieces -/
def numRangePieces (flags : Nat) (lo hi : Bound) : List GoVal :=
  if flags.testBit 0 then [lit "empty"]
  else
    [lit (if flags.testBit 1 then "[" else "(")] ++ (if rangeHasLower flags then lo.pieces else []) ++ [lit ","] ++
      (if rangeHasUpper flags then hi.pieces else []) ++ [lit (if flags.testBit 2 then "]" else ")")]

def view : Val → GoVal
  | .bool b => .bool b
  | .char c => .str [c]
  | .name s => .str s
  | .int2 i | .int4 i | .int8 i => .int i
  | .oid n | .xid n | .cid n => .int n
  | .tid block off => .str ([40] ++ decNat block ++ [44] ++ decNat off ++ [41])
  | .float4 b => .f32 b
  | .float8 b => .f64 b
  | .money c => .str ([36] ++ (if c < 0 then [45] else []) ++ decNat (c.natAbs / 100) ++ [46] ++ padNat 2 (c.natAbs % 100))
  | .text _ s => .str s
  | .json d _ => d.view
  | .bytea b => .str ([92, 120] ++ hexBytes b)
  | .bit _ bits => .str (bits.map fun b => if b then 49 else 48)
  | .date d => .str d.text
  | .time us => .str (timeText us)
  | .timetz us z => .str (timeText us ++ zoneText z)
  | .timestamp _ t => .str t.text
  | .interval months days us => .str (intervalText months days us)
  | .uuid b =>
    .str (hexBytes (b.take 4) ++ [45] ++ hexBytes ((b.drop 4).take 2) ++ [45] ++ hexBytes ((b.drop 6).take 2) ++ [45] ++
      hexBytes ((b.drop 8).take 2) ++ [45] ++ hexBytes (b.drop 10))
  | .pglsn v => .str (hexNat true (v / 2 ^ 32) ++ [47] ++ hexNat true (v % 2 ^ 32))
  | .macaddr b | .macaddr8 b => .str (joinBytes [58] (b.map fun x => hexPad 2 x.toNat))
  | .inet _ v6 addr bits =>
    let a := if v6 then joinBytes [58] (ipv6Text addr) else ipv4Text addr
    .str (if bits != (if v6 then 128 else 32) then a ++ [47] ++ decNat bits else a)
  | .point p => fstr (ptPieces p)
  | .lseg a b => fstr ([lit "["] ++ ptPieces a ++ [lit ","] ++ ptPieces b ++ [lit "]"])
  | .box a b => fstr ([lit "("] ++ ptPieces a ++ [lit "),("] ++ ptPieces b ++ [lit ")"])
  | .line a b c => fstr [lit "{", hole a, lit ",", hole b, lit ",", hole c, lit "}"]
  | .circle c r => fstr ([lit "<"] ++ ptPieces c ++ [lit ",", hole r, lit ">"])
  | .path closed pts =>
    fstr ([lit (if closed then "(" else "[")] ++ joinPieces (lit ",") (pts.map ptPieces) ++ [lit (if closed then ")" else "]")])
  | .polygon _ pts => fstr ([lit "("] ++ joinPieces (lit ",") (pts.map ptPieces) ++ [lit ")"])
  | .range .num flags lo hi => fstrS (numRangePieces flags lo hi)
  | .range _ flags lo hi => .str (rangeText flags lo hi)

/-! ### PostgreSQL's names (pg_type.typname) of the supported type oids -/

def pgTypeNames : List (Nat × String) :=
  [(16, "bool"), (17, "bytea"), (18, "char"), (19, "name"), (20, "int8"), (21, "int2"), (23, "int4"),
   (25, "text"), (26, "oid"), (27, "tid"), (28, "xid"), (29, "cid"), (114, "json"), (142, "xml"),
   (600, "point"), (601, "lseg"), (602, "path"), (603, "box"), (604, "polygon"), (628, "line"),
   (650, "cidr"), (700, "float4"), (701, "float8"), (718, "circle"), (774, "macaddr8"), (790, "money"),
   (829, "macaddr"), (869, "inet"), (1042, "bpchar"), (1043, "varchar"), (1082, "date"), (1083, "time"),
   (1114, "timestamp"), (1184, "timestamptz"), (1186, "interval"), (1266, "timetz"), (1560, "bit"),
   (1562, "varbit"), (1700, "numeric"), (2950, "uuid"), (3220, "pg_lsn"), (3614, "tsvector"),
   (3615, "tsquery"), (3802, "jsonb"), (3904, "int4range"), (3906, "numrange"), (3908, "tsrange"),
   (3910, "tstzrange"), (3912, "daterange"), (3926, "int8range"), (4072, "jsonpath")]

/-- pg_type.typname of the 51 array types whose values DecodeType decodes (pg_type.dat, PostgreSQL 12–16): `_` followed by
the element type's name -/
def pgArrayTypeNames : List (Nat × String) :=
  [(629, "_line"), (651, "_cidr"), (719, "_circle"), (775, "_macaddr8"), (791, "_money"), (1000, "_bool"), (1001, "_bytea"),
   (1002, "_char"), (1003, "_name"), (1005, "_int2"), (1006, "_int2vector"), (1007, "_int4"), (1008, "_regproc"),
   (1009, "_text"), (1010, "_tid"), (1011, "_xid"), (1012, "_cid"), (1014, "_bpchar"), (1015, "_varchar"), (1016, "_int8"),
   (1017, "_point"), (1018, "_lseg"), (1019, "_path"), (1020, "_box"), (1021, "_float4"), (1022, "_float8"),
   (1027, "_polygon"), (1028, "_oid"), (1040, "_macaddr"), (1041, "_inet"), (1115, "_timestamp"), (1182, "_date"),
   (1183, "_time"), (1185, "_timestamptz"), (1187, "_interval"), (1231, "_numeric"), (1270, "_timetz"), (1561, "_bit"),
   (1563, "_varbit"), (2951, "_uuid"), (3221, "_pg_lsn"), (3643, "_tsvector"), (3645, "_tsquery"), (3807, "_jsonb"),
   (3905, "_int4range"), (3907, "_numrange"), (3909, "_tsrange"), (3911, "_tstzrange"), (3913, "_daterange"),
   (3927, "_int8range"), (4073, "_jsonpath")]

/-! ### classes of recorded findings (decided on the abstract value) -/

/-- A10: pg_lsn halves printed in the wrong order — visible iff the halves differ -/
def kfPgLsn : Val → Bool
  | .pglsn v => v / 2 ^ 32 != v % 2 ^ 32
  | _ => false

/-- A11: tid block number halves swapped — visible iff the halves differ -/
def kfTid : Val → Bool
  | .tid block _ => block / 65536 != block % 65536
  | _ => false

end PgVerif.Spec.Scalars
