/-
  Spec side of a whole cluster (C01, C11, C12): the contents of a PostgreSQL data directory as abstract
  values — pg_database, per database pg_class / pg_attribute (each a heap of row *versions*, live and dead,
  spread over pages), user heaps, files of other relations — the encoder `fsOf` into a file tree
  (paths ↦ bytes) in PostgreSQL's REAL catalog layouts (12–13, 14–15, 16; DESIGN.md section 3), and
  `expectedDump`, the direct definition of what the property text says a dump must contain.
  Knows nothing about the Go code.

  Where PostgreSQL's notion and pgread's differ the Spec takes PostgreSQL's (remediation R6): a template database is one
  whose `datistemplate` is set (not one whose name starts with `template`); the value of an inline-compressed or
  out-of-line (TOASTed) datum is the ORIGINAL value (`Comp.original` / `DbContent.detoast`), not the stored bytes / a placeholder; a heap is
  all its segment files (`Cluster.segPages`) wherever its tablespace puts them (`ClassRow.tblspc`).  The open findings
  C01-TPL, A02, C01-SEG, C01-TBLSPC of fixes/cluster/known_findings.json are exactly the clusters on which pgread's
  answer differs; the theorems of Props/C01.lean carry them as explicit hypotheses (`TemplatesByName`, `A02Free`,
  `Cluster.Plain`).
  Second review (R11): the MAPPED catalogs pg_database, pg_class, pg_attribute live under the relfilenode that
  `pg_filenode.map` records for them (`Cluster.globalMap`, `DbContent.relmap`; identity after initdb, different after
  VACUUM FULL / CLUSTER of the catalog) and `fsOf` writes the map files (`Spec.encRelMap`, area control); a database lies in
  its default tablespace (`DbRow.tblspc` = pg_database.dattablespace); a column added with a non-NULL fast default
  (`DbContent.missing` = pg_attribute.atthasmissing / attmissingval, PostgreSQL ≥ 11) has that default in every row written
  before the ALTER TABLE.  Open findings C01-MAPPED, C01-TBLSPC (extended), C01-MISSINGVAL; hypotheses
  `Cluster.IdentityMapped`, `Cluster.Plain`, `Cluster.NoFastDefaults`.
  Interpretations that remain (the property text leaves them open and they are stated in the claim): "ordinary user
  table" = relkind `r` with a relfilenode of its own (relfilenode 0 with relkind `r` is a MAPPED SYSTEM CATALOG — pg_class,
  pg_attribute, pg_type, pg_proc …, located through pg_filenode.map — never a user table); the "system-table filter" is the
  documented `SkipSystemTables` = "skip pg_* tables" (name prefix); a dropped column keeps its pg_attribute row and is
  listed (type id 0); the case-insensitive table filter folds ASCII letters only (`lowerB`): where Go's Unicode folding
  differs the Spec is silent (`Model.GoCase.FilterStable` hypotheses).
-/
import PgVerif.Basic.Canon
import PgVerif.Spec.Heap
import PgVerif.Spec.Rows
import PgVerif.Spec.Relmap
import PgVerif.Spec.Crc
namespace PgVerif.Spec
open PgVerif

/-! ## Result types shared by the spec view and the model (plain data) -/

/-- a decoded row: column name ↦ value (Go: `map[string]interface{}`) -/
abbrev DRow := List (Bytes × GoVal)

structure ColumnInfo where
  name : Bytes
  typ : Bytes
  typid : Int
deriving Repr, Inhabited

structure TableDump where
  oid : Nat
  name : Bytes
  filenode : Nat
  kind : Bytes
  columns : List ColumnInfo
  rows : List DRow
  rowCount : Nat
deriving Repr, Inhabited

structure DatabaseDump where
  oid : Nat
  name : Bytes
  tables : List TableDump
deriving Repr, Inhabited

abbrev DumpResult := List DatabaseDump

structure Options where
  dbFilter : Bytes := []
  tableFilter : Bytes := []
  listOnly : Bool := false
  skipSystem : Bool := true
  pgVersion : Nat := 0
deriving Repr, Inhabited, DecidableEq

/-! ## Abstract cluster -/

/-- a stored row version: the row and its `t_infomask` visibility bits -/
structure Stored (α : Type) where
  val : α
  infomask : Nat
deriving Repr, Inhabited

/-- a heap of row versions: pages, and per page the versions in line-pointer order -/
abbrev HeapOf (α : Type) := List (List (Stored α))

def HeapOf.versions {α} (h : HeapOf α) : List (Stored α) := h.flatten
/-- the versions a reader must see: inserter committed, no committed deleter (hint bits, C09) -/
def HeapOf.live {α} (h : HeapOf α) : List α := (h.versions.filter fun s => liveBits s.infomask).map (·.val)

structure DbRow where
  oid : Nat
  name : Bytes
  /-- pg_database.datistemplate -/
  isTemplate : Bool := false
  allowConn : Bool := true
  /-- pg_database.dattablespace: 0 = pg_default (oid 1663, directory `base/<db>/`), else the oid of the tablespace that holds
  the database's directory (`pg_tblspc/<oid>/PG_<major>_<catversion>/<db>/`: CREATE DATABASE … TABLESPACE) -/
  tblspc : Nat := 0
deriving Repr, Inhabited, DecidableEq

structure ClassRow where
  oid : Nat
  name : Bytes
  kind : Nat            -- relkind byte: r i S t v m c f p I
  filenode : Nat        -- 0 = no storage / mapped
  nsp : Nat := 2200
  toast : Nat := 0      -- reltoastrelid
  natts : Nat := 0
  pages : Nat := 0
  tuples : Nat := 0     -- reltuples as float4 bits
  hasIndex : Bool := false
  persistence : Nat := 112   -- 'p'
  /-- reltablespace: 0 = the database's default tablespace (files under `base/<db>/`), else the oid of a tablespace
  (files under `pg_tblspc/<oid>/PG_<major>_<catversion>/<db>/`) -/
  tblspc : Nat := 0
deriving Repr, Inhabited, DecidableEq

structure AttrRow where
  relid : Nat
  name : Bytes
  typid : Nat           -- 0 for a dropped column
  len : Int             -- attlen
  num : Int             -- attnum (system attributes < 0)
  align : Nat           -- true attalign in bytes (1, 2, 4, 8)
  typmod : Int := -1
  ndims : Nat := 0
  byval : Bool := true
  storage : Nat := 112  -- 'p'
  notnull : Bool := false
  dropped : Bool := false
  stattarget : Int := -1
deriving Repr, Inhabited, DecidableEq

/-- contents of `base/<oid>/` -/
structure DbContent where
  cls : HeapOf ClassRow
  att : HeapOf AttrRow
  /-- heap files of relations by filenode: pages of row versions (formed with the relation's columns) -/
  heaps : List (Nat × List (List RowV))
  /-- files of other relations (indexes, sequences, TOAST …) and raw oddities, by filenode -/
  raws : List (Nat × Bytes)
  /-- the ORIGINAL bytes of every value that is stored out of line in the TOAST relation (`Datum.external`; an
  inline-compressed `Datum.compressed` carries its own original, `Comp.original`): what PostgreSQL hands to a query after detoasting.  How they follow from the stored bytes
  (pglz / LZ4, chunk reassembly) is C08's specification (Spec/Pglz, Spec/Lz4, Spec/Toast); here they are data of the cluster -/
  detoast : List (Datum × Bytes) := []
  /-- the database's relation map (`base/<db>/pg_filenode.map`): (catalog oid, relfilenode) for the mapped catalogs whose
  file is NOT named after their oid any more (VACUUM FULL / CLUSTER / a rewriting ALTER of pg_class or pg_attribute gives the
  catalog a new relfilenode that is recorded only here: pg_class.relfilenode stays 0).  A catalog that is not listed lives
  under its oid (the state initdb leaves) -/
  relmap : List (Nat × Nat) := []
  /-- fast defaults (PostgreSQL ≥ 11): ((attrelid, attnum), payload bytes of the default) for the columns added by
  `ALTER TABLE … ADD COLUMN … DEFAULT <constant>` without a table rewrite: pg_attribute.atthasmissing is set and
  attmissingval holds the value; a row written before the ALTER stores fewer attributes (`RowV.natts`) and PostgreSQL
  returns the default for the missing one -/
  missing : List ((Nat × Int) × Bytes) := []
deriving Inhabited

structure Cluster where
  pgVersion : Nat                      -- 12 … 16: content of PG_VERSION, selects the catalog layouts
  dbs : HeapOf DbRow
  content : List (Nat × DbContent)     -- by database oid
  /-- RELSEG_SIZE in pages (`--with-segsize`, 131072 = 1 GiB by default; `--with-segsize-blocks` allows small values): a
  heap of more pages is split into the files `<filenode>`, `<filenode>.1`, `<filenode>.2` … of that many pages each.
  0 = heaps are never split (every heap generated here is far below 1 GiB) -/
  segPages : Nat := 0
  /-- the shared relation map (`global/pg_filenode.map`): (catalog oid, relfilenode) for the shared mapped catalogs
  (pg_database 1262, pg_authid 1260 …) whose file is not named after their oid any more; see `DbContent.relmap` -/
  globalMap : List (Nat × Nat) := []
deriving Inhabited

/-- the relfilenode of mapped catalog `oid` under the recorded deviations `m` from the identity map -/
def mappedNode (m : List (Nat × Nat)) (oid : Nat) : Nat := (m.lookup oid).getD oid

inductive Layout where
  | v12 | v14 | v16
deriving Repr, DecidableEq, Inhabited

def Cluster.layout (c : Cluster) : Layout :=
  if c.pgVersion ≥ 16 then .v16 else if c.pgVersion ≥ 14 then .v14 else .v12

/-! ## Real catalog layouts -/

def cOid (n : String) : Col := ⟨strBytes n, 26, 4, 4⟩
def cName (n : String) : Col := ⟨strBytes n, 19, 64, 1⟩
def cInt4 (n : String) : Col := ⟨strBytes n, 23, 4, 4⟩
def cInt2 (n : String) : Col := ⟨strBytes n, 21, 2, 2⟩
def cBool (n : String) : Col := ⟨strBytes n, 16, 1, 1⟩
def cChar (n : String) : Col := ⟨strBytes n, 18, 1, 1⟩
def cFloat4 (n : String) : Col := ⟨strBytes n, 700, 4, 4⟩
def cXid (n : String) : Col := ⟨strBytes n, 28, 4, 4⟩
def cText (n : String) : Col := ⟨strBytes n, 25, -1, 4⟩
def cArr (n : String) (typid : Int) (al : Nat := 4) : Col := ⟨strBytes n, typid, -1, al⟩

def dU32 (v : Nat) : Option Datum := some (.fixed (le 4 v))
def dI32 (v : Int) : Option Datum := some (.fixed (le 4 (ofSigned 32 v)))
def dI16 (v : Int) : Option Datum := some (.fixed (le 2 (ofSigned 16 v)))
def dByte (v : Nat) : Option Datum := some (.fixed [UInt8.ofNat v])
def dBool (b : Bool) : Option Datum := some (.fixed [if b then 1 else 0])
def dName (n : Bytes) : Option Datum := some (.fixed (n ++ zeros (64 - n.length)))
def dText (p : Bytes) : Option Datum := some (textDatum p)

/-- pg_database, PostgreSQL 12–14 (14 attributes) -/
def pgDatabaseColsOld : List Col :=
  [cOid "oid", cName "datname", cOid "datdba", cInt4 "encoding", cName "datcollate", cName "datctype",
   cBool "datistemplate", cBool "datallowconn", cInt4 "datconnlimit", cOid "datlastsysoid", cXid "datfrozenxid",
   cXid "datminmxid", cOid "dattablespace", cArr "datacl" 1034]

/-- pg_database, PostgreSQL 15–16 (16 attributes; the collation columns became text) -/
def pgDatabaseColsNew : List Col :=
  [cOid "oid", cName "datname", cOid "datdba", cInt4 "encoding", cChar "datlocprovider", cBool "datistemplate",
   cBool "datallowconn", cInt4 "datconnlimit", cXid "datfrozenxid", cXid "datminmxid", cOid "dattablespace",
   cText "datcollate", cText "datctype", cText "daticulocale", cText "datcollversion", cArr "datacl" 1034]

def locale : Bytes := strBytes "en_US.UTF-8"

def pgDatabaseCols (v : Nat) : List Col := if v ≥ 15 then pgDatabaseColsNew else pgDatabaseColsOld

def dbVals (v : Nat) (d : DbRow) : List (Option Datum) :=
  if v ≥ 15 then
    [dU32 d.oid, dName d.name, dU32 10, dI32 6, dByte 99, dBool d.isTemplate, dBool d.allowConn, dI32 (-1),
     dU32 722, dU32 1, dU32 (if d.tblspc = 0 then 1663 else d.tblspc), dText locale, dText locale, none, none, none]
  else
    [dU32 d.oid, dName d.name, dU32 10, dI32 6, dName locale, dName locale, dBool d.isTemplate, dBool d.allowConn,
     dI32 (-1), dU32 13000, dU32 480, dU32 1, dU32 (if d.tblspc = 0 then 1663 else d.tblspc), none]

/-- pg_class, PostgreSQL 12–16 (33 attributes) -/
def pgClassCols : List Col :=
  [cOid "oid", cName "relname", cOid "relnamespace", cOid "reltype", cOid "reloftype", cOid "relowner", cOid "relam",
   cOid "relfilenode", cOid "reltablespace", cInt4 "relpages", cFloat4 "reltuples", cInt4 "relallvisible",
   cOid "reltoastrelid", cBool "relhasindex", cBool "relisshared", cChar "relpersistence", cChar "relkind",
   cInt2 "relnatts", cInt2 "relchecks", cBool "relhasrules", cBool "relhastriggers", cBool "relhassubclass",
   cBool "relrowsecurity", cBool "relforcerowsecurity", cBool "relispopulated", cChar "relreplident",
   cBool "relispartition", cOid "relrewrite", cXid "relfrozenxid", cXid "relminmxid",
   cArr "relacl" 1034, cArr "reloptions" 1009, cText "relpartbound"]

def classVals (r : ClassRow) : List (Option Datum) :=
  [dU32 r.oid, dName r.name, dU32 r.nsp, dU32 (if r.kind = 114 then r.oid + 2 else 0), dU32 0, dU32 10,
   dU32 (if r.kind = 114 ∨ r.kind = 116 ∨ r.kind = 109 then 2 else if r.kind = 105 then 403 else 0),
   dU32 r.filenode, dU32 r.tblspc, dI32 r.pages, dU32 r.tuples, dI32 0,
   dU32 r.toast, dBool r.hasIndex, dBool false, dByte r.persistence, dByte r.kind,
   dI16 r.natts, dI16 0, dBool false, dBool false, dBool false,
   dBool false, dBool false, dBool true, dByte (if r.kind = 114 then 100 else 110),
   dBool false, dU32 0, dU32 (if r.kind = 114 then 726 else 0), dU32 (if r.kind = 114 then 1 else 0),
   none, none, none]

def alignCh (a : Nat) : Nat := if a = 1 then 99 else if a = 2 then 115 else if a = 4 then 105 else 100

def pgAttributeCols : Layout → List Col
  | .v12 =>
    [cOid "attrelid", cName "attname", cOid "atttypid", cInt4 "attstattarget", cInt2 "attlen", cInt2 "attnum",
     cInt4 "attndims", cInt4 "attcacheoff", cInt4 "atttypmod", cBool "attbyval", cChar "attstorage", cChar "attalign",
     cBool "attnotnull", cBool "atthasdef", cBool "atthasmissing", cChar "attidentity", cChar "attgenerated",
     cBool "attisdropped", cBool "attislocal", cInt4 "attinhcount", cOid "attcollation",
     cArr "attacl" 1034, cArr "attoptions" 1009, cArr "attfdwoptions" 1009, cArr "attmissingval" 2277 8]
  | .v14 =>
    [cOid "attrelid", cName "attname", cOid "atttypid", cInt4 "attstattarget", cInt2 "attlen", cInt2 "attnum",
     cInt4 "attndims", cInt4 "attcacheoff", cInt4 "atttypmod", cBool "attbyval", cChar "attalign", cChar "attstorage",
     cChar "attcompression", cBool "attnotnull", cBool "atthasdef", cBool "atthasmissing", cChar "attidentity",
     cChar "attgenerated", cBool "attisdropped", cBool "attislocal", cInt4 "attinhcount", cOid "attcollation",
     cArr "attacl" 1034, cArr "attoptions" 1009, cArr "attfdwoptions" 1009, cArr "attmissingval" 2277 8]
  | .v16 =>
    [cOid "attrelid", cName "attname", cOid "atttypid", cInt2 "attlen", cInt2 "attnum", cInt4 "attcacheoff",
     cInt4 "atttypmod", cInt2 "attndims", cBool "attbyval", cChar "attalign", cChar "attstorage",
     cChar "attcompression", cBool "attnotnull", cBool "atthasdef", cBool "atthasmissing", cChar "attidentity",
     cChar "attgenerated", cBool "attisdropped", cBool "attislocal", cInt2 "attinhcount", cInt2 "attstattarget",
     cOid "attcollation",
     cArr "attacl" 1034, cArr "attoptions" 1009, cArr "attfdwoptions" 1009, cArr "attmissingval" 2277 8]

def attrVals (l : Layout) (a : AttrRow) : List (Option Datum) :=
  let coll : Nat := if a.typid = 25 ∨ a.typid = 1043 ∨ a.typid = 1042 ∨ a.typid = 19 then 100 else 0
  let tail : List (Option Datum) := [none, none, none, none]
  match l with
  | .v12 =>
    [dU32 a.relid, dName a.name, dU32 a.typid, dI32 a.stattarget, dI16 a.len, dI16 a.num,
     dI32 a.ndims, dI32 (-1), dI32 a.typmod, dBool a.byval, dByte a.storage, dByte (alignCh a.align),
     dBool a.notnull, dBool false, dBool false, dByte 0, dByte 0,
     dBool a.dropped, dBool true, dI32 0, dU32 coll] ++ tail
  | .v14 =>
    [dU32 a.relid, dName a.name, dU32 a.typid, dI32 a.stattarget, dI16 a.len, dI16 a.num,
     dI32 a.ndims, dI32 (-1), dI32 a.typmod, dBool a.byval, dByte (alignCh a.align), dByte a.storage,
     dByte 0, dBool a.notnull, dBool false, dBool false, dByte 0,
     dByte 0, dBool a.dropped, dBool true, dI32 0, dU32 coll] ++ tail
  | .v16 =>
    [dU32 a.relid, dName a.name, dU32 a.typid, dI16 a.len, dI16 a.num, dI32 (-1),
     dI32 a.typmod, dI16 a.ndims, dBool a.byval, dByte (alignCh a.align), dByte a.storage,
     dByte 0, dBool a.notnull, dBool false, dBool false, dByte 0,
     dByte 0, dBool a.dropped, dBool true, dI16 0, dI16 a.stattarget,
     dU32 coll] ++ tail

/-! ### fast defaults (atthasmissing / attmissingval) -/

/-- position of `atthasmissing` in the three layouts -/
def hasMissingIdx : Layout → Nat | .v12 => 14 | .v14 => 15 | .v16 => 14

/-- `attmissingval`: a one-dimensional, one-element array (anyarray: ndim 1, no null bitmap, element type, dimension 1,
lower bound 1) holding the default; a varlena element carries its own (short or 4-byte) header -/
def missingArray (a : AttrRow) (payload : Bytes) : Datum :=
  let elem : Bytes :=
    if a.len = -1 then
      (if payload.length ≤ 126 then UInt8.ofNat (2 * (payload.length + 1) + 1) :: payload else le 4 (4 * (payload.length + 4)) ++ payload)
    else payload
  textDatum (le 4 1 ++ le 4 0 ++ le 4 a.typid ++ le 4 1 ++ le 4 1 ++ elem)

/-- the pg_attribute row of `a` when the database records fast defaults `m`: as `attrVals`, with atthasmissing set and
attmissingval filled for the attributes `m` lists -/
def attrValsM (l : Layout) (m : List ((Nat × Int) × Bytes)) (a : AttrRow) : List (Option Datum) :=
  match m.lookup (a.relid, a.num) with
  | none => attrVals l a
  | some p => ((attrVals l a).set (hasMissingIdx l) (dBool true)).set ((attrVals l a).length - 1) (some (missingArray a p))

theorem attrValsM_nil (l : Layout) : attrValsM l [] = attrVals l := rfl

/-! ## Encoding: row versions → pages → files → tree -/

def formRow (cols : List Col) (vals : List (Option Datum)) (infomask : Nat) : Tuple :=
  formTuple cols { vals, natts := cols.length, infomask }

def pad8 (n : Nat) : Nat := (8 - n % 8) % 8

/-- the slots of a page holding `ts` in order: every tuple starts MAXALIGNed (the padding after a tuple is
the junk before the next) -/
def slotsOf : List Tuple → Nat → List (Bytes × Tuple)
  | [], _ => []
  | t :: ts, prevPad => (zeros prevPad, t) :: slotsOf ts (pad8 t.len)

/-- a heap page holding the tuples `ts` (pointer k → tuple k), free space between pointers and tuples -/
def pageOfTuples (ts : List Tuple) : Page :=
  let slots := slotsOf ts 0
  let used := (slots.map slotLen).sum
  let tailLen := match ts.getLast? with | some t => pad8 t.len | none => 0
  let lower := 24 + 4 * ts.length
  { hdr0 := zeros 12, special := 8192, version := 4, prune := 0,
    lps := (List.range ts.length).map .normal,
    free := zeros (8192 - lower - used - tailLen), slots, tail := zeros tailLen }

/-- bytes needed by the tuples of a page, line pointers included -/
def pageNeed (ts : List Tuple) : Nat := 24 + (ts.map fun t => 4 + t.len + pad8 t.len).sum

def encTuplePages (pages : List (List Tuple)) : Bytes := (pages.map fun ts => encPage (pageOfTuples ts)).flatten

def encHeapOf {α} (cols : List Col) (vals : α → List (Option Datum)) (h : HeapOf α) : Bytes :=
  encTuplePages (h.map fun pg => pg.map fun s => formRow cols (vals s.val) s.infomask)

def encRowPages (cols : List Col) (pages : List (List RowV)) : Bytes :=
  encTuplePages (pages.map fun pg => pg.map (formTuple cols))

/-- decimal text of a natural number -/
def natBytes (n : Nat) : Bytes := strBytes (toString n)

def pathGlobal (n : Nat) : Bytes := strBytes "global/" ++ natBytes n
def pathBase (db n : Nat) : Bytes := strBytes "base/" ++ natBytes db ++ strBytes "/" ++ natBytes n

/-- the user columns of relation `relid` as the catalog describes them: live pg_attribute rows with
attnum > 0 in attnum order -/
def insertAttr (a : AttrRow) : List AttrRow → List AttrRow
  | [] => [a]
  | b :: bs => if a.num < b.num then a :: b :: bs else b :: insertAttr a bs

def sortAttrs (as : List AttrRow) : List AttrRow := as.foldr insertAttr []

def userAttrs (att : HeapOf AttrRow) (relid : Nat) : List AttrRow :=
  sortAttrs (att.live.filter fun a => a.relid = relid ∧ a.num > 0)

def attrCol (a : AttrRow) : Col := ⟨a.name, a.typid, a.len, a.align⟩

/-- the relation (live pg_class row) that owns filenode `fn` -/
def relOfFilenode (cls : HeapOf ClassRow) (fn : Nat) : Option ClassRow := cls.live.find? fun r => r.filenode = fn

def colsOfFilenode (d : DbContent) (fn : Nat) : List Col :=
  match relOfFilenode d.cls fn with
  | some r => (userAttrs d.att r.oid).map attrCol
  | none => []

def dbFiles (l : Layout) (oid : Nat) (d : DbContent) : List (Bytes × Bytes) :=
  [(pathBase oid 1259, encHeapOf pgClassCols classVals d.cls),
   (pathBase oid 1249, encHeapOf (pgAttributeCols l) (attrVals l) d.att)] ++
  d.heaps.map (fun (fn, pages) => (pathBase oid fn, encRowPages (colsOfFilenode d fn) pages)) ++
  d.raws.map (fun (fn, bs) => (pathBase oid fn, bs))

/-! ### segments and tablespaces -/

/-- CATALOG_VERSION_NO of the major versions (the directory `PG_<major>_<catversion>` inside a tablespace) -/
def catVersion (v : Nat) : Nat :=
  if v ≥ 16 then 202307071 else if v = 15 then 202209061 else if v = 14 then 202107181 else if v = 13 then 202007201 else 201909212

def pathTblspc (spc ver db fn : Nat) : Bytes :=
  strBytes "pg_tblspc/" ++ natBytes spc ++ strBytes "/PG_" ++ natBytes ver ++ strBytes "_" ++ natBytes (catVersion ver) ++
    strBytes "/" ++ natBytes db ++ strBytes "/" ++ natBytes fn

def chunksAux {α} (n : Nat) : Nat → List α → List (List α)
  | 0, _ => []
  | f + 1, l => if l.length ≤ n then [l] else l.take n :: chunksAux n f (l.drop n)

/-- a list cut into pieces of `n` elements (the last one shorter; one empty piece for the empty list); `n = 0`: one piece -/
def chunksOf {α} (n : Nat) (l : List α) : List (List α) := if n = 0 then [l] else chunksAux n (l.length + 1) l

/-- suffix of segment `k` of a relation file: none for the first, `.k` after -/
def segSuffix (k : Nat) : Bytes := if k = 0 then [] else strBytes "." ++ natBytes k

def numbered {α} : Nat → List α → List (Nat × α)
  | _, [] => []
  | k, x :: xs => (k, x) :: numbered (k + 1) xs

/-- a file of database `oid` in the database's default tablespace `dspc` (pg_database.dattablespace; 0 = pg_default) -/
def pathDb (dspc ver oid fn : Nat) : Bytes := if dspc = 0 then pathBase oid fn else pathTblspc dspc ver oid fn

/-- where the first segment of the relation file `fn` of database `oid` lies -/
def heapPath (ver oid : Nat) (d : DbContent) (fn : Nat) (dspc : Nat := 0) : Bytes :=
  match relOfFilenode d.cls fn with
  | some r => if r.tblspc = 0 then pathDb dspc ver oid fn else pathTblspc r.tblspc ver oid fn
  | none => pathDb dspc ver oid fn

/-- the segment files of one heap -/
def heapFiles (ver seg oid : Nat) (d : DbContent) (h : Nat × List (List RowV)) (dspc : Nat := 0) : List (Bytes × Bytes) :=
  (numbered 0 (chunksOf seg h.2)).map fun (k, pages) =>
    (heapPath ver oid d h.1 dspc ++ segSuffix k, encRowPages (colsOfFilenode d h.1) pages)

/-- the files of one database as PostgreSQL lays them out: the mapped catalogs pg_class / pg_attribute under the
relfilenode the relation map records for them (`mappedNode d.relmap`: their oid unless the catalog was rewritten), every heap
in its tablespace and cut into segments, other relations; `dspc` = the database's default tablespace -/
def dbFilesPlaced (ver seg : Nat) (l : Layout) (oid : Nat) (d : DbContent) (dspc : Nat := 0) : List (Bytes × Bytes) :=
  [(pathDb dspc ver oid (mappedNode d.relmap 1259), encHeapOf pgClassCols classVals d.cls),
   (pathDb dspc ver oid (mappedNode d.relmap 1249), encHeapOf (pgAttributeCols l) (attrValsM l d.missing) d.att)] ++
  (d.heaps.map (fun h => heapFiles ver seg oid d h dspc)).flatten ++
  d.raws.map (fun (fn, bs) => (pathDb dspc ver oid fn, bs))

/-! ### relation maps -/

/-- the mapped catalogs every database's map lists (pg_class, pg_attribute, pg_type, pg_proc) and the shared ones
(pg_database, pg_authid, pg_auth_members, pg_tablespace) — a real map also lists their indexes and TOAST relations, which no
reader of this project looks up -/
def localMapped : List Nat := [1259, 1249, 1247, 1255]
def globalMapped : List Nat := [1262, 1260, 1261, 1213]

/-- a `pg_filenode.map` file of a cluster of major version `ver` holding `entries`: PostgreSQL's layout (`Spec.encRelMap`,
Spec/Relmap.lean: 512 bytes up to version 15, 524 bytes in 16), unused slots zero, the CRC-32C of the bytes before it -/
def relmapFileOf (ver : Nat) (entries : List (Nat × Nat)) : Bytes :=
  let lay : RelMapLayout := if ver ≥ 16 then .v16 else .v12
  let unused := zeros (8 * (lay.maxMappings - entries.length))
  let body := le 4 relmapMagic ++ (le 4 entries.length ++ (entries.flatMap encMapping ++ unused))
  encRelMap { mappings := entries, unused, crc := crc32c body, pad := zeros lay.padLen }

/-- the entries of a map: every listed catalog with its current relfilenode -/
def relmapEntries (cats : List Nat) (m : List (Nat × Nat)) : List (Nat × Nat) := cats.map fun o => (o, mappedNode m o)

def pathMapGlobal : Bytes := strBytes "global/pg_filenode.map"
def pathMapDb (dspc ver oid : Nat) : Bytes :=
  if dspc = 0 then strBytes "base/" ++ natBytes oid ++ strBytes "/pg_filenode.map"
  else strBytes "pg_tblspc/" ++ natBytes dspc ++ strBytes "/PG_" ++ natBytes ver ++ strBytes "_" ++ natBytes (catVersion ver) ++
    strBytes "/" ++ natBytes oid ++ strBytes "/pg_filenode.map"

/-- the file tree of the cluster: (relative path, content).  (`dbFiles` above is the special case without segments and
tablespaces: `Proofs.Cluster.dbFilesPlaced_plain`.) -/
def dbTblspc (c : Cluster) (oid : Nat) : Nat :=
  match c.dbs.live.find? (fun db => db.oid == oid) with | some db => db.tblspc | none => 0

/-- the relation map files of the cluster: the shared one and one per database directory (listed after every relation
file) -/
def mapFilesOf (c : Cluster) : List (Bytes × Bytes) :=
  (pathMapGlobal, relmapFileOf c.pgVersion (relmapEntries globalMapped c.globalMap)) ::
  c.content.map fun (oid, d) => (pathMapDb (dbTblspc c oid) c.pgVersion oid, relmapFileOf c.pgVersion (relmapEntries localMapped d.relmap))

def filesOf (c : Cluster) : List (Bytes × Bytes) :=
  ([(strBytes "PG_VERSION", natBytes c.pgVersion ++ [10]),
    (pathGlobal (mappedNode c.globalMap 1262), encHeapOf (pgDatabaseCols c.pgVersion) (dbVals c.pgVersion) c.dbs)] ++
   (c.content.map fun (oid, d) => dbFilesPlaced c.pgVersion c.segPages c.layout oid d (dbTblspc c oid)).flatten) ++
  mapFilesOf c

/-- the file system a reader sees: first entry for a path wins -/
def fsOf (c : Cluster) : Bytes → Option Bytes := fun p => (filesOf c).lookup p

/-! ## The expected dump -/

def isPrefixB (p s : Bytes) : Bool := p.isPrefixOf s

/-- lower-casing of the ASCII letters A–Z: the Spec's definition of "case-insensitive" (PostgreSQL's own identifier folding
touches ASCII letters only in the encodings where that matters).  pgread follows Go's Unicode tables (É/é, K/K …, and maps
invalid bytes to U+FFFD); the theorems are stated for the filters and names on which both notions coincide
(`Model.GoCase.FilterStable`: every ASCII string, and e.g. `été`, `日本`; not `ÉTÉ`, not `Āb`), the families tag the other cases
`case=unicode` / `spec-silent-name` and give no SPEC -/
def lowerB (s : Bytes) : Bytes := s.map fun b => if 65 ≤ b ∧ b ≤ 90 then b + 32 else b

/-- every byte is ASCII -/
def asciiB (s : Bytes) : Bool := s.all fun b => b < 128

def containsB (s sub : Bytes) : Bool := (List.range (s.length + 1)).any fun i => sub.isPrefixOf (s.drop i)

/-- PostgreSQL's names of the built-in types the generated clusters use -/
def typeNames : List (Nat × String) :=
  [(16, "bool"), (17, "bytea"), (18, "char"), (19, "name"), (20, "int8"), (21, "int2"), (23, "int4"), (25, "text"),
   (26, "oid"), (700, "float4"), (701, "float8"), (1042, "bpchar"), (1043, "varchar"), (1082, "date"),
   (1114, "timestamp"), (1184, "timestamptz"), (1700, "numeric"), (2950, "uuid"), (3802, "jsonb"), (114, "json")]

def typeName (typid : Nat) : Option Bytes := (typeNames.lookup typid).map strBytes

/-- pgread's heuristic for a template database: the name starts with `template` (NOT the Spec's notion — that is
`DbRow.isTemplate` = pg_database.datistemplate; open finding C01-TPL is the set of clusters where the two differ) -/
def isTemplateName (n : Bytes) : Bool := isPrefixB (strBytes "template") n

/-- a non-template database (`datistemplate` false) that passes the database filter -/
def selectedDb (o : Options) (d : DbRow) : Bool :=
  !d.isTemplate && (o.dbFilter.isEmpty || d.name == o.dbFilter)

/-- ordinary user table passing the system-table and name filters: relkind `r` with a relfilenode of its own (relkind `r`
with relfilenode 0 is a mapped system catalog, not a user table), not `pg_`-prefixed when system tables are skipped (the
documented meaning of SkipSystemTables), containing the table filter case-insensitively (ASCII letters, see `lowerB`) -/
def selectedRel (o : Options) (r : ClassRow) : Bool :=
  r.kind == 114 && r.filenode != 0 &&
  !(o.skipSystem && isPrefixB (strBytes "pg_") r.name) &&
  (o.tableFilter.isEmpty || containsB (lowerB r.name) (lowerB o.tableFilter))

/-- the value rendering of a column type is C04's business: a parameter here -/
abbrev Val := Bytes → Int → M GoVal

/-- the row as C03's view has it: the value of every column as the tuple's own bytes give it, rendered by `val` — for an
inline-compressed value the original bytes, for an out-of-line one nil.  Equal to `storedRow` when no value of the row is
out of line (`storedRow_inline`) -/
def rowOf (val : Val) (cols : List Col) (r : RowV) : DRow :=
  match rowView val cols r with
  | .ok ps => ps
  | .error _ => []

/-- the original bytes of an out-of-line datum as the cluster records them -/
def detoastOf (tbl : List (Datum × Bytes)) (d : Datum) : Bytes := (tbl.lookup d).getD []

/-- **what was stored** in a column: the payload of a plain value, the C string, for a value PostgreSQL compressed in
line the ORIGINAL bytes (what its stream stands for) and for one moved to the TOAST relation the original bytes the
cluster records (`detoast`), rendered by `val` -/
def storedVal (val : Val) (tbl : List (Datum × Bytes)) (c : Col) : Datum → M GoVal
  | .fixed bs => val bs c.typid
  | .short p => val p c.typid
  | .long p => val p c.typid
  | .compressed z => val z.original c.typid
  | .external body => val (detoastOf tbl (.external body)) c.typid
  | .cstr p => pure (.str p)

def storedCols (val : Val) (tbl : List (Datum × Bytes)) : List Col → List (Option Datum) → Nat → M (List (Bytes × GoVal))
  | c :: cs, v :: vs, natts => do
    let x ← match natts, v with
      | _ + 1, some d => storedVal val tbl c d
      | _, _ => pure GoVal.nil
    let rest ← storedCols val tbl cs vs (natts - 1)
    pure ((c.name, x) :: rest)
  | _, _, _ => pure []

/-- the row as its own bytes give it: every declared column with the value that was stored (NULL where the value is NULL
and for columns added after the row was written — `fillMissing` then puts the column's fast default there, if it has one) -/
def storedRow (val : Val) (tbl : List (Datum × Bytes)) (cols : List Col) (r : RowV) : DRow :=
  match storedCols val tbl cols r.vals r.natts with
  | .ok ps => ps
  | .error _ => []

/-- fast defaults: an attribute the row does not store (position ≥ the row's natts) whose column has a recorded default
reads as that default, not NULL -/
def fillMissing (val : Val) (m : List ((Nat × Int) × Bytes)) : List AttrRow → Nat → DRow → DRow
  | a :: as, natts, kv :: row =>
    (match natts, m.lookup (a.relid, a.num) with
     | 0, some p => (kv.1, match val p a.typid with | .ok v => v | .error _ => GoVal.nil)
     | _, _ => kv) :: fillMissing val m as (natts - 1) row
  | _, _, row => row

def liveRows (pages : List (List RowV)) (cols : List Col) : List RowV :=
  pages.flatten.filter fun r => liveBits (formTuple cols r).infomask

def expectedTable (val : Val) (d : DbContent) (o : Options) (r : ClassRow) : TableDump :=
  let attrs := userAttrs d.att r.oid
  let cols := attrs.map attrCol
  let rows : List DRow :=
    if o.listOnly then []
    else match d.heaps.lookup r.filenode with
      | some pages => (liveRows pages cols).map fun row => fillMissing val d.missing attrs row.natts (storedRow val d.detoast cols row)
      | none => []
  { oid := r.oid, name := r.name, filenode := r.filenode, kind := [114],
    columns := attrs.map fun a => ⟨a.name, (typeName a.typid).getD [], a.typid⟩,
    rows, rowCount := rows.length }

def insertTable (t : TableDump) : List TableDump → List TableDump
  | [] => [t]
  | u :: us => if t.filenode ≤ u.filenode then t :: u :: us else u :: insertTable t us

/-- tables in filenode order (the canonical order used for comparison; the property fixes no order) -/
def sortTables (ts : List TableDump) : List TableDump := ts.foldr insertTable []

def expectedDb (val : Val) (o : Options) (db : DbRow) (d : DbContent) : DatabaseDump :=
  { oid := db.oid, name := db.name,
    tables := sortTables ((d.cls.live.filter (selectedRel o)).map (expectedTable val d o)) }

/-- what the property text says the dump of cluster `c` under options `o` contains -/
def expectedDump (val : Val) (c : Cluster) (o : Options) : DumpResult :=
  (c.dbs.live.filter (selectedDb o)).filterMap fun db =>
    (c.content.lookup db.oid).map (expectedDb val o db)

/-! ## What the other access paths must expose (C12) -/

/-- a relation listing entry: (oid, filenode, name, relkind) -/
structure RelEntry where
  oid : Nat
  filenode : Nat
  name : Bytes
  kind : Bytes
deriving Repr, DecidableEq, Inhabited

def insertRel (t : RelEntry) : List RelEntry → List RelEntry
  | [] => [t]
  | u :: us => if t.filenode ≤ u.filenode then t :: u :: us else u :: insertRel t us

/-- every relation with storage of a database (any relkind), in filenode order -/
def expectedRels (d : DbContent) : List RelEntry :=
  ((d.cls.live.filter (·.filenode != 0)).map fun r => (⟨r.oid, r.filenode, r.name, [UInt8.ofNat r.kind]⟩ : RelEntry)).foldr insertRel []

/-- the documented omissions of the remote dump: empty tables and sql_* tables (pg_* are system tables) -/
def remoteKeeps (t : TableDump) : Bool := t.rows.length > 0 && !isPrefixB (strBytes "sql_") t.name

def expectedRemoteDb (val : Val) (db : DbRow) (d : Option DbContent) : DatabaseDump :=
  match d with
  | some d => let e := expectedDb val {} db d; { e with tables := e.tables.filter remoteKeeps }
  | none => { oid := db.oid, name := db.name, tables := [] }

/-- names differing only in case: an exact match wins, otherwise the unique case-insensitive match;
`none` when there is no match; the spec is silent (`none` of the outer option) when several
case-insensitive matches exist and none is exact -/
def lookupName {α} (name : α → Bytes) (l : List α) (n : Bytes) : Option (Option α) :=
  match l.find? (fun x => name x == n) with
  | some x => some (some x)
  | none =>
    match l.filter (fun x => lowerB (name x) == lowerB n) with
    | [] => some none
    | [x] => some (some x)
    | _ => none

/-! ## Well-formedness -/

def nameOK (n : Bytes) : Prop := 1 ≤ n.length ∧ n.length ≤ 63 ∧ (0 : UInt8) ∉ n
instance (n : Bytes) : Decidable (nameOK n) := by unfold nameOK; infer_instance

/-- not out of line: the value can be read from the tuple alone (plain, or compressed in line — read since fixes/rows/09) -/
def inlineDatum : Option Datum → Bool
  | some (.external _) => false
  | _ => true

/-- the cluster records the original bytes of the datum if it is out of line -/
def detoastKnown (tbl : List (Datum × Bytes)) : Option Datum → Bool
  | some (.external b) => (tbl.lookup (.external b)).isSome
  | _ => true

def pagesFit (pages : List (List Tuple)) : Prop := ∀ ts ∈ pages, pageNeed ts ≤ 8192
instance (pages : List (List Tuple)) : Decidable (pagesFit pages) := by unfold pagesFit; infer_instance

def DbContent.WF (l : Layout) (d : DbContent) : Prop :=
  d.cls ≠ [] ∧
  ((d.cls.live.map (·.oid)).Nodup) ∧
  (((d.cls.live.filter (·.filenode != 0)).map (·.filenode)).Nodup) ∧
  (∀ s ∈ d.cls.versions, nameOK s.val.name ∧ s.val.oid < 2 ^ 32 ∧ 0 < s.val.oid ∧ s.val.filenode < 2 ^ 32 ∧
      s.val.kind < 256 ∧ s.infomask < 65536 ∧ s.val.tblspc < 2 ^ 32) ∧
  ((d.att.live.map fun a => (a.relid, a.num)).Nodup) ∧
  (∀ s ∈ d.att.versions, nameOK s.val.name ∧ 0 < s.val.relid ∧ s.val.relid < 2 ^ 32 ∧ s.val.typid < 2 ^ 32 ∧
      -32768 ≤ s.val.num ∧ s.val.num < 32768 ∧ -32768 ≤ s.val.len ∧ s.val.len < 32768 ∧ s.infomask < 65536 ∧
      (s.val.align = 1 ∨ s.val.align = 2 ∨ s.val.align = 4 ∨ s.val.align = 8)) ∧
  pagesFit (d.cls.map fun pg => pg.map fun s => formRow pgClassCols (classVals s.val) s.infomask) ∧
  pagesFit (d.att.map fun pg => pg.map fun s => formRow (pgAttributeCols l) (attrVals l s.val) s.infomask) ∧
  ((d.heaps.map (·.1) ++ d.raws.map (·.1)).Nodup) ∧
  (∀ h ∈ d.heaps,
      (∃ r ∈ d.cls.live, r.filenode = h.1) ∧
      let cols := colsOfFilenode d h.1
      ((cols.map (·.name)).Nodup) ∧
      (∀ pg ∈ h.2, ∀ r ∈ pg, r.WF cols ∧ r.vals.all (detoastKnown d.detoast)) ∧
      pagesFit (h.2.map fun pg => pg.map (formTuple cols)))

def Cluster.WF (c : Cluster) : Prop :=
  12 ≤ c.pgVersion ∧ c.pgVersion ≤ 16 ∧
  ((c.dbs.live.map (·.oid)).Nodup) ∧
  (∀ s ∈ c.dbs.versions, nameOK s.val.name ∧ 0 < s.val.oid ∧ s.val.oid < 2 ^ 32 ∧ s.infomask < 65536) ∧
  pagesFit (c.dbs.map fun pg => pg.map fun s => formRow (pgDatabaseCols c.pgVersion) (dbVals c.pgVersion s.val) s.infomask) ∧
  ((c.content.map (·.1)).Nodup) ∧
  (∀ p ∈ c.content, p.2.WF c.layout)

/-! ## The classes of the open findings (fixes/cluster/known_findings.json), as predicates on the abstract cluster -/

/-- pgread's name heuristic classifies every live database as `datistemplate` does (finding C01-TPL is its negation) -/
def TemplatesByName (c : Cluster) : Prop := ∀ db ∈ c.dbs.live, isTemplateName db.name = db.isTemplate
instance (c : Cluster) : Decidable (TemplatesByName c) := by unfold TemplatesByName; infer_instance

/-- no heap is split into segments, no relation lies outside its database's default tablespace and every database's default
tablespace is pg_default (findings C01-SEG, C01-TBLSPC are the negations: the first part, and the second or third part) -/
def Cluster.Plain (c : Cluster) : Prop :=
  c.segPages = 0 ∧ (∀ p ∈ c.content, ∀ r ∈ p.2.cls.live, r.tblspc = 0) ∧ ∀ db ∈ c.dbs.live, db.tblspc = 0
instance (c : Cluster) : Decidable c.Plain := by unfold Cluster.Plain; infer_instance

/-- the mapped catalogs the dump reads — pg_database, and pg_class / pg_attribute of every database — still live under
their oid (the state after initdb; finding C01-MAPPED is the negation: pgread opens `global/1262`, `base/<db>/1259`,
`base/<db>/1249` by name and never reads pg_filenode.map) -/
def Cluster.IdentityMapped (c : Cluster) : Prop :=
  mappedNode c.globalMap 1262 = 1262 ∧ ∀ p ∈ c.content, mappedNode p.2.relmap 1259 = 1259 ∧ mappedNode p.2.relmap 1249 = 1249
instance (c : Cluster) : Decidable c.IdentityMapped := by unfold Cluster.IdentityMapped; infer_instance

/-- no database records a fast default (finding C01-MISSINGVAL is about the clusters that do: pgread reports NULL where
PostgreSQL returns the default) -/
def Cluster.NoFastDefaults (c : Cluster) : Prop := ∀ p ∈ c.content, p.2.missing = []
instance (c : Cluster) : Decidable c.NoFastDefaults := by unfold Cluster.NoFastDefaults; infer_instance

/-- what `Cluster.WF` does not ask and a real cluster satisfies: the relation maps are maps (no catalog listed twice,
relfilenodes in 1 … 2^32 − 1), a relocated catalog file does not collide with another file of its directory, and the recorded
fast defaults belong to live user attributes and are short enough for the pg_attribute page -/
def Cluster.MapWF (c : Cluster) : Prop :=
  ((c.globalMap.map (·.1)).Nodup) ∧ (∀ e ∈ c.globalMap, 0 < e.2 ∧ e.2 < 2 ^ 32 ∧ e.1 ∈ globalMapped) ∧
  ((globalMapped.map (mappedNode c.globalMap)).Nodup) ∧
  ∀ p ∈ c.content,
    ((p.2.relmap.map (·.1)).Nodup) ∧ (∀ e ∈ p.2.relmap, 0 < e.2 ∧ e.2 < 2 ^ 32 ∧ e.1 ∈ localMapped) ∧
    ((localMapped.map (mappedNode p.2.relmap) ++ (p.2.heaps.map (·.1) ++ p.2.raws.map (·.1))).Nodup ∨ p.2.relmap = []) ∧
    ((p.2.missing.map (·.1)).Nodup) ∧
    (∀ e ∈ p.2.missing, e.2.length ≤ 64 ∧ ∃ a ∈ p.2.att.live, (a.relid, a.num) = e.1 ∧ 0 < a.num ∧ ¬ a.dropped) ∧
    pagesFit (p.2.att.map fun pg => pg.map fun s => formRow (pgAttributeCols c.layout) (attrValsM c.layout p.2.missing s.val) s.infomask)
instance (c : Cluster) : Decidable c.MapWF := by unfold Cluster.MapWF; infer_instance

/-- no row of a table that `o` dumps with its rows holds an OUT-OF-LINE value (18-byte TOAST pointer; finding A02 is the
negation).  Inline-compressed values are no longer excluded: ReadVarlena decompresses them (fixes/rows/09). -/
def A02Free (d : DbContent) (o : Options) : Prop :=
  o.listOnly = false → ∀ r ∈ d.cls.live, selectedRel o r = true → ∀ pages, d.heaps.lookup r.filenode = some pages →
    ∀ pg ∈ pages, ∀ row ∈ pg, row.vals.all inlineDatum = true
instance (d : DbContent) (o : Options) : Decidable (A02Free d o) := by unfold A02Free; infer_instance

end PgVerif.Spec
