/-
  Spec side of heap files: PostgreSQL's page / line pointer / heap tuple header layout
  (DESIGN.md section 3), written as encoders from abstract values to bytes, plus the
  `view` a correct scanner must report.  Knows nothing about the Go code.
-/
import PgVerif.Basic.Bytes
namespace PgVerif.Spec
open PgVerif

/-- a stored heap tuple: the 23 fixed header bytes as fields, `mid` = the bytes between the
fixed header and `t_hoff` (null bitmap and alignment padding), `data` = the user data -/
structure Tuple where
  xmin : Nat
  xmax : Nat
  cid : Nat
  ctid : Bytes
  infomask2 : Nat
  infomask : Nat
  mid : Bytes
  data : Bytes
deriving Repr, DecidableEq, Inhabited

def Tuple.hoff (t : Tuple) : Nat := 23 + t.mid.length
def Tuple.natts (t : Tuple) : Nat := t.infomask2 % 2048
def Tuple.hasNull (t : Tuple) : Bool := t.infomask.testBit 0
def Tuple.bitmapLen (t : Tuple) : Nat := (t.natts + 7) / 8

def encTuple (t : Tuple) : Bytes :=
  le 4 t.xmin ++ le 4 t.xmax ++ le 4 t.cid ++ t.ctid ++ le 2 t.infomask2 ++ le 2 t.infomask ++
    [UInt8.ofNat t.hoff] ++ t.mid ++ t.data

/-- length of the encoding, computed without building it -/
def Tuple.len (t : Tuple) : Nat := 12 + t.ctid.length + 5 + t.mid.length + t.data.length

theorem encTuple_length (t : Tuple) : (encTuple t).length = t.len := by
  simp [encTuple, Tuple.len]; omega

def Tuple.WF (t : Tuple) : Prop :=
  t.ctid.length = 6 ∧ t.infomask2 < 65536 ∧ t.infomask < 65536 ∧ t.hoff < 256 ∧
  (t.hasNull = true → t.bitmapLen ≤ t.mid.length)

instance (t : Tuple) : Decidable t.WF := by unfold Tuple.WF; infer_instance

/-- what a scanner must report for a tuple -/
structure TupleView where
  natts : Nat
  hoff : Nat
  infomask : Nat
  xminCommitted : Bool
  xmaxCommitted : Bool
  xmaxInvalid : Bool
  hasNull : Bool
  bitmap : Option Bytes
  data : Bytes
  pageOffset : Nat
deriving Repr, DecidableEq

def tupleView (pageOffset : Nat) (t : Tuple) : TupleView :=
  { natts := t.natts, hoff := t.hoff, infomask := t.infomask,
    xminCommitted := t.infomask.testBit 8, xmaxCommitted := t.infomask.testBit 10,
    xmaxInvalid := t.infomask.testBit 11, hasNull := t.hasNull,
    bitmap := if t.hasNull then some (t.mid.take t.bitmapLen) else none,
    data := t.data, pageOffset := pageOffset }

/-- PostgreSQL's visibility as far as hint bits decide it: inserter committed, no deleter committed -/
def liveBits (infomask : Nat) : Bool :=
  infomask.testBit 8 && !(infomask.testBit 10 && !infomask.testBit 11)

/-- deleter committed -/
def deletedBits (infomask : Nat) : Bool :=
  infomask.testBit 10 && !infomask.testBit 11

/-- a line pointer: NORMAL pointing at slot `slot`, or any other state with arbitrary fields -/
inductive LP where
  | normal (slot : Nat)
  | other (off flags len : Nat)
deriving Repr, DecidableEq, Inhabited

def encLPRaw (off flags len : Nat) : Bytes := le 4 (off + 2 ^ 15 * flags + 2 ^ 17 * len)

/-- a page: header fields, pointers, free space, then the slots (junk ++ tuple) laid out
consecutively from pd_upper, then a tail (special space or slack) up to 8192 -/
structure Page where
  hdr0 : Bytes            -- pd_lsn, pd_checksum, pd_flags: 12 bytes
  special : Nat           -- pd_special as stored
  version : Nat           -- layout version, 1..10 (PostgreSQL: 4)
  prune : Nat
  lps : List LP
  free : Bytes
  slots : List (Bytes × Tuple)
  tail : Bytes
deriving Repr, Inhabited

def Page.lower (p : Page) : Nat := 24 + 4 * p.lps.length
def Page.upper (p : Page) : Nat := p.lower + p.free.length

def slotBytes (s : Bytes × Tuple) : Bytes := s.1 ++ encTuple s.2
def slotLen (s : Bytes × Tuple) : Nat := s.1.length + s.2.len

theorem slotBytes_length (s : Bytes × Tuple) : (slotBytes s).length = slotLen s := by
  simp [slotBytes, slotLen, encTuple_length]

/-- page offset of the tuple in slot `k` -/
def Page.slotOff (p : Page) (k : Nat) : Nat :=
  p.upper + ((p.slots.take k).map slotLen).sum + (p.slots.getD k default).1.length

def Page.encLP (p : Page) : LP → Bytes
  | .normal k => encLPRaw (p.slotOff k) 1 (p.slots.getD k default).2.len
  | .other off flags len => encLPRaw off flags len

def encPage (p : Page) : Bytes :=
  p.hdr0 ++ le 2 p.lower ++ le 2 p.upper ++ le 2 p.special ++ le 2 (8192 + p.version) ++ le 4 p.prune ++
    p.lps.flatMap p.encLP ++ p.free ++ p.slots.flatMap slotBytes ++ p.tail

def LP.WF (p : Page) : LP → Prop
  | .normal k => k < p.slots.length
  | .other off flags len => off < 2 ^ 15 ∧ len < 2 ^ 15 ∧ flags < 4 ∧ flags ≠ 1

instance (p : Page) (l : LP) : Decidable (l.WF p) := by
  cases l <;> unfold LP.WF <;> infer_instance

/-- the slot a NORMAL pointer names -/
def LP.slot? : LP → Option Nat
  | .normal k => some k
  | .other .. => none

/-- the slots named by the NORMAL pointers, in pointer order -/
def Page.normalSlots (p : Page) : List Nat := p.lps.filterMap LP.slot?

/-- PostgreSQL's page invariants as far as a scanner depends on them.  The last conjunct: no two NORMAL pointers name the
same slot — PageAddItem gives every item its own storage, so tuple storage never overlaps (amcheck's verify_heapam
reports overlap as corruption); the storage of DISTINCT slots is disjoint by construction (slots are laid out
consecutively from pd_upper). -/
def Page.WF (p : Page) : Prop :=
  p.hdr0.length = 12 ∧ p.special < 65536 ∧ 1 ≤ p.version ∧ p.version ≤ 10 ∧ p.prune < 2 ^ 32 ∧
  (∀ l ∈ p.lps, l.WF p) ∧ (∀ s ∈ p.slots, s.2.WF) ∧
  p.upper + (p.slots.map slotLen).sum + p.tail.length = 8192 ∧
  p.normalSlots.Nodup

instance (p : Page) : Decidable p.WF := by unfold Page.WF; infer_instance

/-- the tuples behind NORMAL pointers, in pointer order -/
def Page.normalTuples (p : Page) : List Tuple :=
  p.lps.filterMap fun
    | .normal k => (p.slots[k]?).map (·.2)
    | .other .. => none

/-- a block of a heap file: a formatted page or an all-zero (never initialised) block -/
inductive Block where
  | page (p : Page)
  | zero
deriving Repr, Inhabited

def encBlock : Block → Bytes
  | .page p => encPage p
  | .zero => zeros 8192

def Block.tuples : Block → List Tuple
  | .page p => p.normalTuples
  | .zero => []

def Block.WF : Block → Prop
  | .page p => p.WF
  | .zero => True

/-- heap file = blocks ++ a trailing partial block -/
def encHeap (bs : List Block) (tail : Bytes) : Bytes := bs.flatMap encBlock ++ tail

/-- the expected scan: page order, then pointer order, tagged with the page's byte offset -/
def scanViewFrom (off : Nat) : List Block → List TupleView
  | [] => []
  | b :: bs => b.tuples.map (tupleView off) ++ scanViewFrom (off + 8192) bs

def scanView (bs : List Block) : List TupleView := scanViewFrom 0 bs

end PgVerif.Spec
