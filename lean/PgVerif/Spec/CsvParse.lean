/-
  Spec.Csv — reading CSV the way a standard reader does (RFC 4180, with the usual liberties):
    * fields are separated by commas, records by LF, CRLF or CR; the last record may lack the line end;
    * a field that starts with a double quote extends to the closing quote; inside it `""` is one quote and commas,
      CR and LF are data; after the closing quote only a separator or the end may follow;
    * an unquoted field must not contain a double quote;
    * an EMPTY LINE IS NOT A RECORD (Go's encoding/csv, Python's csv, … skip it): a record consisting of one empty
      field must therefore be written as `""`.
  Knows nothing about pgread.
-/
import PgVerif.Basic.Bytes
namespace PgVerif.Spec.Csv

/-- body of a quoted field after the opening quote: decoded content and what follows the closing quote -/
def quoted : Bytes → Option (Bytes × Bytes)
  | [] => none
  | [c] => if c = 34 then some ([], []) else none
  | c :: c2 :: t =>
    if c = 34 then
      if c2 = 34 then (quoted t).map fun r => (34 :: r.1, r.2)
      else some ([], c2 :: t)
    else (quoted (c2 :: t)).map fun r => (c :: r.1, r.2)

def isSep (c : UInt8) : Bool := c == 44 || c == 10 || c == 13

/-- unquoted field: up to the next comma or line end; a quote inside is an error -/
def unquoted : Bytes → Option (Bytes × Bytes)
  | [] => some ([], [])
  | c :: t =>
    if isSep c then some ([], c :: t)
    else if c = 34 then none
    else (unquoted t).map fun r => (c :: r.1, r.2)

/-- one field at the start of the input -/
def field : Bytes → Option (Bytes × Bytes)
  | 34 :: t =>
    match quoted t with
    | some (s, rest) => if rest.head?.all isSep then some (s, rest) else none
    | none => none
  | bs => unquoted bs

/-- one record (the input does not start with a line end): its fields, and what follows its line end -/
def record : Nat → Bytes → Option (List Bytes × Bytes)
  | 0, _ => none
  | f + 1, bs =>
    match field bs with
    | none => none
    | some (x, rest) =>
      match rest with
      | [] => some ([x], [])
      | 44 :: r => (record f r).map fun y => (x :: y.1, y.2)
      | 13 :: 10 :: r => some ([x], r)
      | 10 :: r => some ([x], r)
      | 13 :: r => some ([x], r)
      | _ => none

/-- skip empty lines -/
def skipBlank : Bytes → Bytes
  | 10 :: t => skipBlank t
  | 13 :: t => skipBlank t
  | bs => bs

/-- all records of a text -/
def recordsF : Nat → Bytes → Option (List (List Bytes))
  | 0, _ => none
  | f + 1, bs =>
    match skipBlank bs with
    | [] => some []
    | c :: t =>
      match record ((c :: t).length + 1) (c :: t) with
      | none => none
      | some (r, rest) => if rest.length < (c :: t).length then (recordsF f rest).map (r :: ·) else none

def parse (bs : Bytes) : Option (List (List Bytes)) := recordsF (bs.length + 1) bs

/-- the next `n` records (skipping empty lines before each), and the rest -/
def takeRecords : Nat → Bytes → Option (List (List Bytes) × Bytes)
  | 0, bs => some ([], bs)
  | n + 1, bs =>
    match skipBlank bs with
    | [] => none
    | c :: t =>
      match record ((c :: t).length + 1) (c :: t) with
      | none => none
      | some (r, rest) => (takeRecords n rest).map fun x => (r :: x.1, x.2)

end PgVerif.Spec.Csv
