/-
  Spec side of the LZ4 block format (lz4_Block_format.md; DESIGN.md section 3 row "LZ4").
  A block is a list of sequences (literals, then a match `off`/`len`, min match 4, overlap allowed)
  followed by a last sequence that has only literals.  `expand` is the denotation, `render` the bytes.
  Knows nothing about the Go code.  Core Lean only (driver path).
-/
import PgVerif.Spec.Pglz
namespace PgVerif.Spec.Lz4
open PgVerif PgVerif.Spec.Pglz

structure Seq where
  lits : Bytes
  off : Nat
  len : Nat          -- match length, ≥ 4
deriving Repr, DecidableEq, Inhabited

structure Block where
  seqs : List Seq
  last : Bytes       -- literals of the last (match-less) sequence
deriving Repr, DecidableEq, Inhabited

/-- length nibble of the token -/
def nib (n : Nat) : Nat := if n < 15 then n else 15

/-- extension bytes of a length `n` (present iff the nibble is 15): 255-bytes, then a byte < 255 -/
def extBytes : Nat → Nat → Bytes
  | 0, _ => [0]
  | fuel+1, n => if n < 255 then [UInt8.ofNat n] else 255 :: extBytes fuel (n - 255)

def lenExt (n : Nat) : Bytes := if n < 15 then [] else extBytes (n - 15) (n - 15)

def renderSeq (s : Seq) : Bytes :=
  UInt8.ofNat (nib s.lits.length * 16 + nib (s.len - 4)) ::
    (lenExt s.lits.length ++ (s.lits ++ (le 2 s.off ++ lenExt (s.len - 4))))

def renderLast (l : Bytes) : Bytes :=
  UInt8.ofNat (nib l.length * 16) :: (lenExt l.length ++ l)

def render (b : Block) : Bytes := b.seqs.flatMap renderSeq ++ renderLast b.last

def expandSeq (out : Bytes) (s : Seq) : Bytes := expandMatch s.off s.len (out ++ s.lits)

def expandFrom (ss : List Seq) (out : Bytes) : Bytes := ss.foldl expandSeq out

/-! ### compiled code: array version of `expandFrom` (`@[csimp]`, proved equal) -/

def expandSeqA (out : Array UInt8) (s : Seq) : Array UInt8 := expandMatchA s.off s.len (out ++ s.lits.toArray)

theorem expandSeqA_toList (out : Array UInt8) (s : Seq) : (expandSeqA out s).toList = expandSeq out.toList s := by
  simp [expandSeqA, expandSeq, expandMatchA_toList]

def expandFromFast (ss : List Seq) (out : Bytes) : Bytes := (ss.foldl expandSeqA out.toArray).toList

theorem foldl_expandSeqA (ss : List Seq) (out : Array UInt8) :
    (ss.foldl expandSeqA out).toList = ss.foldl expandSeq out.toList := by
  induction ss generalizing out with
  | nil => rfl
  | cons s ss ih => simp only [List.foldl_cons, ih, expandSeqA_toList]

@[csimp] theorem expandFrom_eq_fast : @expandFrom = @expandFromFast := by
  funext ss out
  simp [expandFrom, expandFromFast, foldl_expandSeqA]


def expand (b : Block) : Bytes := expandFrom b.seqs [] ++ b.last

def Seq.produces (s : Seq) : Nat := s.lits.length + s.len

def Seq.WF (s : Seq) (cur : Nat) : Prop :=
  1 ≤ s.off ∧ s.off ≤ 65535 ∧ 4 ≤ s.len ∧ s.off ≤ cur + s.lits.length

instance (s : Seq) (n : Nat) : Decidable (s.WF n) := by unfold Seq.WF; infer_instance

def SeqsWF : List Seq → Nat → Prop
  | [], _ => True
  | s :: ss, cur => s.WF cur ∧ SeqsWF ss (cur + s.produces)

instance seqsWFDec : (ss : List Seq) → (n : Nat) → Decidable (SeqsWF ss n)
  | [], _ => isTrue trivial
  | s :: ss, n => by
    unfold SeqsWF
    have := seqsWFDec ss (n + s.produces)
    infer_instance

/-- every valid block: offsets 1..65535 within the output produced so far, matches of at least 4 bytes -/
def Lz4WF (b : Block) : Prop := SeqsWF b.seqs 0

instance (b : Block) : Decidable (Lz4WF b) := by unfold Lz4WF; infer_instance

end PgVerif.Spec.Lz4
