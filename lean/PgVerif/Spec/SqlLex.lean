/-
  Spec.SqlLex — the part of PostgreSQL's lexer (src/backend/parser/scan.l) that decides how an SQL dump tokenises,
  restricted to text that reads THE SAME under both settings of `standard_conforming_strings` (the dump cannot know the
  setting of the session that will run it).  Byte level: every delimiter of the lexer is ASCII and never occurs inside a
  multi-byte sequence of UTF-8 (or of any other server encoding), so lexing bytes is exact for such text.
  Knows nothing about pgread.

  Tokens:  `--` comment (text up to, not including, the line end; a line ends at LF *or CR*),
           `/* … */` comment (nesting), bare word (identifier or keyword: `[A-Za-z_\200-\377][A-Za-z_0-9$\200-\377]*`,
           ASCII letters folded to lower case), quoted identifier (`"…"`, `""` = one quote), string constant
           (`'…'`, `''` = one quote, no backslash inside — see below), escape string constant (`E'…'` or `e'…'`: `''` = one
           quote, two backslashes = one backslash; scan.l enters state xe for it whatever standard_conforming_strings is),
           dollar-quoted string (`$tag$ … $tag$`, ends at the FIRST occurrence of the opening delimiter),
           number (`digits[.digits][e[+-]digits]` / `.digits…`), `$n` parameter,
           operators (maximal run of operator characters, cut before `--` and `/*`, trailing `+`/`-` rule of scan.l),
           and the self-delimiting characters `, ( ) [ ] . ; :` (each a token of its own: scan.l's two-character tokens
           `::` `..` `:=` are reported as two such tokens — `Spec.SqlExport` accepts none of them anywhere).

  Where scan.l has behaviour this definition does not reproduce, the lexer FAILS (returns `none`) instead of guessing,
  so it can be used as an oracle: text it accepts tokenises in PostgreSQL as reported, with standard_conforming_strings
  on or off.  Those cases are
    * a plain string constant `'…'` that contains a backslash: scan.l reads it in state xq (backslash ordinary) when
      standard_conforming_strings is on and in state xe (backslash escapes: backslash-quote is a quote and the constant
      goes on) when it is off, so such text has no reading of its own,
    * inside `E'…'` every backslash sequence other than the doubled backslash (backslash-quote depends on
      backslash_quote; the letter, octal, hex and unicode escapes are not reproduced here),
    * a string constant followed by white space and `--` comments containing a newline, and then another quote (SQL string
      continuation: scan.l glues the two constants),
    * the prefixed forms  B'…'  X'…'  N'…'  U&'…'  U&"…"  (a word b/x/n directly followed by a quote, u followed by &),
    * a zero-length quoted identifier `""` (an error in PostgreSQL too),
    * a number directly followed by an identifier character ("trailing junk", an error since PostgreSQL 15),
    * a NUL byte ANYWHERE — between tokens and inside a token (string constant, quoted identifier, comment, dollar-quoted
      string): the scanner's input is a C string (scanner_init takes `const char *str` and strlen(str)), so PostgreSQL never
      sees what follows a NUL, and psql (a line-oriented reader over C strings) drops the rest of the LINE after one —
      closing quote included.  No reading of such text is the reading of the text as written; `next` refuses every token
      whose bytes hold a NUL,
    * a `$` that starts neither a parameter nor a dollar-quote delimiter, VT outside a token (white space only since
      PostgreSQL 16), and any other byte scan.l rejects,
    * anything unterminated.
  Identifier truncation to 63 bytes (NAMEDATALEN) is not modelled: stored names are at most 63 bytes.
-/
import PgVerif.Basic.Bytes
namespace PgVerif.Spec.SqlLex

/-- ASCII text as bytes (for keywords and punctuation in definitions; reduces by `decide`/`simp`) -/
def asc (s : String) : Bytes := s.toList.map fun c => UInt8.ofNat c.toNat

inductive Tok where
  | comment (text : Bytes)       -- `--` comment, without the dashes and the line end
  | ccomment                     -- `/* … */`
  | word (w : Bytes)             -- bare identifier or keyword, case-folded
  | qident (s : Bytes)           -- "quoted identifier", decoded
  | str (s : Bytes)              -- string constant ('…' or $tag$…$tag$), decoded
  | num (text : Bytes)           -- numeric literal
  | param (digits : Bytes)       -- $1
  | op (text : Bytes)            -- operator or self-delimiting character
deriving DecidableEq, Repr, Inhabited

/-- white space of scan.l for PostgreSQL 12–16: space, TAB, LF, CR, FF.  (VT became white space in PostgreSQL 16 and is a
syntax error before: it is refused, like every byte whose reading depends on the version.) -/
def isSpace (c : UInt8) : Bool := c == 32 || c == 9 || c == 10 || c == 13 || c == 12
def isNewline (c : UInt8) : Bool := c == 10 || c == 13
def isDigit (c : UInt8) : Bool := 48 ≤ c && c ≤ 57
def isUpper (c : UInt8) : Bool := 65 ≤ c && c ≤ 90
def isLower (c : UInt8) : Bool := 97 ≤ c && c ≤ 122
/-- ident_start of scan.l: letters, underscore, and every byte with the high bit set -/
def isIdentStart (c : UInt8) : Bool := isUpper c || isLower c || c == 95 || 128 ≤ c
/-- ident_cont: ident_start, digits and `$` -/
def isIdentCont (c : UInt8) : Bool := isIdentStart c || isDigit c || c == 36
/-- dolq_cont: ident_start and digits (no `$`) -/
def isDolqCont (c : UInt8) : Bool := isIdentStart c || isDigit c
/-- `self` of scan.l that are not also operator characters -/
def isSelfOnly (c : UInt8) : Bool := c == 44 || c == 40 || c == 41 || c == 91 || c == 93 || c == 46 || c == 59 || c == 58
/-- op_chars of scan.l:  ~ ! @ # ^ & | ` ? + - * / % < > = -/
def isOpChar (c : UInt8) : Bool :=
  c == 126 || c == 33 || c == 64 || c == 35 || c == 94 || c == 38 || c == 124 || c == 96 || c == 63 ||
  c == 43 || c == 45 || c == 42 || c == 47 || c == 37 || c == 60 || c == 62 || c == 61

/-- downcase_identifier in a multi-byte (UTF-8) server encoding: only ASCII letters are folded -/
def foldByte (c : UInt8) : UInt8 := if isUpper c then c + 32 else c
def fold (w : Bytes) : Bytes := w.map foldByte

/-- longest prefix whose bytes satisfy `p`, and the rest -/
def spanB (p : UInt8 → Bool) : Bytes → Bytes × Bytes
  | [] => ([], [])
  | c :: t => if p c then let r := spanB p t; (c :: r.1, r.2) else ([], c :: t)

/-- body of a quote-delimited token after the opening quote `q`: a doubled quote stands for one quote,
a single quote ends the token.  Returns the decoded body and what follows the closing quote. -/
def scanQuoted (q : UInt8) : Bytes → Option (Bytes × Bytes)
  | [] => none
  | [c] => if c = q then some ([], []) else none
  | c :: c2 :: t =>
    if c = q then
      if c2 = q then (scanQuoted q t).map fun r => (q :: r.1, r.2)
      else some ([], c2 :: t)
    else (scanQuoted q (c2 :: t)).map fun r => (c :: r.1, r.2)

/-- body of an escape string constant `E'…'` after the opening quote (scan.l state xe): a doubled quote stands for one
quote, a doubled backslash for one backslash, a single quote ends the token; every other use of a backslash is refused
(see the header).  Returns the decoded body and what follows the closing quote. -/
def scanEscaped : Bytes → Option (Bytes × Bytes)
  | [] => none
  | [c] => if c = 39 then some ([], []) else none
  | c :: c2 :: t =>
    if c = 39 then
      if c2 = 39 then (scanEscaped t).map fun r => (39 :: r.1, r.2)
      else some ([], c2 :: t)
    else if c = 92 then
      if c2 = 92 then (scanEscaped t).map fun r => (92 :: r.1, r.2)
      else none
    else (scanEscaped (c2 :: t)).map fun r => (c :: r.1, r.2)

def isPrefix : Bytes → Bytes → Bool
  | [], _ => true
  | _ :: _, [] => false
  | a :: as, b :: bs => a == b && isPrefix as bs

/-- body of a dollar-quoted string: everything up to the first occurrence of the delimiter -/
def scanDollar (delim : Bytes) : Bytes → Option (Bytes × Bytes)
  | [] => none
  | c :: t =>
    if isPrefix delim (c :: t) then some ([], (c :: t).drop delim.length)
    else (scanDollar delim t).map fun r => (c :: r.1, r.2)

/-- inside a C-style comment at nesting depth `d+1` (scan.l: xc state, nests) -/
def scanCComment : Nat → Bytes → Option Bytes
  | _, [] => none
  | _, [_] => none
  | d, c :: c2 :: t =>
    if c = 42 ∧ c2 = 47 then (match d with | 0 => some t | d' + 1 => scanCComment d' t)
    else if c = 47 ∧ c2 = 42 then scanCComment (d + 1) t
    else scanCComment d (c2 :: t)

/-- `contScan inComment seenNewline bs`: does `bs` continue a string constant?  scan.l's `quotecontinue` is white space and
`--` comments containing at least one newline, followed by a quote; then the next constant is glued to the previous one.
(Slightly wider than scan.l, which wants the comments before the first newline to end at it: refusing more is harmless.) -/
def contScan : Bool → Bool → Bytes → Bool
  | _, _, [] => false
  | true, nl, c :: t => if isNewline c then contScan false true t else contScan true nl t
  | false, nl, c :: t =>
    if isSpace c then contScan false (nl || isNewline c) t
    else if c = 39 then nl
    else if c = 45 ∧ t.head? == some 45 then contScan true nl t
    else false

/-- does `bs` begin with white space / comments that contain a newline and are followed by a quote? (string continuation) -/
def contAfterString (bs : Bytes) : Bool := contScan false false bs

/-- numeric literal starting at a digit or at `.digit`:  digits [. digits*] [e [+-] digits] -/
def scanNumber (bs : Bytes) : Bytes × Bytes :=
  let ip := spanB isDigit bs
  let (mant, r1) : Bytes × Bytes :=
    match ip.2 with
    | d :: t =>
      -- scan.l: `1..2` is the integer 1 followed by `..`
      if d = 46 ∧ ¬ (ip.1 ≠ [] ∧ t.head? == some 46) then (let fp := spanB isDigit t; (ip.1 ++ 46 :: fp.1, fp.2))
      else (ip.1, ip.2)
    | [] => (ip.1, [])
  match r1 with
  | e :: t =>
    if e = 101 ∨ e = 69 then
      let (sign, t') : Bytes × Bytes :=
        match t with
        | s :: t2 => if s = 43 ∨ s = 45 then ([s], t2) else ([], t)
        | [] => ([], [])
      let ex := spanB isDigit t'
      if ex.1 ≠ [] then (mant ++ e :: sign ++ ex.1, ex.2) else (mant, r1)
    else (mant, r1)
  | [] => (mant, r1)

/-- operator: maximal run of operator characters, cut before an embedded `--` or `/*` -/
def opRun : Bytes → Bytes × Bytes
  | [] => ([], [])
  | [c] => if isOpChar c then ([c], []) else ([], [c])
  | c :: c2 :: t =>
    if isOpChar c then
      if (c = 45 ∧ c2 = 45) ∨ (c = 47 ∧ c2 = 42) then ([], c :: c2 :: t)
      else let r := opRun (c2 :: t); (c :: r.1, r.2)
    else ([], c :: c2 :: t)

/-- scan.l: a multi-character operator may end in `+` or `-` only if it contains one of  ~ ! @ # ^ & | ` ? %  -/
def opKeepsSign (o : Bytes) : Bool :=
  o.any fun c => c == 126 || c == 33 || c == 64 || c == 35 || c == 94 || c == 38 || c == 124 || c == 96 || c == 63 || c == 37

/-- strip trailing `+`/`-` from a reversed operator while more than one character remains -/
def stripSigns : Bytes → Bytes → Bytes × Bytes
  | c :: rest, back => if (c = 43 ∨ c = 45) ∧ rest ≠ [] then stripSigns rest (c :: back) else ((c :: rest).reverse, back)
  | [], back => ([], back)

def scanOp (bs : Bytes) : Bytes × Bytes :=
  let r := opRun bs
  if r.1.length > 1 ∧ !opKeepsSign r.1 then
    let s := stripSigns r.1.reverse []
    (s.1, s.2 ++ r.2)
  else r

/-- One step of the lexer on NUL-free input: `none` = lexical error (or a construct this definition refuses, see the header);
`some (none, rest)` = white space skipped; `some (some t, rest)` = token `t` recognised, `rest` follows it. -/
def next0 : Bytes → Option (Option Tok × Bytes)
  | [] => none
  | c :: t =>
    if isSpace c then some (none, t)
    else if c = 45 ∧ t.head? == some 45 then
      let r := spanB (fun b => !isNewline b) (t.drop 1)
      some (some (.comment r.1), r.2)
    else if c = 47 ∧ t.head? == some 42 then
      (scanCComment 0 (t.drop 1)).map fun rest => (some .ccomment, rest)
    else if c = 39 then
      match scanQuoted 39 t with
      | some (s, rest) => if s.contains 92 || contAfterString rest then none else some (some (.str s), rest)
      | none => none
    else if c = 34 then
      match scanQuoted 34 t with
      | some (s, rest) => if s = [] then none else some (some (.qident s), rest)
      | none => none
    else if c = 36 then
      match t with
      | [] => none
      | d :: _ =>
        if isDigit d then
          let r := spanB isDigit t
          if r.2.head?.any isIdentStart then none else some (some (.param r.1), r.2)
        else
          let tag := if isIdentStart d then spanB isDolqCont t else (([] : Bytes), t)
          match tag.2 with
          | 36 :: body => (scanDollar (36 :: tag.1 ++ [36]) body).map fun r => (some (.str r.1), r.2)
          | _ => none
    else if isDigit c ∨ (c = 46 ∧ t.head?.any isDigit) then
      let r := scanNumber (c :: t)
      if r.2.head?.any isIdentCont then none else some (some (.num r.1), r.2)
    else if isIdentStart c then
      let r := spanB isIdentCont (c :: t)
      let w := fold r.1
      if r.2.head? == some 39 ∧ w = [101] then
        match scanEscaped (r.2.drop 1) with
        | some (s, rest) => if contAfterString rest then none else some (some (.str s), rest)
        | none => none
      else if r.2.head? == some 39 ∧ (w = [98] ∨ w = [120] ∨ w = [110]) then none
      else if r.2.head? == some 38 ∧ w = [117] then none
      else some (some (.word w), r.2)
    else if isSelfOnly c then some (some (.op [c]), t)
    else if isOpChar c then
      let r := scanOp (c :: t)
      some (some (.op r.1), r.2)
    else none

/-- One step of the lexer: the step of `next0`, refused when the bytes it consumed (the token, or the white space) hold a
NUL — a NUL inside a string constant, a quoted identifier, a comment or a dollar-quoted string included (see the header). -/
def next (bs : Bytes) : Option (Option Tok × Bytes) :=
  match next0 bs with
  | none => none
  | some (tok, rest) => if (bs.take (bs.length - rest.length)).contains 0 then none else some (tok, rest)

/-- the token sequence of `bs`; the fuel only has to exceed the length (every step must consume input) -/
def lexF : Nat → Bytes → Option (List Tok)
  | _, [] => some []
  | 0, _ :: _ => none
  | f + 1, c :: t =>
    match next (c :: t) with
    | none => none
    | some (tok, rest) =>
      if rest.length < (c :: t).length then
        (lexF f rest).map fun ts => match tok with | some k => k :: ts | none => ts
      else none

def lex (bs : Bytes) : Option (List Tok) := lexF (bs.length + 1) bs

end PgVerif.Spec.SqlLex
