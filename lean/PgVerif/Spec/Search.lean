/-
  C15 — what a search over a dump, and a secret scan of a dump, must report.
  Knows nothing about the Go code.  Core Lean only (driver path).

  A dump is a list of databases, each a list of tables, each with its declared columns and a list of
  rows; a row is a finite map column name → value (an association list with distinct keys, `Row.WF`).
  A *cell* is addressed by (database, table, row index, column).

  Parameters (trusted, not modelled):
    * `Regex`  — the regular-expression engine: `compile p = none` iff `p` is not valid RE2 syntax, otherwise
                 the predicate "the text has a match of p"; a leading `(?i)` makes the pattern case-insensitive.
    * `sh`     — the text of a scalar: decimal integers, `true`/`false`, float text.  For the SEARCH it is the text
                 PostgreSQL prints for the value: floats by Spec/SearchFloat.lean (`searchSh`: shortest round-trip digits from
                 the bit pattern, a 64-bit float positionally at every magnitude, a 32-bit one in %g layout, `NaN` /
                 `Infinity` / `-Infinity`; fixes search/05 and /06); for the secret SCAN `fmt`'s `%v`.
    * detectors of the secret scan (keywords + `fromData`): what a detector reports depends on the WHOLE text it is
                 given, so the view of the scan is stated per cell text (`scanText`, `cellFindings`).

  Interpretations:
    * MaxResults: a positive value is a bound; 0 is the API's documented "unlimited" (`// Maximum results (0 = unlimited)`),
      and negative values are treated the same.  The property's "never more than the requested maximum" is read with it.
    * case-insensitive = the pattern with RE2's `(?i)` flag in front (`effPattern`); the meaning of `(?i)` (Go: Unicode
      simple case folding) belongs to the engine.
    * values: the kinds pgread's decoders produce (`GoVal`); hand-built dumps may also hold Go `[]byte`:
      Spec/SearchBytes.lean.
-/
import PgVerif.Basic.Canon
namespace PgVerif.Spec.Search
open PgVerif

abbrev Row := List (Bytes × GoVal)

structure Table where
  name : Bytes
  columns : List Bytes
  rows : List Row
deriving Inhabited

structure Database where
  name : Bytes
  tables : List Table
deriving Inhabited

abbrev Dump := List Database

/-- a row is a map: no column name occurs twice -/
def Row.WF (r : Row) : Prop := (r.map (·.1)).Nodup
def Dump.WF (d : Dump) : Prop := ∀ db ∈ d, ∀ t ∈ db.tables, ∀ r ∈ t.rows, Row.WF r

/-- the regular-expression engine (Go `regexp`): `none` = the pattern does not compile -/
structure Regex where
  compile : Bytes → Option (Bytes → Bool)

structure Opts where
  pattern : Bytes
  caseSensitive : Bool
  includeRow : Bool
  /-- Go `int`; values ≤ 0 mean "no limit" -/
  maxResults : Int
deriving Inhabited

/-- "(?i)" -/
def ciPrefix : Bytes := [40, 63, 105, 41]

/-- the pattern that decides the search: case-insensitive unless asked otherwise -/
def effPattern (o : Opts) : Bytes := if o.caseSensitive then o.pattern else ciPrefix ++ o.pattern

/-! ### when does a cell match -/

mutual
/-- strings match directly; a JSON object matches when one of its keys or (recursively) one of its values
does; an array when one of its elements does; NULL never; any other scalar through its text -/
def cellMatches (re : Bytes → Bool) (sh : GoVal → Bytes) : GoVal → Bool
  | .nil => false
  | .str s => re s
  | .arr xs => anyMatches re sh xs
  | .obj kvs => kvMatches re sh kvs
  | .bool b => re (sh (.bool b))
  | .int i => re (sh (.int i))
  | .f64 b => re (sh (.f64 b))
  | .f32 b => re (sh (.f32 b))
def anyMatches (re : Bytes → Bool) (sh : GoVal → Bytes) : List GoVal → Bool
  | [] => false
  | x :: xs => cellMatches re sh x || anyMatches re sh xs
def kvMatches (re : Bytes → Bool) (sh : GoVal → Bytes) : List (Bytes × GoVal) → Bool
  | [] => false
  | (k, v) :: rest => re k || cellMatches re sh v || kvMatches re sh rest
end

/-! ### the order of cells: (database, table, row, column) -/

/-- value of column `c` in a row (rows are maps; the first binding counts) -/
def lookup (c : Bytes) : Row → Option GoVal
  | [] => none
  | (k, v) :: rest => if k = c then some v else lookup c rest

/-- declared columns in declaration order, first occurrence only, restricted to those the row has -/
def declaredIn (keys : List Bytes) : List Bytes → List Bytes → List Bytes
  | _, [] => []
  | seen, c :: cs =>
    if keys.contains c && !seen.contains c then c :: declaredIn keys (c :: seen) cs else declaredIn keys seen cs

/-- the column order of a row: the table's declared columns first, in declaration order; keys that are not
declared columns (possible only in hand-built dumps) after them, in byte order -/
def colOrder (cols : List Bytes) (row : Row) : List Bytes :=
  let keys := row.map (·.1)
  let decl := declaredIn keys [] cols
  decl ++ (keys.filter fun k => !decl.contains k).mergeSort bytesLe

/-- the cells of a row in column order -/
def rowCells (cols : List Bytes) (row : Row) : List (Bytes × GoVal) :=
  (colOrder cols row).filterMap fun c => (lookup c row).map fun v => (c, v)

structure Hit where
  db : Bytes
  table : Bytes
  row : Nat
  col : Bytes
  value : GoVal
  fullRow : Option Row
deriving Inhabited

def rowHits (re : Bytes → Bool) (sh : GoVal → Bytes) (incl : Bool) (db tbl : Bytes) (cols : List Bytes)
    (ri : Row × Nat) : List Hit :=
  ((rowCells cols ri.1).filter fun cv => cellMatches re sh cv.2).map fun cv =>
    { db := db, table := tbl, row := ri.2, col := cv.1, value := cv.2, fullRow := if incl then some ri.1 else none }

def tableHits (re : Bytes → Bool) (sh : GoVal → Bytes) (incl : Bool) (db : Bytes) (t : Table) : List Hit :=
  t.rows.zipIdx.flatMap (rowHits re sh incl db t.name t.columns)

def dbHits (re : Bytes → Bool) (sh : GoVal → Bytes) (incl : Bool) (db : Database) : List Hit :=
  db.tables.flatMap (tableHits re sh incl db.name)

/-- every matching cell, in (database, table, row, column) order -/
def allMatches (re : Bytes → Bool) (sh : GoVal → Bytes) (incl : Bool) (d : Dump) : List Hit :=
  d.flatMap (dbHits re sh incl)

/-- the view: what a correct search returns — an error for a pattern that does not compile, otherwise the first
`maxResults` matching cells in cell order (all of them when `maxResults ≤ 0`) -/
def expected (R : Regex) (sh : GoVal → Bytes) (d : Dump) (o : Opts) : Option (List Hit) :=
  match R.compile (effPattern o) with
  | none => none
  | some re =>
    let all := allMatches re sh o.includeRow d
    some (if o.maxResults > 0 then all.take o.maxResults.toNat else all)

/-- `(db, table, i, col)` addresses a cell of `d` holding `v` -/
def IsCell (d : Dump) (db tbl : Bytes) (i : Nat) (col : Bytes) (v : GoVal) (row : Row) : Prop :=
  ∃ D ∈ d, D.name = db ∧ ∃ t ∈ D.tables, t.name = tbl ∧ t.rows[i]? = some row ∧ (col, v) ∈ row

/-- every matching binding of every row, enumerated in the order in which the rows STORE their bindings
(no column order involved): the plain reading of "the cells whose value matches" -/
def matchingCells (re : Bytes → Bool) (sh : GoVal → Bytes) (incl : Bool) (d : Dump) : List Hit :=
  d.flatMap fun D => D.tables.flatMap fun t => t.rows.zipIdx.flatMap fun ri =>
    (ri.1.filter fun cv => cellMatches re sh cv.2).map fun cv =>
      ({ db := D.name, table := t.name, row := ri.2, col := cv.1, value := cv.2, fullRow := if incl then some ri.1 else none } : Hit)

/-! ### substring tests (specification of `bytesContains` / `containsIgnoreCase`) -/

def isPrefix : Bytes → Bytes → Bool
  | [], _ => true
  | _ :: _, [] => false
  | a :: as, b :: bs => a == b && isPrefix as bs

/-- `sub` occurs in `s` as a contiguous block -/
def occursIn (sub : Bytes) : Bytes → Bool
  | [] => sub.isEmpty
  | c :: cs => isPrefix sub (c :: cs) || occursIn sub cs

def lowerByte (c : UInt8) : UInt8 := if 65 ≤ c ∧ c ≤ 90 then c + 32 else c
def lower (s : Bytes) : Bytes := s.map lowerByte

/-! ### secret scan -/

/-- one result of a detector -/
structure DetResult where
  detector : Bytes
  raw : Bytes
deriving Inhabited, DecidableEq

/-- a credential detector (trufflehog): pre-filter keywords and the detection function
(`none` = the detector returned an error) -/
structure Detector where
  keywords : List Bytes
  fromData : Bytes → Option (List DetResult)

structure Finding where
  detector : Bytes
  db : Bytes
  table : Bytes
  col : Bytes
  row : Nat
  raw : Bytes
deriving Inhabited, DecidableEq

/-- text of a whole cell (`fmt` verb `%v`): scalars through `sh`, strings as they are, NULL `<nil>`,
arrays `[a b c]`, maps `map[k:v k:v]` with keys in byte order -/
def joinSp : List Bytes → Bytes
  | [] => []
  | [x] => x
  | x :: xs => x ++ 32 :: joinSp xs

mutual
def fmtV (sh : GoVal → Bytes) : GoVal → Bytes
  | .nil => [60, 110, 105, 108, 62]
  | .str s => s
  | .arr xs => [91] ++ joinSp (fmtList sh xs) ++ [93]
  | .obj kvs => [109, 97, 112, 91] ++ joinSp ((fmtKvs sh kvs).mergeSort (fun a b => bytesLe a.1 b.1) |>.map fun kv => kv.1 ++ 58 :: kv.2) ++ [93]
  | .bool b => sh (.bool b)
  | .int i => sh (.int i)
  | .f64 b => sh (.f64 b)
  | .f32 b => sh (.f32 b)
def fmtList (sh : GoVal → Bytes) : List GoVal → List Bytes
  | [] => []
  | x :: xs => fmtV sh x :: fmtList sh xs
def fmtKvs (sh : GoVal → Bytes) : List (Bytes × GoVal) → List (Bytes × Bytes)
  | [] => []
  | (k, v) :: rest => (k, fmtV sh v) :: fmtKvs sh rest
end

/-! ### the texts the search tries the pattern on (the property's wording, as a flat list) -/

mutual
/-- every text of a value that can make it match: a string itself; for a JSON object its keys and (recursively) the
texts of its values; for an array (recursively) the texts of its elements; for any other scalar its text; NULL has none -/
def searchTexts (sh : GoVal → Bytes) : GoVal → List Bytes
  | .nil => []
  | .str s => [s]
  | .arr xs => searchTextsList sh xs
  | .obj kvs => searchTextsKvs sh kvs
  | .bool b => [sh (.bool b)]
  | .int i => [sh (.int i)]
  | .f64 b => [sh (.f64 b)]
  | .f32 b => [sh (.f32 b)]
def searchTextsList (sh : GoVal → Bytes) : List GoVal → List Bytes
  | [] => []
  | x :: xs => searchTexts sh x ++ searchTextsList sh xs
def searchTextsKvs (sh : GoVal → Bytes) : List (Bytes × GoVal) → List Bytes
  | [] => []
  | (k, v) :: rest => k :: (searchTexts sh v ++ searchTextsKvs sh rest)
end

/-! ### what the secret scan must report

The scanner is trufflehog's detector set run cell by cell: the text of a cell is handed to every detector whose
keyword pre-filter lets it through (a detector without keywords always runs; otherwise one of its keywords must occur
in THAT text, as is or ignoring ASCII case), and each result becomes a finding with the cell's coordinates.  A cell
whose text is shorter than 8 bytes is not scanned.  What a detector reports on a text is the parameter `fromData`. -/

/-- the keyword pre-filter of one detector on one text -/
def keywordPass (det : Detector) (text : Bytes) : Bool :=
  det.keywords.isEmpty || det.keywords.any fun kw => occursIn kw text || occursIn (lower kw) (lower text)

/-- the results of the detector set on one text, detector by detector (a failing detector contributes nothing) -/
def scanText (dets : List Detector) (text : Bytes) : List DetResult :=
  dets.flatMap fun det => if keywordPass det text then (det.fromData text).getD [] else []

/-- the findings of one cell -/
def cellFindings (dets : List Detector) (sh : GoVal → Bytes) (db tbl : Bytes) (i : Nat) (cv : Bytes × GoVal) : List Finding :=
  if (fmtV sh cv.2).length < 8 then []
  else (scanText dets (fmtV sh cv.2)).map fun r =>
    { detector := r.detector, db := db, table := tbl, col := cv.1, row := i, raw := r.raw }

/-- the view of the secret scan: the findings of every cell, in (database, table, row, column) order -/
def expectedFindings (dets : List Detector) (sh : GoVal → Bytes) (d : Dump) : List Finding :=
  d.flatMap fun D => D.tables.flatMap fun t => t.rows.zipIdx.flatMap fun ri =>
    (rowCells t.columns ri.1).flatMap (cellFindings dets sh D.name t.name ri.2)

/-- the findings of every binding of every row, enumerated in the order in which the rows STORE their bindings
(no column order involved): "each cell once" -/
def allCellFindings (dets : List Detector) (sh : GoVal → Bytes) (d : Dump) : List Finding :=
  d.flatMap fun D => D.tables.flatMap fun t => t.rows.zipIdx.flatMap fun ri =>
    ri.1.flatMap (cellFindings dets sh D.name t.name ri.2)

end PgVerif.Spec.Search
