/-
  C15 — the text a floating-point cell is SEARCHED as: the text PostgreSQL prints for the value.
  Knows nothing about the Go code and nothing about any library: everything is computed from the IEEE-754 bit
  pattern by exact natural-number arithmetic.  Core Lean only (driver path).

  PostgreSQL facts (from memory of the sources; no PostgreSQL in the sandbox):
    * float8out / float4out (extra_float_digits ≥ 1, the default since v12): the SHORTEST decimal digits that read back
      as the same float8 / float4 (Ryu), laid out like C's `%g`: positional for decimal exponents −4 … 14 (float8),
      −4 … 5 (float4), `d.ddde+XX` beyond; `NaN`, `Infinity`, `-Infinity`.
    * numeric_out and the JSON / JSONB number text: positional at every magnitude (`1000000000000000`, `0.00001`);
      numeric spells its specials `NaN`, `Infinity`, `-Infinity` as well.
    * pgread decodes numeric, JSON/JSONB numbers and float8 all to a Go float64 and float4 to a float32, so the text of
      a 64-bit cell is the positional one (numeric's / JSON's always, float8's for exponents −4 … 14) and the text of a
      32-bit cell is float4's.

  Definitions:
    * `decode mb eb bits`   — the finite value of a bit pattern as exact fractions over one denominator, together with
                              its round-to-nearest-even interval (the reals that read back as these bits);
    * `shortest`            — the decimal `d · 10^k` with the LARGEST exponent k (= fewest digits) lying in that
                              interval, the one nearest to the value when two do;
    * `positional`, `expForm`, `gForm` — the three layouts of a digits/exponent pair;
    * `f64Text`, `f32Text`  — the search texts.
-/
import PgVerif.Basic.Canon
namespace PgVerif.Spec.SearchFloat
open PgVerif

/-! ### decimal text of a natural number -/

def decAux : Nat → Nat → Bytes → Bytes
  | 0, _, acc => acc
  | fuel+1, n, acc =>
    let acc' := UInt8.ofNat (48 + n % 10) :: acc
    if n < 10 then acc' else decAux fuel (n / 10) acc'

/-- decimal digits of `n` (ASCII), no leading zeros, `0` ↦ "0".  (A number has at most as many decimal digits as bits.) -/
def dec (n : Nat) : Bytes := decAux (Nat.log2 n + 1) n []

/-! ### a finite positive binary float, exactly -/

/-- value `vn/den`; the reals strictly between `ln/den` and `hn/den` (and the two ends themselves when `incl`) are the
ones IEEE round-to-nearest-even maps to this float -/
structure Fin where
  vn : Nat
  ln : Nat
  hn : Nat
  den : Nat
  incl : Bool
deriving Repr, DecidableEq

structure Decoded where
  neg : Bool
  /-- biased exponent all ones -/
  special : Bool
  /-- fraction field -/
  frac : Nat
  /-- mantissa with the hidden bit -/
  m : Nat
  fin : Fin
deriving Repr

/-- IEEE-754 binary interchange format with `mb` fraction bits and `eb` exponent bits (float64: 52, 11; float32: 23, 8).
Everything is scaled by 4 so that the half-way points to the neighbours (half an ulp above; half an ulp below, or a
quarter when the mantissa is the smallest of its binade, where the spacing halves) are integers. -/
def decode (mb eb bits : Nat) : Decoded :=
  let neg := bits / 2 ^ (mb + eb) % 2 == 1
  let be := bits / 2 ^ mb % 2 ^ eb
  let frac := bits % 2 ^ mb
  let shift := 2 ^ (eb - 1) - 1 + mb              -- bias + mb: value = m · 2^(be' − shift)
  let be' := if be == 0 then 1 else be            -- subnormals share the exponent of the first binade
  let m := if be == 0 then frac else 2 ^ mb + frac
  let e := be' - shift
  let q := shift - be'
  let narrowBelow := frac == 0 && be > 1
  { neg, special := be == 2 ^ eb - 1, frac, m,
    fin := { vn := 4 * m * 2 ^ e, hn := (4 * m + 2) * 2 ^ e,
             ln := (if narrowBelow then 4 * m - 1 else 4 * m - 2) * 2 ^ e,
             den := 4 * 2 ^ q, incl := m % 2 == 0 } }

/-! ### shortest digits -/

/-- is the decimal `d · a / b` inside the rounding interval of `F` -/
def inIv (F : Fin) (a b d : Nat) : Bool :=
  let c := d * a * F.den
  if F.incl then F.ln * b ≤ c && c ≤ F.hn * b else F.ln * b < c && c < F.hn * b

/-- the multiple of `a / b` (a power of ten, or one over a power of ten) that reads back as `F`, if there is one: only
the two neighbours of the value can; if both do, the nearer, and the even one when the value is exactly half-way (Ryu's
rule, in PostgreSQL's float output and in every shortest-digits printer that breaks ties by round-half-even) -/
def tryAt (F : Fin) (a b : Nat) : Option Nat :=
  let s := a * F.den
  let dlo := F.vn * b / s
  let r := F.vn * b % s
  let okLo := inIv F a b dlo
  let okHi := inIv F a b (dlo + 1)
  if okLo && okHi then some (if 2 * r < s then dlo else if 2 * r > s then dlo + 1 else if dlo % 2 == 0 then dlo else dlo + 1)
  else if okLo then some dlo
  else if okHi then some (dlo + 1)
  else none

/-- exponents `n−1, n−2, …, 0`, largest first -/
def searchPos (F : Fin) : Nat → Option (Nat × Int)
  | 0 => none
  | k+1 =>
    match tryAt F (10 ^ k) 1 with
    | some d => some (d, (k : Int))
    | none => searchPos F k

/-- exponents `−j, −j−1, …` -/
def searchNeg (F : Fin) : Nat → Nat → Option (Nat × Int)
  | 0, _ => none
  | fuel+1, j =>
    match tryAt F 1 (10 ^ j) with
    | some d => some (d, -(j : Int))
    | none => searchNeg F fuel (j + 1)

/-- an exponent no decimal in the interval can reach: `10^k0 > 2^(bits+1) >` upper end (4/13 > log10 2) -/
def startExp (F : Fin) : Nat := (Nat.log2 (F.vn / F.den) + 2) * 4 / 13 + 1

/-- the shortest decimal `d · 10^k` that reads back as `F` (17 digits always do, so exponents down to −345 suffice) -/
def shortest (F : Fin) : Nat × Int :=
  match searchPos F (startExp F) with
  | some r => r
  | none => (searchNeg F 400 1).getD (0, 0)

/-! ### layouts -/

def zeroDigits (n : Nat) : Bytes := List.replicate n 48

/-- `d · 10^k` written out: all integer digits, and the fraction digits after a point when k < 0 -/
def positional (d : Nat) (k : Int) : Bytes :=
  match k with
  | .ofNat k => dec (d * 10 ^ k)
  | .negSucc j' =>
    let j := j' + 1
    let fr := dec (d % 10 ^ j)
    dec (d / 10 ^ j) ++ [46] ++ zeroDigits (j - fr.length) ++ fr

/-- C's `%e` with all the digits: `d.ddde±XX` (exponent at least two digits) -/
def expForm (d : Nat) (k : Int) : Bytes :=
  let ds := dec d
  let x : Int := (ds.length : Int) - 1 + k
  ds.take 1 ++ (if ds.length > 1 then [46] ++ ds.drop 1 else []) ++ [101] ++ (if x < 0 then [45] else [43]) ++
    (if x.natAbs < 10 then [48] else []) ++ dec x.natAbs

/-- C's `%g` with the shortest digits (precision 6 for the choice of layout): positional for decimal exponents −4 … 5 -/
def gForm (d : Nat) (k : Int) : Bytes :=
  let x : Int := ((dec d).length : Int) - 1 + k
  if x < -4 || x ≥ 6 then expForm d k else positional d k

def sNaN : Bytes := [78, 97, 78]
def sInfinity : Bytes := [73, 110, 102, 105, 110, 105, 116, 121]
def sMinus : Bytes := [45]

/-- common frame: specials, sign, zero -/
def floatText (D : Decoded) (layout : Nat → Int → Bytes) : Bytes :=
  if D.special then
    if D.frac != 0 then sNaN else if D.neg then sMinus ++ sInfinity else sInfinity
  else
    (if D.neg then sMinus else []) ++
      (if D.m == 0 then [48] else let r := shortest D.fin; layout r.1 r.2)

/-- the text of a 64-bit float cell (numeric, JSON/JSONB number, float8): shortest digits, positional -/
def f64Text (bits : Nat) : Bytes := floatText (decode 52 11 bits) positional

/-- the text of a 32-bit float cell (float4): shortest digits, `%g` layout -/
def f32Text (bits : Nat) : Bytes := floatText (decode 23 8 bits) gForm

/-- float8out's own layout (not used by the search: a float8 cannot be told from a numeric): `%g` with 15 -/
def f64TextG (bits : Nat) : Bytes :=
  floatText (decode 52 11 bits) fun d k =>
    let x : Int := ((dec d).length : Int) - 1 + k
    if x < -4 || x ≥ 15 then expForm d k else positional d k

/-- the scalar text of the SEARCH: floats as above, every other scalar through `base` (decimal integers, `true` / `false`) -/
def searchSh (base : GoVal → Bytes) : GoVal → Bytes
  | .f64 b => f64Text b
  | .f32 b => f32Text b
  | v => base v

end PgVerif.Spec.SearchFloat
