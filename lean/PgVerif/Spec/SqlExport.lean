/-
  Spec.SqlExport — what property C13 demands of the SQL text of a dump, stated over the token sequence that
  PostgreSQL's lexer (Spec.SqlLex) produces.  Knows nothing about how pgread builds the text.

  `checkDump F d toks` walks the tokens once:
    header        two `--` comments;
    per database  a comment ` Database: <name> (OID: <oid>)` and a comment ` \connect <name>`;
    per table     a comment ` Table: <name> (<n> rows)`;
                  CREATE TABLE IF NOT EXISTS <name> ( <column> <type words> , … ) ;      (the column list may be empty)
                  and, when the table has rows and at least one column,
                  INSERT INTO <name> ( <column> , … ) VALUES ( <cell> , … ) , … ;        (every list non-empty)
                  or, when the table has rows and NO column, once per row
                  INSERT INTO <name> DEFAULT VALUES ;
                  (PostgreSQL's grammar: insert_column_list and expr_list need at least one item — `INSERT INTO t () VALUES ()`
                  is a syntax error; OptTableElementList may be empty);
  where
    <name>/<column> is exactly ONE token that decodes to the stored name: a quoted identifier with that content, or a
                  bare word equal to the name that PostgreSQL would neither fold nor read as a keyword;
    a name inside a comment is the comment text between the fixed prefix and suffix, with `\\` `\n` `\r` standing for
                  backslash, LF, CR (a comment token cannot contain a raw line break: the lexer ends it there);
    <cell>        a value of the column's type T (`value F T`):
                  NULL ⇔ nil or missing;
                  when T is json/jsonb every non-NULL value — string, number, boolean, array, object — as ONE string constant
                  holding valid JSON with that value;  otherwise
                  TRUE/FALSE;  integers as `-`? number with the decimal text;
                  finite floats as `-`? number, NaN/±Inf as a quoted spelling PostgreSQL's float input accepts;
                  strings as one string constant whose content is the stored bytes up to the first NUL (a PostgreSQL string
                  is a C string: textout/charout deliver that prefix, and no SQL text can hold a NUL — Spec.SqlLex);
                  objects as one string constant whose content is valid JSON with that value (Spec.Json);
                  non-empty arrays as ARRAY [ <element> , … ] (at least one element: PostgreSQL rejects `ARRAY[]`,
                  "cannot determine type of empty array"), where, when T is an array type of pg_type (`pgArrayTypes`), every
                  <element> is a value of T's element type typelem (so an element of a jsonb[] column is a JSON document in
                  one string constant: '"abc"', '5', '[]') and the constructor is followed by the cast `:: <typname of T>`:
                  without it PostgreSQL resolves ONE element type from the elements (select_common_type) — ARRAY[1, 'NaN']
                  fails in int4in, ARRAY['"a"', '5'] is text[], which is not assignable to jsonb[] / uuid[] / date[] … —
                  with it transformTypeCast hands the target type down to transformArrayExpr (nested constructors
                  included) and every element is converted by the element type's input function on its own (the cast is
                  demanded for every array-typed column: this definition does not reproduce select_common_type, so it asks
                  for the form that is right whatever the element constants are);
                  when T is not an array type the elements are values of the unknown type 0 and no cast is required;
                  the empty array as the string constant '{}' (array input syntax, accepted by a column of any array type);
    <type words>  one or more bare words (the column type is not stored data: pgread takes it from a fixed table).
  Nothing may follow.  Since every name and value is matched against exactly one token (or the fixed token group of a
  signed number / ARRAY[…] / ARRAY[…]::name) and the statement skeleton around them is fixed, no name or value can end its token early,
  start another statement or leave a comment.
-/
import PgVerif.Spec.SqlLex
import PgVerif.Spec.ExportJson
namespace PgVerif.Spec.SqlExport
open PgVerif PgVerif.Export PgVerif.Spec.SqlLex

/-- key words that PostgreSQL (12–16) does not accept as a table or column name without quotes:
the reserved and the type_func_name categories of src/include/parser/kwlist.h -/
def mustQuote : List Bytes := [
  "all", "analyse", "analyze", "and", "any", "array", "as", "asc", "asymmetric", "authorization", "binary", "both",
  "case", "cast", "check", "collate", "collation", "column", "concurrently", "constraint", "create", "cross",
  "current_catalog", "current_date", "current_role", "current_schema", "current_time", "current_timestamp",
  "current_user", "default", "deferrable", "desc", "distinct", "do", "else", "end", "except", "false", "fetch",
  "for", "foreign", "freeze", "from", "full", "grant", "group", "having", "ilike", "in", "initially", "inner",
  "intersect", "into", "is", "isnull", "join", "lateral", "leading", "left", "like", "limit", "localtime",
  "localtimestamp", "natural", "not", "notnull", "null", "offset", "on", "only", "or", "order", "outer", "overlaps",
  "placing", "primary", "references", "returning", "right", "select", "session_user", "similar", "some", "symmetric",
  "system_user", "table", "tablesample", "then", "to", "trailing", "true", "union", "unique", "user", "using",
  "variadic", "verbose", "when", "where", "window", "with"].map SqlLex.asc

/-- the token is the identifier `name`: quoted with that content, or bare, unchanged by folding and not a key word -/
def isName (name : Bytes) : Tok → Bool
  | .qident s => s == name
  | .word w => w == name && !mustQuote.contains w
  | _ => false

/-- undo the comment convention: `\\` `\n` `\r`; any other use of a backslash is not a valid encoding -/
def commentDecode : Bytes → Option Bytes
  | [] => some []
  | [c] => if c = 92 then none else some [c]
  | c :: c2 :: t =>
    if c = 92 then
      if c2 = 92 then (commentDecode t).map (92 :: ·)
      else if c2 = 110 then (commentDecode t).map (10 :: ·)
      else if c2 = 114 then (commentDecode t).map (13 :: ·)
      else none
    else (commentDecode (c2 :: t)).map (c :: ·)

/-- comment text = pre ++ encoded name ++ suf -/
def isNameComment (pre name suf : Bytes) : Tok → Bool
  | .comment text =>
    pre.length + suf.length ≤ text.length && text.take pre.length == pre &&
    text.drop (text.length - suf.length) == suf &&
    commentDecode ((text.drop pre.length).take (text.length - pre.length - suf.length)) == some name
  | _ => false

abbrev Toks := List Tok

/-- consume one token satisfying `p` -/
def one (p : Tok → Bool) : Toks → Option Toks
  | t :: rest => if p t then some rest else none
  | [] => none

def isWord (w : String) : Tok → Bool
  | .word x => x == SqlLex.asc w
  | _ => false
def isOp (c : UInt8) : Tok → Bool
  | .op x => x == [c]
  | _ => false

/-- consume the bare words `ws` in order -/
def words : List String → Toks → Option Toks
  | [], ts => some ts
  | w :: ws, ts => (one (isWord w) ts).bind (words ws)

/-- a number: optional `-` operator, then a numeric literal with exactly this text -/
def signedNum (text : Bytes) (ts : Toks) : Option Toks :=
  match text with
  | 45 :: digits => (one (isOp 45) ts).bind (one fun t => t == .num digits)
  | _ => one (fun t => t == .num text) ts

def floatCell (nonFinite nan neg : Bool) (text : Bytes) (ts : Toks) : Option Toks :=
  if nonFinite then one (fun t => match t with | .str s => Json.nonFiniteSpelling nan neg s | _ => false) ts
  else signedNum text ts

/-- pg_type.dat (PostgreSQL 12–16), the array types in scope: (oid, typelem, typname).  Scope: the array types whose
values a dump holds as arrays, i.e. those pgread's type table names (`_line` … `_jsonpath`); for a column of any other
type — json[] (199), xml[] (143), … included — no array value arises and nothing more is demanded of an ARRAY constructor
than before.  `Proofs/SqlArrayTypes.lean` checks pgread's arrayElemTypes / TypeName against this table. -/
def pgArrayTypes : List (Int × Int × String) := [
  (629, 628, "_line"), (651, 650, "_cidr"), (719, 718, "_circle"), (775, 774, "_macaddr8"), (791, 790, "_money"),
  (1000, 16, "_bool"), (1001, 17, "_bytea"), (1002, 18, "_char"), (1003, 19, "_name"), (1005, 21, "_int2"),
  (1006, 22, "_int2vector"), (1007, 23, "_int4"), (1008, 24, "_regproc"), (1009, 25, "_text"), (1010, 27, "_tid"),
  (1011, 28, "_xid"), (1012, 29, "_cid"), (1014, 1042, "_bpchar"), (1015, 1043, "_varchar"), (1016, 20, "_int8"),
  (1017, 600, "_point"), (1018, 601, "_lseg"), (1019, 602, "_path"), (1020, 603, "_box"), (1021, 700, "_float4"),
  (1022, 701, "_float8"), (1027, 604, "_polygon"), (1028, 26, "_oid"), (1040, 829, "_macaddr"), (1041, 869, "_inet"),
  (1115, 1114, "_timestamp"), (1182, 1082, "_date"), (1183, 1083, "_time"), (1185, 1184, "_timestamptz"),
  (1187, 1186, "_interval"), (1231, 1700, "_numeric"), (1270, 1266, "_timetz"), (1561, 1560, "_bit"), (1563, 1562, "_varbit"),
  (2951, 2950, "_uuid"), (3221, 3220, "_pg_lsn"), (3643, 3614, "_tsvector"), (3645, 3615, "_tsquery"), (3807, 3802, "_jsonb"),
  (3905, 3904, "_int4range"), (3907, 3906, "_numrange"), (3909, 3908, "_tsrange"), (3911, 3910, "_tstzrange"),
  (3913, 3912, "_daterange"), (3927, 3926, "_int8range"), (4073, 4072, "_jsonpath")]

/-- (typelem, typname) of an array type in scope -/
def arrayType (ty : Int) : Option (Int × Bytes) := (pgArrayTypes.find? (·.1 == ty)).map fun e => (e.2.1, SqlLex.asc e.2.2)

/-- the type of the elements of an ARRAY constructor in a column of type `ty`: typelem, or 0 (unknown) -/
def elemType (ty : Int) : Int := match arrayType ty with | some (e, _) => e | none => 0

/-- after the `]` of an ARRAY constructor in a column of array type `ty`: `:` `:` and the type's name (one bare word; the
lexer reports `::` as two tokens); nothing is demanded when `ty` is not an array type -/
def castOf (ty : Int) (ts : Toks) : Option Toks :=
  match arrayType ty with
  | some (_, name) => ((one (isOp 58) ts).bind (one (isOp 58))).bind (one fun t => t == .word name)
  | none => some ts

/-- pg_type.dat: json = 114, jsonb = 3802 -/
def isJsonType (typID : Int) : Bool := typID == 114 || typID == 3802

/-- ONE string constant holding valid JSON with the value `v` -/
def jsonDoc (F : FloatFmt) (v : GoVal) (ts : Toks) : Option Toks :=
  one (fun t => match t with | .str s => Json.textAgrees F v s | _ => false) ts

/-- a PostgreSQL string is a C string: the bytes up to the first NUL -/
def cstr (s : Bytes) : Bytes := s.takeWhile (· != 0)

mutual
/-- the tokens of one value of type `ty` (a pg_type oid; 0 = unknown) -/
def value (F : FloatFmt) (ty : Int) : GoVal → Toks → Option Toks
  | .nil, ts => one (isWord "null") ts
  | .bool b, ts => if isJsonType ty then jsonDoc F (.bool b) ts else one (isWord (if b then "true" else "false")) ts
  | .int i, ts => if isJsonType ty then jsonDoc F (.int i) ts else signedNum (decInt i) ts
  | .f64 b, ts => if isJsonType ty then jsonDoc F (.f64 b) ts else
      floatCell (Json.isNonFinite64 b) (b % 2 ^ 52 != 0) (b / 2 ^ 63 % 2 == 1) (F.v64 b) ts
  | .f32 b, ts => if isJsonType ty then jsonDoc F (.f32 b) ts else
      floatCell (Json.isNonFinite32 b) (b % 2 ^ 23 != 0) (b / 2 ^ 31 % 2 == 1) (F.v32 b) ts
  | .str s, ts => if isJsonType ty then jsonDoc F (.str s) ts else one (fun t => t == .str (cstr s)) ts
  | .obj kvs, ts => jsonDoc F (.obj kvs) ts
  | .arr [], ts => if isJsonType ty then jsonDoc F (.arr []) ts else one (fun t => t == .str (SqlLex.asc "{}")) ts
  | .arr (x :: xs), ts => if isJsonType ty then jsonDoc F (.arr (x :: xs)) ts else
    ((((one (isWord "array") ts).bind (one (isOp 91))).bind (values F (elemType ty) (x :: xs))).bind (one (isOp 93))).bind (castOf ty)
/-- one or more values of type `ty` separated by commas -/
def values (F : FloatFmt) (ty : Int) : List GoVal → Toks → Option Toks
  | [], _ => none
  | [x], ts => value F ty x ts
  | x :: y :: rest, ts => ((value F ty x ts).bind (one (isOp 44))).bind (values F ty (y :: rest))
end

/-- a cell: NULL when the row has no value (or nil) for the column; otherwise a value of the column's type (in a json/jsonb
column ONE string constant holding valid JSON: a bare 'abc', 5, TRUE or ARRAY[…] is not a JSON document) -/
def cell (F : FloatFmt) (row : Row) (col : ColumnInfo) (ts : Toks) : Option Toks :=
  match row.get col.name with
  | none => one (isWord "null") ts
  | some v => value F col.typID v ts

/-- one or more `items` separated by commas (an empty list is not accepted: PostgreSQL's column lists, value lists and
VALUES lists all need at least one item) -/
def sepBy {α} (item : α → Toks → Option Toks) : List α → Toks → Option Toks
  | [], _ => none
  | [x], ts => item x ts
  | x :: y :: rest, ts => ((item x ts).bind (one (isOp 44))).bind (sepBy item (y :: rest))

def skipWords : Toks → Toks
  | .word _ :: r => skipWords r
  | ts => ts

/-- one or more bare words -/
def typeWords : Toks → Option Toks
  | .word _ :: rest => some (skipWords rest)
  | _ => none

def column (c : ColumnInfo) (ts : Toks) : Option Toks := (one (isName c.name) ts).bind typeWords

def rowToks (F : FloatFmt) (cols : List ColumnInfo) (r : Row) (ts : Toks) : Option Toks :=
  ((one (isOp 40) ts).bind (sepBy (cell F r) cols)).bind (one (isOp 41))

/-- zero or more `items` separated by commas (the column definitions of CREATE TABLE: `CREATE TABLE t ();` is accepted) -/
def sepBy0 {α} (item : α → Toks → Option Toks) (xs : List α) (ts : Toks) : Option Toks :=
  if xs.isEmpty then some ts else sepBy item xs ts

/-- INSERT INTO <name> DEFAULT VALUES ; -/
def defaultRow (name : Bytes) (ts : Toks) : Option Toks := do
  let ts ← words ["insert", "into"] ts
  let ts ← one (isName name) ts
  let ts ← words ["default", "values"] ts
  one (isOp 59) ts

def seqAll {α} (item : α → Toks → Option Toks) : List α → Toks → Option Toks
  | [], ts => some ts
  | x :: rest, ts => (item x ts).bind (seqAll item rest)

def table (F : FloatFmt) (t : TableDump) (ts : Toks) : Option Toks := do
  let ts ← one (isNameComment (SqlLex.asc " Table: ") t.name (SqlLex.asc " (" ++ decInt t.rowCount ++ SqlLex.asc " rows)")) ts
  let ts ← words ["create", "table", "if", "not", "exists"] ts
  let ts ← one (isName t.name) ts
  let ts ← one (isOp 40) ts
  let ts ← sepBy0 column t.columns ts
  let ts ← one (isOp 41) ts
  let ts ← one (isOp 59) ts
  if t.rows.isEmpty then some ts
  else if t.columns.isEmpty then seqAll (fun (_ : Row) => defaultRow t.name) t.rows ts
  else
    let ts ← words ["insert", "into"] ts
    let ts ← one (isName t.name) ts
    let ts ← one (isOp 40) ts
    let ts ← sepBy (fun (c : ColumnInfo) => one (isName c.name)) t.columns ts
    let ts ← one (isOp 41) ts
    let ts ← one (isWord "values") ts
    let ts ← sepBy (rowToks F t.columns) t.rows ts
    one (isOp 59) ts

def database (F : FloatFmt) (d : DatabaseDump) (ts : Toks) : Option Toks := do
  let ts ← one (isNameComment (SqlLex.asc " Database: ") d.name (SqlLex.asc " (OID: " ++ dec d.oid ++ SqlLex.asc ")")) ts
  let ts ← one (isNameComment (SqlLex.asc " \\connect ") d.name []) ts
  seqAll (table F) d.tables ts

def isGeneratedAt : Tok → Bool
  | .comment text => text.take 15 == SqlLex.asc " Generated at: "
  | _ => false

/-- the whole dump (DumpResult.ToSQL) -/
def checkDump (F : FloatFmt) (d : DumpResult) (ts : Toks) : Option Toks := do
  let ts ← one (fun t => t == .comment (SqlLex.asc " PostgreSQL dump generated by pgread")) ts
  let ts ← one isGeneratedAt ts
  seqAll (database F) d ts

/-- verdicts shared with the Go port: "ok", "bad:lex" (the text does not tokenise), "bad:tok" (a token is not the expected one) -/
def verdict (check : Toks → Option Toks) (text : Bytes) : String :=
  match lex text with
  | none => "bad:lex"
  | some ts => match check ts with
    | some [] => "ok"
    | _ => "bad:tok"

/-- C13 for the SQL export of a whole dump -/
def sqlSafe (F : FloatFmt) (d : DumpResult) (text : Bytes) : Bool := verdict (checkDump F d) text == "ok"

end PgVerif.Spec.SqlExport
