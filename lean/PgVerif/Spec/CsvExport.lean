/-
  Spec.CsvExport — what property C13 demands of the CSV text: a table's CSV reads back (Spec.Csv) as the header of column
  names followed by one record per row with the given field texts; a multi-table export is, per table in order, one header
  line `# Database: <db>, Table: <table>` (a single line, the names under the comment convention of Spec.SqlExport), the
  table's CSV, and one empty line.  Knows nothing about pgread; the expected field texts are an argument.
  Which text stands for a value is left to the tool, with one demand (`valuesKept`): only NULL (a missing key or nil) and
  the empty string may be read back as the empty field — no other value may silently disappear.
-/
import PgVerif.Spec.CsvParse
import PgVerif.Spec.SqlExport
namespace PgVerif.Spec.CsvExport
open PgVerif

abbrev Records := List (List Bytes)

def tableVerdict (expected : Records) (text : Bytes) : String :=
  match Csv.parse text with
  | none => "bad:csv"
  | some recs => if recs == expected then "ok" else "bad:records"

/-- no value is dropped: in the records read back (header first), a field may be empty only where the row has no value
for the column (missing key, or nil) or the value is the empty string -/
def valuesKept (t : Export.TableDump) (recs : Records) : Bool :=
  (t.rows.zip (recs.drop 1)).all fun (p : Export.Row × List Bytes) =>
    (t.columns.zip p.2).all fun (q : Export.ColumnInfo × Bytes) =>
      match p.1.get q.1.name with
      | none => true
      | some .nil => true
      | some (.str []) => true
      | some _ => !q.2.isEmpty

/-- every way of writing `bs` as `x ++ sep ++ y` -/
def splits (sep : Bytes) : Bytes → List (Bytes × Bytes)
  | [] => if sep.isEmpty then [([], [])] else []
  | c :: t =>
    (if SqlLex.isPrefix sep (c :: t) then [(([] : Bytes), (c :: t).drop sep.length)] else []) ++
    (splits sep t).map fun p => (c :: p.1, p.2)

/-- `line` (without its LF) is the section header of (db, table) -/
def headerOK (db table line : Bytes) : Bool :=
  let pre := SqlLex.asc "# Database: "
  !line.any (fun c => c == 10 || c == 13) && line.take pre.length == pre &&
  (splits (SqlLex.asc ", Table: ") (line.drop pre.length)).any fun p =>
    SqlExport.commentDecode p.1 == some db && SqlExport.commentDecode p.2 == some table

def takeLine : Bytes → Option (Bytes × Bytes)
  | [] => none
  | c :: t => if c = 10 then some ([], t) else (takeLine t).map fun r => (c :: r.1, r.2)

/-- the sections of a multi-table export, in order -/
def sectionsVerdict : List (Bytes × Bytes × Records) → Bytes → String
  | [], [] => "ok"
  | [], _ :: _ => "bad:trailing"
  | (db, tb, expected) :: rest, text =>
    match takeLine text with
    | none => "bad:header"
    | some (line, r) =>
      if !headerOK db tb line then "bad:header"
      else match Csv.takeRecords expected.length r with
        | none => "bad:csv"
        | some (recs, r2) =>
          if recs != expected then "bad:records"
          else match r2 with
            | 10 :: r3 => sectionsVerdict rest r3
            | _ => "bad:sep"

end PgVerif.Spec.CsvExport
