/-
  Spec side of index relation files (C18): PostgreSQL's page header and the per-access-method special
  space ("opaque" struct at the end of every index page) and metapage layouts (DESIGN.md section 3, rows
  "Page header" and "Index pages"), written as encoders from abstract values to bytes, plus the `view`
  a correct inspection tool must report.  Knows nothing about the Go code.
-/
import PgVerif.Basic.Bytes
namespace PgVerif.Spec.Index
open PgVerif

/-- the six index access methods of PostgreSQL 12–16 -/
inductive AM where
  | btree | hash | gist | gin | spgist | brin
deriving Repr, DecidableEq, Inhabited

def AM.all : List AM := [.btree, .hash, .gist, .gin, .spgist, .brin]

/-- `pg_am.amname` -/
def AM.name : AM → String
  | .btree => "btree" | .hash => "hash" | .gist => "gist" | .gin => "gin" | .spgist => "spgist" | .brin => "brin"

/-- the special space of one index page:
  * btree  `BTPageOpaqueData`   {btpo_prev, btpo_next, btpo_level u32; btpo_flags u16; btpo_cycleid u16}      16 bytes
  * hash   `HashPageOpaqueData` {hasho_prevblkno, hasho_nextblkno, hasho_bucket u32; hasho_flag u16; hasho_page_id = 0xFF80} 16
  * gist   `GISTPageOpaqueData` {nsn u64; rightlink u32; flags u16; gist_page_id = 0xFF81}                    16
  * gin    `GinPageOpaqueData`  {rightlink u32; maxoff u16; flags u16}                                         8
  * spgist `SpGistPageOpaqueData` {flags, nRedirection, nPlaceholder u16; spgist_page_id = 0xFF82}             8
  * brin   `BrinSpecialSpace`   {vector[4] u16: [2] = flags, [3] = page type 0xF091 meta / 0xF092 revmap / 0xF093 regular} 8 -/
inductive Opaque where
  | btree (prev next level flags cycle : Nat)
  | hash (prev next bucket flags : Nat)
  | gist (nsn right flags : Nat)
  | gin (right maxoff flags : Nat)
  | spgist (flags nred nph : Nat)
  | brin (v0 v1 flags ty : Nat)
deriving Repr, DecidableEq, Inhabited

def Opaque.am : Opaque → AM
  | .btree .. => .btree | .hash .. => .hash | .gist .. => .gist | .gin .. => .gin | .spgist .. => .spgist | .brin .. => .brin

/-- MAXALIGNed size of the method's special space -/
def AM.opaqueSize : AM → Nat
  | .btree => 16 | .hash => 16 | .gist => 16 | .gin => 8 | .spgist => 8 | .brin => 8

def Opaque.size (o : Opaque) : Nat := o.am.opaqueSize

def Opaque.flags : Opaque → Nat
  | .btree _ _ _ f _ => f | .hash _ _ _ f => f | .gist _ _ f => f | .gin _ _ f => f | .spgist f _ _ => f | .brin _ _ f _ => f

abbrev hashPageId : Nat := 0xFF80
abbrev gistPageId : Nat := 0xFF81
abbrev spgistPageId : Nat := 0xFF82
abbrev brinMeta : Nat := 0xF091
abbrev brinRevmap : Nat := 0xF092
abbrev brinRegular : Nat := 0xF093
/-- `MAX_BT_CYCLE_ID` -/
abbrev btMaxCycleId : Nat := 0xFF7F
/-- `BTREE_MAGIC` -/
abbrev btMagic : Nat := 0x053162

def encOpaque : Opaque → Bytes
  | .btree p n l f c => le 4 p ++ le 4 n ++ le 4 l ++ le 2 f ++ le 2 c
  | .hash p n b f => le 4 p ++ le 4 n ++ le 4 b ++ le 2 f ++ le 2 hashPageId
  | .gist nsn r f => le 8 nsn ++ le 4 r ++ le 2 f ++ le 2 gistPageId
  | .gin r m f => le 4 r ++ le 2 m ++ le 2 f
  | .spgist f a b => le 2 f ++ le 2 a ++ le 2 b ++ le 2 spgistPageId
  | .brin a b f t => le 2 a ++ le 2 b ++ le 2 f ++ le 2 t

/-- every field fits its width; the B-tree cycle id is at most MAX_BT_CYCLE_ID; the GIN flag word (which is
also the last word of the page, where the other methods keep their page id) uses only the eight defined bits;
a BRIN page is of one of the three page types.  All other flag words are unconstrained (all 2^16 values). -/
def Opaque.WF : Opaque → Prop
  | .btree p n l f c => p < 2 ^ 32 ∧ n < 2 ^ 32 ∧ l < 2 ^ 32 ∧ f < 2 ^ 16 ∧ c ≤ 0xFF7F
  | .hash p n b f => p < 2 ^ 32 ∧ n < 2 ^ 32 ∧ b < 2 ^ 32 ∧ f < 2 ^ 16
  | .gist nsn r f => nsn < 2 ^ 64 ∧ r < 2 ^ 32 ∧ f < 2 ^ 16
  | .gin r m f => r < 2 ^ 32 ∧ m < 2 ^ 16 ∧ f < 2 ^ 8
  | .spgist f a b => f < 2 ^ 16 ∧ a < 2 ^ 16 ∧ b < 2 ^ 16
  | .brin a b f t => a < 2 ^ 16 ∧ b < 2 ^ 16 ∧ f < 2 ^ 16 ∧ (t = 0xF091 ∨ t = 0xF092 ∨ t = 0xF093)

instance (o : Opaque) : Decidable o.WF := by cases o <;> unfold Opaque.WF <;> infer_instance

/-- one 8 KiB index page: the page header fields, the bytes between the header and the special space
(line pointers, free space, index tuples or metapage contents — opaque here), and the special space -/
structure Page where
  xlogid : Nat      -- pd_lsn.xlogid  (high half of the LSN)  @0
  xrecoff : Nat     -- pd_lsn.xrecoff (low half)              @4
  checksum : Nat    -- @8
  pdflags : Nat     -- @10
  lower : Nat       -- @12
  upper : Nat       -- @14
  psv : Nat         -- pd_pagesize_version @18
  prune : Nat       -- pd_prune_xid @20
  body : Bytes      -- bytes 24 .. pd_special
  op : Opaque
deriving Repr, Inhabited

/-- `pd_special` = 8192 − size of the method's special space -/
def Page.special (p : Page) : Nat := 8192 - p.op.size

def encPage (p : Page) : Bytes :=
  le 4 p.xlogid ++ le 4 p.xrecoff ++ le 2 p.checksum ++ le 2 p.pdflags ++ le 2 p.lower ++ le 2 p.upper ++
    le 2 p.special ++ le 2 p.psv ++ le 4 p.prune ++ p.body ++ encOpaque p.op

def Page.WF (p : Page) : Prop :=
  p.xlogid < 2 ^ 32 ∧ p.xrecoff < 2 ^ 32 ∧ p.checksum < 2 ^ 16 ∧ p.pdflags < 2 ^ 16 ∧ p.psv < 2 ^ 16 ∧ p.prune < 2 ^ 32 ∧
  24 ≤ p.lower ∧ p.lower ≤ p.upper ∧ p.upper ≤ p.special ∧ p.body.length = p.special - 24 ∧ p.op.WF

instance (p : Page) : Decidable p.WF := by unfold Page.WF; infer_instance

/-! ### metapage contents (at page offset 24 of block 0) -/

/-- `BTMetaPageData`, first six fields (24 bytes) -/
structure BtMeta where
  version : Nat
  root : Nat
  level : Nat
  fastroot : Nat
  fastlevel : Nat
deriving Repr, DecidableEq, Inhabited

/-- `HashMetaPageData` up to hashm_lowmask (36 bytes): magic@0, version@4, ntuples f64@8, ffactor u16@16,
bsize@18, bmsize@20, bmshift@22, maxbucket u32@24, highmask@28, lowmask@32 -/
structure HashMeta where
  magic : Nat
  version : Nat
  ntuples : Nat     -- IEEE bits of the double
  ffactor : Nat
  bsize : Nat
  bmsize : Nat
  bmshift : Nat
  maxbucket : Nat
  highmask : Nat
  lowmask : Nat
deriving Repr, DecidableEq, Inhabited

/-- `GinMetaPageData` (52 bytes): head@0, tail@4, tailFreeSize@8, nPendingPages@12, nPendingHeapTuples i64@16,
nTotalPages@24, nEntryPages@28, nDataPages@32, (alignment padding @36), nEntries i64@40, ginVersion i32@48 -/
structure GinMeta where
  head : Nat
  tail : Nat
  tailFree : Nat
  nPendingPages : Nat
  nPendingHeapTuples : Nat
  nTotalPages : Nat
  nEntryPages : Nat
  nDataPages : Nat
  pad : Nat
  nEntries : Nat
  version : Nat
deriving Repr, DecidableEq, Inhabited

inductive Meta where
  | btree (m : BtMeta)
  | hash (m : HashMeta)
  | gin (m : GinMeta)
deriving Repr, DecidableEq, Inhabited

def Meta.am : Meta → AM
  | .btree _ => .btree | .hash _ => .hash | .gin _ => .gin

def encMeta : Meta → Bytes
  | .btree m => le 4 btMagic ++ le 4 m.version ++ le 4 m.root ++ le 4 m.level ++ le 4 m.fastroot ++ le 4 m.fastlevel
  | .hash m => le 4 m.magic ++ le 4 m.version ++ le 8 m.ntuples ++ le 2 m.ffactor ++ le 2 m.bsize ++ le 2 m.bmsize ++
      le 2 m.bmshift ++ le 4 m.maxbucket ++ le 4 m.highmask ++ le 4 m.lowmask
  | .gin m => le 4 m.head ++ le 4 m.tail ++ le 4 m.tailFree ++ le 4 m.nPendingPages ++ le 8 m.nPendingHeapTuples ++
      le 4 m.nTotalPages ++ le 4 m.nEntryPages ++ le 4 m.nDataPages ++ le 4 m.pad ++ le 8 m.nEntries ++ le 4 m.version

/-- field ranges; the two int64 counters and the int32 version of the GIN metapage are non-negative -/
def Meta.WF : Meta → Prop
  | .btree m => m.version < 2 ^ 32 ∧ m.root < 2 ^ 32 ∧ m.level < 2 ^ 32 ∧ m.fastroot < 2 ^ 32 ∧ m.fastlevel < 2 ^ 32
  | .hash m => m.magic < 2 ^ 32 ∧ m.version < 2 ^ 32 ∧ m.ntuples < 2 ^ 64 ∧ m.ffactor < 2 ^ 16 ∧ m.bsize < 2 ^ 16 ∧
      m.bmsize < 2 ^ 16 ∧ m.bmshift < 2 ^ 16 ∧ m.maxbucket < 2 ^ 32 ∧ m.highmask < 2 ^ 32 ∧ m.lowmask < 2 ^ 32
  | .gin m => m.head < 2 ^ 32 ∧ m.tail < 2 ^ 32 ∧ m.tailFree < 2 ^ 32 ∧ m.nPendingPages < 2 ^ 32 ∧
      m.nPendingHeapTuples < 2 ^ 63 ∧ m.nTotalPages < 2 ^ 32 ∧ m.nEntryPages < 2 ^ 32 ∧ m.nDataPages < 2 ^ 32 ∧
      m.pad < 2 ^ 32 ∧ m.nEntries < 2 ^ 63 ∧ m.version < 2 ^ 31

instance (m : Meta) : Decidable m.WF := by cases m <;> unfold Meta.WF <;> infer_instance

/-- the bit of the method's flag word that marks the metapage, for the three methods whose metapage the
property covers (BTP_META, LH_META_PAGE, GIN_META are all bit 3) -/
def AM.metaBit : AM → Option Nat
  | .btree => some 3 | .hash => some 3 | .gin => some 3 | _ => none

/-- an index relation file (any segment of it): the access method, its pages, the contents of the metapage when
block 0 of this file is one, and a trailing partial block.  Block 0 may be any page of the method (the first
page of a second 1 GiB segment is an ordinary page). -/
structure File where
  am : AM
  pages : List Page
  metaPage : Option Meta
  tail : Bytes
deriving Repr, Inhabited

def encFile (f : File) : Bytes := f.pages.flatMap encPage ++ f.tail

/-- block 0's flag word has the metapage bit iff the file carries metapage contents, and then those contents
are the first bytes after the page header -/
def File.metaOK (f : File) : Prop :=
  match f.pages.head?, f.metaPage with
  | none, _ => False
  | some p0, none => ∀ b, f.am.metaBit = some b → p0.op.flags.testBit b = false
  | some p0, some m => m.am = f.am ∧ m.WF ∧ f.am.metaBit = some 3 ∧ p0.op.flags.testBit 3 = true ∧ encMeta m <+: p0.body

instance (f : File) : Decidable f.metaOK := by
  unfold File.metaOK
  cases f.pages.head? <;> cases f.metaPage <;> simp only <;> infer_instance

def File.WF (f : File) : Prop :=
  (∀ p ∈ f.pages, p.WF ∧ p.op.am = f.am) ∧ f.metaOK ∧ f.tail.length < 8192 ∧ f.pages.length < 2 ^ 32

instance (f : File) : Decidable f.WF := by unfold File.WF; infer_instance

/-- The Spec's decision procedure: which access method a page belongs to, judged from `pd_special`, the last 16 bytes of
the page and the first word after the page header — the only inputs that can tell the methods apart.
16-byte special space: the last word is the hash / GiST page id, or a B-tree cycle id (≤ MAX_BT_CYCLE_ID; a page flagged
BTP_META must carry BTREE_MAGIC).  8-byte special space: the last word is the SP-GiST page id, a BRIN page type, or
the GIN flag word (eight defined bits).  Anything else is no index page of PostgreSQL. -/
def classify (special : Nat) (last16 : Bytes) (word24 : Nat) : Option AM :=
  if special = 8176 then
    if rd 2 (last16.drop 14) = hashPageId then some .hash
    else if rd 2 (last16.drop 14) = gistPageId then some .gist
    else if rd 2 (last16.drop 14) ≤ btMaxCycleId ∧ ((rd 2 (last16.drop 12)).testBit 3 = true → word24 = btMagic) then some .btree
    else none
  else if special = 8184 then
    if rd 2 (last16.drop 14) = spgistPageId then some .spgist
    else if rd 2 (last16.drop 14) = brinMeta ∨ rd 2 (last16.drop 14) = brinRevmap ∨ rd 2 (last16.drop 14) = brinRegular then some .brin
    else if rd 2 (last16.drop 14) < 256 then some .gin
    else none
  else none

/-! ### what a correct tool reports -/

def hexDigitU (n : Nat) : Char := if n < 10 then Char.ofNat (48 + n) else Char.ofNat (55 + n)

/-- upper-case hexadecimal without padding (C `%X`), most significant digit first -/
def hexUFuel : Nat → Nat → List Char → List Char
  | 0, _, acc => acc
  | fuel+1, n, acc => if n < 16 then hexDigitU n :: acc else hexUFuel fuel (n / 16) (hexDigitU (n % 16) :: acc)

def hexU (n : Nat) : String := String.ofList (hexUFuel 64 n [])

/-- PostgreSQL's text form of an LSN: `%X/%X` of the high and low 32 bits -/
def lsnText (lsn : Nat) : String := hexU (lsn / 2 ^ 32) ++ "/" ++ hexU (lsn % 2 ^ 32)

/-- PostgreSQL's names of the flag bits (bit number, macro name) -/
def pgFlagNames : AM → List (Nat × String)
  | .btree => [(0, "BTP_LEAF"), (1, "BTP_ROOT"), (2, "BTP_DELETED"), (3, "BTP_META"), (4, "BTP_HALF_DEAD"),
               (5, "BTP_SPLIT_END"), (6, "BTP_HAS_GARBAGE"), (7, "BTP_INCOMPLETE_SPLIT"), (8, "BTP_HAS_FULLXID")]
  | .hash => [(0, "LH_OVERFLOW_PAGE"), (1, "LH_BUCKET_PAGE"), (2, "LH_BITMAP_PAGE"), (3, "LH_META_PAGE"),
              (4, "LH_BUCKET_BEING_POPULATED"), (5, "LH_BUCKET_BEING_SPLIT"), (6, "LH_BUCKET_NEEDS_SPLIT_CLEANUP"),
              (7, "LH_PAGE_HAS_DEAD_TUPLES")]
  | .gist => [(0, "F_LEAF"), (1, "F_DELETED"), (2, "F_TUPLES_DELETED"), (3, "F_FOLLOW_RIGHT"), (4, "F_HAS_GARBAGE")]
  | .gin => [(0, "GIN_DATA"), (1, "GIN_LEAF"), (2, "GIN_DELETED"), (3, "GIN_META"), (4, "GIN_LIST"),
             (5, "GIN_LIST_FULLROW"), (6, "GIN_INCOMPLETE_SPLIT"), (7, "GIN_COMPRESSED")]
  | .spgist => [(0, "SPGIST_META"), (1, "SPGIST_DELETED"), (2, "SPGIST_LEAF"), (3, "SPGIST_NULLS")]
  | .brin => [(0, "BRIN_EVACUATE_PAGE")]

def dropPrefixTo (c : Char) : List Char → List Char
  | [] => []
  | x :: xs => if x == c then xs else dropPrefixTo c xs

def dropSuffix (suf s : List Char) : List Char :=
  if suf.isSuffixOf s then s.take (s.length - suf.length) else s

/-- the name without the per-method macro prefix (`BTP_`, `LH_`, `F_`, `GIN_`, `SPGIST_`, `BRIN_`) — the form an
inspection tool prints under a per-method heading.  For the hash method the trailing `_PAGE` of the four page-type
macros (LH_OVERFLOW_PAGE, LH_BUCKET_PAGE, LH_BITMAP_PAGE, LH_META_PAGE) is dropped as well (pageinspect's
`hash_page_type` prints them as overflow / bucket / bitmap / metapage); no other name is touched
(LH_PAGE_HAS_DEAD_TUPLES → PAGE_HAS_DEAD_TUPLES, BRIN_EVACUATE_PAGE → EVACUATE_PAGE). -/
def shortName (am : AM) (s : String) : String :=
  let noPrefix := dropPrefixTo '_' s.toList
  String.ofList (if am == .hash then dropSuffix "_PAGE".toList noPrefix else noPrefix)

def shortFlagName (am : AM) (bit : Nat) : Option String := ((pgFlagNames am).lookup bit).map (shortName am)

structure PageView where
  number : Nat
  am : AM
  flags : Nat
  isMeta : Bool
  isLeaf : Bool
  isRoot : Bool
  isDeleted : Bool
  level : Nat
  prev : Nat
  next : Nat
  right : Nat
  itemCount : Nat
  freeSpace : Nat
  lsn : Nat
  lsnStr : String
deriving Repr, DecidableEq

/-- number of line pointers of a page: `PageGetMaxOffsetNumber` = (pd_lower − SizeOfPageHeaderData) / sizeof(ItemIdData) -/
def linePointers (p : Page) : Nat := (p.lower - 24) / 4

/-- The number of items a page holds, from PostgreSQL's side:
  * pages with a line pointer array (B-tree, hash bucket/overflow/unused, GiST, SP-GiST non-meta, BRIN regular pages, GIN
    entry-tree and pending-list pages — GIN pages without GIN_DATA): the number of line pointers;
  * pages WITHOUT one hold no items: every metapage (`pd_lower` only marks the end of the metadata: `_bt_initmetapage`
    sets it to 24 + sizeof(BTMetaPageData) = 72, which is not 12 items), hash bitmap pages (LH_BITMAP_PAGE: a bitmap),
    BRIN range-map pages (an array of TIDs);
  * GIN posting-tree pages (GIN_DATA): `maxoff` ("number of PostingItems on GIN_DATA & ~GIN_LEAF page", ginblock.h; the
    number of item pointers on an uncompressed leaf).  On a compressed leaf (GIN_COMPRESSED — a flag only data leaf
    pages carry) PostgreSQL does not maintain any count; the stored `maxoff` field is reported as stored. -/
def itemCountOf (p : Page) : Nat :=
  match p.op with
  | .btree _ _ _ f _ => if f.testBit 3 then 0 else linePointers p
  | .hash _ _ _ f => if f.testBit 3 || f.testBit 2 then 0 else linePointers p
  | .gist .. => linePointers p
  | .gin _ m f => if f.testBit 3 then 0 else if f.testBit 0 || f.testBit 7 then m else linePointers p
  | .spgist f _ _ => if f.testBit 0 then 0 else linePointers p
  | .brin _ _ _ t => if t == brinMeta || t == brinRevmap then 0 else linePointers p

/-- the page-level report.  Conventions of the tool's record that the Spec adopts (they lose no stored field
the property names): hash pages report the bucket number in `level` when the page is a bucket page; methods without
sibling links / levels report 0 there.  The item count is `itemCountOf`. -/
def pageView (num : Nat) (p : Page) : PageView :=
  let lsn := p.xlogid * 2 ^ 32 + p.xrecoff
  let base : PageView :=
    { number := num, am := p.op.am, flags := p.op.flags, isMeta := false, isLeaf := false, isRoot := false, isDeleted := false,
      level := 0, prev := 0, next := 0, right := 0, itemCount := itemCountOf p, freeSpace := p.upper - p.lower,
      lsn := lsn, lsnStr := lsnText lsn }
  match p.op with
  | .btree pr nx lv f _ =>
    { base with prev := pr, next := nx, level := lv, isLeaf := f.testBit 0, isRoot := f.testBit 1, isDeleted := f.testBit 2, isMeta := f.testBit 3 }
  | .hash pr nx b f => { base with prev := pr, next := nx, level := if f.testBit 1 then b else 0, isMeta := f.testBit 3 }
  | .gist _ r f => { base with right := r, isLeaf := f.testBit 0, isDeleted := f.testBit 1 }
  | .gin r _ f => { base with right := r, isLeaf := f.testBit 1, isDeleted := f.testBit 2, isMeta := f.testBit 3 }
  | .spgist f _ _ => { base with isMeta := f.testBit 0, isDeleted := f.testBit 1, isLeaf := f.testBit 2 }
  | .brin _ _ _ t => { base with isMeta := t == brinMeta }

/-- the names that must be printed for a flag word: the name of EVERY set bit that PostgreSQL defines for the method
(`pgFlagNames`), listed here in bit order (the order is not part of the property) -/
def flagNamesView (am : AM) (flags : Nat) : List String :=
  (pgFlagNames am).filterMap fun (b, n) => if flags.testBit b then some (shortName am n) else none

inductive MetaView where
  | btree (magic version root level fastroot fastlevel : Nat)
  | hash (magic version numBuckets maxbucket highmask lowmask ffactor ntuples : Nat)
  | gin (version head tail tailFree nPendingPages nPendingHeapTuples nTotalPages nEntryPages nDataPages nEntries : Nat)
deriving Repr, DecidableEq

def metaView : Meta → MetaView
  | .btree m => .btree btMagic m.version m.root m.level m.fastroot m.fastlevel
  | .hash m => .hash m.magic m.version ((m.maxbucket + 1) % 2 ^ 32) m.maxbucket m.highmask m.lowmask m.ffactor m.ntuples
  | .gin m => .gin m.version m.head m.tail m.tailFree m.nPendingPages m.nPendingHeapTuples m.nTotalPages m.nEntryPages m.nDataPages m.nEntries

structure FileView where
  am : AM
  totalPages : Nat
  metaPage : Option MetaView
  rootPage : Nat
  levels : Nat
  pages : List PageView
deriving Repr, DecidableEq

def pagesViewFrom (n : Nat) : List Page → List PageView
  | [] => []
  | p :: ps => pageView n p :: pagesViewFrom (n + 1) ps

def fileView (f : File) : FileView :=
  { am := f.am, totalPages := f.pages.length, metaPage := f.metaPage.map metaView,
    rootPage := match f.metaPage with | some (.btree m) => m.root | _ => 0,
    levels := match f.metaPage with | some (.btree m) => m.level | _ => 0,
    pages := pagesViewFrom 0 f.pages }

end PgVerif.Spec.Index
