/-
  PostgreSQL's on-disk array format (DESIGN.md section 3, row "Array"), as an encoder from abstract arrays.
  Knows nothing about the Go code.

  After the varlena header (which the reader has already stripped; a 1-byte header is logically expanded to 4):
    ndim i32 @0, dataoffset i32 @4 (0 = no null bitmap, otherwise the offset of the element data from the START OF
    THE VARLENA, i.e. including its 4-byte header), elemtype u32 @8, dims[ndim] i32, lbounds[ndim] i32,
    [null bitmap: (n+7)/8 bytes, bit set = element present, LSB first; zero padding to MAXALIGN],
    elements in row-major order; NULL elements occupy nothing; every stored element starts at a multiple of the
    element type's typalign counted from the varlena start; a fixed-width element occupies typlen bytes, a varlena
    element carries its own 1-byte or 4-byte header; after every element (the last one included) zero padding up to
    the next multiple of typalign (arrayfuncs.c: ArrayCastAndSet / CopyArrayEls).
  The empty array has ndim = 0, dataoffset = 0 and nothing after elemtype.

  `pgArrayTypes` is the Spec's own copy of pg_type (typlen, typalign, element type) for the array types of pgread's
  array table, written from PostgreSQL's pg_type.dat, not from the Go code.
-/
import PgVerif.Basic.Canon
namespace PgVerif.Spec.Arrays
open PgVerif

/-- one array type of pg_type: `arrayOid` = oid of the array type, `typOid` = pg_type oid of its element type,
`decodeAs` = the scalar type whose binary representation the element has (= `typOid`, except that a `regproc` is
stored as the `oid` of the function), `typlen` (> 0 fixed width, -1 varlena), `typalign` in bytes (c 1, s 2, i 4, d 8) -/
structure ElemType where
  arrayOid : Nat
  typOid : Nat
  decodeAs : Nat
  typlen : Int
  typalign : Nat
  name : String
deriving Repr, DecidableEq, Inhabited

def et (arrayOid typOid : Nat) (typlen : Int) (typalign : Nat) (name : String) : ElemType :=
  ⟨arrayOid, typOid, typOid, typlen, typalign, name⟩

/-- pg_type.dat (PostgreSQL 12–16), the array types pgread claims to support -/
def pgArrayTypes : List ElemType := [
  et 1000 16 1 1 "bool", et 1001 17 (-1) 4 "bytea", et 1002 18 1 1 "char", et 1003 19 64 1 "name",
  et 1005 21 2 2 "int2", et 1006 22 (-1) 4 "int2vector", et 1007 23 4 4 "int4",
  ⟨1008, 24, 26, 4, 4, "regproc"⟩,
  et 1009 25 (-1) 4 "text", et 1010 27 6 2 "tid", et 1011 28 4 4 "xid", et 1012 29 4 4 "cid",
  et 1014 1042 (-1) 4 "bpchar", et 1015 1043 (-1) 4 "varchar", et 1016 20 8 8 "int8",
  et 1017 600 16 8 "point", et 1018 601 32 8 "lseg", et 1019 602 (-1) 8 "path", et 1020 603 32 8 "box",
  et 1021 700 4 4 "float4", et 1022 701 8 8 "float8", et 1027 604 (-1) 8 "polygon",
  et 1028 26 4 4 "oid", et 1040 829 6 4 "macaddr", et 1041 869 (-1) 4 "inet",
  et 1115 1114 8 8 "timestamp", et 1182 1082 4 4 "date", et 1183 1083 8 8 "time",
  et 1185 1184 8 8 "timestamptz", et 1187 1186 16 8 "interval", et 1231 1700 (-1) 4 "numeric",
  et 1270 1266 12 8 "timetz", et 1561 1560 (-1) 4 "bit", et 1563 1562 (-1) 4 "varbit",
  et 2951 2950 16 1 "uuid", et 3221 3220 8 8 "pg_lsn", et 3643 3614 (-1) 4 "tsvector", et 3645 3615 (-1) 4 "tsquery",
  et 3807 3802 (-1) 4 "jsonb", et 4073 4072 (-1) 4 "jsonpath",
  et 629 628 24 8 "line", et 651 650 (-1) 4 "cidr", et 719 718 24 8 "circle", et 775 774 8 4 "macaddr8",
  et 791 790 8 8 "money",
  et 3905 3904 (-1) 4 "int4range", et 3907 3906 (-1) 4 "numrange", et 3909 3908 (-1) 8 "tsrange",
  et 3911 3910 (-1) 8 "tstzrange", et 3913 3912 (-1) 4 "daterange", et 3927 3926 (-1) 8 "int8range"]

/-- a stored (non-NULL) element -/
inductive Datum where
  | fixed (bs : Bytes)   -- a fixed-width element: exactly typlen bytes
  | short (p : Bytes)    -- varlena with 1-byte header (total length ≤ 127)
  | long (p : Bytes)     -- varlena with 4-byte header, uncompressed
deriving Repr, DecidableEq, Inhabited

/-- the bytes the scalar decoder must be given -/
def Datum.payload : Datum → Bytes
  | .fixed bs => bs
  | .short p => p
  | .long p => p

/-- the element as stored: header (if any) and payload -/
def Datum.enc : Datum → Bytes
  | .fixed bs => bs
  | .short p => UInt8.ofNat ((p.length + 1) * 2 + 1) :: p
  | .long p => le 4 ((p.length + 4) * 4) ++ p

def Datum.WF (t : ElemType) : Datum → Prop
  | .fixed bs => t.typlen > 0 ∧ (bs.length : Int) = t.typlen
  | .short p => t.typlen = -1 ∧ p.length ≤ 126
  | .long p => t.typlen = -1 ∧ p.length + 4 < 2 ^ 30

instance (t : ElemType) (d : Datum) : Decidable (d.WF t) := by
  cases d <;> unfold Datum.WF <;> exact inferInstance

structure PgArray where
  et : ElemType
  dims : List Nat
  lbounds : List Int
  elems : List (Option Datum)
  /-- a null bitmap is stored although no element is NULL (PostgreSQL keeps the bitmap of an array that had NULLs
  when an element is replaced); irrelevant when some element is NULL: the bitmap is then always there -/
  bitmap : Bool := false
deriving Repr, Inhabited

def alignUp (o a : Nat) : Nat := (o + a - 1) / a * a

/-- ArrayGetNItems: the number of elements is the product of the dimensions (1 for no dimensions, but then the
array is the empty one and stores nothing) -/
def prod : List Nat → Nat
  | [] => 1
  | d :: ds => d * prod ds

/-- MaxArraySize = MaxAllocSize / sizeof(Datum) -/
def maxArraySize : Nat := 134217727

def PgArray.WF (a : PgArray) : Prop :=
  a.et ∈ pgArrayTypes ∧
  a.dims.length ≤ 6 ∧ a.lbounds.length = a.dims.length ∧
  (∀ d ∈ a.dims, 1 ≤ d) ∧
  (∀ l ∈ a.lbounds, -2147483648 ≤ l ∧ l ≤ 2147483647) ∧
  (if a.dims = [] then a.elems = [] ∧ a.bitmap = false else a.elems.length = prod a.dims) ∧
  a.elems.length ≤ maxArraySize ∧
  (∀ e ∈ a.elems, ∀ d, e = some d → d.WF a.et)

instance (a : PgArray) : Decidable a.WF := by unfold PgArray.WF; exact inferInstance

/-! ### the null bitmap (bit set = present, LSB first, unused bits of the last byte 0) -/

/-- the byte with bits x0 (LSB) … x7 -/
def bits8 (x0 x1 x2 x3 x4 x5 x6 x7 : Bool) : Nat :=
  x0.toNat + 2 * x1.toNat + 4 * x2.toNat + 8 * x3.toNat + 16 * x4.toNat + 32 * x5.toNat + 64 * x6.toNat + 128 * x7.toNat

def bitmapByte (bits : List Bool) (j : Nat) : Nat :=
  let x (b : Nat) := bits.getD (8 * j + b) false
  bits8 (x 0) (x 1) (x 2) (x 3) (x 4) (x 5) (x 6) (x 7)

def encBitmap (bits : List Bool) : Bytes :=
  (List.range ((bits.length + 7) / 8)).map fun j => UInt8.ofNat (bitmapByte bits j)

/-! ### the encoder -/

def PgArray.ndim (a : PgArray) : Nat := a.dims.length
def PgArray.present (a : PgArray) : List Bool := a.elems.map Option.isSome
/-- ARR_HASNULL: the value carries a null bitmap -/
def PgArray.hasNulls (a : PgArray) : Bool := a.bitmap || a.elems.any Option.isNone

/-- ARR_OVERHEAD_NONULLS / ARR_OVERHEAD_WITHNULLS: where the element data starts, counted from the varlena start -/
def PgArray.dataStart (a : PgArray) : Nat :=
  if a.hasNulls then alignUp (16 + 8 * a.ndim + (a.elems.length + 7) / 8) 8 else 16 + 8 * a.ndim

/-- the dataoffset field -/
def PgArray.dataoffset (a : PgArray) : Nat := if a.hasNulls then a.dataStart else 0

/-- the elements from varlena-relative position `o` on (`o` is a multiple of `al`): NULLs store nothing, every
stored element is followed by zero padding up to the next multiple of the alignment -/
def encElems (al : Nat) : List (Option Datum) → Nat → Bytes
  | [], _ => []
  | none :: es, o => encElems al es o
  | some d :: es, o =>
    d.enc ++ (zeros (alignUp (o + d.enc.length) al - (o + d.enc.length)) ++ encElems al es (alignUp (o + d.enc.length) al))

/-- null bitmap and the padding to MAXALIGN before the data (nothing when there is no bitmap) -/
def PgArray.bitmapPart (a : PgArray) : Bytes :=
  if a.hasNulls then
    encBitmap a.present ++ zeros (a.dataStart - (16 + 8 * a.ndim + (a.elems.length + 7) / 8))
  else []

def encDims (ds : List Nat) : Bytes := ds.flatMap (le 4)
def encLbounds (ls : List Int) : Bytes := ls.flatMap fun l => le 4 (ofSigned 32 l)

/-- the array value after its varlena header — what `DecodeType` is given -/
def encArray (a : PgArray) : Bytes :=
  le 4 a.ndim ++ (le 4 a.dataoffset ++ (le 4 a.et.typOid ++
    (encDims a.dims ++ (encLbounds a.lbounds ++ (a.bitmapPart ++ encElems a.et.typalign a.elems a.dataStart)))))

/-! ### what a correct tool must report -/

/-- the value of a variable-length element whose payload is empty.  Among the element types of the table only the
character strings (text 25, varchar 1043, bpchar 1042: `''`) and bytea (17: `\\x`) have a value whose stored payload is
empty — every other varlena type (numeric, inet, bit, jsonb, ranges, path, …) stores at least a header word.  Written from
the types of `pgArrayTypes`, not from the code (which has the same rule also for xml, a type without an array type here). -/
def emptyValue (oid : Nat) : Option GoVal :=
  if oid = 25 ∨ oid = 1043 ∨ oid = 1042 then some (.str [])
  else if oid = 17 then some (.str [92, 120])
  else none

/-- one stored element: the scalar decoding of its bytes (an empty string is a value, not NULL) -/
def elemView (dec : Bytes → Nat → M GoVal) (oid : Nat) : Datum → M GoVal
  | .fixed bs => dec bs oid
  | .short p => if p.length = 0 then (match emptyValue oid with | some v => pure v | none => dec p oid) else dec p oid
  | .long p => if p.length = 0 then (match emptyValue oid with | some v => pure v | none => dec p oid) else dec p oid

/-- the same for a scalar decoder that never faults -/
def elemValue (f : Bytes → Nat → GoVal) (oid : Nat) : Datum → GoVal
  | .fixed bs => f bs oid
  | .short p => if p.length = 0 then (emptyValue oid).getD (f p oid) else f p oid
  | .long p => if p.length = 0 then (emptyValue oid).getD (f p oid) else f p oid

/-- the elements in storage (row-major) order: nil for a NULL, the scalar decoding of its bytes otherwise
(a fault of the scalar decoder aborts the array) -/
def viewElems (dec : Bytes → Nat → M GoVal) (oid : Nat) : List (Option Datum) → M (List GoVal)
  | [] => pure []
  | none :: es => do
    let r ← viewElems dec oid es
    pure (GoVal.nil :: r)
  | some d :: es => do
    let v ← elemView dec oid d
    let r ← viewElems dec oid es
    pure (v :: r)

def view (dec : Bytes → Nat → M GoVal) (a : PgArray) : M GoVal := do
  let es ← viewElems dec a.et.decodeAs a.elems
  pure (.arr es)

end PgVerif.Spec.Arrays
