/-
  Spec side of the page checksum (C19; REVIEW.md B2): PostgreSQL's `pg_checksum_page`
  (src/include/storage/checksum_impl.h), as far as it is established in this sandbox.

  ESTABLISHED (structure of the algorithm, from checksum_impl.h):
    * the page is read as 2048 little-endian 32-bit words, laid out as 64 rows of N_SUMS = 32 columns
      (`uint32 data[BLCKSZ / (sizeof(uint32) * N_SUMS)][N_SUMS]`): word number r·32 + j is column j of row r;
    * 32 partial sums, sum j initialised with `checksumBaseOffsets[j]`;
    * for every row, every sum j is mixed with the row's word j by
        `CHECKSUM_COMP(checksum, value): tmp = checksum ^ value; checksum = tmp * FNV_PRIME ^ (tmp >> 17)`
      with FNV_PRIME = 16777619 and uint32 arithmetic (the product wraps);
    * two more rounds with the value 0 for every sum; the result of the block function is the xor of the 32 sums;
    * `pg_checksum_page(page, blkno)`: the block function over the page with `pd_checksum` (bytes 8..9) set to 0,
      xor `blkno`, then `(checksum % 65535) + 1` — so the result is never 0.

  The 32 constants of `checksumBaseOffsets[]` are the definition `checksumBaseOffsets` below.  No PostgreSQL source is
  available in this sandbox: the table is WRITTEN FROM MEMORY of checksum_impl.h (it is the table quoted in REVIEW2.md
  item 7).  Cross-check available here: with this table the empty heap page (`PageInit`: pd_lower 24, pd_upper =
  pd_special 8192, pd_pagesize_version 0x2004, everything else zero) has `pg_checksum_page` 0x6560 / 0x655F / 0x655D as
  block 0 / 1 / 7 — the three values two independent reviews computed (REVIEW.md, REVIEW2.md item 7); checked by the
  `example`s at the end of Proofs/PgChecksum.lean.

  Knows nothing about the Go code.  Core only.
-/
import PgVerif.Basic.Bytes
namespace PgVerif.Spec.PgChecksum
open PgVerif

/-- `FNV_PRIME` -/
def fnvPrime : Nat := 16777619

/-- `N_SUMS` -/
def nSums : Nat := 32

/-- uint32 -/
def u32 (v : Nat) : Nat := v % 2 ^ 32

/-- `CHECKSUM_COMP`: `tmp = checksum ^ value; checksum = tmp * FNV_PRIME ^ (tmp >> 17)` on uint32 -/
def comp (checksum value : Nat) : Nat :=
  let tmp := checksum ^^^ value
  u32 (tmp * fnvPrime) ^^^ (tmp >>> 17)

/-- the little-endian 32-bit words of a byte string (whole words only) -/
def words : Bytes → List Nat
  | a :: b :: c :: d :: rest => (a.toNat + 256 * b.toNat + 65536 * c.toNat + 16777216 * d.toNat) :: words rest
  | _ => []

/-- `checksumBaseOffsets[N_SUMS]` of checksum_impl.h (written from memory of that file, see the header comment) -/
def checksumBaseOffsets : List Nat :=
  [0x5B1F36E9, 0xB8525960, 0x02AB50AA, 0x1DE66D2A, 0x79FF467A, 0x9BB9F8A3, 0x217E7CD2, 0x83E13D2C,
   0xF8D4474F, 0xE39EB970, 0x42C6AE16, 0x993216FA, 0x7B093B5D, 0x98DAFF3C, 0xF718902A, 0x0B1C9CDB,
   0xE58F764B, 0x187636BC, 0x5D7B3BB1, 0xE73DE7DE, 0x92BEC979, 0xCCA6C0B2, 0x304A0979, 0x85AA43D4,
   0x783125BB, 0x6CA8EAA2, 0xE407EAC6, 0x4B5CFC3E, 0x9FBF8C76, 0x15CA20BE, 0xF2CA9FD3, 0x959BD756]

/-- one round: sum j is mixed with value j (`row` shorter than the sums: the remaining sums are dropped — never the
case below: rows have exactly 32 words) -/
def round (sums row : List Nat) : List Nat := List.zipWith comp sums row

/-- the rows of 32 words (fuel = number of words) -/
def rowsFuel : Nat → List Nat → List (List Nat)
  | 0, _ => []
  | fuel + 1, ws => if ws.length < nSums then [] else ws.take nSums :: rowsFuel fuel (ws.drop nSums)

def rows (ws : List Nat) : List (List Nat) := rowsFuel ws.length ws

def zeroRow : List Nat := List.replicate nSums 0

/-- `pg_checksum_block` over the given bytes -/
def pgChecksumBlock (page : Bytes) : Nat :=
  let sums := (rows (words page)).foldl round checksumBaseOffsets
  let sums := round (round sums zeroRow) zeroRow
  sums.foldl (· ^^^ ·) 0

/-- the page with `pd_checksum` set to zero ("save pd_checksum and temporarily set it to zero") -/
def clearChecksumField (page : Bytes) : Bytes := page.take 8 ++ [0, 0] ++ page.drop 10

/-- `pg_checksum_page(page, blkno)` -/
def pgChecksumPage (page : Bytes) (blkno : Nat) : Nat :=
  (pgChecksumBlock (clearChecksumField page) ^^^ blkno) % 65535 + 1

/-- `pd_upper` (bytes 14..15) -/
def pdUpper (page : Bytes) : Nat := rd 2 (page.drop 14)

/-- `pd_checksum` (bytes 8..9) -/
def pdChecksum (page : Bytes) : Nat := rd 2 (page.drop 8)

def allZero (page : Bytes) : Bool := page.all (· == 0)

/-- The verdict PostgreSQL gives a block of a relation file when data checksums are on (bufpage.c
`PageIsVerifiedExtended`, pg_checksums.c `scan_file`): an all-zero block is fine; a block that is not new
(`pd_upper ≠ 0`) is valid exactly when its stored `pd_checksum` equals `pg_checksum_page(block, blkno)`.
(A block with `pd_upper = 0` that is not all zeros is skipped by pg_checksums and rejected as an invalid page by the
buffer manager: the Spec gives no verdict for it — `none`.) -/
def pageVerdict (page : Bytes) (blkno : Nat) : Option Bool :=
  if allZero page then some true
  else if pdUpper page = 0 then none
  else some (pdChecksum page == pgChecksumPage page blkno)

end PgVerif.Spec.PgChecksum
