/-
  Spec side of the page checksum (C19; REVIEW.md B2): PostgreSQL's `pg_checksum_page`
  (src/include/storage/checksum_impl.h), as far as it is established in this sandbox.

  ESTABLISHED (structure of the algorithm, from checksum_impl.h):
    * the page is read as 2048 little-endian 32-bit words, laid out as 64 rows of N_SUMS = 32 columns
      (`uint32 data[BLCKSZ / (sizeof(uint32) * N_SUMS)][N_SUMS]`): word number r·32 + j is column j of row r;
    * 32 partial sums, sum j initialised with `checksumBaseOffsets[j]`;
    * for every row, every sum j is mixed with the row's word j by
        `CHECKSUM_COMP(checksum, value): tmp = checksum ^ value; checksum = tmp * FNV_PRIME ^ (tmp >> 17)`
      with FNV_PRIME = 16777619 and uint32 arithmetic (the product wraps);
    * two more rounds with the value 0 for every sum; the result of the block function is the xor of the 32 sums;
    * `pg_checksum_page(page, blkno)`: the block function over the page with `pd_checksum` (bytes 8..9) set to 0,
      xor `blkno`, then `(checksum % 65535) + 1` — so the result is never 0.

  NOT ESTABLISHED: the 32 constants of `checksumBaseOffsets[]`.  They are not available anywhere in this sandbox
  (no PostgreSQL source or server headers; searched /usr/include, /usr/share, the Go module cache, /repo), and they are
  not invented here: the table is a PARAMETER `offs` of every definition below.  Everything stated about the function
  in Props/C19.lean holds for every table; nothing in the framework computes a concrete PostgreSQL checksum.

  Knows nothing about the Go code.  Core only.
-/
import PgVerif.Basic.Bytes
namespace PgVerif.Spec.PgChecksum
open PgVerif

/-- `FNV_PRIME` -/
def fnvPrime : Nat := 16777619

/-- `N_SUMS` -/
def nSums : Nat := 32

/-- uint32 -/
def u32 (v : Nat) : Nat := v % 2 ^ 32

/-- `CHECKSUM_COMP`: `tmp = checksum ^ value; checksum = tmp * FNV_PRIME ^ (tmp >> 17)` on uint32 -/
def comp (checksum value : Nat) : Nat :=
  let tmp := checksum ^^^ value
  u32 (tmp * fnvPrime) ^^^ (tmp >>> 17)

/-- the little-endian 32-bit words of a byte string (whole words only) -/
def words : Bytes → List Nat
  | a :: b :: c :: d :: rest => (a.toNat + 256 * b.toNat + 65536 * c.toNat + 16777216 * d.toNat) :: words rest
  | _ => []

/-- one round: sum j is mixed with value j (`row` shorter than the sums: the remaining sums are dropped — never the
case below: rows have exactly 32 words) -/
def round (sums row : List Nat) : List Nat := List.zipWith comp sums row

/-- the rows of 32 words (fuel = number of words) -/
def rowsFuel : Nat → List Nat → List (List Nat)
  | 0, _ => []
  | fuel + 1, ws => if ws.length < nSums then [] else ws.take nSums :: rowsFuel fuel (ws.drop nSums)

def rows (ws : List Nat) : List (List Nat) := rowsFuel ws.length ws

def zeroRow : List Nat := List.replicate nSums 0

/-- `pg_checksum_block` over the given bytes with the base-offset table `offs` (32 values) -/
def pgChecksumBlock (offs : List Nat) (page : Bytes) : Nat :=
  let sums := (rows (words page)).foldl round offs
  let sums := round (round sums zeroRow) zeroRow
  sums.foldl (· ^^^ ·) 0

/-- the page with `pd_checksum` set to zero ("save pd_checksum and temporarily set it to zero") -/
def clearChecksumField (page : Bytes) : Bytes := page.take 8 ++ [0, 0] ++ page.drop 10

/-- `pg_checksum_page(page, blkno)` for a base-offset table `offs` -/
def pgChecksumPage (offs : List Nat) (page : Bytes) (blkno : Nat) : Nat :=
  (pgChecksumBlock offs (clearChecksumField page) ^^^ blkno) % 65535 + 1

/-- `pd_upper` (bytes 14..15) -/
def pdUpper (page : Bytes) : Nat := rd 2 (page.drop 14)

/-- `pd_checksum` (bytes 8..9) -/
def pdChecksum (page : Bytes) : Nat := rd 2 (page.drop 8)

def allZero (page : Bytes) : Bool := page.all (· == 0)

/-- The verdict PostgreSQL gives a block of a relation file when data checksums are on (bufpage.c
`PageIsVerifiedExtended`, pg_checksums.c `scan_file`): an all-zero block is fine; a block that is not new
(`pd_upper ≠ 0`) is valid exactly when its stored `pd_checksum` equals `pg_checksum_page(block, blkno)`.
(A block with `pd_upper = 0` that is not all zeros is skipped by pg_checksums and rejected as an invalid page by the
buffer manager: the Spec gives no verdict for it — `none`.) -/
def pageVerdict (offs : List Nat) (page : Bytes) (blkno : Nat) : Option Bool :=
  if allZero page then some true
  else if pdUpper page = 0 then none
  else some (pdChecksum page == pgChecksumPage offs page blkno)

end PgVerif.Spec.PgChecksum
