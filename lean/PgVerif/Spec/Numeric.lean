/-
  PostgreSQL's on-disk `numeric` (src/backend/utils/adt/numeric.c, struct NumericData) as an
  encoder from abstract values.  Knows nothing about the Go code.

  payload (after the varlena header) = u16 n_header, then
    short  (h & 0xC000 = 0x8000): sign 0x2000, dscale (h & 0x1F80) >> 7, weight = 7-bit two's
           complement in h & 0x7F; digits (u16, base 10000) from +2
    long   (h & 0xC000 = 0x0000 positive / 0x4000 negative): dscale = h & 0x3FFF, n_weight i16 at +2,
           digits from +4
    special (h & 0xC000 = 0xC000): 0xC000 NaN, 0xD000 +Infinity, 0xF000 -Infinity (PG ≥ 14)
  value = ± Σ dᵢ · 10000^(weight - i)

  The value is carried exactly, as a decimal ±mant·10^exp10 (`NumView.exact`); `posValue_eq` (Proofs/NumericValue.lean)
  proves that this decimal is the positional sum above, `Props/C05.lean` restates it over ℚ.  What the tool must
  RETURN is a float64: the one nearest to that decimal (`NumView.bits`, round to nearest, ties to even — the executable
  reference is `Txt.f64OfRat`).  This file also defines what a decimal text `[-]digits e [-]digits` denotes
  (`readDecimal`), independently of any code that produces such texts, and the contract of a correctly rounding
  text-to-float64 conversion (`ParseFloatOK`), which is what `strconv.ParseFloat` documents.
-/
import PgVerif.Basic.Bytes
import PgVerif.Types.Text
namespace PgVerif.Spec
open PgVerif

inductive Numeric where
  | nan | pinf | ninf
  | fin (neg : Bool) (weight : Int) (dscale : Nat) (digits : List Nat)
deriving Repr, DecidableEq, Inhabited

inductive HeaderForm where
  | short | long
deriving Repr, DecidableEq, Inhabited

/-- digits are base-10000, the weight fits int16, the display scale fits 14 bits -/
def Numeric.WF : Numeric → Prop
  | .fin _ w ds digits => (∀ d ∈ digits, d < 10000) ∧ -32768 ≤ w ∧ w ≤ 32767 ∧ ds < 16384
  | _ => True

instance : DecidablePred Numeric.WF := fun n => by
  cases n <;> simp only [Numeric.WF] <;> infer_instance

/-- NUMERIC_CAN_BE_SHORT: the short header holds a 7-bit weight and a 6-bit display scale.
Either form is a valid stored representation of a value the form admits; the special values
have one representation (both "forms" denote it). -/
def HeaderForm.admits : HeaderForm → Numeric → Prop
  | .short, .fin _ w ds _ => -64 ≤ w ∧ w ≤ 63 ∧ ds ≤ 63
  | _, _ => True

instance (f : HeaderForm) (n : Numeric) : Decidable (f.admits n) := by
  cases f <;> cases n <;> simp only [HeaderForm.admits] <;> infer_instance

def encDigits : List Nat → Bytes
  | [] => []
  | d :: ds => le 2 d ++ encDigits ds

/-- the n_header word of a short-form value -/
def shortHeader (neg : Bool) (w : Int) (ds : Nat) : Nat :=
  0x8000 + (if neg then 0x2000 else 0) + ds * 128 + ofSigned 7 w

/-- the n_sign_dscale word of a long-form value -/
def longHeader (neg : Bool) (ds : Nat) : Nat := (if neg then 0x4000 else 0) + ds

/-- the numeric payload (what follows the varlena header) -/
def encNumeric (form : HeaderForm) : Numeric → Bytes
  | .nan => le 2 0xC000
  | .pinf => le 2 0xD000
  | .ninf => le 2 0xF000
  | .fin neg w ds digits =>
    match form with
    | .short => le 2 (shortHeader neg w ds) ++ encDigits digits
    | .long => le 2 (longHeader neg ds) ++ le 2 (ofSigned 16 w) ++ encDigits digits

/-- the exact value of a numeric: a special value, or the decimal ±mant·10^exp10 (sign, integer mantissa, base-10
exponent).  For the stored digits d₀…d_{k−1} with weight w: mant = Σ dᵢ·10000^(k−1−i), exp10 = 4·(w − k + 1). -/
inductive NumView where
  | nan | pinf | ninf
  | exact (neg : Bool) (mant : Nat) (exp10 : Int)
deriving Repr, DecidableEq, Inhabited

def mantOf : List Nat → Nat → Nat
  | [], acc => acc
  | d :: ds, acc => mantOf ds (acc * 10000 + d)

/-- the value PostgreSQL displays.  A value without digits is zero.  The sign is the stored sign, also over a zero
mantissa (numeric_out prints `-0` for such a — non-canonical — stored value). -/
def Numeric.view : Numeric → NumView
  | .nan => .nan | .pinf => .pinf | .ninf => .ninf
  | .fin neg w _ digits =>
    if digits.isEmpty then .exact false 0 0 else .exact neg (mantOf digits 0) (4 * (w - digits.length + 1))

/-- PostgreSQL's definition of the value of the digit string, digit by digit: Σ dᵢ·10000^(w−i), scaled by 10^S so that
it is a natural number (meaningful when every exponent 4·(w−i)+S is ≥ 0, i.e. 0 ≤ 4·(w−k+1)+S) -/
def posValue (S : Nat) : Int → List Nat → Nat
  | _, [] => 0
  | w, d :: ds => d * 10 ^ (4 * w + S).toNat + posValue S (w - 1) ds

/-! ### the value as a rational number -/

/-- PostgreSQL's definition of the value of the digit string over ℚ: Σ dᵢ·10000^(w−i), with 10000^k written 10^(4k) -/
def ratPositional : Int → List Nat → Rat
  | _, [] => 0
  | w, d :: ds => (d : Rat) * (10 : Rat) ^ (4 * w) + ratPositional (w - 1) ds

/-- the rational value of a finite numeric: sign · Σ dᵢ·10000^(weight−i); the special values have none -/
def Numeric.toRat : Numeric → Option Rat
  | .fin neg w _ digits => some ((if neg then -1 else 1) * ratPositional w digits)
  | _ => none

/-- the rational a decimal ±mant·10^exp10 is -/
def NumView.toRat : NumView → Option Rat
  | .exact neg mant e => some ((if neg then -1 else 1) * ((mant : Rat) * (10 : Rat) ^ e))
  | _ => none

/-! ### the float64 a correct tool returns -/

/-- bits of the binary64 nearest to ±mant·10^exp10 (round to nearest, ties to even; magnitudes beyond the finite
range give ±Inf as IEEE-754 prescribes): `Txt.f64OfRat`, the project's executable definition of correct rounding -/
def f64OfDec (neg : Bool) (mant : Nat) (exp10 : Int) : Nat :=
  if exp10 ≥ 0 then Txt.f64OfRat neg (mant * 10 ^ exp10.toNat) 1 else Txt.f64OfRat neg mant (10 ^ (-exp10).toNat)

/-- the float64 (as bits) a correct tool must return: Go's `math.NaN()`, ±Inf, or the double nearest to the value -/
def NumView.bits : NumView → Nat
  | .nan => 0x7FF8000000000001
  | .pinf => 0x7FF0000000000000
  | .ninf => 0xFFF0000000000000
  | .exact neg mant e => f64OfDec neg mant e

/-! ### decimal texts `[-]digits e [-]digits` and what they denote -/

def isDigitCh (c : UInt8) : Bool := 48 ≤ c.toNat && c.toNat ≤ 57

/-- the digits of `s`, most significant first, read onto `acc`; `none` at a non-digit -/
def digitsOnto : Nat → Bytes → Option Nat
  | acc, [] => some acc
  | acc, c :: cs => if isDigitCh c then digitsOnto (acc * 10 + (c.toNat - 48)) cs else none

/-- the natural number a non-empty string of decimal digits denotes -/
def natOfText (s : Bytes) : Option Nat := if s = [] then none else digitsOnto 0 s

/-- the integer a decimal numeral with an optional leading `-` denotes -/
def intOfText : Bytes → Option Int
  | [] => none
  | c :: t => if c = 45 then (natOfText t).map (fun (n : Nat) => -(n : Int)) else (natOfText (c :: t)).map (fun (n : Nat) => (n : Int))

/-- the decimal a text `[-]digits e [-]digits` denotes: (negative?, mantissa, exponent) for the value
±mantissa·10^exponent; `none` for any other text -/
def readDecimal (t : Bytes) : Option (Bool × Nat × Int) :=
  let neg := t.head? == some 45
  let body := if neg then t.drop 1 else t
  match body.dropWhile (· != 101) with
  | _ :: ex =>
    match natOfText (body.takeWhile (· != 101)), intOfText ex with
    | some m, some e => some (neg, m, e)
    | _, _ => none
  | [] => none

/-- the documented contract of a correctly rounding decimal-to-binary64 conversion (Go: `strconv.ParseFloat(s, 64)`
"returns the nearest floating-point number rounded using IEEE754 unbiased rounding"; beyond the finite range it
returns ±Inf, which is what the code keeps since it discards the error), restricted to the texts `[-]digits e [-]digits`:
the bits returned are those of the double nearest to the denoted decimal -/
def ParseFloatOK (pf : Bytes → Nat) : Prop :=
  ∀ t neg m e, readDecimal t = some (neg, m, e) → pf t = f64OfDec neg m e

/-- the executable reference conversion: satisfies `ParseFloatOK` by construction (0 on texts outside the grammar);
the driver's instance of the model's ParseFloat parameter, compared bit for bit with the real strconv on every case -/
def parseFloatRef (t : Bytes) : Nat :=
  match readDecimal t with
  | some (neg, m, e) => f64OfDec neg m e
  | none => 0

theorem parseFloatRef_ok : ParseFloatOK parseFloatRef := by
  intro t neg m e h
  simp [parseFloatRef, h]

/-! ### the reader's view of an arbitrary header word (for the exhaustive header family):
how PostgreSQL itself (numeric_out and the NUMERIC_* macros) interprets any 16-bit n_header -/

inductive HeaderClass where
  | short (neg : Bool) (weight : Int) (dscale : Nat)
  | long (neg : Bool) (dscale : Nat)
  | special (v : NumView)
deriving Repr, DecidableEq

def classifyHeader (h : Nat) : HeaderClass :=
  if h / 0x4000 % 4 == 3 then
    .special (if h == 0xD000 then .pinf else if h == 0xF000 then .ninf else .nan)
  else if h / 0x4000 % 4 == 2 then
    .short (h / 0x2000 % 2 == 1) (if h / 64 % 2 == 1 then (h % 64 : Nat) - 64 else (h % 64 : Nat)) (h / 128 % 64)
  else .long (h / 0x4000 % 4 == 1) (h % 0x4000)

/-- a 4-byte varlena header in front of a payload (`SET_VARSIZE`: total length << 2) -/
def varlena4 (payload : Bytes) : Bytes := le 4 ((payload.length + 4) * 4) ++ payload

/-- a 1-byte ("short") varlena header: `(total length << 1) | 1`, total ≤ 127 -/
def varlena1 (payload : Bytes) : Bytes := UInt8.ofNat ((payload.length + 1) * 2 + 1) :: payload

end PgVerif.Spec
