/-
  PostgreSQL's on-disk `numeric` (src/backend/utils/adt/numeric.c, struct NumericData) as an
  encoder from abstract values.  Knows nothing about the Go code.

  payload (after the varlena header) = u16 n_header, then
    short  (h & 0xC000 = 0x8000): sign 0x2000, dscale (h & 0x1F80) >> 7, weight = 7-bit two's
           complement in h & 0x7F; digits (u16, base 10000) from +2
    long   (h & 0xC000 = 0x0000 positive / 0x4000 negative): dscale = h & 0x3FFF, n_weight i16 at +2,
           digits from +4
    special (h & 0xC000 = 0xC000): 0xC000 NaN, 0xD000 +Infinity, 0xF000 -Infinity (PG ≥ 14)
  value = ± Σ dᵢ · 10000^(weight - i)
-/
import PgVerif.Basic.Bytes
namespace PgVerif.Spec
open PgVerif

inductive Numeric where
  | nan | pinf | ninf
  | fin (neg : Bool) (weight : Int) (dscale : Nat) (digits : List Nat)
deriving Repr, DecidableEq, Inhabited

inductive HeaderForm where
  | short | long
deriving Repr, DecidableEq, Inhabited

/-- digits are base-10000, the weight fits int16, the display scale fits 14 bits -/
def Numeric.WF : Numeric → Prop
  | .fin _ w ds digits => (∀ d ∈ digits, d < 10000) ∧ -32768 ≤ w ∧ w ≤ 32767 ∧ ds < 16384
  | _ => True

instance : DecidablePred Numeric.WF := fun n => by
  cases n <;> simp only [Numeric.WF] <;> infer_instance

/-- NUMERIC_CAN_BE_SHORT: the short header holds a 7-bit weight and a 6-bit display scale.
Either form is a valid stored representation of a value the form admits; the special values
have one representation (both "forms" denote it). -/
def HeaderForm.admits : HeaderForm → Numeric → Prop
  | .short, .fin _ w ds _ => -64 ≤ w ∧ w ≤ 63 ∧ ds ≤ 63
  | _, _ => True

instance (f : HeaderForm) (n : Numeric) : Decidable (f.admits n) := by
  cases f <;> cases n <;> simp only [HeaderForm.admits] <;> infer_instance

def encDigits : List Nat → Bytes
  | [] => []
  | d :: ds => le 2 d ++ encDigits ds

/-- the n_header word of a short-form value -/
def shortHeader (neg : Bool) (w : Int) (ds : Nat) : Nat :=
  0x8000 + (if neg then 0x2000 else 0) + ds * 128 + ofSigned 7 w

/-- the n_sign_dscale word of a long-form value -/
def longHeader (neg : Bool) (ds : Nat) : Nat := (if neg then 0x4000 else 0) + ds

/-- the numeric payload (what follows the varlena header) -/
def encNumeric (form : HeaderForm) : Numeric → Bytes
  | .nan => le 2 0xC000
  | .pinf => le 2 0xD000
  | .ninf => le 2 0xF000
  | .fin neg w ds digits =>
    match form with
    | .short => le 2 (shortHeader neg w ds) ++ encDigits digits
    | .long => le 2 (longHeader neg ds) ++ le 2 (ofSigned 16 w) ++ encDigits digits

/-- the exact value of a finite numeric: (negative?, integer mantissa, base-10000 exponent),
value = ± mantissa · 10000^exponent with mantissa = Σ dᵢ·10000^(k-1-i), exponent = weight - k + 1 -/
inductive NumView where
  | nan | pinf | ninf
  | exact (neg : Bool) (mant : Nat) (exp : Int)
deriving Repr, DecidableEq, Inhabited

def mantOf : List Nat → Nat → Nat
  | [], acc => acc
  | d :: ds, acc => mantOf ds (acc * 10000 + d)

/-- what a correct tool must report.  A value without digits is zero. -/
def Numeric.view : Numeric → NumView
  | .nan => .nan | .pinf => .pinf | .ninf => .ninf
  | .fin neg w _ digits =>
    if digits.isEmpty then .exact false 0 0 else .exact neg (mantOf digits 0) (w - digits.length + 1)

/-! ### the reader's view of an arbitrary header word (for the exhaustive header family):
how PostgreSQL itself (numeric_out and the NUMERIC_* macros) interprets any 16-bit n_header -/

inductive HeaderClass where
  | short (neg : Bool) (weight : Int) (dscale : Nat)
  | long (neg : Bool) (dscale : Nat)
  | special (v : NumView)
deriving Repr, DecidableEq

def classifyHeader (h : Nat) : HeaderClass :=
  if h / 0x4000 % 4 == 3 then
    .special (if h == 0xD000 then .pinf else if h == 0xF000 then .ninf else .nan)
  else if h / 0x4000 % 4 == 2 then
    .short (h / 0x2000 % 2 == 1) (if h / 64 % 2 == 1 then (h % 64 : Nat) - 64 else (h % 64 : Nat)) (h / 128 % 64)
  else .long (h / 0x4000 % 4 == 1) (h % 0x4000)

/-- a 4-byte varlena header in front of a payload (`SET_VARSIZE`: total length << 2) -/
def varlena4 (payload : Bytes) : Bytes := le 4 ((payload.length + 4) * 4) ++ payload

/-- a 1-byte ("short") varlena header: `(total length << 1) | 1`, total ≤ 127 -/
def varlena1 (payload : Bytes) : Bytes := UInt8.ofNat ((payload.length + 1) * 2 + 1) :: payload

end PgVerif.Spec
