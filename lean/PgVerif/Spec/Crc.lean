/-
  CRC-32C (Castagnoli) as PostgreSQL uses it for pg_control, pg_filenode.map and WAL records:
  reflected polynomial 0x82F63B78, initial value and final xor 0xFFFFFFFF.
  This is the bit-serial definition (polynomial division one bit at a time); it knows nothing
  about tables.  Core Lean only.
-/
import PgVerif.Basic.Bytes
namespace PgVerif.Spec
open PgVerif

abbrev W32 := BitVec 32

def crcPoly : W32 := 0x82F63B78#32

/-- one step of the reflected shift register: shift right, subtract the polynomial if a 1 fell out -/
def crcStep1 (c : W32) : W32 := if c.getLsbD 0 then (c >>> 1) ^^^ crcPoly else c >>> 1

def crcIter (n : Nat) (c : W32) : W32 := Nat.repeat crcStep1 n c

/-- feed one byte: xor it into the low byte, then eight single-bit steps -/
def crcByte (c : W32) (b : UInt8) : W32 := crcIter 8 (c ^^^ BitVec.ofNat 32 b.toNat)

/-- the register after feeding `bs`, starting from `c` -/
def crcFeed (c : W32) (bs : Bytes) : W32 := bs.foldl crcByte c

/-- CRC-32C of a byte string -/
def crc32c (bs : Bytes) : Nat := (crcFeed 0xFFFFFFFF#32 bs ^^^ 0xFFFFFFFF#32).toNat

/-- the remainder table: entry `i` = eight steps from the byte `i` -/
def crc32cTable : List W32 := (List.range 256).map fun i => crcIter 8 (BitVec.ofNat 32 i)

end PgVerif.Spec
