/-
  Spec side of pglz (PostgreSQL's pg_lzcompress.c stream format, DESIGN.md section 3 row "pglz").
  A stream is a list of tokens; `expand` is its denotation (the bytes it stands for), `renderPglz`
  the byte layout (control byte per group of 8 items, LSB first; tag bytes of a match).
  Knows nothing about the Go code.  Core Lean only (driver path).
-/
import PgVerif.Basic.Bytes
namespace PgVerif.Spec.Pglz
open PgVerif

inductive Tok where
  | lit (b : UInt8)
  | mat (off len : Nat)
deriving Repr, DecidableEq, Inhabited

/-- byte-by-byte copy: `n` bytes, each read `off` behind the growing output (overlap allowed) -/
def expandMatch (off : Nat) : Nat → Bytes → Bytes
  | 0, out => out
  | n+1, out => expandMatch off n (out ++ [out.getD (out.length - off) 0])

def expandTok (out : Bytes) : Tok → Bytes
  | .lit b => out ++ [b]
  | .mat off len => expandMatch off len out

/-- the bytes a token list stands for, appended to `out` -/
def expandFrom (ts : List Tok) (out : Bytes) : Bytes := ts.foldl expandTok out

/-! ### compiled code: the same functions over arrays (`@[csimp]`, proved equal; the list versions above are
what the theorems talk about, the array versions are what the driver executes) -/

def expandMatchA (off : Nat) : Nat → Array UInt8 → Array UInt8
  | 0, out => out
  | n+1, out => expandMatchA off n (out.push (out.getD (out.size - off) 0))

theorem arr_getD (a : Array UInt8) (i : Nat) : a.getD i 0 = a.toList.getD i 0 := by
  simp [Array.getD, List.getD]
  split <;> simp_all

theorem expandMatchA_toList (off n : Nat) (out : Array UInt8) :
    (expandMatchA off n out).toList = expandMatch off n out.toList := by
  induction n generalizing out with
  | zero => rfl
  | succ n ih => simp only [expandMatchA, expandMatch, ih, Array.toList_push, arr_getD, Array.length_toList]

def expandTokA (out : Array UInt8) : Tok → Array UInt8
  | .lit b => out.push b
  | .mat off len => expandMatchA off len out

theorem expandTokA_toList (out : Array UInt8) (t : Tok) : (expandTokA out t).toList = expandTok out.toList t := by
  cases t <;> simp [expandTokA, expandTok, expandMatchA_toList]

def expandFromFast (ts : List Tok) (out : Bytes) : Bytes := (ts.foldl expandTokA out.toArray).toList

theorem foldl_expandTokA (ts : List Tok) (out : Array UInt8) :
    (ts.foldl expandTokA out).toList = ts.foldl expandTok out.toList := by
  induction ts generalizing out with
  | nil => rfl
  | cons t ts ih => simp only [List.foldl_cons, ih, expandTokA_toList]

@[csimp] theorem expandFrom_eq_fast : @expandFrom = @expandFromFast := by
  funext ts out
  simp [expandFrom, expandFromFast, foldl_expandTokA]


def expand (ts : List Tok) : Bytes := expandFrom ts []

/-- tag of a match: `len-3` in the low nibble of byte 0 (15 = extended, then a third byte `len-18`),
high nibble of byte 0 = bits 8..11 of the offset, byte 1 = low 8 bits of the offset -/
def renderTok : Tok → Bytes
  | .lit b => [b]
  | .mat off len =>
    if len < 18 then [UInt8.ofNat (off / 256 * 16 + (len - 3)), UInt8.ofNat (off % 256)]
    else [UInt8.ofNat (off / 256 * 16 + 15), UInt8.ofNat (off % 256), UInt8.ofNat (len - 18)]

def Tok.isMatch : Tok → Bool | .lit _ => false | .mat .. => true
def Tok.produces : Tok → Nat | .lit _ => 1 | .mat _ len => len

def Tok.WF : Tok → Prop
  | .lit _ => True
  | .mat off len => 1 ≤ off ∧ off ≤ 4095 ∧ 3 ≤ len ∧ len ≤ 273

instance (t : Tok) : Decidable t.WF := by cases t <;> unfold Tok.WF <;> infer_instance

/-- a match refers to output that exists -/
def Tok.offOK : Tok → Nat → Prop
  | .lit _, _ => True
  | .mat off _, cur => off ≤ cur

instance (t : Tok) (n : Nat) : Decidable (t.offOK n) := by cases t <;> unfold Tok.offOK <;> infer_instance

def OffsOK : List Tok → Nat → Prop
  | [], _ => True
  | t :: ts, cur => t.offOK cur ∧ OffsOK ts (cur + t.produces)

instance offsOKDec : (ts : List Tok) → (n : Nat) → Decidable (OffsOK ts n)
  | [], _ => isTrue trivial
  | t :: ts, n => by
    unfold OffsOK
    have := offsOKDec ts (n + t.produces)
    infer_instance

/-- control byte of a group: bit i set ⇔ item i is a match -/
def ctrlOf : List Tok → Nat
  | [] => 0
  | t :: ts => (if t.isMatch then 1 else 0) + 2 * ctrlOf ts

def renderGroup (g : List Tok) : Bytes := UInt8.ofNat (ctrlOf g) :: g.flatMap renderTok

/-- groups of 8 items, the last one possibly shorter (never empty) -/
def group8 : List Tok → List (List Tok)
  | a :: b :: c :: d :: e :: f :: g :: h :: rest => [a, b, c, d, e, f, g, h] :: group8 rest
  | [] => []
  | l => [l]

def renderPglz (ts : List Tok) : Bytes := (group8 ts).flatMap renderGroup

/-- every valid stream: tag fields in range, every offset within the output produced so far -/
def PglzWF (ts : List Tok) : Prop := (∀ t ∈ ts, t.WF) ∧ OffsOK ts 0

instance (ts : List Tok) : Decidable (PglzWF ts) := by unfold PglzWF; infer_instance

end PgVerif.Spec.Pglz
