/-
  JSON text (RFC 8259) at byte level: value type, parser, and "this JSON value is that Go value".
  Knows nothing about pgread.  Bytes ≥ 0x80 inside strings are taken as they are (UTF-8 validity is not checked:
  the property quantifies over Unicode text); control characters below 0x20 must be escaped; `\uXXXX` escapes are
  decoded to UTF-8 (surrogate pairs combined; a lone surrogate is rejected).
-/
import PgVerif.Types.ExportDump
namespace PgVerif.Spec.Json
open PgVerif PgVerif.Export

inductive J where
  | null
  | bool (b : Bool)
  | num (text : Bytes)
  | str (s : Bytes)
  | arr (xs : List J)
  | obj (kvs : List (Bytes × J))
deriving Repr, Inhabited

def isWs (c : UInt8) : Bool := c == 32 || c == 9 || c == 10 || c == 13
def isDigit (c : UInt8) : Bool := 48 ≤ c && c ≤ 57

def skipWs : Bytes → Bytes
  | [] => []
  | c :: t => if isWs c then skipWs t else c :: t

def spanDigits : Bytes → Bytes × Bytes
  | [] => ([], [])
  | c :: t => if isDigit c then let r := spanDigits t; (c :: r.1, r.2) else ([], c :: t)

def hexVal (c : UInt8) : Option Nat :=
  if 48 ≤ c ∧ c ≤ 57 then some (c.toNat - 48)
  else if 97 ≤ c ∧ c ≤ 102 then some (c.toNat - 87)
  else if 65 ≤ c ∧ c ≤ 70 then some (c.toNat - 55)
  else none

def hex4 (a b c d : UInt8) : Option Nat :=
  match hexVal a, hexVal b, hexVal c, hexVal d with
  | some w, some x, some y, some z => some (((w * 16 + x) * 16 + y) * 16 + z)
  | _, _, _, _ => none

def utf8Enc (cp : Nat) : Bytes :=
  if cp < 0x80 then [UInt8.ofNat cp]
  else if cp < 0x800 then [UInt8.ofNat (0xC0 + cp / 64), UInt8.ofNat (0x80 + cp % 64)]
  else if cp < 0x10000 then [UInt8.ofNat (0xE0 + cp / 4096), UInt8.ofNat (0x80 + cp / 64 % 64), UInt8.ofNat (0x80 + cp % 64)]
  else [UInt8.ofNat (0xF0 + cp / 262144), UInt8.ofNat (0x80 + cp / 4096 % 64), UInt8.ofNat (0x80 + cp / 64 % 64), UInt8.ofNat (0x80 + cp % 64)]

def escLit (e : UInt8) : Option UInt8 :=
  if e = 34 then some 34 else if e = 92 then some 92 else if e = 47 then some 47
  else if e = 98 then some 8 else if e = 102 then some 12 else if e = 110 then some 10
  else if e = 114 then some 13 else if e = 116 then some 9 else none

/-- body of a string after the opening quote: decoded content and what follows the closing quote -/
def scanStr : Bytes → Option (Bytes × Bytes)
  | [] => none
  | c :: t =>
    if c = 34 then some ([], t)
    else if c = 92 then
      match t with
      | 117 :: a :: b :: c :: d :: t1 =>
        match hex4 a b c d with
        | none => none
        | some hi =>
          if 0xD800 ≤ hi ∧ hi < 0xDC00 then
            match t1 with
            | 92 :: 117 :: a2 :: b2 :: c2 :: d2 :: t2 =>
              match hex4 a2 b2 c2 d2 with
              | some lo =>
                if 0xDC00 ≤ lo ∧ lo < 0xE000 then
                  (scanStr t2).map fun r => (utf8Enc (0x10000 + (hi - 0xD800) * 1024 + (lo - 0xDC00)) ++ r.1, r.2)
                else none
              | none => none
            | _ => none
          else if 0xDC00 ≤ hi ∧ hi < 0xE000 then none
          else (scanStr t1).map fun r => (utf8Enc hi ++ r.1, r.2)
      | e :: t1 =>
        match escLit e with
        | some x => (scanStr t1).map fun r => (x :: r.1, r.2)
        | none => none
      | [] => none
    else if c < 32 then none
    else (scanStr t).map fun r => (c :: r.1, r.2)

/-- number:  -? (0 | [1-9][0-9]*) (\.[0-9]+)? ([eE][+-]?[0-9]+)?  -/
def scanNum (bs : Bytes) : Option (Bytes × Bytes) :=
  let (sign, r0) : Bytes × Bytes := match bs with | c :: t => if c = 45 then ([45], t) else ([], bs) | [] => ([], [])
  let ip := spanDigits r0
  if ip.1 = [] ∨ (ip.1.length > 1 ∧ ip.1.head? = some 48) then none
  else
    let fr : Option (Bytes × Bytes) :=
      match ip.2 with
      | c :: t => if c = 46 then (let fp := spanDigits t; if fp.1 = [] then none else some (46 :: fp.1, fp.2)) else some ([], ip.2)
      | [] => some ([], [])
    match fr with
    | none => none
    | some (frac, r1) =>
      let ex : Option (Bytes × Bytes) :=
        match r1 with
        | e :: t =>
          if e = 101 ∨ e = 69 then
            let (sg, t') : Bytes × Bytes := match t with | s :: t2 => if s = 43 ∨ s = 45 then ([s], t2) else ([], t) | [] => ([], [])
            let ed := spanDigits t'
            if ed.1 = [] then none else some (e :: sg ++ ed.1, ed.2)
          else some ([], r1)
        | [] => some ([], [])
      match ex with
      | none => none
      | some (exp, r2) => some (sign ++ ip.1 ++ frac ++ exp, r2)

mutual
/-- a value, possibly preceded by white space; `fuel` bounds nesting depth plus the number of elements -/
def parseV : Nat → Bytes → Option (J × Bytes)
  | 0, _ => none
  | f + 1, bs =>
    match skipWs bs with
    | [] => none
    | c :: t =>
      if c = 110 then (match t with | 117 :: 108 :: 108 :: t' => some (.null, t') | _ => none)
      else if c = 116 then (match t with | 114 :: 117 :: 101 :: t' => some (.bool true, t') | _ => none)
      else if c = 102 then (match t with | 97 :: 108 :: 115 :: 101 :: t' => some (.bool false, t') | _ => none)
      else if c = 34 then (scanStr t).map fun r => (.str r.1, r.2)
      else if c = 91 then
        (match skipWs t with
         | 93 :: t' => some (.arr [], t')
         | _ => (parseElems f t).map fun r => (.arr r.1, r.2))
      else if c = 123 then
        (match skipWs t with
         | 125 :: t' => some (.obj [], t')
         | _ => (parseMembers f t).map fun r => (.obj r.1, r.2))
      else if c = 45 ∨ isDigit c then (scanNum (c :: t)).map fun r => (.num r.1, r.2)
      else none
/-- one or more values separated by commas, up to and including the closing bracket -/
def parseElems : Nat → Bytes → Option (List J × Bytes)
  | 0, _ => none
  | f + 1, bs =>
    match parseV f bs with
    | none => none
    | some (v, r) =>
      match skipWs r with
      | 44 :: r' => (parseElems f r').map fun x => (v :: x.1, x.2)
      | 93 :: r' => some ([v], r')
      | _ => none
/-- one or more `"key" : value` members separated by commas, up to and including the closing brace -/
def parseMembers : Nat → Bytes → Option (List (Bytes × J) × Bytes)
  | 0, _ => none
  | f + 1, bs =>
    match skipWs bs with
    | 34 :: t =>
      match scanStr t with
      | none => none
      | some (k, r) =>
        match skipWs r with
        | 58 :: r1 =>
          match parseV f r1 with
          | none => none
          | some (v, r2) =>
            match skipWs r2 with
            | 44 :: r' => (parseMembers f r').map fun x => ((k, v) :: x.1, x.2)
            | 125 :: r' => some ([(k, v)], r')
            | _ => none
        | _ => none
    | _ => none
end

/-- a complete JSON text: one value, optional white space around it, nothing else -/
def parse (bs : Bytes) : Option J :=
  match parseV (2 * bs.length + 2) bs with
  | some (v, rest) => if skipWs rest = [] then some v else none
  | none => none

/-! ### which JSON value stands for which Go value -/

def isNonFinite64 (bits : Nat) : Bool := bits / 2 ^ 52 % 2048 == 2047
def isNonFinite32 (bits : Nat) : Bool := bits / 2 ^ 23 % 256 == 255

def lowerAscii (s : Bytes) : Bytes := s.map fun c => if 65 ≤ c && c ≤ 90 then c + 32 else c

/-- the spellings of NaN and the infinities that PostgreSQL's float input accepts (case-insensitive);
`neg`/`nan` say which special value is meant -/
def nonFiniteSpelling (nan neg : Bool) (s : Bytes) : Bool :=
  let l := lowerAscii s
  if nan then l == asc "nan"
  else if neg then l == asc "-inf" || l == asc "-infinity"
  else l == asc "inf" || l == asc "+inf" || l == asc "infinity" || l == asc "+infinity"

/-- `num` text or quoted special for a float, given the library's decimal text of it (parameter) -/
def floatAgrees (nonFinite nan neg : Bool) (text : Bytes) : J → Bool
  | .num t => !nonFinite && t == text
  | .str s => nonFinite && nonFiniteSpelling nan neg s
  | _ => false

mutual
/-- `j` is the JSON value of the Go value `v`: null ↔ nil, numbers by their decimal text, strings byte for byte,
arrays element-wise, objects member-wise in the same order; a NaN or infinite float is a JSON string
(as PostgreSQL's to_json writes it) -/
def agrees (F : FloatFmt) : GoVal → J → Bool
  | .nil, j => (match j with | .null => true | _ => false)
  | .bool b, j => (match j with | .bool c => b == c | _ => false)
  | .int i, j => (match j with | .num t => t == decInt i | _ => false)
  | .f64 b, j => floatAgrees (isNonFinite64 b) (b % 2 ^ 52 != 0) (b / 2 ^ 63 % 2 == 1) (F.v64 b) j
  | .f32 b, j => floatAgrees (isNonFinite32 b) (b % 2 ^ 23 != 0) (b / 2 ^ 31 % 2 == 1) (F.v32 b) j
  | .str s, j => (match j with | .str t => s == t | _ => false)
  | .arr xs, j => (match j with | .arr js => agreesList F xs js | _ => false)
  | .obj kvs, j => (match j with | .obj jkvs => agreesKvs F kvs jkvs | _ => false)
def agreesList (F : FloatFmt) : List GoVal → List J → Bool
  | [], js => js.isEmpty
  | x :: xs, js => (match js with | j :: js' => agrees F x j && agreesList F xs js' | [] => false)
def agreesKvs (F : FloatFmt) : List (Bytes × GoVal) → List (Bytes × J) → Bool
  | [], js => js.isEmpty
  | (k, v) :: kvs, js => (match js with | (k', j) :: js' => k == k' && agrees F v j && agreesKvs F kvs js' | [] => false)
end

/-- `text` is valid JSON whose value is `v` -/
def textAgrees (F : FloatFmt) (v : GoVal) (text : Bytes) : Bool :=
  match parse text with
  | some j => agrees F v j
  | none => false

end PgVerif.Spec.Json
