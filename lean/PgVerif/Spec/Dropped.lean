/-
  Spec side of area `dropped` (pgdump/dropped.go): what PostgreSQL leaves behind when a column is dropped, and
  what a correct tool must report about it.  Builds on Spec.Cluster (the cluster as abstract values, the real
  pg_attribute layouts 12–13 / 14–15 / 16 and their encoders).  Knows nothing about the Go code.

  PostgreSQL, `ALTER TABLE … DROP COLUMN` (heap.c:RemoveAttributeById): the pg_attribute row stays, with
  `attisdropped = true`, `atttypid = 0`, `attnotnull = false`, `attstattarget = 0`, `attname` =
  `........pg.dropped.<attnum>........`; `attlen`, `attalign`, `attbyval`, `attstorage` keep the values of the
  old type (they are what is needed to step over the column in rows written before the drop); the heap is not
  rewritten, so rows written before the drop still store the value, rows written later store NULL there.
-/
import PgVerif.Spec.Cluster
namespace PgVerif.Spec
open PgVerif

/-! ## Result types shared by the spec view and the model (plain data) -/

structure DroppedColumnInfo where
  relOID : Nat
  tableName : Bytes
  attNum : Int
  originalName : Bytes
  droppedName : Bytes
  typeOID : Nat
  typeName : Bytes
  attLen : Int
  attAlign : Nat        -- the attalign byte ('c' 99, 's' 115, 'i' 105, 'd' 100; 0 = not set)
  attByVal : Bool
deriving Repr, DecidableEq, Inhabited

structure DroppedColumnsResult where
  database : Bytes
  droppedCount : Nat
  columns : List DroppedColumnInfo
deriving Repr, DecidableEq, Inhabited

structure DroppedColumnData where
  column : DroppedColumnInfo
  values : List GoVal
  rows : List DRow
deriving Inhabited

/-- a column of a row-decoding schema that includes dropped columns: (name, typid, attlen, attnum, attalign byte) -/
structure DroppedSchemaCol where
  name : Bytes
  typid : Int
  len : Int
  num : Int
  align : Nat
deriving Repr, DecidableEq, Inhabited

/-! ## PostgreSQL's side -/

/-- ASCII digit of d < 10 -/
def drDigitByte : Nat → UInt8
  | 0 => 48 | 1 => 49 | 2 => 50 | 3 => 51 | 4 => 52 | 5 => 53 | 6 => 54 | 7 => 55 | 8 => 56 | 9 => 57 | _ => 48

def drDecNatAux : Nat → Nat → Bytes → Bytes
  | 0, _, acc => acc
  | fuel + 1, n, acc => if n < 10 then drDigitByte n :: acc else drDecNatAux fuel (n / 10) (drDigitByte (n % 10) :: acc)

/-- decimal text of a natural number (C `%d` / `%u`), as bytes -/
def drDecNat (n : Nat) : Bytes := drDecNatAux (n + 1) n []

/-- decimal text of an integer (C / Go `%d`) -/
def drDecInt (n : Int) : Bytes := if n < 0 then 45 :: drDecNat (-n).toNat else drDecNat n.toNat

/-- `........` -/
def drDots8 : Bytes := [46, 46, 46, 46, 46, 46, 46, 46]
/-- `pg.dropped.` -/
def pgDroppedLit : Bytes := [112, 103, 46, 100, 114, 111, 112, 112, 101, 100, 46]
/-- `dropped_` -/
def droppedPrefix : Bytes := [100, 114, 111, 112, 112, 101, 100, 95]

/-- the name RemoveAttributeById gives a dropped column: `snprintf("........pg.dropped.%d........", attnum)` -/
def pgDroppedName (attnum : Int) : Bytes := drDots8 ++ pgDroppedLit ++ drDecInt attnum ++ drDots8

/-- attstorage: 'p' plain, 'e' external, 'm' main, 'x' extended -/
def drStorageOK (s : Nat) : Prop := s = 112 ∨ s = 101 ∨ s = 109 ∨ s = 120
instance (s : Nat) : Decidable (drStorageOK s) := by unfold drStorageOK; infer_instance

/-- the name under which a tool that recovers dropped columns presents attribute `a` in a row -/
def drRecoveredName (a : AttrRow) : Bytes :=
  if a.dropped then droppedPrefix ++ drDecInt a.num else a.name

/-- what RemoveAttributeById guarantees about a dropped attribute's row, and what every attribute row satisfies -/
def AttrRow.DroppedWF (a : AttrRow) : Prop :=
  drStorageOK a.storage ∧
  (a.dropped = true → a.typid = 0 ∧ a.notnull = false ∧ 0 < a.num ∧ a.name = pgDroppedName a.num) ∧
  (a.dropped = false → ¬ droppedPrefix.isPrefixOf a.name)
instance (a : AttrRow) : Decidable a.DroppedWF := by unfold AttrRow.DroppedWF; infer_instance

/-- every stored pg_attribute row version of the database is one PostgreSQL could have written -/
def DbContent.DroppedWF (d : DbContent) : Prop := ∀ s ∈ d.att.versions, s.val.DroppedWF
instance (d : DbContent) : Decidable d.DroppedWF := by unfold DbContent.DroppedWF; infer_instance

def Cluster.DroppedWF (c : Cluster) : Prop := ∀ p ∈ c.content, p.2.DroppedWF
instance (c : Cluster) : Decidable c.DroppedWF := by unfold Cluster.DroppedWF; infer_instance

/-! ## What a correct tool reports -/

/-- name of relation `relid`: the live pg_class row with that oid.  (A relation without a file of its own — a
partitioned table — is left unnamed: reporting its name is not among the things this area states.) -/
def drRelNameOf (d : DbContent) (relid : Nat) : Bytes :=
  match d.cls.live.find? (fun r => r.oid == relid && r.filenode != 0) with
  | some r => r.name
  | none => []

/-- one dropped attribute as it must be reported: relation, attnum, PostgreSQL's placeholder name, and the type
length / alignment / by-value flag the old type had (type oid 0: the type itself is gone) -/
def droppedInfo (d : DbContent) (a : AttrRow) : DroppedColumnInfo :=
  { relOID := a.relid, tableName := drRelNameOf d a.relid, attNum := a.num,
    originalName := droppedPrefix ++ drDecInt a.num, droppedName := a.name,
    typeOID := a.typid, typeName := (typeName a.typid).getD [], attLen := a.len,
    attAlign := alignCh a.align, attByVal := a.byval }

def droppedLE (a b : DroppedColumnInfo) : Bool :=
  if a.relOID != b.relOID then a.relOID < b.relOID else a.attNum ≤ b.attNum

def drInsertDropped (a : DroppedColumnInfo) : List DroppedColumnInfo → List DroppedColumnInfo
  | [] => [a]
  | b :: bs => if droppedLE a b then a :: b :: bs else b :: drInsertDropped a bs

/-- by relation oid, then attnum -/
def drSortDropped (l : List DroppedColumnInfo) : List DroppedColumnInfo := l.foldr drInsertDropped []

/-- the dropped columns PostgreSQL has in database `d`: the live pg_attribute rows with attisdropped and
attnum > 0 (dead row versions — the column's row before the drop — ignored), each once, by relation and attnum -/
def expectedDropped (d : DbContent) : List DroppedColumnInfo :=
  drSortDropped ((d.att.live.filter fun a => a.dropped && a.num > 0).map (droppedInfo d))

/-- FindDroppedColumns(dir, name): `none` = an error (no such database / no catalog files) -/
def expectedFind (c : Cluster) (dbName : Bytes) : Option DroppedColumnsResult :=
  match c.dbs.live.find? (fun db => db.name == dbName) with
  | none => none
  | some db =>
    match c.content.lookup db.oid with
    | none => none
    | some d => let cols := expectedDropped d
                some { database := dbName, droppedCount := cols.length, columns := cols }

/-- ScanDroppedColumns(dir): every non-template database that has dropped columns, in pg_database order -/
def expectedScan (c : Cluster) : List DroppedColumnsResult :=
  (c.dbs.live.filter fun db => !isTemplateName db.name).filterMap fun db =>
    match expectedFind c db.name with
    | some r => if r.droppedCount > 0 then some r else none
    | none => none

/-- the relation a table name denotes: `some none` = no such relation, `none` = the spec is silent (several
relations with storage carry the name — PostgreSQL names are unique per schema only) -/
def drLookupRel (d : DbContent) (tableName : Bytes) : Option (Option ClassRow) :=
  match d.cls.live.filter (fun r => r.filenode != 0 && r.name == tableName) with
  | [] => some none
  | [r] => some (some r)
  | _ => none

def droppedSchemaCol (a : AttrRow) : DroppedSchemaCol :=
  ⟨drRecoveredName a, a.typid, a.len, a.num, alignCh a.align⟩

/-- GetDroppedColumnSchema: all user attributes of the relation in attnum order, dropped ones included (under
`dropped_<attnum>`), each with the length and alignment needed to walk a stored row.
Outer `none` = spec silent, inner `none` = error. -/
def expectedSchema (c : Cluster) (dbName tableName : Bytes) : Option (Option (List DroppedSchemaCol)) :=
  match c.dbs.live.find? (fun db => db.name == dbName) with
  | none => some none
  | some db =>
    match c.content.lookup db.oid with
    | none => some none
    | some d =>
      match drLookupRel d tableName with
      | none => none
      | some none => some none
      | some (some r) => some (some ((userAttrs d.att r.oid).map droppedSchemaCol))

def drRecoveredCol (a : AttrRow) : Col := ⟨drRecoveredName a, a.typid, a.len, a.align⟩

/-- the attribute as RecoverDroppedColumnData describes it -/
def drAttrInfo (a : AttrRow) : DroppedColumnInfo :=
  { relOID := a.relid, tableName := [], attNum := a.num, originalName := drRecoveredName a, droppedName := a.name,
    typeOID := a.typid, typeName := (typeName a.typid).getD [], attLen := a.len,
    attAlign := alignCh a.align, attByVal := a.byval }

/-- RecoverDroppedColumnData(dir, db, table, attnum) for a dropped attribute of a relation with a heap file:
the attribute, and for every live row of the heap the stored value of that attribute (NULL for rows written
after the drop), plus the full rows.  Outer `none` = spec silent (ambiguous table name, a relation whose file is
not a heap, an attribute that is not dropped), inner `none` = error. -/
def expectedRecover (val : Val) (c : Cluster) (dbName tableName : Bytes) (attNum : Int) :
    Option (Option DroppedColumnData) :=
  match c.dbs.live.find? (fun db => db.name == dbName) with
  | none => some none
  | some db =>
    match c.content.lookup db.oid with
    | none => some none
    | some d =>
      match drLookupRel d tableName with
      | none => none
      | some none => some none
      | some (some r) =>
        let attrs := userAttrs d.att r.oid
        match attrs.find? (fun a => a.num == attNum) with
        | none => some none
        | some a =>
          if (d.raws.lookup r.filenode).isSome then none
          else match d.heaps.lookup r.filenode with
            | none => some none
            | some pages =>
              if !a.dropped then none
              else
                let cols := attrs.map drRecoveredCol
                let rows := (liveRows pages (attrs.map attrCol)).map (rowOf val cols)
                let key := droppedPrefix ++ drDecInt attNum
                some (some { column := drAttrInfo a, values := rows.map fun row => (row.lookup key).getD .nil, rows })

end PgVerif.Spec
