/-
  Spec side of a sequence relation file (PostgreSQL ≥ 10, src/backend/commands/sequence.c):
  exactly one page; the special space is 8 bytes holding `sequence_magic` (u32 0x1717); one heap tuple
  with three attributes `last_value int8`, `log_cnt int8`, `is_called bool` (FormData_pg_sequence_data).
  Encoder + well-formedness + what a reader must report.  Knows nothing about the Go code.
-/
import PgVerif.Basic.Bytes
namespace PgVerif.Spec
open PgVerif

structure SeqState where
  lastValue : Int
  logCnt : Int
  isCalled : Bool
deriving Repr, DecidableEq, Inhabited

/-- a sequence page: the state plus everything else the page stores (free to vary) -/
structure SeqPage where
  st : SeqState
  hdr0 : Bytes          -- pd_lsn, pd_checksum, pd_flags: 12 bytes
  prune : Nat           -- pd_prune_xid
  xmin : Nat
  xmax : Nat
  cid : Nat
  ctid : Bytes          -- 6 bytes
  infomask2 : Nat       -- natts = 3 in the low 11 bits
  infomask : Nat
  mid : Bytes           -- bytes between the 23 fixed header bytes and t_hoff (alignment padding)
deriving Repr, DecidableEq, Inhabited

def seqMagic : Nat := 0x1717

def SeqPage.hoff (p : SeqPage) : Nat := 23 + p.mid.length
/-- lp_len: header + 8 + 8 + 1 -/
def SeqPage.tupLen (p : SeqPage) : Nat := p.hoff + 17
/-- pd_upper = pd_special − MAXALIGN(lp_len) -/
def SeqPage.tupOff (p : SeqPage) : Nat := 8184 - (p.tupLen + 7) / 8 * 8

def b2byte (b : Bool) : UInt8 := if b then 1 else 0

def SeqPage.tuple (p : SeqPage) : Bytes :=
  le 4 p.xmin ++ le 4 p.xmax ++ le 4 p.cid ++ p.ctid ++ le 2 p.infomask2 ++ le 2 p.infomask ++
    [UInt8.ofNat p.hoff] ++ p.mid ++
    (le 8 (ofSigned 64 p.st.lastValue) ++ le 8 (ofSigned 64 p.st.logCnt) ++ [b2byte p.st.isCalled])

/-- the 8192-byte file -/
def encSeqPage (p : SeqPage) : Bytes :=
  p.hdr0 ++ le 2 28 ++ le 2 p.tupOff ++ le 2 8184 ++ le 2 (8192 + 4) ++ le 4 p.prune ++
    le 4 (p.tupOff + 2 ^ 15 * 1 + 2 ^ 17 * p.tupLen) ++
    zeros (p.tupOff - 28) ++ p.tuple ++ zeros (8184 - p.tupOff - p.tupLen) ++ (le 4 seqMagic ++ zeros 4)

def SeqPage.WF (p : SeqPage) : Prop :=
  p.hdr0.length = 12 ∧ p.prune < 2 ^ 32 ∧ p.xmin < 2 ^ 32 ∧ p.xmax < 2 ^ 32 ∧ p.cid < 2 ^ 32 ∧
  p.ctid.length = 6 ∧ p.infomask2 < 65536 ∧ p.infomask < 65536 ∧ p.hoff < 256 ∧
  (-(2 ^ 63 : Int) ≤ p.st.lastValue ∧ p.st.lastValue < 2 ^ 63) ∧
  (-(2 ^ 63 : Int) ≤ p.st.logCnt ∧ p.st.logCnt < 2 ^ 63)

instance SeqPage.decWF (p : SeqPage) : Decidable p.WF := by unfold SeqPage.WF; infer_instance

/-- what a reader must report -/
structure SeqView where
  lastValue : Int
  isCalled : Bool
deriving Repr, DecidableEq, Inhabited

def seqView (p : SeqPage) : SeqView := ⟨p.st.lastValue, p.st.isCalled⟩

/-- recognition: a page is a sequence page iff the u32 at pd_special (inside the page) is the magic -/
def isSeqPage (page : Bytes) : Bool :=
  let special := rdAt 2 16 page
  decide (0 < special) && decide (special + 4 ≤ 8192) && rdAt 4 special page == seqMagic

end PgVerif.Spec
