/-
  The same segment layout as `Spec.Wal.encSegment`, written the way PostgreSQL writes it
  (CopyXLogRecordToWAL): records are copied into the current page; when the page is full the copy moves to
  the next page, whose header gets XLP_FIRST_IS_CONTRECORD and xlp_rem_len = the bytes of the record still
  to come.  This encoder also says where it put each record (`Placed`), which is what a reader must report.
  `encSegment` (cut the stream of usable bytes into pages, positions by XLogBytePosToRecPtr arithmetic) and
  `encSegmentOp` are two independently written descriptions of one layout; they are proved equal
  (Props/C17.lean `C17_encoders_agree`), and the driver still compares them on every generated segment
  (family walseg, tag `layout=agree`).
-/
import PgVerif.Spec.Wal
namespace PgVerif.Spec.Wal
open PgVerif

/-- what follows the last whole record on a page -/
inductive Trailer where
  | zeros (bs : Bytes)              -- padding: nothing, or bytes of which the first 8 are zero
  | cut (r : WalRecord) (n : Nat)   -- the first `n` bytes (at least 8: xl_tot_len) of a record that continues on the next page
deriving Repr, Inhabited

def Trailer.bytes : Trailer → Bytes
  | .zeros bs => bs
  | .cut r n => (encRecord r).take n

def Trailer.WF (pre15 : Bool) : Trailer → Prop
  | .zeros bs => (bs.take 8).all (· == 0) = true
  | .cut r n => r.WF pre15 ∧ 8 ≤ n ∧ n < r.totLen

/-- how a record was placed, with the log position of its first byte -/
inductive Placed where
  | whole (lsn : Nat) (r : WalRecord)      -- entirely on one page
  | cut (lsn : Nat) (r : WalRecord)        -- its header is on the page, the record continues on the next page(s)
  | straddle (lsn : Nat) (r : WalRecord)   -- even its 24-byte header is split by the page end
deriving Repr, Inhabited

structure PageFill where
  whole : List WalRecord        -- the records that lie entirely on this page, from the current position
  trailer : Trailer
  placed : List Placed          -- every record that starts on this page
  carry : Bytes                 -- what is left of the record cut by the page end
  rest : List WalRecord         -- the records that start on later pages
deriving Repr, Inhabited

/-- fill the page at address `addr` from in-page position `p` with the records `rs` -/
def fillPage (addr : Nat) : Nat → List WalRecord → PageFill
  | p, [] => ⟨[], .zeros (zeros (8192 - p)), [], [], []⟩
  | p, r :: rs =>
    if p + align8 r.totLen ≤ 8192 then
      let f := fillPage addr (p + align8 r.totLen) rs
      { f with whole := r :: f.whole, placed := .whole (addr + p) r :: f.placed }
    else if p ≥ 8192 then ⟨[], .zeros [], [], [], r :: rs⟩
    else ⟨[], .cut r (8192 - p), [if 8192 - p ≥ 24 then .cut (addr + p) r else .straddle (addr + p) r],
          (encRecord r).drop (8192 - p), rs⟩

structure Layout where
  bytes : Bytes
  placed : List Placed
deriving Repr, Inhabited

def hdrSize (k : Nat) : Nat := if k = 0 then 40 else 24

/-- lay out at most `n` pages starting with page `k`; `carry` = the rest of the record begun before this page -/
def layoutPages (s : WalSegment) : Nat → Nat → Bytes → List WalRecord → Layout
  | 0, _, _, _ => ⟨[], []⟩
  | n+1, k, carry, rs =>
    let cap := 8192 - hdrSize k
    if align8 carry.length > cap then
      -- the whole page is continuation data, and more is to come
      let rest := layoutPages s n (k + 1) (carry.drop cap) rs
      ⟨pageHeader s k carry.length ++ carry.take cap ++ rest.bytes, rest.placed⟩
    else
      let f := fillPage (s.startAddr + 8192 * k) (hdrSize k + align8 carry.length) rs
      let page := pageHeader s k carry.length ++ pad8 carry ++
        ((f.whole.flatMap fun r => pad8 (encRecord r)) ++ f.trailer.bytes)
      if f.carry.isEmpty && f.rest.isEmpty then ⟨page, f.placed⟩
      else
        let rest := layoutPages s n (k + 1) f.carry f.rest
        ⟨page ++ rest.bytes, f.placed ++ rest.placed⟩

def WalSegment.layout (s : WalSegment) : Layout := layoutPages s (s.streamLen / 8 + 1) 0 s.pre s.records

def encSegmentOp (s : WalSegment) : Bytes := s.layout.bytes ++ zeros (8192 * s.tailPages)

def Placed.lsn : Placed → Nat
  | .whole l _ => l | .cut l _ => l | .straddle l _ => l

def Placed.record : Placed → WalRecord
  | .whole _ r => r | .cut _ r => r | .straddle _ r => r

/-- what must be reported for a placed record, however it was placed: all its fields and block references,
at the position of its first byte -/
def Placed.view (p : Placed) : RecView := recView p.lsn p.record

end PgVerif.Spec.Wal
