/-
  Spec side of the directory scan for deleted rows (C09; ScanAllDeletedRows): what a correct tool must report for a
  `Spec.Cluster` — the databases, tables and columns of the dump (`Spec.expectedDump`: same filters, same join), and for
  every table the rows of the row versions of its heap whose own hint bits say "deleter committed" (HEAP_XMAX_COMMITTED
  set, HEAP_XMAX_INVALID clear), in page then line-pointer order, with the values that were stored.
  Knows nothing about the Go code.
-/
import PgVerif.Spec.Cluster
namespace PgVerif.Spec
open PgVerif

/-- the row versions of a heap that a committed transaction deleted (or replaced by an UPDATE) and VACUUM has not removed -/
def deletedRowsOf (pages : List (List RowV)) : List RowV :=
  pages.flatten.filter fun r => deletedBits r.infomask

def expectedDeletedTable (val : Val) (d : DbContent) (o : Options) (r : ClassRow) : TableDump :=
  let attrs := userAttrs d.att r.oid
  let cols := attrs.map attrCol
  let rows : List DRow :=
    if o.listOnly then []
    else match d.heaps.lookup r.filenode with
      | some pages => (deletedRowsOf pages).map (rowOf val cols)
      | none => []
  { oid := r.oid, name := r.name, filenode := r.filenode, kind := [114],
    columns := attrs.map fun a => ⟨a.name, (typeName a.typid).getD [], a.typid⟩,
    rows, rowCount := rows.length }

def expectedDeletedDb (val : Val) (o : Options) (db : DbRow) (d : DbContent) : DatabaseDump :=
  { oid := db.oid, name := db.name,
    tables := sortTables ((d.cls.live.filter (selectedRel o)).map (expectedDeletedTable val d o)) }

/-- what the scan for deleted rows of cluster `c` under options `o` must contain -/
def expectedDeletedDump (val : Val) (c : Cluster) (o : Options) : DumpResult :=
  (c.dbs.live.filter (selectedDb o)).filterMap fun db =>
    (c.content.lookup db.oid).map (expectedDeletedDb val o db)

end PgVerif.Spec
