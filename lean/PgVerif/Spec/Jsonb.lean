/-
  PostgreSQL's binary JSONB (src/backend/utils/adt/jsonb_util.c: convertToJsonb, convertJsonbArray,
  convertJsonbObject, convertJsonbScalar) as an encoder from JSON documents.  Knows nothing about
  the Go code.

  container = u32 header (count | 0x1000_0000 SCALAR | 0x2000_0000 OBJECT | 0x4000_0000 ARRAY),
  JEntry array (arrays: n entries; objects: 2n entries in ONE array, n keys then n values), data.
  JEntry = type bits 0x7000_0000 (0 string, 1 numeric, 2 false, 3 true, 4 null, 5 container) | low 28 bits:
  the length of the child, or — when HAS_OFF 0x8000_0000 is set, which convertJsonb* does for every
  entry whose index in the whole entry array is a multiple of JB_OFFSET_STRIDE = 32 — the end offset
  of the child relative to the start of the data area.  Numerics (stored with their 4-byte varlena
  header) and containers are preceded by zero padding to a 4-byte boundary counted from the start of
  the varlena (the root container sits at offset 4); the padding is part of that child's length.
  A scalar document is a 1-element array with SCALAR set.
-/
import PgVerif.Spec.Numeric
namespace PgVerif.Spec
open PgVerif

inductive Json where
  | null
  | bool (b : Bool)
  | num (n : Numeric) (long : Bool)      -- `long`: stored with the long header although short would do
  | str (s : Bytes)
  | arr (xs : List Json)
  | obj (kvs : List (Bytes × Json))
deriving Repr, Inhabited

/-- bytewise (memcmp) order -/
def bytesLt : Bytes → Bytes → Bool
  | [], [] => false
  | [], _ :: _ => true
  | _ :: _, [] => false
  | a :: as, b :: bs => if a < b then true else if b < a then false else bytesLt as bs

/-- PostgreSQL's key order: shorter first, then bytewise (lengthCompareJsonbString) -/
def keyLt (a b : Bytes) : Bool := a.length < b.length || (a.length == b.length && Spec.bytesLt a b)

def keysSorted : List Bytes → Bool
  | [] => true
  | [_] => true
  | a :: b :: rest => keyLt a b && keysSorted (b :: rest)

def formOf (n : Numeric) (long : Bool) : HeaderForm :=
  if long then .long else if HeaderForm.short.admits n then .short else .long

mutual
/-- well-formed: object keys strictly increasing in PostgreSQL's order (hence unique), numerics
well-formed, strings and keys shorter than 2^28 -/
def Json.wf : Json → Bool
  | .null => true
  | .bool _ => true
  | .num n _ => decide n.WF
  | .str s => s.length < 2 ^ 28
  | .arr xs => wfList xs
  | .obj kvs => keysSorted (kvs.map (·.1)) && wfKvs kvs
def wfList : List Json → Bool
  | [] => true
  | x :: xs => x.wf && wfList xs
def wfKvs : List (Bytes × Json) → Bool
  | [] => true
  | (k, v) :: rest => decide (k.length < 2 ^ 28) && v.wf && wfKvs rest
end

def padTo4 (pos : Nat) : Nat := (4 - pos % 4) % 4

/-- a JEntry: type, HAS_OFF, 28-bit length-or-offset field -/
def mkEntry (ty : Nat) (hasOff : Bool) (v : Nat) : Nat :=
  ty * 0x10000000 + v + (if hasOff then 0x80000000 else 0)

/-- the JEntry of child number `idx` (index in the whole entry array) whose own length is `len` and
whose end offset is `total`: HAS_OFF on every 32nd -/
def strideEntry (idx ty len total : Nat) : Nat :=
  if idx % 32 == 0 then mkEntry ty true total else mkEntry ty false len

def encEntries : List Nat → Bytes
  | [] => []
  | e :: es => le 4 e ++ encEntries es

/-- JEntries and data of a run of string children (object keys), starting at entry index `idx`
with `total` data bytes already emitted -/
def encKeys (idx total : Nat) : List Bytes → List Nat × Bytes
  | [] => ([], [])
  | k :: ks =>
    let total' := total + k.length
    let (es, bs) := encKeys (idx + 1) total' ks
    (strideEntry idx 0 k.length total' :: es, k ++ bs)

mutual
/-- one child emitted at absolute position `pos` (counted from the start of the varlena):
(type, length incl. padding, bytes) -/
def encValue (pos : Nat) : Json → Nat × Bytes
  | .null => (4, [])
  | .bool false => (2, [])
  | .bool true => (3, [])
  | .str s => (0, s)
  | .num n long => (1, zeros (padTo4 pos) ++ varlena4 (encNumeric (formOf n long) n))
  | .arr xs =>
    let pad := padTo4 pos
    let r := encElems (pos + pad + 4 + 4 * xs.length) 0 0 xs
    (5, zeros pad ++ le 4 (xs.length + 0x40000000) ++ encEntries r.1 ++ r.2)
  | .obj kvs =>
    let pad := padTo4 pos
    let n := kvs.length
    let dataPos := pos + pad + 4 + 8 * n
    let k := encKeys 0 0 (kvs.map (·.1))
    let r := encVals (dataPos + k.2.length) n k.2.length kvs
    (5, zeros pad ++ le 4 (n + 0x20000000) ++ encEntries (k.1 ++ r.1) ++ k.2 ++ r.2)
/-- array elements from entry index `idx`, `total` data bytes already emitted, next byte at `pos` -/
def encElems (pos idx total : Nat) : List Json → List Nat × Bytes
  | [] => ([], [])
  | x :: xs =>
    let c := encValue pos x
    let total' := total + c.2.length
    let r := encElems (pos + c.2.length) (idx + 1) total' xs
    (strideEntry idx c.1 c.2.length total' :: r.1, c.2 ++ r.2)
/-- object values (same, over the pairs) -/
def encVals (pos idx total : Nat) : List (Bytes × Json) → List Nat × Bytes
  | [] => ([], [])
  | (_, x) :: rest =>
    let c := encValue pos x
    let total' := total + c.2.length
    let r := encVals (pos + c.2.length) (idx + 1) total' rest
    (strideEntry idx c.1 c.2.length total' :: r.1, c.2 ++ r.2)
end

def Json.isContainer : Json → Bool
  | .arr _ => true
  | .obj _ => true
  | _ => false

/-- the payload of the jsonb varlena (what follows its header): the root container, at offset 4;
a scalar is wrapped in a 1-element array flagged SCALAR -/
def encJsonb (j : Json) : Bytes :=
  if j.isContainer then (encValue 4 j).2
  else
    let r := encElems (4 + 4 + 4) 0 0 [j]
    le 4 (1 + 0x40000000 + 0x10000000) ++ encEntries r.1 ++ r.2

/-! ### view: the document a correct tool must report -/

/-- a JSON document as reported: numbers by their exact value (`NumView`), objects as key/value
lists (order immaterial, keys unique).  `undecodable` is never the view of a document (`Json.view`): it is what a tool's
answer is read as where it holds a number that denotes nothing (so that such an answer can equal no document's view). -/
inductive JView where
  | null
  | bool (b : Bool)
  | num (v : NumView)
  | str (s : Bytes)
  | arr (xs : List JView)
  | obj (kvs : List (Bytes × JView))
  | undecodable
deriving Repr, Inhabited

mutual
def Json.view : Json → JView
  | .null => .null
  | .bool b => .bool b
  | .num n _ => .num n.view
  | .str s => .str s
  | .arr xs => .arr (viewList xs)
  | .obj kvs => .obj (viewKvs kvs)
def viewList : List Json → List JView
  | [] => []
  | x :: xs => x.view :: viewList xs
def viewKvs : List (Bytes × Json) → List (Bytes × JView)
  | [] => []
  | (k, v) :: rest => (k, v.view) :: viewKvs rest
end

mutual
/-- no `undecodable` leaf anywhere -/
def JView.decodable : JView → Bool
  | .undecodable => false
  | .arr xs => JView.decodableList xs
  | .obj kvs => JView.decodableKvs kvs
  | _ => true
def JView.decodableList : List JView → Bool
  | [] => true
  | x :: xs => x.decodable && JView.decodableList xs
def JView.decodableKvs : List (Bytes × JView) → Bool
  | [] => true
  | (_, v) :: rest => v.decodable && JView.decodableKvs rest
end

end PgVerif.Spec
