/-
  Spec side of the per-database sequence listing: a database is a set of relations (pg_class rows), some of
  which are sequences (relkind 'S') with a sequence page as their file.  The listing a correct tool reports
  for a database = its sequence relations, each once, each with its own stored state.
-/
import PgVerif.Spec.Sequence
namespace PgVerif.Spec
open PgVerif

structure Rel where
  oid : Nat
  name : Bytes
  filenode : Nat
  kind : UInt8                  -- relkind: 'r', 'i', 'S', 't', 'v', …
  seq : Option SeqPage := none  -- the sequence page stored in the relation's file (sequences)
deriving Repr, Inhabited

structure Db where
  oid : Nat
  name : Bytes
  rels : List Rel
deriving Repr, Inhabited

structure SeqListing where
  name : Bytes
  oid : Nat
  filenode : Nat
  lastValue : Int
  isCalled : Bool
deriving Repr, DecidableEq, Inhabited

/-- the sequences of a database, in catalog order -/
def Db.sequences (d : Db) : List SeqListing :=
  d.rels.filterMap fun r =>
    if r.kind == 83 then r.seq.map fun p => ⟨r.name, r.oid, r.filenode, p.st.lastValue, p.st.isCalled⟩ else none

end PgVerif.Spec
