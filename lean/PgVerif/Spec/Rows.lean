/-
  Spec side of rows: PostgreSQL's tuple formation (heap_fill_tuple; DESIGN.md section 3 "Tuple formation",
  "Varlena", "External pointer", "pg_authid") as encoders from abstract rows to bytes, and the `view`
  a correct reader must report.  Knows nothing about the Go code: the scalar rendering of a payload is a
  parameter `val` (C03 is about which bytes a column gets, C04 about what they mean).
-/
import PgVerif.Basic.Canon
import PgVerif.Spec.Heap
import PgVerif.Spec.Pglz
import PgVerif.Spec.Lz4
namespace PgVerif.Spec
open PgVerif

/-- the compressed form of a value PostgreSQL stored compressed in line: a pglz stream (any token list — every tag form,
overlapping copies — whose expansion is the value) or an LZ4 block (PostgreSQL 14+) -/
inductive Comp where
  | pglz (ts : List Pglz.Tok)
  | lz4 (b : Lz4.Block)
deriving Repr, DecidableEq, Inhabited

/-- the value: what the stream stands for -/
def Comp.original : Comp → Bytes
  | .pglz ts => Pglz.expand ts
  | .lz4 b => Lz4.expand b

def Comp.stream : Comp → Bytes
  | .pglz ts => Pglz.renderPglz ts
  | .lz4 b => Lz4.render b

/-- va_tcinfo: size of the uncompressed data (no header) in the low 30 bits, compression method in the top 2
(0 pglz, 1 LZ4; PostgreSQL 12/13 know pglz only and write the plain size) -/
def Comp.tcinfo : Comp → Nat
  | .pglz ts => (Pglz.expand ts).length
  | .lz4 b => (Lz4.expand b).length + 2 ^ 30

/-- what follows the 4-byte varlena header: va_tcinfo, then the stream -/
def Comp.stored (z : Comp) : Bytes := le 4 z.tcinfo ++ z.stream

/-- a valid stream (tag fields in range, every offset within the output produced so far) standing for less than 1 GiB;
a pglz stream has at least 4 bytes (pglz never emits less for the ≥ 32-byte inputs PostgreSQL compresses) -/
def Comp.WF (z : Comp) : Prop :=
  z.original.length < 2 ^ 30 ∧
  match z with
  | .pglz ts => Pglz.PglzWF ts ∧ 4 ≤ (Pglz.renderPglz ts).length
  | .lz4 b => Lz4.Lz4WF b

instance (z : Comp) : Decidable z.WF := by
  unfold Comp.WF; cases z <;> simp only <;> infer_instance

/-- a column as the catalog describes it: attlen (>0 fixed, −1 varlena, −2 C string), attalign in bytes -/
structure Col where
  name : Bytes
  typid : Int
  len : Int
  align : Nat
deriving Repr, DecidableEq, Inhabited

/-- a stored (non-NULL) attribute value in one of the physical forms PostgreSQL uses -/
inductive Datum where
  | fixed (bs : Bytes)          -- attlen > 0: exactly attlen bytes
  | short (p : Bytes)           -- varlena, 1-byte header, payload p (≤ 126 bytes), never aligned
  | long (p : Bytes)            -- varlena, 4-byte header, uncompressed
  | compressed (z : Comp)       -- varlena, 4-byte header with the "compressed" bit, then z.stored = va_tcinfo ++ stream
  | external (body : Bytes)     -- on-disk TOAST pointer: 0x01, 0x12, then 16 bytes; never aligned
  | cstr (p : Bytes)            -- attlen −2: bytes then NUL
deriving Repr, DecidableEq, Inhabited

def alignUp (o a : Nat) : Nat := (o + a - 1) / a * a
def pad (o a : Nat) : Bytes := zeros (alignUp o a - o)

def Datum.WF (c : Col) : Datum → Prop
  | .fixed bs => 0 < c.len ∧ (bs.length : Int) = c.len
  | .short p => c.len = -1 ∧ p.length ≤ 126
  | .long p => c.len = -1 ∧ p.length + 4 < 2 ^ 30
  | .compressed z => c.len = -1 ∧ z.WF ∧ z.stored.length + 4 < 2 ^ 30
  | .external body => c.len = -1 ∧ body.length = 16
  | .cstr p => c.len = -2 ∧ c.align = 1 ∧ (0 : UInt8) ∉ p

instance (c : Col) (d : Datum) : Decidable (d.WF c) := by
  cases d <;> unfold Datum.WF <;> infer_instance

/-- heap_fill_tuple for one attribute whose data starts at offset `o` of the data area -/
def formDatum (c : Col) (o : Nat) : Datum → Bytes
  | .fixed bs => pad o c.align ++ bs
  | .short p => UInt8.ofNat (2 * (p.length + 1) + 1) :: p
  | .long p => pad o c.align ++ (le 4 ((p.length + 4) * 4) ++ p)
  | .compressed z => pad o c.align ++ (le 4 ((z.stored.length + 4) * 4 + 2) ++ z.stored)
  | .external body => 1 :: 18 :: body
  | .cstr p => p ++ [0]

/-- the data area: the stored attributes in order from offset `o`; a NULL occupies nothing -/
def form : List Col → List (Option Datum) → Nat → Bytes
  | c :: cs, some d :: vs, o => formDatum c o d ++ form cs vs (o + (formDatum c o d).length)
  | _ :: cs, none :: vs, o => form cs vs o
  | _, _, _ => []

/-- the byte with bits x0 (LSB) … x7 -/
def bits8 (x0 x1 x2 x3 x4 x5 x6 x7 : Bool) : Nat :=
  x0.toNat + 2 * x1.toNat + 4 * x2.toNat + 8 * x3.toNat + 16 * x4.toNat + 32 * x5.toNat + 64 * x6.toNat + 128 * x7.toNat

/-- bitmap byte `j`: bit `b` set iff attribute 8j+b is present -/
def bitmapByte (bits : List Bool) (j : Nat) : Nat :=
  let x (b : Nat) := bits.getD (8 * j + b) false
  bits8 (x 0) (x 1) (x 2) (x 3) (x 4) (x 5) (x 6) (x 7)

/-- t_bits: one bit per stored attribute, set = present, LSB first; unused bits of the last byte are 0 -/
def encBitmap (bits : List Bool) : Bytes :=
  (List.range ((bits.length + 7) / 8)).map fun j => UInt8.ofNat (bitmapByte bits j)

/-- a row: one optional datum per column, of which the first `natts` are stored (the others were added
to the table later and read as NULL) -/
structure RowV where
  vals : List (Option Datum)
  natts : Nat
  infomask : Nat      -- visibility and other bits; HASNULL/HASVARWIDTH/HASEXTERNAL are set by `formTuple`
deriving Repr, Inhabited

def RowV.present (r : RowV) : List Bool := (r.vals.take r.natts).map Option.isSome
def RowV.hasNull (r : RowV) : Bool := r.present.any (!·)

def RowV.WF (cols : List Col) (r : RowV) : Prop :=
  r.vals.length = cols.length ∧ r.natts ≤ cols.length ∧ r.natts ≤ 1600 ∧ r.infomask < 65536 ∧
  (∀ p ∈ cols.zip r.vals, (p.1.align = 1 ∨ p.1.align = 2 ∨ p.1.align = 4 ∨ p.1.align = 8) ∧ ∀ d, p.2 = some d → d.WF p.1)

instance (cols : List Col) (r : RowV) : Decidable (r.WF cols) := by unfold RowV.WF; infer_instance

def isVarwidth : Option Datum → Bool
  | some (.fixed _) => false
  | some _ => true
  | none => false
def isExternal : Option Datum → Bool
  | some (.external _) => true
  | _ => false

/-- heap_form_tuple: header (23 bytes + null bitmap, padded to MAXALIGN) and data -/
def formTuple (cols : List Col) (r : RowV) : Tuple :=
  let bm := if r.hasNull then encBitmap r.present else []
  let hoff := (23 + bm.length + 7) / 8 * 8
  let stored := r.vals.take r.natts
  let flags := (if r.hasNull then 1 else 0) + (if stored.any isVarwidth then 2 else 0) + (if stored.any isExternal then 4 else 0)
  { xmin := 2, xmax := 0, cid := 0, ctid := zeros 6, infomask2 := r.natts,
    infomask := r.infomask / 8 * 8 + flags,
    mid := bm ++ zeros (hoff - 23 - bm.length),
    data := form (cols.take r.natts) stored 0 }

/-- the fields of a stored tuple header that play no part in decoding the row: inserting / deleting transaction,
command id, t_ctid (self pointer, or the successor version after an UPDATE) and the five high bits of t_infomask2
(0x0800, 0x1000 unused, HEAP_KEYS_UPDATED 0x2000, HEAP_HOT_UPDATED 0x4000, HEAP_ONLY_TUPLE 0x8000) as a number
below 32.  The defaults are the values `formTuple` fixes. -/
structure HdrFields where
  xmin : Nat := 2
  xmax : Nat := 0
  cid : Nat := 0
  ctid : Bytes := zeros 6
  flags2 : Nat := 0
deriving Repr, DecidableEq, Inhabited

def HdrFields.WF (h : HdrFields) : Prop := h.ctid.length = 6 ∧ h.flags2 < 32

instance (h : HdrFields) : Decidable h.WF := by unfold HdrFields.WF; infer_instance

/-- heap_form_tuple with the header fields that do not matter as parameters: any xmin / xmax / cid / t_ctid and any
flag bits of t_infomask2 beside the attribute count (a never-updated tuple, the dead version an UPDATE / ALTER
leaves behind, its HOT successor …).  `formTuple cols r = formTupleH {} cols r` (`formTuple_eq_H`). -/
def formTupleH (h : HdrFields) (cols : List Col) (r : RowV) : Tuple :=
  let bm := if r.hasNull then encBitmap r.present else []
  let hoff := (23 + bm.length + 7) / 8 * 8
  let stored := r.vals.take r.natts
  let flags := (if r.hasNull then 1 else 0) + (if stored.any isVarwidth then 2 else 0) + (if stored.any isExternal then 4 else 0)
  { xmin := h.xmin, xmax := h.xmax, cid := h.cid, ctid := h.ctid, infomask2 := r.natts + 2048 * h.flags2,
    infomask := r.infomask / 8 * 8 + flags,
    mid := bm ++ zeros (hoff - 23 - bm.length),
    data := form (cols.take r.natts) stored 0 }

theorem formTuple_eq_H (cols : List Col) (r : RowV) : formTuple cols r = formTupleH {} cols r := rfl

/-- what the reader must report for a stored datum, given the rendering `val` of (payload, type oid):
the payload of a fixed / short / long value, the ORIGINAL (uncompressed) bytes of an inline-compressed one, the C
string itself; an external value cannot be resolved from the tuple alone and is
reported as the tool's placeholder nil (its resolution is C08's business) -/
def expectedVal (val : Bytes → Int → M GoVal) (c : Col) : Datum → M GoVal
  | .fixed bs => val bs c.typid
  | .short p => val p c.typid
  | .long p => val p c.typid
  | .compressed z => val z.original c.typid
  | .external _ => pure .nil
  | .cstr p => pure (.str p)

/-- (name, value) for every declared column, in column order: NULL where the value is NULL and for the
columns beyond the stored attribute count -/
def expectedCols (val : Bytes → Int → M GoVal) : List Col → List (Option Datum) → Nat → M (List (Bytes × GoVal))
  | c :: cs, v :: vs, natts => do
    let x ← match natts, v with
      | _ + 1, some d => expectedVal val c d
      | _, _ => pure GoVal.nil
    let rest ← expectedCols val cs vs (natts - 1)
    pure ((c.name, x) :: rest)
  | _, _, _ => pure []

def rowView (val : Bytes → Int → M GoVal) (cols : List Col) (r : RowV) : M (List (Bytes × GoVal)) :=
  expectedCols val cols r.vals r.natts

/-! ### row versions of a heap file (C09) -/

/-- a stored row version: the free header fields (who inserted / deleted it, where its successor is, the
t_infomask2 flag bits) and the row (attribute values, stored attribute count, t_infomask) -/
abbrev RowVer := HdrFields × RowV

def formVer (cols : List Col) (v : RowVer) : Tuple := formTupleH v.1 cols v.2

/-- length of the data area of the stored row (what `raw_size` of a recovered row must be) -/
def RowV.dataLen (cols : List Col) (r : RowV) : Nat := (form (cols.take r.natts) (r.vals.take r.natts) 0).length

/-- the same row under another t_infomask (the hint bits a later DELETE / UPDATE / VACUUM sets) -/
def RowV.withMask (r : RowV) (m : Nat) : RowV := { r with infomask := m }

/-- typalign in bytes (c 1, s 2, i 4, d 8) of PostgreSQL's built-in types (pg_type.dat, PostgreSQL 12–16) for the
type oids a reader may have to align without catalog help.  An array type is 'd' aligned iff its element type
is; a range type iff its subtype is; path and polygon hold float8 points and are 'd' aligned. -/
def pgTypAlign : List (Nat × Nat) :=
  [(16, 1), (17, 4), (18, 1), (19, 1), (20, 8), (21, 2), (23, 4), (25, 4), (26, 4), (27, 2), (28, 4), (29, 4),
   (114, 4), (142, 4), (600, 8), (601, 8), (602, 8), (603, 8), (604, 8), (628, 8), (650, 4), (700, 4), (701, 8),
   (718, 8), (774, 4), (790, 8), (829, 4), (869, 4), (1042, 4), (1043, 4), (1082, 4), (1083, 8), (1114, 8),
   (1184, 8), (1186, 8), (1266, 8), (1560, 4), (1562, 4), (1700, 4), (2950, 1), (3220, 8), (3614, 4), (3615, 4),
   (3802, 4), (3904, 4), (3906, 4), (3908, 8), (3910, 8), (3912, 4), (3926, 8), (4072, 4),
   -- txid_snapshot, pg_snapshot, xid8; ts / tstz / int8 multiranges (PostgreSQL 14+)
   (2970, 8), (5038, 8), (5069, 8), (4533, 8), (4534, 8), (4536, 8),
   -- arrays of 'd' aligned element types
   (629, 8), (719, 8), (791, 8), (1016, 8), (1017, 8), (1018, 8), (1019, 8), (1020, 8), (1022, 8), (1027, 8),
   (1115, 8), (1183, 8), (1185, 8), (1187, 8), (1270, 8), (3221, 8), (3909, 8), (3911, 8), (3927, 8),
   (2949, 8), (5039, 8), (271, 8), (6152, 8), (6153, 8), (6157, 8),
   -- arrays of other element types
   (1000, 4), (1001, 4), (1002, 4), (1003, 4), (1005, 4), (1006, 4), (1007, 4), (1008, 4), (1009, 4), (1010, 4),
   (1011, 4), (1012, 4), (1014, 4), (1015, 4), (1021, 4), (1028, 4), (1040, 4), (1041, 4), (1182, 4), (1231, 4),
   (1561, 4), (1563, 4), (2951, 4), (3643, 4), (3645, 4), (3807, 4), (4073, 4), (651, 4), (775, 4), (3905, 4),
   (3907, 4), (3913, 4)]

/-- typlen of the fixed-length types of `pgTypAlign` (pg_type.dat); every other type of that table is a varlena (−1) -/
def pgTypLen : List (Nat × Int) :=
  [(16, 1), (18, 1), (19, 64), (20, 8), (21, 2), (23, 4), (26, 4), (27, 6), (28, 4), (29, 4), (600, 16), (601, 32), (603, 32),
   (628, 24), (700, 4), (701, 8), (718, 24), (774, 8), (790, 8), (829, 6), (1082, 4), (1083, 8), (1114, 8), (1184, 8),
   (1186, 16), (1266, 12), (2950, 16), (3220, 8), (5069, 8)]

def pgTypLenOf (oid : Nat) : Int := (pgTypLen.lookup oid).getD (-1)

/-- (oid, typlen, typalign in bytes) of the other built-in types of PostgreSQL 12–16 that can be the type of a stored
column and whose length and alignment are the same in every one of these versions (pg_type.dat): int2vector, regproc,
oidvector, pg_node_tree, refcursor, the reg* types, gtsvector, the statistics and BRIN summary types, the 'i' aligned
multiranges, and the array types of 'i' aligned elements that `pgTypAlign` does not list.  A reader that gets no
alignment from the catalog must still align them as PostgreSQL does.  (aclitem is not listed: 12 bytes 'i' up to
PostgreSQL 15, 16 bytes 'd' in 16.) -/
def pgTypOther : List (Nat × Int × Nat) :=
  [(22, -1, 4), (24, 4, 4), (30, -1, 4), (194, -1, 4), (1790, -1, 4), (2202, 4, 4), (2203, 4, 4), (2204, 4, 4), (2205, 4, 4),
   (2206, 4, 4), (4096, 4, 4), (4089, 4, 4), (3734, 4, 4), (3769, 4, 4), (4191, 4, 4), (3642, -1, 4), (3361, -1, 4),
   (3402, -1, 4), (5017, -1, 4), (4600, -1, 4), (4601, -1, 4), (4451, -1, 4), (4532, -1, 4), (4535, -1, 4),
   (1013, -1, 4), (2201, -1, 4), (2207, -1, 4), (2208, -1, 4), (2209, -1, 4), (2210, -1, 4),
   (2211, -1, 4), (3735, -1, 4), (3770, -1, 4), (6150, -1, 4), (6151, -1, 4), (6155, -1, 4), (199, -1, 4), (143, -1, 4),
   (3644, -1, 4), (4090, -1, 4), (4097, -1, 4), (4192, -1, 4)]

/-! ### pg_authid (PostgreSQL 12+: oid is an ordinary first column) -/

structure Role where
  oid : Nat
  name : Bytes
  super : Bool
  inherit : Bool
  createrole : Bool
  createdb : Bool
  canlogin : Bool
  replication : Bool
  bypassrls : Bool
  connlimit : Nat          -- as the unsigned 32-bit image of the int4
  password : Option Bytes
  validUntil : Option Nat  -- as the unsigned 64-bit image of the timestamptz
deriving Repr, DecidableEq, Inhabited

def Role.WF (r : Role) : Prop :=
  r.oid < 2 ^ 32 ∧ 1 ≤ r.name.length ∧ r.name.length ≤ 63 ∧ (0 : UInt8) ∉ r.name ∧ r.connlimit < 2 ^ 32 ∧
  (∀ p, r.password = some p → 1 ≤ p.length ∧ p.length + 4 < 2 ^ 30) ∧ (∀ v, r.validUntil = some v → v < 2 ^ 64)

instance (r : Role) : Decidable r.WF := by
  unfold Role.WF
  cases r.password <;> cases r.validUntil <;> simp <;> infer_instance

def bcol (n : String) : Col := ⟨strBytes n, 16, 1, 1⟩

def authidCols : List Col :=
  [⟨strBytes "oid", 26, 4, 4⟩, ⟨strBytes "rolname", 19, 64, 1⟩, bcol "rolsuper", bcol "rolinherit",
   bcol "rolcreaterole", bcol "rolcreatedb", bcol "rolcanlogin", bcol "rolreplication", bcol "rolbypassrls",
   ⟨strBytes "rolconnlimit", 23, 4, 4⟩, ⟨strBytes "rolpassword", 25, -1, 4⟩, ⟨strBytes "rolvaliduntil", 1184, 8, 8⟩]

def boolDatum (b : Bool) : Option Datum := some (.fixed [if b then 1 else 0])

/-- text datum as PostgreSQL stores it in a catalog row: 1-byte header when it fits, else 4-byte header -/
def textDatum (p : Bytes) : Datum := if p.length ≤ 126 then .short p else .long p

def roleVals (r : Role) : List (Option Datum) :=
  [some (.fixed (le 4 r.oid)), some (.fixed (r.name ++ zeros (64 - r.name.length))),
   boolDatum r.super, boolDatum r.inherit, boolDatum r.createrole, boolDatum r.createdb, boolDatum r.canlogin,
   boolDatum r.replication, boolDatum r.bypassrls, some (.fixed (le 4 r.connlimit)),
   r.password.map textDatum, r.validUntil.map fun v => .fixed (le 8 v)]

/-- a stored version of a role: the row and its header bits (live, or dead after ALTER/DROP ROLE) -/
def encRole (r : Role) (infomask : Nat) : Tuple :=
  formTuple authidCols { vals := roleVals r, natts := 12, infomask }

/-- the same with arbitrary header fields (xmin / xmax / cid / t_ctid / t_infomask2 flag bits): what a real
pg_authid holds — bootstrap roles with xmin 1, the dead version ALTER ROLE leaves behind (xmax, t_ctid → successor,
HOT_UPDATED | KEYS_UPDATED) and its successor (ONLY_TUPLE) -/
def encRoleH (h : HdrFields) (r : Role) (infomask : Nat) : Tuple :=
  formTupleH h authidCols { vals := roleVals r, natts := 12, infomask }

/-- what credential extraction must report for a role version -/
structure RoleView where
  oid : Nat
  name : Bytes
  password : Bytes       -- empty = no password
  super : Bool
  canlogin : Bool
deriving Repr, DecidableEq

def roleView (r : Role) : RoleView := ⟨r.oid, r.name, r.password.getD [], r.super, r.canlogin⟩

end PgVerif.Spec
