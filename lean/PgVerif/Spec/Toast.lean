/-
  Spec side of TOAST (DESIGN.md section 3 rows "Varlena", "External pointer", "TOAST relation").
    * `ExtPtr` / `encExtPtr`: the 18-byte on-disk external pointer (varattrib_1b_e + varatt_external).
    * `Content` / `ToastValue`: a toasted value — its original bytes, the stored (external) form
      (plain, or va_tcinfo ++ pglz/LZ4 stream), its split into chunks, and the pointer PostgreSQL writes.
    * `Row`: a tuple of the TOAST relation (chunk_id oid, chunk_seq int4, chunk_data bytea);
      `toastVisible`: PostgreSQL's visibility rule for TOAST chunks (HeapTupleSatisfiesToast), from the tuple header alone;
      `Layout`: rows placed on pages (any order, mixed with other values' rows and with rows of aborted insertions —
      the dead chunk versions), `encToastRel` its heap file.
    * `stats`: the tallies a per-table TOAST report must show.
  Knows nothing about the Go code.  Core Lean only (driver path).
-/
import PgVerif.Spec.Heap
import PgVerif.Spec.Pglz
import PgVerif.Spec.Lz4
namespace PgVerif.Spec.Toast
open PgVerif PgVerif.Spec

/-! ### external pointer -/

structure ExtPtr where
  rawsize : Nat       -- va_rawsize: original size INCLUDING the 4-byte varlena header
  extsize : Nat       -- low 30 bits of va_extinfo: bytes stored externally (no header)
  method : Nat        -- top 2 bits of va_extinfo: 0 pglz, 1 lz4
  valueid : Nat       -- va_valueid = chunk_id
  toastrelid : Nat    -- va_toastrelid
deriving Repr, DecidableEq, Inhabited

/-- bytes 0,1 = 0x01 (1-byte external header), 0x12 (VARTAG_ONDISK = 18); then the four u32 fields -/
def encExtPtr (p : ExtPtr) : Bytes :=
  [1, 18] ++ le 4 p.rawsize ++ le 4 (p.extsize + 2 ^ 30 * p.method) ++ le 4 p.valueid ++ le 4 p.toastrelid

/-- all 2^128 field combinations -/
def ExtPtr.WF (p : ExtPtr) : Prop :=
  p.rawsize < 2 ^ 32 ∧ p.extsize < 2 ^ 30 ∧ p.method < 4 ∧ p.valueid < 2 ^ 32 ∧ p.toastrelid < 2 ^ 32

instance (p : ExtPtr) : Decidable p.WF := by unfold ExtPtr.WF; infer_instance

structure PtrView where
  rawSize : Nat
  extSize : Nat
  valueID : Nat
  toastRelID : Nat
  isCompressed : Bool
  method : Nat
deriving Repr, DecidableEq

/-- VARATT_EXTERNAL_IS_COMPRESSED: extsize < rawsize − VARHDRSZ -/
def ExtPtr.compressed (p : ExtPtr) : Bool := decide (p.extsize + 4 < p.rawsize)

def ptrView (p : ExtPtr) : PtrView :=
  ⟨p.rawsize, p.extsize, p.valueid, p.toastrelid, p.compressed, p.method⟩

/-! ### a toasted value -/

inductive Content where
  | plain (raw : Bytes)
  | pglz (ts : List Pglz.Tok)
  | lz4 (b : Lz4.Block)
deriving Repr, Inhabited

def Content.original : Content → Bytes
  | .plain raw => raw
  | .pglz ts => Pglz.expand ts
  | .lz4 b => Lz4.expand b

def Content.method : Content → Nat
  | .lz4 _ => 1
  | _ => 0

/-- the externally stored bytes: the value itself, or va_tcinfo (raw size in the low 30 bits, method in the
top 2) followed by the compressed stream -/
def Content.stored (c : Content) : Bytes :=
  match c with
  | .plain raw => raw
  | .pglz ts => le 4 (Pglz.expand ts).length ++ Pglz.renderPglz ts
  | .lz4 b => le 4 ((Lz4.expand b).length + 2 ^ 30) ++ Lz4.render b

def Content.isCompressed : Content → Bool
  | .plain _ => false
  | _ => true

/-- PostgreSQL keeps a compressed form only if it is smaller: `extsize < rawsize − 4` is how a reader tells -/
def Content.WF (c : Content) : Prop :=
  1 ≤ c.stored.length ∧ c.original.length + 4 < 2 ^ 30 ∧
  match c with
  | .plain _ => True
  | .pglz ts => Pglz.PglzWF ts ∧ c.stored.length < c.original.length
  | .lz4 b => Lz4.Lz4WF b ∧ c.stored.length < c.original.length

instance (c : Content) : Decidable c.WF := by
  unfold Content.WF; cases c <;> simp only <;> infer_instance

structure ToastValue where
  id : Nat                 -- va_valueid
  relid : Nat              -- oid of the TOAST relation
  content : Content
  cuts : List Nat          -- chunk sizes, in sequence order (PostgreSQL: 1996, …, 1996, rest)
deriving Repr, Inhabited

/-- split `bs` into pieces of the given sizes -/
def pieces : List Nat → Bytes → List Bytes
  | [], _ => []
  | n :: ns, bs => bs.take n :: pieces ns (bs.drop n)

def ToastValue.WF (v : ToastValue) : Prop :=
  v.id < 2 ^ 32 ∧ v.relid < 2 ^ 32 ∧ v.content.WF ∧ (∀ n ∈ v.cuts, 1 ≤ n) ∧ v.cuts.sum = v.content.stored.length

instance (v : ToastValue) : Decidable v.WF := by unfold ToastValue.WF; infer_instance

/-- the pointer left in the main tuple -/
def ptrOf (v : ToastValue) : ExtPtr :=
  ⟨v.content.original.length + 4, v.content.stored.length, v.content.method, v.id, v.relid⟩

/-! ### rows of the TOAST relation -/

structure Row where
  id : Nat
  seq : Nat
  data : Bytes
  short : Bool := false    -- 1-byte varlena header (never written by PostgreSQL for chunk_data, accepted by its reader)
deriving Repr, DecidableEq, Inhabited

def Row.WF (r : Row) : Prop :=
  r.id < 2 ^ 32 ∧ r.seq < 2 ^ 31 ∧ 1 ≤ r.data.length ∧ r.data.length + 4 < 2 ^ 30 ∧ (r.short = true → r.data.length ≤ 126)

instance (r : Row) : Decidable r.WF := by unfold Row.WF; infer_instance

/-- varlena with a 4-byte header (length·4, low bits 00) or a 1-byte header (length·2 + 1) -/
def encVarlena (short : Bool) (d : Bytes) : Bytes :=
  if short then UInt8.ofNat (2 * (d.length + 1) + 1) :: d else le 4 (4 * (d.length + 4)) ++ d

/-- user data of a TOAST tuple: oid, int4, bytea (offset 8 is 4-aligned: no padding) -/
def rowData (r : Row) : Bytes := le 4 r.id ++ le 4 r.seq ++ encVarlena r.short r.data

/-- the rows of a value, in sequence order -/
def chunkRowsFrom (id : Nat) : Nat → List Bytes → List Row
  | _, [] => []
  | k, p :: ps => { id, seq := k, data := p } :: chunkRowsFrom id (k + 1) ps

def chunkRows (v : ToastValue) : List Row := chunkRowsFrom v.id 0 (pieces v.cuts v.content.stored)

/-- a stored tuple of the TOAST relation: 3 attributes, no nulls, t_hoff 24 -/
def rowTuple (r : Row) (infomask xmin xmax : Nat) : Tuple :=
  { xmin, xmax, cid := 0, ctid := zeros 6, infomask2 := 3, infomask, mid := [0], data := rowData r }

/-! ### placement on pages -/

/-- one stored tuple: a row and its header state (`toastVisible infomask xmin` decides whether PostgreSQL reads it) -/
structure Entry where
  row : Row
  infomask : Nat := 0x0902    -- HASVARWIDTH | XMIN_COMMITTED | XMAX_INVALID
  xmin : Nat := 700
  xmax : Nat := 0
deriving Repr, Inhabited

def Entry.tuple (e : Entry) : Tuple := rowTuple e.row e.infomask e.xmin e.xmax

/-- **PostgreSQL's visibility rule for TOAST chunks** (`HeapTupleSatisfiesToast`, heapam_visibility.c, 12–16; every
detoasting read uses SnapshotToast):
```
if (!HeapTupleHeaderXminCommitted(tuple)) {
    if (HeapTupleHeaderXminInvalid(tuple)) return false;
    /* HEAP_MOVED_OFF / HEAP_MOVED_IN: pre-9.0 VACUUM FULL, cannot occur in a 12–16 cluster */
    else if (!TransactionIdIsValid(HeapTupleHeaderGetRawXmin(tuple))) return false;   /* cancelled speculative insertion */
}
return true;   /* otherwise assume the tuple is valid for TOAST */
```
`XminCommitted` = HEAP_XMIN_COMMITTED (0x0100, bit 8) set — this includes frozen tuples (0x0300); `XminInvalid` = of the two
bits only HEAP_XMIN_INVALID (0x0200, bit 9) set: the inserting transaction is known to have aborted.  t_xmax, the XMAX
hint bits and the commit log are not looked at: whether a VALUE is alive is decided by the visibility of the main tuple that
holds the pointer; value ids are never reused while rows carrying them exist, so within one relation the only rows that can
share a (chunk_id, chunk_seq) with a visible chunk are leftovers of aborted insertions. -/
def toastVisible (infomask xmin : Nat) : Bool :=
  infomask.testBit 8 || (!infomask.testBit 9 && xmin != 0)

/-- a stored row is LIVE iff PostgreSQL's TOAST snapshot sees it -/
def Entry.live (e : Entry) : Bool := toastVisible e.infomask e.xmin

/-- pages of entries, in physical order -/
abbrev Layout := List (List Entry)

def Entry.len (e : Entry) : Nat := e.tuple.len

/-- a page holding the given tuples: pointers in order, tuples packed at the end of the page -/
def toastPage (es : List Entry) : Page :=
  let used := (es.map fun e => e.len).sum
  { hdr0 := zeros 12, special := 8192, version := 4, prune := 0,
    lps := (List.range es.length).map .normal,
    free := zeros (8192 - 24 - 4 * es.length - used),
    slots := es.map fun e => ([], e.tuple), tail := [] }

def Entry.WF (e : Entry) : Prop :=
  e.row.WF ∧ e.infomask < 65536 ∧ e.infomask.testBit 0 = false ∧ e.xmin < 2 ^ 32 ∧ e.xmax < 2 ^ 32

instance (e : Entry) : Decidable e.WF := by unfold Entry.WF; infer_instance

def pageFits (es : List Entry) : Prop := 24 + 4 * es.length + (es.map fun e => e.len).sum ≤ 8192

def Layout.WF (lay : Layout) : Prop := ∀ pg ∈ lay, pageFits pg ∧ ∀ e ∈ pg, e.WF

instance (lay : Layout) : Decidable lay.WF := by unfold Layout.WF pageFits; infer_instance

def encToastRel (lay : Layout) : Bytes := encHeap (lay.map fun pg => Block.page (toastPage pg)) []

/-! ### pages as PostgreSQL really leaves them: line pointers that are not LP_NORMAL

After deletes + VACUUM (and pruning / index-scan kills) the line pointer array of a page is not a dense run of NORMAL
pointers: freed slots stay as LP_UNUSED (all-zero) wherever they were — PostgreSQL truncates only TRAILING unused
pointers and never moves used ones —, killed items are LP_DEAD (without storage after pruning, with storage after
`ItemIdMarkDead`), and LP_REDIRECT entries carry a pointer NUMBER in lp_off.  None of them carries a tuple: the rows
of the relation (`Layout.liveRows`, `Stores`, `stats`) are those behind NORMAL pointers, exactly as without holes. -/

/-- one non-NORMAL line pointer.  `flags`: 0 LP_UNUSED, 2 LP_REDIRECT, 3 LP_DEAD.  `off`: the lp_off field of a pointer
without storage (REDIRECT: the target pointer number; UNUSED / DEAD: 0).  `storage`: the bytes of a dead item still on the
page (LP_DEAD with storage: lp_off / lp_len then name these bytes). -/
structure Hole where
  flags : Nat
  off : Nat := 0
  storage : Bytes := []
deriving Repr, Inhabited

def Hole.unused : Hole := { flags := 0 }
def Hole.dead : Hole := { flags := 3 }
def Hole.redirect (to : Nat) : Hole := { flags := 2, off := to }
/-- LP_DEAD with storage: the tuple `e` is still on the page -/
def Hole.deadStored (e : Entry) : Hole := { flags := 3, storage := encTuple e.tuple }

/-- the holes of one page with `n` entries: element `i < n` = the pointers in front of entry `i`'s pointer, element `n` =
those behind the last entry's pointer (missing elements = none) -/
abbrev Holes := List (List Hole)

def holesAt (hs : Holes) (i : Nat) : List Hole := hs.getD i []

/-- the storage of the holes in front of entry `i`: it lies in front of entry `i`'s tuple -/
def junkAt (hs : Holes) (i : Nat) : Bytes := (holesAt hs i).flatMap (·.storage)

def holeCount (hs : Holes) (n : Nat) : Nat := ((List.range (n + 1)).map fun i => (holesAt hs i).length).sum

/-- the pointers of a group of holes whose storage starts at page offset `start` -/
def holeLPs : Nat → List Hole → List LP
  | _, [] => []
  | start, h :: hs =>
    (if h.storage.isEmpty then LP.other h.off h.flags 0 else LP.other start h.flags h.storage.length) ::
      holeLPs (start + h.storage.length) hs

/-- a page holding the given tuples behind NORMAL pointers (in order, storage packed towards the end of the page) with
non-NORMAL pointers before, between and after them; the storage of the trailing group lies behind the last tuple -/
def toastPageH (es : List Entry) (hs : Holes) : Page :=
  let n := es.length
  let slots : List (Bytes × Tuple) := es.zipIdx.map fun (e, i) => (junkAt hs i, e.tuple)
  let tail := junkAt hs n
  let lower := 24 + 4 * (n + holeCount hs n)
  let upper := 8192 - ((slots.map slotLen).sum + tail.length)
  let startOf (i : Nat) : Nat := upper + ((slots.take i).map slotLen).sum
  { hdr0 := zeros 12, special := 8192, version := 4, prune := 0,
    lps := ((List.range n).flatMap fun i => holeLPs (startOf i) (holesAt hs i) ++ [.normal i]) ++
             holeLPs (startOf n) (holesAt hs n),
    free := zeros (upper - lower), slots, tail }

def pageFitsH (es : List Entry) (hs : Holes) : Prop :=
  24 + 4 * (es.length + holeCount hs es.length) + (es.map fun e => e.len).sum +
    ((List.range (es.length + 1)).map fun i => (junkAt hs i).length).sum ≤ 8192

instance (es : List Entry) (hs : Holes) : Decidable (pageFitsH es hs) := by unfold pageFitsH; infer_instance

/-- `holes`: one `Holes` per page (missing = no holes on that page) -/
def encToastRelH (lay : Layout) (holes : List Holes) : Bytes :=
  encHeap (lay.zipIdx.map fun (pg, i) => Block.page (toastPageH pg (holes.getD i []))) []

/-- the live rows, in physical order -/
def Layout.liveRows (lay : Layout) : List Row := (lay.flatten.filter (·.live)).map (·.row)

/-- the relation stores value `v`: the rows PostgreSQL's TOAST snapshot sees with chunk_id = v.id are exactly v's chunks, in
some order (what `toast_fetch_datum` requires; every other row with that chunk id is a dead version: an aborted insertion) -/
def Layout.Stores (lay : Layout) (v : ToastValue) : Prop :=
  (lay.liveRows.filter fun r => r.id == v.id).Perm (chunkRows v)

instance (lay : Layout) (v : ToastValue) : Decidable (lay.Stores v) := by unfold Layout.Stores; infer_instance

/-! ### per-table statistics -/

structure ValueStat where
  chunkID : Nat
  numChunks : Nat
  totalSize : Nat
deriving Repr, DecidableEq

structure Stats where
  totalChunks : Nat
  totalSize : Nat
  uniqueValues : Nat
  maxChunksPerValue : Nat
  /-- chunks-per-value ↦ number of values, sorted by key -/
  distribution : List (Nat × Nat)
  /-- one entry per value, sorted by chunk id -/
  values : List ValueStat
deriving Repr, DecidableEq

def insertSorted (x : Nat) : List Nat → List Nat
  | [] => [x]
  | y :: ys => if x ≤ y then x :: y :: ys else y :: insertSorted x ys

def sortNat (xs : List Nat) : List Nat := xs.foldr insertSorted []

def dedupSorted : List Nat → List Nat
  | [] => []
  | [x] => [x]
  | x :: y :: ys => if x = y then dedupSorted (y :: ys) else x :: dedupSorted (y :: ys)

/-- tallies over a list of rows (the live rows of the relation) -/
def stats (rows : List Row) : Stats :=
  let ids := dedupSorted (sortNat (rows.map (·.id)))
  let vals := ids.map fun i =>
    let mine := rows.filter (·.id == i)
    (⟨i, mine.length, (mine.map (·.data.length)).sum⟩ : ValueStat)
  let counts := dedupSorted (sortNat (vals.map (·.numChunks)))
  { totalChunks := rows.length, totalSize := (rows.map (·.data.length)).sum,
    uniqueValues := ids.length,
    maxChunksPerValue := (vals.map (·.numChunks)).foldl max 0,
    distribution := counts.map fun c => (c, (vals.filter (·.numChunks == c)).length),
    values := vals }

end PgVerif.Spec.Toast
