/-
  The documented behaviour of Go's `encoding/json.Unmarshal(data, &v)` with `v interface{}`, as far as
  pgread's `json` decoder uses it (`DecodeType(data, 114)`), built on the neutral RFC 8259 parser
  `Spec.Json.parse` (total, fuel based):

    null → nil, true/false → bool, string → string (escapes decoded), array → []interface{},
    object → map[string]interface{} (a repeated key overwrites the earlier value; here: the first position
    is kept, the last value wins — `mapInsert`), number → float64 = `strconv.ParseFloat(text, 64)`,
    i.e. the binary64 nearest to the exact decimal value (ties to even); a number whose nearest
    binary64 would be ±Inf is an error (`ErrRange` → `UnmarshalTypeError`), a number that underflows is ±0.

  What is *not* modelled (the neutral parser rejects where Go accepts; outside the image of the Spec's
  `JV.render`): a lone surrogate escape `\uD800` (Go: U+FFFD), invalid UTF-8 inside a string (Go: U+FFFD per
  bad byte; here the bytes are kept as they are).

  Core Lean only (driver path); everything is structurally recursive, so `decide` can evaluate it.
-/
import PgVerif.Basic.Canon
import PgVerif.Types.Text
import PgVerif.Spec.ExportJson
namespace PgVerif.Model.ScalarsJsonLib
open PgVerif PgVerif.Txt
open PgVerif.Spec.Json (J isDigit spanDigits scanNum)

/-- value of a run of ASCII digits -/
def digitsVal (ds : Bytes) : Nat := ds.foldl (fun acc d => acc * 10 + (d.toNat - 48)) 0

def allDigits (ds : Bytes) : Bool := !ds.isEmpty && ds.all isDigit

/-- the smallest magnitude whose nearest binary64 is infinite: 2^1024 − 2^970, the midpoint between the largest
finite binary64 (2^1024 − 2^971) and 2^1024, which round-to-nearest-even sends up.  Written as
(2^54 − 1)·(2^97)^10 so that the elaborator evaluates it without raising `exponentiation.threshold`
(`Proofs.ScalarsJsonParse.infThreshold_eq` states the equality). -/
def infThreshold : Nat := (2 ^ 54 - 1) * (2 ^ 97) ^ 10

/-- `strconv.ParseFloat` on the exact decimal ±(digits)·10^e10: the nearest binary64, or `none` (ErrRange)
when that is ±Inf.  A zero mantissa is ±0 whatever the exponent.  The two guards on huge exponents only avoid
computing astronomically large powers: a non-zero mantissa times 10^401 or more is out of range, and
`digits`·10^e10 with e10 < −(400 + number of digits) is below 10^−400 and rounds to ±0 (as `f64OfRat` would
compute). -/
def finish (neg : Bool) (digits : Bytes) (e10 : Int) : Option Nat :=
  let mant := digitsVal digits
  if mant = 0 then some (if neg then 2 ^ 63 else 0)
  else if e10 ≥ 0 then
    if e10 > 400 then none
    else
      let p := mant * 10 ^ e10.toNat
      if p ≥ infThreshold then none else some (f64OfRat neg p 1)
  else
    if (-e10).toNat > 400 + digits.length then some (if neg then 2 ^ 63 else 0)
    else
      let q := 10 ^ (-e10).toNat
      if mant ≥ q * infThreshold then none else some (f64OfRat neg mant q)

/-- the fraction part `.digits` if there is one: its digits and what follows -/
def fracOf : Bytes → Bytes × Bytes
  | 46 :: t => spanDigits t
  | r => ([], r)

/-- the exponent part `[eE][+-]?digits` up to the end of the text (0 if there is none) -/
def expOf : Bytes → Option Int
  | [] => some 0
  | e :: r =>
    if e = 101 ∨ e = 69 then
      match r with
      | 45 :: d => if allDigits d then some (-(digitsVal d : Int)) else none
      | 43 :: d => if allDigits d then some (digitsVal d : Int) else none
      | d => if allDigits d then some (digitsVal d : Int) else none
    else none

/-- unsigned part of a number text `int frac? exp?`: mantissa = digits of int ++ frac, exponent = exp − |frac| -/
def numAbs (neg : Bool) (r0 : Bytes) : Option Nat :=
  let ip := spanDigits r0
  let fr := fracOf ip.2
  match expOf fr.2 with
  | none => none
  | some ex => finish neg (ip.1 ++ fr.1) (ex - (fr.1.length : Int))

/-- bits of the float64 that `Unmarshal` makes of the JSON number text `t` (`none`: not exactly one JSON
number, or out of range) -/
def numBits (t : Bytes) : Option Nat :=
  match scanNum t with
  | some (_, []) =>
    (match t with
     | 45 :: r => numAbs true r
     | r => numAbs false r)
  | _ => none

mutual
/-- the Go value (`interface{}`) of a JSON value -/
def toGo : J → Option GoVal
  | .null => some .nil
  | .bool b => some (.bool b)
  | .num t => (numBits t).map .f64
  | .str s => some (.str s)
  | .arr xs => (toGoList xs).map .arr
  | .obj kvs => (toGoKvs kvs []).map .obj
def toGoList : List J → Option (List GoVal)
  | [] => some []
  | x :: xs =>
    match toGo x with
    | none => none
    | some v =>
      match toGoList xs with
      | none => none
      | some vs => some (v :: vs)
/-- members are stored into the map from left to right -/
def toGoKvs : List (Bytes × J) → List (Bytes × GoVal) → Option (List (Bytes × GoVal))
  | [], acc => some acc
  | (k, j) :: rest, acc =>
    match toGo j with
    | none => none
    | some v => toGoKvs rest (mapInsert acc k v)
end

/-- `json.Unmarshal(bs, &v)` for `var v interface{}`: `none` = error -/
def jsonUnmarshal (bs : Bytes) : Option GoVal := (Spec.Json.parse bs).bind toGo

end PgVerif.Model.ScalarsJsonLib
