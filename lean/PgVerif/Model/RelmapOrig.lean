/-
  ParseRelMapFile as written before fixes/control/09 (one layout: 62 slots, crc at 504, whatever the file size).
  Kept only for the witness of REVIEW B7 in Props/C20.
-/
import PgVerif.Model.Relmap
namespace PgVerif.Model.Orig
open PgVerif PgVerif.Model

def parseRelMapFile (data : Bytes) : M (Option RelMapFile) := do
  if data.length < 512 then return none
  let magic ← uN 4 data 0
  if magic ≠ 0x592717 then return none
  let numMappings := toSigned 32 (← uN 4 data 4)
  if numMappings < 0 ∨ numMappings > 62 then return none
  let mappings ← relMapLoop data numMappings.toNat 8
  let crc ← (if data.length ≥ 504 + 4 then uN 4 data 504 else pure 0 : M Nat)
  return some { magic, numMappings, mappings, crc }

/-- ParseRelMapFile between fixes/control/09 and fixes/control/21: the layout chosen by `len(data) == 524`.  Kept only
for the witnesses `witness_R21_*` in Props/C20. -/
def parseRelMapFileBySize (data : Bytes) : M (Option RelMapFile) := do
  if data.length < 512 then return none
  let magic ← uN 4 data 0
  if magic ≠ 0x592717 then return none
  let maxMappings : Nat := if data.length = 524 then 64 else 62
  let numMappings := toSigned 32 (← uN 4 data 4)
  if numMappings < 0 ∨ numMappings > maxMappings then return none
  let mappings ← relMapLoop data numMappings.toNat 8
  let crcOffset := 8 + maxMappings * 8
  let crc ← (if data.length ≥ crcOffset + 4 then uN 4 data crcOffset else pure 0 : M Nat)
  return some { magic, numMappings, mappings, crc }

end PgVerif.Model.Orig
