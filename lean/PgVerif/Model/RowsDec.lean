/-
  A small model of types.go:DecodeType restricted to the type oids the row families use:
  bool 16, bytea 17, "char" 18, name 19, int8 20, int2 21, int4 23, text 25, oid 26, bpchar 1042, varchar 1043 and
  every oid that reaches decodeScalar's `default` (safeString).  Array oids (keys of arrayElemTypes) and the
  other cases of the switch are NOT modelled here (area `scalars` does); the row generators never use them.
  `strings.ToValidUTF8`/`utf8.Valid` are modelled from their documented behaviour (maximal runs of bytes
  that are not part of a valid UTF-8 encoding are replaced by the replacement string).
-/
import PgVerif.Model.Rows
namespace PgVerif.Model.LocalDec
open PgVerif PgVerif.Model

def isCont (b : UInt8) : Bool := 0x80 ≤ b && b ≤ 0xBF

/-- width of the valid UTF-8 encoding at the head of `bs`, 0 if there is none (Go's acceptance table:
no overlongs, no surrogates, ≤ U+10FFFF) -/
def utf8Width : Bytes → Nat
  | [] => 0
  | b0 :: rest =>
    if b0 < 0x80 then 1
    else if 0xC2 ≤ b0 && b0 ≤ 0xDF then
      match rest with
      | b1 :: _ => if isCont b1 then 2 else 0
      | _ => 0
    else if 0xE0 ≤ b0 && b0 ≤ 0xEF then
      match rest with
      | b1 :: b2 :: _ =>
        let lo : UInt8 := if b0 == 0xE0 then 0xA0 else 0x80
        let hi : UInt8 := if b0 == 0xED then 0x9F else 0xBF
        if lo ≤ b1 && b1 ≤ hi && isCont b2 then 3 else 0
      | _ => 0
    else if 0xF0 ≤ b0 && b0 ≤ 0xF4 then
      match rest with
      | b1 :: b2 :: b3 :: _ =>
        let lo : UInt8 := if b0 == 0xF0 then 0x90 else 0x80
        let hi : UInt8 := if b0 == 0xF4 then 0x8F else 0xBF
        if lo ≤ b1 && b1 ≤ hi && isCont b2 && isCont b3 then 4 else 0
      | _ => 0
    else 0

/-- types.go:safeString = the input when valid UTF-8, else strings.ToValidUTF8(s, ".") -/
def safeStringGo : Nat → Bytes → Bool → Bytes
  | 0, _, _ => []
  | _, [], _ => []
  | fuel + 1, bs@(b :: rest), invalid =>
    let w := utf8Width bs
    if w = 0 then (if invalid then [] else [0x2e]) ++ safeStringGo fuel rest true
    else bs.take w ++ safeStringGo fuel (bs.drop w) false
termination_by fuel => fuel

def safeString (bs : Bytes) : Bytes := safeStringGo (bs.length + 1) bs false

/-- types.go:fixedLengths restricted to the oids this local model decodes (0 = not a fixed-width type here) -/
def localFixedLen (oid : Int) : Nat :=
  if oid = 16 ∨ oid = 18 then 1 else if oid = 21 then 2 else if oid = 23 ∨ oid = 26 then 4
  else if oid = 20 then 8 else if oid = 19 then 64 else 0

/-- DecodeType on the oids listed above -/
def dec : Dec := fun data oid =>
  if data.length = 0 then pure .nil
  -- decodeScalar: `if n, ok := fixedLengths[oid]; ok && len(data) < n { return nil }` (scalars fix 08, arrays fix 05)
  else if localFixedLen oid > data.length then pure .nil
  else if oid = 16 then do pure (.bool ((← idx data 0) != 0))
  else if oid = 17 then pure (.str ([0x5c, 0x78] ++ strBytes (hexOf data)))   -- fmt.Sprintf("\\x%x", data)
  else if oid = 18 then do pure (.str (← sliceTo data 1))
  else if oid = 19 then pure (.str (cstring data 64))
  else if oid = 21 then do pure (.int (toSigned 16 (← uN 2 data 0)))
  else if oid = 23 then do pure (.int (toSigned 32 (← uN 4 data 0)))
  else if oid = 20 then do pure (.int (toSigned 64 (← uN 8 data 0)))
  else if oid = 26 then do pure (.int (← uN 4 data 0))
  else if (oid = 602 ∨ oid = 604) ∧ data.length < 5 then pure (.str [])   -- decodePathOrPolygon: too short → ""
  else pure (.str (safeString data))

end PgVerif.Model.LocalDec
