/-
  Model of pgdump/types.go (Oid constants, typeNames / TypeName, DecodeType dispatch, decodeScalar and
  all its helpers, safeString) and of the readers of pgdump/binary.go, as repaired by
  /verif/fixes/scalars/01..15 (xid/cid unsigned, uuid byte order, timestamp arithmetic and
  ±infinity, date ±infinity, timetz zone, interval signs, range bound alignment, short-input
  guard, path count guard, bit-string clamp, money in integer arithmetic, fractional seconds of
  time / timetz / timestamp[tz] / interval, path / polygon stored layout, numrange bounds).  One Lean function per Go function, same guards, same
  order of evaluation; every slice expression and index goes through the fault-aware primitives.

  Out of scope here and therefore parameters (`Ext`): decodeArray (area `arrays`), DecodeNumeric and
  ParseJSONB (area `numjson`), `encoding/json.Unmarshal` (library).  ReadVarlena (used by decodeNumericRange) is the
  model of area `rows`, `Model.readVarlena`, imported as it is.

  Library calls and how they are modelled:
  * `fmt` integer / hex verbs: `Txt.decNat`, `Txt.decInt`, `Txt.fmt0d`, `Txt.hexNat`, `Txt.hexBytes`
    (documented behaviour, checked against the real `fmt` on every generated case);
  * `%g` of a float64: not rendered.  A string built with `%g` holes is the value
    `GoVal.arr [.str lit, .f64 bits, .str lit, …]` (adjacent literals merged, NaN payloads collapsed
    by `Txt.gBits`); the Go harness parses pgread's text back into the same shape, so floats are
    compared as bit patterns, never as decimal text;
  * money (fix 11): `$%s%d.%02d` of sign, |cents|/100, |cents|%100 — integers only.  (Before the fix:
    `%.2f` of `float64(cents)/100`, modelled exactly by `Txt.moneyText`, a correctly rounded soft-float,
    kept in Types/Text.lean and Proofs/ScalarsMoney.lean as the record of the defect: wrong digits from
    |cents| = 7036874417766401 on);
  * `strings.TrimRight(s, "0")`: `Txt.trimRight 48`;
  * `time.Time` arithmetic and `Format`: `civilFromDays` (proleptic Gregorian calendar, year 0 and
    negative years as Go prints them);
  * `utf8.Valid` / `strings.ToValidUTF8`: `Txt.utf8Valid`, `Txt.toValidUTF8`.
-/
import PgVerif.Basic.Canon
import PgVerif.Types.Text
import PgVerif.Types.FStr
import PgVerif.Generated.Scalars
import PgVerif.Model.Rows
namespace PgVerif.Model.Scalars
open PgVerif PgVerif.Txt

/-! ### binary.go -/

def u16 (data : Bytes) (off : Nat) : M Nat := uN 2 data off
def u32 (data : Bytes) (off : Nat) : M Nat := uN 4 data off
def u64 (data : Bytes) (off : Nat) : M Nat := uN 8 data off
def i16 (data : Bytes) (off : Nat) : M Int := do return toSigned 16 (← uN 2 data off)
def i32 (data : Bytes) (off : Nat) : M Int := do return toSigned 32 (← uN 4 data off)
def i64 (data : Bytes) (off : Nat) : M Int := do return toSigned 64 (← uN 8 data off)

/-- binary.go:align — `(offset + alignment - 1) &^ (alignment - 1)`; `alignment ≤ 1` returns offset -/
def align (offset alignment : Nat) : Nat :=
  if alignment ≤ 1 then offset else andNot (offset + alignment - 1) (alignment - 1)

/-- binary.go:cstring — bytes up to the first NUL among the first `maxLen`, else the first `maxLen` -/
def cstring (data : Bytes) (maxLen : Nat) : Bytes := (data.take maxLen).takeWhile (· != 0)

/-! ### Oid constants -/

abbrev OidBool : Nat := 16
abbrev OidBytea : Nat := 17
abbrev OidChar : Nat := 18
abbrev OidName : Nat := 19
abbrev OidInt8 : Nat := 20
abbrev OidInt2 : Nat := 21
abbrev OidInt4 : Nat := 23
abbrev OidText : Nat := 25
abbrev OidOid : Nat := 26
abbrev OidTid : Nat := 27
abbrev OidXid : Nat := 28
abbrev OidCid : Nat := 29
abbrev OidJSON : Nat := 114
abbrev OidXML : Nat := 142
abbrev OidPoint : Nat := 600
abbrev OidLseg : Nat := 601
abbrev OidPath : Nat := 602
abbrev OidBox : Nat := 603
abbrev OidPolygon : Nat := 604
abbrev OidLine : Nat := 628
abbrev OidCircle : Nat := 718
abbrev OidCidr : Nat := 650
abbrev OidFloat4 : Nat := 700
abbrev OidFloat8 : Nat := 701
abbrev OidMacaddr8 : Nat := 774
abbrev OidMoney : Nat := 790
abbrev OidMacaddr : Nat := 829
abbrev OidInet : Nat := 869
abbrev OidBpchar : Nat := 1042
abbrev OidVarchar : Nat := 1043
abbrev OidDate : Nat := 1082
abbrev OidTime : Nat := 1083
abbrev OidTimestamp : Nat := 1114
abbrev OidTimestampTZ : Nat := 1184
abbrev OidInterval : Nat := 1186
abbrev OidTimeTZ : Nat := 1266
abbrev OidBit : Nat := 1560
abbrev OidVarbit : Nat := 1562
abbrev OidNumeric : Nat := 1700
abbrev OidUUID : Nat := 2950
abbrev OidPgLsn : Nat := 3220
abbrev OidTsvector : Nat := 3614
abbrev OidTsquery : Nat := 3615
abbrev OidJSONB : Nat := 3802
abbrev OidJSONPath : Nat := 4072
abbrev OidInt4Range : Nat := 3904
abbrev OidNumRange : Nat := 3906
abbrev OidTsRange : Nat := 3908
abbrev OidTsTzRange : Nat := 3910
abbrev OidDateRange : Nat := 3912
abbrev OidInt8Range : Nat := 3926

/-- types.go:arrayElemTypes — read from the map literal in the current Go source by the harness (package srctab →
`Generated.Scalars.arrayElemTypes`, rewritten on every run of this area's check).  `Model.Arrays` uses the copy its own
area's harness emits (`Generated.Arrays.arrayElemTypes`); `Props.C07.C07_tables` proves the two equal and cross-checks them
against the executed code (every value is among the element decoders DecodeType really applies).  Both the key set
(which oids are arrays) and the values (the element oid handed to decodeArray) matter. -/
def arrayElemTypes : List (Nat × Nat) := Generated.Scalars.arrayElemTypes

/-- types.go:fixedLengths.  The entry for `name` (19 ↦ 64, added by the repair of `name[]` in area
`arrays`) is taken from the generated tables: it is probed on the real code -/
def fixedLengths : List (Nat × Nat) :=
  (if Generated.Scalars.nameFixed64 then [(19, 64)] else []) ++
  [(16, 1), (18, 1), (21, 2), (23, 4), (20, 8), (26, 4), (700, 4), (701, 8), (1082, 4), (1114, 8),
   (1184, 8), (27, 6), (28, 4), (29, 4), (790, 8), (1083, 8), (829, 6), (774, 8), (2950, 16),
   (3220, 8), (600, 16), (601, 32), (603, 32), (628, 24), (718, 24), (1266, 12), (1186, 16)]

/-- types.go:TypeName; the `typeNames` map is the generated table (graph of TypeName on 0..5000,
obtained by executing the code) -/
def typeName (oid : Nat) : Bytes :=
  match Generated.Scalars.typeNames.lookup oid with
  | some n => n
  | none => asc "oid:" ++ decNat oid

/-! ### calendar: what `time.Time` arithmetic + `Format` print -/

/-- month and day of month of day `doy` (0-based) of a year -/
def monthDay (leap : Bool) (doy : Nat) : Nat × Nat :=
  let l := if leap then 1 else 0
  if doy < 31 then (1, doy + 1)
  else if doy < 59 + l then (2, doy - 31 + 1)
  else if doy < 90 + l then (3, doy - (59 + l) + 1)
  else if doy < 120 + l then (4, doy - (90 + l) + 1)
  else if doy < 151 + l then (5, doy - (120 + l) + 1)
  else if doy < 181 + l then (6, doy - (151 + l) + 1)
  else if doy < 212 + l then (7, doy - (181 + l) + 1)
  else if doy < 243 + l then (8, doy - (212 + l) + 1)
  else if doy < 273 + l then (9, doy - (243 + l) + 1)
  else if doy < 304 + l then (10, doy - (273 + l) + 1)
  else if doy < 334 + l then (11, doy - (304 + l) + 1)
  else (12, doy - (334 + l) + 1)

/-- (year − 1 within the era, month, day) of day `r1` (0..146096) of a 400-year era that starts on a
January 1st: 100-, 4- and 1-year cycles, the last of each clamped (the structure of Go's `time.absDate`) -/
def eraYMD (r1 : Nat) : Nat × Nat × Nat :=
  let n100 := min (r1 / 36524) 3
  let r2 := r1 - 36524 * n100
  let n4 := r2 / 1461
  let r3 := r2 % 1461
  let n1 := min (r3 / 365) 3
  let doy := r3 - 365 * n1
  let leap := n1 == 3 && (n4 != 24 || n100 == 3)
  let md := monthDay leap doy
  (100 * n100 + 4 * n4 + n1, md.1, md.2)

/-- civil date (year, month, day) of day number `z` counted from 1970-01-01, proleptic Gregorian,
astronomical year numbering (year 0, negative years) as in Go's `time` package; eras of 400 years
(146097 days) counted from 0001-01-01 -/
def civilFromDays (z : Int) : Int × Nat × Nat :=
  let n := z + 719162
  let era := n / 146097
  let r := eraYMD (n - era * 146097).toNat
  (era * 400 + ((r.1 + 1 : Nat) : Int), r.2.1, r.2.2)

/-- `Format("2006")`: sign, then at least four digits -/
def fmtYear (y : Int) : Bytes := (if y < 0 then [45] else []) ++ padNat 4 y.natAbs

/-- `Format("2006-01-02")` of the date `days` days after 1970-01-01 -/
def fmtDate (days : Int) : Bytes :=
  let (y, m, d) := civilFromDays days
  fmtYear y ++ [45] ++ padNat 2 m ++ [45] ++ padNat 2 d

/-- `time.Unix(sec, 0).UTC().Format("2006-01-02 15:04:05")` -/
def fmtUnix (sec : Int) : Bytes :=
  let days := sec / 86400
  let rem := (sec % 86400).toNat
  fmtDate days ++ [32] ++ padNat 2 (rem / 3600) ++ [58] ++ padNat 2 (rem / 60 % 60) ++ [58] ++ padNat 2 (rem % 60)

/-- `pgEpoch.Unix()`: 2000-01-01 00:00:00 UTC -/
def pgEpochUnix : Int := 946684800

/-! ### decodeScalar helpers -/

def safeString (data : Bytes) : Bytes :=
  if utf8Valid data then data else toValidUTF8 [46] data

/-- decodePoint as pieces of a formatted string -/
def decodePoint (data : Bytes) : M (List GoVal) := do
  if data.length < 16 then return [lit "(?,?)"]
  let x ← u64 data 0
  let y ← u64 data 8
  return [lit "(", hole x, lit ",", hole y, lit ")"]

/-- `for i := 0; i < npts; i++ { points[i] = decodePoint(data[first+i*16 : first+(i+1)*16]) }` -/
def pathPoints (data : Bytes) (first : Nat) : Nat → Nat → M (List (List GoVal))
  | 0, _ => pure []
  | n+1, i => do
    let s ← slice data (first + i * 16) (first + (i + 1) * 16)
    let p ← decodePoint s
    let rest ← pathPoints data first n (i + 1)
    pure (p :: rest)

/-- the header size of the stored layout: `first := 12; if oid == OidPolygon { first = 36 }` -/
def storedFirst (oid : Nat) : Nat := if oid == OidPolygon then 36 else 12

/-- the stored-layout attempt of decodePathOrPolygon (fix 14): `some (npts, closed)` when `len(data) >= first`,
`n := int(i32(data, 0))` is `>= 0` and `len(data) == first + n*16`; `closed = oid == OidPath && i32(data, 4) != 0`
(short-circuit: bytes 4..7 are read for a path only) -/
def storedLayout (data : Bytes) (oid : Nat) : M (Option (Nat × Bool)) := do
  let first := storedFirst oid
  if data.length ≥ first then
    let n ← i32 data 0
    if n ≥ 0 ∧ (data.length : Int) = first + n * 16 then
      if oid == OidPath then
        let c ← i32 data 4
        return some (n.toNat, c != 0)
      else return some (n.toNat, false)
    else return none
  else return none

/-- the output of decodePathOrPolygon once count, flag and the offset of the first point are known -/
def pathOut (data : Bytes) (oid first npts : Nat) (closed : Bool) : M GoVal := do
  let pts ← pathPoints data first npts 0
  let joined := joinPieces (lit ",") pts
  if oid == OidPolygon || closed then return fstr ([lit "("] ++ joined ++ [lit ")"])
  return fstr ([lit "["] ++ joined ++ [lit "]"])

/-- types.go:decodePathOrPolygon (fix 14): the stored layout first (path: int32 npts, int32 closed, int32 dummy, points
from 12; polygon: int32 npts, 32-byte bounding box, points from 36), recognised by `len == first + 16*npts`; otherwise the
send/recv layout (flag byte, int32 npts, points from 5) as before -/
def decodePathOrPolygon (data : Bytes) (oid : Nat) : M GoVal := do
  match ← storedLayout data oid with
  | some (npts, closed) => pathOut data oid (storedFirst oid) npts closed
  | none =>
    if data.length < 5 then return .str []
    let closed := (← idx data 0) != 0
    let npts ← i32 data 1
    if npts < 0 || (data.length : Int) < 5 + npts * 16 then return .str []
    pathOut data oid 5 npts.toNat closed

/-- the loop of decodeBitString: bit `i` of the payload, MSB first; `byteIdx < len(data)` guarded -/
def bitChars (data : Bytes) : Nat → Nat → Bytes
  | 0, _ => []
  | n+1, i =>
    let byteIdx := 4 + i / 8
    let bitIdx := 7 - i % 8
    let c : UInt8 := match data[byteIdx]? with
      | some b => if b.toNat &&& (1 <<< bitIdx) != 0 then 49 else 48
      | none => 48
    c :: bitChars data n (i + 1)

def decodeBitString (data : Bytes) : M GoVal := do
  if data.length < 4 then return .str []
  let bitlen ← i32 data 0
  if bitlen == 0 then return .str []
  let avail : Int := ((data.length : Int) - 4) * 8
  let bitlen := if bitlen > avail then avail else bitlen
  return .str (bitChars data bitlen.toNat 0)

/-- time of day `hh:mm:ss` from microseconds (Go integer division truncates, `%` keeps the sign) -/
def fmtTimeOfDay (us : Int) : Bytes :=
  fmt0d 2 (us.tdiv 3600000000) ++ [58] ++ fmt0d 2 ((us.tdiv 60000000).tmod 60) ++ [58] ++
    fmt0d 2 ((us.tdiv 1000000).tmod 60)

/-- the repaired zone printer of timetz: `+hh[:mm[:ss]]`, east of UTC -/
def fmtZone (tz : Int) : Bytes :=
  let east := -tz
  let sign : UInt8 := if east < 0 then 45 else 43
  let east := east.natAbs
  [sign] ++ padNat 2 (east / 3600) ++
    (if east % 3600 != 0 then
      [58] ++ padNat 2 (east / 60 % 60) ++ (if east % 60 != 0 then [58] ++ padNat 2 (east % 60) else [])
    else [])

/-- types.go:fracSeconds (fix 12) — the microseconds within a second: nothing when zero, else
`strings.TrimRight(fmt.Sprintf(".%06d", |f|), "0")` -/
def fracSeconds (f : Int) : Bytes :=
  if f.natAbs = 0 then [] else trimRight 48 ([46] ++ padNat 6 f.natAbs)

/-- one `fmt.Sprintf("%d<suffix>", v)` component of decodeInterval, present iff `v != 0` -/
def intervalPart (v : Int) (suffix : String) : List Bytes := if v != 0 then [decInt v ++ asc suffix] else []

/-- the seconds component (fix 12): `s, f := (us/1e6)%60, us%1e6`; present iff one of them is non-zero; the sign of
`us` in front, then |s|, the fraction of |f|, `s` -/
def intervalSeconds (us : Int) : List Bytes :=
  let s := (us.tdiv 1000000).tmod 60
  let f := us.tmod 1000000
  if s != 0 || f != 0 then
    [(if us < 0 then [45] else []) ++ decInt (if us < 0 then -s else s) ++ fracSeconds (if us < 0 then -f else f) ++ asc "s"]
  else []

def decodeInterval (data : Bytes) : M GoVal := do
  if data.length < 16 then return lit "0"
  let us ← i64 data 0
  let days ← i32 data 8
  let months ← i32 data 12
  let parts := intervalPart (months.tdiv 12) "y" ++ intervalPart (months.tmod 12) "mo" ++ intervalPart days "d" ++
    intervalPart (us.tdiv 3600000000) "h" ++ intervalPart ((us.tdiv 60000000).tmod 60) "m" ++ intervalSeconds us
  if parts.isEmpty then return lit "0"
  return .str (joinBytes [32] parts)

def fmtIPv4 (a b c d : UInt8) : Bytes :=
  decNat a.toNat ++ [46] ++ decNat b.toNat ++ [46] ++ decNat c.toNat ++ [46] ++ decNat d.toNat

/-- `for i := 0; i < 8; i++ { parts = append(parts, Sprintf("%x", BigEndian.Uint16(data[s+i*2 : s+i*2+2]))) }` -/
def ipv6Groups (data : Bytes) (start : Nat) : Nat → Nat → M (List Bytes)
  | 0, _ => pure []
  | n+1, i => do
    let s ← slice data (start + i * 2) (start + i * 2 + 2)
    let hi ← idx s 0
    let lo ← idx s 1
    let rest ← ipv6Groups data start n (i + 1)
    pure (hexNat false (hi.toNat * 256 + lo.toNat) :: rest)

def decodeInet (data : Bytes) : M GoVal := do
  if data.length < 2 then return .str []
  let family ← idx data 0
  let bits ← idx data 1
  let fallback : GoVal := .str (asc "inet:" ++ hexBytes data)
  if family == 2 then
    let addr : Option Bytes ←
      if data.length == 6 then do
        let a ← idx data 2
        let b ← idx data 3
        let c ← idx data 4
        let d ← idx data 5
        pure (some (fmtIPv4 a b c d))
      else if data.length ≥ 8 then do
        let a ← idx data 4
        let b ← idx data 5
        let c ← idx data 6
        let d ← idx data 7
        pure (some (fmtIPv4 a b c d))
      else pure none
    match addr with
    | none => return fallback
    | some addr =>
      if bits != 32 then return .str (addr ++ [47] ++ decNat bits.toNat)
      return .str addr
  if family == 3 then
    let addrStart : Option Nat :=
      if data.length == 18 then some 2
      else if data.length ≥ 20 then some 4
      else none
    match addrStart with
    | none => return fallback
    | some s =>
      let parts ← ipv6Groups data s 8 0
      let addr := joinBytes [58] parts
      if bits != 128 then return .str (addr ++ [47] ++ decNat bits.toNat)
      return .str addr
  return fallback

/-- Go `fmt.Sprintf("%v", x)` for the values a range bound decodes to (integers, strings, nil) -/
def fmtV : GoVal → Bytes
  | .int i => decInt i
  | .str s => s
  | .nil => asc "<nil>"
  | _ => asc "?"

/-- the external decoders DecodeType dispatches to -/
structure Ext where
  /-- types.go:decodeArray(raw, elemOid) — area `arrays` -/
  decodeArray : Bytes → Nat → M GoVal
  /-- numeric.go:DecodeNumeric — area `numjson` -/
  decodeNumeric : Bytes → M GoVal
  /-- jsonb.go:ParseJSONB (`GoVal.nil` = Go nil) — area `numjson` -/
  parseJSONB : Bytes → M GoVal
  /-- `encoding/json.Unmarshal` into `interface{}`: `none` = error -/
  jsonUnmarshal : Bytes → Option GoVal

/-! ### decodeNumericRange (fix 15) -/

/-- `fmt.Sprintf("%v", v)` of what DecodeNumeric returns, as pieces of a formatted string: a float64 is a `%g` hole (for
a float64 `%v` is `%g`); Go `int(0)` (a numeric without digits) prints `0`, which the harness reads back as the number it
denotes — the hole holding the float64 of the same value; a string is itself -/
def numBoundPieces : GoVal → List GoVal
  | .f64 b => [hole b]
  | .int i => [hole (f64OfRat (decide (i < 0)) i.natAbs 1)]
  | .str s => [.str s]
  | _ => [lit "?"]

/-- the closure `bound` of decodeNumericRange: the pieces of the bound's text and the offset afterwards.
`if offset < end && data[offset] == 0 { offset = align(offset+4, 4) - 4 }` (a zero byte is padding in front of a 4-byte
header: int alignment relative to the range's own 4-byte header); `offset >= end` → `?`;
`ReadVarlena(data[offset:end])` nil → `?` (offset unchanged); else `offset += n`; `DecodeNumeric(val)` nil → `?`;
else `%v` of it.  `end = len(data) - 1` (the caller guarantees `len(data) ≥ 5`). -/
def numBound (ext : Ext) (data : Bytes) (offset : Nat) : M (List GoVal × Nat) := do
  let end_ := data.length - 1
  let offset ← (if offset < end_ then do
      if (← idx data offset) == 0 then pure (align (offset + 4) 4 - 4) else pure offset
    else pure offset)
  if offset ≥ end_ then return ([lit "?"], offset)
  let s ← slice data offset end_
  let r ← PgVerif.Model.readVarlena s
  match r.1 with
  | none => return ([lit "?"], offset)
  | some val =>
    let offset := offset + r.2
    match ← ext.decodeNumeric val with
    | .nil => return ([lit "?"], offset)
    | v => return (numBoundPieces v, offset)

/-- types.go:decodeNumericRange (fix 15): bracket by the inclusive flags, each present bound read by `numBound` (lower
first, from offset 4), nothing for an infinite bound -/
def decodeNumericRange (ext : Ext) (data : Bytes) (flags : Nat) : M GoVal := do
  let lbInc := flags &&& 0x02 != 0
  let ubInc := flags &&& 0x04 != 0
  let lbInf := flags &&& 0x08 != 0
  let ubInf := flags &&& 0x10 != 0
  let (lb, offset) ← (if lbInf then pure ([], 4) else numBound ext data 4)
  let (ub, _) ← (if ubInf then pure ([], offset) else numBound ext data offset)
  return fstrS ([lit (if lbInc then "[" else "(")] ++ lb ++ [lit ","] ++ ub ++ [lit (if ubInc then "]" else ")")])

/-! ### decodeScalar / DecodeType

The Go `switch oid` is a chain of tests on distinct constants; every case body is its own function
(`decX`), so that each can be reasoned about separately. -/

def isTextOid (oid : Nat) : Bool :=
  oid == OidText || oid == OidVarchar || oid == OidBpchar || oid == OidXML || oid == OidJSONPath

def isRangeOid (oid : Nat) : Bool :=
  oid == OidInt4Range || oid == OidInt8Range || oid == OidNumRange || oid == OidTsRange ||
  oid == OidTsTzRange || oid == OidDateRange

/-- the repaired guard: `if n, ok := fixedLengths[oid]; ok && len(data) < n { return nil }` -/
def shortInput (data : Bytes) (oid : Nat) : Bool :=
  match fixedLengths.lookup oid with
  | some n => data.length < n
  | none => false

def decBool (data : Bytes) : M GoVal := do return .bool ((← idx data 0) != 0)
def decChar (data : Bytes) : M GoVal := do return .str (← sliceTo data 1)
def decInt2 (data : Bytes) : M GoVal := do return .int (← i16 data 0)
def decInt4 (data : Bytes) : M GoVal := do return .int (← i32 data 0)
def decInt8 (data : Bytes) : M GoVal := do return .int (← i64 data 0)
/-- oid, and (repaired) xid / cid: unsigned -/
def decU32 (data : Bytes) : M GoVal := do return .int (← u32 data 0)
def decTid (data : Bytes) : M GoVal := do
  return .str ([40] ++ decNat (← u32 data 0) ++ [44] ++ decNat (← u16 data 4) ++ [41])
def decFloat4 (data : Bytes) : M GoVal := do return .f32 (← u32 data 0)
def decFloat8 (data : Bytes) : M GoVal := do return .f64 (← u64 data 0)
/-- money (fix 11): `u := uint64(cents); if cents < 0 { u = -u }` is |cents| (2^63 for math.MinInt64, no overflow in
uint64); then `"$" sign u/100 "." %02d(u%100)` -/
def decMoney (data : Bytes) : M GoVal := do
  let cents ← i64 data 0
  let u := cents.natAbs
  return .str ([36] ++ (if cents < 0 then [45] else []) ++ decNat (u / 100) ++ [46] ++ padNat 2 (u % 100))
def decJSON (ext : Ext) (data : Bytes) : GoVal :=
  match ext.jsonUnmarshal data with
  | some v => v
  | none => .str (safeString data)

def decDate (data : Bytes) : M GoVal := do
  let days ← i32 data 0
  if days = 2147483647 then return lit "infinity"
  if days = -2147483648 then return lit "-infinity"
  return .str (fmtDate (days + 10957))

def decTime (data : Bytes) : M GoVal := do
  let us ← i64 data 0
  return .str (fmtTimeOfDay us ++ fracSeconds (us.tmod 1000000))

def decTimeTZ (data : Bytes) : M GoVal := do
  let us ← i64 data 0
  let tz ← i32 data 8
  return .str (fmtTimeOfDay us ++ fracSeconds (us.tmod 1000000) ++ fmtZone tz)

def decTimestamp (data : Bytes) : M GoVal := do
  let us ← i64 data 0
  if us = 9223372036854775807 then return lit "infinity"
  if us = -9223372036854775808 then return lit "-infinity"
  let sec := us.tdiv 1000000
  let frac := us.tmod 1000000
  let sec' := if frac < 0 then sec - 1 else sec
  let frac' := if frac < 0 then frac + 1000000 else frac
  return .str (fmtUnix (pgEpochUnix + sec') ++ fracSeconds frac')

/-- `%02x:%02x:…` over `data[0] … data[n-1]` -/
def macBytes (data : Bytes) : Nat → Nat → M (List Bytes)
  | 0, _ => pure []
  | n+1, i => do
    let b ← idx data i
    let rest ← macBytes data n (i + 1)
    pure (hexPad 2 b.toNat :: rest)

def decMac (data : Bytes) (n : Nat) : M GoVal := do return .str (joinBytes [58] (← macBytes data n 0))

def decUUID (data : Bytes) : M GoVal := do
  let a ← slice data 0 4
  let b ← slice data 4 6
  let c ← slice data 6 8
  let d ← slice data 8 10
  let e ← slice data 10 16
  return .str (hexBytes a ++ [45] ++ hexBytes b ++ [45] ++ hexBytes c ++ [45] ++ hexBytes d ++ [45] ++ hexBytes e)

def decPgLsn (data : Bytes) : M GoVal := do
  return .str (hexNat true (← u32 data 0) ++ [47] ++ hexNat true (← u32 data 4))

def decPoint (data : Bytes) : M GoVal := do return fstr (← decodePoint data)

def decLseg (data : Bytes) : M GoVal := do
  let p1 ← decodePoint (← slice data 0 16)
  let p2 ← decodePoint (← slice data 16 32)
  return fstr ([lit "["] ++ p1 ++ [lit ","] ++ p2 ++ [lit "]"])

def decBox (data : Bytes) : M GoVal := do
  let p1 ← decodePoint (← slice data 0 16)
  let p2 ← decodePoint (← slice data 16 32)
  return fstr ([lit "("] ++ p1 ++ [lit "),("] ++ p2 ++ [lit ")"])

def decLine (data : Bytes) : M GoVal := do
  let a ← u64 data 0
  let b ← u64 data 8
  let c ← u64 data 16
  return fstr [lit "{", hole a, lit ",", hole b, lit ",", hole c, lit "}"]

def decCircle (data : Bytes) : M GoVal := do
  let p ← decodePoint (← slice data 0 16)
  let r ← u64 data 16
  return fstr ([lit "<"] ++ p ++ [lit ",", hole r, lit ">"])

/-- the part of `case OidJSONB` after ParseJSONB returned nil: the 8-byte document that is the JSON value `null`
(a one-element scalar array holding a null entry; numjson fix 06) decodes to nil, anything else is shown raw.
Go: `len(data) == 8 && u32(data, 0) == jbFArray|jbFScalar|1 && u32(data, 4)&0x70000000 == jeNull` (short-circuit) -/
def jsonbNilCase (data : Bytes) : M GoVal :=
  if data.length = 8 then
    u32 data 0 >>= fun h =>
      if h = 0x50000001 then
        u32 data 4 >>= fun e =>
          if e &&& 0x70000000 = 0x40000000 then pure .nil else pure (.str (safeString data))
      else pure (.str (safeString data))
  else pure (.str (safeString data))

def decJSONB (ext : Ext) (data : Bytes) : M GoVal := do
  match ← ext.parseJSONB data with
  | .nil => jsonbNilCase data
  | v => return v

/-- decodeScalar without the range case (which needs DecodeType itself for its bounds) -/
def decodeScalar0 (ext : Ext) (data : Bytes) (oid : Nat) : M GoVal :=
  if shortInput data oid then pure .nil
  else if oid = OidBool then decBool data
  else if oid = OidChar then decChar data
  else if oid = OidName then pure (.str (cstring data 64))
  else if oid = OidInt2 then decInt2 data
  else if oid = OidInt4 then decInt4 data
  else if oid = OidXid ∨ oid = OidCid then decU32 data
  else if oid = OidInt8 then decInt8 data
  else if oid = OidOid then decU32 data
  else if oid = OidTid then decTid data
  else if oid = OidFloat4 then decFloat4 data
  else if oid = OidFloat8 then decFloat8 data
  else if oid = OidMoney then decMoney data
  else if isTextOid oid then pure (.str (safeString data))
  else if oid = OidJSON then pure (decJSON ext data)
  else if oid = OidBytea then pure (.str ([92, 120] ++ hexBytes data))
  else if oid = OidBit ∨ oid = OidVarbit then decodeBitString data
  else if oid = OidDate then decDate data
  else if oid = OidTime then decTime data
  else if oid = OidTimeTZ then decTimeTZ data
  else if oid = OidTimestamp ∨ oid = OidTimestampTZ then decTimestamp data
  else if oid = OidInterval then decodeInterval data
  else if oid = OidMacaddr then decMac data 6
  else if oid = OidMacaddr8 then decMac data 8
  else if oid = OidInet ∨ oid = OidCidr then decodeInet data
  else if oid = OidUUID then decUUID data
  else if oid = OidPgLsn then decPgLsn data
  else if oid = OidPoint then decPoint data
  else if oid = OidLseg then decLseg data
  else if oid = OidBox then decBox data
  else if oid = OidLine then decLine data
  else if oid = OidCircle then decCircle data
  else if oid = OidPath ∨ oid = OidPolygon then decodePathOrPolygon data oid
  else if oid = OidNumeric then ext.decodeNumeric data
  else if oid = OidTsvector ∨ oid = OidTsquery then pure (.str (safeString data))
  else if oid = OidJSONB then decJSONB ext data
  else pure (.str (safeString data))

/-- DecodeType restricted to non-range scalars: what decodeRange calls for its bounds -/
def decodeType0 (ext : Ext) (data : Bytes) (oid : Nat) : M GoVal :=
  if data.length = 0 then pure .nil
  else match arrayElemTypes.lookup oid with
    | some elemOid => ext.decodeArray data elemOid
    | none => decodeScalar0 ext data oid

/-- element type and element size of the range types with fixed-width bounds (the inner `switch`) -/
def rangeElem (oid : Nat) : Option (Nat × Nat) :=
  if oid = OidInt4Range then some (OidInt4, 4)
  else if oid = OidInt8Range then some (OidInt8, 8)
  else if oid = OidDateRange then some (OidDate, 4)
  else if oid = OidTsRange then some (OidTimestamp, 8)
  else if oid = OidTsTzRange then some (OidTimestampTZ, 8)
  else none

/-- one bound: `if offset+elemSize > dataEnd { return "[?,?]" }` (= `none`), else
`fmt.Sprintf("%v", DecodeType(data[offset:offset+elemSize], elemOid))` — DecodeType re-enters the
non-range part of the dispatch -/
def readBound (ext : Ext) (data : Bytes) (offset elemSize elemOid : Nat) : M (Option Bytes) :=
  if offset + elemSize > data.length - 1 then pure none
  else do
    let s ← slice data offset (offset + elemSize)
    let v ← decodeType0 ext s elemOid
    pure (some (fmtV v))

/-- lower bound: its text and the offset after it (`none` = the `"[?,?]"` exit) -/
def rangeLower (ext : Ext) (data : Bytes) (flags elemOid elemSize : Nat) : M (Option (Bytes × Nat)) :=
  if flags &&& 0x08 != 0 then pure (some ([], 4))
  else do
    match ← readBound ext data 4 elemSize elemOid with
    | none => pure none
    | some lb => pure (some (lb, 4 + elemSize))

/-- upper bound, at the (repaired) aligned offset: `align(offset+4, elemSize) - 4` -/
def rangeUpper (ext : Ext) (data : Bytes) (flags elemOid elemSize offset : Nat) : M (Option Bytes) :=
  if flags &&& 0x10 != 0 then pure (some [])
  else readBound ext data (if elemSize > 1 then align (offset + 4) elemSize - 4 else offset) elemSize elemOid

/-- the output format of decodeRange -/
def rangeOut (flags : Nat) (lb ub : Bytes) : GoVal :=
  .str ([if flags &&& 0x02 != 0 then 91 else 40] ++ (if flags &&& 0x08 != 0 then [44] else lb ++ [44]) ++
    (if !(flags &&& 0x10 != 0) then ub else []) ++ [if flags &&& 0x04 != 0 then 93 else 41])

/-- the part of decodeRange after the element type is known -/
def decodeRangeFixed (ext : Ext) (data : Bytes) (flags elemOid elemSize : Nat) : M GoVal := do
  match ← rangeLower ext data flags elemOid elemSize with
  | none => pure (lit "[?,?]")
  | some (lb, offset) =>
    match ← rangeUpper ext data flags elemOid elemSize offset with
    | none => pure (lit "[?,?]")
    | some ub => pure (rangeOut flags lb ub)

/-- types.go:decodeRange -/
def decodeRange (ext : Ext) (data : Bytes) (oid : Nat) : M GoVal := do
  if data.length < 5 then return lit "empty"
  let flags := (← idx data (data.length - 1)).toNat
  if flags &&& 0x01 != 0 then return lit "empty"
  if oid = OidNumRange then return ← decodeNumericRange ext data flags
  match rangeElem oid with
  | none => return .str (asc "range:" ++ hexBytes data)
  | some (elemOid, elemSize) => decodeRangeFixed ext data flags elemOid elemSize

/-- types.go:decodeScalar -/
def decodeScalar (ext : Ext) (data : Bytes) (oid : Nat) : M GoVal :=
  if isRangeOid oid then decodeRange ext data oid else decodeScalar0 ext data oid

/-- types.go:DecodeType -/
def decodeType (ext : Ext) (data : Bytes) (oid : Nat) : M GoVal :=
  if data.length = 0 then pure .nil
  else match arrayElemTypes.lookup oid with
    | some elemOid => ext.decodeArray data elemOid
    | none => decodeScalar ext data oid

end PgVerif.Model.Scalars
