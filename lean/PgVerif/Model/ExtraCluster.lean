/-
  Topic E9 — the exported functions of area `cluster` that /verif/C10_COVERAGE.md listed as "not modelled":

    detect.go   ListDatabases, DetectDataDir, DetectAllDataDirs (isValidDataDir / getDataDirCandidates / expandPath
                are parameters: they only call os.Stat / os.Getenv / filepath.Abs)
    pgdump.go   DumpAll
    remote.go   Credentials, Control, Summary, SummaryResult.MarshalJSON (the only MarshalJSON method of package pgdump)
    deleted.go  ScanAllDeletedRows;  passwords.go  ExtractPasswords   (one-line wrappers)

  Same conventions as Model/Cluster.lean: the file system is `fs : path ↦ Option content` relative to the data
  directory (`none` = os.ReadFile failed), `rr` = the row reader, `π` = map iteration order, a Go panic = a fault.
  Core Lean only.

  Library calls:
    * `sort.Slice(dbs, less)` in ListDatabases — modelled as Go's insertion sort (`insertionSortLessFunc`: an element
      moves left while it is `less` than its left neighbour), which is what `sort.Slice` runs for at most 12 elements;
      for longer slices pdqsort gives the same list whenever no two databases are equal under `less` (same name and
      same template-ness), otherwise the same list up to the order of such equal entries.
    * `json.Marshal(&Summary{…})` — struct fields in declaration order under their tag names with `omitempty`, a
      `map[string][]string` with its keys in byte order, strings with Go's escaping (`CliRender.goString`), no
      white space.  json.Marshal cannot fail on strings and maps of string slices, so the model returns the bytes.
    * `strings.HasPrefix` = list prefix.
-/
import PgVerif.Model.Remote
import PgVerif.Model.CliRender
namespace PgVerif.Model.Extra
open PgVerif PgVerif.Model
open PgVerif.Spec (ColumnInfo TableDump DatabaseDump DumpResult Options isPrefixB natBytes)

/-! ### detect.go: ListDatabases -/

def xcIsTemplate (n : Bytes) : Bool := isPrefixB (strBytes "template") n

/-- the `less` closure of ListDatabases: non-templates before templates, then by name (Go string `<` = byte order) -/
def listDbLess (a b : DatabaseInfo) : Bool :=
  if xcIsTemplate a.name != xcIsTemplate b.name then !xcIsTemplate a.name else bytesLt a.name b.name

/-- one step of Go's insertion sort on the already sorted prefix, held in REVERSE order (nearest neighbour first):
`for j := i; j > a && less(data[j], data[j-1]); j-- { swap }` -/
def insertLeft {α} (less : α → α → Bool) (x : α) : List α → List α
  | [] => [x]
  | p :: ps => if less x p then p :: insertLeft less x ps else x :: p :: ps

/-- `insertionSortLessFunc` -/
def goInsertionSort {α} (less : α → α → Bool) (l : List α) : List α :=
  (l.foldl (fun acc x => insertLeft less x acc) []).reverse

/-- detect.go:ListDatabases — nil (`[]`) when global/1262 cannot be read -/
def listDatabases (rr : RowReader) (fs : Bytes → Option Bytes) : M (List DatabaseInfo) :=
  match fs pathGlobal1262 with
  | none => pure []
  | some data => do
    let dbs ← parsePGDatabase rr data
    pure (goInsertionSort listDbLess dbs)

/-! ### detect.go: DetectDataDir / DetectAllDataDirs -/

/-- what the detection functions see of the machine -/
structure DetectEnv where
  /-- `os.Getenv("PGDATA")` (`[]` = unset or empty) -/
  pgdata : Bytes
  /-- `getDataDirCandidates()` -/
  candidates : List Bytes
  /-- `expandPath` (`~` expansion + filepath.Abs) -/
  expand : Bytes → Bytes
  /-- `isValidDataDir`: `<path>/global/1262` is a regular file with size > 0 -/
  valid : Bytes → Bool

/-- getLinuxPaths(): the candidate list on Linux (the Docker default repeats the first entry) -/
def linuxCandidates : List Bytes :=
  let vs := [17, 16, 15, 14, 13, 12, 11, 10]
  ([strBytes "/var/lib/postgresql/data", strBytes "/var/lib/pgsql/data", strBytes "/var/lib/postgresql/data"] ++
   vs.map (fun v => strBytes "/var/lib/postgresql/" ++ natBytes v ++ strBytes "/main") ++
   vs.map (fun v => strBytes "/var/lib/pgsql/" ++ natBytes v ++ strBytes "/data") ++
   [strBytes "/opt/postgresql/data", strBytes "/data/postgresql", strBytes "/pgdata"])

/-- detect.go:DetectDataDir (`[]` = "") -/
def detectDataDir (e : DetectEnv) : Bytes :=
  if e.pgdata ≠ [] ∧ e.valid e.pgdata = true then e.pgdata
  else match e.candidates.find? e.valid with
    | some p => p
    | none => []

/-- the candidate loop of DetectAllDataDirs: `seen` and `results` grow together -/
def detectLoop (e : DetectEnv) : List Bytes → List Bytes → List Bytes
  | _, [] => []
  | seen, path :: rest =>
    let resolved := e.expand path
    if seen.contains resolved then detectLoop e seen rest
    else if e.valid resolved then resolved :: detectLoop e (resolved :: seen) rest
    else detectLoop e seen rest

/-- detect.go:DetectAllDataDirs -/
def detectAllDataDirs (e : DetectEnv) : List Bytes :=
  if e.pgdata ≠ [] ∧ e.valid e.pgdata = true then e.pgdata :: detectLoop e [e.pgdata] e.candidates
  else detectLoop e [] e.candidates

/-- `isValidDataDir` read off a family of file trees: global/1262 exists and is not empty -/
def validBy (fsAt : Bytes → Bytes → Option Bytes) (dir : Bytes) : Bool :=
  match fsAt dir pathGlobal1262 with
  | some d => d.length > 0
  | none => false

/-! ### pgdump.go: DumpAll -/

/-- the loop body of DumpAll: `if result, err := DumpDataDir(dir, opts); err == nil && result != nil` -/
def dumpAllStep (rr : RowReader) (π : MapOrder TableInfo) (fsAt : Bytes → Bytes → Option Bytes) (opts : Options)
    (dir : Bytes) : M (Option DumpResult) :=
  dumpDataDir rr π (fsAt dir) opts

/-- pgdump.go:DumpAll — `fsAt dir` is the file tree under `dir`; the result is the list of dumps (`[]` = nil; the
error result is always nil).  `opts` = the options after `withDefaults` (nil = `{ skipSystem := true }`). -/
def dumpAll (rr : RowReader) (π : MapOrder TableInfo) (e : DetectEnv) (fsAt : Bytes → Bytes → Option Bytes)
    (opts : Options) : M (List DumpResult) :=
  let dirs := detectAllDataDirs e
  if dirs.length = 0 then pure []
  else collectM (dumpAllStep rr π fsAt opts) dirs

/-! ### remote.go: Credentials, Summary, SummaryResult.MarshalJSON -/

/-- remote.go:Credentials — nil when global/1260 cannot be read -/
def rcCredentials (fs : RemoteReader) : M (List AuthInfo) :=
  match fs (strBytes "global/1260") with
  | some data => parsePGAuthID data
  | none => pure []

/-- remote.go:SummaryResult (`tables` is a Go map dbOID ↦ Tables(dbOID)) -/
structure SummaryResult where
  version : Bytes
  creds : List AuthInfo
  dbs : List DatabaseInfo
  tables : List (Nat × List TableInfo)
deriving Inhabited

/-- the loop of Summary(): `if !HasPrefix(db.Name, "template") { s.tables[db.OID] = c.Tables(db.OID) }` -/
def rcSummaryTables (rr : RowReader) (π : MapOrder TableInfo) (fs : RemoteReader) :
    List DatabaseInfo → List (Nat × List TableInfo) → Cache → M (List (Nat × List TableInfo) × Cache)
  | [], m, c => pure (m, c)
  | db :: rest, m, c =>
    if xcIsTemplate db.name then rcSummaryTables rr π fs rest m c
    else do
      let (ts, c) ← rcTables rr π fs db.oid c
      rcSummaryTables rr π fs rest (mapPut m db.oid ts) c

/-- remote.go:Summary -/
def rcSummary (rr : RowReader) (π : MapOrder TableInfo) (fs : RemoteReader) (c : Cache) : M (SummaryResult × Cache) := do
  let version := rcVersion fs
  let creds ← rcCredentials fs
  let (dbs, c) ← rcDatabases rr fs c
  let (tables, c) ← rcSummaryTables rr π fs dbs [] c
  pure ({ version, creds, dbs, tables }, c)

/-- `summary.Credentials = append(…, cr.RoleName+":"+cr.Password)` for the roles with a password -/
def summaryCredentials (creds : List AuthInfo) : List Bytes :=
  (creds.filter fun cr => cr.password != []).map fun cr => cr.roleName ++ [58] ++ cr.password

/-- `m[k] = append(m[k], v)` on a `map[string][]string` (association list in first-insertion order) -/
def strMapAppend (m : List (Bytes × List Bytes)) (k v : Bytes) : List (Bytes × List Bytes) :=
  match m with
  | [] => [(k, [v])]
  | (k', vs) :: rest => if k' == k then (k, vs ++ [v]) :: rest else (k', vs) :: strMapAppend rest k v

def summaryKeep (t : TableInfo) : Bool :=
  !isPrefixB (strBytes "pg_") t.name && !isPrefixB (strBytes "sql_") t.name && t.kind == [114]

/-- the `Databases` map MarshalJSON builds: database name ↦ the names of its ordinary tables that are neither pg_* nor
sql_* (two databases of one name share the key; a database without such a table gets no key) -/
def summaryDatabasesMap (s : SummaryResult) : List (Bytes × List Bytes) :=
  s.dbs.foldl (fun m db =>
    if xcIsTemplate db.name then m
    else (((mapGet s.tables db.oid).getD []).filter summaryKeep).foldl (fun m t => strMapAppend m db.name t.name) m) []

def jsonStrArray (l : List Bytes) : Bytes := [91] ++ Txt.joinBytes [44] (l.map CliRender.goString) ++ [93]

def jsonStrMap (m : List (Bytes × List Bytes)) : Bytes :=
  let sorted := CliRender.sortBy (fun a b => bytesLe a.1 b.1) m
  [123] ++ Txt.joinBytes [44] (sorted.map fun kv => CliRender.goString kv.1 ++ [58] ++ jsonStrArray kv.2) ++ [125]

/-- remote.go:SummaryResult.MarshalJSON — `json.Marshal(&Summary{Version, Credentials, Databases})`, every field
`omitempty` -/
def summaryMarshalJSON (s : SummaryResult) : Bytes :=
  let creds := summaryCredentials s.creds
  let dbs := summaryDatabasesMap s
  let fields : List Bytes :=
    (if s.version = [] then [] else [Txt.asc "\"version\":" ++ CliRender.goString s.version]) ++
    (if creds = [] then [] else [Txt.asc "\"credentials\":" ++ jsonStrArray creds]) ++
    (if dbs = [] then [] else [Txt.asc "\"databases\":" ++ jsonStrMap dbs])
  [123] ++ Txt.joinBytes [44] fields ++ [125]

/-! ### thin wrappers that C10_COVERAGE.md listed as "not modelled separately" -/

-- ScanAllDeletedRows: see Model/DeletedScan.lean (the tree after fix rows/07).

/-- passwords.go:ExtractPasswords — os.ReadFile(global/1260), error passed through (`none`), else ParsePGAuthID -/
def extractPasswords (fs : Bytes → Option Bytes) : M (Option (List AuthInfo)) :=
  match fs (strBytes "global/1260") with
  | none => pure none
  | some data => do pure (some (← parsePGAuthID data))

/-- remote.go:Control — nil when global/pg_control cannot be read or ParseControlFile reports its error -/
def rcControl (fs : RemoteReader) : M (Option ControlFile) :=
  match fs (strBytes "global/pg_control") with
  | some data => parseControlFile data
  | none => pure none

end PgVerif.Model.Extra
