/-
  Model of what main.go PRINTS (area `cluster`, topic E5): for every mode of the CLI — the dump modes (JSON / `-sql` /
  `-csv`) included — the bytes written to stdout, the exit code, and what goes to stderr.  `Model/Cli.lean` decides WHICH library call a flag combination
  reaches (`cliAction`); this file renders the library's result the way main.go does.

  Library calls are parameters (`Lib`): each field is one exported pgdump function as main.go calls it, returning the
  other areas' model types; `none` = the Go call returned `err != nil`.  The driver instantiates `Lib` with the other
  areas' models over a file tree, so the family `clirender` checks model-of-library ∘ model-of-main.go against the
  real binary.

  Library pieces modelled here (documented behaviour, checked by family `clirender` against the real binary):
    * `fmt` verbs `%d %s %08X` (via Types/Text), `fmt.Println`
    * `encoding/json` as main.go uses it: `json.NewEncoder(os.Stdout)`, `SetIndent("", "  ")`, `Encode(v)`:
      struct fields in declaration order under their tag names, `omitempty`, maps with sorted keys, nil slice / nil
      map / nil pointer = `null`, strings with Go's escaping (HTML-safe: `< > &` as <…, U+2028/9 escaped,
      invalid UTF-8 → �), two-space indentation, a trailing newline; an encoding error (time.Time whose year is
      outside 0..9999) writes NOTHING to stdout (the encoder buffers); main.go (fix cluster/07) reports it, exit 1.
    * `time.Time.MarshalJSON` for a whole number of seconds in UTC (RFC 3339)
    * `encoding/hex.Dump`
    * `DumpResult.ToSQL` / `ToCSV`: area export's models (Model/ExportSql.lean, Model/ExportCsv.lean)
  Floats are never rendered here: the modes whose structs carry floats (-index, -toast-verbose, block statistics)
  are compared against the library's own JSON by the Go handler; a JSON dump with a float cell is left unrendered.
-/
import PgVerif.Types.Text
import PgVerif.Types.ExportDump
import PgVerif.Model.ExportCsv
import PgVerif.Model.Cli
import PgVerif.Model.Catalog
import PgVerif.Model.Cluster
import PgVerif.Model.Control
import PgVerif.Model.Sequence
import PgVerif.Model.Relmap
import PgVerif.Model.Checksum
import PgVerif.Model.Segment
import PgVerif.Model.Wal
namespace PgVerif.Model.CliRender
open PgVerif PgVerif.Txt PgVerif.Model

/-! ### JSON values as `encoding/json` sees a Go value (no floats) -/

inductive JV where
  | null
  | bool (b : Bool)
  | int (i : Int)
  | str (s : Bytes)
  | arr (xs : List JV)
  | obj (kvs : List (Bytes × JV))
deriving Repr, Inhabited

/-! ### Go's JSON string escaping (`appendString` with escapeHTML = true) -/

/-- a byte below 0x80 -/
def goAsciiByte (b : UInt8) : Bytes :=
  if b = 34 ∨ b = 92 then [92, b]
  else if b = 8 then [92, 98]
  else if b = 12 then [92, 102]
  else if b = 10 then [92, 110]
  else if b = 13 then [92, 114]
  else if b = 9 then [92, 116]
  else if b < 32 ∨ b = 60 ∨ b = 62 ∨ b = 38 then [92, 117, 48, 48, hexCh false (b.toNat / 16), hexCh false (b.toNat % 16)]
  else [b]

def isCont (b : UInt8) : Bool := 0x80 ≤ b && b ≤ 0xBF

/-- `utf8.DecodeRuneInString` on a string whose first byte is ≥ 0x80: the width (2..4) of a valid encoding at the
head, 0 for `(RuneError, 1)` (Go's `first` / `acceptRanges` tables) -/
def utf8Width : Bytes → Nat
  | b0 :: b1 :: rest =>
    if 0xC2 ≤ b0 ∧ b0 ≤ 0xDF then (if isCont b1 then 2 else 0)
    else
      let lo : UInt8 := if b0 = 0xE0 then 0xA0 else if b0 = 0xF0 then 0x90 else 0x80
      let hi : UInt8 := if b0 = 0xED then 0x9F else if b0 = 0xF4 then 0x8F else 0xBF
      if 0xE0 ≤ b0 ∧ b0 ≤ 0xEF then
        (match rest with
         | b2 :: _ => if lo ≤ b1 ∧ b1 ≤ hi ∧ isCont b2 then 3 else 0
         | [] => 0)
      else if 0xF0 ≤ b0 ∧ b0 ≤ 0xF4 then
        (match rest with
         | b2 :: b3 :: _ => if lo ≤ b1 ∧ b1 ≤ hi ∧ isCont b2 ∧ isCont b3 then 4 else 0
         | _ => 0)
      else 0
  | _ => 0

/-- U+2028 / U+2029 (the only encodings: E2 80 A8 / E2 80 A9) -/
def lineSepDigit : Bytes → Option UInt8
  | 0xE2 :: 0x80 :: 0xA8 :: _ => some 56
  | 0xE2 :: 0x80 :: 0xA9 :: _ => some 57
  | _ => none

/-- the body of a Go JSON string; `fuel` ≥ length -/
def goStrBody : Nat → Bytes → Bytes
  | 0, _ => []
  | _ + 1, [] => []
  | f + 1, b :: t =>
    if b < 0x80 then goAsciiByte b ++ goStrBody f t
    else
      let w := utf8Width (b :: t)
      if w = 0 then [92, 117, 102, 102, 102, 100] ++ goStrBody f t
      else match lineSepDigit (b :: t) with
        | some d => [92, 117, 50, 48, 50, d] ++ goStrBody f (t.drop 2)
        | none => (b :: t).take w ++ goStrBody f (t.drop (w - 1))

def goString (s : Bytes) : Bytes := 34 :: (goStrBody s.length s ++ [34])

/-- no byte sequence of `s` is replaced by U+FFFD (s is valid UTF-8) -/
def goStrClean : Nat → Bytes → Bool
  | 0, s => s.isEmpty
  | _ + 1, [] => true
  | f + 1, b :: t =>
    if b < 0x80 then goStrClean f t
    else
      let w := utf8Width (b :: t)
      if w = 0 then false else goStrClean f (t.drop (w - 1))

def utf8Clean (s : Bytes) : Bool := goStrClean s.length s

/-! ### `Encoder.Encode` with `SetIndent("", "  ")` -/

def nl (d : Nat) : Bytes := 10 :: List.replicate (2 * d) 32

mutual
/-- the indented text of a value whose opening token sits at depth `d` -/
def renderIndent (d : Nat) : JV → Bytes
  | .null => asc "null"
  | .bool b => if b then asc "true" else asc "false"
  | .int i => Export.decInt i
  | .str s => goString s
  | .arr [] => [91, 93]
  | .arr (x :: xs) => 91 :: (nl (d + 1) ++ renderElems (d + 1) (x :: xs) ++ nl d ++ [93])
  | .obj [] => [123, 125]
  | .obj (kv :: kvs) => 123 :: (nl (d + 1) ++ renderMembers (d + 1) (kv :: kvs) ++ nl d ++ [125])
def renderElems (d : Nat) : List JV → Bytes
  | [] => []
  | [x] => renderIndent d x
  | x :: y :: rest => renderIndent d x ++ 44 :: (nl d ++ renderElems d (y :: rest))
def renderMembers (d : Nat) : List (Bytes × JV) → Bytes
  | [] => []
  | [(k, v)] => goString k ++ 58 :: 32 :: renderIndent d v
  | (k, v) :: kv2 :: rest => goString k ++ 58 :: 32 :: renderIndent d v ++ 44 :: (nl d ++ renderMembers d (kv2 :: rest))
end

/-- `enc.Encode(v)`: the indented text and a newline -/
def encodeJSON (v : JV) : Bytes := renderIndent 0 v ++ [10]

/-! canonical compact text with every array sorted by the text of its elements and object keys sorted: what the Go
handler computes from stdout when the order of a list is Go map iteration order (`-sequences`) -/

def bytesLeB (a b : Bytes) : Bool := !bytesLt b a

def insertBy {α} (le : α → α → Bool) (x : α) : List α → List α
  | [] => [x]
  | y :: ys => if le x y then x :: y :: ys else y :: insertBy le x ys

def sortBy {α} (le : α → α → Bool) (l : List α) : List α := l.foldr (insertBy le) []

mutual
def canonJV : JV → Bytes
  | .null => asc "null"
  | .bool b => if b then asc "true" else asc "false"
  | .int i => Export.decInt i
  | .str s => goString s
  | .arr xs => 91 :: (joinBytes [44] (sortBy bytesLeB (canonList xs)) ++ [93])
  | .obj kvs => 123 :: (joinBytes [44] ((sortBy (fun a b => bytesLeB a.1 b.1) (canonKvs kvs)).map fun kv => kv.1 ++ 58 :: kv.2) ++ [125])
def canonList : List JV → List Bytes
  | [] => []
  | x :: xs => canonJV x :: canonList xs
def canonKvs : List (Bytes × JV) → List (Bytes × Bytes)
  | [] => []
  | (k, v) :: rest => (goString k, canonJV v) :: canonKvs rest
end

/-! ### time.Time.MarshalJSON (UTC, whole seconds) -/

/-- day number `n` counted from −0400-03-01 (the era before 0000-03-01, so that January and February of year 0 need
no special case) → (year + 400, month, day), proleptic Gregorian.  Cycle counting: 400-year cycles of 146097 days, then
at most three 100-year cycles of 36524 days, 4-year cycles of 1461 days, at most three years of 365 days; the month
from the day of the March-based year. -/
def civilN (n : Nat) : Nat × Nat × Nat :=
  let c400 := n / 146097
  let r := n % 146097
  let c100 := min (r / 36524) 3
  let r2 := r - c100 * 36524
  let c4 := r2 / 1461
  let r3 := r2 % 1461
  let c1 := min (r3 / 365) 3
  let doy := r3 - c1 * 365
  let mp := (5 * doy + 2) / 153
  let d := doy - (153 * mp + 2) / 5 + 1
  let m := if mp < 10 then mp + 3 else mp - 9
  (400 * c400 + 100 * c100 + 4 * c4 + c1 + (if m ≤ 2 then 1 else 0), m, d)

/-- days since 1970-01-01 (≥ −865565) → (year, month, day) -/
def civilFromDays (z : Int) : Int × Nat × Nat :=
  let c := civilN (z + 865565).toNat
  ((c.1 : Int) - 400, c.2.1, c.2.2)

/-- Go `%02d` / `%04d` of a number below 100 / 10000 -/
def d2 (n : Nat) : Bytes := [digitCh (n / 10 % 10), digitCh (n % 10)]
def d4 (n : Nat) : Bytes := [digitCh (n / 1000 % 10), digitCh (n / 100 % 10), digitCh (n / 10 % 10), digitCh (n % 10)]

/-- the seconds whose year is in 0..9999 -/
def timeInRange (s : Int) : Bool := decide (-62167219200 ≤ s) && decide (s ≤ 253402300799)

/-- RFC 3339 text of `time.Unix(s, 0).UTC()` (for a year in 0..9999) -/
def rfc3339 (s : Int) : Bytes :=
  let days := s / 86400                      -- `/` on Int rounds toward −∞ for a positive divisor
  let sod := (s - days * 86400).toNat
  let c := civilFromDays days
  d4 c.1.toNat ++ [45] ++ d2 c.2.1 ++ [45] ++ d2 c.2.2 ++ [84] ++ d2 (sod / 3600) ++ [58] ++ d2 (sod / 60 % 60) ++ [58] ++
    d2 (sod % 60) ++ [90]

/-! ### encoding/hex.Dump -/

def hex2 (b : UInt8) : Bytes := [hexCh false (b.toNat / 16), hexCh false (b.toNat % 16)]

def dumpChar (b : UInt8) : UInt8 := if b < 32 ∨ b > 126 then 46 else b

/-- the hex columns of one line: 16 cells of "xx " (3 blanks for a missing byte), an extra blank after cell 8 and 16 -/
def hexCells : Nat → Bytes → Bytes
  | 0, _ => []
  | n + 1, bs =>
    let i := 16 - (n + 1)
    let cell := match bs with | b :: _ => hex2 b ++ [32] | [] => [32, 32, 32]
    cell ++ (if i = 7 ∨ i = 15 then [32] else []) ++ hexCells n (bs.drop 1)

def hexDumpLine (off : Nat) (chunk : Bytes) : Bytes :=
  hexPad 8 off ++ [32, 32] ++ hexCells 16 chunk ++ [124] ++ chunk.map dumpChar ++ [124, 10]

def hexDumpLoop : Nat → Nat → Bytes → Bytes
  | 0, _, _ => []
  | f + 1, off, bs => if bs.isEmpty then [] else hexDumpLine off (bs.take 16) ++ hexDumpLoop f (off + 16) (bs.drop 16)

/-- `hex.Dump(data)` -/
def hexDump (data : Bytes) : Bytes := hexDumpLoop (data.length / 16 + 1) 0 data

/-! ### what a run of the program produces -/

structure Out where
  stdout : Bytes := []
  /-- the part of stderr main.go itself determines -/
  stderr : Bytes := []
  /-- the library's error text and a newline follow on stderr (`%v` of an `error`; not modelled) -/
  stderrMore : Bool := false
  exit : Nat := 0
deriving Repr, Inhabited, DecidableEq

def okOut (s : Bytes) : Out := { stdout := s }
/-- `fmt.Fprintf(os.Stderr, "<prefix>%v\n", err); os.Exit(1)` -/
def errOut (pre : String) : Out := { stderr := asc pre, stderrMore := true, exit := 1 }
/-- a complete stderr text, exit 1 -/
def failOut (msg : Bytes) : Out := { stderr := msg, exit := 1 }

/-! ### text modes -/

def renderVersion (version : Bytes) : Bytes := asc "pgdump-offline " ++ version ++ [10]

/-- `-detect` with at least one directory found: the paths with the names ListDatabases returns for each -/
def renderDetect (found : List (Bytes × List DatabaseInfo)) : Bytes :=
  asc "Detected PostgreSQL data directories:\n" ++
    found.flatMap fun (p, dbs) => asc "  " ++ p ++ asc " (" ++ joinBytes (asc ", ") (dbs.map (·.name)) ++ asc ")\n"

def listDbLine (db : DatabaseInfo) : Bytes := db.name ++ asc " (OID " ++ Export.dec db.oid ++ asc ")\n"

def renderListDb (dbs : List DatabaseInfo) : Out :=
  if dbs.isEmpty then { stdout := asc "No databases found\n", exit := 1 }
  else okOut (dbs.flatMap listDbLine)

def authFlags (a : AuthInfo) : Bytes :=
  (if a.rolSuper then asc " [SUPERUSER]" else []) ++ (if a.rolLogin then asc " [LOGIN]" else [])

def authLine (a : AuthInfo) : Bytes :=
  if a.password ≠ [] then a.roleName ++ [58] ++ a.password ++ authFlags a ++ [10]
  else a.roleName ++ asc ":(no password)" ++ authFlags a ++ [10]

def passwordsHeader : Bytes := asc "PostgreSQL Password Hashes:\n===========================\n"

/-- `-passwords <sel>`: every role for "all", otherwise the roles of that name -/
def renderPasswords (sel : Bytes) (auths : List AuthInfo) : Bytes :=
  if auths.isEmpty then asc "No password hashes found\n"
  else passwordsHeader ++ (auths.filter fun a => sel == asc "all" || a.roleName == sel).flatMap authLine

/-! `-f <file>` with none of the flags b, index, toast-verbose, R (parseSingle) -/

def file1262Line (db : DatabaseInfo) : Bytes := asc "  " ++ listDbLine db

def renderFile1262 (dbs : List DatabaseInfo) : Bytes := asc "pg_database:\n" ++ dbs.flatMap file1262Line

def classLine (t : TableInfo) : Bytes :=
  asc "  " ++ t.name ++ asc " (OID " ++ Export.dec t.oid ++ asc ", filenode " ++ Export.dec t.filenode ++ asc ", kind " ++ t.kind ++ asc ")\n"

/-- the map of ParsePGClass printed in ascending filenode order (fix cluster/05) -/
def renderFile1259 (tables : List (Nat × TableInfo)) : Bytes :=
  asc "pg_class:\n" ++ (sortNat (tables.map (·.1))).flatMap fun fn =>
    match tables.lookup fn with | some t => classLine t | none => []

def attrLine (c : AttrInfo) : Bytes :=
  asc "    " ++ Export.decInt c.num ++ asc ": " ++ c.name ++ asc " (" ++ typeName c.typid ++ asc ")\n"

def renderFile1249 (attrs : List (Nat × List AttrInfo)) : Bytes :=
  asc "pg_attribute:\n" ++ (sortNat (attrs.map (·.1))).flatMap fun relid =>
    asc "  relation " ++ Export.dec relid ++ asc ":\n" ++ ((attrs.lookup relid).getD []).flatMap attrLine

def renderHeapCount (n : Nat) : Bytes := asc "Heap file: " ++ Export.dec n ++ asc " tuples\n"

/-- Go `%08X` of an int64 -/
def fmt08X (i : Int) : Bytes :=
  if i < 0 then 45 :: zpad 7 (hexNat true i.natAbs) else zpad 8 (hexNat true i.natAbs)

/-- `-f <file> -b`: header line, hex.Dump, and the newline `Println` adds -/
def binaryBlock (d : BinaryDump Bytes) : Bytes :=
  asc "Block " ++ Export.dec d.blockNumber ++ asc " (offset 0x" ++ fmt08X d.offset ++ asc "):\n" ++ d.hexDump ++ [10]

def renderBinary (dumps : List (BinaryDump Bytes)) : Bytes := dumps.flatMap binaryBlock

/-! ### JSON modes: the struct → JSON value maps (`json` tags of the library structs, in declaration order) -/

def jstr (s : String) : JV := .str s.toUTF8.toList
def key (s : String) : Bytes := asc s
def jnat (n : Nat) : JV := .int n

def controlJV (c : ControlFile) : JV := .obj [
  (key "pg_control_version", jnat c.pgControlVersion), (key "catalog_version_no", jnat c.catalogVersionNo),
  (key "system_identifier", jnat c.systemIdentifier), (key "state", .int c.state), (key "state_string", jstr c.stateString),
  (key "checkpoint_lsn", jstr c.checkpointLSN), (key "redo_lsn", jstr c.redoLSN), (key "redo_wal_file", jstr c.redoWALFile),
  (key "timeline_id", jnat c.timeLineID), (key "prev_timeline_id", jnat c.prevTimeLineID),
  (key "full_page_writes", .bool c.fullPageWrites), (key "next_xid_epoch", jnat c.nextXIDEpoch), (key "next_xid", jnat c.nextXID),
  (key "next_oid", jnat c.nextOID), (key "next_multi", jnat c.nextMulti), (key "next_multi_offset", jnat c.nextMultiOffset),
  (key "oldest_xid", jnat c.oldestXID), (key "oldest_xid_db", jnat c.oldestXIDDB), (key "oldest_active_xid", jnat c.oldestActiveXID),
  (key "oldest_multi", jnat c.oldestMulti), (key "oldest_multi_db", jnat c.oldestMultiDB),
  (key "oldest_commit_ts_xid", jnat c.oldestCommitTsXID), (key "newest_commit_ts_xid", jnat c.newestCommitTsXID),
  (key "checkpoint_time", .str (rfc3339 c.checkpointTime)),
  (key "wal_level", jstr c.walLevel), (key "wal_log_hints", .bool c.walLogHints), (key "max_connections", .int c.maxConnections),
  (key "max_worker_processes", .int c.maxWorkerProcesses), (key "max_wal_senders", .int c.maxWALSenders),
  (key "max_prepared_xacts", .int c.maxPreparedXacts), (key "max_locks_per_xact", .int c.maxLocksPerXact),
  (key "track_commit_timestamp", .bool c.trackCommitTS), (key "max_align", jnat c.maxAlign), (key "block_size", jnat c.blockSize),
  (key "blocks_per_segment", jnat c.blocksPerSeg), (key "wal_block_size", jnat c.walBlockSize),
  (key "wal_segment_size", jnat c.walSegmentSize), (key "name_data_len", jnat c.nameDataLen),
  (key "index_max_keys", jnat c.indexMaxKeys), (key "toast_max_chunk_size", jnat c.toastMaxChunk),
  (key "large_object_chunk_size", jnat c.largeObjectChunk), (key "float_format_ok", .bool c.floatFormatOK),
  (key "data_checksums_enabled", .bool c.dataChecksumsEnabled), (key "crc", jnat c.crc), (key "crc_valid", .bool c.crcValid),
  (key "pg_version_major", jnat c.pgVersionMajor)]

/-- `-control`: the encoder fails on a checkpoint time outside the years 0..9999 (nothing reaches stdout: the encoder
buffers); `mustEncode` (fix cluster/07) reports the error and exits 1.  Before the fix main.go dropped the error:
empty stdout, exit 0. -/
def renderControl (c : ControlFile) : Out :=
  if timeInRange c.checkpointTime then okOut (encodeJSON (controlJV c)) else errOut "Error encoding JSON: "

/-- SequenceData: name, oid, filenode are `omitempty` -/
def seqJV (s : SequenceData) : JV := .obj (
  (if s.name ≠ [] then [(key "name", JV.str s.name)] else []) ++
  (if s.oid ≠ 0 then [(key "oid", jnat s.oid)] else []) ++
  (if s.filenode ≠ 0 then [(key "filenode", jnat s.filenode)] else []) ++
  [(key "last_value", .int s.lastValue), (key "start_value", .int s.startValue), (key "increment_by", .int s.incrementBy),
   (key "max_value", .int s.maxValue), (key "min_value", .int s.minValue), (key "cache_value", .int s.cacheValue),
   (key "is_cycled", .bool s.isCycled), (key "is_called", .bool s.isCalled)])

/-- `[]SequenceData` of FindSequences: `var sequences []SequenceData` stays nil when nothing is appended -/
def seqListJV (l : List SequenceData) : JV := if l.isEmpty then .null else .arr (l.map seqJV)

/-- `map[string][]SequenceData` of ScanAllSequences (made with `make`: never nil), keys sorted by the encoder -/
def seqMapJV (m : List (Bytes × List SequenceData)) : JV :=
  .obj ((sortBy (fun a b => bytesLeB a.1 b.1) m).map fun (n, l) => (n, seqListJV l))

def mappingJV (m : RelMapping) : JV := .obj [(key "oid", jnat m.oid), (key "filenode", jnat m.filenode)]

/-- RelMapFile: `Mappings` grows by `append` from nil (`null` when there is no mapping); crc and path are `omitempty` -/
def relmapJV (r : RelMapFile) : JV := .obj (
  [(key "magic", jnat r.magic), (key "num_mappings", .int r.numMappings),
   (key "mappings", if r.mappings.isEmpty then .null else .arr (r.mappings.map mappingJV))] ++
  (if r.crc ≠ 0 then [(key "crc", jnat r.crc)] else []) ++
  [(key "is_global", .bool r.isGlobal)] ++
  (if r.path ≠ "" then [(key "path", jstr r.path)] else []))

/-- RelMapInfo: `Databases []*RelMapFile` is `omitempty` -/
def relmapInfoJV (i : RelMapInfo) : JV := .obj (
  [(key "global", relmapJV i.global)] ++
  (if i.databases.isEmpty then [] else [(key "databases", .arr (i.databases.map relmapJV))]))

def checksumResultJV (r : ChecksumResult) : JV := .obj (
  [(key "block_number", jnat r.blockNumber), (key "stored_checksum", jnat r.stored), (key "computed_checksum", jnat r.computed),
   (key "valid", .bool r.valid)] ++
  (if r.lsn ≠ 0 then [(key "lsn", jnat r.lsn)] else []) ++
  (if r.lsnStr ≠ "" then [(key "lsn_str", jstr r.lsnStr)] else []))

/-- FileChecksumResult with its path (`<dataDir>/<directory relative to the data directory>/<name>`: `global/<name>`,
`base/<db>/<name>`, `pg_tblspc/<spc>/PG_…/<db>/<name>`) -/
def fileChecksumJV (dataDir : Bytes) (f : ScannedFile) : JV := .obj (
  [(key "path", .str (dataDir ++ [47] ++ f.db ++ [47] ++ f.name)), (key "total_blocks", jnat f.result.totalBlocks),
   (key "valid_blocks", jnat f.result.validBlocks), (key "invalid_blocks", jnat f.result.invalidBlocks),
   (key "zero_blocks", jnat f.result.zeroBlocks)] ++
  (if f.result.errors.isEmpty then [] else [(key "errors", .arr (f.result.errors.map checksumResultJV))]))

def dataDirChecksumJV (dataDir : Bytes) (r : DataDirChecksumResult) : JV := .obj (
  [(key "data_dir", .str dataDir), (key "checksums_enabled", .bool r.checksumsEnabled), (key "total_files", jnat r.totalFiles),
   (key "total_blocks", jnat r.totalBlocks), (key "valid_blocks", jnat r.validBlocks), (key "invalid_blocks", jnat r.invalidBlocks)] ++
  (if r.files.isEmpty then [] else [(key "files", .arr (r.files.map (fileChecksumJV dataDir)))]))

def strNatMapJV (m : List (String × Nat)) : JV :=
  .obj ((sortBy (fun a b => bytesLeB a.1 b.1) (m.map fun (k, v) => (k.toUTF8.toList, v))).map fun (k, v) => (k, jnat v))

def txJV (t : Wal.TxInfo) : JV := .obj [(key "xid", jnat t.xid), (key "status", jstr t.status), (key "operations", jnat t.operations)]

/-- WALSummary: both maps are made with `make`; `transactions` is `omitempty` -/
def walSummaryJV (s : Wal.Summary) : JV := .obj (
  [(key "segment_count", jnat s.segmentCount), (key "record_count", jnat s.recordCount), (key "first_lsn", jstr s.firstLSN),
   (key "last_lsn", jstr s.lastLSN), (key "pg_version", jstr s.pgVersion), (key "timeline_id", jnat s.tli),
   (key "operations", strNatMapJV s.ops)] ++
  (if s.transactions.isEmpty then [] else [(key "transactions", .arr (s.transactions.map txJV))]) ++
  [(key "affected_tables", strNatMapJV s.tables)])

/-- BlockInfo (`-f <file> -R <range>`): `is_empty` is `omitempty` -/
def blockInfoJV (b : BlockInfo) : JV := .obj (
  [(key "block_number", jnat b.blockNumber), (key "lsn", jstr b.lsn), (key "checksum", jnat b.checksum), (key "flags", jnat b.flags),
   (key "lower", jnat b.lower), (key "upper", jnat b.upper), (key "special", jnat b.special), (key "page_size", jnat b.pageSize),
   (key "version", jnat b.version), (key "item_count", jnat b.itemCount), (key "free_space", jnat b.freeSpace)] ++
  (if b.isEmpty then [(key "is_empty", JV.bool true)] else []))

/-- `[]BlockInfo` of DumpBlockRange (`var blocks []BlockInfo`: nil when empty) -/
def blockListJV (l : List BlockInfo) : JV := if l.isEmpty then .null else .arr (l.map blockInfoJV)

/-! ### the dump modes (`pgread [-d DIR] [-db NAME] [-t SUBSTR] [-list] [-sql] [-csv]`): DumpResult → JSON / SQL / CSV

  `DumpResult{Databases []DatabaseDump "databases"}`, `DatabaseDump{oid, name, tables}`,
  `TableDump{oid, name, filenode, kind, columns (omitempty), rows (omitempty), row_count}`, `ColumnInfo{name, type, typid}`
  (pgdump/pgdump.go).  `result.Databases` and `dump.Tables` grow by `append` from nil: `null` when nothing was appended.
  A row is a `map[string]interface{}`: the encoder writes its keys in byte-wise sorted order; the association list of
  the model (`Spec.DRow`, distinct keys, in column order) is sorted here.  Cell values: nil → `null`, bool, every
  integer kind in decimal, strings with Go's escaping, `[]interface{}` as an array (DecodeType never returns a nil
  slice), nested maps with sorted keys.  A float32 / float64 has no rendering in Lean (`strconv`'s shortest
  decimal; NaN / Inf make the encoder fail): `goValJV` is partial, `none` = a float occurs somewhere. -/

def keyLe (a b : Bytes × JV) : Bool := bytesLeB a.1 b.1

mutual
/-- a decoded cell as `encoding/json` sees it; `none` when a float occurs in it -/
def goValJV : GoVal → Option JV
  | .nil => some .null
  | .bool b => some (.bool b)
  | .int i => some (.int i)
  | .f64 _ => none
  | .f32 _ => none
  | .str s => some (.str s)
  | .arr xs => match goValsJV xs with
    | some l => some (.arr l)
    | none => none
  | .obj kvs => match goKvsJV kvs with
    | some l => some (.obj (sortBy keyLe l))
    | none => none
def goValsJV : List GoVal → Option (List JV)
  | [] => some []
  | x :: xs => match goValJV x, goValsJV xs with
    | some a, some b => some (a :: b)
    | _, _ => none
def goKvsJV : List (Bytes × GoVal) → Option (List (Bytes × JV))
  | [] => some []
  | (k, v) :: rest => match goValJV v, goKvsJV rest with
    | some a, some b => some ((k, a) :: b)
    | _, _ => none
end

/-- one row (a Go map): an object with sorted keys -/
def rowJV (r : Spec.DRow) : Option JV := goValJV (.obj r)

def rowsJV : List Spec.DRow → Option (List JV)
  | [] => some []
  | r :: rs => match rowJV r, rowsJV rs with
    | some a, some b => some (a :: b)
    | _, _ => none

def columnJV (c : Spec.ColumnInfo) : JV := .obj [(key "name", .str c.name), (key "type", .str c.typ), (key "typid", .int c.typid)]

/-- TableDump: `columns` and `rows` are `omitempty` (dropped when the slice is nil or empty) -/
def tableJV (t : Spec.TableDump) : Option JV :=
  match rowsJV t.rows with
  | none => none
  | some rows => some (.obj (
      [(key "oid", jnat t.oid), (key "name", .str t.name), (key "filenode", jnat t.filenode), (key "kind", .str t.kind)] ++
      (if t.columns.isEmpty then [] else [(key "columns", .arr (t.columns.map columnJV))]) ++
      (if rows.isEmpty then [] else [(key "rows", .arr rows)]) ++
      [(key "row_count", jnat t.rowCount)]))

def tablesJV : List Spec.TableDump → Option (List JV)
  | [] => some []
  | t :: ts => match tableJV t, tablesJV ts with
    | some a, some b => some (a :: b)
    | _, _ => none

/-- DatabaseDump: `Tables` is nil (`null`) when no table was appended -/
def dbJV (d : Spec.DatabaseDump) : Option JV :=
  match tablesJV d.tables with
  | none => none
  | some ts => some (.obj [(key "oid", jnat d.oid), (key "name", .str d.name),
      (key "tables", if ts.isEmpty then .null else .arr ts)])

def dbsJV : List Spec.DatabaseDump → Option (List JV)
  | [] => some []
  | d :: ds => match dbJV d, dbsJV ds with
    | some a, some b => some (a :: b)
    | _, _ => none

/-- DumpResult: `Databases` is nil (`null`) when no database was dumped.  `none` = a float occurs in some cell -/
def dumpJV (r : Spec.DumpResult) : Option JV :=
  match dbsJV r with
  | none => none
  | some ds => some (.obj [(key "databases", if ds.isEmpty then .null else .arr ds)])

/-! the input of area export's `toSQL` / `toCSV` (Types/ExportDump.lean: a Go map is an association list in
`sort.Strings` order): the same dump with every map's keys sorted -/

def goKeyLe (a b : Bytes × GoVal) : Bool := bytesLeB a.1 b.1

mutual
def normVal : GoVal → GoVal
  | .arr xs => .arr (normVals xs)
  | .obj kvs => .obj (sortBy goKeyLe (normKvs kvs))
  | v => v
def normVals : List GoVal → List GoVal
  | [] => []
  | x :: xs => normVal x :: normVals xs
def normKvs : List (Bytes × GoVal) → List (Bytes × GoVal)
  | [] => []
  | (k, v) :: rest => (k, normVal v) :: normKvs rest
end

def normRow (r : Spec.DRow) : Export.Row := sortBy goKeyLe (normKvs r)

def exportTable (t : Spec.TableDump) : Export.TableDump :=
  { name := t.name, columns := t.columns.map fun c => ⟨c.name, c.typ, c.typid⟩, rows := t.rows.map normRow, rowCount := t.rowCount }

def exportDump (r : Spec.DumpResult) : Export.DumpResult :=
  r.map fun d => { oid := d.oid, name := d.name, tables := d.tables.map exportTable }

/-- `-v` in the dump mode: after DumpDataDir succeeded and before anything reaches stdout,
`fmt.Fprintf(os.Stderr, "[*] %s (OID %d): %d tables\n", db.Name, db.OID, len(db.Tables))` per dumped database.
`Action.dump` does not carry the flag: `cliRun` is the run WITHOUT `-v`; the family `clirender` adds these lines (and
the "[*] Auto-detected: …" line) to the expected stderr when `-v` is given. -/
def dumpVerbose (r : Spec.DumpResult) : Bytes :=
  r.flatMap fun db => asc "[*] " ++ db.name ++ asc " (OID " ++ Export.dec db.oid ++ asc "): " ++ Export.dec db.tables.length ++ asc " tables\n"

/-! ### the library as main.go sees it -/

/-- every field is one call main.go makes; `none` = the call returned an error -/
structure Lib where
  version : Bytes
  /-- DetectAllDataDirs() -/
  detectAll : List Bytes
  /-- ListDatabases(dir) (nil on a read error) -/
  listDatabases : Bytes → M (List DatabaseInfo)
  readControlFile : Bytes → M (Option ControlFile)
  verifyChecksums : Bytes → M (Option DataDirChecksumResult)
  scanAllSequences : Bytes → M (Option (List (Bytes × List SequenceData)))
  findSequences : Bytes → Bytes → M (Option (List SequenceData))
  readGlobalRelMap : Bytes → M (Option RelMapFile)
  readAllRelMaps : Bytes → M (Option RelMapInfo)
  readDatabaseRelMap : Bytes → Nat → M (Option RelMapFile)
  extractPasswords : Bytes → M (Option (List AuthInfo))
  scanWAL : Bytes → M (Option Wal.Summary)
  /-- os.ReadFile(path) -/
  readFile : Bytes → Option Bytes
  parsePGDatabase : Bytes → M (List DatabaseInfo)
  parsePGClass : Bytes → M (List (Nat × TableInfo))
  parsePGAttribute : Bytes → M (List (Nat × List AttrInfo))
  /-- len(ParseFile(data)) -/
  countTuples : Bytes → M Nat
  /-- ParseBlockRange(s) -/
  parseBlockRange : Bytes → M (Option (Option BlockRange))
  /-- DumpBinaryRange(path, br) -/
  dumpBinaryRange : Bytes → Option BlockRange → M (Option (List (BinaryDump Bytes)))
  /-- GetSegmentInfo(path, &SegmentOptions{n, size}) -/
  segmentInfo : Bytes → Int × Int → Option SegmentInfo
  /-- DumpBlockRange(path, br) -/
  dumpBlockRange : Bytes → Option BlockRange → M (Option (List BlockInfo))
  /-- DumpDataDir(dir, &Options{DatabaseFilter, TableFilter, ListOnly, SkipSystemTables: true}) — the call of the dump
  modes; `none` = it returned an error (global/1262 cannot be read) -/
  dumpDataDir : Bytes → Spec.Options → M (Option Spec.DumpResult)
  /-- `time.Now().Format(time.RFC3339)` at the moment `ToSQL` writes its header (the only place a clock is read) -/
  now : Bytes
  /-- `fmt`'s `%v` / `encoding/json`'s text of float32 / float64 cells as `ToSQL` / `ToCSV` use them (area export's
  parameter, Types/ExportDump.lean; never computed in Lean) -/
  floatFmt : Export.FloatFmt

/-- the modes whose stdout is `enc.Encode(<library struct>)` of a struct this file does not render (floats, search
values, trufflehog findings): the handler compares stdout with the library's own JSON.  `dump` = the JSON dump mode
(no `-sql`, no `-csv`) of a dump in which some cell holds a float32 / float64 — and only that: every other dump is
rendered (`renderDump`). -/
inductive Unrendered where
  | index | toastVerbose | dropped | secrets | search | dump
deriving Repr, DecidableEq, Inhabited

inductive Run where
  | out (o : Out)
  | unrendered (u : Unrendered)
deriving Repr, Inhabited

def jsonOr (pre : String) (r : Option α) (f : α → Bytes) : Run :=
  match r with
  | some x => .out (okOut (f x))
  | none => .out (errOut pre)

def noDataDirText : Bytes :=
  asc "Error: PostgreSQL data directory not found\n\nSpecify path manually:\n  pgdump-offline -d /var/lib/postgresql/data/\n\nOr set PGDATA environment variable\n"

/-- parseSingle -/
def runPlain (L : Lib) (path : Bytes) : M Run :=
  match L.readFile path with
  | none => pure (.out (errOut "Error: "))
  | some data =>
    let base := pathBase path
    if base = asc "1262" then do return .out (okOut (renderFile1262 (← L.parsePGDatabase data)))
    else if base = asc "1259" then do return .out (okOut (renderFile1259 (← L.parsePGClass data)))
    else if base = asc "1249" then do return .out (okOut (renderFile1249 (← L.parsePGAttribute data)))
    else do return .out (okOut (renderHeapCount (← L.countTuples data)))

/-- parseBinaryDump -/
def runBinary (L : Lib) (path range : Bytes) : M Run := do
  let br ← (if range = [] then pure (some none) else L.parseBlockRange range)
  match br with
  | none => return .out (errOut "Error parsing block range: ")
  | some br =>
    match ← L.dumpBinaryRange path br with
    | none => return .out (errOut "Error: ")
    | some dumps => return .out (okOut (renderBinary dumps))

/-- Go `%X` of an int64 -/
def fmtXInt (i : Int) : Bytes := if i < 0 then 45 :: hexNat true i.natAbs else hexNat true i.natAbs

/-- `fmt.Fprintf(os.Stderr, "[*] Segment %d: %d blocks, global offset 0x%X\n", …)` -/
def segmentLine (si : SegmentInfo) : Bytes :=
  asc "[*] Segment " ++ Export.decInt si.segmentNumber ++ asc ": " ++ Export.dec si.totalBlocks ++ asc " blocks, global offset 0x" ++
    fmtXInt si.globalOffset ++ [10]

/-- parseBlockRangeWithSegment; the "[*] Segment …" line goes to stderr -/
def runRange (L : Lib) (path range : Bytes) (seg : Option (Int × Int)) : M Run := do
  match ← L.parseBlockRange range with
  | none => return .out (errOut "Error parsing block range: ")
  | some br =>
    match seg with
    | some s =>
      match L.segmentInfo path s with
      | none => return .out (errOut "Error getting segment info: ")
      | some si =>
        match ← L.dumpBlockRange path br with
        | none => return .out { stderr := segmentLine si ++ asc "Error: ", stderrMore := true, exit := 1 }
        | some bs => return .out { stdout := encodeJSON (blockListJV bs), stderr := segmentLine si }
    | none =>
      match ← L.dumpBlockRange path br with
      | none => return .out (errOut "Error: ")
      | some bs => return .out (okOut (encodeJSON (blockListJV bs)))

/-- the output switch at the end of main() on a successful DumpDataDir: `-sql` → `result.ToSQL(os.Stdout)`, else `-csv` →
`result.ToCSV(os.Stdout)`, else `enc.Encode(result)` with two-space indentation (the precedence is `outFormat` of
Model/Cli.lean).  Exit code 0, nothing on stderr.
Assumption: writing to stdout does not fail (`ToSQL` / `ToCSV` return the writer's error, which cannot happen on a
pipe or a regular file with space left; main.go would print "Error generating SQL/CSV: …" and exit 1).
SQL: area export's model `toSQL` (its `-- Generated at: <now>` header line holds `L.now`); CSV: `toCSV`; both take
float texts from `L.floatFmt`.  JSON: `dumpJV`; a dump holding a float somewhere is NOT rendered (`.unrendered .dump`:
nothing is claimed about that run; with a NaN / Inf the real encoder fails and `mustEncode` exits 1). -/
def renderDump (L : Lib) (fmt : Format) (r : Spec.DumpResult) : Run :=
  match fmt with
  | .sql => .out (okOut (Model.Export.toSQL L.floatFmt L.now (exportDump r)))
  | .csv => .out (okOut (Model.Export.toCSV L.floatFmt (exportDump r)))
  | .json =>
    match dumpJV r with
    | some v => .out (okOut (encodeJSON v))
    | none => .unrendered .dump

/-- main(): what the action chosen by `cliAction` prints.

Not modelled (in every mode): `-debug` sets `pgdump.Debug`, which makes the decoder print trace lines to stdout while
DumpDataDir runs — outside the model, `cliRun` is the run without `-debug`; `-v` adds "[*] …" lines on stderr
(`dumpVerbose` and the driver's `verboseLine`) — `cliRun` is the run without `-v`.
`.unrendered` is returned for `-f … -index`, `-f … -toast-verbose`, `-dropped`, `-secrets`, `-search`, and for the JSON
dump of a result holding a float (see `renderDump`); for every other action the result is `.out`. -/
def cliRun (L : Lib) : Action → M Run
  | .version => pure (.out (okOut (renderVersion L.version)))
  | .detect =>
    if L.detectAll.isEmpty then pure (.out { stdout := asc "No PostgreSQL data directories found\n", exit := 1 })
    else do
      let found ← L.detectAll.mapM fun p => do return (p, ← L.listDatabases p)
      return .out (okOut (renderDetect found))
  | .file path .plain => runPlain L path
  | .file path (.binary r) => runBinary L path r
  | .file path (.range r seg) => runRange L path r seg
  | .file _ .index => pure (.unrendered .index)
  | .file _ .toastVerbose => pure (.unrendered .toastVerbose)
  | .noDataDir => pure (.out (failOut noDataDirText))
  | .listDb dir => do return .out (renderListDb (← L.listDatabases dir))
  | .control dir => do
    match ← L.readControlFile dir with
    | none => return .out (errOut "Error reading pg_control: ")
    | some c => return .out (renderControl c)
  | .checksum dir => do
    match ← L.verifyChecksums dir with
    | none => return .out (errOut "Error verifying checksums: ")
    | some r => return .out { stdout := encodeJSON (dataDirChecksumJV dir r), exit := if r.invalidBlocks > 0 then 1 else 0 }
  | .droppedDb _ _ => pure (.unrendered .dropped)
  | .droppedAll _ => pure (.unrendered .dropped)
  | .sequencesAll dir => do return jsonOr "Error: " (← L.scanAllSequences dir) fun m => encodeJSON (seqMapJV m)
  | .sequencesDb dir db => do return jsonOr "Error: " (← L.findSequences dir db) fun l => encodeJSON (seqListJV l)
  | .relmapGlobal dir => do return jsonOr "Error: " (← L.readGlobalRelMap dir) fun r => encodeJSON (relmapJV r)
  | .relmapAll dir => do return jsonOr "Error: " (← L.readAllRelMaps dir) fun r => encodeJSON (relmapInfoJV r)
  | .relmapDb dir oid => do return jsonOr "Error: " (← L.readDatabaseRelMap dir oid) fun r => encodeJSON (relmapJV r)
  | .relmapInvalid arg =>
    pure (.out (failOut (asc "Invalid relmap option: " ++ arg ++ asc " (use 'global', 'all', or database OID)\n")))
  | .passwords dir sel => do return jsonOr "Error extracting passwords: " (← L.extractPasswords dir) (renderPasswords sel)
  | .secrets _ _ => pure (.unrendered .secrets)
  | .search _ _ => pure (.unrendered .search)
  | .wal dir => do return jsonOr "Error reading WAL: " (← L.scanWAL dir) fun s => encodeJSON (walSummaryJV s)
  | .dump dir opts fmt => do
    match ← L.dumpDataDir dir opts with
    | none => return .out (errOut "Error: ")
    | some r => return renderDump L fmt r

/-! ### the dump modes over the model of the real DumpDataDir (second review, point 11) -/

/-- the file system as `DumpDataDir(dir, …)` sees it: `filepath.Join(dir, "global", "1262")` … = `dir/<relative path>` -/
def under (fs : Bytes → Option Bytes) (dir : Bytes) : Bytes → Option Bytes := fun p => fs (dir ++ 47 :: p)

/-- a library record whose `DumpDataDir` is the model of the real function (catalog parsers, filters, join, row reader `rr`,
Go map order `π`) on the file system `fs`; the other calls as in `L0` -/
def libOn (L0 : Lib) (rr : RowReader) (π : MapOrder TableInfo) (fs : Bytes → Option Bytes) : Lib :=
  { L0 with dumpDataDir := fun dir opts => Model.dumpDataDir rr π (under fs dir) opts }

/-- what the end of main() does with the result of the library call -/
def finish (L : Lib) (fmt : Format) : Option Spec.DumpResult → Run
  | none => .out (errOut "Error: ")
  | some r => renderDump L fmt r

end PgVerif.Model.CliRender
