/-
  Model of pgdump/search.go and pgdump/secrets.go on dumps that may hold Go `[]byte` values (Spec/SearchBytes.lean):
  the same functions as Model/Search.lean and Model/Secrets.lean, with the value type extended by `[]byte`, i.e. with
  `matchValue`'s `case []byte: return re.Match(v)` and — after fix search/04 — `cellText`, which turns every `[]byte`
  into the string of the same bytes (`bytesAsText`) before `fmt`'s `%v` renders the cell.  Core Lean only.

  Library calls as in Model/Search.lean: `regexp` = the parameter `R`; `re.Match(b)` and `re.MatchString(string(b))` are
  the same predicate on the same bytes; `%v` of a value WITHOUT `[]byte` = `Spec.Search.fmtV`.
-/
import PgVerif.Spec.SearchBytes
import PgVerif.Model.Secrets
namespace PgVerif.Model.SearchB
open PgVerif PgVerif.Spec.Search PgVerif.Spec.SearchB PgVerif.Model.Search

/-- Go: SearchResult (Value and Row are the dump's own values, `[]byte`s included) -/
structure SearchResultS where
  database : Bytes
  table : Bytes
  column : Bytes
  rowNum : Nat
  value : SVal
  row : Option SRow
deriving Inhabited

mutual
/-- Go: matchValue, all cases of its type switch -/
def matchValueS (re : Bytes → Bool) (sh : GoVal → Bytes) : SVal → Bool
  | .nil => false                                   -- if value == nil { return false }
  | .str s => re s                                  -- case string: re.MatchString(v)
  | .bytes b => re b                                -- case []byte: re.Match(v)
  | .obj kvs => matchMapS re sh kvs                 -- case map[string]interface{}
  | .arr xs => matchElemsS re sh xs                 -- case []interface{}: loop, then `return false`
  | .bool b => re (sh (.bool b))                    -- default: fmt.Sprintf("%v", v)
  | .int i => re (sh (.int i))
  | .f64 b => re (sh (.f64 b))
  | .f32 b => re (sh (.f32 b))
def matchElemsS (re : Bytes → Bool) (sh : GoVal → Bytes) : List SVal → Bool
  | [] => false
  | x :: xs => if matchValueS re sh x then true else matchElemsS re sh xs
/-- Go: matchMap -/
def matchMapS (re : Bytes → Bool) (sh : GoVal → Bytes) : List (Bytes × SVal) → Bool
  | [] => false
  | (k, v) :: rest =>
    if re k then true
    else if matchValueS re sh v then true
    else matchMapS re sh rest
end

/-- Go: rowKeys, first loop -/
def declaredKeysS (row : SRow) : List Bytes → List Bytes → List Bytes
  | _, [] => []
  | seen, c :: cs =>
    if (lookupS c row).isSome && !seen.contains c then c :: declaredKeysS row (c :: seen) cs
    else declaredKeysS row seen cs

/-- Go: rowKeys -/
def rowKeysS (columns : List Bytes) (row : SRow) : List Bytes :=
  let keys := declaredKeysS row [] columns
  let rest := (row.map (·.1)).filter fun k => !keys.contains k
  keys ++ rest.mergeSort bytesLe

/-- body of the innermost loop of SearchInDump -/
def colBodyS (re : Bytes → Bool) (sh : GoVal → Bytes) (o : Opts) (db tbl : Bytes) (rowNum : Nat) (row : SRow)
    (colName : Bytes) (ms : List SearchResultS) : List SearchResultS × Bool :=
  let value := (lookupS colName row).getD .nil          -- value := row[colName]
  if matchValueS re sh value then
    let m : SearchResultS := { database := db, table := tbl, column := colName, rowNum := rowNum, value := value,
                               row := if o.includeRow then some row else none }
    let ms := ms ++ [m]
    if o.maxResults > 0 && (ms.length : Int) ≥ o.maxResults then (ms, true) else (ms, false)
  else (ms, false)

def rowBodyS (re : Bytes → Bool) (sh : GoVal → Bytes) (o : Opts) (db tbl : Bytes) (cols : List Bytes)
    (ri : SRow × Nat) : List SearchResultS → List SearchResultS × Bool :=
  loopM (colBodyS re sh o db tbl ri.2 ri.1) (rowKeysS cols ri.1)

def tableBodyS (re : Bytes → Bool) (sh : GoVal → Bytes) (o : Opts) (db : Bytes) (t : STable) :
    List SearchResultS → List SearchResultS × Bool :=
  loopM (rowBodyS re sh o db t.name t.columns) t.rows.zipIdx

def dbBodyS (re : Bytes → Bool) (sh : GoVal → Bytes) (o : Opts) (db : SDatabase) :
    List SearchResultS → List SearchResultS × Bool :=
  loopM (tableBodyS re sh o db.name) db.tables

/-- Go: SearchInDump on any `*DumpResult`.  `none` = the error return. -/
def searchInDumpS (R : Regex) (sh : GoVal → Bytes) (d : SDump) (o : Opts) : Option (List SearchResultS) :=
  let pattern := if !o.caseSensitive then ciPrefix ++ o.pattern else o.pattern
  match R.compile pattern with
  | none => none
  | some re => some (loopM (dbBodyS re sh o) d []).1

def toHitS (r : SearchResultS) : HitS :=
  { db := r.database, table := r.table, row := r.rowNum, col := r.column, value := r.value, fullRow := r.row }

def hitsS (R : Regex) (sh : GoVal → Bytes) (d : SDump) (o : Opts) : Option (List HitS) :=
  (searchInDumpS R sh d o).map (·.map toHitS)

/-! ### secret scan (after fix search/04) -/

/-- Go: cellText = `fmt.Sprintf("%v", bytesAsText(value))`.  `bytesAsText` rebuilds the value with every `[]byte`
replaced by `string(v)` — that is `Spec.SearchB.asText`, whose codomain records that no `[]byte` is left — and `%v` of
such a value is `fmtV`. -/
def cellText (sh : GoVal → Bytes) (v : SVal) : Bytes := fmtV sh (asText v)

/-- Go: scanTable, body of the loop over the columns of one row -/
def scanCellS (dets : List Detector) (sh : GoVal → Bytes) (db tbl : Bytes) (rowIdx : Nat) (row : SRow) (colName : Bytes) :
    List Finding :=
  let strVal := cellText sh ((lookupS colName row).getD .nil)
  if strVal.length < 8 then []                             -- too short to be a secret
  else (Secrets.scanString dets strVal).map fun res =>
    { detector := res.detector, db := db, table := tbl, col := colName, row := rowIdx, raw := res.raw }

/-- Go: scanTable -/
def scanTableS (dets : List Detector) (sh : GoVal → Bytes) (db : Bytes) (t : STable) : List Finding :=
  t.rows.zipIdx.flatMap fun ri => (rowKeysS t.columns ri.1).flatMap (scanCellS dets sh db t.name ri.2 ri.1)

/-- Go: ScanDatabaseDump -/
def scanDatabaseDumpS (dets : List Detector) (sh : GoVal → Bytes) (db : SDatabase) : List Finding :=
  db.tables.flatMap (scanTableS dets sh db.name)

/-- Go: ScanDumpResult on any `*DumpResult` -/
def scanDumpResultS (dets : List Detector) (sh : GoVal → Bytes) (d : SDump) : List Finding :=
  d.flatMap (scanDatabaseDumpS dets sh)

/-! ### the text the scan looked at BEFORE fix search/04: plain `%v`, which prints a `[]byte` as decimal numbers -/

mutual
def fmtVOrig (sh : GoVal → Bytes) : SVal → Bytes
  | .nil => [60, 110, 105, 108, 62]
  | .str s => s
  | .bytes b => fmtDecimal b
  | .arr xs => [91] ++ joinSp (fmtListOrig sh xs) ++ [93]
  | .obj kvs => [109, 97, 112, 91] ++ joinSp ((fmtKvsOrig sh kvs).mergeSort (fun a b => bytesLe a.1 b.1) |>.map fun kv => kv.1 ++ 58 :: kv.2) ++ [93]
  | .bool b => sh (.bool b)
  | .int i => sh (.int i)
  | .f64 b => sh (.f64 b)
  | .f32 b => sh (.f32 b)
def fmtListOrig (sh : GoVal → Bytes) : List SVal → List Bytes
  | [] => []
  | x :: xs => fmtVOrig sh x :: fmtListOrig sh xs
def fmtKvsOrig (sh : GoVal → Bytes) : List (Bytes × SVal) → List (Bytes × Bytes)
  | [] => []
  | (k, v) :: rest => (k, fmtVOrig sh v) :: fmtKvsOrig sh rest
end

end PgVerif.Model.SearchB
