/-
  Model of pgdump/search.go (after fix search/01: rows are walked in `rowKeys` order instead of Go's random
  map order; the original loops are in Model/SearchOrig.lean).  Core Lean only.

  Library calls:
    * `regexp.Compile` / `MatchString` / `Match` — the parameter `R : Regex` (Spec/Search.lean); a `[]byte` value is
      matched exactly like a `string` (`re.Match` = `re.MatchString` on the same bytes), so both are `GoVal.str`.
    * the text of a scalar in matchValue's `default:` branch — the parameter `sh`.  In the code that is `scalarText`
      (fix search/06): `floatText(f, bitSize)` for a float64 / float32 (NaN / Infinity / -Infinity, else
      `strconv.FormatFloat(f, 'f', -1, 64)` resp. `(f, 'g', -1, 32)`), `fmt.Sprintf("%v", v)` for everything else; the
      executable instance is `Model.SearchShow.searchScalar`.
    * `sort.Strings` — `List.mergeSort bytesLe` (bytewise order of Go strings).
  A Go map is an association list; ranging over it visits the list in *some* order.  Where the result could depend
  on that order the order is explicit (SearchOrig); `matchMap` only computes an "exists", which is the same for
  every order (`Proofs/Search.lean : kvMatch_perm`), so its loop walks the list as given.
  Early `return` from nested loops = the `stop` flag threaded through `loopM`.
-/
import PgVerif.Spec.Search
namespace PgVerif.Model.Search
open PgVerif PgVerif.Spec.Search

/-- Go: SearchResult (Row = nil unless IncludeRow) -/
structure SearchResult where
  database : Bytes
  table : Bytes
  column : Bytes
  rowNum : Nat
  value : GoVal
  row : Option Row
deriving Inhabited

mutual
/-- Go: matchValue -/
def matchValue (re : Bytes → Bool) (sh : GoVal → Bytes) : GoVal → Bool
  | .nil => false                                   -- if value == nil { return false }
  | .str s => re s                                  -- case string / case []byte
  | .obj kvs => matchMap re sh kvs                  -- case map[string]interface{}
  | .arr xs => matchElems re sh xs                  -- case []interface{}: loop, then `return false`
  | .bool b => re (sh (.bool b))                    -- default: fmt.Sprintf("%v", v)
  | .int i => re (sh (.int i))
  | .f64 b => re (sh (.f64 b))
  | .f32 b => re (sh (.f32 b))
def matchElems (re : Bytes → Bool) (sh : GoVal → Bytes) : List GoVal → Bool
  | [] => false
  | x :: xs => if matchValue re sh x then true else matchElems re sh xs
/-- Go: matchMap (`for key, val := range m`) -/
def matchMap (re : Bytes → Bool) (sh : GoVal → Bytes) : List (Bytes × GoVal) → Bool
  | [] => false
  | (k, v) :: rest =>
    if re k then true
    else if matchValue re sh v then true
    else matchMap re sh rest
end

/-- Go: rowKeys, first loop (`seen` map as a list) -/
def declaredKeys (row : Row) : List Bytes → List Bytes → List Bytes
  | _, [] => []
  | seen, c :: cs =>
    if (lookup c row).isSome && !seen.contains c then c :: declaredKeys row (c :: seen) cs
    else declaredKeys row seen cs

/-- Go: rowKeys (fix search/01).  `row` is given in the order in which `for k := range row` visits it;
`!seen[k]` = "k is not among the keys collected so far". -/
def rowKeys (columns : List Bytes) (row : Row) : List Bytes :=
  let keys := declaredKeys row [] columns
  let rest := (row.map (·.1)).filter fun k => !keys.contains k
  keys ++ rest.mergeSort bytesLe

/-- a loop whose body may `return` from the function: the body gets the matches so far and yields the new
matches and whether it returned -/
def loopM {α β : Type} (body : α → List β → List β × Bool) : List α → List β → List β × Bool
  | [], acc => (acc, false)
  | x :: xs, acc =>
    match body x acc with
    | (acc', true) => (acc', true)
    | (acc', false) => loopM body xs acc'

/-- body of the innermost loop of SearchInDump -/
def colBody (re : Bytes → Bool) (sh : GoVal → Bytes) (o : Opts) (db tbl : Bytes) (rowNum : Nat) (row : Row)
    (colName : Bytes) (ms : List SearchResult) : List SearchResult × Bool :=
  let value := (lookup colName row).getD .nil          -- value := row[colName]
  if matchValue re sh value then
    let m : SearchResult := { database := db, table := tbl, column := colName, rowNum := rowNum, value := value,
                              row := if o.includeRow then some row else none }
    let ms := ms ++ [m]
    if o.maxResults > 0 && (ms.length : Int) ≥ o.maxResults then (ms, true) else (ms, false)
  else (ms, false)

def rowBody (re : Bytes → Bool) (sh : GoVal → Bytes) (o : Opts) (db tbl : Bytes) (cols : List Bytes)
    (ri : Row × Nat) : List SearchResult → List SearchResult × Bool :=
  loopM (colBody re sh o db tbl ri.2 ri.1) (rowKeys cols ri.1)

def tableBody (re : Bytes → Bool) (sh : GoVal → Bytes) (o : Opts) (db : Bytes) (t : Table) :
    List SearchResult → List SearchResult × Bool :=
  loopM (rowBody re sh o db t.name t.columns) t.rows.zipIdx

def dbBody (re : Bytes → Bool) (sh : GoVal → Bytes) (o : Opts) (db : Database) :
    List SearchResult → List SearchResult × Bool :=
  loopM (tableBody re sh o db.name) db.tables

/-- Go: SearchInDump (and the identical loops of Search).  `none` = the error return. -/
def searchInDump (R : Regex) (sh : GoVal → Bytes) (d : Dump) (o : Opts) : Option (List SearchResult) :=
  let pattern := if !o.caseSensitive then ciPrefix ++ o.pattern else o.pattern
  match R.compile pattern with
  | none => none                                     -- "invalid pattern: …"
  | some re => some (loopM (dbBody re sh o) d []).1

/-- Go: Search.  Its loops are the same four loops as SearchInDump's (textually duplicated in search.go; both patched
by fix search/01).  `opts = none` is the nil pointer; `dumped` is the result of `DumpDataDir(dataDir,
&Options{SkipSystemTables: true})` — the directory walk is out of scope here (area cluster), `none` = its error.
The pattern is compiled first, so an invalid pattern is reported without touching the directory. -/
def search (R : Regex) (sh : GoVal → Bytes) (dumped : Option Dump) (opts : Option Opts) : Option (List SearchResult) :=
  match opts with
  | none => none                                     -- "search options required"
  | some o =>
    let pattern := if !o.caseSensitive then ciPrefix ++ o.pattern else o.pattern
    match R.compile pattern with
    | none => none                                   -- "invalid pattern: …"
    | some re =>
      match dumped with
      | none => none                                 -- DumpDataDir failed
      | some d => some (loopM (dbBody re sh o) d []).1

def toHit (r : SearchResult) : Hit :=
  { db := r.database, table := r.table, row := r.rowNum, col := r.column, value := r.value, fullRow := r.row }

/-- the hits of SearchInDump as abstract hits (`none` = the error return) -/
def hits (R : Regex) (sh : GoVal → Bytes) (d : Dump) (o : Opts) : Option (List Hit) :=
  (searchInDump R sh d o).map (·.map toHit)

end PgVerif.Model.Search
