/-
  The instance of the scalar-text parameter `sh` (`fmt.Sprintf("%v", x)`) used by the executable families:
  integers in decimal, booleans `true`/`false`, floats through the table obtained by executing `fmt` on the sample
  values (Generated/Search.lean) — the generators draw floats only from that table.  Core Lean only.
-/
import PgVerif.Spec.Search
import PgVerif.Generated.Search
namespace PgVerif.Model.SearchShow
open PgVerif

def tableText (t : List (Nat × String)) (bits : Nat) : Bytes :=
  match t.find? (·.1 == bits) with
  | some (_, s) => strBytes s
  | none => strBytes "?unknown-float"

def showScalar : GoVal → Bytes
  | .bool true => strBytes "true"
  | .bool false => strBytes "false"
  | .int i => strBytes (toString i)
  | .f64 b => tableText Generated.Search.f64Text b
  | .f32 b => tableText Generated.Search.f32Text b
  | _ => []

end PgVerif.Model.SearchShow
