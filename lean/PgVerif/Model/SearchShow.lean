/-
  The instances of the scalar-text parameter `sh` used by the executable families:
    * `showScalar`   = `fmt.Sprintf("%v", x)` (the text the secret scan hands to the detectors): integers in decimal,
                       booleans `true`/`false`, floats through the table obtained by executing `fmt` on the sample values
                       (Generated/Search.lean) — the generators of the scan families draw floats only from that table;
    * `searchScalar` = search.go `scalarText` (fix search/06), the text a scalar is SEARCHED as: `%v`, except that floats
                       go through `floatText(f, bitSize)`: NaN / Infinity / -Infinity, a float64 as
                       `strconv.FormatFloat(f, 'f', -1, 64)`, a float32 as `strconv.FormatFloat(f, 'g', -1, 32)`.
  Library call `strconv.FormatFloat(f, fmt, -1, bitSize)` on a finite `f` = its documented behaviour ("the minimal number
  of digits necessary to represent the value uniquely", laid out as `%f` / `%g` with precision 6 for the choice): the
  definition `formatFloat` below, over `Spec.SearchFloat.shortest` — exact arithmetic on the bit pattern, no table.  The
  family `floattext` compares it with the real code on generated floats.
  Core Lean only.
-/
import PgVerif.Spec.Search
import PgVerif.Spec.SearchFloat
import PgVerif.Generated.Search
namespace PgVerif.Model.SearchShow
open PgVerif

def tableText (t : List (Nat × String)) (bits : Nat) : Bytes :=
  match t.find? (·.1 == bits) with
  | some (_, s) => strBytes s
  | none => strBytes "?unknown-float"

def showScalar : GoVal → Bytes
  | .bool true => strBytes "true"
  | .bool false => strBytes "false"
  | .int i => strBytes (toString i)
  | .f64 b => tableText Generated.Search.f64Text b
  | .f32 b => tableText Generated.Search.f32Text b
  | _ => []

open Spec.SearchFloat in
/-- strconv.FormatFloat(f, 'f' | 'g', -1, bitSize) for a finite `f` given decoded: sign, then `0` for a zero, else the
shortest digits that read back, in the layout of the format -/
def formatFloat (D : Decoded) (layout : Nat → Int → Bytes) : Bytes :=
  (if D.neg then [45] else []) ++ (if D.m == 0 then [48] else layout (shortest D.fin).1 (shortest D.fin).2)

open Spec.SearchFloat in
/-- search.go: floatText(f, bitSize).  `bits` is the pattern of the float64 (bitSize 64) or of the float32 the
float64 argument was converted from (bitSize 32; the conversion and FormatFloat's conversion back are exact). -/
def floatText (bits : Nat) (bitSize : Nat) : Bytes :=
  let D := if bitSize == 32 then decode 23 8 bits else decode 52 11 bits
  if D.special && D.frac != 0 then [78, 97, 78]                       -- case math.IsNaN(f): "NaN"
  else if D.special && !D.neg then [73, 110, 102, 105, 110, 105, 116, 121]               -- case math.IsInf(f, 1): "Infinity"
  else if D.special && D.neg then [45, 73, 110, 102, 105, 110, 105, 116, 121]            -- case math.IsInf(f, -1): "-Infinity"
  else if bitSize == 32 then formatFloat D gForm                      -- strconv.FormatFloat(f, 'g', -1, 32)
  else formatFloat D positional                                       -- strconv.FormatFloat(f, 'f', -1, 64)

/-- search.go: scalarText -/
def searchScalar : GoVal → Bytes
  | .f64 b => floatText b 64                                          -- case float64
  | .f32 b => floatText b 32                                          -- case float32
  | v => showScalar v                                                 -- fmt.Sprintf("%v", v)

end PgVerif.Model.SearchShow
