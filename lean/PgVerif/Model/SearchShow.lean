/-
  The instances of the scalar-text parameter `sh` used by the executable families:
    * `showScalar`   = `fmt.Sprintf("%v", x)` (the text the secret scan hands to the detectors): integers in decimal,
                       booleans `true`/`false`, floats through the table obtained by executing `fmt` on the sample values
                       (Generated/Search.lean) — the generators draw floats only from that table;
    * `searchScalar` = search.go `scalarText` (fix search/05), the text a scalar is SEARCHED as: `%v`, except that a
                       float64 with 1e6 ≤ |x| < 1e15 is written positionally (`1000000`, `1234567.89`), as PostgreSQL
                       prints numeric / float8 / JSON numbers of that size (`%v` has `1e+06`).
  Core Lean only.
-/
import PgVerif.Spec.Search
import PgVerif.Generated.Search
namespace PgVerif.Model.SearchShow
open PgVerif

def tableText (t : List (Nat × String)) (bits : Nat) : Bytes :=
  match t.find? (·.1 == bits) with
  | some (_, s) => strBytes s
  | none => strBytes "?unknown-float"

def showScalar : GoVal → Bytes
  | .bool true => strBytes "true"
  | .bool false => strBytes "false"
  | .int i => strBytes (toString i)
  | .f64 b => tableText Generated.Search.f64Text b
  | .f32 b => tableText Generated.Search.f32Text b
  | _ => []

/-- search.go: scalarText -/
def searchScalar : GoVal → Bytes
  | .f64 b =>
    match Generated.Search.f64SearchText.find? (·.1 == b) with
    | some (_, s) => strBytes s
    | none => showScalar (.f64 b)
  | v => showScalar v

end PgVerif.Model.SearchShow
