/-
  Model of pgdump/heap.go (ReadRows, DecodeTuple, alignFromChar, typeAlign, readValue, emptyVarlena),
  types.go:ReadVarlena, deleted.go (ReadDeletedRows, ReadRowsWithDeleted) and passwords.go (ParsePGAuthID,
  ExtractPasswordsFromFiles) — the tree after fixes/rows/01..05.
  One Lean function per Go function, same guards, same order of evaluation; slices and indexes through the
  fault-aware primitives.  The scalar decoder `DecodeType` is a parameter `dec` (area `scalars` models it):
  everything here is about WHICH BYTES each column gets.  `Debug` printing is not modelled.
-/
import PgVerif.Basic.Canon
import PgVerif.Model.Heap
import PgVerif.Generated.Rows
namespace PgVerif.Model
open PgVerif

/-- catalog.go:Column (Go ints may be negative in a hostile schema → `Int`; `Align` is a byte) -/
structure Column where
  name : Bytes
  typid : Int
  len : Int
  num : Int
  align : Nat
deriving Repr, DecidableEq, Inhabited

/-- the scalar decoder `DecodeType(data, oid)`; a fault is a Go panic inside it -/
abbrev Dec := Bytes → Int → M GoVal

/-- a decoded row: Go `map[string]interface{}` as an association list with unique keys -/
abbrev Row := List (Bytes × GoVal)

/-- heap.go:alignFromChar ('c' 99, 's' 115, 'i' 105, 'd' 100) -/
def alignFromChar (c : Nat) : Nat :=
  if c = 99 then 1 else if c = 115 then 2 else if c = 105 then 4 else if c = 100 then 8 else 0

def lookupOid (tbl : List (Nat × Nat)) (oid : Int) : Option Nat :=
  if oid < 0 then none else tbl.lookup oid.toNat

/-- heap.go:typeAlign — the switch is the generated table (obtained by executing the code), the
default branch by length is transcribed -/
def typeAlign (typid len : Int) : Nat :=
  match lookupOid Generated.Rows.typeAlignSwitch typid with
  | some a => a
  | none =>
    if len = -1 then 4 else if len ≥ 8 then 8 else if len ≥ 4 then 4 else if len ≥ 2 then 2 else 1

/-- alignment DecodeTuple starts from for a column: `alignFromChar`, else the `typeAlign` fallback -/
def colAlign (c : Column) : Nat :=
  if alignFromChar c.align = 0 then typeAlign c.typid c.len else alignFromChar c.align

/-- heap.go:emptyVarlena (fix 05): `none` = nil, i.e. fall through to `DecodeType` -/
def emptyVarlena (typid : Int) : Option GoVal :=
  match lookupOid Generated.Rows.emptyVarlenaKind typid with
  | some 0 => none
  | some 1 => some (.str [0x5c, 0x78])
  | some _ => none
  | none => some (.str [])

/-- types.go:ReadVarlena — (payload or nil, bytes consumed) -/
def readVarlena (data : Bytes) : M (Option Bytes × Nat) :=
  if data.length = 0 then pure (none, 0)
  else do
    let first := (← idx data 0).toNat
    if first % 2 = 1 ∧ first ≠ 1 then
      let total := first / 2
      if total < 1 ∨ data.length < total then pure (none, 1)
      else do
        let v ← slice data 1 total
        pure (some v, total)
    else if first = 1 then
      if data.length ≥ 18 then do
        let tag ← idx data 1
        if tag.toNat = 18 then pure (none, 18) else pure (none, 1)
      else pure (none, 1)
    else if data.length < 4 then pure (none, 0)
    else do
      let header ← uN 4 data 0
      let total := header / 4
      if total < 4 ∨ data.length < total then pure (none, 4)
      else do
        let v ← slice data 4 total
        pure (some v, total)

/-- the C-string branch of readValue: up to the first NUL (consumed with it), or everything -/
def readCString (remaining : Bytes) : GoVal × Nat :=
  let p := remaining.takeWhile (· != 0)
  if p.length < remaining.length then (.str p, p.length + 1) else (.str remaining, remaining.length)

/-- the value of a non-nil varlena payload (fix 05): an empty payload of a text-like type is a value of its
own, everything else goes to `DecodeType` -/
def varlenaVal (dec : Dec) (val : Bytes) (typid : Int) : M GoVal :=
  match (if val.length = 0 then emptyVarlena typid else none) with
  | some g => pure g
  | none => dec val typid

/-- heap.go:readValue — (value, bytes consumed) -/
def readValue (dec : Dec) (data : Bytes) (offset : Nat) (typid len : Int) : M (GoVal × Nat) :=
  if offset ≥ data.length then pure (.nil, 0)
  else do
    let remaining ← sliceFrom data offset
    if len > 0 then
      if (remaining.length : Int) < len then pure (.nil, 0)
      else do
        let raw ← sliceTo remaining len.toNat
        let v ← dec raw typid
        pure (v, len.toNat)
    else if len = -1 then do
      let r ← readVarlena remaining
      match r.1 with
      | none => pure (.nil, max r.2 1)
      | some val => do
        let v ← varlenaVal dec val typid
        pure (v, r.2)
    else pure (readCString remaining)

/-- the alignment DecodeTuple applies at `offset`: a varlena column whose next byte is non-zero is not aligned
(fix 03: PostgreSQL's att_align_pointer) -/
def chooseAlign (col : Column) (data : Bytes) (offset : Nat) : M Nat :=
  if col.len = -1 ∧ offset < data.length then do
    let b ← idx data offset
    pure (if b != 0 then 1 else colAlign col)
  else pure (colAlign col)

/-- the column loop of DecodeTuple: (name, value) per column in column order; `i` = index of the column,
`offset` = the running data offset -/
def decodeCols (dec : Dec) (t : HeapTuple) : List Column → Nat → Nat → M (List (Bytes × GoVal))
  | [], _, _ => pure []
  | col :: cs, i, offset =>
    let num : Int := if col.num = 0 then (i : Int) + 1 else col.num
    if t.isNull num then do
      let rest ← decodeCols dec t cs (i + 1) offset
      pure ((col.name, GoVal.nil) :: rest)
    else do
      let a ← chooseAlign col t.data offset
      let off := align offset a
      let r ← readValue dec t.data off col.typid col.len
      let rest ← decodeCols dec t cs (i + 1) (off + r.2)
      pure ((col.name, r.1) :: rest)

/-- Go map built by successive `result[name] = v` -/
def toRow (ps : List (Bytes × GoVal)) : Row := ps.foldl (fun m p => mapInsert m p.1 p.2) []

/-- heap.go:DecodeTuple (`none` = nil map; fix 04: only a tuple without data *and* without columns gives nil) -/
def decodeTuple (dec : Dec) (t : HeapTuple) (cols : List Column) : M (Option Row) :=
  if t.data.length = 0 ∧ cols.length = 0 then pure none
  else do
    let ps ← decodeCols dec t cols 0 0
    pure (some (toRow ps))

/-- heap.go:ReadRows -/
def readRows (dec : Dec) (data : Bytes) (cols : List Column) (visibleOnly : Bool) : M (List Row) := do
  let es ← readTuples data visibleOnly
  collectM (fun e => decodeTuple dec e.tuple cols) es

/-! ### deleted.go -/

structure DeletedRow where
  pageOffset : Nat
  data : Option Row
  rawSize : Nat

def deletedStep (dec : Dec) (cols : List Column) (e : TupleEntry) : M (Option DeletedRow) :=
  if e.tuple.isDeleted then do
    let d ← if cols.length > 0 then decodeTuple dec e.tuple cols else pure none
    pure (some ⟨e.pageOffset, d, e.tuple.data.length⟩)
  else pure none

/-- deleted.go:ReadDeletedRows -/
def readDeletedRows (dec : Dec) (data : Bytes) (cols : List Column) : M (List DeletedRow) := do
  let es ← readTuples data false
  collectM (deletedStep dec cols) es

/-- decoded rows of all tuples, each with its tuple (rows that decode to nil are skipped) -/
def decodedEntries (dec : Dec) (cols : List Column) (es : List TupleEntry) : M (List (HeapTuple × Row)) :=
  collectM (fun e => do
    let r ← decodeTuple dec e.tuple cols
    pure (r.map fun row => (e.tuple, row))) es

/-- deleted.go:ReadRowsWithDeleted — (visible, deleted) -/
def readRowsWithDeleted (dec : Dec) (data : Bytes) (cols : List Column) : M (List Row × List Row) := do
  let es ← readTuples data false
  let rs ← decodedEntries dec cols es
  pure ((rs.filter fun p => p.1.isVisible).map (·.2),
        (rs.filter fun p => !p.1.isVisible && p.1.isDeleted).map (·.2))

/-! ### passwords.go -/

structure AuthInfo where
  oid : Nat
  roleName : Bytes
  password : Bytes
  rolSuper : Bool
  rolLogin : Bool
deriving Repr, DecidableEq

/-- binary.go:cstring -/
def cstring (data : Bytes) (maxLen : Nat) : Bytes := (data.take maxLen).takeWhile (· != 0)

/-- the body of ParsePGAuthID's loop for one tuple; `none` = skipped -/
def authOne (t : HeapTuple) : M (Option AuthInfo) :=
  let d := t.data
  if d.length < 70 then pure none
  else do
    let offset := 0
    let (oid, offset) ← if offset + 4 ≤ d.length then (do pure ((← uN 4 d offset), offset + 4)) else pure (0, offset)
    let (name, offset) ← if offset + 64 ≤ d.length then (do pure (cstring (← sliceFrom d offset) 64, offset + 64)) else pure ([], offset)
    let (sup, offset) ← if offset + 1 ≤ d.length then (do pure ((← idx d offset) != 0, offset + 1)) else pure (false, offset)
    let offset := offset + 3
    let (login, offset) ← if offset + 1 ≤ d.length then (do pure ((← idx d offset) != 0, offset + 1)) else pure (false, offset)
    let offset := offset + 2
    let offset := align offset 4
    let offset := offset + 4
    let pw ← if !t.isNull 11 ∧ offset < d.length then
        (do
          let offset := align offset 4
          if offset < d.length then
            let r ← readVarlena (← sliceFrom d offset)
            pure (r.1.getD [])
          else pure [])
      else pure []
    if name.length = 0 then pure none
    else pure (some ⟨oid, name, pw, sup, login⟩)

/-- passwords.go:ParsePGAuthID — every tuple, live or dead -/
def parsePGAuthID (data : Bytes) : M (List AuthInfo) := do
  let es ← readTuples data false
  collectM (fun e => authOne e.tuple) es

/-- passwords.go:ExtractPasswordsFromFiles: `reader "global/1260"`, error passed through (`none`) -/
def extractPasswordsFromFiles (reader : Bytes → Option Bytes) : M (Option (List AuthInfo)) :=
  match reader (strBytes "global/1260") with
  | none => pure none
  | some data => do pure (some (← parsePGAuthID data))

end PgVerif.Model
