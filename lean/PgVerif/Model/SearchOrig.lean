/-
  Model of the ORIGINAL loops of pgdump/search.go (before fix search/01): the innermost loop is
  `for colName, value := range row` over a Go map, i.e. in an order chosen by the runtime.  The order is the
  explicit parameter `π` (what `range` does to each row; a permutation of the row).  Finding A39: the order of the
  hits and — under MaxResults — the SET of hits depend on `π` (Props/C15.lean : `A39_witness`).
-/
import PgVerif.Model.Search
namespace PgVerif.Model.SearchOrig
open PgVerif PgVerif.Spec.Search PgVerif.Model.Search

def colBody (re : Bytes → Bool) (sh : GoVal → Bytes) (o : Opts) (db tbl : Bytes) (rowNum : Nat) (row : Row)
    (kv : Bytes × GoVal) (ms : List SearchResult) : List SearchResult × Bool :=
  if matchValue re sh kv.2 then
    let m : SearchResult := { database := db, table := tbl, column := kv.1, rowNum := rowNum, value := kv.2,
                              row := if o.includeRow then some row else none }
    let ms := ms ++ [m]
    if o.maxResults > 0 && (ms.length : Int) ≥ o.maxResults then (ms, true) else (ms, false)
  else (ms, false)

def rowBody (π : Row → Row) (re : Bytes → Bool) (sh : GoVal → Bytes) (o : Opts) (db tbl : Bytes)
    (ri : Row × Nat) : List SearchResult → List SearchResult × Bool :=
  loopM (colBody re sh o db tbl ri.2 ri.1) (π ri.1)

def tableBody (π : Row → Row) (re : Bytes → Bool) (sh : GoVal → Bytes) (o : Opts) (db : Bytes) (t : Table) :
    List SearchResult → List SearchResult × Bool :=
  loopM (rowBody π re sh o db t.name) t.rows.zipIdx

def dbBody (π : Row → Row) (re : Bytes → Bool) (sh : GoVal → Bytes) (o : Opts) (db : Database) :
    List SearchResult → List SearchResult × Bool :=
  loopM (tableBody π re sh o db.name) db.tables

def searchInDump (π : Row → Row) (R : Regex) (sh : GoVal → Bytes) (d : Dump) (o : Opts) : Option (List SearchResult) :=
  let pattern := if !o.caseSensitive then ciPrefix ++ o.pattern else o.pattern
  match R.compile pattern with
  | none => none
  | some re => some (loopM (dbBody π re sh o) d []).1

/-- the hits of the ORIGINAL SearchInDump when the runtime walks each row's map in the order `π row` -/
def origHits (π : Row → Row) (R : Regex) (sh : GoVal → Bytes) (d : Dump) (o : Opts) : Option (List Hit) :=
  (searchInDump π R sh d o).map (·.map toHit)

/-- a regex engine for the witness: every pattern compiles and matches everything -/
def anyRegex : Regex := { compile := fun _ => some fun _ => true }

end PgVerif.Model.SearchOrig
