/-
  Model of pgdump/binary.go (align), page.go, tuple.go and heap.go:ReadTuples.
  One Lean function per Go function, same guards, same order of evaluation; every slice
  expression and index goes through the fault-aware primitives of Basic/Bytes.
-/
import PgVerif.Basic.Bytes
namespace PgVerif.Model
open PgVerif

/-- binary.go:align — `(offset + alignment - 1) &^ (alignment - 1)`; `alignment ≤ 1` returns offset -/
def align (offset alignment : Nat) : Nat :=
  if alignment ≤ 1 then offset else andNot (offset + alignment - 1) (alignment - 1)

/-- collect the `some` results of a fallible per-element step, in order (Go: loop with `continue`) -/
def collectM {α β} (f : α → M (Option β)) : List α → M (List β)
  | [] => pure []
  | x :: xs => do
    let r ← f x
    let rest ← collectM f xs
    pure (match r with | some y => y :: rest | none => rest)

/-! ### page.go -/

structure PageHeader where
  lower : Nat
  upper : Nat
  pageSize : Nat
  version : Nat
deriving Repr, DecidableEq

structure ItemID where
  offset : Nat
  length : Nat
  flags : Nat
deriving Repr, DecidableEq

def parseHeader (data : Bytes) : M PageHeader := do
  let psv ← uN 2 data 18
  let lower ← uN 2 data 12
  let upper ← uN 2 data 14
  pure ⟨lower, upper, psv &&& 0xFF00, psv &&& 0x00FF⟩

def validHeader (h : PageHeader) : Bool :=
  (h.pageSize == 8192 || h.pageSize == 16384 || h.pageSize == 32768) &&
  h.version ≥ 1 && h.version ≤ 10 &&
  h.lower ≥ 24 && h.upper ≤ h.pageSize && h.lower ≤ h.upper

def decItem (raw : Nat) : ItemID :=
  ⟨raw &&& 0x7FFF, (raw >>> 17) &&& 0x7FFF, (raw >>> 15) &&& 0x03⟩

/-- `for off := 24; off < lower && off+4 <= len(data); off += 4 { raw := u32(data, off) … }`,
`n` = iterations still allowed -/
def parseItemsLoop (data : Bytes) (lower : Nat) : Nat → Nat → M (List ItemID)
  | 0, _ => pure []
  | n+1, off =>
    if off < lower ∧ off + 4 ≤ data.length then do
      let raw ← uN 4 data off
      let rest ← parseItemsLoop data lower n (off + 4)
      pure (decItem raw :: rest)
    else pure []

/-- an iteration count that is always enough: the loop runs ⌈(lower − 24)/4⌉ times at most -/
def itemCount (lower : Nat) : Nat := (lower - 24 + 3) / 4

def parseItems (data : Bytes) (lower : Nat) : M (List ItemID) :=
  parseItemsLoop data lower (itemCount lower) 24

/-! ### tuple.go -/

structure TupleHeader where
  hoff : Nat
  natts : Nat
  infomask : Nat
  xminCommitted : Bool
  xmaxInvalid : Bool
  xmaxCommitted : Bool
  hasNull : Bool
deriving Repr, DecidableEq

structure HeapTuple where
  header : TupleHeader
  bitmap : Option Bytes
  data : Bytes
deriving Repr, DecidableEq

def parseHeapTuple (data : Bytes) : M (Option HeapTuple) := do
  if data.length < 23 then return none
  let infomask ← uN 2 data 20
  let infomask2 ← uN 2 data 18
  let hoff := (← idx data 22).toNat
  if hoff > data.length then return none
  let natts := infomask2 &&& 0x07FF
  let hasNull := infomask &&& 0x0001 != 0
  let hdr : TupleHeader :=
    ⟨hoff, natts, infomask, infomask &&& 0x0100 != 0, infomask &&& 0x0800 != 0,
     infomask &&& 0x0400 != 0, hasNull⟩
  let d ← sliceFrom data hoff
  if hasNull then
    let bb := (natts + 7) / 8
    if data.length ≥ 23 + bb then
      let bm ← slice data 23 (23 + bb)
      return some ⟨hdr, some bm, d⟩
  return some ⟨hdr, none, d⟩

def HeapTuple.isVisible (t : HeapTuple) : Bool :=
  t.header.xminCommitted && (t.header.xmaxInvalid || !t.header.xmaxCommitted)

/-- the predicate used by deleted.go -/
def HeapTuple.isDeleted (t : HeapTuple) : Bool :=
  t.header.xmaxCommitted && !t.header.xmaxInvalid

/-- tuple.go:IsNull (attnum is 1-based; Go `int`, may be ≤ 0) -/
def HeapTuple.isNull (t : HeapTuple) (attnum : Int) : Bool :=
  match t.bitmap with
  | none => false
  | some bm =>
    if attnum ≤ 0 then false
    else
      let k := (attnum - 1).toNat
      let byteIdx := k / 8
      let bitIdx := k % 8
      match bm[byteIdx]? with
      | none => true
      | some b => b.toNat &&& (1 <<< bitIdx) == 0

/-! ### page.go:ParsePage, heap.go:ReadTuples -/

/-- ParsePage's per-pointer tests without the overlap guard (what one pointer yields on a page where no earlier
reported tuple shares its storage; `pageItemG` with `claimed = []`) -/
def pageItem (data : Bytes) (upper : Nat) (item : ItemID) : M (Option HeapTuple) := do
  if item.flags != 1 || item.length == 0 then return none
  if item.offset < upper || item.offset + item.length > 8192 then return none
  let s ← slice data item.offset (item.offset + item.length)
  parseHeapTuple s

/-- page.go:overlapsAny's loop body — the storage `[offset, offset+length)` of `item` shares a byte with that of `c` -/
def ItemID.overlaps (item c : ItemID) : Bool :=
  decide (item.offset < c.offset + c.length) && decide (c.offset < item.offset + item.length)

/-- page.go:overlapsAny -/
def overlapsAny (claimed : List ItemID) (item : ItemID) : Bool := claimed.any item.overlaps

/-- one iteration of ParsePage's loop with the tuples reported so far occupying `claimed`: `pageItem`'s tests, then
(fix heap/02) a pointer whose storage overlaps an already reported tuple is skipped — the first claim on the bytes wins -/
def pageItemG (data : Bytes) (upper : Nat) (claimed : List ItemID) (item : ItemID) : M (Option HeapTuple) := do
  if item.flags != 1 || item.length == 0 then return none
  if item.offset < upper || item.offset + item.length > 8192 then return none
  if overlapsAny claimed item then return none
  let s ← slice data item.offset (item.offset + item.length)
  parseHeapTuple s

/-- ParsePage's loop over the line pointers; `claimed` = pointers of the tuples appended to `entries` so far, in order -/
def pageLoop (data : Bytes) (upper : Nat) : List ItemID → List ItemID → M (List HeapTuple)
  | [], _ => pure []
  | item :: rest, claimed => do
    match ← pageItemG data upper claimed item with
    | some t =>
      let ts ← pageLoop data upper rest (claimed ++ [item])
      pure (t :: ts)
    | none => pageLoop data upper rest claimed

def parsePage (data : Bytes) : M (List HeapTuple) := do
  if data.length < 8192 then return []
  let h ← parseHeader data
  if !validHeader h then return []
  let items ← parseItems data h.lower
  pageLoop data h.upper items []

structure TupleEntry where
  tuple : HeapTuple
  pageOffset : Nat
deriving Repr, DecidableEq

/-- `for off := 0; off+PageSize <= len(data); off += PageSize`, `n` = iterations still allowed -/
def readTuplesFrom (data : Bytes) (visibleOnly : Bool) : Nat → Nat → M (List TupleEntry)
  | 0, _ => pure []
  | n+1, off => do
    if off + 8192 ≤ data.length then
      let pg ← slice data off (off + 8192)
      let ts ← parsePage pg
      let es := (ts.filter fun t => !visibleOnly || t.isVisible).map fun t => (⟨t, off⟩ : TupleEntry)
      let rest ← readTuplesFrom data visibleOnly n (off + 8192)
      pure (es ++ rest)
    else pure []

def readTuples (data : Bytes) (visibleOnly : Bool) : M (List TupleEntry) :=
  readTuplesFrom data visibleOnly (data.length / 8192 + 1) 0

end PgVerif.Model
