/-
  Topic E9 — toast.go:AnalyzeTOAST (area `toast`), which /verif/C10_COVERAGE.md listed as "not modelled".

  The code AS IT IS: it finds the database oid in global/1262 (ParsePGDatabase), walks the VISIBLE tuples of
  base/<oid>/1259 (ReadTuples, no schema) and reads a `uint32` at tuple-data offset 48 as "reltoastrelid".  In every
  supported pg_class layout that offset lies inside `relname` (oid at 0..3, relname at 4..67; reltoastrelid is at offset
  108 on PostgreSQL ≥ 12), so the number read is bytes 44..47 of the relation NAME.  The model reproduces this; the
  observation is recorded in Props/C08Extra.lean (`analyzeTOAST_reads_relname`).  No property quantifies over
  AnalyzeTOAST.

  File system `fs`, row reader `rr` as in Model/Cluster.lean.  `map[uint32]bool` = the list of distinct keys.
  Core Lean only.
-/
import PgVerif.Model.Toast
import PgVerif.Model.Cluster
namespace PgVerif.Model.Extra
open PgVerif PgVerif.Model

/-- toast.go:TOASTInfo as AnalyzeTOAST fills it (the other fields stay zero) -/
structure TOASTInfo where
  toastRelID : Nat
  totalChunks : Nat
  uniqueValues : Nat
  totalSize : Nat
deriving Repr, DecidableEq, Inhabited

/-- `uniqueValues[c.ChunkID] = true` -/
def idSetInsert (seen : List Nat) (k : Nat) : List Nat := if seen.contains k then seen else seen ++ [k]

/-- the tallies of one TOAST relation: chunk count, distinct chunk ids, total payload bytes -/
def toastTally (toastRelID : Nat) (chunks : List Toast.Chunk) : TOASTInfo :=
  { toastRelID, totalChunks := chunks.length,
    uniqueValues := (chunks.foldl (fun seen c => idSetInsert seen c.id) []).length,
    totalSize := (chunks.map (·.data.length)).sum }

/-- the body of AnalyzeTOAST's loop over the pg_class tuples (`none` = `continue`) -/
def analyzeEntry (fs : Bytes → Option Bytes) (dbOID : Nat) (e : TupleEntry) : M (Option TOASTInfo) :=
  if e.tuple.data.length < 60 then pure none
  else do
    let toastRelID ← uN 4 e.tuple.data 48                    -- u32(tuple.Data, 48)
    if toastRelID = 0 then pure none
    else match fs (basePath dbOID toastRelID) with
      | none => pure none                                     -- os.ReadFile failed
      | some toastData => do
        let chunks ← Toast.readTOASTTable toastData
        if chunks.length = 0 then pure none
        else pure (some (toastTally toastRelID chunks))

/-- the first loop: `for _, db := range ParsePGDatabase(dbData) { if db.Name == dbName { dbOID = db.OID; break } }` -/
def findDbOID (dbs : List DatabaseInfo) (dbName : Bytes) : Nat :=
  match dbs.find? (fun db => db.name == dbName) with
  | some db => db.oid
  | none => 0

/-- toast.go:AnalyzeTOAST.  `none` = an error return (global/1262 unreadable, database not found, pg_class unreadable). -/
def analyzeTOAST (rr : RowReader) (fs : Bytes → Option Bytes) (dbName : Bytes) : M (Option (List TOASTInfo)) :=
  match fs pathGlobal1262 with
  | none => pure none
  | some dbData => do
    let dbs ← parsePGDatabase rr dbData
    let dbOID := findDbOID dbs dbName
    if dbOID = 0 then pure none
    else match fs (basePath dbOID 1259) with
      | none => pure none
      | some classData => do
        let es ← readTuples classData true
        let r ← collectM (analyzeEntry fs dbOID) es
        pure (some r)

end PgVerif.Model.Extra
