/-
  Model of pgdump/toast.go (with fixes/toast/01..06, 20..22 applied) and of types.go:ReadVarlena as far as
  ReadTOASTTable uses it.  One Lean function per Go function, same guards, same order of evaluation.
  Parameters standing for the environment: `zlib data n` (compress/zlib NewReader + the first `n` bytes of the inflated
  stream through io.LimitReader on the fallback path, fixes toast/20 and /22: `none` = the stream is not zlib or is
  damaged), `readFile` (os.ReadFile of base/<dbOID>/<relid>).
  Not modelled: capacities.  `pglzOutputSize` / `lz4OutputSize` (fixes/toast/22) only choose the capacity of the result
  slice (append would grow it were they too small), so they do not influence any result; that they are exact is checked
  by the harness (family `lz4`/`pglz`/`toastmut` handlers compare cap and len) and the allocation by family `resource`.
  Core Lean only (driver path).
-/
import PgVerif.Model.Heap
import PgVerif.Model.Pglz
import PgVerif.Model.Lz4
import PgVerif.Model.InlineComp
import PgVerif.Model.KeySort
namespace PgVerif.Model.Toast
open PgVerif PgVerif.Model

structure Ptr where
  rawSize : Nat
  extSize : Nat
  valueID : Nat
  toastRelID : Nat
  isCompressed : Bool
  method : Nat
deriving Repr, DecidableEq, Inhabited

structure Chunk where
  id : Nat
  seq : Int
  data : Bytes
deriving Repr, DecidableEq, Inhabited

/-- Go: `binary.LittleEndian.Uint32(data[lo : lo+4])` -/
def le32 (data : Bytes) (lo : Nat) : M Nat := do
  let s ← slice data lo (lo + 4)
  uN 4 s 0

/-- toast.go:ParseTOASTPointer; `none` = nil -/
def parseTOASTPointer (data : Bytes) : M (Option Ptr) := do
  if data.length < 18 then return none
  let tag ← idx data 0
  if tag != 0x01 && tag != 0x02 && tag != 0x12 then return none
  let offset := 2
  if data.length < offset + 16 then return none
  let rawSize ← le32 data offset
  let extInfo ← le32 data (offset + 4)
  let extSize := extInfo &&& 0x3FFFFFFF
  let method := extInfo >>> 30
  let valueID ← le32 data (offset + 8)
  let relID ← le32 data (offset + 12)
  return some ⟨rawSize, extSize, valueID, relID, decide (extSize + 4 < rawSize), method⟩

/-- toast.go:IsTOASTPointer -/
def isTOASTPointer (data : Bytes) : M Bool := do
  if data.length < 2 then return false
  let first ← idx data 0
  return first == 0x01 || first == 0x02 || first == 0x12

/-- types.go:ReadVarlena (tree at /repo HEAD, i.e. with fixes/rows/02 — an on-disk external pointer occupies 18 bytes —
/05 — an empty short varlena `03` is the empty value, not nil — and /09 — a value compressed in line is decompressed).  `none` = nil. -/
def readVarlena (data : Bytes) : M (Option Bytes × Nat) := do
  if data.length = 0 then return (none, 0)
  let first ← idx data 0
  if first.toNat &&& 1 == 1 && first != 1 then
    let totalLen := first.toNat >>> 1
    if totalLen < 1 || data.length < totalLen then return (none, 1)
    let d ← slice data 1 totalLen
    return (some d, totalLen)
  if first == 1 then
    -- `if len(data) >= 18 && data[1] == 18 { return nil, 18 }; return nil, 1`
    if data.length ≥ 18 then
      let tag ← idx data 1
      return (none, if tag == 18 then 18 else 1)
    else return (none, 1)
  if data.length < 4 then return (none, 0)
  let header ← uN 4 data 0
  let totalLen := header >>> 2
  if totalLen < 4 || data.length < totalLen then return (none, 4)
  if header % 4 == 2 && totalLen ≥ 8 then
    -- fixes/rows/09: compressed in line (never the case for chunk_data PostgreSQL wrote)
    let v ← inlineDecompress data totalLen
    return (v, totalLen)
  let d ← slice data 4 totalLen
  return (some d, totalLen)

/-- body of the loop of ReadTOASTTable for one visible tuple; `none` = `continue` / not appended -/
def chunkOf (tdata : Bytes) : M (Option Chunk) := do
  if tdata.length < 8 then return none
  let id ← uN 4 tdata 0
  let seq := toSigned 32 (← uN 4 tdata 4)
  let offset := align 8 4
  let d ← if offset < tdata.length then do
            let r ← readVarlena (← sliceFrom tdata offset)
            pure (r.1.getD [])
          else pure []
  if d.length > 0 then return some ⟨id, seq, d⟩ else return none

/-- toast.go:toastVisible (fixes/toast/21) on a whole raw tuple: PostgreSQL's HeapTupleSatisfiesToast —
HEAP_XMIN_COMMITTED (0x0100) set: visible; else HEAP_XMIN_INVALID (0x0200) set: not; else visible iff t_xmin ≠ 0.
t_xmax and the XMAX bits are not read. -/
def toastVisible (raw : Bytes) : M Bool := do
  let infomask ← uN 2 raw 20
  if infomask &&& 0x0100 != 0 then pure true
  else if infomask &&& 0x0200 != 0 then pure false
  else do
    let xmin ← uN 4 raw 0
    pure (xmin != 0)

/-- body of the inner loop of toast.go:readTOASTTuples for one line pointer: the checks of ParsePage, then
`if tuple := ParseHeapTuple(raw); tuple != nil && toastVisible(raw)` -/
def toastPageItem (data : Bytes) (upper : Nat) (item : ItemID) : M (Option HeapTuple) := do
  if item.flags != 1 || item.length == 0 then return none
  if item.offset < upper || item.offset + item.length > 8192 then return none
  let s ← slice data item.offset (item.offset + item.length)
  match ← parseHeapTuple s with
  | none => pure none
  | some t => do
    let v ← toastVisible s
    pure (if v then some t else none)

/-- one page of readTOASTTuples (`data` = the 8192 bytes of the page): header checks as in ParsePage, `continue` on an
invalid header -/
def toastPageTuples (data : Bytes) : M (List HeapTuple) := do
  let h ← parseHeader data
  if !validHeader h then return []
  let items ← parseItems data h.lower
  collectM (toastPageItem data h.upper) items

/-- `for off := 0; off+PageSize <= len(data); off += PageSize`, `n` = iterations still allowed -/
def readTOASTTuplesFrom (data : Bytes) : Nat → Nat → M (List HeapTuple)
  | 0, _ => pure []
  | n+1, off => do
    if off + 8192 ≤ data.length then
      let pg ← slice data off (off + 8192)
      let ts ← toastPageTuples pg
      let rest ← readTOASTTuplesFrom data n (off + 8192)
      pure (ts ++ rest)
    else pure []

/-- toast.go:readTOASTTuples (fixes/toast/21): the tuples of a TOAST relation file that PostgreSQL's TOAST snapshot sees,
in physical order -/
def readTOASTTuples (data : Bytes) : M (List HeapTuple) :=
  readTOASTTuplesFrom data (data.length / 8192 + 1) 0

/-- toast.go:ReadTOASTTable -/
def readTOASTTable (data : Bytes) : M (List Chunk) := do
  let ts ← readTOASTTuples data
  collectM (fun t => chunkOf t.data) ts

/-- the decompression branch of ReassembleTOAST (`data` = concatenated chunks, longer than 4 bytes).
`zlib data n` stands for the first `n` bytes of `zlib.NewReader(data)` read through `io.LimitReader` (fix toast/20: the
fallback reads at most `rawSize` bytes, like the two decompressors; fix toast/22: and at most 255 bytes per stored byte,
the ratio of the densest format PostgreSQL does write — `rawSize` alone is the attacker's 32-bit field, no bound in the
input; the stream is inflated twice, counted first, so that the result is allocated once): `some z` = the bytes read without
error — at most `n` of them, which is io.LimitReader's contract and the hypothesis `ZlibBounded` of the size theorems —
`none` = an error. -/
def decompressStored (zlib : Bytes → Nat → Option Bytes) (p : Ptr) (data : Bytes) : M Bytes := do
  let rawSize := p.rawSize - 4
  let limit := min rawSize (255 * data.length)
  let stream ← sliceFrom data 4
  let viaLz4 ← if p.method == 1 then Lz4.decompressLZ4 stream rawSize else pure none
  match viaLz4 with
  | some d => return d
  | none =>
    let viaPglz ← Pglz.decompressPGLZ stream rawSize
    match viaPglz with
    | some d =>
      if d.length > 0 then return d
      match zlib data limit with
      | some z => return z
      | none => return data
    | none =>
      match zlib data limit with
      | some z => return z
      | none => return data

/-- io.LimitReader's contract for the zlib parameter: never more than `n` bytes -/
def ZlibBounded (zlib : Bytes → Nat → Option Bytes) : Prop := ∀ d n z, zlib d n = some z → z.length ≤ n

/-- toast.go:ReassembleTOAST; `none` = nil.  `sort.SliceStable` by ChunkSeq (fixes/toast/06; it was `sort.Slice`, whose
order among equal sequence numbers is unspecified and differed from any stable sort from 13 chunks on — REVIEW C2) is a
stable sort: chunks with equal sequence numbers keep their stored order.  A stable sort's result is determined by the
keys, so `List.mergeSort` (stable) is exact, duplicates included (family `toastties`). -/
def reassembleTOAST (zlib : Bytes → Nat → Option Bytes) (chunks : List Chunk) (valueID : Nat) (ptr : Option Ptr) :
    M (Option Bytes) := do
  let valueChunks := chunks.filter (·.id == valueID)
  if valueChunks.length = 0 then return none
  let sorted := valueChunks.mergeSort (fun a b => decide (a.seq ≤ b.seq))
  let data := sorted.flatMap (·.data)
  match ptr with
  | some p =>
    if p.isCompressed && data.length > 4 && p.rawSize ≥ 4 then
      return some (← decompressStored zlib p data)
    else return (if data.isEmpty then none else some data)
  | none => return (if data.isEmpty then none else some data)

/-- TOASTReader: the loaded tables (keyed by relation oid) and whether a data directory is set -/
structure Reader where
  tables : List (Nat × List Chunk)
  hasDir : Bool
deriving Repr

/-- toast.go:(*TOASTReader).ReadValue; the result for a non-pointer is the input itself.  Returns the reader as
well: a table loaded from the data directory stays loaded (`r.chunks[toastRelID] = …`). -/
def readValue (zlib : Bytes → Nat → Option Bytes) (readFile : Nat → Option Bytes) (r : Reader) (data : Bytes) :
    M (Option Bytes × Reader) := do
  match ← parseTOASTPointer data with
  | none => return (some data, r)
  | some p =>
    let tables ←
      if (r.tables.lookup p.toastRelID).isNone && r.hasDir then
        match readFile p.toastRelID with
        | some f => do pure ((p.toastRelID, ← readTOASTTable f) :: r.tables)
        | none => pure r.tables
      else pure r.tables
    let r' : Reader := { r with tables }
    match tables.lookup p.toastRelID with
    | none => return (none, r')
    | some cs => return (← reassembleTOAST zlib cs p.valueID (some p), r')

/-! ### GetTOASTVerboseInfo -/

structure ValueInfo where
  chunkID : Nat
  numChunks : Nat
  totalSize : Nat
deriving Repr, DecidableEq

structure VerboseInfo where
  toastRelID : Nat
  totalChunks : Nat
  uniqueValues : Nat
  totalSize : Nat
  /-- AverageChunkSize = float64(avgNum) / float64(avgDen) -/
  avgNum : Nat
  avgDen : Nat
  maxChunksPerValue : Nat
  /-- map[int]int as an association list (Go's iteration order is random: compare sorted) -/
  distribution : List (Nat × Nat)
  /-- one entry per value, in ascending value id order (fixes/toast/05; it was map iteration order) -/
  values : List ValueInfo
deriving Repr, DecidableEq

/-- `m[k] = append(m[k], c)` on an association list kept in first-insertion order -/
def groupInsert (m : List (Nat × List Chunk)) (c : Chunk) : List (Nat × List Chunk) :=
  if m.any (·.1 == c.id) then m.map fun kv => if kv.1 == c.id then (kv.1, kv.2 ++ [c]) else kv
  else m ++ [(c.id, [c])]

/-- `m[k]++` -/
def countInsert (m : List (Nat × Nat)) (k : Nat) : List (Nat × Nat) :=
  if m.any (·.1 == k) then m.map fun kv => if kv.1 == k then (kv.1, kv.2 + 1) else kv
  else m ++ [(k, 1)]

/-- the iteration order of Go's `range valueChunks`: some rearrangement of the entries of the map -/
abbrev GroupOrder := List (Nat × List Chunk) → List (Nat × List Chunk)

/-- the body of GetTOASTVerboseInfo after the `len(chunks) == 0` check (with fixes/toast/05): the value ids are
collected by ranging over the map (`π`: any order), sorted ascending, and each value is analysed in that order — the
entries of the map sorted by value id (Model/KeySort.lean) -/
def buildInfoWith (π : GroupOrder) (toastRelID : Nat) (chunks : List Chunk) : VerboseInfo :=
  let groups := chunks.foldl groupInsert []
  let visited := keySort (·.1) (π groups)
  let totalSize := (chunks.map (·.data.length)).sum
  let vals := visited.map fun g => (⟨g.1, g.2.length, (g.2.map (·.data.length)).sum⟩ : ValueInfo)
  { toastRelID, totalChunks := chunks.length, uniqueValues := groups.length, totalSize,
    avgNum := totalSize, avgDen := chunks.length,
    maxChunksPerValue := (vals.map (·.numChunks)).foldl max 0,
    distribution := (vals.map (·.numChunks)).foldl countInsert [],
    values := vals }

/-- the result for one fixed iteration order; `Props/C11Maps.C11_toastInfo_order_independent`: every order gives this -/
def buildInfo (toastRelID : Nat) (chunks : List Chunk) : VerboseInfo := buildInfoWith id toastRelID chunks

/-- toast.go:GetTOASTVerboseInfo; `none` = nil -/
def getTOASTVerboseInfoWith (π : GroupOrder) (toastRelID : Nat) (data : Bytes) : M (Option VerboseInfo) := do
  let chunks ← readTOASTTable data
  if chunks.length = 0 then return none
  return some (buildInfoWith π toastRelID chunks)

def getTOASTVerboseInfo (toastRelID : Nat) (data : Bytes) : M (Option VerboseInfo) :=
  getTOASTVerboseInfoWith id toastRelID data

end PgVerif.Model.Toast
