/-
  Model of pgdump/sequence.go AS WRITTEN at the snapshot (before the repairs): the "modern format"
  guess keyed on the first four data bytes (A62), magic compared as u16 (A63), default t_hoff 24 applied
  without a bounds check (slice panic on a 23-byte tuple).  Used by family `sequence_orig` against the
  unrepaired tree and by the witness theorems.
-/
import PgVerif.Model.Sequence
namespace PgVerif.Model.Orig
open PgVerif PgVerif.Model

def parseSequenceTuple (data : Bytes) : M (Option SequenceData) := do
  if data.length < 8 then return none
  let firstVal ← uN 4 data 0
  if firstVal = 20 ∨ firstVal = 21 ∨ firstVal = 23 then
    if data.length < 4 + 48 then return none
    let startValue ← i64At data 4
    let incrementBy ← i64At data 12
    let maxValue ← i64At data 20
    let minValue ← i64At data 28
    let cacheValue ← i64At data 36
    let isCycled := (← uN 1 data 44) != 0
    -- offset = (45 + 7) &^ 7 = 48
    if data.length ≥ 48 + 9 then
      let lastValue ← i64At data 48
      let isCalled ← (if data.length > 56 then do return (← uN 1 data 56) != 0 else pure false : M Bool)
      return some { lastValue, startValue, incrementBy, maxValue, minValue, cacheValue, isCycled, isCalled }
    return some { startValue, incrementBy, maxValue, minValue, cacheValue, isCycled }
  else
    if data.length < 57 then
      let lastValue ← i64At data 0
      return some { lastValue }
    let lastValue ← i64At data 0
    let startValue ← i64At data 8
    let incrementBy ← i64At data 16
    let maxValue ← i64At data 24
    let minValue ← i64At data 32
    let cacheValue ← i64At data 40
    let (isCycled, off) ← (if data.length > 56 then do return ((← uN 1 data 56) != 0, 57) else pure (false, 56) : M (Bool × Nat))
    let isCalled ← (if data.length > off then do return (← uN 1 data off) != 0 else pure false : M Bool)
    return some { lastValue, startValue, incrementBy, maxValue, minValue, cacheValue, isCycled, isCalled }

def parseSequenceFile (data : Bytes) : M (Option SequenceData) := do
  if data.length < 8192 then return none
  let special ← uN 2 data 16
  if special = 0 ∨ special ≥ 8192 - 2 then return none
  let magic ← uN 2 data special
  if magic ≠ 0x1717 then return none
  let lower ← uN 2 data 12
  if lower < 24 + 4 then return none
  let itemPtr ← uN 4 data 24
  let itemOffset := itemPtr &&& 0x7FFF
  let itemLen := (itemPtr >>> 17) &&& 0x7FFF
  if itemOffset = 0 ∨ itemLen = 0 ∨ itemOffset + itemLen > 8192 then return none
  let tupleData ← slice data itemOffset (itemOffset + itemLen)
  if tupleData.length < 23 then return none
  let hoff0 := (← idx tupleData 22).toNat
  let hoff := if hoff0 < 23 ∨ hoff0 > tupleData.length then 24 else hoff0
  let seqData ← sliceFrom tupleData hoff
  parseSequenceTuple seqData

def isSequenceFile (data : Bytes) : M Bool := do
  if data.length < 8192 then return false
  let special ← uN 2 data 16
  if special = 0 ∨ special ≥ 8192 - 2 then return false
  let magic ← uN 2 data special
  return magic == 0x1717

end PgVerif.Model.Orig
