/-
  Model of main.go: the dispatch of `main()` as a decision function `Flags → Action`, with main.go's
  precedence (version > detect > -f modes > data directory resolution > list-db > control > checksum > dropped >
  sequences > relmap > passwords > secrets > search > wal > dump; inside -f: -b > -index > -toast-verbose > -R >
  plain; output: -sql > -csv > json), and the `Options` each action hands to the library.

  Go's `flag` package is a parameter (contract: standard flag syntax fills the `Flags` record);
  `pgdump.DetectDataDir()` is the parameter `detected` ("" = nothing found).
  `-deleted`, `-o`, `-v`, `-debug` are parsed by main.go and do not influence stdout (noted in DESIGN C12).
-/
import PgVerif.Spec.Cluster
namespace PgVerif.Model
open PgVerif
open PgVerif.Spec (Options)

structure Flags where
  dataDir : Bytes := []
  singleFile : Bytes := []
  dbFilter : Bytes := []
  tableFilter : Bytes := []
  listOnly : Bool := false
  listDBs : Bool := false
  detectPaths : Bool := false
  sqlOutput : Bool := false
  csvOutput : Bool := false
  searchPattern : Bytes := []
  passwords : Bytes := []
  secrets : Bytes := []
  showDeleted : Bool := false
  showWAL : Bool := false
  showControl : Bool := false
  verifyChecksums : Bool := false
  parseIndex : Bool := false
  showDropped : Bool := false
  showSequences : Bytes := []
  showRelmap : Bytes := []
  blockRange : Bytes := []
  binaryDump : Bool := false
  skipOldValues : Bool := false
  toastVerbose : Bool := false
  segmentNumber : Int := 0
  segmentSize : Int := 0
  verbose : Bool := false
  debug : Bool := false
  showVersion : Bool := false
deriving Repr, Inhabited, DecidableEq

inductive Format where
  | json | sql | csv
deriving Repr, DecidableEq, Inhabited

inductive FileMode where
  | binary (range : Bytes)                       -- parseBinaryDump(path, blockRange)
  | index                                        -- parseIndexFile(path)
  | toastVerbose                                 -- parseToastVerbose(path)
  | range (r : Bytes) (seg : Option (Int × Int)) -- parseBlockRangeWithSegment(path, blockRange, segOpts)
  | plain                                        -- parseSingle(path)
deriving Repr, DecidableEq, Inhabited

inductive Action where
  | version
  | detect
  | file (path : Bytes) (mode : FileMode)
  | noDataDir                                    -- "Error: PostgreSQL data directory not found", exit 1
  | listDb (dir : Bytes)
  | control (dir : Bytes)
  | checksum (dir : Bytes)
  | droppedDb (dir db : Bytes)
  | droppedAll (dir : Bytes)
  | sequencesAll (dir : Bytes)
  | sequencesDb (dir db : Bytes)
  | relmapGlobal (dir : Bytes)
  | relmapAll (dir : Bytes)
  | relmapDb (dir : Bytes) (oid : Nat)
  | relmapInvalid (arg : Bytes)                  -- "Invalid relmap option", exit 1
  | passwords (dir user : Bytes)                 -- user = "all" prints every role
  | secrets (dir : Bytes) (opts : Options)
  | search (dir pattern : Bytes)
  | wal (dir : Bytes)
  | dump (dir : Bytes) (opts : Options) (fmt : Format)
deriving Repr, DecidableEq, Inhabited

def allDigits (s : Bytes) : Bool := !s.isEmpty && s.all fun b => 48 ≤ b && b ≤ 57

def decVal (s : Bytes) : Nat := s.foldl (fun acc d => acc * 10 + (d.toNat - 48)) 0

/-- `strconv.ParseUint(s, 10, 32)`: decimal digits only (no sign, no underscore), value below 2³² -/
def cliParseUint32 (s : Bytes) : Option Nat :=
  if allDigits s ∧ decVal s < 4294967296 then some (decVal s) else none

def fileMode (f : Flags) : FileMode :=
  if f.binaryDump then .binary f.blockRange
  else if f.parseIndex then .index
  else if f.toastVerbose then .toastVerbose
  else if f.blockRange ≠ [] then
    .range f.blockRange (if f.segmentNumber > 0 ∨ f.segmentSize > 0 then some (f.segmentNumber, f.segmentSize) else none)
  else .plain

def outFormat (f : Flags) : Format := if f.sqlOutput then .sql else if f.csvOutput then .csv else .json

/-- the `Options` of the final DumpDataDir call -/
def dumpOptions (f : Flags) : Options :=
  { dbFilter := f.dbFilter, tableFilter := f.tableFilter, listOnly := f.listOnly, skipSystem := true, pgVersion := 0 }

/-- main.go:main as a decision table -/
def cliAction (detected : Bytes) (f : Flags) : Action :=
  if f.showVersion then .version
  else if f.detectPaths then .detect
  else if f.singleFile ≠ [] then .file f.singleFile (fileMode f)
  else
    let dir := if f.dataDir = [] then detected else f.dataDir
    if dir = [] then .noDataDir
    else if f.listDBs then .listDb dir
    else if f.showControl then .control dir
    else if f.verifyChecksums then .checksum dir
    else if f.showDropped then (if f.dbFilter ≠ [] then .droppedDb dir f.dbFilter else .droppedAll dir)
    else if f.showSequences ≠ [] then
      (if f.showSequences = strBytes "all" then .sequencesAll dir else .sequencesDb dir f.showSequences)
    else if f.showRelmap ≠ [] then
      (if f.showRelmap = strBytes "global" then .relmapGlobal dir
       else if f.showRelmap = strBytes "all" then .relmapAll dir
       else match cliParseUint32 f.showRelmap with
         | some oid => .relmapDb dir oid
         | none => .relmapInvalid f.showRelmap)
    else if f.passwords ≠ [] then .passwords dir f.passwords
    else if f.secrets ≠ [] then
      .secrets dir { dbFilter := f.dbFilter, tableFilter := f.tableFilter, listOnly := false, skipSystem := true, pgVersion := 0 }
    else if f.searchPattern ≠ [] then .search dir f.searchPattern
    else if f.showWAL then .wal dir
    else .dump dir (dumpOptions f) (outFormat f)

end PgVerif.Model
