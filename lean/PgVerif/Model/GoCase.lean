/-
  Go's `strings.ToLower` and `strings.EqualFold` as pgdump.go / remote.go use them on relation and database names
  (review finding C3: they are Unicode functions, the earlier model lower-cased ASCII only).

  Both Go functions have an ASCII fast path, and so has the model: on strings whose bytes are all below 0x80 they are
  `Spec.lowerB` / equality of `Spec.lowerB` (`goToLower_ascii`, `goEqualFold_ascii`) — the only inputs the theorems of C01 /
  C12 speak about (`Spec.asciiB` hypotheses).  Beyond ASCII the model follows Go for a STATED alphabet (what the generators
  produce, checked by the correspondence families `cluster_dump`, `remote`, tag `case=nonascii`):
    * invalid UTF-8: every offending byte decodes to U+FFFD (`utf8.RuneError`, width 1); `ToLower` writes it back as
      EF BF BD, `EqualFold` compares it equal to any other U+FFFD;
    * Latin-1 letters U+00C0–U+00DE (without U+00D7) ↔ +32; Greek U+0391–U+03A9 ↔ +32; Cyrillic U+0410–U+042F ↔ +32;
    * `ToLower`: U+212A KELVIN SIGN ↦ k, U+0130 İ ↦ i;
    * `EqualFold` (simple case folding orbits): {K, k, U+212A}, {S, s, U+017F ſ}, {U+00B5 µ, U+039C, U+03BC},
      {U+03A3, U+03C3, U+03C2 ς}; U+0130 folds with nothing;
    * every other code point is taken to be caseless (true for digits, punctuation, kana, CJK; NOT true for the rest of
      Unicode's cased letters, e.g. Latin Extended — such names are outside the model's stated alphabet: `covered`).
-/
import PgVerif.Model.RowsDec
import PgVerif.Spec.Cluster
namespace PgVerif.Model.GoCase
open PgVerif

/-- `utf8.DecodeRune` at the head of a non-empty string: (code point, width); an invalid encoding is (U+FFFD, 1) -/
def decodeRune : Bytes → Nat × Nat
  | [] => (0xFFFD, 1)
  | b0 :: rest =>
    let w := LocalDec.utf8Width (b0 :: rest)
    if w = 1 then (b0.toNat, 1)
    else if w = 2 then (b0.toNat % 32 * 64 + (rest.getD 0 0).toNat % 64, 2)
    else if w = 3 then (b0.toNat % 16 * 4096 + (rest.getD 0 0).toNat % 64 * 64 + (rest.getD 1 0).toNat % 64, 3)
    else if w = 4 then
      (b0.toNat % 8 * 262144 + (rest.getD 0 0).toNat % 64 * 4096 + (rest.getD 1 0).toNat % 64 * 64 + (rest.getD 2 0).toNat % 64, 4)
    else (0xFFFD, 1)

def runesAux : Nat → Bytes → List Nat
  | 0, _ => []
  | _ + 1, [] => []
  | f + 1, b :: t =>
    let rw := decodeRune (b :: t)
    rw.1 :: runesAux f (t.drop (rw.2 - 1))

/-- `for _, r := range s` -/
def runes (s : Bytes) : List Nat := runesAux s.length s

/-- `utf8.AppendRune` -/
def encodeRune (r : Nat) : Bytes :=
  if r < 0x80 then [UInt8.ofNat r]
  else if r < 0x800 then [UInt8.ofNat (0xC0 + r / 64), UInt8.ofNat (0x80 + r % 64)]
  else if r < 0x10000 then [UInt8.ofNat (0xE0 + r / 4096), UInt8.ofNat (0x80 + r / 64 % 64), UInt8.ofNat (0x80 + r % 64)]
  else [UInt8.ofNat (0xF0 + r / 262144), UInt8.ofNat (0x80 + r / 4096 % 64), UInt8.ofNat (0x80 + r / 64 % 64), UInt8.ofNat (0x80 + r % 64)]

/-- `unicode.ToLower` on the stated alphabet -/
def lowerRune (r : Nat) : Nat :=
  if 65 ≤ r ∧ r ≤ 90 then r + 32
  else if (0xC0 ≤ r ∧ r ≤ 0xDE ∧ r ≠ 0xD7) then r + 32
  else if (0x391 ≤ r ∧ r ≤ 0x3A9 ∧ r ≠ 0x3A2) then r + 32
  else if 0x410 ≤ r ∧ r ≤ 0x42F then r + 32
  else if r = 0x212A then 0x6B
  else if r = 0x130 then 0x69
  else r

/-- representative of the simple-case-folding orbit of a code point of the stated alphabet -/
def foldKey (r : Nat) : Nat :=
  if 65 ≤ r ∧ r ≤ 90 then r + 32
  else if r = 0x212A then 0x6B
  else if r = 0x17F then 0x73
  else if (0xC0 ≤ r ∧ r ≤ 0xDE ∧ r ≠ 0xD7) then r + 32
  else if r = 0xB5 then 0x3BC
  else if (0x391 ≤ r ∧ r ≤ 0x3A9 ∧ r ≠ 0x3A2) then r + 32
  else if r = 0x3C2 then 0x3C3
  else if 0x410 ≤ r ∧ r ≤ 0x42F then r + 32
  else r

/-- the code points on which `lowerRune` / `foldKey` are Go's functions -/
def coveredRune (r : Nat) : Bool :=
  r < 0x100 || r = 0x130 || r = 0x17F || (0x391 ≤ r && r ≤ 0x3C9) || (0x410 ≤ r && r ≤ 0x44F) || r = 0x212A ||
  (0x3040 ≤ r && r ≤ 0x30FF) || (0x4E00 ≤ r && r ≤ 0x9FFF) || r = 0xFFFD

/-- the strings the model of the two functions is stated for -/
def covered (s : Bytes) : Bool := (runes s).all coveredRune

/-- strings.ToLower -/
def goToLower (s : Bytes) : Bytes :=
  if Spec.asciiB s then Spec.lowerB s else (runes s).flatMap fun r => encodeRune (lowerRune r)

/-- strings.EqualFold -/
def goEqualFold (a b : Bytes) : Bool :=
  if Spec.asciiB a && Spec.asciiB b then Spec.lowerB a == Spec.lowerB b
  else (runes a).map foldKey == (runes b).map foldKey

theorem goToLower_ascii (s : Bytes) (h : Spec.asciiB s = true) : goToLower s = Spec.lowerB s := by
  unfold goToLower; rw [if_pos h]

theorem goEqualFold_ascii (a b : Bytes) (ha : Spec.asciiB a = true) (hb : Spec.asciiB b = true) :
    goEqualFold a b = (Spec.lowerB a == Spec.lowerB b) := by
  unfold goEqualFold; rw [ha, hb]; rfl

/-- the strings on which Go's `ToLower` changes nothing but the ASCII letters A–Z — i.e. acts as `Spec.lowerB`, the Spec's
definition of case-insensitivity: every ASCII string, and every string whose non-ASCII part is valid UTF-8 without
upper-case letters (`été`, `日本`); not `ÉTÉ`, not U+212A, not a string with an invalid byte (which ToLower replaces by U+FFFD) -/
def lowerStable (s : Bytes) : Bool := goToLower s == Spec.lowerB s

theorem lowerStable_ascii (s : Bytes) (h : Spec.asciiB s = true) : lowerStable s = true := by
  unfold lowerStable; rw [goToLower_ascii s h]; exact beq_self_eq_true _

/-- the table filter lies where Go's case-insensitivity is the Spec's: there is no filter, or `ToLower` acts on the filter and
on every live relation name as ASCII lower-casing (review finding C3: beyond that pgread follows Go's Unicode tables —
`-t ÉTÉ` finds table `été` — and the Spec, which folds ASCII letters only, is silent) -/
def FilterStable (o : Spec.Options) (live : List Spec.ClassRow) : Prop :=
  o.tableFilter = [] ∨ (lowerStable o.tableFilter = true ∧ ∀ r ∈ live, lowerStable r.name = true)
instance (o : Spec.Options) (live : List Spec.ClassRow) : Decidable (FilterStable o live) := by unfold FilterStable; infer_instance

theorem filterStable_ascii (o : Spec.Options) (live : List Spec.ClassRow) (hf : Spec.asciiB o.tableFilter = true)
    (hl : ∀ r ∈ live, Spec.asciiB r.name = true) : FilterStable o live :=
  Or.inr ⟨lowerStable_ascii _ hf, fun r hr => lowerStable_ascii _ (hl r hr)⟩

/-- the request and the names on which `EqualFold` is equality of the ASCII lower-casings -/
def foldStable (names : List Bytes) (n : Bytes) : Prop := ∀ y ∈ names, goEqualFold y n = (Spec.lowerB y == Spec.lowerB n)
instance (names : List Bytes) (n : Bytes) : Decidable (foldStable names n) := by unfold foldStable; infer_instance

theorem foldStable_ascii (names : List Bytes) (n : Bytes) (hn : Spec.asciiB n = true) (hl : ∀ y ∈ names, Spec.asciiB y = true) :
    foldStable names n := fun y hy => goEqualFold_ascii y n (hl y hy) hn

end PgVerif.Model.GoCase
