/-
  File kinds (area "entry", C10): what the FILE SYSTEM hands to pgread below the level of bytes.

  Every other model of this tree takes a data directory as a function `path → Option Bytes` ("the bytes, or the read
  fails").  That abstraction is silent about a third thing a read can do: not return.  `os.ReadFile` on a FIFO blocks in
  open(2) until a writer shows up; on a character device such as /dev/zero it reads for ever.  Here a path names a `Kind`,
  and a read has three outcomes: data, error, or the distinguished `blocks` (the call does not return).

    osReadFile       os.ReadFile as pgread used it for the fixed-name files of a data directory up to commit a054878
    readRegularFile  pgdump/readfile.go (fix entry/02): os.Stat, Mode().IsRegular(), then os.ReadFile
    view             the `path → Option Bytes` reader the other models take, obtained from readRegularFile
    Entry / oldSelect / newSelect
                     a directory entry as os.ReadDir reports it (type from lstat: a symbolic link is a link, whatever it
                     points to) and the two file filters of the directory scans: `!e.IsDir()` (checksum.go, wal.go before
                     fixes entry/03, 04) and `e.Type().IsRegular()` (after)

  The file system is a snapshot (a function): a file that changes kind between the stat and the read of
  readRegularFile is outside the model (and outside C10: the input is the directory, not a process racing the tool).
  Error VALUES are one token: every caller only tests `err != nil` (or wraps the error with %w and returns it).
-/
import PgVerif.Basic.Bytes
namespace PgVerif.Model.FSKind
open PgVerif

/-- what a path names after symbolic links are followed (what stat(2) and open(2) see) -/
inductive Kind where
  | regular (data : Bytes)
  | fifo        -- open(2) for reading blocks until a writer appears
  | endless     -- a character device like /dev/zero: read(2) never reports end of file
  | dir         -- open succeeds, read(2) fails with EISDIR
  | missing     -- ENOENT / ENOTDIR / ELOOP: no such file, a dangling link, a link cycle
deriving Repr, DecidableEq, Inhabited

/-- outcome of reading a whole file; `blocks` = the call never returns -/
inductive Outcome where
  | data (b : Bytes)
  | err
  | blocks
deriving Repr, DecidableEq, Inhabited

abbrev FS (π : Type) := π → Kind

def Kind.isRegular : Kind → Bool
  | .regular _ => true
  | _ => false

/-- `os.ReadFile(path)` -/
def osReadFile {π} (fs : FS π) (p : π) : Outcome :=
  match fs p with
  | .regular b => .data b
  | .fifo => .blocks
  | .endless => .blocks
  | .dir => .err
  | .missing => .err

/-- `os.Stat(path)`: `none` = error, `some r` = `info.Mode().IsRegular()` -/
def statIsRegular {π} (fs : FS π) (p : π) : Option Bool :=
  match fs p with
  | .missing => none
  | k => some k.isRegular

/-- pgdump/readfile.go:readRegularFile -/
def readRegularFile {π} (fs : FS π) (p : π) : Outcome :=
  match statIsRegular fs p with
  | none => .err                      -- if err != nil { return nil, err }
  | some false => .err                -- "%s: not a regular file"
  | some true => osReadFile fs p

/-- the reader the other models are parameterised with (`path → Option Bytes`), for the code that reads through
readRegularFile: the bytes of a regular file, `none` for everything else -/
def view {π} (fs : FS π) : π → Option Bytes := fun p =>
  match readRegularFile fs p with
  | .data b => some b
  | _ => none

/-! ### directory scans -/

/-- `fs.DirEntry.Type()`: the type bits from lstat / d_type — a symbolic link is `symlink` whatever it points to -/
inductive EType where
  | regular | dir | symlink | fifo | other
deriving Repr, DecidableEq, Inhabited

/-- one entry of os.ReadDir: its name, its own type, and what the path resolves to when it is opened -/
structure Entry where
  name : Bytes
  type : EType
  target : Kind
deriving Repr, DecidableEq, Inhabited

/-- type and target belong together: only a symbolic link may resolve to something of another kind -/
def Entry.consistent (e : Entry) : Bool :=
  match e.type with
  | .regular => e.target.isRegular
  | .dir => e.target == .dir
  | .fifo => e.target == .fifo
  | .symlink => true
  | .other => e.target == .endless || e.target == .missing

/-- `!e.IsDir()`: the filter of VerifyDataDirChecksums, ScanWALDirectory and GetRecentWALRecords up to a054878 -/
def oldSelect (e : Entry) : Bool := e.type != .dir

/-- `e.Type().IsRegular()` (checksum.go writes `!f.Type().IsRegular() → continue`): since fixes entry/03, 04 -/
def newSelect (e : Entry) : Bool := e.type == .regular

/-- reading a selected entry: `os.ReadFile(filepath.Join(dir, e.Name()))` -/
def readEntry (e : Entry) : Outcome := osReadFile (fun (_ : Unit) => e.target) ()

/-- what a scan with filter `sel` does with a directory: the first selected entry whose read does not return stops it
for good; otherwise the (name, bytes) pairs it got (read errors are skipped, as in the Go loops) -/
def scan (sel : Entry → Bool) : List Entry → Option (List (Bytes × Bytes))
  | [] => some []
  | e :: rest =>
    if sel e then
      match readEntry e with
      | .blocks => none
      | .data b => (scan sel rest).map ((e.name, b) :: ·)
      | .err => scan sel rest
    else scan sel rest

/-- the entry equivalent to `e` for the repaired scans: an entry of type regular is a file, everything else is passed over
exactly like a directory -/
def Entry.bytes? (e : Entry) : Option Bytes :=
  if newSelect e then (match e.target with | .regular b => some b | _ => none) else none

end PgVerif.Model.FSKind
