/-
  Model of pgdump/dropped.go — the tree after fixes/dropped/01 (the three real pg_attribute layouts and the
  choice between them) and 02 (table lookups in filenode order):
    drPlausibleAttrRow, readAttrRowsWithDropped, parseDroppedColumns, parseAllAttributes, buildColumnsWithDropped,
    tablesByFilenode, FindDroppedColumns, ScanDroppedColumns, RecoverDroppedColumnData, GetDroppedColumnSchema.

  * `rr` = the row reader (heap.go:ReadRows, area `rows`), a parameter, as in Model/Catalog.lean.
  * the file system is `fs : path ↦ Option content` (`os.ReadFile`; an error = `none`), paths relative to the
    data directory, as in Model/Cluster.lean.  An `error` return of an entry point is `none`.
  * every `range` over a Go map takes the iteration order as a parameter `π` (Model.MapOrder).
  * `regexp ^\.+pg\.dropped\.(\d+)\.+$` (RE2: `\d` = ASCII digit, `$` = end of text) is `droppedDigits`;
    `fmt.Sprintf("dropped_%d", n)` = "dropped_" ++ decimal text (Spec.drDecInt; the literals are explicit byte lists so that
    proofs can compute with them — the correspondence families check them against the real strings); `TypeName` = Model.typeName (generated graph);
    `sort.Slice` = stable insertion sort (equal to Go's result whenever the keys are distinct, and for up to 12
    elements, where Go uses insertion sort itself).
  * the three schema literals are the generated tables (harness/cmd/dropped/tables.go reads them from the source).
-/
import PgVerif.Model.Remote
import PgVerif.Spec.Dropped
import PgVerif.Generated.Dropped
namespace PgVerif.Model
open PgVerif
open PgVerif.Spec (DroppedColumnInfo DroppedColumnsResult DroppedColumnData isPrefixB natBytes)

/-- dropped.go:schemaPGAttrDropped (PostgreSQL 16), …V15 (14–15), …V12 (12–13) -/
def schemaPGAttrDropped : List Column := mkSchema Generated.Dropped.schemaPGAttrDropped
def schemaPGAttrDroppedV15 : List Column := mkSchema Generated.Dropped.schemaPGAttrDroppedV15
def schemaPGAttrDroppedV12 : List Column := mkSchema Generated.Dropped.schemaPGAttrDroppedV12

/-- `row[key].(bool)`: value and ok -/
def drGetBool (row : Row) (key : String) : Option Bool :=
  match row.lookup (strBytes key) with
  | some (.bool b) => some b
  | _ => none

/-- `len(s) == 1 && strings.Contains(set, s)` for a set of distinct ASCII letters -/
def drOneOfBytes (set : List UInt8) (s : Bytes) : Bool :=
  match s with
  | [b] => set.contains b
  | _ => false

/-- dropped.go:drPlausibleAttrRow — attalign in "csid" and attstorage in "pemx" -/
def drPlausibleAttrRow (row : Row) : Bool :=
  drOneOfBytes [99, 115, 105, 100] (getString row "attalign") &&
  drOneOfBytes [112, 101, 109, 120] (getString row "attstorage")

def drAttrScore (rows : List Row) : Nat := (rows.filter drPlausibleAttrRow).length

/-- one turn of the loop of readAttrRowsWithDropped: `if score > bestScore { best, bestScore = rows, score }` -/
def drBetterRows (best : List Row × Nat) (rows : List Row) : List Row × Nat :=
  if drAttrScore rows > best.2 then (rows, drAttrScore rows) else best

/-- dropped.go:readAttrRowsWithDropped -/
def readAttrRowsWithDropped (rr : RowReader) (data : Bytes) : M (List Row) := do
  let r16 ← rr data schemaPGAttrDropped true
  let r15 ← rr data schemaPGAttrDroppedV15 true
  let r12 ← rr data schemaPGAttrDroppedV12 true
  pure (drBetterRows (drBetterRows (drBetterRows ([], 0) r16) r15) r12).1

def drIsDigit (b : UInt8) : Bool := 48 ≤ b && b ≤ 57

/-- the submatch of `^\.+pg\.dropped\.(\d+)\.+$` on `name` (`none` = no match) -/
def droppedDigits (name : Bytes) : Option Bytes :=
  let s1 := name.dropWhile (· == 46)
  if s1.length = name.length then none
  else if !Spec.pgDroppedLit.isPrefixOf s1 then none
  else
    let s2 := s1.drop 11
    let ds := s2.takeWhile drIsDigit
    let s3 := s2.drop ds.length
    if ds.isEmpty then none
    else if !s3.isEmpty && s3.all (· == 46) then some ds else none

/-- `fmt.Sprintf("dropped_%d", n)` -/
def droppedKey (n : Int) : Bytes := Spec.droppedPrefix ++ Spec.drDecInt n

/-- first byte of `getString(row, "attalign")`, 0 when empty -/
def drAlignByteOf (row : Row) : Nat :=
  match getString row "attalign" with
  | b :: _ => b.toNat
  | [] => 0

/-- the loop body of parseDroppedColumns -/
def droppedOfRow (tableNames : List (Nat × Bytes)) (row : Row) : Option DroppedColumnInfo :=
  match drGetBool row "attisdropped" with
  | some true =>
    let attnum := getInt row "attnum"
    if attnum ≤ 0 then none
    else
      let relid := getOID row "attrelid"
      let attname := getString row "attname"
      let typ := getOID row "atttypid"
      some { relOID := relid, tableName := (mapGet tableNames relid).getD [], attNum := attnum,
             originalName := match droppedDigits attname with
               | some ds => Spec.droppedPrefix ++ ds
               | none => [],
             droppedName := attname, typeOID := typ, typeName := typeName typ, attLen := getInt row "attlen",
             attAlign := drAlignByteOf row, attByVal := (drGetBool row "attbyval").getD false }
  | _ => none

def droppedLess (a b : DroppedColumnInfo) : Bool :=
  if a.relOID != b.relOID then a.relOID < b.relOID else a.attNum < b.attNum

def drInsertByRelNum (a : DroppedColumnInfo) : List DroppedColumnInfo → List DroppedColumnInfo
  | [] => [a]
  | b :: bs => if droppedLess b a then b :: drInsertByRelNum a bs else a :: b :: bs

/-- `sort.Slice(dropped, relid then attnum)` as a stable insertion sort -/
def drSortByRelNum (l : List DroppedColumnInfo) : List DroppedColumnInfo := l.foldr drInsertByRelNum []

/-- dropped.go:parseDroppedColumns -/
def parseDroppedColumns (rr : RowReader) (data : Bytes) (tableNames : List (Nat × Bytes)) : M (List DroppedColumnInfo) := do
  let rows ← readAttrRowsWithDropped rr data
  pure (drSortByRelNum (rows.filterMap (droppedOfRow tableNames)))

/-- the loop body of parseAllAttributes -/
def drAttrOfRow (relOID : Nat) (row : Row) : Option DroppedColumnInfo :=
  let relid := getOID row "attrelid"
  if relid ≠ relOID then none
  else
    let attnum := getInt row "attnum"
    if attnum ≤ 0 then none
    else
      let isDrop := (drGetBool row "attisdropped").getD false
      let attname := getString row "attname"
      let typ := getOID row "atttypid"
      some { relOID := relid, tableName := [], attNum := attnum,
             originalName := if isDrop then droppedKey attnum else attname,
             droppedName := attname, typeOID := typ, typeName := typeName typ, attLen := getInt row "attlen",
             attAlign := drAlignByteOf row, attByVal := (drGetBool row "attbyval").getD false }

def drInsertByAttNum (a : DroppedColumnInfo) : List DroppedColumnInfo → List DroppedColumnInfo
  | [] => [a]
  | b :: bs => if b.attNum < a.attNum then b :: drInsertByAttNum a bs else a :: b :: bs

/-- `sort.Slice(attrs, attnum)` as a stable insertion sort -/
def drSortByAttNum (l : List DroppedColumnInfo) : List DroppedColumnInfo := l.foldr drInsertByAttNum []

/-- dropped.go:parseAllAttributes -/
def parseAllAttributes (rr : RowReader) (data : Bytes) (relOID : Nat) : M (List DroppedColumnInfo) := do
  let rows ← readAttrRowsWithDropped rr data
  pure (drSortByAttNum (rows.filterMap (drAttrOfRow relOID)))

/-- dropped.go:buildColumnsWithDropped -/
def buildColumnsWithDropped (attrs : List DroppedColumnInfo) : List Column :=
  attrs.map fun a =>
    ⟨if a.originalName.isEmpty then droppedKey a.attNum else a.originalName, (a.typeOID : Int), a.attLen, a.attNum, a.attAlign⟩

/-- the first database called `dbName` in pg_database order (`dbOID == 0` cannot be a hit: ParsePGDatabase keeps
oids > 0 only) -/
def drFindDb (dbs : List DatabaseInfo) (dbName : Bytes) : Option DatabaseInfo := dbs.find? fun db => db.name == dbName

/-- `for _, t := range tablesByFilenode(tables) { tableNames[t.OID] = t.Name }` -/
def drTableNamesOf (π : MapOrder TableInfo) (tables : List (Nat × TableInfo)) : List (Nat × Bytes) :=
  (tablesOf π tables).foldl (fun m t => mapPut m t.oid t.name) []

/-- dropped.go:FindDroppedColumns (`none` = an error return) -/
def findDroppedColumns (rr : RowReader) (π : MapOrder TableInfo) (fs : Bytes → Option Bytes) (dbName : Bytes) :
    M (Option DroppedColumnsResult) :=
  match fs pathGlobal1262 with
  | none => pure none
  | some dbData => do
    let dbs ← parsePGDatabase rr dbData
    match drFindDb dbs dbName with
    | none => pure none
    | some db =>
      match fs (basePath db.oid 1249) with
      | none => pure none
      | some attrData =>
        match fs (basePath db.oid 1259) with
        | none => pure none
        | some classData => do
          let tables ← parsePGClass rr classData
          let cols ← parseDroppedColumns rr attrData (drTableNamesOf π tables)
          pure (some { database := dbName, droppedCount := cols.length, columns := cols })

/-- the loop body of ScanDroppedColumns -/
def drScanOne (rr : RowReader) (π : MapOrder TableInfo) (fs : Bytes → Option Bytes) (db : DatabaseInfo) :
    M (Option DroppedColumnsResult) :=
  if isPrefixB (strBytes "template") db.name then pure none
  else do
    let r ← findDroppedColumns rr π fs db.name
    match r with
    | some res => pure (if res.droppedCount > 0 then some res else none)
    | none => pure none

/-- dropped.go:ScanDroppedColumns (`none` = the error of reading global/1262) -/
def scanDroppedColumns (rr : RowReader) (π : MapOrder TableInfo) (fs : Bytes → Option Bytes) :
    M (Option (List DroppedColumnsResult)) :=
  match fs pathGlobal1262 with
  | none => pure none
  | some dbData => do
    let dbs ← parsePGDatabase rr dbData
    let rs ← collectM (drScanOne rr π fs) dbs
    pure (some rs)

/-- the first relation called `tableName` in filenode order (fix 02) -/
def drFindTable (π : MapOrder TableInfo) (tables : List (Nat × TableInfo)) (tableName : Bytes) : Option TableInfo :=
  (tablesOf π tables).find? fun t => t.name == tableName

/-- dropped.go:GetDroppedColumnSchema -/
def getDroppedColumnSchema (rr : RowReader) (π : MapOrder TableInfo) (fs : Bytes → Option Bytes)
    (dbName tableName : Bytes) : M (Option (List Column)) :=
  match fs pathGlobal1262 with
  | none => pure none
  | some dbData => do
    let dbs ← parsePGDatabase rr dbData
    match drFindDb dbs dbName with
    | none => pure none
    | some db =>
      match fs (basePath db.oid 1259) with
      | none => pure none
      | some classData => do
        let tables ← parsePGClass rr classData
        match drFindTable π tables tableName with
        | none => pure none
        | some t =>
          if t.oid = 0 then pure none
          else
            match fs (basePath db.oid 1249) with
            | none => pure none
            | some attrData => do
              let attrs ← parseAllAttributes rr attrData t.oid
              pure (some (buildColumnsWithDropped attrs))

/-- dropped.go:RecoverDroppedColumnData -/
def recoverDroppedColumnData (rr : RowReader) (π : MapOrder TableInfo) (fs : Bytes → Option Bytes)
    (dbName tableName : Bytes) (attNum : Int) : M (Option DroppedColumnData) :=
  match fs pathGlobal1262 with
  | none => pure none
  | some dbData => do
    let dbs ← parsePGDatabase rr dbData
    match drFindDb dbs dbName with
    | none => pure none
    | some db =>
      match fs (basePath db.oid 1259) with
      | none => pure none
      | some classData => do
        let tables ← parsePGClass rr classData
        match drFindTable π tables tableName with
        | none => pure none
        | some t =>
          match fs (basePath db.oid 1249) with
          | none => pure none
          | some attrData => do
            let allAttrs ← parseAllAttributes rr attrData t.oid
            match allAttrs.find? (fun c => c.attNum == attNum) with
            | none => pure none
            | some col =>
              match fs (basePath db.oid t.filenode) with
              | none => pure none
              | some tableData => do
                let rows ← rr tableData (buildColumnsWithDropped allAttrs) true
                let key := droppedKey attNum
                pure (some { column := col, values := rows.map fun row => (row.lookup key).getD .nil, rows })

end PgVerif.Model
