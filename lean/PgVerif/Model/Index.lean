/-
  Model of pgdump/index.go: ParseIndexFile, detectIndexType, parseIndexPage, the per-method special-space
  parsers, parseBTreeMeta / parseHashMeta / parseGINMeta, IndexType.String.
  One Lean function per Go function, same guards, same order of evaluation; every slice expression and index
  goes through the fault-aware primitives of Basic/Bytes (a Go panic = `.error fault`).

  This is the code after the fixes of /verif/fixes/index (01 … 09); the code before them is frozen in
  Model/IndexOrig.lean.

  Conventions
  * `IndexType` is the Go enum as a number: 0 unknown, 1 btree, 2 hash, 3 gist, 4 gin, 5 spgist, 6 brin.
  * `binary.LittleEndian.UintN(s[a:a+n])` is `uN n s a`: it faults exactly when `a+n > len s` (the model checks
    re-slicing against the length, Go against the capacity — see Basic/Bytes) and reads the same bytes.
  * `IndexType.String` and the flag-name lists are *generated tables* (Generated/Index.lean, obtained by executing
    the code); the rule "one name per set bit, in a fixed order" is checked by the table generator and the families.
  * `fmt.Sprintf("%X/%X", hi, lo)`: `fmtX` below is the documented behaviour of `%X` on unsigned integers.
-/
import PgVerif.Basic.Bytes
import PgVerif.Generated.Index
namespace PgVerif.Model.Index
open PgVerif

/-- IndexType.String -/
def typeString (t : Nat) : String :=
  match Generated.Index.typeNames.lookup t with
  | some s => s
  | none => Generated.Index.typeNameDefault

def flagTable (t : Nat) : List (Nat × String) := (Generated.Index.flagNames.lookup t).getD []

/-- the sequence of `if info.Flags&X != 0 { info.FlagStrings = append(info.FlagStrings, "X") }` statements -/
def flagStrings (t flags : Nat) : List String :=
  ((flagTable t).filter fun e => flags &&& e.1 != 0).map (·.2)

def hexDigitU (n : Nat) : Char := if n < 10 then Char.ofNat (48 + n) else Char.ofNat (55 + n)

def fmtXFuel : Nat → Nat → List Char → List Char
  | 0, _, acc => acc
  | fuel+1, n, acc => if n < 16 then hexDigitU n :: acc else fmtXFuel fuel (n / 16) (hexDigitU (n % 16) :: acc)

/-- `%X` of an unsigned integer below 2^256 -/
def fmtX (n : Nat) : String := String.ofList (fmtXFuel 64 n [])

/-- wal.go:FormatLSN — `fmt.Sprintf("%X/%X", lsn>>32, lsn&0xFFFFFFFF)` -/
def formatLSN (lsn : Nat) : String := fmtX (lsn >>> 32) ++ "/" ++ fmtX (lsn &&& 0xFFFFFFFF)

structure PageInfo where
  pageNumber : Nat
  indexType : Nat
  typeString : String
  isMeta : Bool := false
  isLeaf : Bool := false
  isRoot : Bool := false
  isDeleted : Bool := false
  flags : Nat := 0
  flagStrings : List String := []
  level : Nat := 0
  prevBlock : Nat := 0
  nextBlock : Nat := 0
  rightLink : Nat := 0
  itemCount : Int := 0
  freeSpace : Int := 0
  lsn : Nat := 0
  lsnStr : String := ""
deriving Repr, DecidableEq

inductive MetaInfo where
  | btree (magic version root level fastRoot fastLevel : Nat)
  | hash (magic version numBuckets maxBucket highMask lowMask ffactor ntuples : Nat)   -- ntuples: IEEE bits of NumTuples
  | gin (version head tail tailFreeSize nPendingPages nPendingHeapTuples nTotalPages nEntryPages nDataPages nEntries : Nat)
deriving Repr, DecidableEq

structure IndexInfo where
  type : Nat
  typeString : String
  totalPages : Nat
  metaInfo : Option MetaInfo
  levels : Nat
  rootPage : Nat
  pages : List PageInfo
deriving Repr, DecidableEq

/-! ### detectIndexType -/

def BTMaxCycleID : Nat := 0xFF7F

/-- the GIN test at the end of detectIndexType -/
def detectGIN (specialSize : Nat) (specialData : Bytes) : M Nat :=
  if specialSize ≥ 8 then do
    let flags ← uN 2 specialData 6
    if flags &&& 8 != 0 || flags &&& 1 != 0 || flags &&& 16 != 0 then pure 4
    else if specialSize = 8 ∧ flags &&& 0xFF00 = 0 then pure 4
    else pure 0
  else pure 0

/-- the B-tree test (cycle id range, meta magic when the META flag is set), falling through to the GIN test -/
def detectBTree (page : Bytes) (specialSize : Nat) (specialData : Bytes) : M Nat :=
  if specialSize ≥ 16 then do
    let cycleID ← uN 2 specialData 14
    let flags ← uN 2 specialData 12
    if cycleID ≤ BTMaxCycleID then
      if flags &&& 8 != 0 then do
        let magic ← uN 4 page 24
        if magic = 0x053162 then pure 1 else detectGIN specialSize specialData
      else pure 1
    else detectGIN specialSize specialData
  else detectGIN specialSize specialData

def detectIndexType (page : Bytes) : M Nat :=
  if page.length < 8192 then pure 0
  else do
    let special ← uN 2 page 16
    if special = 0 ∨ special ≥ 8192 then pure 0
    else do
      let specialSize := 8192 - special
      let specialData ← sliceFrom page special
      if specialSize ≥ 2 then do
        let pageID ← uN 2 page 8190
        if pageID = 0xFF80 then pure 2
        else if pageID = 0xFF81 then pure 3
        else if pageID = 0xFF82 then pure 5
        else if specialSize = 8 ∧ pageID ≥ 0xF091 ∧ pageID ≤ 0xF093 then pure 6
        else detectBTree page specialSize specialData
      else detectBTree page specialSize specialData

/-! ### per-method special-space parsers -/

def parseBTreePageSpecial (info : PageInfo) (special : Bytes) : M PageInfo :=
  if special.length < 16 then pure info
  else do
    let prev ← uN 4 special 0
    let next ← uN 4 special 4
    let level ← uN 4 special 8
    let flags ← uN 2 special 12
    pure { info with prevBlock := prev, nextBlock := next, level := level, flags := flags,
                     isLeaf := flags &&& 1 != 0, isRoot := flags &&& 2 != 0, isMeta := flags &&& 8 != 0,
                     isDeleted := flags &&& 4 != 0, flagStrings := info.flagStrings ++ flagStrings 1 flags }

def parseHashPageSpecial (info : PageInfo) (special : Bytes) : M PageInfo :=
  if special.length < 14 then pure info
  else do
    let prev ← uN 4 special 0
    let next ← uN 4 special 4
    let bucket ← uN 4 special 8
    let flags ← uN 2 special 12
    pure { info with prevBlock := prev, nextBlock := next, flags := flags, isMeta := flags &&& 8 != 0,
                     level := if flags &&& 2 != 0 then bucket else info.level,
                     itemCount := if flags &&& 4 != 0 then 0 else info.itemCount,      -- fix 09: a bitmap page holds no items
                     flagStrings := info.flagStrings ++ flagStrings 2 flags }

def parseGiSTPageSpecial (info : PageInfo) (special : Bytes) : M PageInfo :=
  if special.length < 16 then pure info
  else do
    let right ← uN 4 special 8
    let flags ← uN 2 special 12
    pure { info with rightLink := right, flags := flags, isLeaf := flags &&& 1 != 0, isDeleted := flags &&& 2 != 0,
                     flagStrings := info.flagStrings ++ flagStrings 3 flags }

def parseGINPageSpecial (info : PageInfo) (special : Bytes) : M PageInfo :=
  if special.length < 8 then pure info
  else do
    let right ← uN 4 special 0
    let maxOff ← uN 2 special 4
    let flags ← uN 2 special 6
    -- fix 09: maxoff is the item count of posting-tree pages only (`info.Flags&(GINData|GINCompressed) != 0`)
    pure { info with rightLink := right, flags := flags,
                     itemCount := if flags &&& 129 != 0 then (maxOff : Int) else info.itemCount, isLeaf := flags &&& 2 != 0,
                     isMeta := flags &&& 8 != 0, isDeleted := flags &&& 4 != 0,
                     flagStrings := info.flagStrings ++ flagStrings 4 flags }

def parseSPGiSTPageSpecial (info : PageInfo) (special : Bytes) : M PageInfo :=
  if special.length < 6 then pure info
  else do
    let flags ← uN 2 special 0
    pure { info with flags := flags, isLeaf := flags &&& 4 != 0, isMeta := flags &&& 1 != 0, isDeleted := flags &&& 2 != 0,
                     flagStrings := info.flagStrings ++ flagStrings 5 flags }

def parseBRINPageSpecial (info : PageInfo) (special : Bytes) : M PageInfo :=
  if special.length < 8 then pure info
  else do
    let flags ← uN 2 special 4
    let ty ← uN 2 special 6
    -- fix 09: a range-map page holds no items; fix 08: BRIN_EVACUATE_PAGE is named
    pure { info with flags := flags, isMeta := ty == 0xF091, itemCount := if ty == 0xF092 then 0 else info.itemCount,
                     flagStrings := info.flagStrings ++ flagStrings 6 flags }

/-! ### parseIndexPage -/

/-- fix 09, the end of parseIndexPage: `if info.IsMeta { info.ItemCount = 0 }` -/
def metaHasNoItems (info : PageInfo) : PageInfo := if info.isMeta then { info with itemCount := 0 } else info

def parseIndexPage (page : Bytes) (pageNum : Nat) (t : Nat) : M PageInfo :=
  let info0 : PageInfo := { pageNumber := pageNum, indexType := t, typeString := typeString t }
  if page.length < 8192 then pure info0
  else do
    let hi ← uN 4 page 0
    let lo ← uN 4 page 4
    let lsn := hi <<< 32 ||| lo
    let lower ← uN 2 page 12
    let upper ← uN 2 page 14
    let special ← uN 2 page 16
    let info : PageInfo :=
      { info0 with lsn := lsn, lsnStr := formatLSN lsn, freeSpace := (upper : Int) - (lower : Int),
                   itemCount := Int.tdiv ((lower : Int) - 24) 4 }
    if special < 8192 then do
      let specialData ← sliceFrom page special
      let info ← match t with
        | 1 => parseBTreePageSpecial info specialData
        | 2 => parseHashPageSpecial info specialData
        | 3 => parseGiSTPageSpecial info specialData
        | 4 => parseGINPageSpecial info specialData
        | 5 => parseSPGiSTPageSpecial info specialData
        | 6 => parseBRINPageSpecial info specialData
        | _ => pure info
      pure (metaHasNoItems info)
    else pure (metaHasNoItems info)

/-! ### metapages -/

def parseBTreeMeta (page : Bytes) : M (Option MetaInfo) :=
  if page.length < 8192 then pure none
  else do
    let special ← uN 2 page 16
    if special + 14 > 8192 then pure none
    else do
      let flags ← uN 2 page (special + 12)
      if flags &&& 8 == 0 then pure none
      else do
        let data ← sliceFrom page 24
        let magic ← uN 4 data 0
        if magic != 0x053162 then pure none
        else do
          let version ← uN 4 data 4
          let root ← uN 4 data 8
          let level ← uN 4 data 12
          let fastRoot ← uN 4 data 16
          let fastLevel ← uN 4 data 20
          pure (some (.btree magic version root level fastRoot fastLevel))

def parseHashMeta (page : Bytes) : M (Option MetaInfo) :=
  if page.length < 8192 then pure none
  else do
    let special ← uN 2 page 16
    if special + 14 > 8192 then pure none
    else do
      let flags ← uN 2 page (special + 12)
      if flags &&& 8 == 0 then pure none
      else do
        let data ← sliceFrom page 24
        let magic ← uN 4 data 0
        let version ← uN 4 data 4
        let maxBucket ← uN 4 data 24
        let highMask ← uN 4 data 28
        let lowMask ← uN 4 data 32
        let ffactor ← uN 2 data 16
        let ntuples ← uN 8 data 8
        pure (some (.hash magic version ((maxBucket + 1) % 2 ^ 32) maxBucket highMask lowMask ffactor ntuples))

def parseGINMeta (page : Bytes) : M (Option MetaInfo) :=
  if page.length < 8192 then pure none
  else do
    let special ← uN 2 page 16
    if special ≥ 8192 then pure none
    else do
      let specialData ← sliceFrom page special
      if specialData.length < 8 then pure none
      else do
        let flags ← uN 2 specialData 6
        if flags &&& 8 == 0 then pure none
        else do
          let data ← sliceFrom page 24
          let version ← uN 4 data 48
          let head ← uN 4 data 0
          let tail ← uN 4 data 4
          let tailFree ← uN 4 data 8
          let nPendingPages ← uN 4 data 12
          let nPendingHeapTuples ← uN 8 data 16
          let nTotalPages ← uN 4 data 24
          let nEntryPages ← uN 4 data 28
          let nDataPages ← uN 4 data 32
          let nEntries ← uN 8 data 40
          pure (some (.gin version head tail tailFree nPendingPages nPendingHeapTuples nTotalPages nEntryPages nDataPages nEntries))

/-! ### ParseIndexFile -/

/-- `for i := 0; i < info.TotalPages; i++ { page := data[i*PageSize : i*PageSize+PageSize]; … }`:
`n` pages still to do, `i` the current page number -/
def parsePages (data : Bytes) (t : Nat) : Nat → Nat → M (List PageInfo)
  | 0, _ => pure []
  | n+1, i => do
    let page ← slice data (i * 8192) (i * 8192 + 8192)
    let pi ← parseIndexPage page (i % 2 ^ 32) t
    let rest ← parsePages data t n (i + 1)
    pure (pi :: rest)

/-- the same loop walking the remaining suffix of the file (linear instead of quadratic time on `List`);
the compiled driver runs this one (`csimp` below: proved equal to `parsePages`) -/
def parsePagesFast (t : Nat) : Nat → Nat → Bytes → M (List PageInfo)
  | 0, _, _ => pure []
  | n+1, i, rest =>
    if (rest.drop 8191).isEmpty then throw .slice
    else do
      let pi ← parseIndexPage (rest.take 8192) (i % 2 ^ 32) t
      let r ← parsePagesFast t n (i + 1) (rest.drop 8192)
      pure (pi :: r)

def parsePagesImpl (data : Bytes) (t n i : Nat) : M (List PageInfo) :=
  parsePagesFast t n i (data.drop (i * 8192))

@[csimp] theorem parsePages_eq_impl : @parsePages = @parsePagesImpl := by
  funext data t n i
  induction n generalizing i with
  | zero => simp [parsePages, parsePagesImpl, parsePagesFast]
  | succ n ih =>
    unfold parsePagesImpl at ih ⊢
    unfold parsePages parsePagesFast
    by_cases h : i * 8192 + 8192 ≤ data.length
    · have he : ((data.drop (i * 8192)).drop 8191).isEmpty = false := by
        cases hd : (data.drop (i * 8192)).drop 8191 with
        | nil => have := congrArg List.length hd; simp at this; omega
        | cons x xs => rfl
      rw [slice_ok data (i * 8192) (i * 8192 + 8192) h (Nat.le_add_right _ _), he, ih (i + 1)]
      have e1 : (data.take (i * 8192 + 8192)).drop (i * 8192) = (data.drop (i * 8192)).take 8192 := by
        have e : i * 8192 + 8192 - i * 8192 = 8192 := by omega
        rw [List.drop_take, e]
      have e2 : (data.drop (i * 8192)).drop 8192 = data.drop ((i + 1) * 8192) := by
        have e : i * 8192 + 8192 = (i + 1) * 8192 := by omega
        rw [List.drop_drop, e]
      rw [e1, e2]; rfl
    · have he : ((data.drop (i * 8192)).drop 8191).isEmpty = true := by
        rw [List.isEmpty_iff]; apply List.eq_nil_of_length_eq_zero; simp; omega
      rw [he]
      unfold slice
      rw [if_pos (by omega)]; rfl

/-- the `switch info.Type` that fills Meta / RootPage / Levels -/
def parseMeta (t : Nat) (page0 : Bytes) : M (Option MetaInfo) :=
  match t with
  | 1 => parseBTreeMeta page0
  | 2 => parseHashMeta page0
  | 4 => parseGINMeta page0
  | _ => pure none

def metaRoot : Option MetaInfo → Nat
  | some (.btree _ _ root _ _ _) => root
  | _ => 0

def metaLevels : Option MetaInfo → Nat
  | some (.btree _ _ _ level _ _) => level
  | _ => 0

/-- `none` = the error return ("index file too small") -/
def parseIndexFile (data : Bytes) : M (Option IndexInfo) :=
  if data.length < 8192 then pure none
  else do
    let total := data.length / 8192
    let page0 ← slice data 0 8192
    let t ← detectIndexType page0
    let m ← parseMeta t page0
    let pages ← parsePages data t total 0
    pure (some { type := t, typeString := typeString t, totalPages := total, metaInfo := m,
                 levels := metaLevels m, rootPage := metaRoot m, pages := pages })

end PgVerif.Model.Index
