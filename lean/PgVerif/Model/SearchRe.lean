/-
  A small regular-expression engine for the pattern class used by the executable C15 families, in which Lean can
  evaluate matches itself and on which Go's `regexp` (RE2 syntax) agrees (checked case by case by the harness):

     pattern := flag* alt ( '|' alt )*            flag := "(?i)" | "(?-i)"   (the last one wins)
     alt     := '^'? atom* '$'?
     atom    := safe literal byte (A-Z a-z 0-9 and  _ - : / @ = , space)  |  '.'  |  '\d'  |  '[' x '-' y ']' (x ≤ y alphanumeric)

  over ASCII texts.  Everything else is rejected (`none`) — for the patterns the generators emit outside this grammar
  (a fixed list of syntactically invalid ones) that is also what `regexp.Compile` does.
  This is an *instance* of the `Regex` parameter; the C15 theorems hold for every instance.  Core Lean only.
-/
import PgVerif.Spec.Search
namespace PgVerif.Model.SearchRe
open PgVerif PgVerif.Spec.Search

inductive Atom where
  | lit (c : UInt8)
  | any
  | range (lo hi : UInt8)
  | digit
deriving Repr, Inhabited, DecidableEq

structure Alt where
  anchorL : Bool
  atoms : List Atom
  anchorR : Bool
deriving Repr, Inhabited, DecidableEq

structure Pat where
  ci : Bool
  alts : List Alt
deriving Repr, Inhabited, DecidableEq

def isAlnum (c : UInt8) : Bool := (48 ≤ c && c ≤ 57) || (65 ≤ c && c ≤ 90) || (97 ≤ c && c ≤ 122)
/-- literal bytes that mean themselves in RE2 syntax -/
def isSafe (c : UInt8) : Bool := isAlnum c || c == 95 || c == 45 || c == 58 || c == 47 || c == 64 || c == 61 || c == 44 || c == 32

def upperByte (c : UInt8) : UInt8 := if 97 ≤ c ∧ c ≤ 122 then c - 32 else c

def Atom.matches (ci : Bool) : Atom → UInt8 → Bool
  | .lit c, b => b == c || (ci && lowerByte b == lowerByte c)
  | .any, b => b != 10
  | .range lo hi, b =>
    (lo ≤ b && b ≤ hi) || (ci && ((lo ≤ lowerByte b && lowerByte b ≤ hi) || (lo ≤ upperByte b && upperByte b ≤ hi)))
  | .digit, b => 48 ≤ b && b ≤ 57

/-- the atoms match a prefix of the text -/
def matchPrefix (ci : Bool) : List Atom → Bytes → Bool
  | [], _ => true
  | _ :: _, [] => false
  | a :: as, b :: bs => a.matches ci b && matchPrefix ci as bs

def matchAnywhere (ci : Bool) (atoms : List Atom) : Bytes → Bool
  | [] => matchPrefix ci atoms []
  | b :: bs => matchPrefix ci atoms (b :: bs) || matchAnywhere ci atoms bs

def Alt.matches (ci : Bool) (a : Alt) (s : Bytes) : Bool :=
  match a.anchorL, a.anchorR with
  | true, true => a.atoms.length == s.length && matchPrefix ci a.atoms s
  | true, false => matchPrefix ci a.atoms s
  | false, true => a.atoms.length ≤ s.length && matchPrefix ci a.atoms (s.drop (s.length - a.atoms.length))
  | false, false => matchAnywhere ci a.atoms s

def Pat.matches (p : Pat) (s : Bytes) : Bool := p.alts.any fun a => a.matches p.ci s

/-! ### text of a pattern and its parser -/

def Atom.render : Atom → Bytes
  | .lit c => [c]
  | .any => [46]
  | .range lo hi => [91, lo, 45, hi, 93]
  | .digit => [92, 100]

def Alt.render (a : Alt) : Bytes :=
  (if a.anchorL then [94] else []) ++ a.atoms.flatMap Atom.render ++ (if a.anchorR then [36] else [])

def renderAlts : List Alt → Bytes
  | [] => []
  | [a] => a.render
  | a :: rest => a.render ++ 124 :: renderAlts rest

/-- "(?i)" when `ci`, nothing otherwise -/
def Pat.render (p : Pat) : Bytes := (if p.ci then ciPrefix else []) ++ renderAlts p.alts

/-- atoms up to the end of the alternative; `none` = not in the grammar -/
def parseAtoms : Nat → Bytes → Option (List Atom × Bool)
  | 0, _ => none
  | _+1, [] => some ([], false)
  | _+1, [36] => some ([], true)                                  -- '$' at the very end of the alternative
  | n+1, 46 :: rest => (parseAtoms n rest).map fun (as, r) => (.any :: as, r)
  | n+1, 92 :: 100 :: rest => (parseAtoms n rest).map fun (as, r) => (.digit :: as, r)
  | n+1, 91 :: lo :: 45 :: hi :: 93 :: rest =>
    if isAlnum lo && isAlnum hi && lo ≤ hi then (parseAtoms n rest).map fun (as, r) => (.range lo hi :: as, r) else none
  | n+1, c :: rest => if isSafe c then (parseAtoms n rest).map fun (as, r) => (.lit c :: as, r) else none

def parseAlt (s : Bytes) : Option Alt :=
  let (l, body) := match s with
    | 94 :: rest => (true, rest)
    | _ => (false, s)
  (parseAtoms (body.length + 1) body).map fun (as, r) => { anchorL := l, atoms := as, anchorR := r }

/-- split at every '|' -/
def splitBar : Bytes → List Bytes
  | [] => [[]]
  | c :: rest =>
    match splitBar rest with
    | [] => [[c]]
    | hd :: tl => if c == 124 then [] :: hd :: tl else (c :: hd) :: tl

/-- leading flag groups: "(?i)" sets, "(?-i)" clears -/
def parseFlags : Nat → Bool → Bytes → Bool × Bytes
  | 0, ci, s => (ci, s)
  | n+1, _, 40 :: 63 :: 105 :: 41 :: rest => parseFlags n true rest
  | n+1, _, 40 :: 63 :: 45 :: 105 :: 41 :: rest => parseFlags n false rest
  | _+1, ci, s => (ci, s)

def parsePat (s : Bytes) : Option Pat :=
  let (ci, body) := parseFlags s.length false s
  ((splitBar body).mapM parseAlt).map fun alts => { ci := ci, alts := alts }

/-- the instance of the `Regex` parameter used by the drivers -/
def litRegex : Regex := { compile := fun p => (parsePat p).map fun pat => pat.matches }

end PgVerif.Model.SearchRe
