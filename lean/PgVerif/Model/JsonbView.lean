/-
  Bridge between the model's Go values and the spec's views: a decoded `JV` read as a JSON
  document (`nil` is JSON null; `int(0)` and `float64` results are numbers).
-/
import PgVerif.Model.Jsonb
import PgVerif.Spec.Jsonb
import PgVerif.Basic.Canon
namespace PgVerif.Model
open PgVerif

/-- the number a `DecodeNumeric` result denotes (`none` for Go nil): for a ParseFloat result, the decimal its TEXT
denotes, read by the Spec's own reader `Spec.readDecimal` (a text outside the grammar denotes nothing) -/
def NumRes.toView : NumRes → Option Spec.NumView
  | .none => Option.none
  | .int0 => some (.exact false 0 0)
  | .fzero => some (.exact false 0 0)
  | .special .nan => some .nan
  | .special .pinf => some .pinf
  | .special .ninf => some .ninf
  | .num text => (Spec.readDecimal text).map fun r => .exact r.1 r.2.1 r.2.2

/-- the Go value `DecodeNumeric` returns, given strconv.ParseFloat (`pf`: text ↦ float64 bits) -/
def NumRes.toGo (pf : ParseFloat) : NumRes → GoVal
  | .none => .nil
  | .int0 => .int 0
  | .fzero => .f64 0
  | .special s => .f64 s.bits
  | .num text => .f64 (pf text)

mutual
def JV.toView : JV → Spec.JView
  | .nil => .null
  | .bool b => .bool b
  | .num r => (match r.toView with | some v => .num v | Option.none => .undecodable)
  | .str s => .str s
  | .arr xs => .arr (toViewList xs)
  | .obj kvs => .obj (toViewKvs kvs)
def toViewList : List JV → List Spec.JView
  | [] => []
  | x :: xs => x.toView :: toViewList xs
def toViewKvs : List (Bytes × JV) → List (Bytes × Spec.JView)
  | [] => []
  | (k, v) :: rest => (k, v.toView) :: toViewKvs rest
end

mutual
/-- the Go value `ParseJSONB` returns, given strconv.ParseFloat -/
def JV.toGo (pf : ParseFloat) : JV → GoVal
  | .nil => .nil
  | .bool b => .bool b
  | .num r => r.toGo pf
  | .str s => .str s
  | .arr xs => .arr (toGoList pf xs)
  | .obj kvs => .obj (toGoKvs pf kvs)
def toGoList (pf : ParseFloat) : List JV → List GoVal
  | [] => []
  | x :: xs => x.toGo pf :: toGoList pf xs
def toGoKvs (pf : ParseFloat) : List (Bytes × JV) → List (Bytes × GoVal)
  | [] => []
  | (k, v) :: rest => (k, v.toGo pf) :: toGoKvs pf rest
end

end PgVerif.Model

namespace PgVerif.Spec
open PgVerif

/-- a number as the Go value a correct tool returns: the float64 nearest to it -/
def NumView.toGo (v : NumView) : GoVal := .f64 v.bits

mutual
/-- the document as the Go value a correct tool returns; numbers are float64s (JSON numbers in Go) -/
def JView.toGo : JView → GoVal
  | .null => .nil
  | .bool b => .bool b
  | .num v => v.toGo
  | .str s => .str s
  | .arr xs => .arr (JView.toGoList xs)
  | .obj kvs => .obj (JView.toGoKvs kvs)
  | .undecodable => .nil
def JView.toGoList : List JView → List GoVal
  | [] => []
  | x :: xs => x.toGo :: JView.toGoList xs
def JView.toGoKvs : List (Bytes × JView) → List (Bytes × GoVal)
  | [] => []
  | (k, v) :: rest => (k, v.toGo) :: JView.toGoKvs rest
end

mutual
/-- a Go value with every integer read as the float64 of the same value (`float64(i)`, exact for the only integer
DecodeNumeric ever returns, `int(0)`): the number kinds `int` / `float64` are not part of "the decoded number" -/
def numAsF64 : GoVal → GoVal
  | .int i => .f64 (Txt.f64OfRat (decide (i < 0)) i.natAbs 1)
  | .arr xs => .arr (numAsF64List xs)
  | .obj kvs => .obj (numAsF64Kvs kvs)
  | v => v
def numAsF64List : List GoVal → List GoVal
  | [] => []
  | x :: xs => numAsF64 x :: numAsF64List xs
def numAsF64Kvs : List (Bytes × GoVal) → List (Bytes × GoVal)
  | [] => []
  | (k, v) :: rest => (k, numAsF64 v) :: numAsF64Kvs rest
end

end PgVerif.Spec
