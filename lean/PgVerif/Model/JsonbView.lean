/-
  Bridge between the model's Go values and the spec's views: a decoded `JV` read as a JSON
  document (`nil` is JSON null; `int(0)` and `float64` results are numbers).
-/
import PgVerif.Model.Jsonb
import PgVerif.Spec.Jsonb
namespace PgVerif.Model
open PgVerif

/-- the number a `DecodeNumeric` result denotes (`none` for Go nil) -/
def NumRes.toView : NumRes → Option Spec.NumView
  | .none => Option.none
  | .int0 => some (.exact false 0 0)
  | .special .nan => some .nan
  | .special .pinf => some .pinf
  | .special .ninf => some .ninf
  | .num neg mant exp => some (.exact neg mant exp)

mutual
def JV.toView : JV → Spec.JView
  | .nil => .null
  | .bool b => .bool b
  | .num r => (match r.toView with | some v => .num v | Option.none => .null)
  | .str s => .str s
  | .arr xs => .arr (toViewList xs)
  | .obj kvs => .obj (toViewKvs kvs)
def toViewList : List JV → List Spec.JView
  | [] => []
  | x :: xs => x.toView :: toViewList xs
def toViewKvs : List (Bytes × JV) → List (Bytes × Spec.JView)
  | [] => []
  | (k, v) :: rest => (k, v.toView) :: toViewKvs rest
end

end PgVerif.Model
