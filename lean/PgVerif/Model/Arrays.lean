/-
  Model of the array code of pgdump/types.go: the tables `arrayElemTypes` / `fixedLengths`, the array branch of
  `DecodeType`, `decodeArray` and `parseArrayElements` — as they are after the patches of /verif/fixes/arrays
  (01 dataoffset from the varlena start, 02 element alignment, 03 empty array, 04 int2vector[], 05 name[],
  06 'd'-aligned varlena elements, 07 header bounds, 08 element bounds, 09 allocation cap, 10 empty-string element).

  One Lean function per Go function, same guards, same order of evaluation; every slice expression and index
  goes through the fault-aware primitives of Basic/Bytes (a Go panic = `.error fault`).

  The element decoder — `DecodeType(elemBytes, elemOid)`, area `scalars` — is the parameter `dec`; a fault of
  `dec` is a Go panic inside it and aborts the whole array, as in Go.

  Conventions: `hdr&1`, `hdr>>1`, `u32>>2` are written `% 2`, `/ 2`, `/ 4` (same function on naturals).
  `int32` arithmetic that can wrap in the code (`total *= dim`) wraps here (`wrap32`).
  heap.go:typeAlign (called by decodeArray since patch 02) is transcribed case by case (`typeAlignSwitch`, then the
  array-type branch, then the default by length); `arrayElemTypes` is read from the Go source on every run;
  `Proofs/ArraysTables.lean` checks the tables against the graphs obtained by executing the code (Generated/Arrays.lean).
-/
import PgVerif.Basic.Canon
import PgVerif.Generated.Arrays
namespace PgVerif.Model.Arrays
open PgVerif

/-- the element decoder `DecodeType(data, elemOid)` -/
abbrev Dec := Bytes → Nat → M GoVal

/-- types.go:arrayElemTypes, read from the map literal in the current Go source by this area's harness
(package srctab → `Generated.Arrays.arrayElemTypes`, rewritten on every run).  `Model.Scalars` uses the copy its own area's
harness emits; `Props.C07.C07_tables` proves the two equal.  `Proofs/ArraysTables.lean` cross-checks the table against the
executed code (key set, element layout, element decoder) and against the Spec's pg_type rows. -/
def arrayElemTypes : List (Nat × Nat) := Generated.Arrays.arrayElemTypes

/-- types.go:fixedLengths -/
def fixedLengths : List (Nat × Nat) := [
  (16, 1), (18, 1), (21, 2), (23, 4), (20, 8), (26, 4),
  (700, 4), (701, 8), (1082, 4), (1114, 8), (1184, 8),
  (27, 6), (28, 4), (29, 4), (790, 8), (1083, 8),
  (829, 6), (774, 8), (2950, 16), (3220, 8),
  (600, 16), (601, 32), (603, 32), (628, 24), (718, 24),
  (1266, 12), (1186, 16), (19, 64)]

/-- heap.go:typeAlign, the `switch typID` (case by case, in source order); `none` = no case matched -/
def typeAlignSwitch (typID : Nat) : Option Nat :=
  if typID ∈ [20, 701, 1114, 1184, 1083, 790, 3220] then some 8        -- int8 float8 timestamp[tz] time money pg_lsn
  else if typID ∈ [600, 601, 603, 628, 718] then some 8                -- point lseg box line circle
  else if typID ∈ [1186, 1266] then some 8                             -- interval timetz
  else if typID ∈ [602, 604] then some 8                               -- path polygon
  else if typID ∈ [3926, 3908, 3910] then some 8                       -- int8range tsrange tstzrange
  else if typID ∈ [4533, 4534, 4536] then some 8                       -- tsmultirange tstzmultirange int8multirange (rows fix 08)
  else if typID ∈ [2970, 5038, 5069] then some 8                       -- txid_snapshot pg_snapshot xid8
  else if typID ∈ [6152, 6153, 6157, 2949, 5039, 271] then some 8      -- the array types of those six
  else if typID ∈ [23, 26, 700, 1082, 28, 29] then some 4              -- int4 oid float4 date xid cid
  else if typID ∈ [25, 1043, 1042, 17, 114, 3802, 142] then some 4     -- text varchar bpchar bytea json jsonb xml
  else if typID ∈ [1700, 869, 650] then some 4                         -- numeric inet cidr
  else if typID ∈ [1560, 1562, 3614, 3615, 4072] then some 4           -- bit varbit tsvector tsquery jsonpath
  else if typID ∈ [3904, 3906, 3912] then some 4                       -- int4range numrange daterange
  else if typID ∈ [21, 27] then some 2                                 -- int2 tid
  else if typID ∈ [829, 774] then some 4                               -- macaddr macaddr8
  else if typID ∈ [16, 18, 19, 2950] then some 1                       -- bool char name uuid
  else none

/-- heap.go:typeAlign with its self-call unrolled `fuel` times: the switch; else "an array type is 'd' aligned when its
element type is" (`typeAlign(elem, 0) == 8`); else the default by length -/
def typeAlignN : Nat → Nat → Int → Nat
  | 0, _, _ => 1
  | fuel+1, typID, length =>
    match typeAlignSwitch typID with
    | some a => a
    | none =>
      if (match arrayElemTypes.lookup typID with | some elem => typeAlignN fuel elem 0 == 8 | none => false) then 8
      else if length = -1 then 4
      else if length ≥ 8 then 8
      else if length ≥ 4 then 4
      else if length ≥ 2 then 2
      else 1

/-- heap.go:typeAlign.  The self-call is on an element oid of `arrayElemTypes`, none of which is an array oid
(`Proofs.Arrays.elem_not_array`), so the recursion ends after one step; fuel 3 is more than enough. -/
def typeAlign (typID : Nat) (length : Int) : Nat := typeAlignN 3 typID length

/-- what decodeArray derives from the element oid: `(elemLen, fixed, elemAlign)` -/
def elemLayout (elemOid : Nat) : Nat × Bool × Nat :=
  let lf : Nat × Bool := match fixedLengths.lookup elemOid with
    | some l => (l, true)
    | none => (0, false)
  let a := if lf.2 then typeAlign elemOid lf.1 else typeAlign elemOid (-1)
  let a := if elemOid ∈ [602, 604, 3926, 3908, 3910] then 8 else a
  (lf.1, lf.2, a)

/-- binary.go:align — `(offset + alignment - 1) &^ (alignment - 1)`; `alignment ≤ 1` returns offset -/
def alignGo (offset alignment : Nat) : Nat :=
  if alignment ≤ 1 then offset else andNot (offset + alignment - 1) (alignment - 1)

/-- `align(off+4, elemAlign) - 4`: alignment counted from the varlena start, 4 bytes before `raw` -/
def alignRel (off a : Nat) : Nat := alignGo (off + 4) a - 4

/-- binary.go:i32 -/
def i32At (raw : Bytes) (off : Nat) : M Int := do
  let v ← uN 4 raw off
  pure (toSigned 32 v)

/-- the result of an `int32` multiplication -/
def wrap32 (x : Int) : Int := toSigned 32 (ofSigned 32 x)

/-- `for i := int32(0); i < ndim; i++ { total *= i32(raw, 12+int(i)*4) }` (`n` = iterations left) -/
def dimsProduct (raw : Bytes) : Nat → Nat → Int → M Int
  | 0, _, total => pure total
  | n+1, i, total => do
    let d ← i32At raw (12 + i * 4)
    dimsProduct raw n (i + 1) (wrap32 (total * d))

/-- `nulls != nil && nulls[i/8]&(1<<(i%8)) == 0` -/
def nullAt (nulls : Option Bytes) (i : Nat) : M Bool :=
  match nulls with
  | none => pure false
  | some bm => do
    let b ← idx bm (i / 8)
    pure (b.toNat &&& (1 <<< (i % 8)) == 0)

/-- types.go:decodeVarlenaElem — a zero-length payload of a text-like type (text, varchar, bpchar, xml) is the empty
string, of bytea the string `\\x`; everything else goes to `DecodeType` -/
def decodeVarlenaElem (dec : Dec) (data : Bytes) (elemOid : Nat) : M GoVal :=
  if data.length = 0 then
    if elemOid = 25 ∨ elemOid = 1043 ∨ elemOid = 1042 ∨ elemOid = 142 then pure (.str [])
    else if elemOid = 17 then pure (.str [92, 120])
    else dec data elemOid
  else dec data elemOid

/-- one stored element at `off` (already aligned): `none` = `break`, `some (value, offset after it)` -/
def readElem (dec : Dec) (raw : Bytes) (elemOid elemLen : Nat) (fixed : Bool) (off : Nat) : M (Option (GoVal × Nat)) :=
  if fixed then
    if off + elemLen > raw.length then pure none
    else do
      let s ← slice raw off (off + elemLen)
      let v ← dec s elemOid
      pure (some (v, off + elemLen))
  else
    if off ≥ raw.length then pure none
    else do
      let hdr ← idx raw off
      if hdr.toNat % 2 = 1 then
        let n := hdr.toNat / 2
        if n < 1 ∨ off + n > raw.length then pure none
        else do
          let s ← slice raw (off + 1) (off + n)
          let v ← decodeVarlenaElem dec s elemOid
          pure (some (v, off + n))
      else
        if off + 4 > raw.length then pure none
        else do
          let w ← uN 4 raw off
          let n := w / 4
          if n < 4 ∨ off + n > raw.length then pure none
          else do
            let s ← slice raw (off + 4) (off + n)
            let v ← decodeVarlenaElem dec s elemOid
            pure (some (v, off + n))

/-- types.go:parseArrayElements — the loop `for i := 0; i < count; i++`; arguments: iterations left, `i`, `off`.
(`make([]interface{}, 0, min(count, len(raw)))` cannot fault: both operands are non-negative.) -/
def parseElems (dec : Dec) (raw : Bytes) (elemOid elemLen elemAlign : Nat) (fixed : Bool) (nulls : Option Bytes) :
    Nat → Nat → Nat → M (List GoVal)
  | 0, _, _ => pure []
  | n+1, i, off => do
    let isNull ← nullAt nulls i
    if isNull then
      let rest ← parseElems dec raw elemOid elemLen elemAlign fixed nulls n (i + 1) off
      pure (GoVal.nil :: rest)
    else
      let r ← readElem dec raw elemOid elemLen fixed (alignRel off elemAlign)
      match r with
      | none => pure []
      | some (v, off') =>
        let rest ← parseElems dec raw elemOid elemLen elemAlign fixed nulls n (i + 1) off'
        pure (v :: rest)

/-- `len(raw) >= 12 && i32(raw, 0) == 0` -/
def isEmptyArray (raw : Bytes) : M Bool :=
  if raw.length ≥ 12 then do
    let nd ← i32At raw 0
    pure (nd == 0)
  else pure false

/-- the part of decodeArray after the dimension count has been accepted -/
def decodeDims (dec : Dec) (raw : Bytes) (elemOid : Nat) (nd : Nat) : M GoVal :=
  if raw.length < 12 + nd * 8 then pure .nil
  else do
    let dataoff ← i32At raw 4
    let total ← dimsProduct raw nd 0 1
    if total ≤ 0 then pure .nil
    else
      let count := total.toNat
      let dataStart := 12 + nd * 8
      let lay := elemLayout elemOid
      if dataoff > 0 then
        let bitmapEnd := dataStart + (count + 7) / 8
        if bitmapEnd > raw.length ∨ dataoff - 4 < (bitmapEnd : Int) then pure .nil
        else do
          let bm ← slice raw dataStart bitmapEnd
          let es ← parseElems dec raw elemOid lay.1 lay.2.2 lay.2.1 (some bm) count 0 (dataoff - 4).toNat
          pure (.arr es)
      else do
        let es ← parseElems dec raw elemOid lay.1 lay.2.2 lay.2.1 none count 0 dataStart
        pure (.arr es)

/-- types.go:decodeArray; a nil slice is `.nil`, a (possibly empty) list is `.arr` -/
def decodeArray (dec : Dec) (raw : Bytes) (elemOid : Nat) : M GoVal := do
  let empty ← isEmptyArray raw
  if empty then pure (.arr [])
  else if raw.length < 20 then pure .nil
  else do
    let ndim ← i32At raw 0
    if ndim ≤ 0 ∨ ndim > 6 then pure .nil
    else decodeDims dec raw elemOid ndim.toNat

/-- types.go:DecodeType; `dec` also stands for `decodeScalar` on the oids that are not array types -/
def decodeType (dec : Dec) (data : Bytes) (oid : Nat) : M GoVal :=
  if data.length = 0 then pure .nil
  else
    match arrayElemTypes.lookup oid with
    | some elemOid => decodeArray dec data elemOid
    | none => dec data oid

end PgVerif.Model.Arrays
