/-
  Model of pgdump/secrets.go: ScanString (keyword pre-filter, then the detector), scanTable (stringification,
  8-character minimum, coordinates), ScanDatabaseDump / ScanDumpResult, containsIgnoreCase / bytesContains / bytesEqual.
  Core Lean only.

  Parameters: the detectors (trufflehog's `Keywords()` / `FromData`, `none` = FromData returned an error) and the
  scalar text `sh` (`%v`); `fmt.Sprintf("%v", cell)` for whole cells is `Spec.Search.fmtV` (documented fmt behaviour:
  `<nil>`, `[a b]`, `map[k:v …]` with sorted keys).  `strings.Contains` = `bytesContains` (same specification).
  After fix search/04 the cell text is `cellText(value)` = `%v` of the value with every `[]byte` replaced by the string
  of the same bytes; on the values of this file (`GoVal`: no `[]byte`) that is `%v` itself, i.e. `fmtV` — the model with
  `[]byte` values is Model/SearchBytes.lean.
  Rows are walked in `rowKeys` order (fix search/02; before it: Go's random map order — only the order of the
  findings depended on it, not the set).  After fix search/03 ScanString lower-cases `data` once and tests
  `bytesContains(dataLower, lowerASCII(kw))`; that is `containsIgnoreCase data kw` unfolded (sharing the lower-cased
  copy is not observable in a pure model; the allocation it saves is checked by family `secretbig`).
-/
import PgVerif.Model.Search
namespace PgVerif.Model.Secrets
open PgVerif PgVerif.Spec.Search PgVerif.Model.Search

/-- Go: bytesEqual -/
def bytesEqual : Bytes → Bytes → Bool
  | [], [] => true
  | a :: as, b :: bs => if a != b then false else bytesEqual as bs
  | _, _ => false                                   -- len(a) != len(b)

/-- the loop `for i := 0; i <= len(s)-len(substr); i++` with `n` iterations left, `s` = s[i:] -/
def containsLoop (substr : Bytes) : Nat → Bytes → Bool
  | 0, _ => false
  | n+1, s => if bytesEqual (s.take substr.length) substr then true else containsLoop substr n (s.drop 1)

/-- Go: bytesContains -/
def bytesContains (s substr : Bytes) : Bool :=
  if substr.length = 0 then true
  else if substr.length > s.length then false
  else containsLoop substr (s.length - substr.length + 1) s

/-- Go: the two lower-casing loops of containsIgnoreCase -/
def toLowerAscii (s : Bytes) : Bytes := s.map fun c => if c ≥ 65 && c ≤ 90 then c + 32 else c

/-- Go: containsIgnoreCase -/
def containsIgnoreCase (s substr : Bytes) : Bool := bytesContains (toLowerAscii s) (toLowerAscii substr)

/-- Go: ScanString, body of the loop over detectors -/
def scanWith (data : Bytes) (det : Detector) : List DetResult :=
  let hasKeyword := det.keywords.any fun kw => bytesContains data kw || containsIgnoreCase data kw
  if !hasKeyword && det.keywords.length > 0 then []        -- continue
  else match det.fromData data with
    | none => []                                            -- err != nil: continue
    | some found => found

/-- Go: ScanString -/
def scanString (dets : List Detector) (data : Bytes) : List DetResult := dets.flatMap (scanWith data)

/-- Go: scanTable, body of the loop over the columns of one row -/
def scanCell (dets : List Detector) (sh : GoVal → Bytes) (db tbl : Bytes) (rowIdx : Nat) (row : Row) (colName : Bytes) :
    List Finding :=
  let strVal := fmtV sh ((lookup colName row).getD .nil)
  if strVal.length < 8 then []                             -- too short to be a secret
  else (scanString dets strVal).map fun res =>
    { detector := res.detector, db := db, table := tbl, col := colName, row := rowIdx, raw := res.raw }

/-- Go: scanTable -/
def scanTable (dets : List Detector) (sh : GoVal → Bytes) (db : Bytes) (t : Table) : List Finding :=
  t.rows.zipIdx.flatMap fun ri => (rowKeys t.columns ri.1).flatMap (scanCell dets sh db t.name ri.2 ri.1)

/-- Go: ScanDatabaseDump -/
def scanDatabaseDump (dets : List Detector) (sh : GoVal → Bytes) (db : Database) : List Finding :=
  db.tables.flatMap (scanTable dets sh db.name)

/-- Go: ScanDumpResult -/
def scanDumpResult (dets : List Detector) (sh : GoVal → Bytes) (d : Dump) : List Finding :=
  d.flatMap (scanDatabaseDump dets sh)

end PgVerif.Model.Secrets
