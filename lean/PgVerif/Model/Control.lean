/-
  Model of pgdump/control.go (with the repairs of /verif/fixes/control applied: constant offsets for
  the settings and storage sections, checkpoint-tail xids in struct order, redo WAL file name from the
  stored timeline and segment size).  The code as it was before the repairs — including the two
  plausibility searches findConfigSection / findStorageSection — is modelled in Model/ControlOrig.lean.

  One Lean function per Go function, same guards, same order of evaluation.  `data[i]` on a byte is
  written as the 1-byte read `uN 1 data i` (fault kinds are only compared as "panic").
  Library behaviour modelled by small definitions: `fmt.Sprintf` with `%X`, `%08X`, `%d` (hex/decimal
  text), `time.Unix(s, 0).UTC()` (kept as the number of seconds; the driver renders it with a civil
  calendar function and the harness compares that with Go's formatting).
-/
import PgVerif.Basic.Bytes
namespace PgVerif.Model
open PgVerif

abbrev W32 := BitVec 32

/-! ### CRC-32C (control.go:366-396) -/

/-- inner loop of makeCRC32CTable: `if crc&1 != 0 { crc = (crc >> 1) ^ polynomial } else { crc >>= 1 }` -/
def crcTableStep (crc : W32) : W32 :=
  if crc &&& 1#32 != 0#32 then (crc >>> 1) ^^^ 0x82F63B78#32 else crc >>> 1

/-- `for j := 0; j < 8; j++` -/
def crcTableEntry (i : W32) : W32 :=
  crcTableStep (crcTableStep (crcTableStep (crcTableStep (crcTableStep (crcTableStep (crcTableStep (crcTableStep i)))))))

/-- makeCRC32CTable: `for i := uint32(0); i < 256; i++ { … table[i] = crc }` -/
def makeCRC32CTable : List W32 := (List.range 256).map fun i => crcTableEntry (BitVec.ofNat 32 i)

/-- loop body of verifyCRC32C: `crc = table[(crc^uint32(b))&0xFF] ^ (crc >> 8)` -/
def crcUpdate (table : List W32) (crc : W32) (b : UInt8) : W32 :=
  table.getD ((crc ^^^ BitVec.ofNat 32 b.toNat) &&& 0xFF#32).toNat 0#32 ^^^ (crc >>> 8)

def verifyCRC32C (data : Bytes) (expected : Nat) : Bool :=
  let table := makeCRC32CTable
  let crc := data.foldl (crcUpdate table) 0xFFFFFFFF#32
  (crc ^^^ 0xFFFFFFFF#32).toNat == expected

/-! ### text helpers (fmt.Sprintf) -/

def upperHexDigit (n : Nat) : Char := if n < 10 then Char.ofNat (48 + n) else Char.ofNat (55 + n)

def hexDigitsAux : Nat → Nat → List Char → List Char
  | 0, _, acc => acc
  | fuel+1, v, acc =>
    let acc := upperHexDigit (v % 16) :: acc
    if v / 16 = 0 then acc else hexDigitsAux fuel (v / 16) acc

/-- `%X` of an unsigned value below 2^64 -/
def fmtX (v : Nat) : String := String.ofList (hexDigitsAux 16 v [])

/-- `%08X` -/
def fmt08X (v : Nat) : String :=
  let ds := hexDigitsAux 16 v []
  String.ofList (List.replicate (8 - ds.length) '0' ++ ds)

/-- Go: formatLSN (named ctlFormatLSN here: the name Model.formatLSN is used by another area's model).
`high := uint32(lsn >> 32); low := uint32(lsn & 0xFFFFFFFF); Sprintf("%X/%X", high, low)` -/
def ctlFormatLSN (lsn : Nat) : String :=
  fmtX ((lsn >>> 32) % 2 ^ 32) ++ "/" ++ fmtX ((lsn &&& 0xFFFFFFFF) % 2 ^ 32)

/-- formatWALFilename (repaired): segments per xlogid = 2^32 / segSize; the two quotients are cast to uint32.
`segSize` is never 0 at the call site (a stored 0 was replaced by the 16 MiB default). -/
def formatWALFilename (lsn timeline segSize : Nat) : M String :=
  if segSize = 0 then throw .divZero
  else
    let perID := 0x100000000 / segSize
    let segNo := lsn / segSize
    if perID = 0 then throw .divZero
    else pure (fmt08X timeline ++ fmt08X ((segNo / perID) % 2 ^ 32) ++ fmt08X ((segNo % perID) % 2 ^ 32))

/-- DBState.String (the receiver is an int32) -/
def dbStateString (s : Int) : String :=
  if s = 0 then "starting up"
  else if s = 1 then "shut down"
  else if s = 2 then "shut down in recovery"
  else if s = 3 then "shutting down"
  else if s = 4 then "in crash recovery"
  else if s = 5 then "in archive recovery"
  else if s = 6 then "in production"
  else "unknown (" ++ toString s ++ ")"

def walLevelNames : List String := ["minimal", "replica", "logical"]

/-- `if walLevel >= 0 && walLevel < len(walLevelNames) { cf.WALLevel = walLevelNames[walLevel] }` (else "");
`walLevel` is `int(uint32)`, never negative -/
def walLevelName (n : Nat) : String := if n < walLevelNames.length then walLevelNames.getD n "" else ""

/-- inferPGVersion (with fixes/control/22: `switch catalogVersion { case 202406281: return 17 … case 201909212:
return 12 }` first — the catalog version of a released major decides, whatever the control version — then
`switch { case controlVersion >= 1201: return 0 …}`: any other catalog version under a control version of 12 or later
is unknown (0); older control versions are told by the control version) -/
def inferPGVersion (controlVersion catalogVersion : Nat) : Nat :=
  if catalogVersion = 202406281 then 17
  else if catalogVersion = 202307071 then 16
  else if catalogVersion = 202209061 then 15
  else if catalogVersion = 202107181 then 14
  else if catalogVersion = 202007201 then 13
  else if catalogVersion = 201909212 then 12
  else if controlVersion ≥ 1201 then 0
  else if controlVersion ≥ 1100 then 11
  else if controlVersion ≥ 1002 then 10
  else if controlVersion ≥ 960 then 9
  else 9

/-! ### ParseControlFile -/

structure ControlFile where
  pgControlVersion : Nat
  catalogVersionNo : Nat
  systemIdentifier : Nat
  state : Int
  stateString : String
  checkpointLSN : String
  redoLSN : String
  redoWALFile : String
  timeLineID : Nat
  prevTimeLineID : Nat
  fullPageWrites : Bool
  nextXIDEpoch : Nat
  nextXID : Nat
  nextOID : Nat
  nextMulti : Nat
  nextMultiOffset : Nat
  oldestXID : Nat
  oldestXIDDB : Nat
  oldestActiveXID : Nat
  oldestMulti : Nat
  oldestMultiDB : Nat
  oldestCommitTsXID : Nat
  newestCommitTsXID : Nat
  checkpointTime : Int
  walLevel : String
  walLogHints : Bool
  maxConnections : Int
  maxWorkerProcesses : Int
  maxWALSenders : Int
  maxPreparedXacts : Int
  maxLocksPerXact : Int
  trackCommitTS : Bool
  maxAlign : Nat
  blockSize : Nat
  blocksPerSeg : Nat
  walBlockSize : Nat
  walSegmentSize : Nat
  nameDataLen : Nat
  indexMaxKeys : Nat
  toastMaxChunk : Nat
  largeObjectChunk : Nat
  floatFormatOK : Bool
  dataChecksumsEnabled : Bool
  crc : Nat
  crcValid : Bool
  pgVersionMajor : Nat
deriving Repr, DecidableEq, Inhabited

/-- `floatVal == 1234567.0` on `math.Float64frombits(bits)`: exactly one bit pattern compares equal -/
def floatIs1234567 (bits : Nat) : Bool := bits == 0x4132D68700000000

/-- ParseControlFile; `none` = the error return -/
def parseControlFile (data : Bytes) : M (Option ControlFile) := do
  if data.length < 296 then return none
  let systemIdentifier ← uN 8 data 0
  let pgControlVersion ← uN 4 data 8
  let catalogVersionNo ← uN 4 data 12
  let pgVersionMajor := inferPGVersion pgControlVersion catalogVersionNo
  let state := toSigned 32 (← uN 4 data 16)
  let stateString := dbStateString state
  let checkpointLSN ← uN 8 data 32
  let redoLSN ← uN 8 data 40
  let timeLineID ← uN 4 data 48
  let prevTimeLineID ← uN 4 data 52
  let fullPageWrites := (← uN 1 data 56) != 0
  let nextXID ← uN 4 data 64
  let nextXIDEpoch ← uN 4 data 68
  let nextOID ← uN 4 data 72
  let nextMulti ← uN 4 data 76
  let nextMultiOffset ← uN 4 data 80
  let oldestXID ← uN 4 data 84
  let oldestXIDDB ← uN 4 data 88
  let oldestMulti ← uN 4 data 92
  let oldestMultiDB ← uN 4 data 96
  let cpTime := toSigned 64 (← uN 8 data 104)
  let oldestCommitTsXID ← uN 4 data 112
  let newestCommitTsXID ← uN 4 data 116
  let oldestActiveXID ← uN 4 data 120
  -- settings: constant offsets (PostgreSQL 12–16)
  let walLevelN ← uN 4 data 172
  let walLevel := walLevelName walLevelN
  let walLogHints := (← uN 1 data 176) != 0
  let maxConnections := toSigned 32 (← uN 4 data 180)
  let maxWorkerProcesses := toSigned 32 (← uN 4 data 184)
  let maxWALSenders := toSigned 32 (← uN 4 data 188)
  let maxPreparedXacts := toSigned 32 (← uN 4 data 192)
  let maxLocksPerXact := toSigned 32 (← uN 4 data 196)
  let trackCommitTS := (← uN 1 data 200) != 0
  -- storage parameters: constant offsets
  let maxAlign ← uN 4 data 204
  let floatFormatOK := floatIs1234567 (← uN 8 data 208)
  let blockSize ← uN 4 data 216
  let blocksPerSeg ← uN 4 data 220
  let walBlockSize ← uN 4 data 224
  let walSegmentSize ← uN 4 data 228
  let nameDataLen ← uN 4 data 232
  let indexMaxKeys ← uN 4 data 236
  let toastMaxChunk ← uN 4 data 240
  let largeObjectChunk ← uN 4 data 244
  let dataChecksumsEnabled := (← uN 4 data 252) != 0
  let blockSize := if blockSize = 0 then 8192 else blockSize
  let walBlockSize := if walBlockSize = 0 then 8192 else walBlockSize
  let walSegmentSize := if walSegmentSize = 0 then 16 * 1024 * 1024 else walSegmentSize
  let redoWALFile ← formatWALFilename redoLSN timeLineID walSegmentSize
  -- `if len(data) > crcOffset+4`
  let (crc, crcValid) ← (if data.length > 292 then do
      let crc ← uN 4 data 288
      let body ← sliceTo data 288
      pure (crc, verifyCRC32C body crc)
    else pure (0, false) : M (Nat × Bool))
  return some
    { pgControlVersion, catalogVersionNo, systemIdentifier, state, stateString,
      checkpointLSN := ctlFormatLSN checkpointLSN, redoLSN := ctlFormatLSN redoLSN, redoWALFile,
      timeLineID, prevTimeLineID, fullPageWrites, nextXIDEpoch, nextXID, nextOID, nextMulti, nextMultiOffset,
      oldestXID, oldestXIDDB, oldestActiveXID, oldestMulti, oldestMultiDB, oldestCommitTsXID, newestCommitTsXID,
      checkpointTime := cpTime, walLevel, walLogHints, maxConnections, maxWorkerProcesses, maxWALSenders,
      maxPreparedXacts, maxLocksPerXact, trackCommitTS, maxAlign, blockSize, blocksPerSeg, walBlockSize,
      walSegmentSize, nameDataLen, indexMaxKeys, toastMaxChunk, largeObjectChunk, floatFormatOK,
      dataChecksumsEnabled, crc, crcValid, pgVersionMajor }

/-- ReadControlFile: `readRegularFile(dataDir/global/pg_control)` (fixes/entry/02: os.Stat + IsRegular + os.ReadFile — on a
regular file the content os.ReadFile returns, on anything else an error like a missing file) as a file-system parameter; a read error
and a parse error are both the error return -/
def readControlFile (fs : String → Option Bytes) (dataDir : String) : M (Option ControlFile) :=
  match fs (dataDir ++ "/global/pg_control") with
  | none => pure none
  | some data => parseControlFile data

end PgVerif.Model
