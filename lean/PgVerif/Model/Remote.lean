/-
  Model of pgdump/remote.go (RemoteClient) — the tree after fixes/cluster/01..06 and 09 (Query reads through readTableRows):
    01 Tables() returns the relations in filenode order (was: map iteration order)
    02 DumpDatabase keeps only ordinary tables (relkind 'r'; was: every relkind)
    03 Table()/Database(): exact name first, then the first case-insensitive match in filenode / heap order
    04 QueryResult.String / formatDump print the columns in sorted order (text only; not modelled here)
    06 the cache is guarded by a mutex (no change of sequential behaviour, hence none here)

  The client's cache is explicit state (`Cache`), threaded through every method exactly where the Go code
  reads or writes it; the `…Cold` functions are the same computations without any cache.  C11_no_hidden_state
  relates the two.  `rr` = row reader, `fs` = the RemoteReader (`none` = error).  Credentials / pg_control
  results are other areas' business: `Summary` is modelled as far as databases and tables go.

  `strings.EqualFold` = `GoCase.goEqualFold` (Model/GoCase.lean: Go's function — ASCII fast path, invalid UTF-8, the
  `unicode.SimpleFold` orbits from Go's own table for all of Unicode); `fmt.Sscanf("%d")` on PG_VERSION as "optional sign, decimal digits".
-/
import PgVerif.Model.Cluster
namespace PgVerif.Model
open PgVerif
open PgVerif.Spec (ColumnInfo TableDump DatabaseDump DumpResult Options isPrefixB lowerB containsB natBytes)

abbrev RemoteReader := Bytes → Option Bytes

structure Cache where
  databases : List DatabaseInfo                               -- nil slice = []
  tables : List (Nat × List (Nat × TableInfo))                -- dbOID ↦ filenode ↦ TableInfo
  columns : List (Nat × List (Nat × List AttrInfo))           -- dbOID ↦ relation oid ↦ attributes
deriving Inhabited

def Cache.empty : Cache := ⟨[], [], []⟩

def isSpace (b : UInt8) : Bool := b == 32 || b == 9 || b == 10 || b == 11 || b == 12 || b == 13

/-- strings.TrimSpace on ASCII white space -/
def trimSpace (s : Bytes) : Bytes := ((s.dropWhile isSpace).reverse.dropWhile isSpace).reverse

def remDigitsVal (ds : Bytes) : Nat := ds.foldl (fun acc d => acc * 10 + (d.toNat - 48)) 0

/-- `fmt.Sscanf(s, "%d", &v)`: optional sign, then at least one decimal digit; anything else leaves 0 -/
def scanInt (s : Bytes) : Int :=
  let (neg, rest) := match s with
    | 45 :: r => (true, r)
    | 43 :: r => (false, r)
    | r => (false, r)
  let ds := rest.takeWhile fun b => 48 ≤ b && b ≤ 57
  if ds.isEmpty ∨ ds.length > 18 then 0 else if neg then -(remDigitsVal ds : Int) else (remDigitsVal ds : Int)

/-- remote.go:Version -/
def rcVersion (fs : RemoteReader) : Bytes :=
  match fs (strBytes "PG_VERSION") with
  | some d => trimSpace d
  | none => []

/-- the `version` field set by NewRemoteClient -/
def rcVersionInt (fs : RemoteReader) : Int :=
  match fs (strBytes "PG_VERSION") with
  | some d => scanInt (trimSpace d)
  | none => 0

/-! ### the two cached loaders -/

/-- what Databases() computes when nothing is cached -/
def databasesCold (rr : RowReader) (fs : RemoteReader) : M (List DatabaseInfo) :=
  match fs pathGlobal1262 with
  | some d => parsePGDatabase rr d
  | none => pure []

/-- remote.go:Databases -/
def rcDatabases (rr : RowReader) (fs : RemoteReader) (c : Cache) : M (List DatabaseInfo × Cache) :=
  if c.databases ≠ [] then pure (c.databases, c)
  else do
    let dbs ← databasesCold rr fs
    pure (dbs, { c with databases := dbs })

/-- what loadCatalog computes for one database: (tables, columns) -/
def catalogCold (rr : RowReader) (fs : RemoteReader) (dbOID : Nat) :
    M (List (Nat × TableInfo) × List (Nat × List AttrInfo)) :=
  match fs (basePath dbOID 1259) with
  | none => pure ([], [])
  | some classData => do
    let tables ← parsePGClass rr classData
    match fs (basePath dbOID 1249) with
    | none => pure (tables, [])
    | some attrData => do
      let cols ← parsePGAttribute rr attrData (rcVersionInt fs)
      pure (tables, cols)

/-- remote.go:loadCatalog followed by reading both cache entries -/
def rcCatalog (rr : RowReader) (fs : RemoteReader) (dbOID : Nat) (c : Cache) :
    M ((List (Nat × TableInfo) × List (Nat × List AttrInfo)) × Cache) :=
  match c.tables.lookup dbOID with
  | some t => pure ((t, (c.columns.lookup dbOID).getD []), c)
  | none => do
    let r ← catalogCold rr fs dbOID
    pure (r, { c with tables := (dbOID, r.1) :: c.tables, columns := (dbOID, r.2) :: c.columns })

/-! ### pure parts of the methods (functions of the loaded catalogs) -/

def insertByFilenode (a : TableInfo) : List TableInfo → List TableInfo
  | [] => [a]
  | b :: bs => if a.filenode ≤ b.filenode then a :: b :: bs else b :: insertByFilenode a bs

/-- fix 01: `sort.Slice(tables, filenode <)` (filenodes are the map's keys: distinct) -/
def sortByFilenode (l : List TableInfo) : List TableInfo := l.foldr insertByFilenode []

/-- remote.go:Tables on a loaded catalog: range over the map (order `π`), then sort -/
def tablesOf (π : MapOrder TableInfo) (tables : List (Nat × TableInfo)) : List TableInfo :=
  sortByFilenode ((π tables).map (·.2))

def equalFold (a b : Bytes) : Bool := GoCase.goEqualFold a b

/-- fix 03: exact match first, then the first case-insensitive match -/
def findByName {α} (name : α → Bytes) (l : List α) (n : Bytes) : Option α :=
  match l.find? (fun x => name x == n) with
  | some x => some x
  | none => l.find? (fun x => equalFold (name x) n)

def columnNamesOf (attrs : List AttrInfo) : List Bytes := (attrs.filter (·.num > 0)).map (·.name)

structure QueryOptions where
  columns : List Bytes := []
  limit : Int := 0
deriving Repr, Inhabited

/-- the projection loop of Query: `for _, col := range opts.Columns { if val, ok := row[col]; ok { newRow[col] = val } }` -/
def projectRow (cols : List Bytes) (row : Row) : Row :=
  cols.foldl (fun acc col => match row.lookup col with | some v => mapInsert acc col v | none => acc) []

/-- remote.go:Query on loaded columns (`table = none` is the nil pointer) -/
def queryWith (rr : RowReader) (fs : RemoteReader) (dbOID : Nat) (table : Option TableInfo)
    (attrs : List AttrInfo) (opts : Option QueryOptions) : M (List Row) :=
  match table with
  | none => pure []
  | some t =>
    if t.filenode = 0 then pure []
    else match fs (basePath dbOID t.filenode) with
      | none => pure []
      | some data => do
        let mcols : List Column := attrs.map fun a => ⟨a.name, a.typid, a.len, a.num, a.align⟩
        let rows ← readTableRows rr data mcols
        let rows := match opts with
          | some o => if o.columns.length > 0 then rows.map (projectRow o.columns) else rows
          | none => rows
        let rows := match opts with
          | some o => if o.limit > 0 ∧ (rows.length : Int) > o.limit then rows.take o.limit.toNat else rows
          | none => rows
        pure rows

/-- remote.go:DumpTable on loaded columns (the cache-free `dumpTableCold` of Model/RemoteCold.lean is what the theorems use; this
form is kept for `C10_total_dumpTableWith`) -/
def dumpTableWith (rr : RowReader) (fs : RemoteReader) (dbOID : Nat) (t : TableInfo) (attrs : List AttrInfo) : M TableDump := do
  let rows ← queryWith rr fs dbOID (some t) attrs none
  let cols : List ColumnInfo := (attrs.filter (·.num > 0)).map fun a => ⟨a.name, typeName a.typid, a.typid⟩
  pure { oid := t.oid, name := t.name, filenode := t.filenode, kind := t.kind, columns := cols, rows, rowCount := rows.length }

/-! ### methods with the cache threaded through -/

/-- remote.go:Database(name) -/
def rcDatabase (rr : RowReader) (fs : RemoteReader) (name : Bytes) (c : Cache) : M (Option DatabaseInfo × Cache) := do
  let (dbs, c) ← rcDatabases rr fs c
  pure (findByName (·.name) dbs name, c)

/-- remote.go:Tables(dbOID) -/
def rcTables (rr : RowReader) (π : MapOrder TableInfo) (fs : RemoteReader) (dbOID : Nat) (c : Cache) : M (List TableInfo × Cache) := do
  let ((t, _), c) ← rcCatalog rr fs dbOID c
  pure (tablesOf π t, c)

/-- remote.go:TablesByName -/
def rcTablesByName (rr : RowReader) (π : MapOrder TableInfo) (fs : RemoteReader) (dbName : Bytes) (c : Cache) :
    M (List TableInfo × Cache) := do
  let (db, c) ← rcDatabase rr fs dbName c
  match db with
  | some d => rcTables rr π fs d.oid c
  | none => pure ([], c)

/-- remote.go:Table(dbOID, name) -/
def rcTable (rr : RowReader) (π : MapOrder TableInfo) (fs : RemoteReader) (dbOID : Nat) (name : Bytes) (c : Cache) :
    M (Option TableInfo × Cache) := do
  let (ts, c) ← rcTables rr π fs dbOID c
  pure (findByName (·.name) ts name, c)

/-- remote.go:Columns(dbOID, tableOID) -/
def rcColumns (rr : RowReader) (fs : RemoteReader) (dbOID tableOID : Nat) (c : Cache) : M (List AttrInfo × Cache) := do
  let ((_, cols), c) ← rcCatalog rr fs dbOID c
  pure ((mapGet cols tableOID).getD [], c)

/-- remote.go:ColumnNames -/
def rcColumnNames (rr : RowReader) (fs : RemoteReader) (dbOID tableOID : Nat) (c : Cache) : M (List Bytes × Cache) := do
  let (attrs, c) ← rcColumns rr fs dbOID tableOID c
  pure (columnNamesOf attrs, c)

/-- remote.go:Query -/
def rcQuery (rr : RowReader) (fs : RemoteReader) (dbOID : Nat) (table : Option TableInfo) (opts : Option QueryOptions)
    (c : Cache) : M (List Row × Cache) :=
  match table with
  | none => pure ([], c)
  | some t =>
    if t.filenode = 0 then pure ([], c)
    else match fs (basePath dbOID t.filenode) with
      | none => pure ([], c)
      | some _ => do
        let (attrs, c) ← rcColumns rr fs dbOID t.oid c
        let rows ← queryWith rr fs dbOID (some t) attrs opts
        pure (rows, c)

/-- remote.go:QueryByName -/
def rcQueryByName (rr : RowReader) (π : MapOrder TableInfo) (fs : RemoteReader) (dbName tableName : Bytes)
    (opts : Option QueryOptions) (c : Cache) : M (List Row × Cache) := do
  let (db, c) ← rcDatabase rr fs dbName c
  match db with
  | none => pure ([], c)
  | some d => do
    let (t, c) ← rcTable rr π fs d.oid tableName c
    match t with
    | none => pure ([], c)
    | some t => rcQuery rr fs d.oid (some t) opts c

/-- remote.go:DumpTable -/
def rcDumpTable (rr : RowReader) (fs : RemoteReader) (dbOID : Nat) (t : TableInfo) (c : Cache) : M (TableDump × Cache) := do
  let (rows, c) ← rcQuery rr fs dbOID (some t) none c
  let (attrs, c) ← rcColumns rr fs dbOID t.oid c
  let cols : List ColumnInfo := (attrs.filter (·.num > 0)).map fun a => ⟨a.name, typeName a.typid, a.typid⟩
  pure ({ oid := t.oid, name := t.name, filenode := t.filenode, kind := t.kind, columns := cols, rows, rowCount := rows.length }, c)

/-- the table loop of DumpDatabase with the cache threaded through -/
def rcDumpTables (rr : RowReader) (fs : RemoteReader) (dbOID : Nat) : List TableInfo → Cache → M (List TableDump × Cache)
  | [], c => pure ([], c)
  | t :: ts, c =>
    if isPrefixB (strBytes "pg_") t.name || isPrefixB (strBytes "sql_") t.name then rcDumpTables rr fs dbOID ts c
    else if t.kind != [114] && t.kind != [] then rcDumpTables rr fs dbOID ts c
    else do
      let (td, c) ← rcDumpTable rr fs dbOID t c
      let (rest, c) ← rcDumpTables rr fs dbOID ts c
      pure (if td.rows.length > 0 then td :: rest else rest, c)

/-- remote.go:DumpDatabase(dbOID) (`none` = nil: no such database) -/
def rcDumpDatabase (rr : RowReader) (π : MapOrder TableInfo) (fs : RemoteReader) (dbOID : Nat) (c : Cache) :
    M (Option DatabaseDump × Cache) := do
  let (dbs, c) ← rcDatabases rr fs c
  match dbs.find? (·.oid == dbOID) with
  | none => pure (none, c)
  | some db => do
    let (ts, c) ← rcTables rr π fs dbOID c
    let (tds, c) ← rcDumpTables rr fs dbOID ts c
    pure (some { oid := dbOID, name := db.name, tables := tds }, c)

/-- remote.go:DumpDatabaseByName -/
def rcDumpDatabaseByName (rr : RowReader) (π : MapOrder TableInfo) (fs : RemoteReader) (name : Bytes) (c : Cache) :
    M (Option DatabaseDump × Cache) := do
  let (db, c) ← rcDatabase rr fs name c
  match db with
  | some d => rcDumpDatabase rr π fs d.oid c
  | none => pure (none, c)

/-- the database loop of DumpAll -/
def rcDumpAllLoop (rr : RowReader) (π : MapOrder TableInfo) (fs : RemoteReader) : List DatabaseInfo → Cache → M (DumpResult × Cache)
  | [], c => pure ([], c)
  | db :: rest, c =>
    if isPrefixB (strBytes "template") db.name then rcDumpAllLoop rr π fs rest c
    else do
      let (d, c) ← rcDumpDatabase rr π fs db.oid c
      let (ds, c) ← rcDumpAllLoop rr π fs rest c
      pure (match d with | some d => d :: ds | none => ds, c)

/-- remote.go:DumpAll -/
def rcDumpAll (rr : RowReader) (π : MapOrder TableInfo) (fs : RemoteReader) (c : Cache) : M (DumpResult × Cache) := do
  let (dbs, c) ← rcDatabases rr fs c
  rcDumpAllLoop rr π fs dbs c

/-- the table lists Summary() collects: per non-template database its Tables() -/
def rcSummaryLoop (rr : RowReader) (π : MapOrder TableInfo) (fs : RemoteReader) :
    List DatabaseInfo → Cache → M (List (DatabaseInfo × List TableInfo) × Cache)
  | [], c => pure ([], c)
  | db :: rest, c =>
    if isPrefixB (strBytes "template") db.name then rcSummaryLoop rr π fs rest c
    else do
      let (ts, c) ← rcTables rr π fs db.oid c
      let (more, c) ← rcSummaryLoop rr π fs rest c
      pure ((db, ts) :: more, c)

/-- SummaryResult.MarshalJSON, the `databases` object: database name ↦ names of the ordinary tables that are
neither pg_* nor sql_* (a database without such a table has no key; two databases with one name share a key) -/
def summaryDatabases (rr : RowReader) (π : MapOrder TableInfo) (fs : RemoteReader) (c : Cache) :
    M (List (Bytes × List Bytes) × Cache) := do
  let (dbs, c) ← rcDatabases rr fs c
  let (per, c) ← rcSummaryLoop rr π fs dbs c
  let entries := per.map fun (db, ts) =>
    (db.name, (ts.filter fun t => !isPrefixB (strBytes "pg_") t.name && !isPrefixB (strBytes "sql_") t.name && t.kind == [114]).map (·.name))
  pure (entries.filter (fun e => e.2 ≠ []), c)

/-! ### cache-free versions (the meaning of each method) -/

def tablesCold (rr : RowReader) (π : MapOrder TableInfo) (fs : RemoteReader) (dbOID : Nat) : M (List TableInfo) := do
  let (t, _) ← catalogCold rr fs dbOID
  pure (tablesOf π t)

def columnsCold (rr : RowReader) (fs : RemoteReader) (dbOID tableOID : Nat) : M (List AttrInfo) := do
  let (_, cols) ← catalogCold rr fs dbOID
  pure ((mapGet cols tableOID).getD [])

/-! ### Exec: the command dispatch as a decision table -/

inductive ExecAction where
  | summary | version | control | creds | databases
  | tables (db : Bytes)
  | columns (db table : Bytes)
  | query (db table : Bytes)          -- with Limit 20
  | dumpDb (db : Bytes)
  | dumpAll
  | error (msg : Bytes)
deriving Repr, DecidableEq, Inhabited

/-- remote.go:Exec — which method (with which arguments) a command line runs -/
def exec (args : List Bytes) : ExecAction :=
  let cmd := args.headD []
  if cmd == [] || cmd == strBytes "summary" then .summary
  else if cmd == strBytes "version" then .version
  else if cmd == strBytes "control" then .control
  else if cmd == strBytes "creds" || cmd == strBytes "credentials" then .creds
  else if cmd == strBytes "dbs" || cmd == strBytes "databases" then .databases
  else if cmd == strBytes "tables" then
    if args.length < 2 then .error (strBytes "usage: tables <database>") else .tables (args.getD 1 [])
  else if cmd == strBytes "columns" then
    if args.length < 3 then .error (strBytes "usage: columns <database> <table>") else .columns (args.getD 1 []) (args.getD 2 [])
  else if cmd == strBytes "query" then
    if args.length < 3 then .error (strBytes "usage: query <database> <table>") else .query (args.getD 1 []) (args.getD 2 [])
  else if cmd == strBytes "dump" then
    if args.length ≥ 2 then .dumpDb (args.getD 1 []) else .dumpAll
  else .error (strBytes "unknown command: " ++ cmd)

end PgVerif.Model
