/-
  remote.go:Exec — the command line of the remote client RUN: `Model.exec` (Model/Remote.lean) decides which method a command
  word reaches with which arguments; `execRun` calls that method of the state-passing client model and wraps the result the
  way Exec wraps it into a `Result` (one constructor per Go result type).  Control() and Credentials() are other areas'
  business (C16, C14): their results are represented by the constructor only.  `Result.String()` (the text rendering) is not
  modelled.  Family `exec` compares the dynamic type and the content of what Exec returns with this model.
-/
import PgVerif.Model.RemoteCold
namespace PgVerif.Model
open PgVerif
open PgVerif.Spec (DatabaseDump DumpResult)

/-- what Exec returns: the Go result types of remote.go -/
inductive ExecOut where
  | summary (version : Bytes) (dbs : List (Bytes × List Bytes))   -- SummaryResult (version and the `databases` object of its JSON)
  | version (v : Bytes)                                            -- VersionResult
  | control                                                        -- ControlResult
  | creds                                                          -- CredsResult
  | databases (l : List DatabaseInfo)                              -- DatabasesResult
  | tables (l : List TableInfo)                                    -- TablesResult
  | columns (l : List AttrInfo)                                    -- ColumnsResult
  | query (rows : List Row)                                        -- QueryResult
  | dumpDb (d : Option DatabaseDump)                               -- DumpDatabaseResult
  | dumpAll (r : DumpResult)                                       -- DumpAllResult
  | error (msg : Bytes)                                            -- ErrorResult
deriving Inhabited

/-- remote.go:Exec with the client's cache threaded through -/
def execRun (rr : RowReader) (π : MapOrder TableInfo) (fs : RemoteReader) (args : List Bytes) (c : Cache) : M (ExecOut × Cache) :=
  match exec args with
  | .summary => do
    let (dbs, c) ← summaryDatabases rr π fs c
    pure (.summary (rcVersion fs) dbs, c)
  | .version => pure (.version (rcVersion fs), c)
  | .control => pure (.control, c)
  | .creds => pure (.creds, c)
  | .databases => do
    let (dbs, c) ← rcDatabases rr fs c
    pure (.databases dbs, c)
  | .tables db => do
    let (ts, c) ← rcTablesByName rr π fs db c
    pure (.tables ts, c)
  | .columns db table => do
    let (d, c) ← rcDatabase rr fs db c
    match d with
    | none => pure (.error (strBytes "database not found"), c)
    | some d => do
      let (t, c) ← rcTable rr π fs d.oid table c
      match t with
      | none => pure (.error (strBytes "table not found"), c)
      | some t => do
        let (attrs, c) ← rcColumns rr fs d.oid t.oid c
        pure (.columns attrs, c)
  | .query db table => do
    let (rows, c) ← rcQueryByName rr π fs db table (some { limit := 20 }) c
    pure (.query rows, c)
  | .dumpDb db => do
    let (d, c) ← rcDumpDatabaseByName rr π fs db c
    pure (.dumpDb d, c)
  | .dumpAll => do
    let (r, c) ← rcDumpAll rr π fs c
    pure (.dumpAll r, c)
  | .error msg => pure (.error msg, c)

/-- Exec without a cache -/
def execCold (rr : RowReader) (π : MapOrder TableInfo) (fs : RemoteReader) (args : List Bytes) : M ExecOut :=
  match exec args with
  | .summary => do return .summary (rcVersion fs) (← summaryDatabasesCold rr π fs)
  | .version => pure (.version (rcVersion fs))
  | .control => pure .control
  | .creds => pure .creds
  | .databases => do return .databases (← databasesCold rr fs)
  | .tables db => do
    match ← databaseCold rr fs db with
    | some d => do return .tables (← tablesCold rr π fs d.oid)
    | none => pure (.tables [])
  | .columns db table => do
    match ← databaseCold rr fs db with
    | none => pure (.error (strBytes "database not found"))
    | some d =>
      match ← tableCold rr π fs d.oid table with
      | none => pure (.error (strBytes "table not found"))
      | some t => do return .columns (← columnsCold rr fs d.oid t.oid)
  | .query db table => do return .query (← queryByNameCold rr π fs db table (some { limit := 20 }))
  | .dumpDb db => do
    match ← databaseCold rr fs db with
    | some d => do return .dumpDb (← dumpDatabaseCold rr π fs d.oid)
    | none => pure (.dumpDb none)
  | .dumpAll => do return .dumpAll (← dumpAllCold rr π fs)
  | .error msg => pure (.error msg)

end PgVerif.Model
