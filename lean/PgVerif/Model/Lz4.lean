/-
  Model of pgdump/toast.go:decompressLZ4.  Same representation as Model/Pglz: the remaining input
  `data[pos:]` stands for (`data`, `pos`); `out` is Go's `result`.  Core Lean only (driver path).
-/
import PgVerif.Model.Pglz
namespace PgVerif.Model.Lz4
open PgVerif PgVerif.Model.Pglz

/-- `for pos < len(data) { extra := int(data[pos]); pos++; n += extra; if extra != 255 { break } }` -/
def readExt : Bytes → Nat → Nat × Bytes
  | [], acc => (acc, [])
  | b :: rest, acc => if b.toNat != 255 then (acc + b.toNat, rest) else readExt rest (acc + 255)

/-- the main loop `for pos < len(data) && len(result) < rawSize`; `f` = iterations left;
`none` = the Go error return (invalid offset / offset too large) -/
def loop (raw : Nat) : Nat → Bytes → Bytes → M (Option Bytes)
  | 0, _, out => pure (some out)
  | f+1, data, out =>
    if data = [] ∨ ¬ out.length < raw then pure (some out)
    else match data with
      | [] => pure (some out)
      | token :: d1 =>
        let lit0 := token.toNat >>> 4
        let r := if lit0 = 15 then readExt d1 15 else (lit0, d1)
        let d2 := r.2
        -- `if pos+literalLen > len(data) { literalLen = len(data) - pos }`
        let litLen := if r.1 > d2.length then d2.length else r.1
        let out := out ++ d2.take litLen
        let d3 := d2.drop litLen
        if d3 = [] ∨ out.length ≥ raw then pure (some out)
        else match d3 with
          | o0 :: o1 :: d4 =>                         -- `if pos+2 > len(data) { break }` otherwise
            let offset := o0.toNat ||| (o1.toNat <<< 8)
            if offset = 0 then pure none
            else
              let ml0 := (token.toNat &&& 0x0F) + 4
              let r2 := if ml0 = 19 then readExt d4 19 else (ml0, d4)
              if offset > out.length then pure none
              else do
                let out ← copyLoopM (out.length - offset) offset raw r2.1 0 out
                loop raw f r2.2 out
          | _ => pure (some out)

/-- `loop` with the iteration budget made VISIBLE: the same loop, except that a budget used up while the Go loop condition
still holds is a fault (`.budget`) instead of a silent return (see `Pglz.decompressB`) -/
def loopB (raw : Nat) : Nat → Bytes → Bytes → M (Option Bytes)
  | 0, data, out => if data = [] ∨ ¬ out.length < raw then pure (some out) else throw .budget
  | f+1, data, out =>
    if data = [] ∨ ¬ out.length < raw then pure (some out)
    else match data with
      | [] => pure (some out)
      | token :: d1 =>
        let lit0 := token.toNat >>> 4
        let r := if lit0 = 15 then readExt d1 15 else (lit0, d1)
        let d2 := r.2
        let litLen := if r.1 > d2.length then d2.length else r.1
        let out := out ++ d2.take litLen
        let d3 := d2.drop litLen
        if d3 = [] ∨ out.length ≥ raw then pure (some out)
        else match d3 with
          | o0 :: o1 :: d4 =>
            let offset := o0.toNat ||| (o1.toNat <<< 8)
            if offset = 0 then pure none
            else
              let ml0 := (token.toNat &&& 0x0F) + 4
              let r2 := if ml0 = 19 then readExt d4 19 else (ml0, d4)
              if offset > out.length then pure none
              else do
                let out ← copyLoopM (out.length - offset) offset raw r2.1 0 out
                loopB raw f r2.2 out
          | _ => pure (some out)

/-! ### compiled code: the same loop over arrays (`@[csimp]`, proved equal) -/

def loopA (raw : Nat) : Nat → Bytes → Array UInt8 → M (Option (Array UInt8))
  | 0, _, out => pure (some out)
  | f+1, data, out =>
    if data = [] ∨ ¬ out.size < raw then pure (some out)
    else match data with
      | [] => pure (some out)
      | token :: d1 =>
        let lit0 := token.toNat >>> 4
        let r := if lit0 = 15 then readExt d1 15 else (lit0, d1)
        let d2 := r.2
        let litLen := if r.1 > d2.length then d2.length else r.1
        let out := out ++ (d2.take litLen).toArray
        let d3 := d2.drop litLen
        if d3 = [] ∨ out.size ≥ raw then pure (some out)
        else match d3 with
          | o0 :: o1 :: d4 =>
            let offset := o0.toNat ||| (o1.toNat <<< 8)
            if offset = 0 then pure none
            else
              let ml0 := (token.toNat &&& 0x0F) + 4
              let r2 := if ml0 = 19 then readExt d4 19 else (ml0, d4)
              if offset > out.size then pure none
              else do
                let out ← copyLoopMA (out.size - offset) offset raw r2.1 0 out
                loopA raw f r2.2 out
          | _ => pure (some out)

theorem loopA_eq (raw f : Nat) (data : Bytes) (out : Array UInt8) :
    (loopA raw f data out).map (fun r => r.map Array.toList) = loop raw f data out.toList := by
  induction f generalizing data out with
  | zero => rfl
  | succ f ih =>
    simp only [loopA, loop, Array.length_toList]
    split
    · rfl
    · rcases data with _ | ⟨token, d1⟩
      · rfl
      · simp only []
        generalize hr : (if token.toNat >>> 4 = 15 then readExt d1 15 else (token.toNat >>> 4, d1)) = r
        generalize hl : (if r.1 > r.2.length then r.2.length else r.1) = litLen
        have ho : (out ++ (List.take litLen r.2).toArray).toList = out.toList ++ List.take litLen r.2 := by simp
        have hs : (out ++ (List.take litLen r.2).toArray).size = (out.toList ++ List.take litLen r.2).length := by
          rw [← ho]; simp
        rw [hs]
        split
        · simp [Except.map, ho]
        · rcases hd : List.drop litLen r.2 with _ | ⟨o0, _ | ⟨o1, d4⟩⟩
          · simp [Except.map, ho]
          · simp [Except.map, ho]
          · simp only []
            split
            · rfl
            · split
              · rfl
              · rw [← ho]
                exact map_bind_copy _ _ _ _ _ _ _ _ _ (fun o => ih ..)

def loopFast (raw f : Nat) (data out : Bytes) : M (Option Bytes) :=
  (loopA raw f data out.toArray).map (fun r => r.map Array.toList)

@[csimp] theorem loop_eq_fast : @loop = @loopFast := by
  funext raw f data out
  simp [loopFast, loopA_eq]


/-- decompressLZ4; every iteration consumes the token byte, so `len(data)+1` iterations are enough -/
def decompressLZ4 (data : Bytes) (rawSize : Nat) : M (Option Bytes) :=
  if data.length < 1 then pure none
  else loop rawSize (data.length + 1) data []

end PgVerif.Model.Lz4
