/-
  Model of pgdump/toast.go:decompressLZ4.  Same representation as Model/Pglz: the remaining input
  `data[pos:]` stands for (`data`, `pos`); `out` is Go's `result`.  Core Lean only (driver path).
-/
import PgVerif.Model.Pglz
namespace PgVerif.Model.Lz4
open PgVerif PgVerif.Model.Pglz

/-- `for pos < len(data) { extra := int(data[pos]); pos++; n += extra; if extra != 255 { break } }` -/
def readExt : Bytes → Nat → Nat × Bytes
  | [], acc => (acc, [])
  | b :: rest, acc => if b.toNat != 255 then (acc + b.toNat, rest) else readExt rest (acc + 255)

/-- the main loop `for pos < len(data) && len(result) < rawSize`; `f` = iterations left;
`none` = the Go error return (invalid offset / offset too large) -/
def loop (raw : Nat) : Nat → Bytes → Bytes → M (Option Bytes)
  | 0, _, out => pure (some out)
  | f+1, data, out =>
    if data = [] ∨ ¬ out.length < raw then pure (some out)
    else match data with
      | [] => pure (some out)
      | token :: d1 =>
        let lit0 := token.toNat >>> 4
        let r := if lit0 = 15 then readExt d1 15 else (lit0, d1)
        let d2 := r.2
        -- `if pos+literalLen > len(data) { literalLen = len(data) - pos }`
        let litLen := if r.1 > d2.length then d2.length else r.1
        let out := out ++ d2.take litLen
        let d3 := d2.drop litLen
        if d3 = [] ∨ out.length ≥ raw then pure (some out)
        else match d3 with
          | o0 :: o1 :: d4 =>                         -- `if pos+2 > len(data) { break }` otherwise
            let offset := o0.toNat ||| (o1.toNat <<< 8)
            if offset = 0 then pure none
            else
              let ml0 := (token.toNat &&& 0x0F) + 4
              let r2 := if ml0 = 19 then readExt d4 19 else (ml0, d4)
              if offset > out.length then pure none
              else do
                let out ← copyLoopM (out.length - offset) offset raw r2.1 0 out
                loop raw f r2.2 out
          | _ => pure (some out)

/-- decompressLZ4; every iteration consumes the token byte, so `len(data)+1` iterations are enough -/
def decompressLZ4 (data : Bytes) (rawSize : Nat) : M (Option Bytes) :=
  if data.length < 1 then pure none
  else loop rawSize (data.length + 1) data []

end PgVerif.Model.Lz4
