/-
  Model of pgdump/jsonb.go:156-250 (decodeJNumeric, DecodeNumeric, decodeNumericShort,
  decodeNumericLong, computeNumeric) as repaired by fixes/numjson/01..03 and 09.

  The Go code returns a `float64` obtained as `strconv.ParseFloat(text, 64)` where `text` is the exact decimal
  text `[-]dddd…e<4·(weight−k+1)>` that computeNumeric builds from the base-10000 digits.  The model builds that
  text, byte for byte (`numericText`), and returns it inside `NumRes.num`: the value of the result is
  `ParseFloat(text)`.  `strconv.ParseFloat` itself is a PARAMETER (`pf : Bytes → Nat`, text ↦ IEEE-754 bits),
  applied by `NumRes.toGo pf` / `decodeNumericGo pf`; its documented contract (correct rounding of the decimal the
  text denotes) is stated in Spec/Numeric.lean (`ParseFloatOK`) and checked against the real strconv on every
  generated case (the driver instantiates `pf` with the executable reference `Spec.parseFloatRef`, the harness prints
  `math.Float64bits` of what pgread returns: bit-for-bit comparison, ±0 and int-vs-float kinds included).
  (Before fix 09: `result*10000 + d` per digit, then one multiplication or division by `math.Pow(10000, |e|)`, up to
  8 ulp off.)
-/
import PgVerif.Basic.Bytes
import PgVerif.Types.Text
namespace PgVerif.Model
open PgVerif

inductive Special where
  | nan | pinf | ninf
deriving Repr, DecidableEq, Inhabited

/-- what `DecodeNumeric` returns (a Go `interface{}`) -/
inductive NumRes where
  | none                                        -- Go `nil`
  | int0                                        -- Go `int(0)`: the `ndigits == 0` paths
  | fzero                                       -- Go `float64(0)`: computeNumeric's `len(digits) == 0` (unreachable)
  | special (s : Special)                       -- `math.NaN()`, `math.Inf(±1)`
  | num (text : Bytes)                          -- the float64 `strconv.ParseFloat(text, 64)` (error discarded)
deriving Repr, DecidableEq, Inhabited

/-- `byte('0'+d/1000), byte('0'+d/100%10), byte('0'+d/10%10), byte('0'+d%10)` (Go `byte(…)` truncates to 8 bits) -/
def digit4 (d : Nat) : Bytes :=
  [UInt8.ofNat (48 + d / 1000), UInt8.ofNat (48 + d / 100 % 10), UInt8.ofNat (48 + d / 10 % 10), UInt8.ofNat (48 + d % 10)]

/-- the text computeNumeric hands to strconv.ParseFloat: `-` if negative, four characters per base-10000 digit,
`e`, then `strconv.AppendInt(buf, int64(4*(weight-len(digits)+1)), 10)` -/
def numericText (digits : List Nat) (weight : Int) (neg : Bool) : Bytes :=
  (if neg then [45] else []) ++ digits.flatMap digit4 ++ [101] ++ Txt.decInt (4 * (weight - digits.length + 1))

/-- jsonb.go:computeNumeric.  `len(digits) == 0` returns `float64(0)`; a word that is not a base-10000 digit makes
the value corrupt: nil (fix 09; the loop returns at the first such word, whatever was appended before).  Otherwise
the decimal text is handed to strconv.ParseFloat and its value returned. -/
def computeNumeric (digits : List Nat) (weight : Int) (neg : Bool) : NumRes :=
  if digits.length == 0 then .fzero
  else if digits.any (fun d => decide (d ≥ 10000)) then .none
  else .num (numericText digits weight neg)

/-- `for i := 0; i < ndigits; i++ { digits[i] = int(u16(raw, base+i*2)) }`; `n` iterations left -/
def readDigits (raw : Bytes) (base : Nat) : Nat → Nat → M (List Nat)
  | 0, _ => pure []
  | n+1, i => do
    let d ← uN 2 raw (base + i * 2)
    let rest ← readDigits raw base n (i + 1)
    pure (d :: rest)

/-- the three fields `decodeNumericShort` takes from the header word -/
structure ShortFields where
  neg : Bool
  weight : Int
deriving Repr, DecidableEq

def shortHeaderFields (header : Nat) : ShortFields :=
  let w : Int := (header &&& 0x003F : Nat)
  ⟨header &&& 0x2000 != 0, if header &&& 0x0040 != 0 then w - 64 else w⟩

/-- jsonb.go:decodeNumericShort (caller guarantees `len(raw) ≥ 2`) -/
def decodeNumericShort (raw : Bytes) (header : Nat) : M NumRes := do
  let f := shortHeaderFields header
  let ndigits := (raw.length - 2) / 2
  if ndigits == 0 then return .int0
  let digits ← readDigits raw 2 ndigits 0
  return computeNumeric digits f.weight f.neg

/-- jsonb.go:decodeNumericLong — on-disk layout: n_sign_dscale u16, n_weight i16, digits from +4 -/
def decodeNumericLong (raw : Bytes) : M NumRes := do
  if raw.length < 4 then return .none
  let weight := toSigned 16 (← uN 2 raw 2)
  let h ← uN 2 raw 0
  let neg := (h &&& 0xC000) == 0x4000
  let ndigits := (raw.length - 4) / 2
  if ndigits == 0 then return .int0
  let digits ← readDigits raw 4 ndigits 0
  return computeNumeric digits weight neg

/-- classification of the special header words (as PostgreSQL's numeric_out) -/
def specialOf (header : Nat) : Special :=
  if header == 0xD000 then .pinf else if header == 0xF000 then .ninf else .nan

/-- jsonb.go:DecodeNumeric -/
def decodeNumeric (raw : Bytes) : M NumRes := do
  if raw.length < 2 then return .none
  let header ← uN 2 raw 0
  if (header &&& 0xC000) == 0xC000 then return .special (specialOf header)
  if header &&& 0x8000 != 0 then decodeNumericShort raw header
  else decodeNumericLong raw

/-- jsonb.go:decodeJNumeric — strips the varlena header (4-byte or 1-byte form) of a numeric
stored inside a JSONB document; a header that does not fit yields `DecodeNumeric(nil)` = nil -/
def decodeJNumeric (data : Bytes) : M NumRes := do
  if data.length < 4 then return .none
  let hdr ← uN 4 data 0
  if hdr &&& 3 == 0 then
    let n := hdr >>> 2
    if n > 4 ∧ data.length ≥ n then
      let content ← slice data 4 n
      decodeNumeric content
    else decodeNumeric []
  else
    let n := (hdr &&& 0xFF) >>> 1
    if n > 1 ∧ data.length ≥ n then
      let content ← slice data 1 n
      decodeNumeric content
    else decodeNumeric []

/-! ### the Go value: ParseFloat applied -/

/-- `strconv.ParseFloat(text, 64)` as a function from the text to the bits of the returned float64 (the error value
is discarded by computeNumeric).  A parameter of the model. -/
abbrev ParseFloat := Bytes → Nat

/-- bits of Go's `math.NaN()`, `math.Inf(1)`, `math.Inf(-1)` -/
def Special.bits : Special → Nat
  | .nan => 0x7FF8000000000001
  | .pinf => 0x7FF0000000000000
  | .ninf => 0xFFF0000000000000

end PgVerif.Model
