/-
  Model of pgdump/jsonb.go:156-250 (decodeJNumeric, DecodeNumeric, decodeNumericShort,
  decodeNumericLong, computeNumeric) as repaired by fixes/numjson/01..03 and 09.

  The Go code returns a `float64`.  Lean's `Float` is opaque to the kernel, so the model carries the
  number *exactly*: sign, integer mantissa `Σ dᵢ·10000^(k-1-i)` and base-10000 exponent
  `weight - k + 1` — i.e. what `computeNumeric` computes when every operation is exact.  The
  rounding of that value to a double (fix 09: one call of strconv.ParseFloat on the exact decimal text;
  before the fix `result*10000 + d` per digit, then one multiplication or division by
  `math.Pow(10000, |e|)`, up to 8 ulp off) is checked on the implementation side only (harness:
  math/big oracle) and is the documented partial aspect of C05.
-/
import PgVerif.Basic.Bytes
namespace PgVerif.Model
open PgVerif

inductive Special where
  | nan | pinf | ninf
deriving Repr, DecidableEq, Inhabited

/-- what `DecodeNumeric` returns (a Go `interface{}`) -/
inductive NumRes where
  | none                                        -- Go `nil`
  | int0                                        -- Go `int(0)`: the `ndigits == 0` paths
  | special (s : Special)                       -- `math.NaN()`, `math.Inf(±1)`
  | num (neg : Bool) (mant : Nat) (exp : Int)   -- the float64 nearest to ±mant·10000^exp (see header)
deriving Repr, DecidableEq, Inhabited

/-- `for _, d := range digits { result = result*10000 + float64(d) }` in exact arithmetic -/
def mantissa (digits : List Nat) : Nat := digits.foldl (fun r d => r * 10000 + d) 0

/-- jsonb.go:computeNumeric (exact).  `len(digits) == 0` returns `float64(0)`; a word that is not a
base-10000 digit makes the value corrupt: nil (fix 09).  Otherwise the decimal text
`<digits, 4 characters each>e<4·(weight-k+1)>` is handed to strconv.ParseFloat, whose documented
result is the float64 nearest to the decimal value: that value is what the model carries. -/
def computeNumeric (digits : List Nat) (weight : Int) (neg : Bool) : NumRes :=
  if digits.length == 0 then .num false 0 0
  else if digits.any (fun d => decide (d ≥ 10000)) then .none
  else .num neg (mantissa digits) (weight - digits.length + 1)

/-- `for i := 0; i < ndigits; i++ { digits[i] = int(u16(raw, base+i*2)) }`; `n` iterations left -/
def readDigits (raw : Bytes) (base : Nat) : Nat → Nat → M (List Nat)
  | 0, _ => pure []
  | n+1, i => do
    let d ← uN 2 raw (base + i * 2)
    let rest ← readDigits raw base n (i + 1)
    pure (d :: rest)

/-- the three fields `decodeNumericShort` takes from the header word -/
structure ShortFields where
  neg : Bool
  weight : Int
deriving Repr, DecidableEq

def shortHeaderFields (header : Nat) : ShortFields :=
  let w : Int := (header &&& 0x003F : Nat)
  ⟨header &&& 0x2000 != 0, if header &&& 0x0040 != 0 then w - 64 else w⟩

/-- jsonb.go:decodeNumericShort (caller guarantees `len(raw) ≥ 2`) -/
def decodeNumericShort (raw : Bytes) (header : Nat) : M NumRes := do
  let f := shortHeaderFields header
  let ndigits := (raw.length - 2) / 2
  if ndigits == 0 then return .int0
  let digits ← readDigits raw 2 ndigits 0
  return computeNumeric digits f.weight f.neg

/-- jsonb.go:decodeNumericLong — on-disk layout: n_sign_dscale u16, n_weight i16, digits from +4 -/
def decodeNumericLong (raw : Bytes) : M NumRes := do
  if raw.length < 4 then return .none
  let weight := toSigned 16 (← uN 2 raw 2)
  let h ← uN 2 raw 0
  let neg := (h &&& 0xC000) == 0x4000
  let ndigits := (raw.length - 4) / 2
  if ndigits == 0 then return .int0
  let digits ← readDigits raw 4 ndigits 0
  return computeNumeric digits weight neg

/-- classification of the special header words (as PostgreSQL's numeric_out) -/
def specialOf (header : Nat) : Special :=
  if header == 0xD000 then .pinf else if header == 0xF000 then .ninf else .nan

/-- jsonb.go:DecodeNumeric -/
def decodeNumeric (raw : Bytes) : M NumRes := do
  if raw.length < 2 then return .none
  let header ← uN 2 raw 0
  if (header &&& 0xC000) == 0xC000 then return .special (specialOf header)
  if header &&& 0x8000 != 0 then decodeNumericShort raw header
  else decodeNumericLong raw

/-- jsonb.go:decodeJNumeric — strips the varlena header (4-byte or 1-byte form) of a numeric
stored inside a JSONB document; a header that does not fit yields `DecodeNumeric(nil)` = nil -/
def decodeJNumeric (data : Bytes) : M NumRes := do
  if data.length < 4 then return .none
  let hdr ← uN 4 data 0
  if hdr &&& 3 == 0 then
    let n := hdr >>> 2
    if n > 4 ∧ data.length ≥ n then
      let content ← slice data 4 n
      decodeNumeric content
    else decodeNumeric []
  else
    let n := (hdr &&& 0xFF) >>> 1
    if n > 1 ∧ data.length ≥ n then
      let content ← slice data 1 n
      decodeNumeric content
    else decodeNumeric []

end PgVerif.Model
