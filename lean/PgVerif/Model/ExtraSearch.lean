/-
  Topic E9 — the wrappers of area `search` that /verif/C10_COVERAGE.md listed as "not modelled":

    search.go   QuickSearch (Search with `regexp.QuoteMeta(pattern)`, case-insensitive, IncludeRow), SearchSecrets
    secrets.go  ScanForSecrets (DumpDataDir + NewSecretScanner().ScanDumpResult)

  As in Model/Search.lean the directory walk is the parameter `dumped` (= the result of `DumpDataDir(dataDir, opts)`,
  `none` = its error); Props/C15Extra.lean plugs the cluster model in.  The regular-expression engine `R`, the scalar
  text `sh` and the detectors `dets` are the parameters of Model/Search.lean / Model/Secrets.lean.  Core Lean only.

  `regexp.QuoteMeta` is modelled exactly: it walks the BYTES of the string and puts a backslash before each of
  `\.+*?()|[]{}^$`.
-/
import PgVerif.Model.Secrets
namespace PgVerif.Model.Extra
open PgVerif PgVerif.Spec.Search PgVerif.Model.Search

/-- regexp: `special(b)` — the bytes ``\.+*?()|[]{}^$`` -/
def quoteMetaSpecial (b : UInt8) : Bool :=
  b == 92 || b == 46 || b == 43 || b == 42 || b == 63 || b == 40 || b == 41 || b == 124 ||
  b == 91 || b == 93 || b == 123 || b == 125 || b == 94 || b == 36

/-- regexp.QuoteMeta -/
def quoteMeta (s : Bytes) : Bytes := s.flatMap fun b => if quoteMetaSpecial b then [92, b] else [b]

/-- the options QuickSearch passes to Search -/
def quickOpts (pattern : Bytes) : Opts :=
  { pattern := quoteMeta pattern, caseSensitive := false, includeRow := true, maxResults := 0 }

/-- search.go:QuickSearch.  `dumped` = `DumpDataDir(dataDir, &Options{SkipSystemTables: true})`. -/
def quickSearch (R : Regex) (sh : GoVal → Bytes) (dumped : Option Dump) (pattern : Bytes) : Option (List SearchResult) :=
  search R sh dumped (some (quickOpts pattern))

/-- secrets.go:ScanForSecrets.  `dumped` = `DumpDataDir(dataDir, opts)`; `none` = the error return. -/
def scanForSecrets (dets : List Detector) (sh : GoVal → Bytes) (dumped : Option Dump) : Option (List Finding) :=
  match dumped with
  | none => none
  | some d => some (Secrets.scanDumpResult dets sh d)

/-- the SearchResult SearchSecrets makes of one finding.  `Finding` (Spec/Search.lean) keeps the detector type and the
raw secret of a detector result; the two further fields SearchSecrets copies into `Row` — `Redacted` and `Verified` —
are the parameters `red` / `ver` (functions of the finding; `Verified` is false for every result of ScanString, which
calls `FromData(ctx, false, …)`). -/
def secretHit (red : Finding → Bytes) (ver : Finding → Bool) (f : Finding) : SearchResult :=
  { database := f.db, table := f.table, column := f.col, rowNum := f.row, value := .str f.raw,
    row := some [(strBytes "detector", .str f.detector), (strBytes "redacted", .str (red f)), (strBytes "verified", .bool (ver f))] }

/-- search.go:SearchSecrets.  `dumped` = `DumpDataDir(dataDir, &Options{SkipSystemTables: true})`. -/
def searchSecrets (dets : List Detector) (sh : GoVal → Bytes) (red : Finding → Bytes) (ver : Finding → Bool)
    (dumped : Option Dump) : Option (List SearchResult) :=
  match scanForSecrets dets sh dumped with
  | none => none
  | some fs => some (fs.map (secretHit red ver))

/-! ### an executable instance of the `Regex` parameter for the patterns QuickSearch builds

`(?i)` (optional) followed by a QuoteMeta'd literal: the pattern matches a text iff the literal occurs in it
(case-insensitively under `(?i)`; ASCII case folding, which is Go's for ASCII literals and ASCII texts).  Any other
pattern is rejected.  Used by the driver family `extra`; the theorems hold for every `Regex`. -/

/-- undo QuoteMeta: `\x` (x special) ↦ x, a non-special byte ↦ itself; anything else is not a quoted literal -/
def unquoteMeta : Bytes → Option Bytes
  | [] => some []
  | b :: rest =>
    if b = 92 then
      match rest with
      | c :: rest' => if quoteMetaSpecial c then (unquoteMeta rest').map (c :: ·) else none
      | [] => none
    else if quoteMetaSpecial b then none else (unquoteMeta rest).map (b :: ·)

def litQuoteRegex : Regex where
  compile p :=
    let ci := ciPrefix.isPrefixOf p
    let body := if ci then p.drop ciPrefix.length else p
    match unquoteMeta body with
    | none => none
    | some lit => some fun text => if ci then occursIn (lower lit) (lower text) else occursIn lit text

end PgVerif.Model.Extra
