/-
  Model of the tree after fixes/rows/07 (REVIEW B13): pgdump.go's dump chain with the per-table row source as a
  parameter (dumpDataDirRows, dumpDatabaseFromFilesRows, dumpTable(…, rows)), and deleted.go's ScanAllDeletedRows /
  readDeletedTableRows on top of it.

  Go after the patch:      DumpDataDir(d, o)           = dumpDataDirRows(d, o, readTableRows)
                           DumpDatabaseFromFiles(…)    = dumpDatabaseFromFilesRows(…, readTableRows)
                           ScanAllDeletedRows(d, o)    = dumpDataDirRows(d, o, readDeletedTableRows)
  The functions below are Model/Cluster.lean's dumpTable / dumpOne / dumpDatabaseFromFiles / dumpDb / dumpDataDir with
  `readTableRows rr` replaced by the parameter `rows`, line for line; `Proofs/DeletedScan.lean` proves that with
  `rows := readTableRows rr` they ARE the functions of Model/Cluster.lean, so every theorem about DumpDataDir (C01, C11,
  C12) speaks about the patched code unchanged.

  `rr` = heap.go:ReadRows as used by the catalog parsers (a parameter, as in Model/Cluster.lean); `dec` = DecodeType
  as used by ReadDeletedRows (a parameter, as in Model/Rows.lean).
-/
import PgVerif.Model.Cluster
namespace PgVerif.Model
open PgVerif
open PgVerif.Spec (ColumnInfo TableDump DatabaseDump DumpResult Options isPrefixB)

/-- pgdump.go:rowSource — `func(data []byte, cols []Column) []map[string]interface{}` -/
abbrev RowSource := Bytes → List Column → M (List Row)

/-- pgdump.go:dumpTable with the row source as a parameter -/
def dumpTableRows (rows : RowSource) (filenode : Nat) (info : TableInfo) (attrs : List AttrInfo)
    (reader : Option FileReader) (opts : Options) : M TableDump :=
  let cols : List ColumnInfo := attrs.map fun a => ⟨a.name, typeName a.typid, a.typid⟩
  let t : TableDump := { oid := info.oid, name := info.name, filenode, kind := info.kind, columns := cols,
                         rows := [], rowCount := 0 }
  match (if opts.listOnly then none else reader) with
  | none => pure t
  | some rd =>
    match rd filenode with
    | none => pure t
    | some data =>
      if data.length = 0 then pure t
      else do
        let mcols : List Column := attrs.map fun a => ⟨a.name, a.typid, a.len, a.num, a.align⟩
        let rs ← rows data mcols
        pure { t with rows := rs, rowCount := rs.length }

def dumpOneRows (rows : RowSource) (tables : List (Nat × TableInfo)) (attrs : List (Nat × List AttrInfo))
    (reader : Option FileReader) (opts : Options) (filenode : Nat) : M (Option TableDump) :=
  match mapGet tables filenode with
  | none => pure none
  | some info =>
    if keepTable opts info then do
      let t ← dumpTableRows rows filenode info ((mapGet attrs info.oid).getD []) reader opts
      pure (some t)
    else pure none

/-- pgdump.go:dumpDatabaseFromFilesRows -/
def dumpDatabaseFromFilesRows (rr : RowReader) (rows : RowSource) (π : MapOrder TableInfo) (classData attrData : Bytes)
    (reader : Option FileReader) (opts : Options) : M (List TableDump) := do
  let tables ← parsePGClass rr classData
  let attrs ← parsePGAttribute rr attrData opts.pgVersion
  let filenodes := sortNat ((π tables).map (·.1))
  collectM (dumpOneRows rows tables attrs reader opts) filenodes

def dumpDbRows (rr : RowReader) (rows : RowSource) (π : MapOrder TableInfo) (fs : Bytes → Option Bytes) (opts : Options)
    (db : DatabaseInfo) : M (Option DatabaseDump) :=
  if isPrefixB (strBytes "template") db.name then pure none
  else if opts.dbFilter != [] && db.name != opts.dbFilter then pure none
  else
    let classData := (fs (basePath db.oid 1259)).getD []
    let attrData := (fs (basePath db.oid 1249)).getD []
    if classData.length = 0 then pure none
    else do
      let tables ← dumpDatabaseFromFilesRows rr rows π classData attrData (some fun fn => fs (basePath db.oid fn)) opts
      pure (some { oid := db.oid, name := db.name, tables })

/-- pgdump.go:dumpDataDirRows (`none` = the error of reading global/1262) -/
def dumpDataDirRows (rr : RowReader) (rows : RowSource) (π : MapOrder TableInfo) (fs : Bytes → Option Bytes) (opts : Options) :
    M (Option DumpResult) :=
  match fs pathGlobal1262 with
  | none => pure none
  | some dbData => do
    let dbs ← parsePGDatabase rr dbData
    let r ← collectM (dumpDbRows rr rows π fs opts) dbs
    pure (some r)

/-- deleted.go:readDeletedTableRows — the decoded rows ReadDeletedRows recovers; the empty row where it left Data nil
(a table without columns) -/
def readDeletedTableRows (dec : Dec) (data : Bytes) (cols : List Column) : M (List Row) := do
  let ds ← readDeletedRows dec data cols
  pure (ds.map fun d => d.data.getD [])

/-- deleted.go:ScanAllDeletedRows (fixes/rows/07) — the dump of the data directory whose rows are the deleted rows of
every table; the error of reading global/1262 is passed through (`none`) -/
def scanAllDeletedRows (rr : RowReader) (dec : Dec) (π : MapOrder TableInfo) (fs : Bytes → Option Bytes) (opts : Options) :
    M (Option DumpResult) :=
  dumpDataDirRows rr (readDeletedTableRows dec) π fs opts

end PgVerif.Model
