/-
  Model of pgdump/catalog.go: the fixed catalog schemas (taken from the generated tables — the model has
  no copy), ParsePGDatabase, ParsePGClass, ParsePGAttribute, readAttrRows (the tree after fixes/cluster/08:
  pg_attribute is read through the three real layouts of dropped.go, chosen by the version hint or, without
  one, by dropped.go's readAttrRowsWithDropped), getOID, getString, toInt.

  Everything is parametric in the row reader `rr` (heap.go:ReadRows, area `rows`): the functions here are
  the catalog logic ON TOP OF any row reader.  A row is an association list column name ↦ GoVal; by the
  schemas' typing an `oid` column holds nil or a `uint32` (`GoVal.int`), a `name`/`char` column nil or a
  string, an `int2` column nil or an `int16`.

  Go maps are association lists with unique keys (`mapPut` = Go's `m[k] = v`); every `range` over a map
  takes an explicit order parameter (see `MapOrder`).
-/
import PgVerif.Basic.Canon
import PgVerif.Model.Rows
import PgVerif.Generated.Cluster
namespace PgVerif.Model
open PgVerif

/-- heap.go:ReadRows(data, columns, visibleOnly) — a fault is a Go panic inside it -/
abbrev RowReader := Bytes → List Column → Bool → M (List Row)

structure DatabaseInfo where
  oid : Nat
  name : Bytes
deriving Repr, DecidableEq, Inhabited

structure TableInfo where
  oid : Nat
  filenode : Nat
  name : Bytes
  kind : Bytes
deriving Repr, DecidableEq, Inhabited

structure AttrInfo where
  name : Bytes
  typid : Int
  num : Int
  len : Int
  align : Nat
deriving Repr, DecidableEq, Inhabited

/-- a catalog schema literal `[]Column{{Name, TypID, Len}, …}` (Num and Align are left zero) -/
def mkSchema (s : List (String × Nat × Int)) : List Column :=
  s.map fun (n, t, l) => ⟨strBytes n, (t : Int), l, 0, 0⟩

def schemaPGDatabase : List Column := mkSchema Generated.Cluster.schemaPGDatabase
def schemaPGClass : List Column := mkSchema Generated.Cluster.schemaPGClass
/-- dropped.go:schemaPGAttrDropped (PostgreSQL 16), …V15 (14–15), …V12 (12–13): the three real pg_attribute layouts up
to attisdropped, as catalog.go:readAttrRows uses them (Model/Dropped.lean has the same three lists from its own
generated table; `Proofs.Cluster.catSchemas_eq_dropped` ties the two) -/
def catSchemaAttr16 : List Column := mkSchema Generated.Cluster.schemaPGAttrDropped
def catSchemaAttr14 : List Column := mkSchema Generated.Cluster.schemaPGAttrDroppedV15
def catSchemaAttr12 : List Column := mkSchema Generated.Cluster.schemaPGAttrDroppedV12

/-- catalog.go:getOID — `row[key].(uint32)` or 0 -/
def getOID (row : Row) (key : String) : Nat :=
  match row.lookup (strBytes key) with
  | some (.int i) => if 0 ≤ i ∧ i < 4294967296 then i.toNat else 0
  | _ => 0

/-- catalog.go:getString — `row[key].(string)` or "" -/
def getString (row : Row) (key : String) : Bytes :=
  match row.lookup (strBytes key) with
  | some (.str s) => s
  | _ => []

/-- binary.go:toInt(row[key]) — any integer kind, else 0 -/
def getInt (row : Row) (key : String) : Int :=
  match row.lookup (strBytes key) with
  | some (.int i) => i
  | _ => 0

/-- catalog.go:ParsePGDatabase — live rows with oid > 0 and a non-empty name, in heap order -/
def parsePGDatabase (rr : RowReader) (data : Bytes) : M (List DatabaseInfo) := do
  let rows ← rr data schemaPGDatabase true
  pure (rows.filterMap fun row =>
    let oid := getOID row "oid"
    let name := getString row "datname"
    if oid > 0 ∧ name ≠ [] then some ⟨oid, name⟩ else none)

/-- Go: `m[k] = v` on an association list with unique keys -/
def mapPut {β} (m : List (Nat × β)) (k : Nat) (v : β) : List (Nat × β) :=
  match m with
  | [] => [(k, v)]
  | (k', v') :: rest => if k' = k then (k, v) :: rest else (k', v') :: mapPut rest k v

def mapGet {β} (m : List (Nat × β)) (k : Nat) : Option β := m.lookup k

def classStep (m : List (Nat × TableInfo)) (row : Row) : List (Nat × TableInfo) :=
  let fn := getOID row "relfilenode"
  if fn > 0 then
    mapPut m fn ⟨getOID row "oid", fn, getString row "relname", getString row "relkind"⟩
  else m

/-- catalog.go:ParsePGClass — map filenode ↦ TableInfo over the live rows with relfilenode > 0
(a later row with the same filenode overwrites an earlier one) -/
def parsePGClass (rr : RowReader) (data : Bytes) : M (List (Nat × TableInfo)) := do
  let rows ← rr data schemaPGClass true
  pure (rows.foldl classStep [])

/-- `len(s) == 1 && strings.Contains(set, s)` for a set of distinct ASCII letters -/
def catOneOfBytes (set : List UInt8) (s : Bytes) : Bool :=
  match s with
  | [b] => set.contains b
  | _ => false

/-- dropped.go:plausibleAttrRow — attalign in "csid" and attstorage in "pemx" -/
def catPlausibleAttrRow (row : Row) : Bool :=
  catOneOfBytes [99, 115, 105, 100] (getString row "attalign") &&
  catOneOfBytes [112, 101, 109, 120] (getString row "attstorage")

def catAttrScore (rows : List Row) : Nat := (rows.filter catPlausibleAttrRow).length

/-- one turn of the loop of readAttrRowsWithDropped: `if score > bestScore { best, bestScore = rows, score }` -/
def catBetterRows (best : List Row × Nat) (rows : List Row) : List Row × Nat :=
  if catAttrScore rows > best.2 then (rows, catAttrScore rows) else best

/-- dropped.go:readAttrRowsWithDropped — the rows under the layout (16, 14–15, 12–13) with the most rows carrying a legal
attalign/attstorage pair; the first such layout on a tie, no rows when no layout has any (the same function as
`Model.readAttrRowsWithDropped` of Model/Dropped.lean) -/
def catReadAttrRowsAuto (rr : RowReader) (data : Bytes) : M (List Row) := do
  let r16 ← rr data catSchemaAttr16 true
  let r15 ← rr data catSchemaAttr14 true
  let r12 ← rr data catSchemaAttr12 true
  pure (catBetterRows (catBetterRows (catBetterRows ([], 0) r16) r15) r12).1

/-- catalog.go:readAttrRows (fixes/cluster/08) — the layout of the hinted version, or the automatic choice -/
def readAttrRows (rr : RowReader) (data : Bytes) (version : Int) : M (List Row) :=
  if version ≥ 16 then rr data catSchemaAttr16 true
  else if version ≥ 14 then rr data catSchemaAttr14 true
  else if version ≥ 12 then rr data catSchemaAttr12 true
  else catReadAttrRowsAuto rr data

/-- Go: `result[relid] = append(result[relid], a)` -/
def mapAppend {β} (m : List (Nat × List β)) (k : Nat) (v : β) : List (Nat × List β) :=
  match m with
  | [] => [(k, [v])]
  | (k', vs) :: rest => if k' = k then (k, vs ++ [v]) :: rest else (k', vs) :: mapAppend rest k v

def attrStep (m : List (Nat × List AttrInfo)) (row : Row) : List (Nat × List AttrInfo) :=
  let relid := getOID row "attrelid"
  let num := getInt row "attnum"
  if relid = 0 ∨ num ≤ 0 then m
  else
    let al := getString row "attalign"
    let alignByte : Nat := match al with | b :: _ => b.toNat | [] => 105
    mapAppend m relid ⟨getString row "attname", (getOID row "atttypid" : Int), num, getInt row "attlen", alignByte⟩

def insertByNum (a : AttrInfo) : List AttrInfo → List AttrInfo
  | [] => [a]
  | b :: bs => if a.num ≤ b.num then a :: b :: bs else b :: insertByNum a bs

/-- `sort.Slice(attrs, func(i, j) bool { return attrs[i].Num < attrs[j].Num })`, modelled as a stable insertion
sort: equal to Go's result whenever the attnums are distinct (any sort then gives the same list) and for
up to 12 elements (Go's insertion sort); `sort.Slice` is not stable beyond that -/
def sortByNum (as : List AttrInfo) : List AttrInfo := as.foldr insertByNum []

/-- catalog.go:ParsePGAttribute — map relation oid ↦ attributes with attnum > 0 sorted by attnum.
The final `for relid := range result { sort … }` sorts every entry in place: independent of the order -/
def parsePGAttribute (rr : RowReader) (data : Bytes) (pgVersion : Int) : M (List (Nat × List AttrInfo)) := do
  let rows ← readAttrRows rr data pgVersion
  pure ((rows.foldl attrStep []).map fun (k, as) => (k, sortByNum as))

end PgVerif.Model
