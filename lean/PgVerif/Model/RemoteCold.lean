/-
  The MEANING of the RemoteClient methods Query / DumpTable / DumpDatabase / DumpAll / Database / Table (remote.go): the same
  computations as the state-passing `rc*` models of Model/Remote.lean with every cache read replaced by the loader it
  memoises (`databasesCold`, `catalogCold`).  `Proofs/RemoteCold.lean` proves that a client with any consistent cache
  returns exactly these values (C11: no hidden state, extended from Databases / Tables / Columns to every method);
  `Props/C12Remote.lean` relates them to DumpDataDir and to the Spec.
-/
import PgVerif.Model.Remote
namespace PgVerif.Model
open PgVerif
open PgVerif.Spec (ColumnInfo TableDump DatabaseDump DumpResult Options isPrefixB)

/-- Database(name) without a cache -/
def databaseCold (rr : RowReader) (fs : RemoteReader) (name : Bytes) : M (Option DatabaseInfo) := do
  let dbs ← databasesCold rr fs
  pure (findByName (·.name) dbs name)

/-- Table(dbOID, name) without a cache -/
def tableCold (rr : RowReader) (π : MapOrder TableInfo) (fs : RemoteReader) (dbOID : Nat) (name : Bytes) : M (Option TableInfo) := do
  let ts ← tablesCold rr π fs dbOID
  pure (findByName (·.name) ts name)

/-- Query(dbOID, table, opts) without a cache: the columns are loaded only when the table has a file -/
def queryCold (rr : RowReader) (fs : RemoteReader) (dbOID : Nat) (table : Option TableInfo) (opts : Option QueryOptions) :
    M (List Row) :=
  match table with
  | none => pure []
  | some t =>
    if t.filenode = 0 then pure []
    else match fs (basePath dbOID t.filenode) with
      | none => pure []
      | some _ => do
        let attrs ← columnsCold rr fs dbOID t.oid
        queryWith rr fs dbOID (some t) attrs opts

/-- QueryByName without a cache -/
def queryByNameCold (rr : RowReader) (π : MapOrder TableInfo) (fs : RemoteReader) (dbName tableName : Bytes)
    (opts : Option QueryOptions) : M (List Row) := do
  match ← databaseCold rr fs dbName with
  | none => pure []
  | some d =>
    match ← tableCold rr π fs d.oid tableName with
    | none => pure []
    | some t => queryCold rr fs d.oid (some t) opts

/-- DumpTable(dbOID, table) without a cache -/
def dumpTableCold (rr : RowReader) (fs : RemoteReader) (dbOID : Nat) (t : TableInfo) : M TableDump := do
  let rows ← queryCold rr fs dbOID (some t) none
  let attrs ← columnsCold rr fs dbOID t.oid
  let cols : List ColumnInfo := (attrs.filter (·.num > 0)).map fun a => ⟨a.name, typeName a.typid, a.typid⟩
  pure { oid := t.oid, name := t.name, filenode := t.filenode, kind := t.kind, columns := cols, rows, rowCount := rows.length }

/-- the table loop of DumpDatabase without a cache: neither `pg_` nor `sql_` prefixed, relkind `r` (or unknown), at least
one row -/
def dumpTablesCold (rr : RowReader) (fs : RemoteReader) (dbOID : Nat) : List TableInfo → M (List TableDump)
  | [] => pure []
  | t :: ts =>
    if isPrefixB (strBytes "pg_") t.name || isPrefixB (strBytes "sql_") t.name then dumpTablesCold rr fs dbOID ts
    else if t.kind != [114] && t.kind != [] then dumpTablesCold rr fs dbOID ts
    else do
      let td ← dumpTableCold rr fs dbOID t
      let rest ← dumpTablesCold rr fs dbOID ts
      pure (if td.rows.length > 0 then td :: rest else rest)

/-- DumpDatabase(dbOID) without a cache -/
def dumpDatabaseCold (rr : RowReader) (π : MapOrder TableInfo) (fs : RemoteReader) (dbOID : Nat) : M (Option DatabaseDump) := do
  let dbs ← databasesCold rr fs
  match dbs.find? (·.oid == dbOID) with
  | none => pure none
  | some db => do
    let ts ← tablesCold rr π fs dbOID
    let tds ← dumpTablesCold rr fs dbOID ts
    pure (some { oid := dbOID, name := db.name, tables := tds })

/-- the database loop of DumpAll without a cache -/
def dumpAllLoopCold (rr : RowReader) (π : MapOrder TableInfo) (fs : RemoteReader) : List DatabaseInfo → M DumpResult
  | [] => pure []
  | db :: rest =>
    if isPrefixB (strBytes "template") db.name then dumpAllLoopCold rr π fs rest
    else do
      let d ← dumpDatabaseCold rr π fs db.oid
      let ds ← dumpAllLoopCold rr π fs rest
      pure (match d with | some d => d :: ds | none => ds)

/-- DumpAll() without a cache -/
def dumpAllCold (rr : RowReader) (π : MapOrder TableInfo) (fs : RemoteReader) : M DumpResult := do
  let dbs ← databasesCold rr fs
  dumpAllLoopCold rr π fs dbs

/-- the table lists Summary() collects, without a cache -/
def summaryLoopCold (rr : RowReader) (π : MapOrder TableInfo) (fs : RemoteReader) :
    List DatabaseInfo → M (List (DatabaseInfo × List TableInfo))
  | [] => pure []
  | db :: rest =>
    if isPrefixB (strBytes "template") db.name then summaryLoopCold rr π fs rest
    else do
      let ts ← tablesCold rr π fs db.oid
      let more ← summaryLoopCold rr π fs rest
      pure ((db, ts) :: more)

/-- the `databases` object of the Summary's JSON, without a cache -/
def summaryDatabasesCold (rr : RowReader) (π : MapOrder TableInfo) (fs : RemoteReader) : M (List (Bytes × List Bytes)) := do
  let dbs ← databasesCold rr fs
  let per ← summaryLoopCold rr π fs dbs
  let entries := per.map fun (db, ts) =>
    (db.name, (ts.filter fun t => !isPrefixB (strBytes "pg_") t.name && !isPrefixB (strBytes "sql_") t.name && t.kind == [114]).map (·.name))
  pure (entries.filter (fun e => e.2 ≠ []))

end PgVerif.Model
