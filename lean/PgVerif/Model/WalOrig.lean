/-
  The record / page loops of pgdump/wal.go BEFORE fixes/wal/04 and 05 (state of fixes 01..03): a record cut by
  the page end is parsed from the bytes left on its page (no block references), a record whose 24-byte header is
  split by the page end is not reported.  Kept for reference and for checking a tree on which the two patches
  are not applied yet (`parseWALFile` here vs `Model.Wal.parseWALFile`); no theorem is stated about it.
  Also GetRecentWALRecords BEFORE fixes/entry/01 (no clamp of a negative limit: it panics, see
  Props/C10/Wal.lean `C10_getRecentWALRecords_negative_limit_before_fix`).
  Everything else (record and block-reference parsers, names, directory functions) is shared with Model/Wal.lean.
-/
import PgVerif.Model.Wal
namespace PgVerif.Model.WalOrig
open PgVerif PgVerif.Model.Wal

/-- the record loop of parseWALPage: `for pos+24 <= len(data) { … }`, `fuel` iterations left;
`pageAddr` is the header's xlp_pageaddr (fixes/wal/01), the LSN is computed in uint64 -/
def recordLoop (data : Bytes) (pageAddr magic : Nat) : Nat → Nat → M (List Record)
  | 0, _ => pure []
  | fuel+1, pos =>
    if pos + 24 ≤ data.length then do
      let tail ← sliceFrom data pos
      if isZeroPadding tail then pure []
      else do
        let rc ← parseXLogRecord tail ((pageAddr + pos) % 2 ^ 64) magic
        if rc.2 == 0 then pure []
        else do
          let rest ← recordLoop data pageAddr magic fuel (align8 (pos + rc.2))
          pure (match rc.1 with
            | some r => r :: rest
            | none => rest)
    else pure []

/-- first record position: after the header and, on a continuation page, the rest of the previous record -/
def startPos (h : PageHeader) : Nat :=
  if h.info &&& 0x0001 != 0 && h.remLen > 0 then align8 (headerSize h.info + h.remLen) else headerSize h.info

/-- wal.go:parseWALPage — `none` = the error return (page skipped).  The `baseOffset`/`pageNum` parameters
of the Go function no longer influence the result and are dropped. -/
def parseWALPage (data : Bytes) : M (Option (List Record)) :=
  if data.length < 24 then pure none
  else do
    let h ← parsePageHeader data
    if !isValidMagic h.magic then pure none
    else do
      let recs ← recordLoop data h.pageAddr h.magic data.length (startPos h)
      pure (some recs)

/-- `for offset := 0; offset+WALPageSize <= len(data); offset += WALPageSize`, `fuel` iterations left -/
def pagesLoop (data : Bytes) : Nat → Nat → M (List Record)
  | 0, _ => pure []
  | fuel+1, off =>
    if off + 8192 ≤ data.length then do
      let pg ← slice data off (off + 8192)
      let r ← parseWALPage pg
      let rest ← pagesLoop data fuel (off + 8192)
      pure (r.getD [] ++ rest)
    else pure []

/-- wal.go:ParseWALFile — `none` = error ("WAL file too small") -/
def parseWALFile (data : Bytes) : M (Option (List Record)) :=
  if data.length < 40 then pure none
  else do
    let rs ← pagesLoop data (data.length / 8192 + 1) 0
    pure (some rs)

/-- wal.go:GetRecentWALRecords before fixes/entry/01: the limit is used as it comes -/
def getRecentWALRecords (dir : Dir) (limit : Int) : M (List Record) := recentFrom dir limit

end PgVerif.Model.WalOrig
