/-
  Topic E9 — the dataDir-taking wrappers of search.go / secrets.go composed with the cluster model: what
  `Search`, `QuickSearch`, `ScanForSecrets`, `SearchSecrets` compute FROM A FILE TREE.  Model/Search.lean and
  Model/ExtraSearch.lean take the dump as a parameter (`dumped`); here it is `DumpDataDir`'s model on the tree, with the
  order of evaluation of the Go code (Search compiles the pattern BEFORE it touches the directory, so nil options or an
  invalid pattern never reach DumpDataDir) and DumpDataDir's faults passed through.  Core Lean only.
-/
import PgVerif.Model.ExtraSearch
import PgVerif.Model.Cluster
namespace PgVerif.Model.Extra
open PgVerif PgVerif.Model
open PgVerif.Spec (DumpResult Options)

/-- a `*DumpResult` as search.go / secrets.go read it: names, declared column names, rows -/
def toSearchDump (r : DumpResult) : Spec.Search.Dump :=
  r.map fun d => { name := d.name, tables := d.tables.map fun t => { name := t.name, columns := t.columns.map (·.name), rows := t.rows } }

/-- `DumpDataDir(dataDir, opts)` as the search functions consume it (`none` = its error) -/
def dumpedBy (rr : RowReader) (π : MapOrder TableInfo) (fs : Bytes → Option Bytes) (o : Options) : M (Option Spec.Search.Dump) := do
  let r ← dumpDataDir rr π fs o
  pure (r.map toSearchDump)

/-- the options Search / QuickSearch / SearchSecrets dump with: `&Options{SkipSystemTables: true}` -/
def searchDumpOptions : Options := { skipSystem := true }

/-- search.go:Search on a file tree -/
def searchDir (R : Spec.Search.Regex) (sh : GoVal → Bytes) (rr : RowReader) (π : MapOrder TableInfo) (fs : Bytes → Option Bytes)
    (opts : Option Spec.Search.Opts) : M (Option (List Search.SearchResult)) :=
  match opts with
  | none => pure none                                       -- "search options required"
  | some o =>
    match R.compile (if !o.caseSensitive then Spec.Search.ciPrefix ++ o.pattern else o.pattern) with
    | none => pure none                                     -- "invalid pattern: …"
    | some _ => do
      let d ← dumpedBy rr π fs searchDumpOptions
      pure (Search.search R sh d (some o))

/-- search.go:QuickSearch on a file tree -/
def quickSearchDir (R : Spec.Search.Regex) (sh : GoVal → Bytes) (rr : RowReader) (π : MapOrder TableInfo) (fs : Bytes → Option Bytes)
    (pattern : Bytes) : M (Option (List Search.SearchResult)) :=
  searchDir R sh rr π fs (some (quickOpts pattern))

/-- secrets.go:ScanForSecrets on a file tree (`o` = the options after withDefaults) -/
def scanForSecretsDir (dets : List Spec.Search.Detector) (sh : GoVal → Bytes) (rr : RowReader) (π : MapOrder TableInfo)
    (fs : Bytes → Option Bytes) (o : Options) : M (Option (List Spec.Search.Finding)) := do
  let d ← dumpedBy rr π fs o
  pure (scanForSecrets dets sh d)

/-- search.go:SearchSecrets on a file tree -/
def searchSecretsDir (dets : List Spec.Search.Detector) (sh : GoVal → Bytes) (red : Spec.Search.Finding → Bytes)
    (ver : Spec.Search.Finding → Bool) (rr : RowReader) (π : MapOrder TableInfo) (fs : Bytes → Option Bytes) :
    M (Option (List Search.SearchResult)) := do
  let d ← dumpedBy rr π fs searchDumpOptions
  pure (searchSecrets dets sh red ver d)

end PgVerif.Model.Extra
