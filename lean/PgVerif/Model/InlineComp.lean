/-
  Model of the inline-compressed branch of types.go:ReadVarlena (fixes/rows/09): a 4-byte-header varlena whose header
  has the low bits 10 (VARATT_IS_4B_C) holds va_tcinfo (raw size in the low 30 bits, compression method in the top 2:
  0 pglz, 1 LZ4) and the compressed stream.  Shared by the models of area rows (Model.readVarlena) and area toast
  (Model.Toast.readVarlena), which both mirror the one Go function.  Core Lean only (driver path).
-/
import PgVerif.Model.Pglz
import PgVerif.Model.Lz4
namespace PgVerif.Model
open PgVerif

/-- the result check of the branch: `err != nil || len(out) != rawSize` → nil -/
def acceptRaw (rawSize : Nat) : Option Bytes → Option Bytes
  | some out => if out.length = rawSize then some out else none
  | none => none

/-- `data` = the varlena from its header on, `total` = its stored length (8 ≤ total ≤ len(data)):
`tcinfo := u32(data, 4)`, `stream := data[8:total]`, decompress by method, accept only exactly `rawSize` bytes -/
def inlineDecompress (data : Bytes) (total : Nat) : M (Option Bytes) := do
  let tcinfo ← uN 4 data 4
  let rawSize := tcinfo % 2 ^ 30
  let stream ← slice data 8 total
  let r ← (if tcinfo / 2 ^ 30 = 0 then Pglz.decompressPGLZ stream rawSize
           else if tcinfo / 2 ^ 30 = 1 then Lz4.decompressLZ4 stream rawSize
           else pure none)
  pure (acceptRaw rawSize r)

end PgVerif.Model
