/-
  Model of pgdump/control.go AS WRITTEN at the snapshot (before the repairs in /verif/fixes/control):
  findConfigSection / findStorageSection plausibility searches, the permuted checkpoint-tail xids,
  formatWALFilename with timeline 1 / 16 MiB / `segNo>>32`.  Kept to re-derive the defects A48–A51
  (family `control_orig`, run against the unrepaired tree) and for the witness theorems in Props/C16.
-/
import PgVerif.Model.Control
namespace PgVerif.Model.Orig
open PgVerif PgVerif.Model

/-- `for i := startOffset; i < len(data)-24 && i < 280; i += 4`, `n` iterations left -/
def findConfigLoop (data : Bytes) : Nat → Nat → M Nat
  | 0, _ => pure 0
  | n+1, i => do
    if (i : Int) < (data.length : Int) - 24 ∧ i < 280 then
      let val1 := toSigned 32 (← uN 4 data i)
      let val2 := toSigned 32 (← uN 4 data (i + 4))
      if val1 ≥ 1 ∧ val1 ≤ 10000 ∧ val2 ≥ 1 ∧ val2 ≤ 1000 then
        let val3 := toSigned 32 (← uN 4 data (i + 8))
        if val3 ≥ 0 ∧ val3 ≤ 1000 then return i
      findConfigLoop data n (i + 4)
    else pure 0

/-- at most (280 − start)/4 + 1 iterations -/
def findConfigSection (data : Bytes) (startOffset : Nat) : M Nat :=
  findConfigLoop data ((280 - startOffset) / 4 + 1) startOffset

/-- `for i := startOffset; i < len(data)-48 && i < 300; i += 4` -/
def findStorageLoop (data : Bytes) : Nat → Nat → M Nat
  | 0, _ => pure 0
  | n+1, i => do
    if (i : Int) < (data.length : Int) - 48 ∧ i < 300 then
      let val0 ← uN 4 data i
      let val1 ← uN 4 data (i + 8)
      let val3 ← uN 4 data (i + 16)
      if val0 = 8 ∧ val1 = 8192 ∧ val3 = 8192 then return i
      findStorageLoop data n (i + 4)
    else pure 0

def findStorageSection (data : Bytes) (startOffset : Nat) : M Nat :=
  findStorageLoop data ((300 - startOffset) / 4 + 1) startOffset

/-- formatWALFilename as written: 16 MiB, `uint32(segNo>>32), uint32(segNo)` -/
def formatWALFilename (lsn timeline : Nat) : String :=
  let segNo := lsn / (16 * 1024 * 1024)
  fmt08X timeline ++ fmt08X ((segNo >>> 32) % 2 ^ 32) ++ fmt08X (segNo % 2 ^ 32)

structure Config where
  maxConnections : Int := 0
  maxWorkerProcesses : Int := 0
  maxWALSenders : Int := 0
  maxPreparedXacts : Int := 0
  maxLocksPerXact : Int := 0
  walLevel : String := ""
  walLogHints : Bool := false
  trackCommitTS : Bool := false

structure Storage where
  maxAlign : Nat := 0
  blockSize : Nat := 0
  blocksPerSeg : Nat := 0
  walBlockSize : Nat := 0
  walSegmentSize : Nat := 0
  nameDataLen : Nat := 0
  indexMaxKeys : Nat := 0
  toastMaxChunk : Nat := 0
  largeObjectChunk : Nat := 0
  floatFormatOK : Bool := false
  dataChecksumsEnabled : Bool := false

/-- inferPGVersion as written before fixes/control/10: control version 1201 was taken for 13/14 and 1300 for 15/16 -/
def inferPGVersion (controlVersion catalogVersion : Nat) : Nat :=
  if controlVersion ≥ 1300 then (if catalogVersion ≥ 202307071 then 16 else 15)
  else if controlVersion ≥ 1201 then (if catalogVersion ≥ 202107181 then 14 else 13)
  else if controlVersion ≥ 1100 then (if catalogVersion ≥ 201909212 then 12 else 11)
  else if controlVersion ≥ 1002 then 10
  else if controlVersion ≥ 960 then 9
  else 9

/-- inferPGVersion between fixes/control/10 and fixes/control/22: BANDS of catalog versions under every control version
≥ 1201, the top band open-ended.  Kept only for `witness_R22` in Props/C16. -/
def inferPGVersionBands (controlVersion catalogVersion : Nat) : Nat :=
  if controlVersion ≥ 1201 then
    (if catalogVersion ≥ 202307071 then 16
     else if catalogVersion ≥ 202209061 then 15
     else if catalogVersion ≥ 202107181 then 14
     else if catalogVersion ≥ 202007201 then 13
     else 12)
  else if controlVersion ≥ 1100 then (if catalogVersion ≥ 201909212 then 12 else 11)
  else if controlVersion ≥ 1002 then 10
  else if controlVersion ≥ 960 then 9
  else 9

def parseControlFile (data : Bytes) : M (Option ControlFile) := do
  if data.length < 296 then return none
  let systemIdentifier ← uN 8 data 0
  let pgControlVersion ← uN 4 data 8
  let catalogVersionNo ← uN 4 data 12
  let pgVersionMajor := inferPGVersion pgControlVersion catalogVersionNo
  let state := toSigned 32 (← uN 4 data 16)
  let stateString := dbStateString state
  let checkpointLSN ← uN 8 data 32
  let redoLSN ← uN 8 data 40
  let redoWALFile := formatWALFilename redoLSN 1
  let timeLineID ← uN 4 data 48
  let prevTimeLineID ← uN 4 data 52
  let fullPageWrites := (← uN 1 data 56) != 0
  let nextXID ← uN 4 data 64
  let nextXIDEpoch ← uN 4 data 68
  let nextOID ← uN 4 data 72
  let nextMulti ← uN 4 data 76
  let nextMultiOffset ← uN 4 data 80
  let oldestXID ← uN 4 data 84
  let oldestXIDDB ← uN 4 data 88
  let oldestMulti ← uN 4 data 92
  let oldestMultiDB ← uN 4 data 96
  let cpTime := toSigned 64 (← uN 8 data 104)
  let oldestActiveXID ← uN 4 data 112
  let oldestCommitTsXID ← uN 4 data 116
  let newestCommitTsXID ← uN 4 data 120
  let configOffset ← findConfigSection data 180
  let cfg ← (if configOffset > 0 then do
      let maxConnections := toSigned 32 (← uN 4 data configOffset)
      let maxWorkerProcesses := toSigned 32 (← uN 4 data (configOffset + 4))
      let maxWALSenders := toSigned 32 (← uN 4 data (configOffset + 8))
      let maxPreparedXacts := toSigned 32 (← uN 4 data (configOffset + 12))
      let maxLocksPerXact := toSigned 32 (← uN 4 data (configOffset + 16))
      let walLevelN ← uN 4 data (configOffset - 8)
      let walLevel := walLevelName walLevelN
      let walLogHints := (← uN 1 data (configOffset - 4)) != 0
      let trackCommitTS := (← uN 1 data (configOffset + 20)) != 0
      pure { maxConnections, maxWorkerProcesses, maxWALSenders, maxPreparedXacts, maxLocksPerXact,
             walLevel, walLogHints, trackCommitTS }
    else pure {} : M Config)
  let storageOffset ← findStorageSection data 220
  let st ← (if storageOffset > 0 then do
      let maxAlign ← uN 4 data storageOffset
      let blockSize ← uN 4 data (storageOffset + 8)
      let blocksPerSeg ← uN 4 data (storageOffset + 12)
      let walBlockSize ← uN 4 data (storageOffset + 16)
      let walSegmentSize ← uN 4 data (storageOffset + 20)
      let nameDataLen ← uN 4 data (storageOffset + 24)
      let indexMaxKeys ← uN 4 data (storageOffset + 28)
      let toastMaxChunk ← uN 4 data (storageOffset + 32)
      let largeObjectChunk ← uN 4 data (storageOffset + 36)
      let floatFormatOK := floatIs1234567 (← uN 8 data (storageOffset + 40))
      let dataChecksumsEnabled := (← uN 1 data (storageOffset + 48)) != 0
      pure { maxAlign, blockSize, blocksPerSeg, walBlockSize, walSegmentSize, nameDataLen, indexMaxKeys,
             toastMaxChunk, largeObjectChunk, floatFormatOK, dataChecksumsEnabled }
    else pure {} : M Storage)
  let blockSize := if st.blockSize = 0 then 8192 else st.blockSize
  let walBlockSize := if st.walBlockSize = 0 then 8192 else st.walBlockSize
  let walSegmentSize := if st.walSegmentSize = 0 then 16 * 1024 * 1024 else st.walSegmentSize
  let (crc, crcValid) ← (if data.length > 292 then do
      let crc ← uN 4 data 288
      let body ← sliceTo data 288
      pure (crc, verifyCRC32C body crc)
    else pure (0, false) : M (Nat × Bool))
  return some
    { pgControlVersion, catalogVersionNo, systemIdentifier, state, stateString,
      checkpointLSN := ctlFormatLSN checkpointLSN, redoLSN := ctlFormatLSN redoLSN, redoWALFile,
      timeLineID, prevTimeLineID, fullPageWrites, nextXIDEpoch, nextXID, nextOID, nextMulti, nextMultiOffset,
      oldestXID, oldestXIDDB, oldestActiveXID, oldestMulti, oldestMultiDB, oldestCommitTsXID, newestCommitTsXID,
      checkpointTime := cpTime, walLevel := cfg.walLevel, walLogHints := cfg.walLogHints,
      maxConnections := cfg.maxConnections, maxWorkerProcesses := cfg.maxWorkerProcesses,
      maxWALSenders := cfg.maxWALSenders, maxPreparedXacts := cfg.maxPreparedXacts,
      maxLocksPerXact := cfg.maxLocksPerXact, trackCommitTS := cfg.trackCommitTS,
      maxAlign := st.maxAlign, blockSize, blocksPerSeg := st.blocksPerSeg, walBlockSize,
      walSegmentSize, nameDataLen := st.nameDataLen, indexMaxKeys := st.indexMaxKeys,
      toastMaxChunk := st.toastMaxChunk, largeObjectChunk := st.largeObjectChunk,
      floatFormatOK := st.floatFormatOK, dataChecksumsEnabled := st.dataChecksumsEnabled,
      crc, crcValid, pgVersionMajor }

end PgVerif.Model.Orig
