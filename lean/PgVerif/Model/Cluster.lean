/-
  Model of pgdump/pgdump.go: withDefaults, DumpDataDir, DumpDatabaseFromFiles, dumpTable, readTableRows — the tree
  after fixes/cluster/01 (tables are visited in filenode order instead of map-iteration order) and 09 (every tuple
  of a table without columns is the empty row).

  * `ReadTuples` (heap.go, area `heap`) is `Model.readTuples` itself, not a parameter: readTableRows uses it only
    to count the visible tuples of a table without columns.

  * `rr` = the row reader (heap.go:ReadRows), a parameter.
  * the file system is `fs : path ↦ Option content` (`os.ReadFile`; an error = `none`); a `FileReader`
    is `filenode ↦ Option content`.
  * every `range` over a Go map takes the iteration order as a parameter `π` (a function that permutes the
    entries); the theorems of C11 quantify over all of them.
  * `strings.HasPrefix/Contains` = list prefix / infix; `strings.ToLower` = `GoCase.goToLower` (Model/GoCase.lean: Go's
    function — ASCII fast path, invalid UTF-8, `unicode.ToLower` from Go's own table for all of Unicode); `TypeName` = the generated
    table + `fmt.Sprintf("oid:%d")`; `strconv.FormatUint(_, 10)` = decimal text.
-/
import PgVerif.Model.Catalog
import PgVerif.Spec.Cluster
import PgVerif.Model.GoCase
namespace PgVerif.Model
open PgVerif
open PgVerif.Spec (ColumnInfo TableDump DatabaseDump DumpResult Options isPrefixB lowerB containsB natBytes)

/-- the iteration order of one `range` over a map: some rearrangement of its entries -/
abbrev MapOrder (β : Type) := List (Nat × β) → List (Nat × β)

/-- types.go:TypeName -/
def typeName (oid : Int) : Bytes :=
  match lookupOid' oid with
  | some n => strBytes n
  | none => strBytes ("oid:" ++ toString oid)
where lookupOid' (oid : Int) : Option String := if oid < 0 then none else Generated.Cluster.typeNames.lookup oid.toNat

def insertNat (a : Nat) : List Nat → List Nat
  | [] => [a]
  | b :: bs => if a ≤ b then a :: b :: bs else b :: insertNat a bs

/-- `sort.Slice(keys, func(i, j) bool { return keys[i] < keys[j] })` on distinct keys -/
def sortNat (l : List Nat) : List Nat := l.foldr insertNat []

abbrev FileReader := Nat → Option Bytes

/-- pgdump.go:readTableRows (fixes/cluster/09) — ReadRows for a table with columns; for a table without columns one
empty row per visible tuple (DecodeTuple answers nil for a tuple without data and without columns, which ReadRows
skips) -/
def readTableRows (rr : RowReader) (data : Bytes) (cols : List Column) : M (List Row) :=
  if cols.length > 0 then rr data cols true
  else do
    let es ← readTuples data true
    pure (es.map fun _ => [])

/-- pgdump.go:dumpTable -/
def dumpTable (rr : RowReader) (filenode : Nat) (info : TableInfo) (attrs : List AttrInfo)
    (reader : Option FileReader) (opts : Options) : M TableDump :=
  let cols : List ColumnInfo := attrs.map fun a => ⟨a.name, typeName a.typid, a.typid⟩
  let t : TableDump := { oid := info.oid, name := info.name, filenode, kind := info.kind, columns := cols,
                         rows := [], rowCount := 0 }
  match (if opts.listOnly then none else reader) with
  | none => pure t
  | some rd =>
    match rd filenode with
    | none => pure t
    | some data =>
      if data.length = 0 then pure t
      else do
        let mcols : List Column := attrs.map fun a => ⟨a.name, a.typid, a.len, a.num, a.align⟩
        let rows ← readTableRows rr data mcols
        pure { t with rows := rows, rowCount := rows.length }

/-- the three `continue` filters of DumpDatabaseFromFiles -/
def keepTable (opts : Options) (info : TableInfo) : Bool :=
  !(info.kind != [114] && info.kind != []) &&
  !(opts.skipSystem && isPrefixB (strBytes "pg_") info.name) &&
  !(opts.tableFilter != [] && !containsB (GoCase.goToLower info.name) (GoCase.goToLower opts.tableFilter))

/-- the loop body for one filenode of the sorted key list -/
def dumpOne (rr : RowReader) (tables : List (Nat × TableInfo)) (attrs : List (Nat × List AttrInfo))
    (reader : Option FileReader) (opts : Options) (filenode : Nat) : M (Option TableDump) :=
  match mapGet tables filenode with
  | none => pure none
  | some info =>
    if keepTable opts info then do
      let t ← dumpTable rr filenode info ((mapGet attrs info.oid).getD []) reader opts
      pure (some t)
    else pure none

/-- pgdump.go:DumpDatabaseFromFiles (OID and Name are filled in by the caller) -/
def dumpDatabaseFromFiles (rr : RowReader) (π : MapOrder TableInfo) (classData attrData : Bytes)
    (reader : Option FileReader) (opts : Options) : M (List TableDump) := do
  let tables ← parsePGClass rr classData
  let attrs ← parsePGAttribute rr attrData opts.pgVersion
  let filenodes := sortNat ((π tables).map (·.1))
  collectM (dumpOne rr tables attrs reader opts) filenodes

def pathGlobal1262 : Bytes := strBytes "global/1262"
def basePath (db fn : Nat) : Bytes := strBytes "base/" ++ natBytes db ++ strBytes "/" ++ natBytes fn

/-- the loop body of DumpDataDir for one database -/
def dumpDb (rr : RowReader) (π : MapOrder TableInfo) (fs : Bytes → Option Bytes) (opts : Options)
    (db : DatabaseInfo) : M (Option DatabaseDump) :=
  if isPrefixB (strBytes "template") db.name then pure none
  else if opts.dbFilter != [] && db.name != opts.dbFilter then pure none
  else
    let classData := (fs (basePath db.oid 1259)).getD []
    let attrData := (fs (basePath db.oid 1249)).getD []
    if classData.length = 0 then pure none
    else do
      let tables ← dumpDatabaseFromFiles rr π classData attrData (some fun fn => fs (basePath db.oid fn)) opts
      pure (some { oid := db.oid, name := db.name, tables })

/-- pgdump.go:DumpDataDir (`none` = the error of reading global/1262) -/
def dumpDataDir (rr : RowReader) (π : MapOrder TableInfo) (fs : Bytes → Option Bytes) (opts : Options) :
    M (Option DumpResult) :=
  match fs pathGlobal1262 with
  | none => pure none
  | some dbData => do
    let dbs ← parsePGDatabase rr dbData
    let r ← collectM (dumpDb rr π fs opts) dbs
    pure (some r)

/-- the TableInfo `classStep` builds from a row -/
def infoOfRow (row : Row) : TableInfo :=
  ⟨getOID row "oid", getOID row "relfilenode", getString row "relname", getString row "relkind"⟩

/-- the TableInfo a correct row reader must lead to for a pg_class row (used as the reader hypothesis of C01) -/
def infoOfRel (r : Spec.ClassRow) : TableInfo := ⟨r.oid, r.filenode, r.name, [UInt8.ofNat r.kind]⟩

end PgVerif.Model
