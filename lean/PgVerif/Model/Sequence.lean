/-
  Model of pgdump/sequence.go (with the repairs of /verif/fixes/control applied: PostgreSQL ≥ 10 tuple
  layout last_value@0 / log_cnt@8 / is_called@16 without the "modern format" guess, magic compared as
  u32, bounds check after the default t_hoff).  The code as written is in Model/SequenceOrig.lean.
  FindSequences / ScanAllSequences: the `os` calls are a file-system parameter; the pg_database and
  pg_class parsers (other areas) are parameters too; so is the iteration order of the `range` over the
  pg_class map (fixes/control/08 sorts the filenodes, which makes the result independent of it: Props/C11Control).
-/
import PgVerif.Basic.Bytes
import PgVerif.Model.KeySort
namespace PgVerif.Model
open PgVerif

structure SequenceData where
  name : Bytes := []
  oid : Nat := 0
  filenode : Nat := 0
  lastValue : Int := 0
  startValue : Int := 0
  incrementBy : Int := 0
  maxValue : Int := 0
  minValue : Int := 0
  cacheValue : Int := 0
  isCycled : Bool := false
  isCalled : Bool := false
deriving Repr, DecidableEq, Inhabited

def i64At (data : Bytes) (off : Nat) : M Int := do return toSigned 64 (← uN 8 data off)

/-- parseSequenceTuple (repaired); `none` = error return -/
def parseSequenceTuple (data : Bytes) : M (Option SequenceData) := do
  if data.length < 8 then return none
  if data.length < 57 then
    -- FormData_pg_sequence_data: last_value int8 @0, log_cnt int8 @8, is_called bool @16
    let lastValue ← i64At data 0
    let isCalled ← (if data.length ≥ 17 then do return (← uN 1 data 16) != 0 else pure false : M Bool)
    return some { lastValue, isCalled }
  -- "old format" branch, unchanged
  let lastValue ← i64At data 0
  let startValue ← i64At data 8
  let incrementBy ← i64At data 16
  let maxValue ← i64At data 24
  let minValue ← i64At data 32
  let cacheValue ← i64At data 40
  -- log_cnt skipped: offset = 56
  let (isCycled, off) ← (if data.length > 56 then do return ((← uN 1 data 56) != 0, 57) else pure (false, 56) : M (Bool × Nat))
  let isCalled ← (if data.length > off then do return (← uN 1 data off) != 0 else pure false : M Bool)
  return some { lastValue, startValue, incrementBy, maxValue, minValue, cacheValue, isCycled, isCalled }

/-- ParseSequenceFile (repaired); `none` = error return -/
def parseSequenceFile (data : Bytes) : M (Option SequenceData) := do
  if data.length < 8192 then return none
  let special ← uN 2 data 16
  if special = 0 ∨ special > 8192 - 4 then return none
  let magic ← uN 4 data special
  if magic ≠ 0x1717 then return none
  let lower ← uN 2 data 12
  if lower < 24 + 4 then return none
  let itemPtr ← uN 4 data 24
  let itemOffset := itemPtr &&& 0x7FFF
  let itemLen := (itemPtr >>> 17) &&& 0x7FFF
  if itemOffset = 0 ∨ itemLen = 0 ∨ itemOffset + itemLen > 8192 then return none
  let tupleData ← slice data itemOffset (itemOffset + itemLen)
  if tupleData.length < 23 then return none
  let hoff0 := (← idx tupleData 22).toNat
  let hoff := if hoff0 < 23 ∨ hoff0 > tupleData.length then 24 else hoff0
  if hoff > tupleData.length then return none
  let seqData ← sliceFrom tupleData hoff
  parseSequenceTuple seqData

/-- IsSequenceFile (repaired) -/
def isSequenceFile (data : Bytes) : M Bool := do
  if data.length < 8192 then return false
  let special ← uN 2 data 16
  if special = 0 ∨ special > 8192 - 4 then return false
  let magic ← uN 4 data special
  return magic == 0x1717

/-! ### FindSequences / ScanAllSequences -/

structure DbInfo where
  oid : Nat
  name : Bytes
deriving Repr, DecidableEq, Inhabited

structure ClassInfo where
  filenode : Nat
  oid : Nat
  name : Bytes
  kind : Bytes
deriving Repr, DecidableEq, Inhabited

/-- the environment of the cluster-level functions: file reads (`readRegularFile` since fixes/entry/02: `os.ReadFile` on a regular file; `none` = error, which now includes a path that is not a regular file), and the
results of the pg_database / pg_class parsers on a file's bytes.  `parseClass` returns the map as an
association list keyed by filenode (unique keys).  `order` is the order in which Go's `range tables` yields
the entries of that map: unspecified, different from call to call — any rearrangement (`id` by default). -/
structure SeqEnv where
  fs : String → Option Bytes
  parseDatabase : Bytes → List DbInfo
  parseClass : Bytes → List ClassInfo
  order : List ClassInfo → List ClassInfo := id

/-- the relations in the order FindSequences visits them (fixes/control/08): the filenodes are collected by ranging
over the map (`env.order`), sorted ascending, and each is looked up again — the entries sorted by filenode
(see Model/KeySort.lean) -/
def seqVisitOrder (env : SeqEnv) (tables : List ClassInfo) : List ClassInfo :=
  keySort (·.filenode) (env.order tables)

/-- the loop `for _, filenode := range filenodes { info := tables[filenode]; … }` of FindSequences over the relations in
the given order -/
def findSeqLoop (env : SeqEnv) (basePath : String) : List ClassInfo → M (List SequenceData)
  | [] => pure []
  | info :: rest => do
    if info.kind != [83] then findSeqLoop env basePath rest            -- relkind "S"
    else match env.fs (basePath ++ "/" ++ toString info.filenode) with
      | none => findSeqLoop env basePath rest
      | some seqData =>
        match ← parseSequenceFile seqData with
        | none => findSeqLoop env basePath rest
        | some seq =>
          let r ← findSeqLoop env basePath rest
          pure ({ seq with name := info.name, oid := info.oid, filenode := info.filenode } :: r)

def findSequences (env : SeqEnv) (dataDir : String) (dbName : Bytes) : M (Option (List SequenceData)) := do
  match env.fs (dataDir ++ "/global/1262") with
  | none => return none
  | some dbData =>
    let dbOID := match (env.parseDatabase dbData).find? (·.name == dbName) with
      | some d => d.oid | none => 0
    if dbOID = 0 then return none
    let basePath := dataDir ++ "/base/" ++ toString dbOID
    match env.fs (basePath ++ "/1259") with
    | none => return none
    | some classData => return some (← findSeqLoop env basePath (seqVisitOrder env (env.parseClass classData)))

def hasPrefix (s p : Bytes) : Bool := s.take p.length == p

/-- the loop of ScanAllSequences; `results[db.Name] = seqs` — a later database with the same name overwrites -/
def scanLoop (env : SeqEnv) (dataDir : String) : List DbInfo → M (List (Bytes × List SequenceData))
  | [] => pure []
  | db :: rest => do
    if hasPrefix db.name "template".toUTF8.toList then scanLoop env dataDir rest
    else match ← findSequences env dataDir db.name with
      | none => scanLoop env dataDir rest
      | some seqs =>
        let r ← scanLoop env dataDir rest
        pure (if seqs.isEmpty then r else if r.any (·.1 == db.name) then r else (db.name, seqs) :: r)

/-- ScanAllSequences: map from database name to its sequences (only non-empty lists), as an association list -/
def scanAllSequences (env : SeqEnv) (dataDir : String) : M (Option (List (Bytes × List SequenceData))) := do
  match env.fs (dataDir ++ "/global/1262") with
  | none => return none
  | some dbData => return some (← scanLoop env dataDir (env.parseDatabase dbData))

end PgVerif.Model
