/-
  Model of pgdump/blockrange.go (with the repairs of /verif/fixes/block applied: digits-only grammar,
  `!includeDeleted`, negative DumpBinaryBlock guard, pd_lsn = {xlogid, xrecoff}).
  One Lean function per Go function, same guards, same order of evaluation.

  File system = parameter: a file is `Option Bytes` (`none` = os.Open fails); os.Stat size = length;
  Seek(off)/Read(buf) = drop/take.  `hex.Dump` is a parameter of the binary-dump functions.
  Library calls modelled by their documented behaviour: strings.Contains/SplitN (split at the first
  ':'), strconv.Atoi (optional sign, decimal digits, int64 range), fmt "%X".
-/
import PgVerif.Basic.Bytes
import PgVerif.Model.Heap
namespace PgVerif.Model
open PgVerif

/-- Go `error` values of area block, by message class -/
inductive Err where
  | osOpen        -- os.Open / os.Stat failed
  | beyond        -- "start block %d beyond file size (%d blocks)"
  | invalidRange  -- "invalid range: %d > %d"
  | io            -- Seek / Read failed (EINVAL on a negative offset, io.EOF)
  | syntax        -- ParseBlockRange: "invalid … block"
  | negative      -- "… cannot be negative"
  | order         -- "start block (%d) cannot be greater than end block (%d)"
  | emptyRange    -- ParseBlockRange(":")
  | noSegments    -- "no segments found for %s"
  | segBeyond     -- "block %d beyond segment size (%d blocks)"
  | smallSegment  -- "segment size %d is smaller than a block"
  | noBase        -- "cannot read base directory"
deriving Repr, DecidableEq, Inhabited

def Err.name : Err → String
  | .osOpen => "open" | .beyond => "beyond" | .invalidRange => "invalid" | .io => "io" | .syntax => "syntax"
  | .negative => "negative" | .order => "order" | .emptyRange => "empty" | .noSegments => "nosegments"
  | .segBeyond => "segbeyond" | .smallSegment => "smallsegment" | .noBase => "nobase"

/-- Go's `(T, error)` -/
abbrev R (α : Type) := Except Err α

/-- int64 wrap-around of a mathematically computed value (Go `int` arithmetic on amd64) -/
def wrap64 (v : Int) : Int := toSigned 64 (ofSigned 64 v)

/-! ### strconv -/

def isDigit (b : UInt8) : Bool := 48 ≤ b && b ≤ 57

/-- value of a string of decimal digits -/
def digitsVal (ds : Bytes) : Nat := ds.foldl (fun acc b => acc * 10 + (b.toNat - 48)) 0

/-- strconv.Atoi on a 64-bit platform: optional '+'/'-', then ≥ 1 decimal digits, value in int64 range;
`none` = any error (syntax or range) -/
def atoi (s : Bytes) : Option Int :=
  let neg := s.head? == some 45
  let ds := if s.head? == some 43 || s.head? == some 45 then s.drop 1 else s
  if ds.isEmpty || !ds.all isDigit then none
  else
    let v := digitsVal ds
    if neg then (if v ≤ 2 ^ 63 then some (-(v : Int)) else none)
    else (if v < 2 ^ 63 then some (v : Int) else none)

/-- strconv.ParseUint(s, 10, 32): ≥ 1 decimal digits, no sign, value < 2^32 -/
def parseUint32 (s : Bytes) : Option Nat :=
  if s.isEmpty || !s.all isDigit then none
  else if digitsVal s < 2 ^ 32 then some (digitsVal s) else none

/-! ### ParseBlockRange -/

structure BlockRange where
  start : Int
  stop : Int
deriving Repr, DecidableEq, Inhabited

/-- blockrange.go:parseBlockNumber (fix 01): digits only, then Atoi -/
def parseBlockNumber (s : Bytes) : Option Int :=
  if s.all isDigit then atoi s else none

/-- strings.SplitN(s, ":", 2) on a string that contains ':' : [before the first ':', after it];
on a string without ':' : [s] -/
def splitColon2 : Bytes → List Bytes
  | [] => [[]]
  | b :: rest =>
    if b == 58 then [[], rest]
    else match splitColon2 rest with
      | [x] => [b :: x]
      | x :: ys => (b :: x) :: ys
      | [] => [[b]]

/-- Go: `parts[i]` -/
def part (parts : List Bytes) (i : Nat) : M Bytes :=
  match parts[i]? with
  | some p => pure p
  | none => throw .index

/-- the final "Validate range" step -/
def validateRange (br : BlockRange) : R (Option BlockRange) :=
  if br.start ≥ 0 && br.stop ≥ 0 && br.start > br.stop then .error .order else .ok (some br)

/-- one side of `a:b`: empty = open (-1), else a block number (`start < 0` check kept as in the code) -/
def parseSide (p : Bytes) : R Int :=
  if p.isEmpty then .ok (-1)
  else match parseBlockNumber p with
    | none => .error .syntax
    | some v => if v < 0 then .error .negative else .ok v

def parseBlockRange (s : Bytes) : M (R (Option BlockRange)) :=
  if s.isEmpty then pure (.ok none)
  else if s.contains 58 then do
    let parts := splitColon2 s
    let p0 ← part parts 0
    let p1 ← part parts 1
    pure (
      if p0.isEmpty && p1.isEmpty then .error .emptyRange
      else match parseSide p0 with
        | .error e => .error e
        | .ok start =>
          match parseSide p1 with
          | .error e => .error e
          | .ok stop => validateRange ⟨start, stop⟩)
  else
    pure (match parseBlockNumber s with
      | none => .error .syntax
      | some v => if v < 0 then .error .negative else validateRange ⟨v, v⟩)

/-! ### ReadBlockRange -/

/-- `f.Seek(off, 0)` then `f.Read(make([]byte, n))`, result `data[:n']`:
a negative offset is EINVAL; reading n > 0 bytes at or past the end is io.EOF; otherwise the
available prefix (a regular file delivers what is there in one read below 1 GiB; used for the
8192-byte read of ReadSegmentBlock) -/
def fileReadAt (f : Bytes) (off : Int) (n : Nat) : R Bytes :=
  if off < 0 then .error .io
  else if n = 0 then .ok []
  else if off.toNat ≥ f.length then .error .io
  else .ok ((f.drop off.toNat).take n)

/-- `f.Seek(off, 0)` then `io.ReadFull(f, make([]byte, n))` (fix 10), result `data[:n]`: like `fileReadAt`, but the
read is repeated until all `n` bytes are there (a single `Read` delivers at most 1 GiB), and a file that ends
before `off + n` is an error (io.EOF / io.ErrUnexpectedEOF) instead of a short result -/
def fileReadFullAt (f : Bytes) (off : Int) (n : Nat) : R Bytes :=
  if off < 0 then .error .io
  else if n = 0 then .ok []
  else if off.toNat + n > f.length then .error .io
  else .ok ((f.drop off.toNat).take n)

def rangeStart (r : Option BlockRange) : Int :=
  match r with
  | some br => if br.start ≥ 0 then br.start else 0
  | none => 0

def rangeEnd (r : Option BlockRange) (totalBlocks : Int) : Int :=
  match r with
  | some br => if br.stop ≥ 0 then br.stop else totalBlocks - 1
  | none => totalBlocks - 1

def readBlockRange (file : Option Bytes) (r : Option BlockRange) : M (R Bytes) :=
  match file with
  | none => pure (.error .osOpen)
  | some f =>
    let totalBlocks : Int := ((f.length / 8192 : Nat) : Int)
    let start := rangeStart r
    let end0 := rangeEnd r totalBlocks
    if start ≥ totalBlocks then pure (.error .beyond)
    else
      let end1 := if end0 ≥ totalBlocks then totalBlocks - 1 else end0
      if start > end1 then pure (.error .invalidRange)
      else
        let startOffset := wrap64 (start * 8192)
        let bytesToRead := wrap64 ((end1 - start + 1) * 8192)
        if bytesToRead < 0 then throw .makeLen          -- make([]byte, negative)
        else pure (fileReadFullAt f startOffset bytesToRead.toNat)

/-! ### ParseBlockInfo -/

def hexUpperDigit (n : Nat) : Char := if n < 10 then Char.ofNat (48 + n) else Char.ofNat (55 + n)

/-- fmt "%X" of an unsigned value -/
def hexUpper (v : Nat) : String := String.ofList ((Nat.toDigits 16 v).map Char.toUpper)

/-- wal.go:FormatLSN — `fmt.Sprintf("%X/%X", lsn>>32, lsn&0xFFFFFFFF)` -/
def formatLSN (lsn : Nat) : String := hexUpper (lsn >>> 32) ++ "/" ++ hexUpper (lsn &&& 0xFFFFFFFF)

structure BlockInfo where
  blockNumber : Nat
  lsn : String
  checksum : Nat
  flags : Nat
  lower : Nat
  upper : Nat
  special : Nat
  pageSize : Nat
  version : Nat
  itemCount : Nat
  freeSpace : Nat
  isEmpty : Bool
deriving Repr, DecidableEq, Inhabited

def allZero (bs : Bytes) : Bool := bs.all (· == 0)

/-- the first `n` bytes (or all, if fewer) are zero — a loop with early exit -/
def zeroPrefix : Nat → Bytes → Bool
  | 0, _ => true
  | _, [] => true
  | n+1, b :: bs => if b != 0 then false else zeroPrefix n bs

/-- `Basic.uN` (Go: `binary.LittleEndian.UintN(data[off:])`) evaluated without walking the whole of
`data`: same function (`Proofs/Block.lean: uNf_eq_uN`), O(off + n) instead of O(len) -/
def uNf (n : Nat) (data : Bytes) (off : Nat) : M Nat :=
  if off > 0 && (data.drop (off - 1)).isEmpty then throw .slice
  else
    let d := data.drop off
    if (d.take n).length < n then throw .index else pure (rd n d)

/-- pd_lsn as repaired (fix 04): `uint64(u32(data,0))<<32 | uint64(u32(data,4))` -/
def pageLSN (data : Bytes) : M Nat := do
  let hi ← uNf 4 data 0
  let lo ← uNf 4 data 4
  pure (hi * 2 ^ 32 + lo)

def parseBlockInfo (data : Bytes) (blockNumber : Nat) : M (Option BlockInfo) := do
  if data.length < 8192 then return none
  -- `for _, b := range data[:PageSize] { if b != 0 { isEmpty = false; break } }` — the slice is in range
  -- by the guard above; the loop stops at the first non-zero byte
  if zeroPrefix 8192 data then
    return some ⟨blockNumber, "", 0, 0, 0, 0, 0, 0, 0, 0, 0, true⟩
  let lsn ← pageLSN data
  let checksum ← uNf 2 data 8
  let flags ← uNf 2 data 10
  let lower ← uNf 2 data 12
  let upper ← uNf 2 data 14
  let special ← uNf 2 data 16
  let psv ← uNf 2 data 18
  let itemCount := if lower ≥ 24 then (lower - 24) / 4 else 0
  let freeSpace := if upper > lower then upper - lower else 0
  return some ⟨blockNumber, formatLSN lsn, checksum, flags, lower, upper, special,
               psv &&& 0xFF00, psv &&& 0x00FF, itemCount, freeSpace, false⟩

/-! ### DumpBlockRange -/

/-- Go: `data[i*PS : i*PS+PS]` inside a loop over `i`: the loops of this area carry `rest = data[i*PS:]`
along (a cursor), so that a step costs O(PS); `takeM rest n` is the slice `rest[0:n]` with its bounds
check (`Proofs/Block.lean: takeM_eq_slice` ties it to the index form). -/
def takeM (rest : Bytes) (n : Nat) : M Bytes :=
  let t := rest.take n
  if t.length < n then throw .slice else pure t

/-- `for i := 0; i < len(data)/PageSize; i++ { block := data[i*PS : i*PS+PS]; ParseBlockInfo(block, uint32(startBlock+i)) }`,
`n` iterations left, next index `i`, `rest = data[i*PS:]` -/
def dumpBlocksLoop (startBlock : Int) : Nat → Nat → Bytes → M (List BlockInfo)
  | 0, _, _ => pure []
  | n+1, i, rest => do
    let block ← takeM rest 8192
    let info ← parseBlockInfo block (ofSigned 32 (startBlock + i))
    let more ← dumpBlocksLoop startBlock n (i + 1) (rest.drop 8192)
    pure (match info with | some x => x :: more | none => more)

def dumpBlocks (data : Bytes) (startBlock : Int) : M (List BlockInfo) :=
  dumpBlocksLoop startBlock (data.length / 8192) 0 data

def dumpBlockRange (file : Option Bytes) (r : Option BlockRange) : M (R (List BlockInfo)) := do
  match ← readBlockRange file r with
  | .error e => return .error e
  | .ok data => return .ok (← dumpBlocks data (rangeStart r))

/-! ### ReadTuplesInRange (fix 02: `ReadTuples(data, !includeDeleted)`) -/

def readTuplesInRange (file : Option Bytes) (r : Option BlockRange) (includeDeleted : Bool) :
    M (R (List TupleEntry)) := do
  match ← readBlockRange file r with
  | .error e => return .error e
  | .ok data => return .ok (← readTuples data (!includeDeleted))

/-! ### GetBlockRangeStats -/

/-- BlockRangeStats without `Path`; `AvgFillPct` is `float64(fillNum) / float64(fillDen) * 100` when
`fillDen > 0` and `usedBlocks > 0`, else 0 — kept as the two integers (the driver renders the float) -/
structure BlockRangeStats where
  totalBlocks : Nat
  startBlock : Nat
  endBlock : Nat
  emptyBlocks : Nat
  usedBlocks : Nat
  totalItems : Nat
  totalFree : Nat
  fillNum : Int     -- totalUsed
  fillDen : Nat     -- totalCapacity = UsedBlocks * PageSize
deriving Repr, DecidableEq, Inhabited

/-- one step of the tally loop -/
def statsStep (s : BlockRangeStats) (b : BlockInfo) : BlockRangeStats :=
  if b.isEmpty then { s with emptyBlocks := s.emptyBlocks + 1 }
  else
    { s with usedBlocks := s.usedBlocks + 1, totalItems := s.totalItems + b.itemCount,
             totalFree := s.totalFree + b.freeSpace,
             fillNum := if b.pageSize > 0 then s.fillNum + ((b.pageSize : Int) - (b.freeSpace : Int)) else s.fillNum }

def blockStats (blocks : List BlockInfo) : BlockRangeStats :=
  match blocks.head?, blocks.getLast? with
  | some first, some last =>
    let s := blocks.foldl statsStep ⟨blocks.length, first.blockNumber, last.blockNumber, 0, 0, 0, 0, 0, 0⟩
    { s with fillDen := s.usedBlocks * 8192 }
  | _, _ => ⟨blocks.length, 0, 0, 0, 0, 0, 0, 0, 0⟩

def getBlockRangeStats (file : Option Bytes) (r : Option BlockRange) : M (R BlockRangeStats) := do
  match ← dumpBlockRange file r with
  | .error e => return .error e
  | .ok blocks => return .ok (blockStats blocks)

/-! ### DumpBinaryBlock / DumpBinaryRange (`hexDump` = encoding/hex.Dump, a parameter) -/

structure BinaryDump (α : Type) where
  blockNumber : Nat
  offset : Int
  hexDump : α
  size : Nat
deriving Repr, DecidableEq

def dumpBinaryBlock {α} (hexDump : Bytes → α) (file : Option Bytes) (blockNum : Int) : M (R (BinaryDump α)) := do
  if blockNum < 0 then return .error .negative
  match ← readBlockRange file (some ⟨blockNum, blockNum⟩) with
  | .error e => return .error e
  | .ok data => return .ok ⟨ofSigned 32 blockNum, wrap64 (blockNum * 8192), hexDump data, data.length⟩

def dumpBinaryLoop {α} (hexDump : Bytes → α) (startBlock : Int) : Nat → Nat → Bytes → M (List (BinaryDump α))
  | 0, _, _ => pure []
  | n+1, i, rest => do
    let block ← takeM rest 8192
    let more ← dumpBinaryLoop hexDump startBlock n (i + 1) (rest.drop 8192)
    pure (⟨ofSigned 32 (startBlock + i), wrap64 ((startBlock + i) * 8192), hexDump block, 8192⟩ :: more)

def dumpBinaryBlocks {α} (hexDump : Bytes → α) (data : Bytes) (startBlock : Int) : M (List (BinaryDump α)) :=
  dumpBinaryLoop hexDump startBlock (data.length / 8192) 0 data

def dumpBinaryRange {α} (hexDump : Bytes → α) (file : Option Bytes) (r : Option BlockRange) :
    M (R (List (BinaryDump α))) := do
  match ← readBlockRange file r with
  | .error e => return .error e
  | .ok data => return .ok (← dumpBinaryBlocks hexDump data (rangeStart r))

end PgVerif.Model
