/-
  Model of pgdump/csv.go (after fixes/export 02, 07, 12 and 13): ToCSV for DumpResult / DatabaseDump / TableDump, formatCSVValue.

  Library behaviour:
    * `encoding/csv.Writer` (Comma = ',', UseCRLF = false) by its source/documented rule: a field is written in quotes iff it
      is `\.`, or contains the delimiter, a quote, CR or LF, or its first rune is white space (unicode.IsSpace); inside
      quotes a quote is doubled, everything else is copied; fields are joined by commas; a record ends with LF.
      The empty field is written bare.  The writer is buffered: the model is the text after the final Flush
      (fix 07 flushes before it writes `""` itself, so the order of the text is the order of the calls).
    * `encoding/json.Marshal` of []interface{} / map[string]interface{} (cells holding arrays and objects): `goJson` —
      compact, map keys sorted, strings escaped as encoding/json does (`\"` `\\` `\b` `\f` `\n` `\r` `\t`, other bytes < 0x20
      and `<` `>` `&` as backslash-u00XX, U+2028/U+2029 as backslash-u2028/2029, each invalid UTF-8 byte as backslash-ufffd), integers in decimal,
      floats = parameter `F.j64/j32` (`none` = UnsupportedValueError: the whole Marshal fails; csv.go's jsonCell
      (fix 13) then writes the value with sql.go's writeJSONValue, which has a text for every value).
    * `fmt` `%d`, `%v`: as in Model/ExportSql.lean.
-/
import PgVerif.Model.ExportSql
namespace PgVerif.Model.Export
open PgVerif PgVerif.Export

/-! ### encoding/csv.Writer -/

/-- unicode.IsSpace of the first rune of a UTF-8 string (invalid first byte = U+FFFD, not a space) -/
def firstRuneIsSpace : Bytes → Bool
  | [] => false
  | c :: t =>
    if c == 32 || (9 ≤ c && c ≤ 13) then true
    else match c, t with
      | 0xC2, d :: _ => d == 0x85 || d == 0xA0
      | 0xE1, d :: e :: _ => d == 0x9A && e == 0x80
      | 0xE2, d :: e :: _ =>
        (d == 0x80 && ((0x80 ≤ e && e ≤ 0x8A) || e == 0xA8 || e == 0xA9 || e == 0xAF)) || (d == 0x81 && e == 0x9F)
      | 0xE3, d :: e :: _ => d == 0x80 && e == 0x80
      | _, _ => false

def fieldNeedsQuotes (field : Bytes) : Bool :=
  if field.isEmpty then false
  else if field == [92, 46] then true
  else if field.any (fun c => c == 10 || c == 13 || c == 34 || c == 44) then true
  else firstRuneIsSpace field

def csvField (field : Bytes) : Bytes :=
  if fieldNeedsQuotes field then 34 :: (escapeQ 34 field ++ [34]) else field

/-- csv.Writer.Write -/
def csvRecord (fields : List Bytes) : Bytes := joinB [44] (fields.map csvField) ++ [10]

/-! ### encoding/json.Marshal -/

def hex4 (n : Nat) : Bytes := [hexLow (n / 4096 % 16), hexLow (n / 256 % 16), hexLow (n / 16 % 16), hexLow (n % 16)]

def isCont (c : UInt8) : Bool := 0x80 ≤ c && c ≤ 0xBF

/-- utf8.DecodeRune: `some (codepoint, width)` for a valid sequence at the head, `none` = RuneError of width 1 -/
def decodeRune : Bytes → Option (Nat × Nat)
  | [] => none
  | c :: t =>
    if c < 0x80 then some (c.toNat, 1)
    else if 0xC2 ≤ c && c ≤ 0xDF then
      match t with
      | d :: _ => if isCont d then some ((c.toNat - 0xC0) * 64 + (d.toNat - 0x80), 2) else none
      | _ => none
    else if 0xE0 ≤ c && c ≤ 0xEF then
      match t with
      | d :: e :: _ =>
        let lo : UInt8 := if c == 0xE0 then 0xA0 else 0x80
        let hi : UInt8 := if c == 0xED then 0x9F else 0xBF
        if lo ≤ d && d ≤ hi && isCont e then some (((c.toNat - 0xE0) * 64 + (d.toNat - 0x80)) * 64 + (e.toNat - 0x80), 3) else none
      | _ => none
    else if 0xF0 ≤ c && c ≤ 0xF4 then
      match t with
      | d :: e :: g :: _ =>
        let lo : UInt8 := if c == 0xF0 then 0x90 else 0x80
        let hi : UInt8 := if c == 0xF4 then 0x8F else 0xBF
        if lo ≤ d && d ≤ hi && isCont e && isCont g then
          some ((((c.toNat - 0xF0) * 64 + (d.toNat - 0x80)) * 64 + (e.toNat - 0x80)) * 64 + (g.toNat - 0x80), 4)
        else none
      | _ => none
    else none

/-- the body of a JSON string as encoding/json writes it (escapeHTML on); `fuel` ≥ length -/
def goJsonChars : Nat → Bytes → Bytes
  | 0, _ => []
  | _, [] => []
  | f + 1, c :: t =>
    if c < 0x80 then
      (if c = 34 then [92, 34] else if c = 92 then [92, 92]
       else if c = 8 then [92, 98] else if c = 12 then [92, 102] else if c = 10 then [92, 110]
       else if c = 13 then [92, 114] else if c = 9 then [92, 116]
       else if c < 32 ∨ c = 60 ∨ c = 62 ∨ c = 38 then [92, 117] ++ hex4 c.toNat
       else [c]) ++ goJsonChars f t
    else
      match decodeRune (c :: t) with
      | none => [92, 117, 102, 102, 102, 100] ++ goJsonChars f t
      | some (cp, w) =>
        (if cp = 0x2028 ∨ cp = 0x2029 then [92, 117] ++ hex4 cp else (c :: t).take w) ++ goJsonChars f (t.drop (w - 1))

def goJsonString (s : Bytes) : Bytes := 34 :: (goJsonChars (s.length + 1) s ++ [34])

mutual
/-- json.Marshal of a value; `none` = error -/
def goJson (F : FloatFmt) : GoVal → Option Bytes
  | .nil => some (asc "null")
  | .bool b => some (if b then asc "true" else asc "false")
  | .int i => some (decInt i)
  | .f64 b => F.j64 b
  | .f32 b => F.j32 b
  | .str s => some (goJsonString s)
  | .arr xs => (goJsonElems F xs).map fun e => 91 :: (e ++ [93])
  | .obj kvs => (goJsonMembers F kvs).map fun e => 123 :: (e ++ [125])
def goJsonElems (F : FloatFmt) : List GoVal → Option Bytes
  | [] => some []
  | [x] => goJson F x
  | x :: y :: rest => (goJson F x).bind fun a => (goJsonElems F (y :: rest)).map fun b => a ++ 44 :: b
def goJsonMembers (F : FloatFmt) : List (Bytes × GoVal) → Option Bytes
  | [] => some []
  | [(k, v)] => (goJson F v).map fun a => goJsonString k ++ 58 :: a
  | (k, v) :: kv2 :: rest =>
    (goJson F v).bind fun a => (goJsonMembers F (kv2 :: rest)).map fun b => goJsonString k ++ 58 :: a ++ 44 :: b
end

/-! ### csv.go -/

/-- jsonCell (fix 13): json.Marshal, and when it fails the JSON writer of sql.go -/
def jsonCell (F : FloatFmt) (v : GoVal) : Bytes := (goJson F v).getD (writeJSONValue F v)

/-- formatCSVValue (`GoVal.nil` = every value `isNullValue` accepts, fix 12) -/
def formatCSVValue (F : FloatFmt) : GoVal → Bytes
  | .nil => []
  | .bool b => if b then asc "true" else asc "false"
  | .int i => decInt i
  | .f64 b => F.v64 b
  | .f32 b => F.v32 b
  | .str s => s
  | .arr xs => jsonCell F (.arr xs)
  | .obj kvs => jsonCell F (.obj kvs)

def cellCSV (F : FloatFmt) (row : Row) (col : ColumnInfo) : Bytes :=
  match row.get col.name with
  | none => []
  | some v => formatCSVValue F v

/-- what TableDump.ToCSV writes for one data row (fix 07: a single empty field is written as `""`) -/
def rowCSV (F : FloatFmt) (cols : List ColumnInfo) (r : Row) : Bytes :=
  let record := cols.map (cellCSV F r)
  if record == [[]] then [34, 34, 10] else csvRecord record

/-- TableDump.ToCSV -/
def tableToCSV (F : FloatFmt) (t : TableDump) : Bytes :=
  if t.columns.isEmpty then []
  else csvRecord (t.columns.map (·.name)) ++ t.rows.flatMap (rowCSV F t.columns)

def sectionHeader (db table : Bytes) : Bytes :=
  asc "# Database: " ++ commentText db ++ asc ", Table: " ++ commentText table ++ [10]

/-- DatabaseDump.ToCSV -/
def dbToCSV (F : FloatFmt) (d : DatabaseDump) : Bytes :=
  d.tables.flatMap fun t => sectionHeader d.name t.name ++ tableToCSV F t ++ [10]

/-- DumpResult.ToCSV -/
def toCSV (F : FloatFmt) (r : DumpResult) : Bytes := r.flatMap (dbToCSV F)

end PgVerif.Model.Export
