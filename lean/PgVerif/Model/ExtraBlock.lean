/-
  Topic E9 — blockrange.go:FormatBinaryDump (area `block`), which /verif/C10_COVERAGE.md listed as "not modelled".
  Its body is `return hex.Dump(data)`; `encoding/hex.Dump` is modelled from its documented output format by
  `CliRender.hexDump` (offset in 8 hex digits, two spaces, sixteen `xx ` cells with an extra space after the 8th and
  the 16th, the bytes between `|` with non-printable ones as `.`, one line per 16 bytes, nothing for empty input).
  A pure function: no index, slice or division that can fault.  Core Lean only.
-/
import PgVerif.Model.CliRender
namespace PgVerif.Model.Extra
open PgVerif PgVerif.Model

/-- blockrange.go:FormatBinaryDump -/
def formatBinaryDump (data : Bytes) : Bytes := CliRender.hexDump data

end PgVerif.Model.Extra
