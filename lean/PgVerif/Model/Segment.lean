/-
  Model of pgdump/segment.go (with fixes 05/06 of /verif/fixes/block applied).

  File system = parameter: the segment files of one relation are `SegFS = List (Option Bytes)`,
  entry `i` = contents of `base` (i = 0) or `base.<i>` (`none` / beyond the list = does not exist).
  A `SegmentInfo.BasePath` is represented by that index.  Library calls: filepath.Base,
  strings.LastIndex, strconv.Atoi, fmt.Sprintf("%s.%d") (abstracted by the index).
-/
import PgVerif.Model.Block
namespace PgVerif.Model
open PgVerif

def defaultSegmentSize : Int := 1073741824

structure SegmentOptions where
  segmentNumber : Int
  segmentSize : Int
deriving Repr, DecidableEq, Inhabited

structure SegmentInfo where
  path : Nat            -- index of the file in the SegFS (stands for BasePath)
  segmentNumber : Int
  segmentSize : Int
  fileSize : Nat
  totalBlocks : Nat
  globalOffset : Int
deriving Repr, DecidableEq, Inhabited

/-! ### GetSegmentNumberFromPath -/

def dropTrailingSlashes (p : Bytes) : Bytes := (p.reverse.dropWhile (· == 47)).reverse

/-- the part after the last occurrence of `c` (everything when `c` does not occur) -/
def afterLast (c : UInt8) (p : Bytes) : Bytes := (p.reverse.takeWhile (· != c)).reverse

/-- path/filepath.Base on Unix -/
def pathBase (path : Bytes) : Bytes :=
  if path.isEmpty then [46]
  else
    let p := afterLast 47 (dropTrailingSlashes path)
    if p.isEmpty then [47] else p

def getSegmentNumberFromPath (path : Bytes) : Int :=
  let base := pathBase path
  if !base.contains 46 then 0
  else match atoi (afterLast 46 base) with
    | some n => n
    | none => 0

/-! ### GetSegmentInfo / ListSegments -/

abbrev SegFS := List (Option Bytes)

def SegFS.file (fs : SegFS) (i : Nat) : Option Bytes := (fs[i]?).join

def effSegSize (opts : Option SegmentOptions) : Int :=
  match opts with
  | some o => if o.segmentSize > 0 then o.segmentSize else defaultSegmentSize
  | none => defaultSegmentSize

/-- `pathSeg` = GetSegmentNumberFromPath(path) of the file's name -/
def getSegmentInfo (fs : SegFS) (i : Nat) (pathSeg : Int) (opts : Option SegmentOptions) : R SegmentInfo :=
  match fs.file i with
  | none => .error .osOpen
  | some f =>
    let segSize := effSegSize opts
    let segNum := match opts with
      | some o => if o.segmentNumber > 0 then o.segmentNumber else pathSeg
      | none => pathSeg
    .ok ⟨i, segNum, segSize, f.length, f.length / 8192, wrap64 (segNum * segSize)⟩

/-- `for i := 1; i < 1000; i++ { stat base.i; if err break; append }`, `n` iterations left -/
def listMore (fs : SegFS) : Nat → Nat → List SegmentInfo
  | 0, _ => []
  | n+1, i =>
    match fs.file i with
    | none => []
    | some f => ⟨i, i, defaultSegmentSize, f.length, f.length / 8192, (i : Int) * defaultSegmentSize⟩ :: listMore fs n (i + 1)

def listSegments (fs : SegFS) : List SegmentInfo :=
  (match fs.file 0 with
   | some f => [⟨0, 0, defaultSegmentSize, f.length, f.length / 8192, 0⟩]
   | none => []) ++ listMore fs 999 1

/-! ### ReadSegmentBlock -/

def readSegmentBlock (fs : SegFS) (i : Nat) (pathSeg : Int) (blockNum : Int) (opts : Option SegmentOptions) : R Bytes :=
  match getSegmentInfo fs i pathSeg opts with
  | .error e => .error e
  | .ok info =>
    if blockNum ≥ info.totalBlocks then .error .segBeyond
    else match fs.file i with
      | none => .error .osOpen
      | some f => fileReadAt f (wrap64 (blockNum * 8192)) 8192

/-! ### ReadMultiSegmentFile -/

/-- Go's truncated division and remainder -/
def goDiv (a b : Int) : M Int := if b = 0 then throw .divZero else pure (Int.tdiv a b)
def goMod (a b : Int) : M Int := if b = 0 then throw .divZero else pure (Int.tmod a b)

/-- Go: `segments[i]` with an `int` index -/
def segAt (segments : List SegmentInfo) (i : Int) : M SegmentInfo :=
  if i < 0 then throw .index
  else match segments[i.toNat]? with
    | some s => pure s
    | none => throw .index

/-- the block loop; `fuel` iterations allowed (enough: see `readMultiSegmentFile`) -/
def multiLoop (fs : SegFS) (segments : List SegmentInfo) (bps : Int) (stop : Int) (opts : Option SegmentOptions) :
    Nat → Int → M Bytes
  | 0, _ => throw .budget
  | fuel+1, blockNum =>
    if blockNum ≤ stop then do
      let segIdx ← goDiv blockNum bps
      let localBlock ← goMod blockNum bps
      if segIdx ≥ segments.length then pure []
      else
        let seg ← segAt segments segIdx
        -- the segment number derived from the file name base.<i> is i
        match readSegmentBlock fs seg.path seg.path localBlock opts with
        | .error _ => pure []
        | .ok block =>
          let rest ← multiLoop fs segments bps stop opts fuel (blockNum + 1)
          pure (block ++ rest)
    else pure []

def readMultiSegmentFile (fs : SegFS) (globalStart globalEnd : Int) (opts : Option SegmentOptions) : M (R Bytes) :=
  let segments := listSegments fs
  if segments.isEmpty then pure (.error .noSegments)
  else
    let segSize := match opts with
      | some o => if o.segmentSize > 0 then o.segmentSize else defaultSegmentSize
      | none => defaultSegmentSize
    let bps := Int.tdiv segSize 8192
    if bps ≤ 0 then pure (.error .smallSegment)            -- fix 05
    else if globalStart < 0 then pure (.error .negative)   -- fix 05
    else do
      -- the loop leaves at the latest when blockNum / bps ≥ len(segments)
      let fuel := ((segments.length : Int) * bps - globalStart).toNat + 2
      let data ← multiLoop fs segments bps globalEnd opts fuel globalStart
      pure (.ok data)

/-! ### GlobalBlockToSegment (fix 06: sizes below one block fall back to the default) -/

def globalBlockToSegment (globalBlock segmentSize : Int) : M (Int × Int) := do
  let segmentSize := if segmentSize < 8192 then defaultSegmentSize else segmentSize
  let bps := Int.tdiv segmentSize 8192
  let seg ← goDiv globalBlock bps
  let loc ← goMod globalBlock bps
  pure (seg, loc)

end PgVerif.Model
