/-
  Executable (Boolean) form of the hypotheses of the full dump theorem `C01_dump` (Props/C01.lean), so that the
  families can say for every generated cluster whether it lies in the theorem's scope (tag `hyp:dump=ok`), and
  `Proofs/ClusterHyp.lean` can prove that the Boolean implies the hypotheses.  Core only (driver path).
-/
import PgVerif.Model.Cluster
namespace PgVerif.Model.ClusterHyp
open PgVerif PgVerif.Model

/-- attnums i+1, i+2, … without gaps -/
def denseB : Nat → List Spec.AttrRow → Bool
  | _, [] => true
  | i, a :: as => a.num == (i : Int) + 1 && denseB (i + 1) as

/-- the heap of relation `r` is readable with the catalog's columns: dense attnums -/
def relReadableB (d : Spec.DbContent) (r : Spec.ClassRow) : Bool :=
  denseB 0 (Spec.userAttrs d.att r.oid)

/-- attstorage is 'p', 'e', 'm' or 'x' -/
def storageOKB (a : Spec.AttrRow) : Bool := a.storage == 112 || a.storage == 101 || a.storage == 109 || a.storage == 120

/-- the version hint names the layout, or there is none and every live attstorage is a legal character (what the
automatic choice of the layout relies on) -/
def schemaOKB (l : Spec.Layout) (att : Spec.HeapOf Spec.AttrRow) (ver : Nat) : Bool :=
  (decide (16 ≤ ver) && l == .v16) ||
  (decide (14 ≤ ver) && decide (ver < 16) && l == .v14) ||
  (decide (12 ≤ ver) && decide (ver < 14) && l == .v12) ||
  (decide (ver < 12) && att.live.all storageOKB)

def dumpableB (l : Spec.Layout) (d : Spec.DbContent) (o : Spec.Options) : Bool :=
  schemaOKB l d.att o.pgVersion && decide (GoCase.FilterStable o d.cls.live) && decide (Spec.A02Free d o) &&
  d.cls.live.all fun r =>
    !Spec.selectedRel o r ||
      (r.filenode != 1259 && r.filenode != 1249 && (d.raws.lookup r.filenode).isNone &&
       (match d.heaps.lookup r.filenode with
        | some pages => o.listOnly || pages.isEmpty || relReadableB d r
        | none => true))

/-- the cluster lies in none of the classes of the open findings C01-TPL, C01-SEG, C01-TBLSPC, C01-MAPPED, C01-MISSINGVAL (A02
is per database and options: `dumpableB`), and every database that `o` selects and that has a directory is dumpable -/
def dumpHypB (c : Spec.Cluster) (o : Spec.Options) : Bool :=
  decide (Spec.TemplatesByName c) && decide c.Plain && decide c.IdentityMapped && decide c.NoFastDefaults &&
  c.dbs.live.all fun db =>
    !Spec.selectedDb o db ||
      match c.content.lookup db.oid with
      | some d => dumpableB c.layout d o
      | none => true

end PgVerif.Model.ClusterHyp
