/-
  Executable (Boolean) form of the hypotheses of the full dump theorem `C01_dump` (Props/C01.lean), so that the
  families can say for every generated cluster whether it lies in the theorem's scope (tag `hyp:dump=ok`), and
  `Proofs/ClusterHyp.lean` can prove that the Boolean implies the hypotheses.  Core only (driver path).
-/
import PgVerif.Model.Cluster
namespace PgVerif.Model.ClusterHyp
open PgVerif PgVerif.Model

/-- the byte the tool takes for attalign (finding A03): high byte of attcacheoff (−1) on the 12–15 layouts, of
atttypmod on the 16 layout -/
def toolAlignNat (l : Spec.Layout) (a : Spec.AttrRow) : Nat :=
  (match l with
   | .v16 => ofSigned 32 a.typmod
   | _ => ofSigned 32 (-1)) / 256 / 256 / 256 % 256

/-- attnums i+1, i+2, … without gaps -/
def denseB : Nat → List Spec.AttrRow → Bool
  | _, [] => true
  | i, a :: as => a.num == (i : Int) + 1 && denseB (i + 1) as

/-- the heap of relation `r` is readable by the tool: dense attnums, the tool's alignment is the true one (not A03),
a table without columns has no live row (not A01z) -/
def relReadableB (l : Spec.Layout) (d : Spec.DbContent) (r : Spec.ClassRow) : Bool :=
  let attrs := Spec.userAttrs d.att r.oid
  denseB 0 attrs &&
  attrs.all (fun a => colAlign ⟨a.name, a.typid, a.len, a.num, toolAlignNat l a⟩ == a.align) &&
  (!attrs.isEmpty ||
    match d.heaps.lookup r.filenode with
    | some pages => (Spec.liveRows pages []).isEmpty
    | none => true)

def firstFiveB (live : List Spec.AttrRow) : Bool :=
  decide (live.length ≥ 5) && ((live.take 5).zipIdx.all fun (a, i) => a.num == (i : Int) + 1)

/-- the tool's choice of pg_attribute schema is the right one (not A04) -/
def schemaOKB (l : Spec.Layout) (att : Spec.HeapOf Spec.AttrRow) (ver : Nat) : Bool :=
  (decide (16 ≤ ver) && l == .v16) ||
  (decide (12 ≤ ver) && decide (ver < 16) && l != .v16) ||
  (decide (ver < 12) &&
    ((l == .v16 && firstFiveB att.live) ||
     (l != .v16 &&
       match att.live.head? with
       | some a => decide (-65536 ≤ a.stattarget) && decide (a.stattarget < 65536)
       | none => true)))

def dumpableB (l : Spec.Layout) (d : Spec.DbContent) (o : Spec.Options) : Bool :=
  schemaOKB l d.att o.pgVersion &&
  d.cls.live.all fun r =>
    !Spec.selectedRel o r ||
      (r.filenode != 1259 && r.filenode != 1249 && (d.raws.lookup r.filenode).isNone &&
       (match d.heaps.lookup r.filenode with
        | some pages => o.listOnly || pages.isEmpty || relReadableB l d r
        | none => true))

/-- every database that `o` selects and that has a directory is dumpable -/
def dumpHypB (c : Spec.Cluster) (o : Spec.Options) : Bool :=
  c.dbs.live.all fun db =>
    !Spec.selectedDb o db ||
      match c.content.lookup db.oid with
      | some d => dumpableB c.layout d o
      | none => true

end PgVerif.Model.ClusterHyp
