/-
  Model of pgdump/checksum.go (with fixes 04/07/08/09/11 of /verif/fixes/block applied).

  The accounting functions take the checksum function `ck : Bytes → Nat → Nat` as a parameter
  (page bytes, block number ↦ 16-bit checksum); `computePageChecksum` / `pgChecksumBlock` / `checksumComp` are the
  tool's functions (since fix 11: PostgreSQL's pg_checksum_page algorithm), modelled exactly with uint32 wrap-around
  arithmetic (`mask32`).

  File system = parameter: `DataDirFS` — the entries of `<dataDir>/global`, of `<dataDir>/base` and of each
  database directory, and of `<dataDir>/pg_tblspc/<spcoid>/PG_…/<dboid>`, in any order (os.ReadDir sorts by
  name: `sortByName`); `ReadControlFile` (area
  control) enters only through `checksumsEnabled`.
-/
import PgVerif.Model.Block
namespace PgVerif.Model
open PgVerif

/-! ### the tool's checksum functions -/

def mask32 (v : Nat) : Nat := v % 2 ^ 32

/-- checksum.go:checksumComp on uint32 values (fix 11): `tmp := checksum ^ value; return tmp*fnvPrime ^ (tmp >> 17)`
— Go precedence: `*` and `>>` bind tighter than `^`; the product wraps to 32 bits -/
def checksumComp (checksum value : Nat) : Nat :=
  let tmp := checksum ^^^ value
  mask32 (tmp * 16777619) ^^^ (tmp >>> 17)

/-- checksum.go: `var checksumBaseOffsets = [32]uint32{…}` -/
def checksumBaseOffsets : List Nat :=
  [0x5B1F36E9, 0xB8525960, 0x02AB50AA, 0x1DE66D2A, 0x79FF467A, 0x9BB9F8A3, 0x217E7CD2, 0x83E13D2C,
   0xF8D4474F, 0xE39EB970, 0x42C6AE16, 0x993216FA, 0x7B093B5D, 0x98DAFF3C, 0xF718902A, 0x0B1C9CDB,
   0xE58F764B, 0x187636BC, 0x5D7B3BB1, 0xE73DE7DE, 0x92BEC979, 0xCCA6C0B2, 0x304A0979, 0x85AA43D4,
   0x783125BB, 0x6CA8EAA2, 0xE407EAC6, 0x4B5CFC3E, 0x9FBF8C76, 0x15CA20BE, 0xF2CA9FD3, 0x959BD756]

/-- the little-endian 32-bit words of a byte string (whole words only) -/
def words32 : Bytes → List Nat
  | a :: b :: c :: d :: rest => (a.toNat + 256 * b.toNat + 65536 * c.toNat + 16777216 * d.toNat) :: words32 rest
  | _ => []

/-- `pageCopy := make([]byte, PageSize); copy(pageCopy, page); pageCopy[8] = 0; pageCopy[9] = 0` -/
def pageCopy (page : Bytes) : Bytes :=
  let c := page.take 8192 ++ zeros (8192 - page.length)
  c.take 8 ++ [0, 0] ++ c.drop 10

/-- `idx := i % nSums; sums[idx] = checksumComp(sums[idx], word)` for word number `i` -/
def pgSumsStep (sums : List Nat) (iw : Nat × Nat) : List Nat :=
  sums.set (iw.1 % 32) (checksumComp (sums.getD (iw.1 % 32) 0) iw.2)

/-- `for j := range sums { sums[j] = checksumComp(sums[j], 0) }` -/
def zeroRound (sums : List Nat) : List Nat := sums.map (checksumComp · 0)

/-- checksum.go:pgChecksumBlock (any length; `blockNumber` is a uint32): its own copy with bytes 8, 9 zeroed, the words
in order into partial sum `i % 32`, two rounds of zeroes, xor of the sums, `^ blockNumber`,
`uint16(result%65535 + 1)` -/
def pgChecksumBlock (page : Bytes) (blockNumber : Nat) : Nat :=
  let c := if page.length > 9 then page.take 8 ++ [0, 0] ++ page.drop 10 else page
  let ws := words32 c
  let sums := ((List.range ws.length).zip ws).foldl pgSumsStep checksumBaseOffsets
  let sums := zeroRound (zeroRound sums)
  let result := sums.foldl (· ^^^ ·) 0
  (((result ^^^ blockNumber) % 65535) + 1) % 65536

/-- checksum.go:computePageChecksum (the function VerifyPageChecksum uses; fix 11): `pgChecksumBlock` of a copy of
exactly one page with the checksum field zeroed -/
def computePageChecksum (page : Bytes) (blockNumber : Nat) : Nat :=
  pgChecksumBlock (pageCopy page) blockNumber

/-! ### VerifyPageChecksum / VerifyFileChecksums -/

structure ChecksumResult where
  blockNumber : Nat
  stored : Nat
  computed : Nat
  valid : Bool
  lsn : Nat
  lsnStr : String
deriving Repr, DecidableEq, Inhabited

def verifyPageChecksum (ck : Bytes → Nat → Nat) (page : Bytes) (blockNumber : Nat) : M ChecksumResult := do
  if page.length < 8192 then return ⟨blockNumber, 0, 0, false, 0, ""⟩
  if allZero page then return ⟨blockNumber, 0, 0, true, 0, ""⟩
  let stored ← (do let s ← slice page 8 10; uN 2 s 0)
  let hi ← (do let s ← slice page 0 4; uN 4 s 0)
  let lo ← (do let s ← slice page 4 8; uN 4 s 0)
  let lsn := hi * 2 ^ 32 + lo
  let computed := ck page blockNumber
  return ⟨blockNumber, stored, computed, stored == computed, lsn, formatLSN lsn⟩

structure FileChecksumResult where
  totalBlocks : Nat
  validBlocks : Nat
  invalidBlocks : Nat
  zeroBlocks : Nat
  errors : List ChecksumResult
deriving Repr, DecidableEq, Inhabited

/-- the page loop of VerifyFileChecksums: `n` iterations left, next index `i`, `rest = data[i*PS:]`
(cursor, see `takeM`), accumulated result -/
def verifyFileLoop (ck : Bytes → Nat → Nat) (baseBlock : Nat) :
    Nat → Nat → Bytes → FileChecksumResult → M FileChecksumResult
  | 0, _, _, acc => pure acc
  | n+1, i, rest, acc => do
    let page ← takeM rest 8192
    if allZero page then
      verifyFileLoop ck baseBlock n (i + 1) (rest.drop 8192)
        { acc with zeroBlocks := acc.zeroBlocks + 1, validBlocks := acc.validBlocks + 1 }
    else
      let res ← verifyPageChecksum ck page (mask32 (baseBlock + mask32 i))
      if res.valid then
        verifyFileLoop ck baseBlock n (i + 1) (rest.drop 8192) { acc with validBlocks := acc.validBlocks + 1 }
      else
        verifyFileLoop ck baseBlock n (i + 1) (rest.drop 8192)
          { acc with invalidBlocks := acc.invalidBlocks + 1, errors := acc.errors ++ [res] }

def verifyFileChecksums (ck : Bytes → Nat → Nat) (data : Bytes) (segmentNumber : Nat) : M FileChecksumResult :=
  let total := data.length / 8192
  verifyFileLoop ck (mask32 (segmentNumber * 131072)) total 0 data ⟨total, 0, 0, 0, []⟩

/-! ### VerifyDataDirChecksums -/

inductive DbEntry where
  | file (data : Bytes)
  | dir
deriving Repr, DecidableEq, Inhabited

inductive BaseEntry where
  | file
  | dir (entries : List (Bytes × DbEntry))
deriving Repr, Inhabited

/-- an entry of `pg_tblspc/<spcoid>/`: a plain file (or a symbolic link: `DirEntry.IsDir()` is false for it) or a
real directory with its entries (the database directories of one server version) -/
inductive VerEntry where
  | file
  | dir (dbs : List (Bytes × BaseEntry))
deriving Repr, Inhabited

/-- an entry of `pg_tblspc/`: something `os.ReadDir` cannot list (a plain file, a dangling link) or a directory /
symbolic link to a directory with its entries -/
inductive SpcEntry where
  | file
  | dir (vers : List (Bytes × VerEntry))
deriving Repr, Inhabited

structure DataDirFS where
  checksumsEnabled : Bool                      -- ReadControlFile ok ∧ DataChecksumsEnabled
  base : Option (List (Bytes × BaseEntry))     -- none: `<dataDir>/base` cannot be read
  global : Option (List (Bytes × DbEntry))     -- none: `<dataDir>/global` cannot be read (fixes 08)
  tblspc : List (Bytes × SpcEntry)             -- entries of `<dataDir>/pg_tblspc` ([] when it cannot be read; fix 09)
deriving Repr, Inhabited

/-- byte-wise string order (Go's string `<`), as used by os.ReadDir's sort -/
def nameLt : Bytes → Bytes → Bool
  | [], [] => false
  | [], _ :: _ => true
  | _ :: _, [] => false
  | a :: as, b :: bs => if a < b then true else if b < a then false else nameLt as bs

def insertByName {α} (x : Bytes × α) : List (Bytes × α) → List (Bytes × α)
  | [] => [x]
  | y :: ys => if nameLt y.1 x.1 then y :: insertByName x ys else x :: y :: ys

/-- os.ReadDir returns the entries sorted by file name -/
def sortByName {α} (xs : List (Bytes × α)) : List (Bytes × α) := xs.foldr insertByName []

/-- index of the last occurrence of `c` (strings.LastIndexByte) -/
def lastIndexByte (s : Bytes) (c : UInt8) : Option Nat :=
  let r := s.reverse
  if r.contains c then some (s.length - 1 - (r.takeWhile (· != c)).length) else none

/-- `"_fsm"`, `"_vm"`, `"_init"` -/
def forkSuffixes : List Bytes := [[95, 102, 115, 109], [95, 118, 109], [95, 105, 110, 105, 116]]

/-- strings.HasSuffix -/
def nameEndsIn (s suf : Bytes) : Bool := suf.length ≤ s.length && s.drop (s.length - suf.length) == suf

/-- `for _, fork := range {"_fsm","_vm","_init"} { if HasSuffix(base, fork) { base = TrimSuffix(base, fork); break } }` -/
def stripFork (base : Bytes) : Bytes :=
  match forkSuffixes.find? (nameEndsIn base) with
  | some suf => base.take (base.length - suf.length)
  | none => base

/-- the file-name filter of the scan (fixes 07, 08): `<uint32>[_fsm|_vm|_init]` → segment 0,
`<uint32>[_fsm|_vm|_init].<uint32>` → that segment, anything else is skipped -/
def relFileSegment (name : Bytes) : Option Nat :=
  match lastIndexByte name 46 with
  | some dot =>
    match parseUint32 (name.drop (dot + 1)) with
    | none => none
    | some seg => if (parseUint32 (stripFork (name.take dot))).isSome then some seg else none
  | none => if (parseUint32 (stripFork name)).isSome then some 0 else none

/-- a scanned file: directory (path relative to the data directory), file name, result -/
structure ScannedFile where
  db : Bytes
  name : Bytes
  result : FileChecksumResult
deriving Repr, DecidableEq, Inhabited

/-- `scanDir`: the loop over the (sorted) entries of one directory of relation files -/
def scanDbFiles (ck : Bytes → Nat → Nat) (db : Bytes) : List (Bytes × DbEntry) → M (List ScannedFile)
  | [] => pure []
  | (name, e) :: rest =>
    match e with
    | .dir => scanDbFiles ck db rest
    | .file data =>
      match relFileSegment name with
      | none => scanDbFiles ck db rest
      | some seg =>
        if data.length < 8192 then scanDbFiles ck db rest
        else do
          let r ← verifyFileChecksums ck data seg
          let more ← scanDbFiles ck db rest
          pure (⟨db, name, r⟩ :: more)

/-- `filepath.Join(dir, name)` for clean relative components -/
def joinPath (dir name : Bytes) : Bytes := dir ++ [47] ++ name

/-- the loop over the (sorted) entries of a directory of database directories (`base`, or
`pg_tblspc/<spcoid>/PG_…`): every real directory whose name is a uint32 is scanned -/
def scanBase (ck : Bytes → Nat → Nat) (dir : Bytes) : List (Bytes × BaseEntry) → M (List ScannedFile)
  | [] => pure []
  | (name, e) :: rest =>
    match e with
    | .file => scanBase ck dir rest
    | .dir entries =>
      if (parseUint32 name).isNone then scanBase ck dir rest
      else do
        let fs ← scanDbFiles ck (joinPath dir name) (sortByName entries)
        let more ← scanBase ck dir rest
        pure (fs ++ more)

/-- `"PG_"` -/
def pgPrefix : Bytes := [80, 71, 95]

/-- the loop over the (sorted) entries of one tablespace directory: real directories named `PG_…` -/
def scanVers (ck : Bytes → Nat → Nat) (spcPath : Bytes) : List (Bytes × VerEntry) → M (List ScannedFile)
  | [] => pure []
  | (name, e) :: rest =>
    match e with
    | .file => scanVers ck spcPath rest
    | .dir dbs =>
      if name.take 3 != pgPrefix then scanVers ck spcPath rest
      else do
        let fs ← scanBase ck (joinPath spcPath name) (sortByName dbs)
        let more ← scanVers ck spcPath rest
        pure (fs ++ more)

/-- `"pg_tblspc"` -/
def tblspcName : Bytes := [112, 103, 95, 116, 98, 108, 115, 112, 99]

/-- the loop over the (sorted) entries of `pg_tblspc`: names that are a uint32 and can be listed -/
def scanSpcs (ck : Bytes → Nat → Nat) : List (Bytes × SpcEntry) → M (List ScannedFile)
  | [] => pure []
  | (name, e) :: rest =>
    if (parseUint32 name).isNone then scanSpcs ck rest
    else
      match e with
      | .file => scanSpcs ck rest
      | .dir vers => do
        let fs ← scanVers ck (joinPath tblspcName name) (sortByName vers)
        let more ← scanSpcs ck rest
        pure (fs ++ more)

structure DataDirChecksumResult where
  checksumsEnabled : Bool
  totalFiles : Nat
  totalBlocks : Nat
  validBlocks : Nat
  invalidBlocks : Nat
  files : List ScannedFile       -- only those with errors, in scan order
deriving Repr, Inhabited

def summarize (enabled : Bool) (scanned : List ScannedFile) : DataDirChecksumResult :=
  { checksumsEnabled := enabled,
    totalFiles := scanned.length,
    totalBlocks := (scanned.map (·.result.totalBlocks)).sum,
    validBlocks := (scanned.map (·.result.validBlocks)).sum,
    invalidBlocks := (scanned.map (·.result.invalidBlocks)).sum,
    files := scanned.filter fun f => !f.result.errors.isEmpty }

/-- `"global"`, `"base"` -/
def globalName : Bytes := [103, 108, 111, 98, 97, 108]
def baseName : Bytes := [98, 97, 115, 101]

def verifyDataDirChecksums (ck : Bytes → Nat → Nat) (fs : DataDirFS) : M (R DataDirChecksumResult) :=
  match fs.base with
  | none => pure (.error .noBase)
  | some entries => do
    let g ← match fs.global with
      | none => pure []
      | some es => scanDbFiles ck globalName (sortByName es)
    let scanned ← scanBase ck baseName (sortByName entries)
    let t ← scanSpcs ck (sortByName fs.tblspc)
    pure (.ok (summarize fs.checksumsEnabled (g ++ scanned ++ t)))

end PgVerif.Model
