/-
  A Go map that is visited in key order (areas `control`, `toast`; REVIEW B1):

      keys := make([]uint32, 0, len(m)); for k := range m { keys = append(keys, k) }
      sort.Slice(keys, func(i, j int) bool { return keys[i] < keys[j] })
      for _, k := range keys { v := m[k]; … }

  The map is an association list with pairwise distinct keys; the `range` yields its entries in an
  unspecified order (a parameter `π` of the model function: any rearrangement); sorting distinct keys
  ascending and looking each one up again is sorting the entries by key.  On distinct keys every correct
  sorting algorithm returns the same list, so an insertion sort stands for `sort.Slice`.
  Core Lean only (driver path).
-/
namespace PgVerif.Model

/-- insert `a` before the first element whose key is not smaller -/
def keyInsert {α} (key : α → Nat) (a : α) : List α → List α
  | [] => [a]
  | b :: bs => if key a ≤ key b then a :: b :: bs else b :: keyInsert key a bs

/-- the entries in ascending key order -/
def keySort {α} (key : α → Nat) (l : List α) : List α := l.foldr (keyInsert key) []

end PgVerif.Model
