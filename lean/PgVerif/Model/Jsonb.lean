/-
  Model of pgdump/jsonb.go:22-154 (ParseJSONB, parseJSONBObject, parseJSONBArray, totalLen,
  entryOffLen, endOffset, decodeJEntry) and of the OidNumeric / OidJSONB branches of
  types.go:decodeScalar, as repaired by fixes/numjson/04..08.

  The mutual recursion ParseJSONB → decodeJEntry → ParseJSONB is by fuel; `parseJSONB` supplies
  `len(data) + 1`, which is enough because a child slice starts at or after `dataStart ≥ 8`
  (Proofs/Jsonb.lean: the result does not depend on surplus fuel, and the budget fault is unreachable).
  Go maps are association lists with Go's overwrite-on-equal-key semantics.
-/
import PgVerif.Model.Numeric
namespace PgVerif.Model
open PgVerif

/-- a decoded JSON value as a Go `interface{}`: nil, bool, number (see `NumRes`), string,
`[]interface{}`, `map[string]interface{}` -/
inductive JV where
  | nil
  | bool (b : Bool)
  | num (r : NumRes)          -- `.none` never occurs here (it is mapped to `nil`)
  | str (s : Bytes)
  | arr (xs : List JV)
  | obj (kvs : List (Bytes × JV))
deriving Repr, Inhabited

def JV.ofNum : NumRes → JV
  | .none => .nil
  | r => .num r

/-- Go map assignment `m[k] = v` -/
def jvInsert (m : List (Bytes × JV)) (k : Bytes) (v : JV) : List (Bytes × JV) :=
  if m.any (·.1 == k) then m.map fun kv => if kv.1 == k then (k, v) else kv else m ++ [(k, v)]

/-- binary.go:align(off, 4) = `(off + 3) &^ 3` -/
def align4 (off : Nat) : Nat := andNot (off + 3) 3

def jeHasOff (je : Nat) : Bool := je &&& 0x80000000 != 0
def jeOffLen (je : Nat) : Nat := je &&& 0x0FFFFFFF

/-! ### endOffset / entryOffLen / totalLen -/

/-- `Σ_{j=a}^{a+n-1} int(entries[j] & jeOffMask)` -/
def sumFrom (es : List Nat) (a : Nat) : Nat → Nat
  | 0 => 0
  | n+1 => jeOffLen (es.getD a 0) + sumFrom es (a+1) n

/-- the backward scan of `endOffset` for a HAS_OFF entry: `k` positions (k-1 … 0) still to look at -/
def scan (es : List Nat) (idx : Nat) : Nat → Option Nat
  | 0 => none
  | k+1 =>
    if jeHasOff (es.getD k 0) then
      some (jeOffLen (es.getD k 0) + sumFrom es (k+1) (idx - k))
    else scan es idx k

/-- jsonb.go:endOffset for `0 ≤ idx < len(entries)` -/
def endOffset (es : List Nat) (idx : Nat) : Nat :=
  match scan es idx (idx+1) with
  | some v => v
  | none => sumFrom es 0 (idx+1)

/-- jsonb.go:entryOffLen for `idx < len(entries)`: (offset, length); the length is negative when a
HAS_OFF entry stores an end offset below its start -/
def entryOffLenPure (es : List Nat) (idx base : Nat) : Nat × Int :=
  let je := es.getD idx 0
  let start := if idx > 0 then endOffset es (idx-1) else 0
  if jeHasOff je then (base + start, (jeOffLen je : Int) - start) else (base + start, jeOffLen je)

/-- jsonb.go:entryOffLen (`entries[idx]` panics when out of range) -/
def entryOffLen (es : List Nat) (idx base : Nat) : M (Nat × Int) :=
  if idx < es.length then pure (entryOffLenPure es idx base) else throw .index

/-- jsonb.go:totalLen -/
def totalLen (es : List Nat) : Nat := if es.length == 0 then 0 else endOffset es (es.length - 1)

/-! ### decodeJEntry -/

/-- jsonb.go:decodeJEntry; `rec` is ParseJSONB with the remaining fuel -/
def decodeJEntry (rec : Bytes → M JV) (data : Bytes) (off : Nat) (length : Int) (je : Nat) : M JV := do
  let ty := je &&& 0x70000000
  if ty == 0x00000000 then
    if length ≥ 0 ∧ off + length.toNat ≤ data.length then
      return .str (← slice data off (off + length.toNat))
    return .nil
  else if ty == 0x10000000 then
    let aligned := align4 off
    let pad := aligned - off
    if (pad : Int) < length ∧ aligned + length.toNat - pad ≤ data.length then
      let s ← slice data aligned (aligned + length.toNat - pad)
      return JV.ofNum (← decodeJNumeric s)
    return .nil
  else if ty == 0x50000000 then
    let aligned := align4 off
    let pad := aligned - off
    if (pad : Int) < length ∧ aligned + length.toNat - pad ≤ data.length then
      let s ← slice data aligned (aligned + length.toNat - pad)
      rec s
    else return .nil
  else if ty == 0x40000000 then return .nil
  else if ty == 0x20000000 then return .bool false
  else if ty == 0x30000000 then return .bool true
  else return .nil

/-! ### containers -/

/-- `for i := range entries { entries[i] = u32(data, 4+i*4) }`, `n` iterations left -/
def readEntries (data : Bytes) : Nat → Nat → M (List Nat)
  | 0, _ => pure []
  | n+1, i => do
    let e ← uN 4 data (4 + i * 4)
    let rest ← readEntries data n (i + 1)
    pure (e :: rest)

/-- the monotonicity check of fix 08: running end offset, `none` = refuse -/
def monotoneFrom (end_ : Nat) : List Nat → Bool
  | [] => true
  | je :: rest =>
    let v := jeOffLen je
    if !jeHasOff je then monotoneFrom (end_ + v) rest
    else if v < end_ then false
    else monotoneFrom v rest

/-- `entries[i]` -/
def getEntry (es : List Nat) (i : Nat) : M Nat :=
  match es[i]? with
  | some e => pure e
  | none => throw .index

/-- jsonb.go:parseJSONBArray loop, `n` iterations left, at index `i` -/
def parseArrayLoop (rec : Bytes → M JV) (data : Bytes) (entries : List Nat) (dataStart : Nat) :
    Nat → Nat → M (List JV)
  | 0, _ => pure []
  | n+1, i => do
    let (off, len) ← entryOffLen entries i 0
    let je ← getEntry entries i
    let v ← decodeJEntry rec data (dataStart + off) len je
    let rest ← parseArrayLoop rec data entries dataStart n (i + 1)
    pure (v :: rest)

/-- jsonb.go:parseJSONBObject loop: pairs in iteration order (later equal keys overwrite earlier
ones when the map is built, see `buildMap`) -/
def parseObjectLoop (rec : Bytes → M JV) (data : Bytes) (entries : List Nat) (dataStart count : Nat) :
    Nat → Nat → M (List (Bytes × JV))
  | 0, _ => pure []
  | n+1, i => do
    let (kOff, kLen) ← entryOffLen entries i 0
    let key ← (if kLen ≥ 0 ∧ dataStart + kOff + kLen.toNat ≤ data.length then
        slice data (dataStart + kOff) (dataStart + kOff + kLen.toNat) else pure [] : M Bytes)
    let (vOff, vLen) ← entryOffLen entries (count + i) 0
    let je ← getEntry entries (count + i)
    let v ← decodeJEntry rec data (dataStart + vOff) vLen je
    let rest ← parseObjectLoop rec data entries dataStart count n (i + 1)
    pure ((key, v) :: rest)

def buildMap (kvs : List (Bytes × JV)) : List (Bytes × JV) :=
  kvs.foldl (fun m kv => jvInsert m kv.1 kv.2) []

/-- the body of jsonb.go:ParseJSONB; `rec` is ParseJSONB itself (with the remaining fuel), reached
through decodeJEntry for container children -/
def parseContainer (rec : Bytes → M JV) (data : Bytes) : M JV := do
  if data.length < 4 then return .nil
  let header ← uN 4 data 0
  let count := header &&& 0x0FFFFFFF
  let isObj := header &&& 0x20000000 != 0
  let isArr := header &&& 0x40000000 != 0
  if (!isObj && !isArr) || count > 10000 then return .nil
  if count == 0 then return (if isObj then .obj [] else .arr [])
  let numEntries := if isObj then count * 2 else count
  if 4 + numEntries * 4 > data.length then return .nil
  let entries ← readEntries data numEntries 0
  let dataStart := 4 + numEntries * 4
  if !monotoneFrom 0 entries then return .nil
  if isObj then
    let kvs ← parseObjectLoop rec data entries dataStart count count 0
    return .obj (buildMap kvs)
  else
    let xs ← parseArrayLoop rec data entries dataStart count 0
    if header &&& 0x10000000 != 0 then
      match xs with
      | [x] => return x
      | _ => return .arr xs
    return .arr xs

/-- jsonb.go:ParseJSONB with explicit fuel for the recursion through decodeJEntry -/
def parseJSONBFuel : Nat → Bytes → M JV
  | 0, _ => throw .budget
  | fuel+1, data => parseContainer (parseJSONBFuel fuel) data

/-- jsonb.go:ParseJSONB -/
def parseJSONB (data : Bytes) : M JV := parseJSONBFuel (data.length + 1) data

/-! ### types.go: the two DecodeType branches in scope -/

/-- the result of DecodeType for these oids: a JSON value or (fallback) the raw bytes as a string.
`safeString`'s replacement of invalid UTF-8 by '.' is not modelled: the fallback is rendered as
`raw` + the bytes and compared as such only when they are valid UTF-8 (see the handler). -/
inductive DecodeRes where
  | val (v : JV)
  | raw (s : Bytes)
deriving Repr, Inhabited

/-- types.go: `case OidNumeric: return DecodeNumeric(data)` behind DecodeType's `len(data) == 0 → nil` -/
def decodeTypeNumeric (data : Bytes) : M NumRes :=
  if data.length == 0 then pure .none else decodeNumeric data

def isNil : JV → Bool
  | .nil => true
  | _ => false

/-- types.go: `case OidJSONB` (with fix 06: the 8-byte document `null`) -/
def decodeTypeJSONB (data : Bytes) : M DecodeRes := do
  if data.length == 0 then return .val .nil
  let v ← parseJSONB data
  if !isNil v then return .val v
  if data.length == 8 then
    let h ← uN 4 data 0
    let e ← uN 4 data 4
    if h == 0x50000001 ∧ e &&& 0x70000000 == 0x40000000 then return .val .nil
  return .raw data

end PgVerif.Model
