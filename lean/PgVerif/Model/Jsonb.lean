/-
  Model of pgdump/jsonb.go (ParseJSONB, parseJSONBObject, parseJSONBArray, totalLen,
  entryOffLen, endOffset, decodeJEntry) and of the OidNumeric / OidJSONB branches of
  types.go:decodeScalar, as repaired by fixes/numjson/04..08 and 10.

  Fix 10: no constant cap on the number of children (the count is bounded by the input: the JEntry
  words must lie inside the data), and the end offsets of all entries are computed in ONE forward
  pass (`endsFrom`), which is also fix 08's monotonicity check.  The loops walk the slices
  `entries[i:]` / `ends[i:]` as lists (an exhausted list = Go's index-out-of-range panic), so the
  model itself is linear in the number of entries.  `endOffset` / `entryOffLen` / `totalLen` are
  still in the source (the repository's tests call them) but ParseJSONB no longer does;
  Proofs/Jsonb.lean shows they compute the same offsets.

  The mutual recursion ParseJSONB → decodeJEntry → ParseJSONB is by fuel; `parseJSONB` supplies
  `len(data) + 1`, which is enough because a child slice starts at or after `dataStart ≥ 8`
  (Proofs/Jsonb.lean: the result does not depend on surplus fuel, and the budget fault is unreachable).
  Go maps are association lists with Go's overwrite-on-equal-key semantics.
-/
import PgVerif.Model.Numeric
namespace PgVerif.Model
open PgVerif

/-- a decoded JSON value as a Go `interface{}`: nil, bool, number (see `NumRes`), string,
`[]interface{}`, `map[string]interface{}` -/
inductive JV where
  | nil
  | bool (b : Bool)
  | num (r : NumRes)          -- `.none` never occurs here (it is mapped to `nil`)
  | str (s : Bytes)
  | arr (xs : List JV)
  | obj (kvs : List (Bytes × JV))
deriving Repr, Inhabited

def JV.ofNum : NumRes → JV
  | .none => .nil
  | r => .num r

/-- Go map assignment `m[k] = v` -/
def jvInsert (m : List (Bytes × JV)) (k : Bytes) (v : JV) : List (Bytes × JV) :=
  if m.any (·.1 == k) then m.map fun kv => if kv.1 == k then (k, v) else kv else m ++ [(k, v)]

/-- binary.go:align(off, 4) = `(off + 3) &^ 3` -/
def align4 (off : Nat) : Nat := andNot (off + 3) 3

def jeHasOff (je : Nat) : Bool := je &&& 0x80000000 != 0
def jeOffLen (je : Nat) : Nat := je &&& 0x0FFFFFFF

/-! ### endOffset / entryOffLen / totalLen -/

/-- `Σ_{j=a}^{a+n-1} int(entries[j] & jeOffMask)` -/
def sumFrom (es : List Nat) (a : Nat) : Nat → Nat
  | 0 => 0
  | n+1 => jeOffLen (es.getD a 0) + sumFrom es (a+1) n

/-- the backward scan of `endOffset` for a HAS_OFF entry: `k` positions (k-1 … 0) still to look at -/
def scan (es : List Nat) (idx : Nat) : Nat → Option Nat
  | 0 => none
  | k+1 =>
    if jeHasOff (es.getD k 0) then
      some (jeOffLen (es.getD k 0) + sumFrom es (k+1) (idx - k))
    else scan es idx k

/-- jsonb.go:endOffset for `0 ≤ idx < len(entries)` -/
def endOffset (es : List Nat) (idx : Nat) : Nat :=
  match scan es idx (idx+1) with
  | some v => v
  | none => sumFrom es 0 (idx+1)

/-- jsonb.go:entryOffLen for `idx < len(entries)`: (offset, length); the length is negative when a
HAS_OFF entry stores an end offset below its start -/
def entryOffLenPure (es : List Nat) (idx base : Nat) : Nat × Int :=
  let je := es.getD idx 0
  let start := if idx > 0 then endOffset es (idx-1) else 0
  if jeHasOff je then (base + start, (jeOffLen je : Int) - start) else (base + start, jeOffLen je)

/-- jsonb.go:entryOffLen (`entries[idx]` panics when out of range) -/
def entryOffLen (es : List Nat) (idx base : Nat) : M (Nat × Int) :=
  if idx < es.length then pure (entryOffLenPure es idx base) else throw .index

/-- jsonb.go:totalLen -/
def totalLen (es : List Nat) : Nat := if es.length == 0 then 0 else endOffset es (es.length - 1)

/-! ### decodeJEntry -/

/-- Go: `data[lo:hi]`, `dlen` being `len(data)` — the same as `slice` of Basic/Bytes (Proofs/Jsonb.lean:
`sliceL_eq`), written drop-then-take so that evaluating it does not copy the `lo` bytes in front, and with
the length handed in (`len` is O(1) on a Go slice but walks the whole list in the model; the compiled
model is run on containers with tens of thousands of children) -/
def sliceL (data : Bytes) (dlen lo hi : Nat) : M Bytes :=
  if hi > dlen ∨ lo > hi then throw .slice else pure ((data.drop lo).take (hi - lo))

/-- jsonb.go:decodeJEntry with `dlen` = `len(data)` handed in; `rec` is ParseJSONB with the remaining fuel -/
def decodeJEntryN (rec : Bytes → M JV) (data : Bytes) (dlen off : Nat) (length : Int) (je : Nat) : M JV := do
  let ty := je &&& 0x70000000
  if ty == 0x00000000 then
    if length ≥ 0 ∧ off + length.toNat ≤ dlen then
      return .str (← sliceL data dlen off (off + length.toNat))
    return .nil
  else if ty == 0x10000000 then
    let aligned := align4 off
    let pad := aligned - off
    if (pad : Int) < length ∧ aligned + length.toNat - pad ≤ dlen then
      let s ← sliceL data dlen aligned (aligned + length.toNat - pad)
      return JV.ofNum (← decodeJNumeric s)
    return .nil
  else if ty == 0x50000000 then
    let aligned := align4 off
    let pad := aligned - off
    if (pad : Int) < length ∧ aligned + length.toNat - pad ≤ dlen then
      let s ← sliceL data dlen aligned (aligned + length.toNat - pad)
      rec s
    else return .nil
  else if ty == 0x40000000 then return .nil
  else if ty == 0x20000000 then return .bool false
  else if ty == 0x30000000 then return .bool true
  else return .nil

/-- jsonb.go:decodeJEntry -/
def decodeJEntry (rec : Bytes → M JV) (data : Bytes) (off : Nat) (length : Int) (je : Nat) : M JV :=
  decodeJEntryN rec data data.length off length je

/-! ### containers -/

/-- `for i := range entries { entries[i] = u32(data, 4+i*4) }`: `n` iterations left, `d` = `data[4+i*4:]`
(`u32` panics exactly when fewer than 4 bytes are left; tested as "the slice after 3 bytes is empty"
so that the test does not walk the whole remaining input) -/
def readEntries : Nat → Bytes → M (List Nat)
  | 0, _ => pure []
  | n+1, d =>
    if (d.drop 3).isEmpty then throw .index
    else do
      let rest ← readEntries n (d.drop 4)
      pure (rd 4 d :: rest)

/-- the forward pass of ParseJSONB (fix 10) over `entries[i:]`, `end_` = end offset of entry i-1:
`ends[i] = v` where HAS_OFF is set, `ends[i-1] + v` elsewhere; `none` = refuse, the monotonicity
check of fix 08 (a HAS_OFF end offset below the running end) -/
def endsFrom (end_ : Nat) : List Nat → Option (List Nat)
  | [] => some []
  | je :: rest =>
    let v := jeOffLen je
    if !jeHasOff je then (endsFrom (end_ + v) rest).map ((end_ + v) :: ·)
    else if v < end_ then none
    else (endsFrom v rest).map (v :: ·)

/-- `entries[i]` -/
def getEntry (es : List Nat) (i : Nat) : M Nat :=
  match es[i]? with
  | some e => pure e
  | none => throw .index

/-- `xs[n:]` of a `[]uint32` / `[]int` -/
def dropM (xs : List Nat) (n : Nat) : M (List Nat) :=
  if n > xs.length then throw .slice else pure (xs.drop n)

/-- jsonb.go:parseJSONBArray loop: `n` iterations left, `off` = end offset of the previous entry
(`ends[i-1]`, 0 for the first), `es` / `ends` = `entries[i:]` / `ends[i:]`; `dlen` = `len(data)` -/
def parseArrayLoop (rec : Bytes → M JV) (data : Bytes) (dlen dataStart : Nat) :
    Nat → Nat → List Nat → List Nat → M (List JV)
  | 0, _, _, _ => pure []
  | n+1, off, je :: es, e :: ends => do
    let v ← decodeJEntryN rec data dlen (dataStart + off) ((e : Int) - off) je
    let rest ← parseArrayLoop rec data dlen dataStart n e es ends
    pure (v :: rest)
  | _+1, _, _, _ => throw .index

/-- the key of a pair: `data[dataStart+kOff : dataStart+kOff+kLen]` if that lies in the data, else "" -/
def objKeyN (data : Bytes) (dlen dataStart kOff : Nat) (kLen : Int) : M Bytes :=
  if kLen ≥ 0 ∧ dataStart + kOff + kLen.toNat ≤ dlen then
    sliceL data dlen (dataStart + kOff) (dataStart + kOff + kLen.toNat)
  else pure []

def objKey (data : Bytes) (dataStart kOff : Nat) (kLen : Int) : M Bytes :=
  objKeyN data data.length dataStart kOff kLen

/-- jsonb.go:parseJSONBObject loop: pairs in iteration order (later equal keys overwrite earlier
ones when the map is built, see `buildMap`); `n` iterations left, `kOff` / `vOff` = end offsets of the
previous key / value entry, `kEnds` = `ends[i:]`, `vals` / `valEnds` = `vals[i:]` / `valEnds[i:]` -/
def parseObjectLoop (rec : Bytes → M JV) (data : Bytes) (dlen dataStart : Nat) :
    Nat → Nat → Nat → List Nat → List Nat → List Nat → M (List (Bytes × JV))
  | 0, _, _, _, _, _ => pure []
  | n+1, kOff, vOff, ke :: kEnds, je :: vals, ve :: valEnds => do
    let key ← objKeyN data dlen dataStart kOff ((ke : Int) - kOff)
    let v ← decodeJEntryN rec data dlen (dataStart + vOff) ((ve : Int) - vOff) je
    let rest ← parseObjectLoop rec data dlen dataStart n ke ve kEnds vals valEnds
    pure ((key, v) :: rest)
  | _+1, _, _, _, _, _ => throw .index

/-- jsonb.go:parseJSONBObject -/
def parseObject (rec : Bytes → M JV) (data : Bytes) (dlen : Nat) (entries ends : List Nat) (dataStart count : Nat) :
    M (List (Bytes × JV)) := do
  let vals ← dropM entries count
  let valEnds ← dropM ends count
  let vOff ← getEntry ends (count - 1)
  parseObjectLoop rec data dlen dataStart count 0 vOff ends vals valEnds

def buildMap (kvs : List (Bytes × JV)) : List (Bytes × JV) :=
  kvs.foldl (fun m kv => jvInsert m kv.1 kv.2) []

/-- the body of jsonb.go:ParseJSONB; `rec` is ParseJSONB itself (with the remaining fuel), reached
through decodeJEntry for container children -/
def parseContainer (rec : Bytes → M JV) (data : Bytes) : M JV := do
  let dlen := data.length        -- `len(data)`, computed once (see `sliceL`)
  if dlen < 4 then return .nil
  let header ← uN 4 data 0
  let count := header &&& 0x0FFFFFFF
  let isObj := header &&& 0x20000000 != 0
  let isArr := header &&& 0x40000000 != 0
  if !isObj && !isArr then return .nil
  if count == 0 then return (if isObj then .obj [] else .arr [])
  let numEntries := if isObj then count * 2 else count
  if 4 + numEntries * 4 > dlen then return .nil
  let entries ← readEntries numEntries (← sliceFrom data 4)
  let dataStart := 4 + numEntries * 4
  match endsFrom 0 entries with
  | none => return .nil
  | some ends =>
    if isObj then
      let kvs ← parseObject rec data dlen entries ends dataStart count
      return .obj (buildMap kvs)
    else
      let xs ← parseArrayLoop rec data dlen dataStart count 0 entries ends
      if header &&& 0x10000000 != 0 then
        match xs with
        | [x] => return x
        | _ => return .arr xs
      return .arr xs

/-- jsonb.go:ParseJSONB with explicit fuel for the recursion through decodeJEntry -/
def parseJSONBFuel : Nat → Bytes → M JV
  | 0, _ => throw .budget
  | fuel+1, data => parseContainer (parseJSONBFuel fuel) data

/-- jsonb.go:ParseJSONB -/
def parseJSONB (data : Bytes) : M JV := parseJSONBFuel (data.length + 1) data

/-! ### types.go: the two DecodeType branches in scope -/

/-- the result of DecodeType for these oids: a JSON value or (fallback) the raw bytes as a string.
`safeString`'s replacement of invalid UTF-8 by '.' is not modelled: the fallback is rendered as
`raw` + the bytes and compared as such only when they are valid UTF-8 (see the handler). -/
inductive DecodeRes where
  | val (v : JV)
  | raw (s : Bytes)
deriving Repr, Inhabited

/-- types.go: `case OidNumeric: return DecodeNumeric(data)` behind DecodeType's `len(data) == 0 → nil` -/
def decodeTypeNumeric (data : Bytes) : M NumRes :=
  if data.length == 0 then pure .none else decodeNumeric data

def isNil : JV → Bool
  | .nil => true
  | _ => false

/-- types.go: `case OidJSONB` (with fix 06: the 8-byte document `null`) -/
def decodeTypeJSONB (data : Bytes) : M DecodeRes := do
  if data.length == 0 then return .val .nil
  let v ← parseJSONB data
  if !isNil v then return .val v
  if data.length == 8 then
    let h ← uN 4 data 0
    let e ← uN 4 data 4
    if h == 0x50000001 ∧ e &&& 0x70000000 == 0x40000000 then return .val .nil
  return .raw data

end PgVerif.Model
