/-
  The reported control record seen through the Spec's `ControlView` (every field of the model's
  ControlFile except the inferred major version, which is not a stored field).
-/
import PgVerif.Model.Control
import PgVerif.Spec.Control
namespace PgVerif.Model
open PgVerif

def ControlFile.toView (f : ControlFile) : Spec.ControlView :=
  { systemIdentifier := f.systemIdentifier, pgControlVersion := f.pgControlVersion,
    catalogVersionNo := f.catalogVersionNo, state := f.state, stateString := f.stateString,
    checkpointLSN := f.checkpointLSN, redoLSN := f.redoLSN, redoWALFile := f.redoWALFile,
    timeLineID := f.timeLineID, prevTimeLineID := f.prevTimeLineID, fullPageWrites := f.fullPageWrites,
    nextXIDEpoch := f.nextXIDEpoch, nextXID := f.nextXID, nextOID := f.nextOID, nextMulti := f.nextMulti,
    nextMultiOffset := f.nextMultiOffset, oldestXID := f.oldestXID, oldestXIDDB := f.oldestXIDDB,
    oldestActiveXID := f.oldestActiveXID, oldestMulti := f.oldestMulti, oldestMultiDB := f.oldestMultiDB,
    oldestCommitTsXID := f.oldestCommitTsXID, newestCommitTsXID := f.newestCommitTsXID,
    checkpointTime := f.checkpointTime, walLevel := f.walLevel, walLogHints := f.walLogHints,
    maxConnections := f.maxConnections, maxWorkerProcesses := f.maxWorkerProcesses,
    maxWALSenders := f.maxWALSenders, maxPreparedXacts := f.maxPreparedXacts,
    maxLocksPerXact := f.maxLocksPerXact, trackCommitTS := f.trackCommitTS, maxAlign := f.maxAlign,
    blockSize := f.blockSize, blocksPerSeg := f.blocksPerSeg, walBlockSize := f.walBlockSize,
    walSegmentSize := f.walSegmentSize, nameDataLen := f.nameDataLen, indexMaxKeys := f.indexMaxKeys,
    toastMaxChunk := f.toastMaxChunk, largeObjectChunk := f.largeObjectChunk,
    floatFormatOK := f.floatFormatOK, dataChecksumsEnabled := f.dataChecksumsEnabled,
    crc := f.crc, crcValid := f.crcValid }

end PgVerif.Model
