/-
  Model of pgdump/relmap.go.  The `os` calls are a file-system parameter (`fs path` = the content `readRegularFile`
  returns, `none` = its error return: a missing file or — since fixes/entry/02 — anything that is not a regular file;
  on regular files it is `os.ReadFile`, which is what the families put there); ParsePGDatabase (another area)
  is a parameter of readAllRelMaps.  SystemCatalogNames is a parameter of the functions that use it (the
  driver passes the table generated from the code by executing it: Generated.Control.catalogNames).
-/
import PgVerif.Basic.Bytes
import PgVerif.Model.Control
namespace PgVerif.Model
open PgVerif

structure RelMapping where
  oid : Nat
  filenode : Nat
deriving Repr, DecidableEq, Inhabited

structure RelMapFile where
  magic : Nat
  numMappings : Int
  mappings : List RelMapping
  crc : Nat
  isGlobal : Bool := false
  path : String := ""
deriving Repr, DecidableEq, Inhabited

/-- `for i := int32(0); i < rm.NumMappings; i++ { if offset+8 > len(data) { break } … offset += 8 }` -/
def relMapLoop (data : Bytes) : Nat → Nat → M (List RelMapping)
  | 0, _ => pure []
  | n+1, offset => do
    if offset + 8 > data.length then return []
    let oid ← uN 4 data offset
    let filenode ← uN 4 data (offset + 4)
    let rest ← relMapLoop data n (offset + 8)
    pure (⟨oid, filenode⟩ :: rest)

/-- relMapIsV16 (fixes/control/21): which layout the image is in.  Fewer than 524 bytes → 12–15; more than 62 mappings →
16; else the layout whose stored CRC-32C verifies over the bytes before it, the 16 one (520) tried first, then the
12–15 one (504); when neither verifies the exact size decides.  `verifyCRC32C` is control.go's (Model/Control.lean). -/
def relMapIsV16 (data : Bytes) (numMappings : Int) : M Bool := do
  if data.length < 524 then return false
  if numMappings > 62 then return true
  let bodyV16 ← slice data 0 520
  let crcV16 ← uN 4 data 520
  if verifyCRC32C bodyV16 crcV16 then return true
  let body ← slice data 0 504
  let crc ← uN 4 data 504
  if verifyCRC32C body crc then return false
  return data.length == 524

/-- ParseRelMapFile (with fixes/control/09 and 21: the PostgreSQL 16 layout — 64 slots, crc at 520 — when relMapIsV16
says so, else the 12–15 layout — 62 slots, crc at 504); `none` = error return -/
def parseRelMapFile (data : Bytes) : M (Option RelMapFile) := do
  if data.length < 512 then return none
  let magic ← uN 4 data 0
  if magic ≠ 0x592717 then return none
  let numMappings := toSigned 32 (← uN 4 data 4)
  let isV16 ← relMapIsV16 data numMappings
  let maxMappings : Nat := if isV16 then 64 else 62
  if numMappings < 0 ∨ numMappings > maxMappings then return none
  let mappings ← relMapLoop data numMappings.toNat 8
  let crc ← (if isV16 then uN 4 data 520 else uN 4 data 504 : M Nat)
  return some { magic, numMappings, mappings, crc }

/-- (rm *RelMapFile) GetFilenode -/
def relMapGetFilenode (ms : List RelMapping) (oid : Nat) : Nat :=
  match ms with
  | [] => 0
  | m :: rest => if m.oid = oid then m.filenode else relMapGetFilenode rest oid

/-- (rm *RelMapFile) GetOID (catalog.go has an unrelated getOID) -/
def relMapGetOID (ms : List RelMapping) (filenode : Nat) : Nat :=
  match ms with
  | [] => 0
  | m :: rest => if m.filenode = filenode then m.oid else relMapGetOID rest filenode

/-- GetCatalogName over the table `names` (SystemCatalogNames) -/
def getCatalogName (names : List (Nat × String)) (oid : Nat) : String :=
  match names.find? (·.1 == oid) with | some e => e.2 | none => ""

structure EnhancedRelMapping where
  oid : Nat
  filenode : Nat
  catalogName : String
deriving Repr, DecidableEq, Inhabited

/-- GetEnhancedMappings -/
def getEnhancedMappings (names : List (Nat × String)) (ms : List RelMapping) : List EnhancedRelMapping :=
  ms.map fun m => ⟨m.oid, m.filenode, getCatalogName names m.oid⟩

/-- ReadGlobalRelMap -/
def readGlobalRelMap (fs : String → Option Bytes) (dataDir : String) : M (Option RelMapFile) := do
  let path := dataDir ++ "/global/pg_filenode.map"
  match fs path with
  | none => return none
  | some data =>
    match ← parseRelMapFile data with
    | none => return none
    | some rm => return some { rm with isGlobal := true, path }

/-- ReadDatabaseRelMap -/
def readDatabaseRelMap (fs : String → Option Bytes) (dataDir : String) (dbOID : Nat) : M (Option RelMapFile) := do
  let path := dataDir ++ "/base/" ++ toString dbOID ++ "/pg_filenode.map"
  match fs path with
  | none => return none
  | some data =>
    match ← parseRelMapFile data with
    | none => return none
    | some rm => return some { rm with isGlobal := false, path }

structure RelMapInfo where
  global : RelMapFile
  databases : List RelMapFile
deriving Repr, DecidableEq, Inhabited

/-- ReadAllRelMaps; `parseDatabase` = the oids ParsePGDatabase returns, in order -/
def readAllRelMaps (fs : String → Option Bytes) (parseDatabase : Bytes → List Nat) (dataDir : String) :
    M (Option RelMapInfo) := do
  match ← readGlobalRelMap fs dataDir with
  | none => return none
  | some g =>
    match fs (dataDir ++ "/global/1262") with
    | none => return some ⟨g, []⟩
    | some dbData =>
      let rec go : List Nat → M (List RelMapFile)
        | [] => pure []
        | oid :: rest => do
          match ← readDatabaseRelMap fs dataDir oid with
          | none => go rest
          | some rm => return rm :: (← go rest)
      return some ⟨g, ← go (parseDatabase dbData)⟩

end PgVerif.Model
