/-
  Model of pgdump/relmap.go.  The `os` calls are a file-system parameter; ParsePGDatabase (another area)
  is a parameter of readAllRelMaps.  SystemCatalogNames is a parameter of the functions that use it (the
  driver passes the table generated from the code by executing it: Generated.Control.catalogNames).
-/
import PgVerif.Basic.Bytes
namespace PgVerif.Model
open PgVerif

structure RelMapping where
  oid : Nat
  filenode : Nat
deriving Repr, DecidableEq, Inhabited

structure RelMapFile where
  magic : Nat
  numMappings : Int
  mappings : List RelMapping
  crc : Nat
  isGlobal : Bool := false
  path : String := ""
deriving Repr, DecidableEq, Inhabited

/-- `for i := int32(0); i < rm.NumMappings; i++ { if offset+8 > len(data) { break } … offset += 8 }` -/
def relMapLoop (data : Bytes) : Nat → Nat → M (List RelMapping)
  | 0, _ => pure []
  | n+1, offset => do
    if offset + 8 > data.length then return []
    let oid ← uN 4 data offset
    let filenode ← uN 4 data (offset + 4)
    let rest ← relMapLoop data n (offset + 8)
    pure (⟨oid, filenode⟩ :: rest)

/-- ParseRelMapFile (with fixes/control/09: a file of exactly 524 bytes is the PostgreSQL 16 layout — 64 slots, crc at
520 — anything else of at least 512 bytes the 12–15 layout — 62 slots, crc at 504); `none` = error return -/
def parseRelMapFile (data : Bytes) : M (Option RelMapFile) := do
  if data.length < 512 then return none
  let magic ← uN 4 data 0
  if magic ≠ 0x592717 then return none
  let maxMappings : Nat := if data.length = 524 then 64 else 62
  let numMappings := toSigned 32 (← uN 4 data 4)
  if numMappings < 0 ∨ numMappings > maxMappings then return none
  let mappings ← relMapLoop data numMappings.toNat 8
  -- crcOffset = 8 + maxMappings*8 = 504 or 520
  let crcOffset := 8 + maxMappings * 8
  let crc ← (if data.length ≥ crcOffset + 4 then uN 4 data crcOffset else pure 0 : M Nat)
  return some { magic, numMappings, mappings, crc }

/-- (rm *RelMapFile) GetFilenode -/
def relMapGetFilenode (ms : List RelMapping) (oid : Nat) : Nat :=
  match ms with
  | [] => 0
  | m :: rest => if m.oid = oid then m.filenode else relMapGetFilenode rest oid

/-- (rm *RelMapFile) GetOID (catalog.go has an unrelated getOID) -/
def relMapGetOID (ms : List RelMapping) (filenode : Nat) : Nat :=
  match ms with
  | [] => 0
  | m :: rest => if m.filenode = filenode then m.oid else relMapGetOID rest filenode

/-- GetCatalogName over the table `names` (SystemCatalogNames) -/
def getCatalogName (names : List (Nat × String)) (oid : Nat) : String :=
  match names.find? (·.1 == oid) with | some e => e.2 | none => ""

structure EnhancedRelMapping where
  oid : Nat
  filenode : Nat
  catalogName : String
deriving Repr, DecidableEq, Inhabited

/-- GetEnhancedMappings -/
def getEnhancedMappings (names : List (Nat × String)) (ms : List RelMapping) : List EnhancedRelMapping :=
  ms.map fun m => ⟨m.oid, m.filenode, getCatalogName names m.oid⟩

/-- ReadGlobalRelMap -/
def readGlobalRelMap (fs : String → Option Bytes) (dataDir : String) : M (Option RelMapFile) := do
  let path := dataDir ++ "/global/pg_filenode.map"
  match fs path with
  | none => return none
  | some data =>
    match ← parseRelMapFile data with
    | none => return none
    | some rm => return some { rm with isGlobal := true, path }

/-- ReadDatabaseRelMap -/
def readDatabaseRelMap (fs : String → Option Bytes) (dataDir : String) (dbOID : Nat) : M (Option RelMapFile) := do
  let path := dataDir ++ "/base/" ++ toString dbOID ++ "/pg_filenode.map"
  match fs path with
  | none => return none
  | some data =>
    match ← parseRelMapFile data with
    | none => return none
    | some rm => return some { rm with isGlobal := false, path }

structure RelMapInfo where
  global : RelMapFile
  databases : List RelMapFile
deriving Repr, DecidableEq, Inhabited

/-- ReadAllRelMaps; `parseDatabase` = the oids ParsePGDatabase returns, in order -/
def readAllRelMaps (fs : String → Option Bytes) (parseDatabase : Bytes → List Nat) (dataDir : String) :
    M (Option RelMapInfo) := do
  match ← readGlobalRelMap fs dataDir with
  | none => return none
  | some g =>
    match fs (dataDir ++ "/global/1262") with
    | none => return some ⟨g, []⟩
    | some dbData =>
      let rec go : List Nat → M (List RelMapFile)
        | [] => pure []
        | oid :: rest => do
          match ← readDatabaseRelMap fs dataDir oid with
          | none => go rest
          | some rm => return rm :: (← go rest)
      return some ⟨g, ← go (parseDatabase dbData)⟩

end PgVerif.Model
