/-
  Model of pgdump/toast.go:decompressPGLZ (after fixes/toast/02: tag bytes in PostgreSQL's order, length
  extension) and of the copy loop it shares with decompressLZ4.
  Representation: the Go code walks `data` with an index `pos`; the model carries the remaining input
  `data[pos:]` instead (same reads, same order).  `out` is Go's `result`.
  Core Lean only (driver path).
-/
import PgVerif.Basic.Bytes
namespace PgVerif.Model.Pglz
open PgVerif

/-- Go: `for i := 0; i < length && len(result) < rawSize; i++ { result = append(result, result[start+i%offset]) }`
(`n` = iterations left, `i` = loop variable), fault-aware: an out-of-range index is a panic -/
def copyLoopM (start off raw : Nat) : Nat → Nat → Bytes → M Bytes
  | 0, _, out => pure out
  | n+1, i, out =>
    if out.length < raw then do
      if off = 0 then throw .divZero
      let b ← idx out (start + i % off)
      copyLoopM start off raw n (i+1) (out ++ [b])
    else pure out

/-- the same loop without the bounds check (equal to `copyLoopM` whenever `start + off ≤ len(result)`,
`off > 0`, which both callers establish: see `copyLoopM_eq`) -/
def copyLoop (start off raw : Nat) : Nat → Nat → Bytes → Bytes
  | 0, _, out => out
  | n+1, i, out =>
    if out.length < raw then copyLoop start off raw n (i+1) (out ++ [out.getD (start + i % off) 0]) else out

def decLen (b0 : UInt8) : Nat := (b0.toNat &&& 0x0F) + 3
def decOff (b0 b1 : UInt8) : Nat := ((b0.toNat &&& 0xF0) <<< 4) ||| b1.toNat

/-- the inner loop `for bit := 0; bit < 8 && pos < len(data) && len(result) < rawSize; bit++`;
`n` = iterations left; returns (remaining input, result) -/
def items (raw : Nat) : Nat → Nat → Nat → Bytes → Bytes → M (Bytes × Bytes)
  | 0, _, _, data, out => pure (data, out)
  | n+1, ctrl, bit, data, out =>
    if data = [] ∨ ¬ out.length < raw then pure (data, out)
    else if ctrl.testBit bit then
      match data with
      | b0 :: b1 :: rest =>                      -- `if pos+1 >= len(data) { break }` otherwise
        let len := decLen b0
        let off := decOff b0 b1
        if len = 18 then
          match rest with
          | b2 :: r2 =>
            let len := len + b2.toNat
            if off = 0 ∨ off > out.length then items raw n ctrl (bit+1) r2 out      -- `continue`
            else do
              let out ← copyLoopM (out.length - off) off raw len 0 out
              items raw n ctrl (bit+1) r2 out
          | [] => pure (rest, out)               -- `if pos >= len(data) { break }`
        else
          if off = 0 ∨ off > out.length then items raw n ctrl (bit+1) rest out
          else do
            let out ← copyLoopM (out.length - off) off raw len 0 out
            items raw n ctrl (bit+1) rest out
      | _ => pure (data, out)
    else
      match data with
      | b :: rest => items raw n ctrl (bit+1) rest (out ++ [b])
      | [] => pure (data, out)

/-- the outer loop `for pos < len(data) && len(result) < rawSize`; `f` = iterations left -/
def decompress (raw : Nat) : Nat → Bytes → Bytes → M Bytes
  | 0, _, out => pure out
  | f+1, data, out =>
    if data = [] ∨ ¬ out.length < raw then pure out
    else match data with
      | ctrl :: rest => do
        let r ← items raw 8 ctrl.toNat 0 rest out
        decompress raw f r.1 r.2
      | [] => pure out

/-- `decompress` with the iteration budget made VISIBLE: the same loop, except that a budget used up while the Go loop
condition (`pos < len(data) && len(result) < rawSize`) still holds is a fault (`.budget`) instead of a silent return.
Used only to state termination (`Props.C10.Toast.C10_terminates_decompressPGLZ`): `decompress` equals it whenever the
budget exceeds len(data), so the Go loop has left its condition within len(data)+1 iterations. -/
def decompressB (raw : Nat) : Nat → Bytes → Bytes → M Bytes
  | 0, data, out => if data = [] ∨ ¬ out.length < raw then pure out else throw .budget
  | f+1, data, out =>
    if data = [] ∨ ¬ out.length < raw then pure out
    else match data with
      | ctrl :: rest => do
        let r ← items raw 8 ctrl.toNat 0 rest out
        decompressB raw f r.1 r.2
      | [] => pure out

/-! ### compiled code: the same loops over arrays (`@[csimp]`, proved equal; the list versions above are what
the theorems talk about, the array versions are what the driver executes) -/

def copyLoopMA (start off raw : Nat) : Nat → Nat → Array UInt8 → M (Array UInt8)
  | 0, _, out => pure out
  | n+1, i, out =>
    if out.size < raw then
      if off = 0 then throw .divZero
      else match out[start + i % off]? with
        | some b => copyLoopMA start off raw n (i+1) (out.push b)
        | none => throw .index
    else pure out

theorem copyLoopMA_eq (start off raw n i : Nat) (out : Array UInt8) :
    (copyLoopMA start off raw n i out).map Array.toList = copyLoopM start off raw n i out.toList := by
  induction n generalizing i out with
  | zero => rfl
  | succ n ih =>
    simp only [copyLoopMA, copyLoopM, Array.length_toList]
    split
    · split
      · rfl
      · simp only [idx, Array.getElem?_toList]
        cases h : out[start + i % off]? with
        | none => rfl
        | some b =>
          simp only [ok_bind, pure_eq_ok]
          rw [ih]; simp
    · rfl

def itemsA (raw : Nat) : Nat → Nat → Nat → Bytes → Array UInt8 → M (Bytes × Array UInt8)
  | 0, _, _, data, out => pure (data, out)
  | n+1, ctrl, bit, data, out =>
    if data = [] ∨ ¬ out.size < raw then pure (data, out)
    else if ctrl.testBit bit then
      match data with
      | b0 :: b1 :: rest =>
        let len := decLen b0
        let off := decOff b0 b1
        if len = 18 then
          match rest with
          | b2 :: r2 =>
            let len := len + b2.toNat
            if off = 0 ∨ off > out.size then itemsA raw n ctrl (bit+1) r2 out
            else do
              let out ← copyLoopMA (out.size - off) off raw len 0 out
              itemsA raw n ctrl (bit+1) r2 out
          | [] => pure (rest, out)
        else
          if off = 0 ∨ off > out.size then itemsA raw n ctrl (bit+1) rest out
          else do
            let out ← copyLoopMA (out.size - off) off raw len 0 out
            itemsA raw n ctrl (bit+1) rest out
      | _ => pure (data, out)
    else
      match data with
      | b :: rest => itemsA raw n ctrl (bit+1) rest (out.push b)
      | [] => pure (data, out)

def unA (r : Bytes × Array UInt8) : Bytes × Bytes := (r.1, r.2.toList)

theorem map_bind_copy {β γ} (start off raw n i : Nat) (out : Array UInt8) (k : Array UInt8 → M β) (k' : Bytes → M γ) (g : β → γ)
    (hk : ∀ o, (k o).map g = k' o.toList) :
    ((copyLoopMA start off raw n i out) >>= k).map g = (copyLoopM start off raw n i out.toList) >>= k' := by
  rw [← copyLoopMA_eq]
  cases copyLoopMA start off raw n i out with
  | error e => rfl
  | ok o => exact hk o

theorem itemsA_eq (raw n ctrl bit : Nat) (data : Bytes) (out : Array UInt8) :
    (itemsA raw n ctrl bit data out).map unA = items raw n ctrl bit data out.toList := by
  induction n generalizing bit data out with
  | zero => rfl
  | succ n ih =>
    simp only [itemsA, items, Array.length_toList]
    split
    · rfl
    · split
      · rcases data with _ | ⟨b0, _ | ⟨b1, rest⟩⟩
        · rfl
        · rfl
        · simp only []
          split
          · rcases rest with _ | ⟨b2, r2⟩
            · rfl
            · simp only []
              split
              · exact ih ..
              · exact map_bind_copy _ _ _ _ _ _ _ _ _ (fun o => ih ..)
          · split
            · exact ih ..
            · exact map_bind_copy _ _ _ _ _ _ _ _ _ (fun o => ih ..)
      · rcases data with _ | ⟨b, rest⟩
        · rfl
        · simp only []
          rw [ih]; simp

def decompressA (raw : Nat) : Nat → Bytes → Array UInt8 → M (Array UInt8)
  | 0, _, out => pure out
  | f+1, data, out =>
    if data = [] ∨ ¬ out.size < raw then pure out
    else match data with
      | ctrl :: rest => do
        let r ← itemsA raw 8 ctrl.toNat 0 rest out
        decompressA raw f r.1 r.2
      | [] => pure out

theorem decompressA_eq (raw f : Nat) (data : Bytes) (out : Array UInt8) :
    (decompressA raw f data out).map Array.toList = decompress raw f data out.toList := by
  induction f generalizing data out with
  | zero => rfl
  | succ f ih =>
    simp only [decompressA, decompress, Array.length_toList]
    split
    · rfl
    · rcases data with _ | ⟨ctrl, rest⟩
      · rfl
      · simp only []
        rw [← itemsA_eq]
        cases itemsA raw 8 ctrl.toNat 0 rest out with
        | error e => rfl
        | ok r => exact ih ..

def decompressFast (raw f : Nat) (data out : Bytes) : M Bytes := (decompressA raw f data out.toArray).map Array.toList

@[csimp] theorem decompress_eq_fast : @decompress = @decompressFast := by
  funext raw f data out
  simp [decompressFast, decompressA_eq]


/-- decompressPGLZ: `none` = the Go error return ("data too short").  Every outer iteration consumes the
control byte, so `len(data)+1` iterations are enough. -/
def decompressPGLZ (data : Bytes) (rawSize : Nat) : M (Option Bytes) :=
  if data.length < 4 then pure none
  else do
    let r ← decompress rawSize (data.length + 1) data []
    pure (some r)

end PgVerif.Model.Pglz
