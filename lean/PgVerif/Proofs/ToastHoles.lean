/-
  TOAST relation pages whose line pointer arrays contain LP_UNUSED / LP_DEAD / LP_REDIRECT entries
  (`Spec.Toast.toastPageH`, `encToastRelH`): the tuples behind the NORMAL pointers are the entries' tuples whatever holes
  lie before, between and behind them, so ReadTOASTTable returns the same chunks as for the dense page.
-/
import PgVerif.Proofs.ToastRel
import PgVerif.Proofs.ToastStats
namespace PgVerif.Proofs.Toast
open PgVerif PgVerif.Spec PgVerif.Spec.Toast PgVerif.Model.Toast

/-- a group of holes contributes nothing to anything computed from NORMAL pointers -/
theorem holeLPs_filterMap {β} (f : LP → Option β) (hf : ∀ a b c, f (.other a b c) = none) (start : Nat) (g : List Hole) :
    (holeLPs start g).filterMap f = [] := by
  induction g generalizing start with
  | nil => rfl
  | cons h g ih =>
    by_cases hc : h.storage.isEmpty = true
    · simp only [holeLPs, hc, if_true, List.filterMap_cons, hf, ih]
    · simp only [holeLPs, hc, if_false, List.filterMap_cons, hf, ih, Bool.false_eq_true]

theorem lpsH_filterMap {β} (f : LP → Option β) (hf : ∀ a b c, f (.other a b c) = none) (st : Nat → Nat) (hs : Holes)
    (l : List Nat) :
    (l.flatMap fun i => holeLPs (st i) (holesAt hs i) ++ [LP.normal i]).filterMap f = l.filterMap (fun i => f (.normal i)) := by
  induction l with
  | nil => rfl
  | cons i l ih =>
    simp only [List.flatMap_cons, List.filterMap_append, holeLPs_filterMap f hf, List.nil_append, ih]
    simp only [List.filterMap_cons, List.filterMap_nil]
    cases f (.normal i) <;> simp

theorem zipIdx_map_fst {α β} (g : α → β) (es : List α) (k : Nat) :
    (es.zipIdx k).map (fun p => g p.1) = es.map g := by
  induction es generalizing k with
  | nil => rfl
  | cons a es ih => simp [List.zipIdx_cons, ih]

/-- the slots of a page with holes: entry `i`'s tuple behind the storage of the holes in front of it -/
def slotsH (es : List Entry) (hs : Holes) : List (Bytes × Tuple) := es.zipIdx.map fun (e, i) => (junkAt hs i, e.tuple)

theorem slotsH_length (es : List Entry) (hs : Holes) : (slotsH es hs).length = es.length := by simp [slotsH]

theorem slotsH_snd (es : List Entry) (hs : Holes) : (slotsH es hs).map (·.2) = es.map Entry.tuple := by
  unfold slotsH
  rw [List.map_map]
  exact zipIdx_map_fst Entry.tuple es 0

theorem toastPageH_slots (es : List Entry) (hs : Holes) : (toastPageH es hs).slots = slotsH es hs := rfl

/-- the tuples behind the NORMAL pointers of a page with holes: the entries' tuples, in order -/
theorem toastPageH_tuples (es : List Entry) (hs : Holes) : (toastPageH es hs).normalTuples = es.map Entry.tuple := by
  unfold Page.normalTuples
  rw [toastPageH_slots]
  have hl : (toastPageH es hs).lps =
      ((List.range es.length).flatMap fun i =>
        holeLPs (8192 - (((slotsH es hs).map slotLen).sum + (junkAt hs es.length).length) + (((slotsH es hs).take i).map slotLen).sum)
          (holesAt hs i) ++ [.normal i]) ++
      holeLPs (8192 - (((slotsH es hs).map slotLen).sum + (junkAt hs es.length).length) +
        (((slotsH es hs).take es.length).map slotLen).sum) (holesAt hs es.length) := rfl
  rw [hl, List.filterMap_append, holeLPs_filterMap _ (fun _ _ _ => rfl), List.append_nil, lpsH_filterMap _ (fun _ _ _ => rfl)]
  have := range_filterMap (fun s : Bytes × Tuple => s.2) (slotsH es hs)
  rw [slotsH_length] at this
  rw [← slotsH_snd es hs]
  exact this

theorem xminOK_toastPageH (es : List Entry) (hs : Holes) (he : ∀ e ∈ es, e.WF) : xminOK (Block.page (toastPageH es hs)) := by
  intro s hsm
  rw [toastPageH_slots] at hsm
  have h2 : s.2 ∈ (slotsH es hs).map (·.2) := List.mem_map_of_mem hsm
  rw [slotsH_snd] at h2
  obtain ⟨e, hem, heq⟩ := List.mem_map.1 h2
  rw [← heq]
  exact (he e hem).2.2.2.1

/-- well-formedness of a layout with holes: every page is a well-formed PostgreSQL page (`Spec.Page.WF`: pointer fields in
range, NORMAL pointers name distinct stored tuples, the parts add up to 8192 bytes) and every stored row is well-formed.
Decidable; the families check it on every generated page (tag `pagewf=0` if violated). -/
def LayoutHWF (lay : Layout) (holes : List Holes) : Prop :=
  ∀ p ∈ lay.zipIdx, (toastPageH p.1 (holes.getD p.2 [])).WF ∧ ∀ e ∈ p.1, e.WF

instance (lay : Layout) (holes : List Holes) : Decidable (LayoutHWF lay holes) := by unfold LayoutHWF; infer_instance

theorem blocksH_tuples (holes : List Holes) (lay : Layout) (k : Nat) :
    ((lay.zipIdx k).map fun p => Block.page (toastPageH p.1 (holes.getD p.2 []))).flatMap Block.tuples =
      lay.flatten.map Entry.tuple := by
  induction lay generalizing k with
  | nil => rfl
  | cons pg lay ih =>
    simp only [List.zipIdx_cons, List.map_cons, List.flatMap_cons, Block.tuples, toastPageH_tuples, List.flatten_cons,
      List.map_append, ih]

theorem liveDatas_layoutH (lay : Layout) (holes : List Holes) :
    liveDatas (lay.zipIdx.map fun p => Block.page (toastPageH p.1 (holes.getD p.2 []))) =
      ((lay.flatten.filter (·.live)).map fun e => rowData e.row) := by
  simp only [liveDatas, toastTuples, blocksH_tuples, List.filter_map, List.map_map, Function.comp_def]
  rfl

/-- ReadTOASTTable on a relation whose pages have non-NORMAL line pointers anywhere in their pointer arrays: the live rows,
in physical order — the same chunks as without the holes -/
theorem readTOASTTable_layoutH (lay : Layout) (holes : List Holes) (h : LayoutHWF lay holes) :
    readTOASTTable (encToastRelH lay holes) = .ok (lay.liveRows.map toChunk) := by
  unfold encToastRelH
  rw [readTOASTTable_heap _ _ (by
    intro b hb
    simp only [List.mem_map] at hb
    obtain ⟨p, hp, rfl⟩ := hb
    exact (h p hp).1) (by
    intro b hb
    simp only [List.mem_map] at hb
    obtain ⟨p, hp, rfl⟩ := hb
    exact xminOK_toastPageH _ _ (h p hp).2) (by simp)]
  rw [liveDatas_layoutH lay holes]
  have e : (lay.flatten.filter (·.live)).map (fun e => rowData e.row) = lay.liveRows.map rowData := by
    simp [Layout.liveRows, List.map_map, Function.comp_def]
  rw [e]
  apply collectM_rows
  intro r hr
  simp only [Layout.liveRows, List.mem_map, List.mem_filter, List.mem_flatten] at hr
  obtain ⟨e, ⟨⟨pg, hpg, hem⟩, _⟩, rfl⟩ := hr
  obtain ⟨i, hi⟩ : ∃ i, (pg, i) ∈ lay.zipIdx := by
    obtain ⟨i, hlt, hget⟩ := List.getElem_of_mem hpg
    exact ⟨i, by rw [List.mem_zipIdx_iff_getElem?]; simp [hget, hlt]⟩
  exact ((h (pg, i) hi).2 e hem).1

/-- GetTOASTVerboseInfo on a relation with holes, for every iteration order of the value map -/
theorem verboseInfo_layoutH_with (π : GroupOrder) (hπ : ∀ l, (π l).Perm l) (relid : Nat) (lay : Layout) (holes : List Holes)
    (h : LayoutHWF lay holes) :
    (lay.liveRows = [] → getTOASTVerboseInfoWith π relid (encToastRelH lay holes) = .ok none) ∧
    (lay.liveRows ≠ [] → ∃ i, getTOASTVerboseInfoWith π relid (encToastRelH lay holes) = .ok (some i) ∧
      StatsOK relid lay.liveRows i) := by
  constructor
  · intro he
    unfold getTOASTVerboseInfoWith
    rw [readTOASTTable_layoutH lay holes h, he]
    rfl
  · intro hne
    refine ⟨_, ?_, verboseInfo_rows_with π hπ relid lay.liveRows hne⟩
    unfold getTOASTVerboseInfoWith
    rw [readTOASTTable_layoutH lay holes h]
    simp only [ok_bind]
    rw [if_neg (by simp; exact hne)]
    rfl

end PgVerif.Proofs.Toast
