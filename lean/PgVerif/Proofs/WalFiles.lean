/-
  File selection of ScanWALDirectory / GetRecentWALRecords: `walFiles` is sorted by name.  Helper lemmas for
  Props/C17.lean (`C17_files`).
-/
import PgVerif.Proofs.WalDir
namespace PgVerif.Proofs.Wal
open PgVerif PgVerif.Model.Wal

theorem insertSorted_str (x : String) (l : List String) (h : l.Pairwise fun a b => a ≤ b) :
    (insertSorted strLe x l).Pairwise fun a b => a ≤ b := by
  induction l with
  | nil => simp [insertSorted]
  | cons y ys ih =>
    unfold insertSorted
    rw [List.pairwise_cons] at h
    split
    · rename_i hle
      simp only [strLe, decide_eq_true_eq] at hle
      rw [List.pairwise_cons]
      refine ⟨?_, List.pairwise_cons.mpr h⟩
      intro z hz
      rcases List.mem_cons.mp hz with rfl | hz
      · exact hle
      · exact String.le_trans hle (h.1 z hz)
    · rename_i hle
      simp only [strLe, decide_eq_true_eq] at hle
      have hyx : y ≤ x := by
        rcases String.le_total x y with h1 | h1
        · exact absurd h1 hle
        · exact h1
      rw [List.pairwise_cons]
      refine ⟨?_, ih h.2⟩
      intro z hz
      have := (insertSorted_perm _ x ys).mem_iff.mp hz
      rcases List.mem_cons.mp this with rfl | hz'
      · exact hyx
      · exact h.1 z hz'

/-- `sort.Strings`: the result is in ascending order -/
theorem strSorted (l : List String) : (sortBy strLe l).Pairwise fun a b => a ≤ b := by
  induction l with
  | nil => simp [sortBy]
  | cons x xs ih => exact insertSorted_str x _ ih

/-- fixes/entry/04: the selection loop over the `os.ReadDir` entries (`e.Type().IsRegular() && isWALSegmentName(name)`)
selects exactly the segment names among the regular files -/
theorem walFilesOf_eq (es : Entries) : walFilesOf es = walFiles (regularFiles es) := by
  unfold walFilesOf walFiles regularFiles
  congr 1
  rw [List.map_map, List.filter_map, List.filter_filter]
  apply congrArg
  apply List.filter_congr
  intro e _
  simp [Bool.and_comm]

theorem mem_walFilesOf (es : Entries) (n : String) :
    n ∈ walFilesOf es ↔ ∃ e ∈ es, e.name = n ∧ e.kind = .regular ∧ isWALSegmentName n = true := by
  unfold walFilesOf
  rw [(sortBy_perm strLe _).mem_iff, List.mem_map]
  constructor
  · rintro ⟨e, he, rfl⟩
    rw [List.mem_filter, Bool.and_eq_true] at he
    refine ⟨e, he.1, rfl, ?_, he.2.2⟩
    have := he.2.1
    simpa [DirEntry.isRegular] using this
  · rintro ⟨e, he, rfl, hk, hn⟩
    refine ⟨e, ?_, rfl⟩
    rw [List.mem_filter, Bool.and_eq_true]
    exact ⟨he, by simp [DirEntry.isRegular, hk], hn⟩

end PgVerif.Proofs.Wal
