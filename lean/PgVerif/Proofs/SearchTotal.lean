/-
  C10, area search — the one slice expression of search.go / secrets.go whose safety depends on its operands:
  `bytesContains` (secrets.go) evaluates `s[i:i+len(substr)]` for `i = 0 … len(s)-len(substr)` behind the guards
  `len(substr) == 0` and `len(substr) > len(s)`.  `Model/Secrets.lean` renders the loop with the total list
  operations `take` / `drop`; here the same loop is written with the fault-aware `slice` (a Go panic = `.error`)
  and proved never to fault and to compute the pure model — so the pure model did not hide a panic.
  Everything else in those two files is free of fault points: see C10_COVERAGE.md ("no fault point").
-/
import PgVerif.Model.Secrets
namespace PgVerif.Proofs.SearchTotal
open PgVerif PgVerif.Model.Secrets

/-- the loop `for i := 0; i <= len(s)-len(substr); i++ { if bytesEqual(s[i:i+len(substr)], substr) { return true } }`
with `n` iterations left and loop variable `i`; the slice expression is Go's, bounds-checked -/
def containsLoopM (s substr : Bytes) : Nat → Nat → M Bool
  | 0, _ => pure false
  | n+1, i => do
    let w ← slice s i (i + substr.length)
    if bytesEqual w substr then pure true else containsLoopM s substr n (i + 1)

/-- Go: bytesContains, fault-aware -/
def bytesContainsM (s substr : Bytes) : M Bool :=
  if substr.length = 0 then pure true
  else if substr.length > s.length then pure false
  else containsLoopM s substr (s.length - substr.length + 1) 0

theorem take_drop_window (s : Bytes) (i k : Nat) : (s.take (i + k)).drop i = (s.drop i).take k := by
  rw [List.drop_take]; congr 1; omega

/-- as long as the remaining iterations stay inside `s`, the bounds-checked loop is the pure loop on `s[i:]` -/
theorem containsLoopM_eq (s substr : Bytes) : ∀ (n i : Nat), i + n + substr.length ≤ s.length + 1 →
    containsLoopM s substr n i = .ok (containsLoop substr n (s.drop i))
  | 0, _, _ => rfl
  | n+1, i, h => by
    have hs : slice s i (i + substr.length) = .ok ((s.take (i + substr.length)).drop i) :=
      slice_ok s i (i + substr.length) (by omega) (by omega)
    simp only [containsLoopM, containsLoop, hs, ok_bind, take_drop_window]
    split
    · rfl
    · rw [containsLoopM_eq s substr n (i + 1) (by omega), List.drop_drop]

/-- bytesContains never faults — for every `s` and `substr` — and returns what the pure model says -/
theorem bytesContainsM_eq (s substr : Bytes) : bytesContainsM s substr = .ok (bytesContains s substr) := by
  unfold bytesContainsM bytesContains
  by_cases h0 : substr.length = 0
  · simp [h0]
  · rw [if_neg h0, if_neg h0]
    by_cases h1 : substr.length > s.length
    · simp [h1]
    · rw [if_neg h1, if_neg h1, containsLoopM_eq s substr _ 0 (by omega)]
      rfl

end PgVerif.Proofs.SearchTotal
