/-
  Helper lemmas for area `cluster`: the association-list maps of the catalog model (`mapPut`, the result of
  ParsePGClass) have distinct keys, and every TableInfo sits under its own filenode.
-/
import PgVerif.Proofs.ClusterSort
namespace PgVerif.Proofs.Cluster
open PgVerif PgVerif.Model List

theorem mapPut_keys {β} (m : List (Nat × β)) (k : Nat) (v : β) :
    ∀ x, x ∈ (mapPut m k v).map (·.1) ↔ x = k ∨ x ∈ m.map (·.1) := by
  induction m with
  | nil => intro x; simp [mapPut]
  | cons e rest ih =>
    intro x
    obtain ⟨k', v'⟩ := e
    unfold mapPut
    by_cases h : k' = k
    · subst h; simp
    · simp only [if_neg h, map_cons, mem_cons, ih x]
      constructor
      · rintro (h1 | h1 | h1) <;> simp [h1]
      · rintro (h1 | h1 | h1) <;> simp [h1]

theorem mapPut_nodup {β} (m : List (Nat × β)) (k : Nat) (v : β) (h : (m.map (·.1)).Nodup) :
    ((mapPut m k v).map (·.1)).Nodup := by
  induction m with
  | nil => simp [mapPut]
  | cons e rest ih =>
    obtain ⟨k', v'⟩ := e
    unfold mapPut
    simp only [map_cons, nodup_cons] at h
    by_cases hk : k' = k
    · subst hk; simpa using h
    · simp only [if_neg hk, map_cons, nodup_cons]
      refine ⟨?_, ih h.2⟩
      intro hm
      rcases (mapPut_keys rest k v k').mp hm with h1 | h1
      · exact hk h1
      · exact h.1 h1

theorem mapPut_mem {β} (m : List (Nat × β)) (k : Nat) (v : β) (e : Nat × β) (he : e ∈ mapPut m k v) :
    e = (k, v) ∨ e ∈ m := by
  induction m with
  | nil => simp [mapPut] at he; exact Or.inl he
  | cons e' rest ih =>
    obtain ⟨k', v'⟩ := e'
    unfold mapPut at he
    by_cases hk : k' = k
    · rw [if_pos hk] at he
      rcases mem_cons.mp he with h | h
      · exact Or.inl h
      · exact Or.inr (mem_cons_of_mem _ h)
    · rw [if_neg hk] at he
      rcases mem_cons.mp he with h | h
      · exact Or.inr (by rw [h]; exact mem_cons_self)
      · rcases ih h with h | h
        · exact Or.inl h
        · exact Or.inr (mem_cons_of_mem _ h)

/-- the invariant of the table map: distinct keys, and each entry's Filenode field is its key -/
def KeysOK (m : List (Nat × TableInfo)) : Prop := (m.map (·.1)).Nodup ∧ ∀ e ∈ m, e.2.filenode = e.1

theorem keysOK_nil : KeysOK [] := ⟨by simp, by simp⟩

theorem classStep_keysOK (m : List (Nat × TableInfo)) (row : Row) (h : KeysOK m) : KeysOK (classStep m row) := by
  unfold classStep
  by_cases hfn : getOID row "relfilenode" > 0
  · simp only [hfn, if_true]
    refine ⟨mapPut_nodup _ _ _ h.1, ?_⟩
    intro e he
    rcases mapPut_mem _ _ _ e he with h1 | h1
    · rw [h1]
    · exact h.2 e h1
  · simp only [hfn, if_false]; exact h

theorem foldl_classStep_keysOK (rows : List Row) (m : List (Nat × TableInfo)) (h : KeysOK m) :
    KeysOK (rows.foldl classStep m) := by
  induction rows generalizing m with
  | nil => exact h
  | cons r rs ih => exact ih _ (classStep_keysOK m r h)

theorem parsePGClass_keysOK (rr : RowReader) (data : Bytes) (t : List (Nat × TableInfo))
    (h : parsePGClass rr data = .ok t) : KeysOK t := by
  unfold parsePGClass at h
  cases hr : rr data schemaPGClass true with
  | error e => simp [hr] at h
  | ok rows =>
    simp only [hr, ok_bind, pure_eq_ok] at h
    injection h with h
    subst h
    exact foldl_classStep_keysOK rows [] keysOK_nil

/-- under the invariant, distinct entries of (a rearrangement of) the map have distinct Filenode fields -/
theorem keysOK_inj (m : List (Nat × TableInfo)) (h : KeysOK m) :
    ∀ a ∈ m.map (·.2), ∀ b ∈ m.map (·.2), a.filenode = b.filenode → a = b := by
  intro a ha b hb hab
  obtain ⟨ea, hea, rfl⟩ := mem_map.mp ha
  obtain ⟨eb, heb, rfl⟩ := mem_map.mp hb
  have h1 := h.2 ea hea
  have h2 := h.2 eb heb
  have hk : ea.1 = eb.1 := by omega
  -- distinct keys: equal key ⇒ same entry
  have : ea = eb := by
    have hnd := h.1
    clear h1 h2 hab ha hb
    induction m with
    | nil => simp at hea
    | cons x xs ih =>
      simp only [map_cons, nodup_cons] at hnd
      rcases mem_cons.mp hea with rfl | hea' <;> rcases mem_cons.mp heb with rfl | heb'
      · rfl
      · exact absurd (by rw [hk]; exact mem_map_of_mem heb') hnd.1
      · exact absurd (by rw [← hk]; exact mem_map_of_mem hea') hnd.1
      · exact ih ⟨hnd.2, fun e he => h.2 e (mem_cons_of_mem _ he)⟩ hea' heb' hnd.2
  rw [this]

end PgVerif.Proofs.Cluster
