/-
  Helper lemmas about the WAL model (wal.go).
-/
import PgVerif.Model.Wal
import PgVerif.Spec.Wal
namespace PgVerif.Proofs.Wal
open PgVerif PgVerif.Model.Wal

/-! ## Totality (C10): no slice expression or index of the WAL parsers can be out of range -/

theorem afterImage_total (data : Bytes) (p15 : Bool) (pos : Nat) (h : pos + 5 ≤ data.length) :
    ∃ r, afterImage data p15 pos = .ok r := by
  unfold afterImage
  rw [idx_ok data (pos + 4) (by omega)]
  exact ⟨_, rfl⟩

theorem imagePart_total (data : Bytes) (p15 : Bool) (ff pos dt : Nat) :
    ∃ r, imagePart data p15 ff pos dt = .ok r := by
  unfold imagePart
  split
  · split
    · exact ⟨_, rfl⟩
    · rename_i h
      rw [uN_ok 2 data pos (by omega)]
      obtain ⟨p, hp⟩ := afterImage_total data p15 pos (by omega)
      simp only [ok_bind, hp, pure_eq_ok]
      exact ⟨_, rfl⟩
  · exact ⟨_, rfl⟩

theorem relPart_total (data : Bytes) (ff pos : Nat) (last : Option RelFileNode) :
    ∃ r, relPart data ff pos last = .ok r := by
  unfold relPart
  split
  · split
    · exact ⟨_, rfl⟩
    · rename_i h
      rw [uN_ok 4 data pos (by omega), uN_ok 4 data (pos + 4) (by omega), uN_ok 4 data (pos + 8) (by omega)]
      exact ⟨_, rfl⟩
  · exact ⟨_, rfl⟩

theorem blockStep_total (data : Bytes) (p15 : Bool) (pos dt : Nat) (last : Option RelFileNode)
    (h : pos + 4 ≤ data.length) : ∃ r, blockStep data p15 pos dt last = .ok r := by
  unfold blockStep
  rw [idx_ok data pos (by omega)]
  simp only [ok_bind]
  split
  · exact ⟨_, rfl⟩
  · rw [idx_ok data (pos + 1) (by omega), uN_ok 2 data (pos + 2) (by omega)]
    simp only [ok_bind]
    obtain ⟨ip, hip⟩ := imagePart_total data p15 (data[pos + 1]).toNat (pos + 4) (dt + rd 2 (data.drop (pos + 2)))
    rw [hip]
    simp only [ok_bind]
    cases ip with
    | none => exact ⟨_, rfl⟩
    | some pd =>
      obtain ⟨rp, hrp⟩ := relPart_total data (data[pos + 1]).toNat pd.1 last
      simp only [hrp, ok_bind]
      cases rp with
      | none => exact ⟨_, rfl⟩
      | some rp =>
        simp only []
        split
        · exact ⟨_, rfl⟩
        · rw [uN_ok 4 data rp.2 (by omega)]
          exact ⟨_, rfl⟩

theorem blockLoop_total (data : Bytes) (p15 : Bool) (fuel pos dt : Nat) (last : Option RelFileNode) :
    ∃ r, blockLoop data p15 fuel pos dt last = .ok r := by
  induction fuel generalizing pos dt last with
  | zero => exact ⟨_, rfl⟩
  | succ fuel ih =>
    unfold blockLoop
    split
    · rename_i hc
      obtain ⟨st, hst⟩ := blockStep_total data p15 pos dt last hc.1
      simp only [hst, ok_bind]
      cases st with
      | none => exact ⟨_, rfl⟩
      | some s =>
        obtain ⟨rest, hr⟩ := ih s.pos s.dataTotal s.lastRel
        simp only [hr, ok_bind]
        exact ⟨_, rfl⟩
    · exact ⟨_, rfl⟩

theorem parseBlockRefsFor_total (data : Bytes) (magic : Nat) : ∃ r, parseBlockRefsFor data magic = .ok r :=
  blockLoop_total _ _ _ _ _ _

theorem parseXLogRecord_total (data : Bytes) (lsn magic : Nat) : ∃ r, parseXLogRecord data lsn magic = .ok r := by
  unfold parseXLogRecord
  split
  · exact ⟨_, rfl⟩
  · rename_i hl
    rw [uN_ok 4 data 0 (by omega)]
    simp only [ok_bind]
    split
    · exact ⟨_, rfl⟩
    · rename_i ht
      rw [uN_ok 4 data 4 (by omega), uN_ok 8 data 8 (by omega), idx_ok data 16 (by omega), idx_ok data 17 (by omega),
        uN_ok 4 data 20 (by omega)]
      simp only [ok_bind]
      split
      · rename_i hb
        simp only [Bool.and_eq_true, decide_eq_true_eq] at hb
        rw [slice_ok data 24 _ hb.2 (by omega)]
        simp only [ok_bind]
        obtain ⟨bl, hbl⟩ := parseBlockRefsFor_total ((data.take (rd 4 (data.drop 0))).drop 24) magic
        simp only [hbl, ok_bind]
        exact ⟨_, rfl⟩
      · exact ⟨_, rfl⟩

/-- a record is consumed with at least its 24 header bytes -/
theorem parseXLogRecord_consumed (data : Bytes) (lsn magic : Nat) (r : Option Record × Nat)
    (h : parseXLogRecord data lsn magic = .ok r) : r.2 = 0 ∨ 24 ≤ r.2 := by
  unfold parseXLogRecord at h
  split at h
  · injection h with h; subst h; exact .inl rfl
  · rename_i hl
    rw [uN_ok 4 data 0 (by omega)] at h
    simp only [ok_bind] at h
    split at h
    · injection h with h; subst h; exact .inl rfl
    · rename_i ht
      simp only [Bool.or_eq_true, decide_eq_true_eq, not_or] at ht
      rw [uN_ok 4 data 4 (by omega), uN_ok 8 data 8 (by omega), idx_ok data 16 (by omega), idx_ok data 17 (by omega),
        uN_ok 4 data 20 (by omega)] at h
      simp only [ok_bind] at h
      split at h
      · rename_i hb
        simp only [Bool.and_eq_true, decide_eq_true_eq] at hb
        rw [slice_ok data 24 _ hb.2 (by omega)] at h
        simp only [ok_bind] at h
        obtain ⟨bl, hbl⟩ := parseBlockRefsFor_total ((data.take (rd 4 (data.drop 0))).drop 24) magic
        simp only [hbl, ok_bind, pure_eq_ok] at h
        injection h with h; subst h; right; simp only []; omega
      · simp only [ok_bind, pure_eq_ok] at h
        injection h with h; subst h; right; simp only []; omega

theorem parsePageHeader_total (data : Bytes) (h : 24 ≤ data.length) : ∃ r, parsePageHeader data = .ok r := by
  unfold parsePageHeader
  rw [uN_ok 2 data 0 (by omega), uN_ok 2 data 2 (by omega), uN_ok 4 data 4 (by omega), uN_ok 8 data 8 (by omega),
    uN_ok 4 data 16 (by omega)]
  simp only [ok_bind]
  split
  · rename_i hc
    simp only [Bool.and_eq_true, decide_eq_true_eq] at hc
    rw [uN_ok 8 data 24 (by omega), uN_ok 4 data 32 (by omega), uN_ok 4 data 36 (by omega)]
    exact ⟨_, rfl⟩
  · exact ⟨_, rfl⟩

theorem recordLoop_total (data : Bytes) (pa magic fuel pos : Nat) : ∃ r, recordLoop data pa magic fuel pos = .ok r := by
  induction fuel generalizing pos with
  | zero => exact ⟨_, rfl⟩
  | succ fuel ih =>
    unfold recordLoop
    split
    · rename_i hc
      rw [sliceFrom_ok data pos (by omega)]
      simp only [ok_bind]
      split
      · exact ⟨_, rfl⟩
      · obtain ⟨rc, hrc⟩ := parseXLogRecord_total (data.drop pos) ((pa + pos) % 2 ^ 64) magic
        simp only [hrc, ok_bind]
        split
        · exact ⟨_, rfl⟩
        · obtain ⟨rest, hr⟩ := ih (align8 (pos + rc.2))
          simp only [hr, ok_bind]
          exact ⟨_, rfl⟩
    · exact ⟨_, rfl⟩

theorem parseWALPage_total (data : Bytes) : ∃ r, parseWALPage data = .ok r := by
  unfold parseWALPage
  split
  · exact ⟨_, rfl⟩
  · rename_i hl
    obtain ⟨h, hh⟩ := parsePageHeader_total data (by omega)
    simp only [hh, ok_bind]
    split
    · exact ⟨_, rfl⟩
    · obtain ⟨rs, hrs⟩ := recordLoop_total data h.pageAddr h.magic data.length (startPos h)
      simp only [hrs, ok_bind]
      exact ⟨_, rfl⟩

theorem pagesLoop_total (data : Bytes) (fuel off : Nat) : ∃ r, pagesLoop data fuel off = .ok r := by
  induction fuel generalizing off with
  | zero => exact ⟨_, rfl⟩
  | succ fuel ih =>
    unfold pagesLoop
    split
    · rename_i hc
      rw [slice_ok data off (off + 8192) hc (by omega)]
      simp only [ok_bind]
      obtain ⟨r, hr⟩ := parseWALPage_total ((data.take (off + 8192)).drop off)
      obtain ⟨rest, hrest⟩ := ih (off + 8192)
      simp only [hr, hrest, ok_bind]
      exact ⟨_, rfl⟩
    · exact ⟨_, rfl⟩

theorem parseWALFile_total (data : Bytes) : ∃ r, parseWALFile data = .ok r := by
  unfold parseWALFile
  split
  · exact ⟨_, rfl⟩
  · obtain ⟨rs, hrs⟩ := pagesLoop_total data (data.length / 8192 + 1) 0
    simp only [hrs, ok_bind]
    exact ⟨_, rfl⟩

theorem tallyFiles_total (dir : Dir) (t : Tally) (names : List String) : ∃ r, tallyFiles dir t names = .ok r := by
  induction names generalizing t with
  | nil => exact ⟨_, rfl⟩
  | cons n ns ih =>
    unfold tallyFiles tallyFile
    obtain ⟨r, hr⟩ := parseWALFile_total (readFile dir n)
    simp only [hr, ok_bind]
    cases r with
    | none => simp only [pure_eq_ok, ok_bind]; exact ih t
    | some rs => simp only [pure_eq_ok, ok_bind]; exact ih _

theorem scanWALDirectory_total (dir : Dir) : ∃ r, scanWALDirectory dir = .ok r := by
  unfold scanWALDirectory
  obtain ⟨t, ht⟩ := tallyFiles_total dir {} (walFiles dir)
  simp only [ht, ok_bind]
  exact ⟨_, rfl⟩

theorem recentLoop_total (dir : Dir) (limit : Int) (names : List String) (acc : List Record) :
    ∃ r, recentLoop dir limit names acc = .ok r := by
  induction names generalizing acc with
  | nil => exact ⟨_, rfl⟩
  | cons n ns ih =>
    unfold recentLoop
    split
    · obtain ⟨r, hr⟩ := parseWALFile_total (readFile dir n)
      simp only [hr, ok_bind]
      cases r with
      | none => exact ih acc
      | some rs => exact ih _
    · exact ⟨_, rfl⟩

theorem getRecent_total (dir : Dir) (limit : Int) (h : 0 ≤ limit) : ∃ r, getRecentWALRecords dir limit = .ok r := by
  unfold getRecentWALRecords
  obtain ⟨all, hall⟩ := recentLoop_total dir limit (walFiles dir).reverse []
  simp only [hall, ok_bind]
  split
  · rw [if_neg (by omega)]; exact ⟨_, rfl⟩
  · exact ⟨_, rfl⟩

end PgVerif.Proofs.Wal
