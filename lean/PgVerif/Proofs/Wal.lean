/-
  Helper lemmas about the WAL model (wal.go).
-/
import PgVerif.Model.Wal
import PgVerif.Spec.Wal
import PgVerif.Spec.WalLayout
namespace PgVerif.Proofs.Wal
open PgVerif PgVerif.Model.Wal

/-! ## Totality (C10): no slice expression or index of the WAL parsers can be out of range -/

theorem afterImage_total (data : Bytes) (p15 : Bool) (pos : Nat) (h : pos + 5 ≤ data.length) :
    ∃ r, afterImage data p15 pos = .ok r := by
  unfold afterImage
  rw [idx_ok data (pos + 4) (by omega)]
  exact ⟨_, rfl⟩

theorem imagePart_total (data : Bytes) (p15 : Bool) (ff pos dt : Nat) :
    ∃ r, imagePart data p15 ff pos dt = .ok r := by
  unfold imagePart
  split
  · split
    · exact ⟨_, rfl⟩
    · rename_i h
      rw [uN_ok 2 data pos (by omega)]
      obtain ⟨p, hp⟩ := afterImage_total data p15 pos (by omega)
      simp only [ok_bind, hp, pure_eq_ok]
      exact ⟨_, rfl⟩
  · exact ⟨_, rfl⟩

theorem relPart_total (data : Bytes) (ff pos : Nat) (last : Option RelFileNode) :
    ∃ r, relPart data ff pos last = .ok r := by
  unfold relPart
  split
  · split
    · exact ⟨_, rfl⟩
    · rename_i h
      rw [uN_ok 4 data pos (by omega), uN_ok 4 data (pos + 4) (by omega), uN_ok 4 data (pos + 8) (by omega)]
      exact ⟨_, rfl⟩
  · exact ⟨_, rfl⟩

theorem blockStep_total (data : Bytes) (p15 : Bool) (pos dt : Nat) (last : Option RelFileNode)
    (h : pos + 4 ≤ data.length) : ∃ r, blockStep data p15 pos dt last = .ok r := by
  unfold blockStep
  rw [idx_ok data pos (by omega)]
  simp only [ok_bind]
  split
  · exact ⟨_, rfl⟩
  · rw [idx_ok data (pos + 1) (by omega), uN_ok 2 data (pos + 2) (by omega)]
    simp only [ok_bind]
    obtain ⟨ip, hip⟩ := imagePart_total data p15 (data[pos + 1]).toNat (pos + 4) (dt + rd 2 (data.drop (pos + 2)))
    rw [hip]
    simp only [ok_bind]
    cases ip with
    | none => exact ⟨_, rfl⟩
    | some pd =>
      obtain ⟨rp, hrp⟩ := relPart_total data (data[pos + 1]).toNat pd.1 last
      simp only [hrp, ok_bind]
      cases rp with
      | none => exact ⟨_, rfl⟩
      | some rp =>
        simp only []
        split
        · exact ⟨_, rfl⟩
        · rw [uN_ok 4 data rp.2 (by omega)]
          exact ⟨_, rfl⟩

theorem blockLoop_total (data : Bytes) (p15 : Bool) (fuel pos dt : Nat) (last : Option RelFileNode) :
    ∃ r, blockLoop data p15 fuel pos dt last = .ok r := by
  induction fuel generalizing pos dt last with
  | zero => exact ⟨_, rfl⟩
  | succ fuel ih =>
    unfold blockLoop
    split
    · rename_i hc
      obtain ⟨st, hst⟩ := blockStep_total data p15 pos dt last hc.1
      simp only [hst, ok_bind]
      cases st with
      | none => exact ⟨_, rfl⟩
      | some s =>
        obtain ⟨rest, hr⟩ := ih s.pos s.dataTotal s.lastRel
        simp only [hr, ok_bind]
        exact ⟨_, rfl⟩
    · exact ⟨_, rfl⟩

theorem parseBlockRefsFor_total (data : Bytes) (magic : Nat) : ∃ r, parseBlockRefsFor data magic = .ok r :=
  blockLoop_total _ _ _ _ _ _

theorem parseXLogRecord_total (data : Bytes) (lsn magic : Nat) : ∃ r, parseXLogRecord data lsn magic = .ok r := by
  unfold parseXLogRecord
  split
  · exact ⟨_, rfl⟩
  · rename_i hl
    rw [uN_ok 4 data 0 (by omega)]
    simp only [ok_bind]
    split
    · exact ⟨_, rfl⟩
    · rename_i ht
      rw [uN_ok 4 data 4 (by omega), uN_ok 8 data 8 (by omega), idx_ok data 16 (by omega), idx_ok data 17 (by omega),
        uN_ok 4 data 20 (by omega)]
      simp only [ok_bind]
      split
      · rename_i hb
        simp only [Bool.and_eq_true, decide_eq_true_eq] at hb
        rw [slice_ok data 24 _ hb.2 (by omega)]
        simp only [ok_bind]
        obtain ⟨bl, hbl⟩ := parseBlockRefsFor_total ((data.take (rd 4 (data.drop 0))).drop 24) magic
        simp only [hbl, ok_bind]
        exact ⟨_, rfl⟩
      · exact ⟨_, rfl⟩

/-- a record is consumed with at least its 24 header bytes -/
theorem parseXLogRecord_consumed (data : Bytes) (lsn magic : Nat) (r : Option Record × Nat)
    (h : parseXLogRecord data lsn magic = .ok r) : r.2 = 0 ∨ 24 ≤ r.2 := by
  unfold parseXLogRecord at h
  split at h
  · injection h with h; subst h; exact .inl rfl
  · rename_i hl
    rw [uN_ok 4 data 0 (by omega)] at h
    simp only [ok_bind] at h
    split at h
    · injection h with h; subst h; exact .inl rfl
    · rename_i ht
      simp only [Bool.or_eq_true, decide_eq_true_eq, not_or] at ht
      rw [uN_ok 4 data 4 (by omega), uN_ok 8 data 8 (by omega), idx_ok data 16 (by omega), idx_ok data 17 (by omega),
        uN_ok 4 data 20 (by omega)] at h
      simp only [ok_bind] at h
      split at h
      · rename_i hb
        simp only [Bool.and_eq_true, decide_eq_true_eq] at hb
        rw [slice_ok data 24 _ hb.2 (by omega)] at h
        simp only [ok_bind] at h
        obtain ⟨bl, hbl⟩ := parseBlockRefsFor_total ((data.take (rd 4 (data.drop 0))).drop 24) magic
        simp only [hbl, ok_bind, pure_eq_ok] at h
        injection h with h; subst h; right; simp only []; omega
      · simp only [ok_bind, pure_eq_ok] at h
        injection h with h; subst h; right; simp only []; omega

theorem parsePageHeader_total (data : Bytes) (h : 24 ≤ data.length) : ∃ r, parsePageHeader data = .ok r := by
  unfold parsePageHeader
  rw [uN_ok 2 data 0 (by omega), uN_ok 2 data 2 (by omega), uN_ok 4 data 4 (by omega), uN_ok 8 data 8 (by omega),
    uN_ok 4 data 16 (by omega)]
  simp only [ok_bind]
  split
  · rename_i hc
    simp only [Bool.and_eq_true, decide_eq_true_eq] at hc
    rw [uN_ok 8 data 24 (by omega), uN_ok 4 data 32 (by omega), uN_ok 4 data 36 (by omega)]
    exact ⟨_, rfl⟩
  · exact ⟨_, rfl⟩

theorem contLoop_total (fuel : Nat) (fol : Bytes) (need : Nat) : ∃ r, contLoop fuel fol need = .ok r := by
  induction fuel generalizing fol need with
  | zero => exact ⟨_, rfl⟩
  | succ fuel ih =>
    unfold contLoop
    split
    · split
      · exact ⟨_, rfl⟩
      · rename_i hl
        rw [sliceTo_ok fol 8192 (by omega)]
        simp only [ok_bind]
        obtain ⟨h, hh⟩ := parsePageHeader_total (fol.take 8192) (by rw [List.length_take]; omega)
        simp only [hh, ok_bind]
        split
        · exact ⟨_, rfl⟩
        · have hhs : headerSize h.info = 24 ∨ headerSize h.info = 40 := by unfold headerSize; split <;> simp
          rw [slice_ok _ _ _ (by rw [List.length_take]; split <;> omega) (by omega), sliceFrom_ok fol 8192 (by omega)]
          simp only [ok_bind]
          obtain ⟨r, hr⟩ := ih (fol.drop 8192) (need - if 8192 - headerSize h.info > need then need else 8192 - headerSize h.info)
          simp only [hr, ok_bind]
          cases r <;> exact ⟨_, rfl⟩
    · exact ⟨_, rfl⟩

theorem continuationData_total (fol : Bytes) (need : Nat) : ∃ r, continuationData fol need = .ok r := by
  unfold continuationData
  split
  · exact contLoop_total _ _ _
  · exact ⟨_, rfl⟩

theorem recordBytes_total (tail fol : Bytes) (h : 4 ≤ tail.length) : ∃ r, recordBytes tail fol = .ok r := by
  unfold recordBytes
  rw [uN_ok 4 tail 0 (by omega)]
  simp only [ok_bind]
  split
  · obtain ⟨c, hc⟩ := continuationData_total fol (rd 4 (tail.drop 0) - tail.length)
    simp only [hc, ok_bind]
    cases c <;> exact ⟨_, rfl⟩
  · exact ⟨_, rfl⟩

theorem contLoop_zero' (fuel : Nat) (fol : Bytes) : contLoop fuel fol 0 = .ok (some []) := by
  cases fuel with
  | zero => rfl
  | succ fuel => unfold contLoop; rw [if_neg (by omega)]; rfl

theorem headerSize_cases (info : Nat) : headerSize info = 24 ∨ headerSize info = 40 := by
  unfold headerSize; split <;> simp

/-- one iteration of the continuation loop, with the page header already read -/
theorem contLoop_succ (fuel : Nat) (fol : Bytes) (need : Nat) (hneed : 0 < need) (hlen : 8192 ≤ fol.length) :
    ∃ h, parsePageHeader (fol.take 8192) = .ok h ∧
      contLoop (fuel + 1) fol need =
        if !isValidMagic h.magic || h.info &&& 0x0001 == 0 || h.remLen != need then .ok none
        else match contLoop fuel (fol.drop 8192) (need - min (8192 - headerSize h.info) need) with
          | .ok (some more) =>
            .ok (some (((fol.take 8192).take (headerSize h.info + min (8192 - headerSize h.info) need)).drop (headerSize h.info) ++ more))
          | .ok none => .ok none
          | .error e => .error e := by
  obtain ⟨h, hh⟩ := parsePageHeader_total (fol.take 8192) (by rw [List.length_take]; omega)
  refine ⟨h, hh, ?_⟩
  have hhs := headerSize_cases h.info
  have hn : (if 8192 - headerSize h.info > need then need else 8192 - headerSize h.info) = min (8192 - headerSize h.info) need := by
    split <;> omega
  conv => lhs; unfold contLoop
  rw [if_pos hneed, if_neg (by omega), sliceTo_ok fol 8192 hlen]
  simp only [ok_bind, hh]
  split
  · rfl
  · rw [hn, slice_ok _ _ _ (by rw [List.length_take]; omega) (by omega), sliceFrom_ok fol 8192 hlen]
    simp only [ok_bind]
    cases contLoop fuel (fol.drop 8192) (need - min (8192 - headerSize h.info) need) with
    | error e => rfl
    | ok r => cases r <;> rfl

/-- **fixes/wal/11, `continuationData_short`.**  With fewer bytes following than are still missing, continuationData
returns nil: the guard `totalLen-len(recData) <= len(following)` of parseWALPage never changes a result, it only keeps
the buffer that is allocated below the size of the input. -/
theorem contLoop_short (fuel : Nat) (fol : Bytes) (need : Nat) (hneed : 0 < need) (hf : need ≤ fuel)
    (hs : fol.length < need) : contLoop fuel fol need = .ok none := by
  induction fuel generalizing fol need with
  | zero => omega
  | succ fuel ih =>
    by_cases hlen : 8192 ≤ fol.length
    · obtain ⟨h, _, e⟩ := contLoop_succ fuel fol need hneed hlen
      have hhs := headerSize_cases h.info
      rw [e]
      split
      · rfl
      · rw [ih (fol.drop 8192) _ (by omega) (by omega) (by rw [List.length_drop]; omega)]
    · unfold contLoop
      rw [if_pos hneed, if_pos (by omega)]
      rfl

theorem continuationData_short (fol : Bytes) (need : Nat) (hs : fol.length < need) :
    continuationData fol need = .ok none := by
  unfold continuationData
  split
  · rename_i hneed
    exact contLoop_short need fol need hneed (Nat.le_refl _) hs
  · rfl

/-- what continuationData returns has exactly the length asked for — so the buffer parseWALPage builds from it,
`make([]byte, 0, totalLen)`, is filled exactly -/
theorem contLoop_length (fuel : Nat) (fol : Bytes) (need : Nat) (hf : need ≤ fuel) (out : Bytes)
    (h : contLoop fuel fol need = .ok (some out)) : out.length = need := by
  induction fuel generalizing fol need out with
  | zero =>
    have : need = 0 := by omega
    subst this
    rw [contLoop_zero'] at h
    cases h; rfl
  | succ fuel ih =>
    by_cases hneed : 0 < need
    · by_cases hlen : 8192 ≤ fol.length
      · obtain ⟨hd, _, e⟩ := contLoop_succ fuel fol need hneed hlen
        have hhs := headerSize_cases hd.info
        rw [e] at h
        split at h
        · cases h
        · cases hc : contLoop fuel (fol.drop 8192) (need - min (8192 - headerSize hd.info) need) with
          | error e' => rw [hc] at h; cases h
          | ok r =>
            cases r with
            | none => rw [hc] at h; cases h
            | some more =>
              rw [hc] at h
              have hm := ih (fol.drop 8192) _ (by omega) more hc
              cases h
              simp only [List.length_append, List.length_drop, List.length_take, hm]
              omega
      · unfold contLoop at h
        rw [if_pos hneed, if_pos (by omega)] at h
        cases h
    · have : need = 0 := by omega
      subst this
      rw [contLoop_zero'] at h
      cases h; rfl

theorem continuationData_length (fol : Bytes) (need : Nat) (out : Bytes)
    (h : continuationData fol need = .ok (some out)) : out.length = need ∧ need ≤ fol.length := by
  refine ⟨?_, ?_⟩
  · unfold continuationData at h
    split at h
    · exact contLoop_length need fol need (Nat.le_refl _) out h
    · cases h
  · apply Nat.le_of_not_lt
    intro hlt
    rw [continuationData_short fol need hlt] at h
    cases h

/-- parseWALPage's reassembly without the allocation guard: the same function (`continuationData_short`) -/
theorem recordBytes_eq (tail fol : Bytes) :
    recordBytes tail fol = (do
      let totalLen ← uN 4 tail 0
      if totalLen > tail.length then do
        match ← continuationData fol (totalLen - tail.length) with
        | some cont => pure (tail ++ cont)
        | none => pure tail
      else pure tail) := by
  unfold recordBytes
  cases uN 4 tail 0 with
  | error e => rfl
  | ok totalLen =>
    simp only [ok_bind]
    by_cases h1 : totalLen > tail.length
    · by_cases h2 : totalLen - tail.length ≤ fol.length
      · rw [if_pos (by simp only [Bool.and_eq_true, decide_eq_true_eq]; exact ⟨h1, h2⟩), if_pos h1]
        rfl
      · rw [if_neg (by simp only [Bool.and_eq_true, decide_eq_true_eq]; omega), if_pos h1,
          continuationData_short fol _ (by omega)]
        rfl
    · rw [if_neg (by simp only [Bool.and_eq_true, decide_eq_true_eq]; omega), if_neg h1]

/-- the buffer parseWALPage hands to parseXLogRecord is never longer than the bytes that are there (the rest of the
page plus the following pages), and when it was put together it has exactly xl_tot_len bytes -/
theorem recordBytes_length (tail fol out : Bytes) (h : recordBytes tail fol = .ok out) :
    out.length ≤ tail.length + fol.length ∧ (out = tail ∨ uN 4 tail 0 = .ok out.length) := by
  rw [recordBytes_eq] at h
  cases hu : uN 4 tail 0 with
  | error e => rw [hu] at h; cases h
  | ok totalLen =>
    rw [hu] at h
    simp only [ok_bind] at h
    by_cases h1 : totalLen > tail.length
    · rw [if_pos h1] at h
      cases hc : continuationData fol (totalLen - tail.length) with
      | error e => rw [hc] at h; cases h
      | ok r =>
        rw [hc] at h
        cases r with
        | none => cases h; exact ⟨by omega, .inl rfl⟩
        | some cont =>
          obtain ⟨hl, hf⟩ := continuationData_length fol _ cont hc
          cases h
          refine ⟨by rw [List.length_append]; omega, .inr ?_⟩
          rw [List.length_append, hl]
          congr 1; congr 1; omega
    · rw [if_neg h1] at h
      cases h; exact ⟨by omega, .inl rfl⟩

theorem recordLoop_total (data fol : Bytes) (pa magic fuel pos : Nat) :
    ∃ r, recordLoop data fol pa magic fuel pos = .ok r := by
  induction fuel generalizing pos with
  | zero => exact ⟨_, rfl⟩
  | succ fuel ih =>
    unfold recordLoop
    split
    · rename_i hc
      rw [sliceFrom_ok data pos (by omega)]
      simp only [ok_bind]
      split
      · exact ⟨_, rfl⟩
      · obtain ⟨rb, hrb⟩ := recordBytes_total (data.drop pos) fol (by rw [List.length_drop]; omega)
        simp only [hrb, ok_bind]
        obtain ⟨rc, hrc⟩ := parseXLogRecord_total rb ((pa + pos) % 2 ^ 64) magic
        simp only [hrc, ok_bind]
        split
        · exact ⟨_, rfl⟩
        · obtain ⟨rest, hr⟩ := ih (align8 (pos + rc.2))
          simp only [hr, ok_bind]
          exact ⟨_, rfl⟩
    · exact ⟨_, rfl⟩

theorem parseWALPage_total (data fol : Bytes) : ∃ r, parseWALPage data fol = .ok r := by
  unfold parseWALPage
  split
  · exact ⟨_, rfl⟩
  · rename_i hl
    obtain ⟨h, hh⟩ := parsePageHeader_total data (by omega)
    simp only [hh, ok_bind]
    split
    · exact ⟨_, rfl⟩
    · obtain ⟨rs, hrs⟩ := recordLoop_total data fol h.pageAddr h.magic data.length (startPos h)
      simp only [hrs, ok_bind]
      exact ⟨_, rfl⟩

theorem pagesLoop_total (data : Bytes) (fuel off : Nat) : ∃ r, pagesLoop data fuel off = .ok r := by
  induction fuel generalizing off with
  | zero => exact ⟨_, rfl⟩
  | succ fuel ih =>
    unfold pagesLoop
    split
    · rename_i hc
      rw [slice_ok data off (off + 8192) hc (by omega), sliceFrom_ok data (off + 8192) hc]
      simp only [ok_bind]
      obtain ⟨r, hr⟩ := parseWALPage_total ((data.take (off + 8192)).drop off) (data.drop (off + 8192))
      obtain ⟨rest, hrest⟩ := ih (off + 8192)
      simp only [hr, hrest, ok_bind]
      exact ⟨_, rfl⟩
    · exact ⟨_, rfl⟩

theorem parseWALFile_total (data : Bytes) : ∃ r, parseWALFile data = .ok r := by
  unfold parseWALFile
  split
  · exact ⟨_, rfl⟩
  · obtain ⟨rs, hrs⟩ := pagesLoop_total data (data.length / 8192 + 1) 0
    simp only [hrs, ok_bind]
    exact ⟨_, rfl⟩

theorem tallyFiles_total (dir : Dir) (t : Tally) (names : List String) : ∃ r, tallyFiles dir t names = .ok r := by
  induction names generalizing t with
  | nil => exact ⟨_, rfl⟩
  | cons n ns ih =>
    unfold tallyFiles tallyFile
    obtain ⟨r, hr⟩ := parseWALFile_total (readFile dir n)
    simp only [hr, ok_bind]
    cases r with
    | none => simp only [pure_eq_ok, ok_bind]; exact ih t
    | some rs => simp only [pure_eq_ok, ok_bind]; exact ih _

theorem scanWALDirectory_total (dir : Dir) : ∃ r, scanWALDirectory dir = .ok r := by
  unfold scanWALDirectory
  obtain ⟨t, ht⟩ := tallyFiles_total dir {} (walFiles dir)
  simp only [ht, ok_bind]
  exact ⟨_, rfl⟩

theorem recentLoop_total (dir : Dir) (limit : Int) (names : List String) (acc : List Record) :
    ∃ r, recentLoop dir limit names acc = .ok r := by
  induction names generalizing acc with
  | nil => exact ⟨_, rfl⟩
  | cons n ns ih =>
    unfold recentLoop
    split
    · obtain ⟨r, hr⟩ := parseWALFile_total (readFile dir n)
      simp only [hr, ok_bind]
      cases r with
      | none => exact ih acc
      | some rs => exact ih _
    · exact ⟨_, rfl⟩

theorem recentFrom_total (dir : Dir) (limit : Int) (h : 0 ≤ limit) : ∃ r, recentFrom dir limit = .ok r := by
  unfold recentFrom
  obtain ⟨all, hall⟩ := recentLoop_total dir limit (walFiles dir).reverse []
  simp only [hall, ok_bind]
  split
  · rw [if_neg (by omega)]; exact ⟨_, rfl⟩
  · exact ⟨_, rfl⟩

theorem getRecent_total (dir : Dir) (limit : Int) : ∃ r, getRecentWALRecords dir limit = .ok r := by
  unfold getRecentWALRecords
  by_cases h : limit < 0
  · rw [if_pos h]; exact recentFrom_total dir 0 (by omega)
  · rw [if_neg h]; exact recentFrom_total dir limit (by omega)

/-! ## The page loop as a pure function; per-page independence (DESIGN.md B.8) -/

/-- what parseWALPage contributes to the result of ParseWALFile (an error return = skipped page = nothing);
`fol` = the pages that follow -/
def pageRecs (pg fol : Bytes) : List Record :=
  match parseWALPage pg fol with
  | .ok (some rs) => rs
  | _ => []

def pagesPure (data : Bytes) : Nat → Nat → List Record
  | 0, _ => []
  | fuel+1, off =>
    if off + 8192 ≤ data.length then
      pageRecs ((data.take (off + 8192)).drop off) (data.drop (off + 8192)) ++ pagesPure data fuel (off + 8192)
    else []

theorem pagesLoop_eq (data : Bytes) (fuel off : Nat) : pagesLoop data fuel off = .ok (pagesPure data fuel off) := by
  induction fuel generalizing off with
  | zero => rfl
  | succ fuel ih =>
    unfold pagesLoop pagesPure
    split
    · rename_i hc
      rw [slice_ok data off (off + 8192) hc (by omega), sliceFrom_ok data (off + 8192) hc]
      simp only [ok_bind]
      obtain ⟨r, hr⟩ := parseWALPage_total ((data.take (off + 8192)).drop off) (data.drop (off + 8192))
      simp only [hr, ih, ok_bind, pure_eq_ok, pageRecs]
      cases r <;> rfl
    · rfl

/-- all records of a file: the page loop with the fuel ParseWALFile gives it -/
def fileRecs (data : Bytes) : List Record := pagesPure data (data.length / 8192 + 1) 0

theorem parseWALFile_eq (data : Bytes) :
    parseWALFile data = .ok (if data.length < 40 then none else some (fileRecs data)) := by
  unfold parseWALFile
  split
  · rfl
  · simp only [pagesLoop_eq, ok_bind, pure_eq_ok, fileRecs]

theorem pagesPure_append_right (a b : Bytes) (o fuel : Nat) :
    pagesPure (a ++ b) fuel (a.length + o) = pagesPure b fuel o := by
  induction fuel generalizing o with
  | zero => rfl
  | succ fuel ih =>
    simp only [pagesPure, List.length_append]
    by_cases h : o + 8192 ≤ b.length
    · rw [if_pos (by omega), if_pos h]
      have hd : ((a ++ b).take (a.length + o + 8192)).drop (a.length + o) = (b.take (o + 8192)).drop o := by
        rw [show a.length + o + 8192 = a.length + (o + 8192) by omega, List.take_length_add_append,
          List.drop_length_add_append]
      have hf : (a ++ b).drop (a.length + o + 8192) = b.drop (o + 8192) := by
        rw [show a.length + o + 8192 = a.length + (o + 8192) by omega, List.drop_length_add_append]
      rw [hd, hf, show a.length + o + 8192 = a.length + (o + 8192) by omega, ih]
    · rw [if_neg (by omega), if_neg h]

theorem pagesPure_fuel (data : Bytes) (o f1 f2 : Nat) (h1 : (data.length - o) / 8192 < f1)
    (h2 : (data.length - o) / 8192 < f2) : pagesPure data f1 o = pagesPure data f2 o := by
  induction f1 generalizing o f2 with
  | zero => exact absurd h1 (Nat.not_lt_zero _)
  | succ f1 ih =>
    cases f2 with
    | zero => exact absurd h2 (Nat.not_lt_zero _)
    | succ f2 =>
      simp only [pagesPure]
      by_cases h : o + 8192 ≤ data.length
      · rw [if_pos h, if_pos h]
        congr 1
        have : (data.length - (o + 8192)) / 8192 + 1 = (data.length - o) / 8192 := by
          have : data.length - o = (data.length - (o + 8192)) + 8192 := by omega
          rw [this, Nat.add_div_right _ (by decide : 0 < 8192)]
        exact ih (o + 8192) f2 (by omega) (by omega)
      · rw [if_neg h, if_neg h]

/-- the records reported for the pages of `a` (whole pages) when the bytes `b` follow: the first
`a.length / 8192` iterations of the page loop over `a ++ b` -/
def prefixRecs (a b : Bytes) : List Record := pagesPure (a ++ b) (a.length / 8192) 0

theorem pagesPure_split (a b : Bytes) (k fuel f2 : Nat) (ha : a.length = (k + fuel) * 8192) :
    pagesPure (a ++ b) (fuel + f2) (k * 8192) = pagesPure (a ++ b) fuel (k * 8192) ++ pagesPure (a ++ b) f2 a.length := by
  induction fuel generalizing k with
  | zero =>
    simp only [pagesPure, List.nil_append, Nat.zero_add]
    rw [ha]; simp
  | succ fuel ih =>
    rw [show fuel + 1 + f2 = (fuel + f2) + 1 by omega]
    simp only [pagesPure, List.length_append]
    have hle : k * 8192 + 8192 ≤ a.length := by omega
    rw [if_pos (by omega), if_pos (by omega)]
    rw [show k * 8192 + 8192 = (k + 1) * 8192 by omega,
      ih (k + 1) (by rw [ha]; congr 1; omega), List.append_assoc]

/-- reading `a ++ b` for a page-aligned `a` = what the pages of `a` give (with `b` following), then reading `b`:
the pages of `b` are read as if nothing preceded them -/
theorem fileRecs_append (a b : Bytes) (n : Nat) (ha : a.length = n * 8192) :
    fileRecs (a ++ b) = prefixRecs a b ++ fileRecs b := by
  unfold fileRecs prefixRecs
  have h1 : pagesPure (a ++ b) ((a ++ b).length / 8192 + 1) 0 = pagesPure (a ++ b) (n + (b.length / 8192 + 1)) 0 := by
    apply pagesPure_fuel
    · simp only [Nat.sub_zero]; omega
    · simp only [Nat.sub_zero, List.length_append, ha]
      rw [Nat.add_comm (n * 8192), Nat.add_mul_div_right _ _ (by decide : 0 < 8192)]; omega
  have h2 := pagesPure_split a b 0 n (b.length / 8192 + 1) (by simpa using ha)
  rw [Nat.zero_mul] at h2
  rw [h1, h2]
  have h3 := pagesPure_append_right a b 0 (b.length / 8192 + 1)
  rw [show a.length + 0 = a.length from rfl] at h3
  rw [h3, ha, Nat.mul_div_cancel _ (by decide : 0 < 8192)]

/-- one page followed by `rest`: what the page gives (with `rest` following), then `rest` -/
theorem fileRecs_cons (pg rest : Bytes) (h : pg.length = 8192) :
    fileRecs (pg ++ rest) = pageRecs pg rest ++ fileRecs rest := by
  rw [fileRecs_append pg rest 1 (by omega)]
  congr 1
  unfold prefixRecs
  rw [h]
  simp only [pagesPure, List.length_append, h]
  rw [if_pos (by omega), List.append_nil, Nat.zero_add, List.drop_zero, ← h, List.take_left', List.drop_left']
  · rfl
  · rfl

/-! ## Reading fields of an encoded record -/

theorem uN_mid (n v : Nat) (pre rest : Bytes) (k : Nat) (hk : k = pre.length) (h : v < 256 ^ n) :
    uN n (pre ++ (le n v ++ rest)) k = .ok v := by
  subst hk
  rw [uN_ok _ _ _ (by simp)]
  simp only [List.drop_left']
  rw [rd_le n v rest h]

theorem idx_mid (pre rest : Bytes) (b : UInt8) (k : Nat) (hk : k = pre.length) :
    idx (pre ++ (b :: rest)) k = .ok b := by
  subst hk
  unfold idx
  simp

theorem ofNat_toNat (v : Nat) (h : v < 256) : (UInt8.ofNat v).toNat = v := by
  simp [UInt8.toNat_ofNat']; omega
theorem bimg_rule : ∀ x < 256, ((x &&& 0x01 != 0) && (x &&& 0x02 != 0)) = Spec.Wal.compressHdr14 x ∧
    ((x &&& 0x01 != 0) && (x &&& 0x1C != 0)) = Spec.Wal.compressHdr15 x := by decide +kernel

/-! ## The block-reference walk on an encoded record body -/

open PgVerif.Spec.Wal (optBytes encImageHdr encRel encBlockHdr encBlockData)

def relM (r : Spec.Wal.RelFileNode) : RelFileNode := ⟨r.spc, r.db, r.rel⟩

def optImageLen : Option Spec.Wal.Image → Nat
  | some i => i.data.length
  | none => 0

theorem optBytes_le2_length (o : Option Nat) : (optBytes (le 2) o).length = if o.isSome then 2 else 0 := by
  cases o <;> simp [optBytes]

theorem encImageHdr_length (i : Spec.Wal.Image) : (encImageHdr i).length = 5 + if i.holeLength.isSome then 2 else 0 := by
  simp [encImageHdr, optBytes_le2_length]; omega

theorem afterImage_enc (i : Spec.Wal.Image) (p15 : Bool) (hi : i.WF p15) (pre rest : Bytes) :
    afterImage (pre ++ (encImageHdr i ++ rest)) p15 pre.length = .ok (pre.length + (encImageHdr i).length) := by
  obtain ⟨_, _, hb, hc, _⟩ := hi
  have h14 : p15 = true → Spec.Wal.compressHdr14 i.bimgInfo = i.holeLength.isSome := by
    intro h; rw [h] at hc; exact hc
  have h15 : p15 = false → Spec.Wal.compressHdr15 i.bimgInfo = i.holeLength.isSome := by
    intro h; rw [h] at hc; exact hc
  unfold afterImage
  have hd : pre ++ (encImageHdr i ++ rest) =
      (pre ++ (le 2 i.data.length ++ le 2 i.holeOffset)) ++
        (UInt8.ofNat i.bimgInfo :: (optBytes (le 2) i.holeLength ++ rest)) := by
    simp [encImageHdr, List.append_assoc]
  rw [hd, idx_mid _ _ _ _ (by simp)]
  simp only [ok_bind, pure_eq_ok, ofNat_toNat _ hb]
  have h1 := (bimg_rule i.bimgInfo hb).1
  have h2 := (bimg_rule i.bimgInfo hb).2
  rw [encImageHdr_length]
  congr 1
  cases p15
  · simp only [Bool.false_eq_true, if_false, h2, h15 rfl]
    cases i.holeLength <;> simp <;> omega
  · simp only [if_true, h1, h14 rfl]
    cases i.holeLength <;> simp <;> omega

theorem imagePart_enc (img : Option Spec.Wal.Image) (p15 : Bool) (himg : ∀ i ∈ img, i.WF p15) (pre rest : Bytes)
    (ff dt : Nat) (hff : (ff &&& 0x10 != 0) = img.isSome) :
    imagePart (pre ++ (optBytes encImageHdr img ++ rest)) p15 ff pre.length dt =
      .ok (some (pre.length + (optBytes encImageHdr img).length, dt + optImageLen img)) := by
  unfold imagePart
  cases img with
  | none => simp [hff, optBytes, optImageLen]
  | some i =>
    have hi := himg i rfl
    have hlen := encImageHdr_length i
    rw [hff]
    simp only [Option.isSome_some, if_true]
    split
    · rename_i hc
      simp only [optBytes, List.length_append] at hc
      omega
    · simp only [optBytes, optImageLen]
      rw [afterImage_enc i p15 hi]
      have hd : pre ++ (encImageHdr i ++ rest) = pre ++ (le 2 i.data.length ++ (le 2 i.holeOffset ++
          (UInt8.ofNat i.bimgInfo :: (optBytes (le 2) i.holeLength ++ rest)))) := by
        simp [encImageHdr, List.append_assoc]
      rw [hd, uN_mid 2 _ _ _ _ rfl (by have := hi.1; omega)]
      rfl

def relOf (rel : Option Spec.Wal.RelFileNode) (last : Option RelFileNode) : Option RelFileNode :=
  match rel with
  | some r => some (relM r)
  | none => last

theorem relPart_enc (rel : Option Spec.Wal.RelFileNode) (hrel : ∀ r ∈ rel, r.WF) (pre rest : Bytes)
    (ff : Nat) (last : Option RelFileNode) (hff : (ff &&& 0x80 == 0) = rel.isSome) :
    relPart (pre ++ (optBytes encRel rel ++ rest)) ff pre.length last =
      .ok (some (relOf rel last, pre.length + (optBytes encRel rel).length)) := by
  unfold relPart
  cases rel with
  | none => simp [hff, optBytes, relOf]
  | some r =>
    obtain ⟨h1, h2, h3⟩ := hrel r rfl
    rw [hff]
    simp only [Option.isSome_some, if_true]
    split
    · rename_i hc
      simp only [optBytes, encRel, List.length_append, le_length] at hc
      omega
    · simp only [optBytes, relOf, encRel]
      have hd1 : pre ++ (le 4 r.spc ++ le 4 r.db ++ le 4 r.rel ++ rest) = pre ++ (le 4 r.spc ++ (le 4 r.db ++ le 4 r.rel ++ rest)) := by
        simp [List.append_assoc]
      have hd2 : pre ++ (le 4 r.spc ++ le 4 r.db ++ le 4 r.rel ++ rest) = (pre ++ le 4 r.spc) ++ (le 4 r.db ++ (le 4 r.rel ++ rest)) := by
        simp [List.append_assoc]
      have hd3 : pre ++ (le 4 r.spc ++ le 4 r.db ++ le 4 r.rel ++ rest) = (pre ++ le 4 r.spc ++ le 4 r.db) ++ (le 4 r.rel ++ rest) := by
        simp [List.append_assoc]
      rw [show uN 4 (pre ++ (le 4 r.spc ++ le 4 r.db ++ le 4 r.rel ++ rest)) pre.length = .ok r.spc by
            rw [hd1]; exact uN_mid 4 _ _ _ _ rfl (by omega),
          show uN 4 (pre ++ (le 4 r.spc ++ le 4 r.db ++ le 4 r.rel ++ rest)) (pre.length + 4) = .ok r.db by
            rw [hd2]; exact uN_mid 4 _ _ _ _ (by simp) (by omega),
          show uN 4 (pre ++ (le 4 r.spc ++ le 4 r.db ++ le 4 r.rel ++ rest)) (pre.length + 8) = .ok r.rel by
            rw [hd3]; exact uN_mid 4 _ _ _ _ (by simp) (by omega)]
      simp [relM]


theorem imagePart_enc' (img : Option Spec.Wal.Image) (p15 : Bool) (himg : ∀ i ∈ img, i.WF p15) (pre rest : Bytes)
    (ff dt : Nat) (hff : (ff &&& 0x10 != 0) = img.isSome) (k : Nat) (hk : k = pre.length) :
    imagePart (pre ++ (optBytes encImageHdr img ++ rest)) p15 ff k dt =
      .ok (some (k + (optBytes encImageHdr img).length, dt + optImageLen img)) := by
  subst hk; exact imagePart_enc img p15 himg pre rest ff dt hff

theorem relPart_enc' (rel : Option Spec.Wal.RelFileNode) (hrel : ∀ r ∈ rel, r.WF) (pre rest : Bytes)
    (ff : Nat) (last : Option RelFileNode) (hff : (ff &&& 0x80 == 0) = rel.isSome) (k : Nat) (hk : k = pre.length) :
    relPart (pre ++ (optBytes encRel rel ++ rest)) ff k last =
      .ok (some (relOf rel last, k + (optBytes encRel rel).length)) := by
  subst hk; exact relPart_enc rel hrel pre rest ff last hff

def mkFF (fork : Nat) (i d w s : Bool) : Nat :=
  fork + (if i then 0x10 else 0) + (if d then 0x20 else 0) + (if w then 0x40 else 0) + (if s then 0x80 else 0)

theorem ff_bits : ∀ fork < 16, ∀ i d w s : Bool,
    mkFF fork i d w s < 256 ∧ (mkFF fork i d w s &&& 0x10 != 0) = i ∧ (mkFF fork i d w s &&& 0x80 == 0) = !s ∧
    mkFF fork i d w s &&& 0x0F = fork := by decide +kernel

theorem forkFlags_eq (b : Spec.Wal.BlockRef) :
    b.forkFlags = mkFF b.fork b.image.isSome b.data.isSome b.willInit b.rel.isNone := rfl

def blockM (b : Spec.Wal.BlockRef) (last : Option RelFileNode) : BlockRef :=
  ⟨b.id, b.fork, b.forkFlags, relOf b.rel last, b.blkno⟩

theorem encBlockHdr_length (b : Spec.Wal.BlockRef) :
    (encBlockHdr b).length = 4 + (optBytes encImageHdr b.image).length + (optBytes encRel b.rel).length + 4 := by
  simp [encBlockHdr]; omega

theorem blockStep_enc (b : Spec.Wal.BlockRef) (p15 : Bool) (hb : b.WF p15) (pre rest : Bytes) (dt : Nat)
    (last : Option RelFileNode) :
    blockStep (pre ++ (encBlockHdr b ++ rest)) p15 pre.length dt last =
      .ok (some ⟨blockM b last, pre.length + (encBlockHdr b).length,
                 dt + (b.data.getD []).length + optImageLen b.image, relOf b.rel last⟩) := by
  obtain ⟨hid, hfork, himg, hdata, hrel, hblk⟩ := hb
  obtain ⟨hff, hffi, hffs, hfff⟩ := ff_bits b.fork hfork b.image.isSome b.data.isSome b.willInit b.rel.isNone
  rw [← forkFlags_eq] at hff hffi hffs hfff
  have hdl : (b.data.getD []).length < 256 ^ 2 := by
    cases hd : b.data with
    | none => simp
    | some d => have := (hdata d (by simp [hd])).2; simpa using (by omega : d.length < 256 ^ 2)
  -- the same byte string, bracketed at each field in turn
  let t3 := optBytes encRel b.rel ++ (le 4 b.blkno ++ rest)
  let t2 := optBytes encImageHdr b.image ++ t3
  have e0 : pre ++ (encBlockHdr b ++ rest) =
      pre ++ (UInt8.ofNat b.id :: (UInt8.ofNat b.forkFlags :: (le 2 (b.data.getD []).length ++ t2))) := by
    simp [encBlockHdr, List.append_assoc, t2, t3]
  have e1 : pre ++ (encBlockHdr b ++ rest) =
      (pre ++ [UInt8.ofNat b.id]) ++ (UInt8.ofNat b.forkFlags :: (le 2 (b.data.getD []).length ++ t2)) := by
    rw [e0]; simp
  have e2 : pre ++ (encBlockHdr b ++ rest) =
      (pre ++ [UInt8.ofNat b.id, UInt8.ofNat b.forkFlags]) ++ (le 2 (b.data.getD []).length ++ t2) := by
    rw [e0]; simp
  have e3 : pre ++ (encBlockHdr b ++ rest) =
      (pre ++ [UInt8.ofNat b.id, UInt8.ofNat b.forkFlags] ++ le 2 (b.data.getD []).length) ++ (optBytes encImageHdr b.image ++ t3) := by
    rw [e0]; simp [t2]
  have e4 : pre ++ (encBlockHdr b ++ rest) =
      (pre ++ [UInt8.ofNat b.id, UInt8.ofNat b.forkFlags] ++ le 2 (b.data.getD []).length ++ optBytes encImageHdr b.image) ++
        (optBytes encRel b.rel ++ (le 4 b.blkno ++ rest)) := by
    rw [e0]; simp [t2, t3]
  have e5 : pre ++ (encBlockHdr b ++ rest) =
      (pre ++ [UInt8.ofNat b.id, UInt8.ofNat b.forkFlags] ++ le 2 (b.data.getD []).length ++ optBytes encImageHdr b.image ++
        optBytes encRel b.rel) ++ (le 4 b.blkno ++ rest) := by
    rw [e0]; simp [t2, t3]
  unfold blockStep
  rw [show idx (pre ++ (encBlockHdr b ++ rest)) pre.length = .ok (UInt8.ofNat b.id) by rw [e0]; exact idx_mid _ _ _ _ rfl]
  simp only [ok_bind, ofNat_toNat b.id (by omega)]
  rw [if_neg (by omega)]
  rw [show idx (pre ++ (encBlockHdr b ++ rest)) (pre.length + 1) = .ok (UInt8.ofNat b.forkFlags) by
        rw [e1]; exact idx_mid _ _ _ _ (by simp)]
  simp only [ok_bind, ofNat_toNat b.forkFlags hff]
  rw [show uN 2 (pre ++ (encBlockHdr b ++ rest)) (pre.length + 2) = .ok (b.data.getD []).length by
        rw [e2]; exact uN_mid 2 _ _ _ _ (by simp) hdl]
  simp only [ok_bind]
  rw [show imagePart (pre ++ (encBlockHdr b ++ rest)) p15 b.forkFlags (pre.length + 4) (dt + (b.data.getD []).length) =
        .ok (some (pre.length + 4 + (optBytes encImageHdr b.image).length, dt + (b.data.getD []).length + optImageLen b.image)) by
      rw [e3]
      exact imagePart_enc' b.image p15 himg _ t3 b.forkFlags (dt + (b.data.getD []).length) hffi _ (by simp)]
  simp only [ok_bind]
  rw [show relPart (pre ++ (encBlockHdr b ++ rest)) b.forkFlags (pre.length + 4 + (optBytes encImageHdr b.image).length) last =
        .ok (some (relOf b.rel last, pre.length + 4 + (optBytes encImageHdr b.image).length + (optBytes encRel b.rel).length)) by
      rw [e4]
      exact relPart_enc' b.rel hrel _ (le 4 b.blkno ++ rest) b.forkFlags last (by rw [hffs]; cases b.rel <;> rfl) _
        (by simp; omega)]
  simp only [ok_bind]
  have hl := encBlockHdr_length b
  rw [if_neg (by simp only [List.length_append]; omega)]
  rw [show uN 4 (pre ++ (encBlockHdr b ++ rest)) (pre.length + 4 + (optBytes encImageHdr b.image).length + (optBytes encRel b.rel).length) =
        .ok b.blkno by
      rw [e5]; exact uN_mid 4 _ _ _ _ (by simp; omega) (by omega)]
  simp only [ok_bind, pure_eq_ok, hfff, blockM, hl]
  congr 3
  omega


/-- what the walk reports for a list of block references, `last` = the relation in force before them -/
def viewsM : Option RelFileNode → List Spec.Wal.BlockRef → List BlockRef
  | _, [] => []
  | last, b :: bs => blockM b last :: viewsM (relOf b.rel last) bs

def blockBytes (b : Spec.Wal.BlockRef) : Nat := (b.data.getD []).length + optImageLen b.image

/-- the bytes after the last block header make the walk stop: nothing but the announced data is left, or
they start with an id above 32 -/
def Stops (rest : Bytes) (dt : Nat) : Prop :=
  rest.length ≤ dt ∨ ∃ b t, rest = b :: t ∧ b.toNat > 32

theorem blockLoop_stop (pre rest : Bytes) (p15 : Bool) (fuel dt : Nat) (last : Option RelFileNode)
    (hs : Stops rest dt) : blockLoop (pre ++ rest) p15 fuel pre.length dt last = .ok [] := by
  cases fuel with
  | zero => rfl
  | succ fuel =>
    unfold blockLoop
    split
    · rename_i hc
      rcases hs with hs | ⟨b, t, rfl, hb⟩
      · simp only [List.length_append] at hc; omega
      · unfold blockStep
        rw [idx_mid _ _ _ _ rfl]
        simp only [ok_bind]
        rw [if_pos hb]
        rfl
    · rfl

theorem blockLoop_enc (bs : List Spec.Wal.BlockRef) (p15 : Bool) (hbs : ∀ b ∈ bs, b.WF p15) (pre rest : Bytes)
    (fuel dt : Nat) (last : Option RelFileNode) (hfuel : bs.length ≤ fuel)
    (hroom : dt + (bs.map blockBytes).sum ≤ rest.length) (hs : Stops rest (dt + (bs.map blockBytes).sum)) :
    blockLoop (pre ++ (bs.flatMap encBlockHdr ++ rest)) p15 fuel pre.length dt last = .ok (viewsM last bs) := by
  induction bs generalizing pre fuel dt last with
  | nil =>
    simp only [List.flatMap_nil, List.nil_append, viewsM]
    simp only [List.map_nil, List.sum_nil, Nat.add_zero] at hs
    exact blockLoop_stop pre rest p15 fuel dt last hs
  | cons b bs ih =>
    cases fuel with
    | zero => simp at hfuel
    | succ fuel =>
      simp only [List.map_cons, List.sum_cons] at hroom hs
      have hl := encBlockHdr_length b
      have hbb : blockBytes b = (b.data.getD []).length + optImageLen b.image := rfl
      unfold blockLoop
      rw [if_pos (by simp only [List.flatMap_cons, List.length_append]; omega)]
      simp only [List.flatMap_cons, List.append_assoc]
      rw [blockStep_enc b p15 (hbs b (by simp)) pre _ dt last]
      simp only [ok_bind]
      have := ih (fun b' hb' => hbs b' (by simp [hb'])) (pre ++ encBlockHdr b) fuel
        (dt + (b.data.getD []).length + optImageLen b.image) (relOf b.rel last) (by simpa using hfuel)
        (by omega) (by rw [show dt + (b.data.getD []).length + optImageLen b.image + (bs.map blockBytes).sum = dt + (blockBytes b + (bs.map blockBytes).sum) by omega]; exact hs)
      rw [List.length_append, List.append_assoc] at this
      rw [this]
      rfl


theorem blockData_length (bs : List Spec.Wal.BlockRef) :
    (bs.flatMap encBlockData).length = (bs.map blockBytes).sum := by
  induction bs with
  | nil => rfl
  | cons b bs ih =>
    simp only [List.flatMap_cons, List.length_append, List.map_cons, List.sum_cons, ih, blockBytes, encBlockData]
    cases b.image <;> simp [optBytes, optImageLen] <;> omega

theorem blockHdrs_length (bs : List Spec.Wal.BlockRef) : bs.length ≤ (bs.flatMap encBlockHdr).length := by
  induction bs with
  | nil => simp
  | cons b bs ih =>
    have := encBlockHdr_length b
    simp only [List.flatMap_cons, List.length_append, List.length_cons]; omega

/-- the bytes that follow the block headers in a record body -/
def bodyRest (r : Spec.Wal.WalRecord) : Bytes :=
  optBytes (fun o => 253 :: le 2 o) r.origin ++ (optBytes (fun x => 252 :: le 4 x) r.topXid ++
    (Spec.Wal.encMainHdr r.mainData ++ (r.blocks.flatMap encBlockData ++ r.mainData)))

theorem encBody_eq (r : Spec.Wal.WalRecord) :
    Spec.Wal.encBody r = [] ++ (r.blocks.flatMap encBlockHdr ++ bodyRest r) := by
  simp [Spec.Wal.encBody, Spec.Wal.encHeaders, bodyRest, List.append_assoc]

theorem bodyRest_stops (r : Spec.Wal.WalRecord) : Stops (bodyRest r) ((r.blocks.map blockBytes).sum) := by
  unfold bodyRest
  cases ho : r.origin with
  | some o => right; exact ⟨253, _, rfl, by decide⟩
  | none =>
    cases ht : r.topXid with
    | some x => right; exact ⟨252, _, rfl, by decide⟩
    | none =>
      cases hm : r.mainData with
      | nil =>
        left
        simp only [optBytes, Spec.Wal.encMainHdr, List.isEmpty_nil, if_true, List.nil_append, List.append_nil,
          blockData_length]
        exact Nat.le_refl _
      | cons m ms =>
        right
        simp only [optBytes, Spec.Wal.encMainHdr, List.nil_append, List.isEmpty_cons, Bool.false_eq_true, if_false]
        by_cases hl : (m :: ms).length ≤ 255
        · rw [if_pos hl]; exact ⟨255, _, rfl, by decide⟩
        · rw [if_neg hl]; exact ⟨254, _, rfl, by decide⟩

theorem bodyRest_room (r : Spec.Wal.WalRecord) : (r.blocks.map blockBytes).sum ≤ (bodyRest r).length := by
  simp only [bodyRest, List.length_append, blockData_length]; omega

/-- The block-reference walk on the body of any record with well-formed block references reports exactly
those references (resolved relations), for both bimg_info conventions. -/
theorem parseBlockRefsFor_enc (r : Spec.Wal.WalRecord) (magic : Nat) (hb : ∀ b ∈ r.blocks, b.WF (decide (magic < 0xD110))) :
    parseBlockRefsFor (Spec.Wal.encBody r) magic = .ok (viewsM none r.blocks) := by
  unfold parseBlockRefsFor
  have h := blockLoop_enc r.blocks (decide (magic < 0xD110)) hb [] (bodyRest r) (Spec.Wal.encBody r).length 0 none
    (by rw [encBody_eq]; have := blockHdrs_length r.blocks; simp only [List.nil_append, List.length_append]; omega)
    (by have := bodyRest_room r; omega) (by rw [Nat.zero_add]; exact bodyRest_stops r)
  rw [← encBody_eq] at h
  exact h

def relS (r : RelFileNode) : Spec.Wal.RelFileNode := ⟨r.spc, r.db, r.rel⟩

/-- a reported block reference as a Spec view -/
def viewOfM (b : BlockRef) : Spec.Wal.BlockView := ⟨b.id, b.forkNum, b.flags, b.rel.map relS, b.blockNum⟩

theorem viewsM_views (last : Option RelFileNode) (bs : List Spec.Wal.BlockRef) :
    (viewsM last bs).map viewOfM = Spec.Wal.blockViews (last.map relS) bs := by
  induction bs generalizing last with
  | nil => rfl
  | cons b bs ih =>
    simp only [viewsM, List.map_cons, Spec.Wal.blockViews, ih]
    cases hr : b.rel <;> simp [viewOfM, blockM, relOf, hr, relS, relM]

open PgVerif.Spec.Wal (encRecHeader encBody encRecord pad8)

/-! ## parseXLogRecord on an encoded record -/

/-- what must be reported for record `r` found at `lsn`, with the given block references -/
def recM (magic lsn : Nat) (r : Spec.Wal.WalRecord) (blocks : List BlockRef) : Record :=
  { totalLen := r.totLen, xid := r.xid, prev := r.prev, info := r.info, rmid := r.rmid, crc := r.crc, lsn,
    rmName := rmgrName r.rmid, operation := operationNameFor r.rmid r.info magic, blocks }

theorem encRecHeader_length (r : Spec.Wal.WalRecord) : (encRecHeader r).length = 24 := by
  simp [encRecHeader]

theorem totLen_ge (r : Spec.Wal.WalRecord) : 24 ≤ r.totLen := by unfold Spec.Wal.WalRecord.totLen; omega

theorem parseXLogRecord_hdr (r : Spec.Wal.WalRecord) {v : Bool} (hr : r.WF v) (tail : Bytes) (lsn magic : Nat) :
    parseXLogRecord (encRecHeader r ++ tail) lsn magic =
      (do let blocks ← (if r.totLen > 24 && r.totLen ≤ (encRecHeader r ++ tail).length then do
                          let body ← slice (encRecHeader r ++ tail) 24 r.totLen
                          parseBlockRefsFor body magic
                        else pure [] : M (List BlockRef))
          pure (some (recM magic lsn r blocks), r.totLen)) := by
  obtain ⟨hxid, hprev, hinfo, hrmid, hcrc, _, _, _, _, _, htot⟩ := hr
  have h24 := totLen_ge r
  have hlen := encRecHeader_length r
  let t4 := le 4 r.crc ++ tail
  let t3 := UInt8.ofNat r.info :: UInt8.ofNat r.rmid :: 0 :: 0 :: t4
  have e0 : encRecHeader r ++ tail = [] ++ (le 4 r.totLen ++ (le 4 r.xid ++ (le 8 r.prev ++ t3))) := by
    simp [encRecHeader, List.append_assoc, t3, t4]
  have e1 : encRecHeader r ++ tail = le 4 r.totLen ++ (le 4 r.xid ++ (le 8 r.prev ++ t3)) := by rw [e0]; rfl
  have e2 : encRecHeader r ++ tail = (le 4 r.totLen ++ le 4 r.xid) ++ (le 8 r.prev ++ t3) := by rw [e0]; simp
  have e3 : encRecHeader r ++ tail = (le 4 r.totLen ++ le 4 r.xid ++ le 8 r.prev) ++ (UInt8.ofNat r.info :: (UInt8.ofNat r.rmid :: 0 :: 0 :: t4)) := by
    rw [e0]; simp [t3]
  have e4 : encRecHeader r ++ tail = (le 4 r.totLen ++ le 4 r.xid ++ le 8 r.prev ++ [UInt8.ofNat r.info]) ++ (UInt8.ofNat r.rmid :: (0 :: 0 :: t4)) := by
    rw [e0]; simp [t3]
  have e5 : encRecHeader r ++ tail = (le 4 r.totLen ++ le 4 r.xid ++ le 8 r.prev ++ [UInt8.ofNat r.info, UInt8.ofNat r.rmid, 0, 0]) ++ (le 4 r.crc ++ tail) := by
    rw [e0]; simp [t3, t4]
  unfold parseXLogRecord
  rw [if_neg (by simp only [List.length_append]; omega)]
  rw [show uN 4 (encRecHeader r ++ tail) 0 = .ok r.totLen by rw [e0]; exact uN_mid 4 _ _ _ _ rfl (by omega)]
  simp only [ok_bind]
  rw [if_neg (by unfold xlogRecordMaxSize; simp only [Bool.or_eq_true, decide_eq_true_eq]; omega)]
  rw [show uN 4 (encRecHeader r ++ tail) 4 = .ok r.xid by rw [e1]; exact uN_mid 4 _ _ _ _ (by simp) (by omega),
      show uN 8 (encRecHeader r ++ tail) 8 = .ok r.prev by rw [e2]; exact uN_mid 8 _ _ _ _ (by simp) (by omega),
      show idx (encRecHeader r ++ tail) 16 = .ok (UInt8.ofNat r.info) by rw [e3]; exact idx_mid _ _ _ _ (by simp),
      show idx (encRecHeader r ++ tail) 17 = .ok (UInt8.ofNat r.rmid) by rw [e4]; exact idx_mid _ _ _ _ (by simp),
      show uN 4 (encRecHeader r ++ tail) 20 = .ok r.crc by rw [e5]; exact uN_mid 4 _ _ _ _ (by simp) (by omega)]
  simp only [ok_bind, ofNat_toNat _ hinfo, ofNat_toNat _ hrmid]
  rfl

theorem blocks_nil_of_totLen (r : Spec.Wal.WalRecord) (h : r.totLen = 24) : r.blocks = [] := by
  cases hb : r.blocks with
  | nil => rfl
  | cons b bs =>
    have := encBlockHdr_length b
    have hpos : (encBlockHdr b).length ≤ (encBody r).length := by
      simp only [encBody, Spec.Wal.encHeaders, hb, List.flatMap_cons, List.length_append]; omega
    unfold Spec.Wal.WalRecord.totLen at h
    omega

/-- a record that lies wholly in the buffer is reported with all its fields and its block references, and
consumed with its total length -/
theorem parseXLogRecord_whole (r : Spec.Wal.WalRecord) {v : Bool} (hr : r.WF v) (rest : Bytes) (lsn magic : Nat)
    (hv : v = decide (magic < 0xD110)) :
    parseXLogRecord (encRecord r ++ rest) lsn magic = .ok (some (recM magic lsn r (viewsM none r.blocks)), r.totLen) := by
  subst hv
  have hlen := encRecHeader_length r
  have htl : r.totLen = 24 + (encBody r).length := rfl
  rw [show encRecord r ++ rest = encRecHeader r ++ (encBody r ++ rest) by simp [encRecord]]
  rw [parseXLogRecord_hdr r hr]
  by_cases h : r.totLen > 24
  · rw [if_pos (by simp only [Bool.and_eq_true, decide_eq_true_eq, List.length_append]; omega)]
    rw [slice_ok _ _ _ (by simp only [List.length_append]; omega) (by omega)]
    simp only [ok_bind]
    have hb : ((encRecHeader r ++ (encBody r ++ rest)).take r.totLen).drop 24 = encBody r := by
      rw [htl, ← hlen, List.take_length_add_append, List.drop_left' rfl, List.take_left' rfl]
    rw [hb, parseBlockRefsFor_enc r magic hr.2.2.2.2.2.1]
    rfl
  · rw [if_neg (by simp only [Bool.and_eq_true, decide_eq_true_eq]; omega)]
    rw [blocks_nil_of_totLen r (by have := totLen_ge r; omega)]
    rfl

/-- a record cut by the end of the buffer after at least its header is reported without block references, and
still consumed with its total length (what parseWALPage falls back to when the following pages do not carry the
rest of the record, e.g. at the end of a segment file; not used by the segment theorem any more) -/
theorem parseXLogRecord_cut (r : Spec.Wal.WalRecord) {v : Bool} (hr : r.WF v) (n : Nat) (h24 : 24 ≤ n) (hn : n < r.totLen)
    (lsn magic : Nat) :
    parseXLogRecord ((encRecord r).take n) lsn magic = .ok (some (recM magic lsn r []), r.totLen) := by
  have hlen := encRecHeader_length r
  rw [show (encRecord r).take n = encRecHeader r ++ (encBody r).take (n - 24) by
        rw [encRecord, List.take_append, hlen, List.take_of_length_le (by omega)]]
  rw [parseXLogRecord_hdr r hr]
  rw [if_neg (by
    simp only [Bool.and_eq_true, decide_eq_true_eq, List.length_append, List.length_take, hlen]; omega)]
  rfl

theorem le4_not_zero (v : Nat) (h0 : 0 < v) (h : v < 2 ^ 32) (t : Bytes) : isZeroPadding (le 4 v ++ t) = false := by
  unfold isZeroPadding
  have h4 : (le 4 v ++ t).take 8 = le 4 v ++ t.take 4 := by
    rw [List.take_append, le_length, List.take_of_length_le (by simp)]
  rw [h4, List.all_append]
  have : (le 4 v).all (· == 0) = false := by
    simp only [le, List.all_cons, List.all_nil, Bool.and_true, Bool.and_eq_false_iff, beq_eq_false_iff_ne, ne_eq]
    by_cases h1 : v % 256 = 0
    · by_cases h2 : v / 256 % 256 = 0
      · by_cases h3 : v / 256 / 256 % 256 = 0
        · right; right; right
          intro hc
          have := congrArg UInt8.toNat hc
          rw [ofNat_toNat _ (by omega)] at this
          simp at this; omega
        · right; right; left
          intro hc
          have := congrArg UInt8.toNat hc
          rw [ofNat_toNat _ (by omega)] at this
          simp at this; omega
      · right; left
        intro hc
        have := congrArg UInt8.toNat hc
        rw [ofNat_toNat _ (by omega)] at this
        simp at this; omega
    · left
      intro hc
      have := congrArg UInt8.toNat hc
      rw [ofNat_toNat _ (by omega)] at this
      simp at this; omega
  rw [this]; rfl

theorem align8_eq (n : Nat) : align8 n = Spec.Wal.align8 n := by
  unfold align8 Spec.Wal.align8
  have := andNot_mask (n + 7) 3
  simpa using this

theorem pad8_length (b : Bytes) : (pad8 b).length = Spec.Wal.align8 b.length := by
  simp only [pad8, List.length_append, zeros_length, Spec.Wal.align8]; omega

theorem encRecord_length (r : Spec.Wal.WalRecord) : (encRecord r).length = r.totLen := by
  simp [encRecord, encRecHeader, Spec.Wal.WalRecord.totLen]; omega

/-! ## The record loop on an encoded page -/

open PgVerif.Spec.Wal (Trailer pageHdrBytes)

/-- the records the loop must report from in-page position `pos` on: the whole records, then the record cut
by the page end — each with all its fields and block references -/
def loopRecs (magic pa : Nat) : Nat → List Spec.Wal.WalRecord → Trailer → List Record
  | pos, [], .cut r _ => [recM magic ((pa + pos) % 2 ^ 64) r (viewsM none r.blocks)]
  | _, [], .zeros _ => []
  | pos, r :: rs, tr =>
    recM magic ((pa + pos) % 2 ^ 64) r (viewsM none r.blocks) :: loopRecs magic pa (pos + Spec.Wal.align8 r.totLen) rs tr

/-- the pages that follow carry the rest of the record cut by the page end -/
def ContOK (fol : Bytes) : Trailer → Prop
  | .cut r n => continuationData fol (r.totLen - n) = .ok (some ((encRecord r).drop n))
  | .zeros _ => True

theorem encRecord_le4 (r : Spec.Wal.WalRecord) :
    encRecord r = le 4 r.totLen ++ (le 4 r.xid ++ (le 8 r.prev ++ UInt8.ofNat r.info :: UInt8.ofNat r.rmid :: 0 :: 0 :: (le 4 r.crc ++ encBody r))) := by
  simp [encRecord, encRecHeader, List.append_assoc]

theorem recordLoop_end (data fol : Bytes) (pa magic fuel pos : Nat) (h : data.length < pos + 8) :
    recordLoop data fol pa magic fuel pos = .ok [] := by
  cases fuel with
  | zero => rfl
  | succ fuel => unfold recordLoop; rw [if_neg (by omega)]; rfl

/-- a record that lies wholly in what is left of the page is parsed from those bytes -/
theorem recordBytes_whole (r : Spec.Wal.WalRecord) {v : Bool} (hr : r.WF v) (rest fol : Bytes) :
    recordBytes (encRecord r ++ rest) fol = .ok (encRecord r ++ rest) := by
  have hlen := encRecord_length r
  have htot : r.totLen ≤ 1069547520 := hr.2.2.2.2.2.2.2.2.2.2
  unfold recordBytes
  rw [show uN 4 (encRecord r ++ rest) 0 = .ok r.totLen by
    rw [encRecord_le4]; simp only [List.append_assoc]; exact uN_mid 4 _ [] _ 0 rfl (by omega)]
  simp only [ok_bind]
  rw [if_neg (by simp only [Bool.and_eq_true, decide_eq_true_eq, List.length_append, hlen]; omega)]
  rfl

/-- a record cut by the page end after `n ≥ 4` bytes is put together from those bytes and the continuation data
of the following pages -/
theorem recordBytes_cut (r : Spec.Wal.WalRecord) {v : Bool} (hr : r.WF v) (n : Nat) (h4 : 4 ≤ n) (hn : n < r.totLen) (fol : Bytes)
    (hc : continuationData fol (r.totLen - n) = .ok (some ((encRecord r).drop n))) :
    recordBytes ((encRecord r).take n) fol = .ok (encRecord r) := by
  have hlen := encRecord_length r
  have htot : r.totLen ≤ 1069547520 := hr.2.2.2.2.2.2.2.2.2.2
  unfold recordBytes
  rw [show uN 4 ((encRecord r).take n) 0 = .ok r.totLen by
    rw [encRecord_le4, List.take_append, le_length, List.take_of_length_le (by simp; omega)]
    exact uN_mid 4 _ [] _ 0 rfl (by omega)]
  simp only [ok_bind]
  have hfol := (continuationData_length fol _ _ hc).2
  rw [if_pos (by simp only [Bool.and_eq_true, decide_eq_true_eq, List.length_take, hlen]; omega)]
  rw [List.length_take, hlen, show min n r.totLen = n by omega, hc]
  simp only [ok_bind, pure_eq_ok, List.take_append_drop]

theorem recordLoop_trailer (pre fol : Bytes) (tr : Trailer) {v : Bool} (htr : tr.WF v) (hc : ContOK fol tr) (pa magic fuel : Nat)
    (hf : 2 ≤ fuel) (hv : v = decide (magic < 0xD110)) :
    recordLoop (pre ++ tr.bytes) fol pa magic fuel pre.length = .ok (loopRecs magic pa pre.length [] tr) := by
  cases fuel with
  | zero => omega
  | succ fuel =>
    cases tr with
    | zeros bs =>
      unfold recordLoop
      split
      · rw [sliceFrom_ok _ _ (by simp)]
        simp only [ok_bind, List.drop_left', Trailer.bytes]
        have hz : isZeroPadding bs = true := htr
        rw [if_pos hz]; rfl
      · rfl
    | cut r n =>
      obtain ⟨hr, h8, hn⟩ := htr
      have hlen := encRecord_length r
      have h24 := totLen_ge r
      unfold recordLoop
      rw [if_pos (by simp only [Trailer.bytes, List.length_append, List.length_take]; omega)]
      rw [sliceFrom_ok _ _ (by simp)]
      simp only [ok_bind, List.drop_left', Trailer.bytes]
      have hz : isZeroPadding ((encRecord r).take n) = false := by
        rw [encRecord_le4, List.take_append, le_length, List.take_of_length_le (by simp; omega)]
        exact le4_not_zero _ (by omega) (by have := hr.2.2.2.2.2.2.2.2.2.2; omega) _
      rw [hz]
      simp only [Bool.false_eq_true, if_false]
      rw [recordBytes_cut r hr n (by omega) hn fol hc]
      simp only [ok_bind]
      have hw := parseXLogRecord_whole r hr [] ((pa + pre.length) % 2 ^ 64) magic hv
      rw [List.append_nil] at hw
      rw [hw]
      simp only [ok_bind]
      rw [if_neg (by simp only [beq_iff_eq]; omega)]
      rw [recordLoop_end _ _ _ _ _ _ (by
        rw [align8_eq]; simp only [List.length_append, List.length_take, Spec.Wal.align8]; omega)]
      rfl


/-- **Record-loop invariant.**  From an 8-aligned in-page position `pre.length`, with the rest of the page
being whole MAXALIGN-padded records followed by a trailer, the loop reports exactly those records, each at
`(pageAddr + position) mod 2^64`, with all header fields and block references; then the record cut by the
page end — anywhere after its first 8 bytes, also inside its 24-byte header — put together from the
continuation data of the following pages. -/
theorem recordLoop_enc (rs : List Spec.Wal.WalRecord) {v : Bool} (hrs : ∀ r ∈ rs, r.WF v) (tr : Trailer) (htr : tr.WF v)
    (fol : Bytes) (hc : ContOK fol tr)
    (pre : Bytes) (hpre : pre.length % 8 = 0) (pa magic fuel : Nat) (hf : rs.length + 2 ≤ fuel)
    (hv : v = decide (magic < 0xD110)) :
    recordLoop (pre ++ ((rs.flatMap fun r => pad8 (encRecord r)) ++ tr.bytes)) fol pa magic fuel pre.length =
      .ok (loopRecs magic pa pre.length rs tr) := by
  induction rs generalizing pre fuel with
  | nil => simpa using recordLoop_trailer pre fol tr htr hc pa magic fuel (by simpa using hf) hv
  | cons r rs ih =>
    cases fuel with
    | zero => omega
    | succ fuel =>
      have hr := hrs r (by simp)
      have hlen := encRecord_length r
      have hpl := pad8_length (encRecord r)
      have h24 := totLen_ge r
      rw [hlen] at hpl
      simp only [List.flatMap_cons, List.append_assoc]
      unfold recordLoop
      rw [if_pos (by simp only [List.length_append, hpl, Spec.Wal.align8]; omega)]
      rw [sliceFrom_ok _ _ (by simp)]
      simp only [ok_bind, List.drop_left']
      have hsplit : pad8 (encRecord r) ++ ((rs.flatMap fun r => pad8 (encRecord r)) ++ tr.bytes) =
          encRecord r ++ (zeros (Spec.Wal.align8 (encRecord r).length - (encRecord r).length) ++
            ((rs.flatMap fun r => pad8 (encRecord r)) ++ tr.bytes)) := by
        simp [pad8, List.append_assoc]
      have hz : isZeroPadding (pad8 (encRecord r) ++ ((rs.flatMap fun r => pad8 (encRecord r)) ++ tr.bytes)) = false := by
        rw [hsplit, encRecord_le4]
        simp only [List.append_assoc]
        exact le4_not_zero _ (by omega) (by have := hr.2.2.2.2.2.2.2.2.2.2; omega) _
      rw [hz]
      simp only [Bool.false_eq_true, if_false]
      rw [hsplit, recordBytes_whole r hr]
      simp only [ok_bind]
      rw [parseXLogRecord_whole r hr _ _ _ hv]
      simp only [ok_bind]
      rw [if_neg (by simp only [beq_iff_eq]; omega)]
      have hnext : align8 (pre.length + r.totLen) = (pre ++ pad8 (encRecord r)).length := by
        rw [align8_eq, List.length_append, hpl]; simp only [Spec.Wal.align8]; omega
      rw [hnext, ← hsplit]
      have := ih (fun r' h' => hrs r' (by simp [h'])) (pre ++ pad8 (encRecord r))
        (by rw [List.length_append, hpl]; simp only [Spec.Wal.align8]; omega) fuel (by simpa using hf)
      rw [List.append_assoc] at this
      rw [this]
      simp only [ok_bind, pure_eq_ok, loopRecs, List.length_append, hpl]

/-! ## parseWALPage on an encoded page -/

theorem pageHdrBytes_length (magic info tli addr rem : Nat) (ext : Bytes) :
    (pageHdrBytes magic info tli addr rem ext).length = 24 + ext.length := by
  simp [pageHdrBytes]; omega

theorem parsePageHeader_enc (magic info tli addr rem : Nat) (ext tail : Bytes)
    (hm : magic < 2 ^ 16) (hi : info < 2 ^ 16) (ht : tli < 2 ^ 32) (ha : addr < 2 ^ 64) (hr : rem < 2 ^ 32) :
    ∃ h, parsePageHeader (pageHdrBytes magic info tli addr rem ext ++ tail) = .ok h ∧
      h.magic = magic ∧ h.info = info ∧ h.pageAddr = addr ∧ h.remLen = rem := by
  let t5 := zeros 4 ++ ext ++ tail
  have e0 : pageHdrBytes magic info tli addr rem ext ++ tail =
      [] ++ (le 2 magic ++ (le 2 info ++ (le 4 tli ++ (le 8 addr ++ (le 4 rem ++ t5))))) := by
    simp [pageHdrBytes, List.append_assoc, t5]
  have e1 : pageHdrBytes magic info tli addr rem ext ++ tail =
      le 2 magic ++ (le 2 info ++ (le 4 tli ++ (le 8 addr ++ (le 4 rem ++ t5)))) := by rw [e0]; rfl
  have e2 : pageHdrBytes magic info tli addr rem ext ++ tail =
      (le 2 magic ++ le 2 info) ++ (le 4 tli ++ (le 8 addr ++ (le 4 rem ++ t5))) := by rw [e0]; simp
  have e3 : pageHdrBytes magic info tli addr rem ext ++ tail =
      (le 2 magic ++ le 2 info ++ le 4 tli) ++ (le 8 addr ++ (le 4 rem ++ t5)) := by rw [e0]; simp
  have e4 : pageHdrBytes magic info tli addr rem ext ++ tail =
      (le 2 magic ++ le 2 info ++ le 4 tli ++ le 8 addr) ++ (le 4 rem ++ t5) := by rw [e0]; simp
  unfold parsePageHeader
  rw [show uN 2 (pageHdrBytes magic info tli addr rem ext ++ tail) 0 = .ok magic by rw [e0]; exact uN_mid 2 _ _ _ _ rfl (by omega),
      show uN 2 (pageHdrBytes magic info tli addr rem ext ++ tail) 2 = .ok info by rw [e1]; exact uN_mid 2 _ _ _ _ (by simp) (by omega),
      show uN 4 (pageHdrBytes magic info tli addr rem ext ++ tail) 4 = .ok tli by rw [e2]; exact uN_mid 4 _ _ _ _ (by simp) (by omega),
      show uN 8 (pageHdrBytes magic info tli addr rem ext ++ tail) 8 = .ok addr by rw [e3]; exact uN_mid 8 _ _ _ _ (by simp) (by omega),
      show uN 4 (pageHdrBytes magic info tli addr rem ext ++ tail) 16 = .ok rem by rw [e4]; exact uN_mid 4 _ _ _ _ (by simp) (by omega)]
  simp only [ok_bind]
  split
  · rename_i hc
    simp only [Bool.and_eq_true, decide_eq_true_eq] at hc
    rw [uN_ok 8 _ 24 (by omega), uN_ok 4 _ 32 (by omega), uN_ok 4 _ 36 (by omega)]
    exact ⟨_, rfl, rfl, rfl, rfl, rfl⟩
  · exact ⟨_, rfl, rfl, rfl, rfl, rfl⟩

theorem flatMap_pad8_length (rs : List Spec.Wal.WalRecord) :
    rs.length ≤ (rs.flatMap fun r => pad8 (encRecord r)).length := by
  induction rs with
  | nil => simp
  | cons r rs ih =>
    have h1 := pad8_length (encRecord r)
    rw [encRecord_length] at h1
    have h2 := totLen_ge r
    simp only [List.flatMap_cons, List.length_append, List.length_cons, h1, Spec.Wal.align8]
    omega

/-- the page header, the continuation area, then whole records and a trailer: parseWALPage reports the records -/
theorem parseWALPage_enc (magic info tli addr rem : Nat) (ext cont : Bytes)
    (rs : List Spec.Wal.WalRecord) (tr : Trailer) (fol : Bytes)
    (hm : magic < 2 ^ 16) (hi : info < 2 ^ 16) (ht : tli < 2 ^ 32) (ha : addr < 2 ^ 64) (hr : rem < 2 ^ 32)
    (hvalid : isValidMagic magic = true)
    (hext : ext.length = if info &&& 0x0002 != 0 then 16 else 0)
    (hcont : cont.length = if info &&& 0x0001 != 0 && rem > 0 then Spec.Wal.align8 rem else 0)
    (hrs : ∀ r ∈ rs, r.WF (decide (magic < 0xD110))) (htr : tr.WF (decide (magic < 0xD110))) (hc : ContOK fol tr) :
    parseWALPage (pageHdrBytes magic info tli addr rem ext ++ cont ++ ((rs.flatMap fun r => pad8 (encRecord r)) ++ tr.bytes)) fol =
      .ok (some (loopRecs magic addr (24 + ext.length + cont.length) rs tr)) := by
  have hl := pageHdrBytes_length magic info tli addr rem ext
  unfold parseWALPage
  rw [if_neg (by simp only [List.length_append]; omega)]
  obtain ⟨h, hh, h1, h2, h3, h4⟩ := parsePageHeader_enc magic info tli addr rem ext
    (cont ++ ((rs.flatMap fun r => pad8 (encRecord r)) ++ tr.bytes)) hm hi ht ha hr
  rw [List.append_assoc, hh]
  simp only [ok_bind, h1, hvalid, Bool.not_true, Bool.false_eq_true, if_false, h3]
  have hstart : startPos h = (pageHdrBytes magic info tli addr rem ext ++ cont).length := by
    unfold startPos headerSize
    rw [h2, h4, List.length_append, hl, hext, hcont]
    by_cases hl2 : (info &&& 0x0002 != 0) = true <;> by_cases hc : (info &&& 0x0001 != 0 && decide (rem > 0)) = true <;>
      simp only [hl2, hc, if_true, if_false, Bool.false_eq_true, align8_eq, Spec.Wal.align8] <;> omega
  have hfl := flatMap_pad8_length rs
  rw [hstart, ← List.append_assoc]
  rw [recordLoop_enc rs hrs tr htr fol hc _ (by
        rw [List.length_append, hl, hext, hcont]
        by_cases hl2 : (info &&& 0x0002 != 0) = true <;> by_cases hc : (info &&& 0x0001 != 0 && decide (rem > 0)) = true <;>
          simp only [hl2, hc, if_true, if_false, Bool.false_eq_true, Spec.Wal.align8] <;> omega)
      addr magic _ (by simp only [List.length_append, hl]; omega) rfl]
  simp only [ok_bind, pure_eq_ok, List.length_append, hl]

/-- a page whose continuation data (rem_len) reaches to within 8 bytes of its end holds no record start -/
theorem parseWALPage_allcont (magic info tli addr rem : Nat) (ext tail fol : Bytes)
    (hm : magic < 2 ^ 16) (hi : info < 2 ^ 16) (ht : tli < 2 ^ 32) (ha : addr < 2 ^ 64) (hr : rem < 2 ^ 32)
    (hvalid : isValidMagic magic = true) (hflag : (info &&& 0x0001 != 0) = true)
    (hext : ext.length = if info &&& 0x0002 != 0 then 16 else 0)
    (hfull : 24 + ext.length + tail.length < 24 + ext.length + Spec.Wal.align8 rem + 8) :
    parseWALPage (pageHdrBytes magic info tli addr rem ext ++ tail) fol = .ok (some []) := by
  have hl := pageHdrBytes_length magic info tli addr rem ext
  unfold parseWALPage
  rw [if_neg (by simp only [List.length_append]; omega)]
  obtain ⟨h, hh, h1, h2, h3, h4⟩ := parsePageHeader_enc magic info tli addr rem ext tail hm hi ht ha hr
  rw [hh]
  simp only [ok_bind, h1, hvalid, Bool.not_true, Bool.false_eq_true, if_false]
  rw [recordLoop_end _ _ _ _ _ _ (by
    unfold startPos headerSize
    rw [h2, h4, hflag]
    simp only [List.length_append, hl, hext, Bool.true_and, align8_eq] at hfull ⊢
    by_cases hrem : rem > 0 <;> by_cases hl2 : (info &&& 0x0002 != 0) = true <;>
      simp only [hrem, hl2, decide_true, decide_false, if_true, if_false, Bool.false_eq_true, Spec.Wal.align8] at hfull ⊢ <;> omega)]
  rfl

/-! ## Files as lists of pages -/

theorem fileRecs_short (t : Bytes) (h : t.length < 8192) : fileRecs t = [] := by
  unfold fileRecs
  simp only [pagesPure]
  rw [if_neg (by omega)]

theorem rd_zeros (n m : Nat) : rd n (zeros m) = 0 := by
  induction n generalizing m with
  | zero => rfl
  | succ n ih =>
    cases m with
    | zero => rfl
    | succ m =>
      have : zeros (m + 1) = 0 :: zeros m := rfl
      rw [this, rd, ih]; rfl

theorem drop_zeros (k m : Nat) : (zeros m).drop k = zeros (m - k) := by simp [zeros]

/-- a never-written (all-zero) page is skipped -/
theorem pageRecs_zeros (m : Nat) (hm : 24 ≤ m) (fol : Bytes) : pageRecs (zeros m) fol = [] := by
  unfold pageRecs parseWALPage
  rw [if_neg (by simp; omega)]
  unfold parsePageHeader
  rw [uN_ok 2 _ 0 (by simp; omega), uN_ok 2 _ 2 (by simp; omega), uN_ok 4 _ 4 (by simp; omega),
    uN_ok 8 _ 8 (by simp; omega), uN_ok 4 _ 16 (by simp; omega)]
  simp only [ok_bind, drop_zeros, rd_zeros]
  rfl

end PgVerif.Proofs.Wal
