/-
  Helper lemmas about the WAL model (wal.go).
-/
import PgVerif.Model.Wal
import PgVerif.Spec.Wal
namespace PgVerif.Proofs.Wal
open PgVerif PgVerif.Model.Wal

end PgVerif.Proofs.Wal
