/-
  The executable hypothesis check of the full dump theorem (Model/ClusterHyp.lean, tag `hyp:dump=ok` of family
  `cluster_dump`) implies the hypotheses of `C01_dump`.
-/
import PgVerif.Proofs.ClusterFull
import PgVerif.Model.ClusterHyp
namespace PgVerif.Proofs.Cluster
open PgVerif PgVerif.Model PgVerif.Model.ClusterHyp PgVerif.Spec PgVerif.Proofs List

theorem denseB_sound : ∀ (i : Nat) (as : List AttrRow), denseB i as = true → DenseFrom i as
  | _, [], _ => trivial
  | i, a :: as, h => by
    simp only [denseB, Bool.and_eq_true, beq_iff_eq] at h
    exact ⟨h.1, denseB_sound (i + 1) as h.2⟩

theorem relReadableB_sound (d : DbContent) (r : ClassRow) (h : relReadableB d r = true) : RelReadable d r :=
  ⟨denseB_sound 0 _ h⟩

theorem storageOKB_sound (a : AttrRow) (h : storageOKB a = true) : StorageOK a := by
  simp only [storageOKB, Bool.or_eq_true, beq_iff_eq] at h
  rcases h with ((h | h) | h) | h
  · exact Or.inl h
  · exact Or.inr (Or.inl h)
  · exact Or.inr (Or.inr (Or.inl h))
  · exact Or.inr (Or.inr (Or.inr h))

theorem schemaOKB_sound (l : Layout) (att : HeapOf AttrRow) (ver : Nat) (h : schemaOKB l att ver = true) : SchemaOK l att ver := by
  simp only [schemaOKB, Bool.or_eq_true, Bool.and_eq_true, decide_eq_true_eq, beq_iff_eq, all_eq_true] at h
  rcases h with ((⟨h1, h2⟩ | ⟨⟨h1, h2⟩, h3⟩) | ⟨⟨h1, h2⟩, h3⟩) | ⟨h1, h2⟩
  · exact Or.inl ⟨h1, h2⟩
  · exact Or.inr (Or.inl ⟨h1, h2, h3⟩)
  · exact Or.inr (Or.inr (Or.inl ⟨h1, h2, h3⟩))
  · exact Or.inr (Or.inr (Or.inr ⟨h1, fun a ha => storageOKB_sound a (h2 a ha)⟩))

theorem dumpableB_sound (l : Layout) (d : DbContent) (o : Options) (h : dumpableB l d o = true) :
    DbDumpable l d o ∧ A02Free d o := by
  simp only [dumpableB, Bool.and_eq_true, all_eq_true, Bool.or_eq_true, Bool.not_eq_true', bne_iff_ne, ne_eq,
    Option.isNone_iff_eq_none, decide_eq_true_eq] at h
  obtain ⟨⟨⟨hs, hasc⟩, ha02⟩, hr⟩ := h
  refine ⟨⟨schemaOKB_sound l d.att _ hs, hasc, ?_, ?_⟩, ha02⟩
  · intro r hrm hsel
    rcases hr r hrm with h | h
    · rw [hsel] at h; cases h
    · exact ⟨h.1.1.1, h.1.1.2, h.1.2⟩
  · intro r hrm hsel pages hp hlo hne
    rcases hr r hrm with h | h
    · rw [hsel] at h; cases h
    · have h4 := h.2
      rw [hp] at h4
      simp only [Bool.or_eq_true, isEmpty_iff] at h4
      rcases h4 with (h4 | h4) | h4
      · rw [hlo] at h4; cases h4
      · exact absurd h4 hne
      · exact relReadableB_sound d r h4

/-- **The run-time check is sound**: a cluster and options for which `dumpHypB` says `true` satisfy the hypotheses of
`C01_dump`: outside the classes of the open findings (`TemplatesByName`, `Cluster.Plain`, `Cluster.IdentityMapped`,
`Cluster.NoFastDefaults`, `A02Free`) and `DbDumpable`. -/
theorem dumpHypB_sound (c : Cluster) (o : Options) (h : dumpHypB c o = true) :
    TemplatesByName c ∧ c.Plain ∧ c.IdentityMapped ∧ c.NoFastDefaults ∧
    ∀ db ∈ c.dbs.live, selectedDb o db = true → ∀ d, c.content.lookup db.oid = some d → DbDumpable c.layout d o ∧ A02Free d o := by
  simp only [dumpHypB, Bool.and_eq_true, decide_eq_true_eq] at h
  obtain ⟨⟨⟨⟨htpl, hplain⟩, hid⟩, hnm⟩, h⟩ := h
  refine ⟨htpl, hplain, hid, hnm, ?_⟩
  intro db hdb hsel d hd
  simp only [all_eq_true, Bool.or_eq_true, Bool.not_eq_true'] at h
  rcases h db hdb with h | h
  · rw [hsel] at h; cases h
  · rw [hd] at h
    exact dumpableB_sound c.layout d o h

end PgVerif.Proofs.Cluster
