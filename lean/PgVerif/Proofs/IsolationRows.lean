/-
  C10 — value-level isolation inside one tuple (helper lemmas for Props/C10/Isolation.lean).

  `decodeColsOff` is the column loop of DecodeTuple returning, beside the (name, value) pairs, the data offset behind
  the last column (`decodeCols` is its first component: `decodeCols_eq`).

  * columns BEHIND a damaged value (`decodeCols_suffix`): the loop from offset `o` on depends on the data bytes from `o` on
    (and on `o` itself, through the alignment) only.
  * columns IN FRONT of a damaged value (`decodeColsOff_prefix`): if the columns `cs` end at offset `e` on the undamaged
    tuple, they decode to the same values and end at the same offset `e` on every tuple whose data has the same length,
    the same bytes below `e`, and whose byte AT `e` is the external-pointer tag 18 in both or in neither (`SameUpTo`):
    ReadVarlena looks at the tag byte behind a `0x01` header even when it then consumes only the header, so the first
    damaged byte can move the END of the last column in front of it (never its value) — `stub_lookahead` is the witness.
-/
import PgVerif.Proofs.Isolation
import PgVerif.Model.Rows
import PgVerif.Proofs.InlineComp
namespace PgVerif.Proofs.Isolation
open PgVerif PgVerif.Model PgVerif.Proofs

/-- the column loop of DecodeTuple with the final data offset -/
def decodeColsOff (dec : Dec) (t : HeapTuple) : List Column → Nat → Nat → M (List (Bytes × GoVal) × Nat)
  | [], _, offset => pure ([], offset)
  | col :: cs, i, offset =>
    let num : Int := if col.num = 0 then (i : Int) + 1 else col.num
    if t.isNull num then do
      let rest ← decodeColsOff dec t cs (i + 1) offset
      pure ((col.name, GoVal.nil) :: rest.1, rest.2)
    else do
      let a ← chooseAlign col t.data offset
      let off := align offset a
      let r ← readValue dec t.data off col.typid col.len
      let rest ← decodeColsOff dec t cs (i + 1) (off + r.2)
      pure ((col.name, r.1) :: rest.1, rest.2)

theorem decodeCols_eq (dec : Dec) (t : HeapTuple) (cs : List Column) (i offset : Nat) :
    decodeCols dec t cs i offset = (decodeColsOff dec t cs i offset).map (·.1) := by
  induction cs generalizing i offset with
  | nil => rfl
  | cons col cs ih =>
    simp only [decodeCols, decodeColsOff]
    generalize (if col.num = 0 then (i : Int) + 1 else col.num) = num
    by_cases hn : t.isNull num = true
    · rw [if_pos hn, if_pos hn, ih]; cases decodeColsOff dec t cs (i + 1) offset <;> rfl
    · rw [if_neg hn, if_neg hn]
      cases chooseAlign col t.data offset with
      | error e => rfl
      | ok a =>
        simp only [ok_bind]
        cases readValue dec t.data (align offset a) col.typid col.len with
        | error e => rfl
        | ok r =>
          simp only [ok_bind]
          rw [ih]; cases decodeColsOff dec t cs (i + 1) (align offset a + r.2) <;> rfl

/-- the loop over `cs₁ ++ cs₂` is the loop over `cs₁`, then the loop over `cs₂` from where `cs₁` ended -/
theorem decodeCols_append (dec : Dec) (t : HeapTuple) (cs₁ cs₂ : List Column) (i offset : Nat) :
    decodeCols dec t (cs₁ ++ cs₂) i offset =
      (do let r ← decodeColsOff dec t cs₁ i offset
          let rest ← decodeCols dec t cs₂ (i + cs₁.length) r.2
          pure (r.1 ++ rest)) := by
  induction cs₁ generalizing i offset with
  | nil =>
    simp only [List.nil_append, decodeColsOff, pure_eq_ok, ok_bind, List.length_nil, Nat.add_zero]
    cases decodeCols dec t cs₂ i offset <;> rfl
  | cons col cs ih =>
    simp only [List.cons_append, decodeCols, decodeColsOff, List.length_cons]
    have hi : i + (cs.length + 1) = i + 1 + cs.length := by omega
    generalize (if col.num = 0 then (i : Int) + 1 else col.num) = num
    by_cases hn : t.isNull num = true
    · rw [if_pos hn, if_pos hn, ih, hi]
      cases decodeColsOff dec t cs (i + 1) offset with
      | error e => rfl
      | ok r =>
        simp only [ok_bind, pure_eq_ok]
        cases decodeCols dec t cs₂ (i + 1 + cs.length) r.2 <;> rfl
    · rw [if_neg hn, if_neg hn]
      cases chooseAlign col t.data offset with
      | error e => rfl
      | ok a =>
        simp only [ok_bind]
        cases readValue dec t.data (align offset a) col.typid col.len with
        | error e => rfl
        | ok r =>
          simp only [ok_bind]
          rw [ih, hi]
          cases decodeColsOff dec t cs (i + 1) (align offset a + r.2) with
          | error e => rfl
          | ok r2 =>
            simp only [ok_bind, pure_eq_ok]
            cases decodeCols dec t cs₂ (i + 1 + cs.length) r2.2 <;> rfl

theorem align_ge (o a : Nat) : o ≤ align o a := by
  unfold align
  split
  · exact Nat.le_refl _
  · unfold andNot
    have := @Nat.and_le_right (o + a - 1) (a - 1)
    omega

/-! ### columns behind the damage -/

theorem idx_of_drop_eq {data data' : Bytes} {o : Nat} (hs : data'.drop o = data.drop o) (j : Nat) (hj : o ≤ j) :
    idx data' j = idx data j := by
  unfold idx
  have e : ∀ l : Bytes, l[j]? = (l.drop o)[j - o]? := by
    intro l; rw [List.getElem?_drop]; congr 1; omega
  rw [e data', e data, hs]

theorem drop_of_drop_eq {data data' : Bytes} {o : Nat} (hs : data'.drop o = data.drop o) (j : Nat) (hj : o ≤ j) :
    data'.drop j = data.drop j := by
  have e : ∀ l : Bytes, l.drop j = (l.drop o).drop (j - o) := by
    intro l; rw [List.drop_drop]; congr 1; omega
  rw [e data', e data, hs]

theorem readValue_suffix (dec : Dec) {data data' : Bytes} {o : Nat} (hl : data'.length = data.length)
    (hs : data'.drop o = data.drop o) (off : Nat) (ho : o ≤ off) (typid len : Int) :
    readValue dec data' off typid len = readValue dec data off typid len := by
  unfold readValue sliceFrom
  rw [hl, drop_of_drop_eq hs off ho]

theorem chooseAlign_suffix {data data' : Bytes} {o : Nat} (hl : data'.length = data.length)
    (hs : data'.drop o = data.drop o) (col : Column) (off : Nat) (ho : o ≤ off) :
    chooseAlign col data' off = chooseAlign col data off := by
  unfold chooseAlign
  rw [hl, idx_of_drop_eq hs off ho]

/-- from offset `o` on, the column loop depends only on the data bytes from `o` on -/
theorem decodeCols_suffix (dec : Dec) (hdr : TupleHeader) (bm : Option Bytes) {data data' : Bytes} {o : Nat}
    (hl : data'.length = data.length) (hs : data'.drop o = data.drop o) :
    ∀ (cs : List Column) (i off : Nat), o ≤ off →
      decodeCols dec ⟨hdr, bm, data'⟩ cs i off = decodeCols dec ⟨hdr, bm, data⟩ cs i off
  | [], _, _, _ => rfl
  | col :: cs, i, off, ho => by
    simp only [decodeCols]
    have hn : ∀ n : Int, (⟨hdr, bm, data'⟩ : HeapTuple).isNull n = (⟨hdr, bm, data⟩ : HeapTuple).isNull n := fun _ => rfl
    rw [hn]
    generalize (if col.num = 0 then (i : Int) + 1 else col.num) = num
    by_cases hnl : (⟨hdr, bm, data⟩ : HeapTuple).isNull num = true
    · rw [if_pos hnl, if_pos hnl, decodeCols_suffix dec hdr bm hl hs cs (i + 1) off ho]
    · rw [if_neg hnl, if_neg hnl, chooseAlign_suffix hl hs col off ho]
      cases chooseAlign col data off with
      | error e => rfl
      | ok a =>
        simp only [ok_bind]
        have ha := align_ge off a
        rw [readValue_suffix dec hl hs (align off a) (by omega)]
        cases readValue dec data (align off a) col.typid col.len with
        | error e => rfl
        | ok r =>
          simp only [ok_bind]
          rw [decodeCols_suffix dec hdr bm hl hs cs (i + 1) (align off a + r.2) (by omega)]

/-! ### columns in front of the damage -/

/-- same length, same bytes below `e`, and the byte at `e` is 18 (VARTAG_ONDISK) in both or in neither -/
def SameUpTo (data data' : Bytes) (e : Nat) : Prop :=
  data'.length = data.length ∧ (∀ j, j < e → data'[j]? = data[j]?) ∧ (data'[e]? = some 18 ↔ data[e]? = some 18)

theorem SameUpTo.drop {data data' : Bytes} {e : Nat} (h : SameUpTo data data' e) (off : Nat) (ho : off ≤ e) :
    SameUpTo (data.drop off) (data'.drop off) (e - off) := by
  refine ⟨by simp [h.1], ?_, ?_⟩
  · intro j hj; simp only [List.getElem?_drop]; exact h.2.1 _ (by omega)
  · simp only [List.getElem?_drop]
    have : off + (e - off) = e := by omega
    rw [this]; exact h.2.2

theorem SameUpTo.agree {R R' : Bytes} {k : Nat} (h : SameUpTo R R' k) : AgreeOutside R R' k R.length := by
  refine ⟨h.1, ?_⟩
  intro i hi
  rcases hi with hi | hi
  · exact h.2.1 i hi
  · rw [List.getElem?_eq_none (by rw [h.1]; exact hi), List.getElem?_eq_none hi]

theorem idx_eq_of_agree {R R' : Bytes} {a b : Nat} (h : AgreeOutside R R' a b) (j : Nat) (hj : j < a ∨ b ≤ j) :
    idx R' j = idx R j := by
  unfold idx; rw [h.2 j hj]

/-- ReadVarlena: what it returns depends on the length of its input, on the bytes it consumes and — behind a `0x01`
header — on whether the next byte is 18 -/
theorem readVarlena_prefix {R R' : Bytes} {k : Nat} (h : SameUpTo R R' k) (x : Option Bytes) (c0 : Nat)
    (hr : readVarlena R = .ok (x, c0)) (hk : max c0 1 ≤ k) : readVarlena R' = .ok (x, c0) := by
  have hag := h.agree
  unfold readVarlena at hr ⊢
  rw [h.1]
  by_cases h0 : R.length = 0
  · rw [if_pos h0] at hr ⊢; exact hr
  · rw [if_neg h0] at hr ⊢
    rw [idx_eq_of_agree hag 0 (by omega)]
    rw [idx_ok R 0 (by omega)] at hr ⊢
    simp only [ok_bind] at hr ⊢
    by_cases hs : R[0].toNat % 2 = 1 ∧ R[0].toNat ≠ 1
    · rw [if_pos hs] at hr ⊢
      by_cases hf : R[0].toNat / 2 < 1 ∨ R.length < R[0].toNat / 2
      · rw [if_pos hf] at hr ⊢; exact hr
      · rw [if_neg hf] at hr ⊢
        rw [slice_ok R 1 _ (by omega) (by omega)] at hr
        simp only [ok_bind, pure_eq_ok, Except.ok.injEq, Prod.mk.injEq] at hr
        rw [slice_eq hag 1 _ (by omega), slice_ok R 1 _ (by omega) (by omega)]
        simp only [ok_bind, pure_eq_ok, Except.ok.injEq, Prod.mk.injEq]
        exact hr
    · rw [if_neg hs] at hr ⊢
      by_cases h1 : R[0].toNat = 1
      · rw [if_pos h1] at hr ⊢
        by_cases h18 : R.length ≥ 18
        · rw [if_pos h18] at hr ⊢
          rw [idx_ok R 1 (by omega)] at hr
          have hR' : 1 < R'.length := by rw [h.1]; omega
          rw [idx_ok R' 1 hR']
          simp only [ok_bind] at hr ⊢
          -- the tag byte: equal when it lies below k, and "is 18" agrees when it is the byte at k
          have htag : (R'[1].toNat = 18) ↔ (R[1].toNat = 18) := by
            by_cases hk1 : 1 < k
            · have := h.2.1 1 hk1
              rw [List.getElem?_eq_getElem hR', List.getElem?_eq_getElem (by omega)] at this
              rw [Option.some.injEq] at this; rw [this]
            · have hk' : k = 1 := by omega
              have := h.2.2
              rw [hk', List.getElem?_eq_getElem hR', List.getElem?_eq_getElem (by omega)] at this
              simp only [Option.some.injEq] at this
              constructor
              · intro h'
                have : R'[1] = 18 := UInt8.toNat_inj.mp (by simpa using h')
                rw [(‹R'[1] = 18 ↔ R[1] = 18›).mp this]; rfl
              · intro h'
                have : R[1] = 18 := UInt8.toNat_inj.mp (by simpa using h')
                rw [(‹R'[1] = 18 ↔ R[1] = 18›).mpr this]; rfl
          by_cases ht : R[1].toNat = 18
          · rw [if_pos ht] at hr; rw [if_pos (htag.mpr ht)]; exact hr
          · rw [if_neg ht] at hr; rw [if_neg (fun h' => ht (htag.mp h'))]; exact hr
        · rw [if_neg h18] at hr ⊢; exact hr
      · rw [if_neg h1] at hr ⊢
        by_cases h4 : R.length < 4
        · rw [if_pos h4] at hr ⊢; exact hr
        · rw [if_neg h4] at hr ⊢
          rw [uN_ok 4 R 0 (by omega)] at hr
          simp only [ok_bind] at hr
          have hc4 : 4 ≤ c0 := by
            by_cases hf : rd 4 (R.drop 0) / 4 < 4 ∨ R.length < rd 4 (R.drop 0) / 4
            · rw [if_pos hf] at hr; simp only [pure_eq_ok, Except.ok.injEq, Prod.mk.injEq] at hr; omega
            · rw [if_neg hf] at hr
              by_cases hz : rd 4 (R.drop 0) % 4 = 2 ∧ 8 ≤ rd 4 (R.drop 0) / 4
              · rw [if_pos hz] at hr
                obtain ⟨v, hv⟩ := Proofs.InlineComp.inlineDecompress_total R _ hz.2 (by omega)
                rw [hv] at hr
                simp only [ok_bind, pure_eq_ok, Except.ok.injEq, Prod.mk.injEq] at hr; omega
              · rw [if_neg hz] at hr
                rw [slice_ok R 4 _ (by omega) (by omega)] at hr
                simp only [ok_bind, pure_eq_ok, Except.ok.injEq, Prod.mk.injEq] at hr; omega
          rw [uN_eq hag 4 0 (by omega), uN_ok 4 R 0 (by omega)]
          simp only [ok_bind]
          by_cases hf : rd 4 (R.drop 0) / 4 < 4 ∨ R.length < rd 4 (R.drop 0) / 4
          · rw [if_pos hf] at hr ⊢; exact hr
          · rw [if_neg hf] at hr ⊢
            by_cases hz : rd 4 (R.drop 0) % 4 = 2 ∧ 8 ≤ rd 4 (R.drop 0) / 4
            · rw [if_pos hz] at hr ⊢
              -- the inline-compressed branch reads va_tcinfo and the stream, all inside the consumed bytes
              have hc0 : c0 = rd 4 (R.drop 0) / 4 := by
                obtain ⟨v, hv⟩ := Proofs.InlineComp.inlineDecompress_total R _ hz.2 (by omega)
                rw [hv] at hr
                simp only [ok_bind, pure_eq_ok, Except.ok.injEq, Prod.mk.injEq] at hr; omega
              have hinl : inlineDecompress R' (rd 4 (R.drop 0) / 4) = inlineDecompress R (rd 4 (R.drop 0) / 4) := by
                unfold inlineDecompress
                rw [uN_eq hag 4 4 (by omega), slice_eq hag 8 _ (by omega)]
              rw [hinl]; exact hr
            · rw [if_neg hz] at hr ⊢
              rw [slice_ok R 4 _ (by omega) (by omega)] at hr
              simp only [ok_bind, pure_eq_ok, Except.ok.injEq, Prod.mk.injEq] at hr
              rw [slice_eq hag 4 _ (by omega), slice_ok R 4 _ (by omega) (by omega)]
              simp only [ok_bind, pure_eq_ok, Except.ok.injEq, Prod.mk.injEq]
              exact hr

/-- a payload is only returned together with a positive consumed length -/
theorem readVarlena_some_pos (R v : Bytes) (c0 : Nat) (hr : readVarlena R = .ok (some v, c0)) : 1 ≤ c0 := by
  unfold readVarlena at hr
  by_cases h0 : R.length = 0
  · rw [if_pos h0] at hr; cases hr
  · rw [if_neg h0, idx_ok R 0 (by omega)] at hr
    simp only [ok_bind] at hr
    by_cases hs : R[0].toNat % 2 = 1 ∧ R[0].toNat ≠ 1
    · rw [if_pos hs] at hr
      by_cases hf : R[0].toNat / 2 < 1 ∨ R.length < R[0].toNat / 2
      · rw [if_pos hf] at hr; cases hr
      · rw [if_neg hf, slice_ok R 1 _ (by omega) (by omega)] at hr
        simp only [ok_bind, pure_eq_ok, Except.ok.injEq, Prod.mk.injEq] at hr; omega
    · rw [if_neg hs] at hr
      by_cases h1 : R[0].toNat = 1
      · rw [if_pos h1] at hr
        by_cases h18 : R.length ≥ 18
        · rw [if_pos h18, idx_ok R 1 (by omega)] at hr
          simp only [ok_bind] at hr
          split at hr <;> cases hr
        · rw [if_neg h18] at hr; cases hr
      · rw [if_neg h1] at hr
        by_cases h4 : R.length < 4
        · rw [if_pos h4] at hr; cases hr
        · rw [if_neg h4, uN_ok 4 R 0 (by omega)] at hr
          simp only [ok_bind] at hr
          by_cases hf : rd 4 (R.drop 0) / 4 < 4 ∨ R.length < rd 4 (R.drop 0) / 4
          · rw [if_pos hf] at hr; cases hr
          · rw [if_neg hf] at hr
            by_cases hz : rd 4 (R.drop 0) % 4 = 2 ∧ 8 ≤ rd 4 (R.drop 0) / 4
            · rw [if_pos hz] at hr
              obtain ⟨w, hw⟩ := Proofs.InlineComp.inlineDecompress_total R _ hz.2 (by omega)
              rw [hw] at hr
              simp only [ok_bind, pure_eq_ok, Except.ok.injEq, Prod.mk.injEq] at hr; omega
            · rw [if_neg hz, slice_ok R 4 _ (by omega) (by omega)] at hr
              simp only [ok_bind, pure_eq_ok, Except.ok.injEq, Prod.mk.injEq] at hr; omega

theorem take_eq_of_sameUpTo {R R' : Bytes} {k : Nat} (h : SameUpTo R R' k) (m : Nat) (hm : m ≤ k) :
    R'.take m = R.take m := by
  apply List.ext_getElem?
  intro j
  simp only [List.getElem?_take]
  by_cases hj : j < m
  · rw [if_pos hj, if_pos hj]; exact h.2.1 j (by omega)
  · rw [if_neg hj, if_neg hj]

/-- `takeWhile` up to the first byte failing `P` depends only on the bytes up to and including that byte -/
theorem takeWhile_prefix (P : UInt8 → Bool) : ∀ (R R' : Bytes), (R.takeWhile P).length < R.length →
    R'.take ((R.takeWhile P).length + 1) = R.take ((R.takeWhile P).length + 1) → R'.takeWhile P = R.takeWhile P
  | [], _, hl, _ => by simp at hl
  | x :: xs, R', hl, ht => by
    cases R' with
    | nil => simp at ht
    | cons y ys =>
      cases hp : P x with
      | false =>
        simp only [List.takeWhile_cons, hp] at ht ⊢
        simp only [Bool.false_eq_true, if_false, List.length_nil, Nat.zero_add, List.take_succ_cons, List.take_zero,
          List.cons.injEq, and_true] at ht
        rw [ht, hp]; rfl
      | true =>
        simp only [List.takeWhile_cons, hp, if_true, List.length_cons] at hl ht ⊢
        simp only [List.take_succ_cons, List.cons.injEq] at ht
        rw [ht.1, hp]
        simp only [if_true, List.cons.injEq, true_and]
        exact takeWhile_prefix P xs ys (by omega) ht.2

theorem readCString_prefix {R R' : Bytes} {k : Nat} (h : SameUpTo R R' k) (hc : (readCString R).2 ≤ k) :
    readCString R' = readCString R := by
  unfold readCString at hc ⊢
  by_cases hl : (R.takeWhile (· != 0)).length < R.length
  · rw [if_pos hl] at hc
    simp only at hc
    have ht := takeWhile_prefix (· != 0) R R' hl (take_eq_of_sameUpTo h _ hc)
    rw [ht, h.1, if_pos hl, if_pos hl]
  · rw [if_neg hl] at hc
    simp only at hc
    have hR : R' = R := by
      have := take_eq_of_sameUpTo h R.length hc
      rw [List.take_of_length_le (by rw [h.1]; exact Nat.le_refl _), List.take_of_length_le (Nat.le_refl _)] at this
      exact this
    rw [hR]

/-- readValue: value and consumed length depend only on the length of the data and on the bytes the value occupies
(plus the tag test behind a `0x01` header, see `SameUpTo`) -/
theorem readValue_prefix (dec : Dec) {data data' : Bytes} {e : Nat} (h : SameUpTo data data' e) (off : Nat)
    (typid len : Int) (v : GoVal) (c : Nat) (hr : readValue dec data off typid len = .ok (v, c)) (hc : off + c ≤ e) :
    readValue dec data' off typid len = .ok (v, c) := by
  unfold readValue at hr ⊢
  rw [h.1]
  by_cases ho : off ≥ data.length
  · rw [if_pos ho] at hr ⊢; exact hr
  · rw [if_neg ho] at hr ⊢
    rw [sliceFrom_ok data off (by omega)] at hr
    rw [sliceFrom_ok data' off (by rw [h.1]; omega)]
    simp only [ok_bind] at hr ⊢
    have hR := h.drop off (by omega)
    have hRl : (data'.drop off).length = (data.drop off).length := hR.1
    by_cases hp : len > 0
    · rw [if_pos hp] at hr ⊢
      rw [hRl]
      by_cases hs : ((data.drop off).length : Int) < len
      · rw [if_pos hs] at hr ⊢; exact hr
      · rw [if_neg hs] at hr ⊢
        have hn : len.toNat ≤ (data.drop off).length := by omega
        rw [sliceTo_ok _ _ hn] at hr
        rw [sliceTo_ok _ _ (by rw [hRl]; exact hn)]
        simp only [ok_bind] at hr ⊢
        cases hd : dec ((data.drop off).take len.toNat) typid with
        | error er => rw [hd] at hr; cases hr
        | ok w =>
          rw [hd] at hr
          simp only [ok_bind, pure_eq_ok, Except.ok.injEq, Prod.mk.injEq] at hr
          rw [take_eq_of_sameUpTo hR len.toNat (by omega), hd]
          simp only [ok_bind, pure_eq_ok, Except.ok.injEq, Prod.mk.injEq]
          exact hr
    · rw [if_neg hp] at hr ⊢
      by_cases hm : len = -1
      · rw [if_pos hm] at hr ⊢
        cases hv : readVarlena (data.drop off) with
        | error er => rw [hv] at hr; cases hr
        | ok r =>
          obtain ⟨x, c0⟩ := r
          rw [hv] at hr
          simp only [ok_bind] at hr
          cases x with
          | none =>
            simp only [pure_eq_ok, Except.ok.injEq, Prod.mk.injEq] at hr
            rw [readVarlena_prefix hR none c0 hv (by omega)]
            simp only [ok_bind, pure_eq_ok, Except.ok.injEq, Prod.mk.injEq]
            exact hr
          | some val =>
            dsimp only at hr
            have hpos := readVarlena_some_pos _ _ _ hv
            cases hw : varlenaVal dec val typid with
            | error er => rw [hw] at hr; cases hr
            | ok w =>
              rw [hw] at hr
              simp only [ok_bind, pure_eq_ok, Except.ok.injEq, Prod.mk.injEq] at hr
              rw [readVarlena_prefix hR (some val) c0 hv (by omega)]
              simp only [ok_bind, hw, pure_eq_ok, Except.ok.injEq, Prod.mk.injEq]
              exact hr
      · rw [if_neg hm] at hr ⊢
        simp only [pure_eq_ok, Except.ok.injEq] at hr ⊢
        have hc' : (readCString (data.drop off)).2 ≤ e - off := by rw [hr]; simp only; omega
        rw [readCString_prefix hR hc', hr]

/-- a varlena column read inside the data consumes at least one byte -/
theorem readValue_varlena_pos (dec : Dec) (data : Bytes) (off : Nat) (typid : Int) (v : GoVal) (c : Nat)
    (ho : off < data.length) (hr : readValue dec data off typid (-1) = .ok (v, c)) : 1 ≤ c := by
  unfold readValue at hr
  rw [if_neg (by omega), sliceFrom_ok data off (by omega)] at hr
  simp only [ok_bind] at hr
  rw [if_neg (by omega)] at hr
  simp only [if_true] at hr
  cases hv : readVarlena (data.drop off) with
  | error er => rw [hv] at hr; cases hr
  | ok r =>
    obtain ⟨x, c0⟩ := r
    rw [hv] at hr
    simp only [ok_bind] at hr
    cases x with
    | none => simp only [pure_eq_ok, Except.ok.injEq, Prod.mk.injEq] at hr; omega
    | some val =>
      dsimp only at hr
      have hpos := readVarlena_some_pos _ _ _ hv
      cases hw : varlenaVal dec val typid with
      | error er => rw [hw] at hr; cases hr
      | ok w =>
        rw [hw] at hr
        simp only [ok_bind, pure_eq_ok, Except.ok.injEq, Prod.mk.injEq] at hr; omega

theorem chooseAlign_prefix {data data' : Bytes} {e : Nat} (h : SameUpTo data data' e) (col : Column) (offset : Nat)
    (ho : col.len = -1 ∧ offset < data.length → offset < e) : chooseAlign col data' offset = chooseAlign col data offset := by
  unfold chooseAlign
  rw [h.1]
  by_cases hc : col.len = -1 ∧ offset < data.length
  · rw [if_pos hc, if_pos hc]
    unfold idx
    rw [h.2.1 offset (ho hc)]
  · rw [if_neg hc, if_neg hc]

/-- the data offset never moves backwards -/
theorem decodeColsOff_mono (dec : Dec) (t : HeapTuple) : ∀ (cs : List Column) (i off : Nat) (ps : List (Bytes × GoVal)) (e : Nat),
    decodeColsOff dec t cs i off = .ok (ps, e) → off ≤ e
  | [], _, off, ps, e, hr => by
    simp only [decodeColsOff, pure_eq_ok, Except.ok.injEq, Prod.mk.injEq] at hr; omega
  | col :: cs, i, off, ps, e, hr => by
    simp only [decodeColsOff] at hr
    generalize (if col.num = 0 then (i : Int) + 1 else col.num) = num at hr
    by_cases hn : t.isNull num = true
    · rw [if_pos hn] at hr
      cases hrest : decodeColsOff dec t cs (i + 1) off with
      | error er => rw [hrest] at hr; cases hr
      | ok rest =>
        rw [hrest] at hr
        simp only [ok_bind, pure_eq_ok, Except.ok.injEq, Prod.mk.injEq] at hr
        have := decodeColsOff_mono dec t cs (i + 1) off rest.1 rest.2 hrest
        omega
    · rw [if_neg hn] at hr
      cases ha : chooseAlign col t.data off with
      | error er => rw [ha] at hr; cases hr
      | ok a =>
        rw [ha] at hr
        simp only [ok_bind] at hr
        cases hv : readValue dec t.data (align off a) col.typid col.len with
        | error er => rw [hv] at hr; cases hr
        | ok r =>
          rw [hv] at hr
          simp only [ok_bind] at hr
          cases hrest : decodeColsOff dec t cs (i + 1) (align off a + r.2) with
          | error er => rw [hrest] at hr; cases hr
          | ok rest =>
            rw [hrest] at hr
            simp only [ok_bind, pure_eq_ok, Except.ok.injEq, Prod.mk.injEq] at hr
            have := decodeColsOff_mono dec t cs (i + 1) _ rest.1 rest.2 hrest
            have := align_ge off a
            omega

/-- columns that end at or below `e` decode the same, and end at the same offset, on every data that is `SameUpTo e` -/
theorem decodeColsOff_prefix (dec : Dec) (hdr : TupleHeader) (bm : Option Bytes) {data data' : Bytes} {e : Nat}
    (h : SameUpTo data data' e) : ∀ (cs : List Column) (i off : Nat) (ps : List (Bytes × GoVal)) (e' : Nat),
    decodeColsOff dec ⟨hdr, bm, data⟩ cs i off = .ok (ps, e') → e' ≤ e →
    decodeColsOff dec ⟨hdr, bm, data'⟩ cs i off = .ok (ps, e')
  | [], _, off, ps, e', hr, _ => by
    simp only [decodeColsOff] at hr ⊢; exact hr
  | col :: cs, i, off, ps, e', hr, he => by
    simp only [decodeColsOff] at hr ⊢
    have hnull : ∀ n : Int, (⟨hdr, bm, data'⟩ : HeapTuple).isNull n = (⟨hdr, bm, data⟩ : HeapTuple).isNull n := fun _ => rfl
    rw [hnull]
    generalize (if col.num = 0 then (i : Int) + 1 else col.num) = num at hr ⊢
    by_cases hn : (⟨hdr, bm, data⟩ : HeapTuple).isNull num = true
    · rw [if_pos hn] at hr ⊢
      cases hrest : decodeColsOff dec ⟨hdr, bm, data⟩ cs (i + 1) off with
      | error er => rw [hrest] at hr; cases hr
      | ok rest =>
        rw [hrest] at hr
        simp only [ok_bind, pure_eq_ok, Except.ok.injEq, Prod.mk.injEq] at hr
        rw [decodeColsOff_prefix dec hdr bm h cs (i + 1) off rest.1 rest.2 hrest (by omega)]
        simp only [ok_bind, pure_eq_ok, Except.ok.injEq, Prod.mk.injEq]
        exact hr
    · rw [if_neg hn] at hr ⊢
      cases ha : chooseAlign col data off with
      | error er => rw [ha] at hr; cases hr
      | ok a =>
        rw [ha] at hr
        simp only [ok_bind] at hr
        cases hv : readValue dec data (align off a) col.typid col.len with
        | error er => rw [hv] at hr; cases hr
        | ok r =>
          rw [hv] at hr
          simp only [ok_bind] at hr
          cases hrest : decodeColsOff dec ⟨hdr, bm, data⟩ cs (i + 1) (align off a + r.2) with
          | error er => rw [hrest] at hr; cases hr
          | ok rest =>
            rw [hrest] at hr
            simp only [ok_bind, pure_eq_ok, Except.ok.injEq, Prod.mk.injEq] at hr
            have hmono := decodeColsOff_mono dec ⟨hdr, bm, data⟩ cs (i + 1) _ rest.1 rest.2 hrest
            have hge := align_ge off a
            have hend : align off a + r.2 ≤ e := by omega
            -- the byte chooseAlign looks at lies inside this column's own storage
            have hlook : col.len = -1 ∧ off < data.length → off < e := by
              intro ⟨hl, hlt⟩
              by_cases hlt2 : off < align off a
              · omega
              · have heq : align off a = off := by omega
                have hv' := hv
                rw [heq, hl] at hv'
                have := readValue_varlena_pos dec data off col.typid r.1 r.2 hlt hv'
                omega
            rw [chooseAlign_prefix h col off hlook, ha]
            simp only [ok_bind]
            rw [readValue_prefix dec h (align off a) col.typid col.len r.1 r.2 hv hend]
            simp only [ok_bind]
            rw [decodeColsOff_prefix dec hdr bm h cs (i + 1) _ rest.1 rest.2 hrest (by omega)]
            simp only [ok_bind, pure_eq_ok, Except.ok.injEq, Prod.mk.injEq]
            exact hr

end PgVerif.Proofs.Isolation
