/-
  The number-to-text functions of `Types/Text.lean` (`decNat`, `decInt`, `padNat`, `fmt0d`, `hexNat`, `hexPad`,
  `hexBytes`, `joinBytes`) pinned down by INDEPENDENT characterisations.

  Every round-trip theorem of property C04 compares two expressions built from these same functions, so a bug in
  `decNat` itself would pass all of them.  This file closes that gap: it defines, without mentioning the functions
  under test, what the value of a string of decimal / hexadecimal digits is (`decVal`, `hexVal`: read the digits
  most significant first, `none` for the empty string or a non-digit), and proves that

  * `decNat n` / `hexNat u n` is the numeral of value `n` with no leading zero — and the ONLY such string;
  * `padNat w n` / `hexPad w n` is the numeral of value `n` of exactly `w` digits when `n` fits (`%02d`, `%04d`, `%08x`)
    — and the only such string;
  * `decInt`, `fmt0d` are a sign followed by those; `hexBytes` is two hex digits per byte, each byte recoverable;
  * `joinBytes` with a one-byte separator that occurs in no part splits back uniquely.

  Core Lean only.
-/
import PgVerif.Types.Text
namespace PgVerif.Proofs.TxtNumerals
open PgVerif PgVerif.Txt

/-! ## The independent definitions: the value of a numeral -/

/-- value of one ASCII decimal digit `'0'..'9'` -/
def decDigit (c : UInt8) : Option Nat :=
  if 48 ≤ c.toNat ∧ c.toNat ≤ 57 then some (c.toNat - 48) else none

/-- value of one ASCII hexadecimal digit: `'0'..'9'`, and `'A'..'F'` (upper) or `'a'..'f'` (lower) -/
def hexDigit (upper : Bool) (c : UInt8) : Option Nat :=
  if 48 ≤ c.toNat ∧ c.toNat ≤ 57 then some (c.toNat - 48)
  else if upper then (if 65 ≤ c.toNat ∧ c.toNat ≤ 70 then some (c.toNat - 65 + 10) else none)
  else (if 97 ≤ c.toNat ∧ c.toNat ≤ 102 then some (c.toNat - 97 + 10) else none)

/-- read the digits of `s` (most significant first) in base `base` onto the value `acc` read so far;
`none` as soon as a character is not a digit -/
def valAux (dv : UInt8 → Option Nat) (base : Nat) : Nat → Bytes → Option Nat
  | acc, [] => some acc
  | acc, c :: cs =>
    match dv c with
    | none => none
    | some d => valAux dv base (acc * base + d) cs

/-- the value of a non-empty string of digits, most significant first -/
def numVal (dv : UInt8 → Option Nat) (base : Nat) (s : Bytes) : Option Nat :=
  if s = [] then none else valAux dv base 0 s

/-- the number a string of ASCII decimal digits denotes (`none`: empty or not all digits) -/
def decVal (s : Bytes) : Option Nat := numVal decDigit 10 s

/-- the number a string of ASCII hexadecimal digits (of the given case) denotes -/
def hexVal (upper : Bool) (s : Bytes) : Option Nat := numVal (hexDigit upper) 16 s

/-- the integer a decimal numeral with an optional leading `-` denotes -/
def decIntVal (s : Bytes) : Option Int :=
  match s with
  | [] => none
  | c :: t =>
    if c = 45 then (decVal t).map (fun (n : Nat) => -(n : Int))
    else (decVal (c :: t)).map (fun (n : Nat) => (n : Int))

example : decVal (asc "1234567890") = some 1234567890 := by decide
example : decVal (asc "007") = some 7 := by decide
example : decVal (asc "") = none := by decide
example : decVal (asc "12a") = none := by decide
example : decVal (asc "-1") = none := by decide
example : hexVal false (asc "ff") = some 255 := by decide
example : hexVal true (asc "ff") = none := by decide
example : hexVal true (asc "DEADBEEF") = some 0xDEADBEEF := by decide
example : decIntVal (asc "-42") = some (-42) := by decide
example : decIntVal (asc "42") = some 42 := by decide

/-! ## Generic part: a digit generator `genAux` (the common shape of `decAux` and `hexAux`) -/

/-- the common shape of `decAux` (`ch = digitCh`, `b = 10`) and `hexAux` (`ch = hexCh u`, `b = 16`) -/
def genAux (ch : Nat → UInt8) (b : Nat) : Nat → Nat → Bytes → Bytes
  | 0, n, acc => ch (n % b) :: acc
  | fuel+1, n, acc =>
    if n < b then ch n :: acc else genAux ch b fuel (n / b) (ch (n % b) :: acc)

/-- the numeral of `n`: `genAux` started with fuel `n` and nothing accumulated -/
def gnum (ch : Nat → UInt8) (b : Nat) (n : Nat) : Bytes := genAux ch b n n []

/-- `decAux` is `genAux` for base 10 -/
theorem decAux_eq (f n : Nat) (acc : Bytes) : decAux f n acc = genAux digitCh 10 f n acc := by
  induction f generalizing n acc with
  | zero => rfl
  | succ f ih => unfold decAux genAux; rw [ih]

/-- `hexAux` is `genAux` for base 16 -/
theorem hexAux_eq (u : Bool) (f n : Nat) (acc : Bytes) : hexAux u f n acc = genAux (hexCh u) 16 f n acc := by
  induction f generalizing n acc with
  | zero => rfl
  | succ f ih => unfold hexAux genAux; rw [ih]

/-- `decNat` is the generic numeral for base 10 -/
theorem decNat_eq (n : Nat) : decNat n = gnum digitCh 10 n := decAux_eq n n []

/-- `hexNat` is the generic numeral for base 16 -/
theorem hexNat_eq (u : Bool) (n : Nat) : hexNat u n = gnum (hexCh u) 16 n := hexAux_eq u n n []

section Generic
variable (ch : Nat → UInt8) (b : Nat)

/-- the accumulator is only ever appended to -/
theorem genAux_acc (f n : Nat) (acc : Bytes) : genAux ch b f n acc = genAux ch b f n [] ++ acc := by
  induction f generalizing n acc with
  | zero => rfl
  | succ f ih =>
    unfold genAux
    by_cases h : n < b
    · rw [if_pos h, if_pos h]; rfl
    · rw [if_neg h, if_neg h, ih (n / b) (ch (n % b) :: acc), ih (n / b) [ch (n % b)]]
      simp

/-- any sufficient amount of fuel gives the same digits -/
theorem genAux_fuel (hb : 2 ≤ b) (f g n : Nat) (hf : n ≤ f) (hg : n ≤ g) :
    genAux ch b f n [] = genAux ch b g n [] := by
  induction f generalizing g n with
  | zero =>
    have h0 : n = 0 := by omega
    subst h0
    cases g with
    | zero => rfl
    | succ g =>
      have hlt : 0 < b := by omega
      unfold genAux; rw [if_pos hlt, Nat.zero_mod]
  | succ f ih =>
    by_cases h : n < b
    · cases g with
      | zero =>
        have h0 : n = 0 := by omega
        subst h0
        unfold genAux; rw [if_pos h, Nat.zero_mod]
      | succ g => unfold genAux; rw [if_pos h, if_pos h]
    · cases g with
      | zero => omega
      | succ g =>
        have hpos : 0 < n := by omega
        have hdiv : n / b < n := Nat.div_lt_self hpos (by omega)
        unfold genAux
        rw [if_neg h, if_neg h, genAux_acc ch b f, genAux_acc ch b g,
          ih g (n / b) (by omega) (by omega)]

/-- the fuel-free recursion the numeral obeys: one digit below the base, otherwise the numeral of `n / b`
followed by the digit `n % b` -/
theorem gnum_rec (hb : 2 ≤ b) (n : Nat) :
    gnum ch b n = if n < b then [ch n] else gnum ch b (n / b) ++ [ch (n % b)] := by
  unfold gnum
  by_cases h : n < b
  · rw [if_pos h]
    cases n with
    | zero => unfold genAux; rw [Nat.zero_mod]
    | succ n => unfold genAux; rw [if_pos h]
  · rw [if_neg h]
    cases n with
    | zero => omega
    | succ n =>
      have hdiv : (n + 1) / b < n + 1 := Nat.div_lt_self (by omega) (by omega)
      conv => lhs; unfold genAux
      rw [if_neg h, genAux_acc ch b n,
        genAux_fuel ch b hb n ((n + 1) / b) ((n + 1) / b) (by omega) (Nat.le_refl _)]

/-- below the base the numeral is the single digit -/
theorem gnum_lt (hb : 2 ≤ b) (n : Nat) (h : n < b) : gnum ch b n = [ch n] := by
  rw [gnum_rec ch b hb, if_pos h]

/-- from the base upwards the numeral is that of `n / b` followed by the digit `n % b` -/
theorem gnum_ge (hb : 2 ≤ b) (n : Nat) (h : ¬ n < b) :
    gnum ch b n = gnum ch b (n / b) ++ [ch (n % b)] := by
  rw [gnum_rec ch b hb, if_neg h]

/-- a numeral is never empty -/
theorem gnum_ne_nil (hb : 2 ≤ b) (n : Nat) : gnum ch b n ≠ [] := by
  rw [gnum_rec ch b hb]
  by_cases h : n < b
  · rw [if_pos h]; simp
  · rw [if_neg h]; simp

variable (dv : UInt8 → Option Nat)

/-- reading a concatenation: read the first part, then the second onto the value reached -/
theorem valAux_append (acc : Nat) (s t : Bytes) :
    valAux dv b acc (s ++ t) = (valAux dv b acc s).bind (fun v => valAux dv b v t) := by
  induction s generalizing acc with
  | nil => rfl
  | cons c s ih =>
    simp only [List.cons_append, valAux]
    cases dv c with
    | none => rfl
    | some d => exact ih _

/-- reading one digit character -/
theorem valAux_single (acc : Nat) (c : UInt8) (d : Nat) (h : dv c = some d) :
    valAux dv b acc [c] = some (acc * b + d) := by
  simp only [valAux, h]

/-- reading a string with one more character: the value so far times the base plus the last digit -/
theorem valAux_snoc (acc : Nat) (s : Bytes) (c : UInt8) (n : Nat)
    (h : valAux dv b acc (s ++ [c]) = some n) :
    ∃ v d, valAux dv b acc s = some v ∧ dv c = some d ∧ n = v * b + d := by
  rw [valAux_append] at h
  cases hv : valAux dv b acc s with
  | none => rw [hv] at h; simp at h
  | some v =>
    rw [hv] at h
    simp only [Option.bind_some, valAux] at h
    cases hd : dv c with
    | none => rw [hd] at h; simp at h
    | some d =>
      rw [hd] at h
      simp only [Option.some.injEq] at h
      exact ⟨v, d, rfl, rfl, h.symm⟩

/-- the value read is at least the value read so far -/
theorem valAux_ge (hb : 1 ≤ b) (acc : Nat) (s : Bytes) (n : Nat) (h : valAux dv b acc s = some n) : acc ≤ n := by
  induction s generalizing acc with
  | nil => simp only [valAux, Option.some.injEq] at h; omega
  | cons c s ih =>
    simp only [valAux] at h
    cases hd : dv c with
    | none => rw [hd] at h; simp at h
    | some d =>
      rw [hd] at h
      have := ih _ h
      have : acc ≤ acc * b := Nat.le_mul_of_pos_right _ hb
      omega

/-- what links the digit characters to the digit values: `ch d` is the one character of value `d` -/
structure DigitSys (ch : Nat → UInt8) (b : Nat) (dv : UInt8 → Option Nat) : Prop where
  base : 2 ≤ b
  val_ch : ∀ d, d < b → dv (ch d) = some d
  ch_val : ∀ c d, dv c = some d → d < b ∧ c = ch d

variable {ch b dv}

/-- the numeral of `n` reads back as `n` -/
theorem gnum_valAux (S : DigitSys ch b dv) (n : Nat) : valAux dv b 0 (gnum ch b n) = some n := by
  induction n using Nat.strongRecOn with
  | _ n ih =>
    by_cases h : n < b
    · rw [gnum_lt ch b S.base n h, valAux_single b dv 0 _ n (S.val_ch n h)]; simp
    · have hb := S.base
      have hdiv : n / b < n := Nat.div_lt_self (by omega) (by omega)
      have hmod : n % b < b := Nat.mod_lt _ (by omega)
      rw [gnum_ge ch b S.base n h, valAux_append, ih _ hdiv, Option.bind_some,
        valAux_single b dv _ _ _ (S.val_ch _ hmod)]
      have := Nat.div_add_mod n b
      rw [Nat.mul_comm] at this
      rw [this]

/-- the numeral of `n` is a non-empty digit string of value `n` -/
theorem gnum_numVal (S : DigitSys ch b dv) (n : Nat) : numVal dv b (gnum ch b n) = some n := by
  unfold numVal
  rw [if_neg (gnum_ne_nil ch b S.base n)]
  exact gnum_valAux S n

/-- the first digit of the numeral of a positive number is not the zero digit -/
theorem gnum_head (S : DigitSys ch b dv) (n : Nat) (hn : n ≠ 0) : (gnum ch b n).head? ≠ some (ch 0) := by
  induction n using Nat.strongRecOn with
  | _ n ih =>
    have hb := S.base
    by_cases h : n < b
    · rw [gnum_lt ch b S.base n h]
      simp only [List.head?_cons, ne_eq, Option.some.injEq]
      intro e
      have h1 := S.val_ch n h
      have h0 := S.val_ch 0 (by omega)
      rw [e, h0] at h1
      simp only [Option.some.injEq] at h1
      omega
    · have hdiv : n / b < n := Nat.div_lt_self (by omega) (by omega)
      have hdpos : n / b ≠ 0 := by
        have : 0 < n / b := Nat.div_pos (by omega) (by omega)
        omega
      rw [gnum_ge ch b S.base n h, List.head?_append]
      have hne := gnum_ne_nil ch b S.base (n / b)
      cases hg : gnum ch b (n / b) with
      | nil => exact absurd hg hne
      | cons c t =>
        have := ih _ hdiv hdpos
        rw [hg] at this
        simpa using this

/-- a digit string without a leading zero digit (or the single zero digit) of value `n` is the numeral of `n` -/
theorem gnum_unique (S : DigitSys ch b dv) (s : Bytes) :
    ∀ n, s ≠ [] → valAux dv b 0 s = some n → (s = [ch 0] ∨ s.head? ≠ some (ch 0)) → s = gnum ch b n := by
  have hb := S.base
  generalize hk : s.length = k
  induction k generalizing s with
  | zero => intro n hne; exact absurd (List.eq_nil_of_length_eq_zero hk) hne
  | succ k ih =>
    intro n hne hv hz
    have hs := List.dropLast_concat_getLast hne
    generalize s.dropLast = t at hs
    generalize s.getLast hne = c at hs
    subst hs
    obtain ⟨v, d, hvt, hdc, hn⟩ := valAux_snoc b dv 0 t c n hv
    obtain ⟨hdb, hcd⟩ := S.ch_val c d hdc
    have hmod : n % b = d := by
      rw [hn, Nat.mul_comm, Nat.mul_add_mod, Nat.mod_eq_of_lt hdb]
    have hdivv : n / b = v := by
      rw [hn, Nat.mul_comm, Nat.mul_add_div (by omega), Nat.div_eq_of_lt hdb]; rfl
    cases t with
    | nil =>
      simp only [valAux, Option.some.injEq] at hvt
      subst hvt
      have hnd : n = d := by rw [hn]; simp
      rw [hnd, gnum_lt ch b S.base d hdb, hcd]; rfl
    | cons c0 t' =>
      have hlen : (c0 :: t').length = k := by
        simp only [List.length_append, List.length_cons, List.length_nil] at hk ⊢; omega
      have hhead : (c0 :: t').head? ≠ some (ch 0) := by
        cases hz with
        | inl h => simp at h
        | inr h => simpa using h
      -- the prefix has a non-zero first digit, so its value is positive
      have hvpos : 1 ≤ v := by
        simp only [valAux] at hvt
        cases hd0 : dv c0 with
        | none => rw [hd0] at hvt; simp at hvt
        | some d0 =>
          rw [hd0] at hvt
          have hge := valAux_ge b dv (by omega) _ _ _ hvt
          obtain ⟨_, hc0⟩ := S.ch_val c0 d0 hd0
          have : d0 ≠ 0 := by
            intro e; subst e
            apply hhead; rw [hc0]; rfl
          simp only [Nat.zero_mul, Nat.zero_add] at hge
          omega
      have hnb : ¬ n < b := by
        have : b ≤ v * b := Nat.le_mul_of_pos_left b hvpos
        omega
      have := ih (c0 :: t') hlen v (by simp) hvt (Or.inr hhead)
      rw [gnum_ge ch b S.base n hnb, hdivv, hmod, ← this, hcd]

/-- the number of digits: `b ^ (length - 1) ≤ n < b ^ length` -/
theorem gnum_length (hb : 2 ≤ b) (n : Nat) :
    (n ≠ 0 → b ^ ((gnum ch b n).length - 1) ≤ n) ∧ n < b ^ (gnum ch b n).length := by
  induction n using Nat.strongRecOn with
  | _ n ih =>
    by_cases h : n < b
    · rw [gnum_lt ch b hb n h]
      simp only [List.length_cons, List.length_nil, Nat.zero_add, Nat.sub_self, Nat.pow_zero, Nat.pow_one]
      omega
    · have hdiv : n / b < n := Nat.div_lt_self (by omega) (by omega)
      have hdpos : n / b ≠ 0 := by
        have : 0 < n / b := Nat.div_pos (by omega) (by omega)
        omega
      obtain ⟨h1, h2⟩ := ih _ hdiv
      have h1 := h1 hdpos
      have hne := gnum_ne_nil ch b hb (n / b)
      have hlpos : 0 < (gnum ch b (n / b)).length := List.length_pos_iff.mpr hne
      rw [gnum_ge ch b hb n h]
      simp only [List.length_append, List.length_cons, List.length_nil, Nat.zero_add, Nat.add_sub_cancel]
      generalize (gnum ch b (n / b)).length = L at *
      constructor
      · intro _
        have e : b ^ L = b ^ (L - 1) * b := by
          rw [← Nat.pow_succ]; congr 1; omega
        rw [e]
        exact Nat.le_trans (Nat.mul_le_mul_right b h1) (Nat.div_mul_le_self n b)
      · rw [Nat.pow_succ]
        exact (Nat.div_lt_iff_lt_mul (by omega)).mp h2

/-- leading zero digits do not change the value -/
theorem valAux_zeros (z : UInt8) (hz : dv z = some 0) (k : Nat) (s : Bytes) :
    valAux dv b 0 (List.replicate k z ++ s) = valAux dv b 0 s := by
  induction k with
  | zero => rfl
  | succ k ih =>
    simp only [List.replicate_succ, List.cons_append, valAux, hz, Nat.zero_mul, Nat.add_zero]
    exact ih


/-- a string of given positive length splits into its last character and the rest -/
theorem snoc_of_length (s : Bytes) (k : Nat) (h : s.length = k + 1) : ∃ t c, s = t ++ [c] ∧ t.length = k := by
  have hne : s ≠ [] := by intro e; rw [e] at h; simp at h
  refine ⟨s.dropLast, s.getLast hne, (List.dropLast_concat_getLast hne).symm, ?_⟩
  rw [List.length_dropLast, h]; rfl

/-- two digit strings of the same length with the same value (read onto any start values) are the same string -/
theorem valAux_inj (S : DigitSys ch b dv) (k : Nat) :
    ∀ (s s' : Bytes) (a a' n : Nat), s.length = k → s'.length = k →
      valAux dv b a s = some n → valAux dv b a' s' = some n → a = a' ∧ s = s' := by
  have hb := S.base
  induction k with
  | zero =>
    intro s s' a a' n h1 h2 hv hv'
    have e1 := List.eq_nil_of_length_eq_zero h1
    have e2 := List.eq_nil_of_length_eq_zero h2
    subst e1; subst e2
    simp only [valAux, Option.some.injEq] at hv hv'
    exact ⟨by omega, rfl⟩
  | succ k ih =>
    intro s s' a a' n h1 h2 hv hv'
    obtain ⟨t, c, e, ht⟩ := snoc_of_length s k h1
    obtain ⟨t', c', e', ht'⟩ := snoc_of_length s' k h2
    subst e; subst e'
    obtain ⟨v, d, hvt, hdc, hn⟩ := valAux_snoc b dv a t c n hv
    obtain ⟨v', d', hvt', hdc', hn'⟩ := valAux_snoc b dv a' t' c' n hv'
    obtain ⟨hdb, hcd⟩ := S.ch_val c d hdc
    obtain ⟨hdb', hcd'⟩ := S.ch_val c' d' hdc'
    have hd : d = d' := by
      have h1 : n % b = d := by rw [hn, Nat.mul_comm, Nat.mul_add_mod, Nat.mod_eq_of_lt hdb]
      have h2 : n % b = d' := by rw [hn', Nat.mul_comm, Nat.mul_add_mod, Nat.mod_eq_of_lt hdb']
      omega
    have hvv : v = v' := by
      have h1 : n / b = v := by
        rw [hn, Nat.mul_comm, Nat.mul_add_div (by omega), Nat.div_eq_of_lt hdb]; rfl
      have h2 : n / b = v' := by
        rw [hn', Nat.mul_comm, Nat.mul_add_div (by omega), Nat.div_eq_of_lt hdb']; rfl
      omega
    subst hd; subst hvv
    obtain ⟨ha, htt⟩ := ih t t' a a' v ht ht' hvt hvt'
    rw [htt, hcd, hcd']
    exact ⟨ha, rfl⟩

/-- a string of `k` digits read onto `a` has a value below `(a + 1) * b ^ k` -/
theorem valAux_lt (S : DigitSys ch b dv) (s : Bytes) :
    ∀ (a n : Nat), valAux dv b a s = some n → n < (a + 1) * b ^ s.length := by
  induction s with
  | nil => intro a n h; simp only [valAux, Option.some.injEq] at h; simp; omega
  | cons c s ih =>
    intro a n h
    simp only [valAux] at h
    cases hd : dv c with
    | none => rw [hd] at h; simp at h
    | some d =>
      rw [hd] at h
      have h1 := ih _ _ h
      obtain ⟨hdb, _⟩ := S.ch_val c d hd
      have h2 : a * b + d + 1 ≤ (a + 1) * b := by rw [Nat.add_mul]; omega
      have h3 : (a * b + d + 1) * b ^ s.length ≤ (a + 1) * b * b ^ s.length := Nat.mul_le_mul_right _ h2
      rw [List.length_cons, Nat.pow_succ, Nat.mul_comm (b ^ s.length) b, ← Nat.mul_assoc]
      omega

/-- left padding with the zero character `'0'` keeps the value -/
theorem numVal_zpad (hz : dv 48 = some 0) (w : Nat) (d : Bytes) (hd : d ≠ []) :
    numVal dv b (zpad w d) = numVal dv b d := by
  unfold numVal zpad
  have : List.replicate (w - d.length) (48 : UInt8) ++ d ≠ [] := by simp [hd]
  rw [if_neg this, if_neg hd]
  exact valAux_zeros (b := b) 48 hz _ _

/-- `zpad w d` has `w` characters, or as many as `d` if that is more -/
theorem zpad_length (w : Nat) (d : Bytes) : (zpad w d).length = max w d.length := by
  unfold zpad
  simp only [List.length_append, List.length_replicate]
  omega

/-- when `n < b ^ w` the numeral of `n` has at most `w` digits -/
theorem gnum_length_le (hb : 2 ≤ b) (w n : Nat) (h : n < b ^ w) (hw : 0 < w) : (gnum ch b n).length ≤ w := by
  by_cases hn : n = 0
  · subst hn
    rw [gnum_lt ch b hb 0 (by omega)]; exact hw
  · have h1 := (gnum_length (ch := ch) hb n).1 hn
    have hlt : b ^ ((gnum ch b n).length - 1) < b ^ w := Nat.lt_of_le_of_lt h1 h
    have := (Nat.pow_lt_pow_iff_right (by omega : 1 < b)).mp hlt
    omega

/-- exactly `w` digits of value `n`: there is only one such string, the zero-padded numeral -/
theorem zpad_gnum_unique (S : DigitSys ch b dv) (hz : dv 48 = some 0) (w n : Nat) (s : Bytes)
    (hlen : s.length = w) (hw : 0 < w) (hv : numVal dv b s = some n) : s = zpad w (gnum ch b n) := by
  have hne : s ≠ [] := by intro e; rw [e] at hlen; simp at hlen; omega
  have hv' : valAux dv b 0 s = some n := by
    unfold numVal at hv; rwa [if_neg hne] at hv
  have hlt : n < b ^ w := by
    have := valAux_lt S s 0 n hv'
    rwa [hlen, Nat.zero_add, Nat.one_mul] at this
  have hg := gnum_length_le (ch := ch) S.base w n hlt hw
  have hv2 : numVal dv b (zpad w (gnum ch b n)) = some n := by
    rw [numVal_zpad hz w _ (gnum_ne_nil ch b S.base n)]; exact gnum_numVal S n
  have hl2 : (zpad w (gnum ch b n)).length = w := by rw [zpad_length]; omega
  have hne2 : zpad w (gnum ch b n) ≠ [] := by intro e; rw [e] at hl2; simp at hl2; omega
  unfold numVal at hv2; rw [if_neg hne2] at hv2
  exact (valAux_inj S w s _ 0 0 n hlen hl2 hv' hv2).2

end Generic

/-! ## The two digit systems -/

/-- a number below 256 survives the conversion to a byte -/
theorem toNat_ofNat_small (k : Nat) (h : k < 256) : (UInt8.ofNat k).toNat = k := by
  rw [UInt8.toNat_ofNat']; omega

/-- a byte is determined by its numeric value -/
theorem eq_ofNat_of_toNat (c : UInt8) (k : Nat) (h : c.toNat = k) : c = UInt8.ofNat k := by
  rw [← h, UInt8.ofNat_toNat]

/-- decimal: `digitCh d` is the character of value `d`, and the only one -/
theorem decSys : DigitSys digitCh 10 decDigit where
  base := by omega
  val_ch := by
    intro d hd
    unfold decDigit digitCh
    rw [toNat_ofNat_small _ (by omega), if_pos (by omega)]
    congr 1; omega
  ch_val := by
    intro c d h
    unfold decDigit at h
    by_cases hc : 48 ≤ c.toNat ∧ c.toNat ≤ 57
    · rw [if_pos hc] at h
      simp only [Option.some.injEq] at h
      refine ⟨by omega, ?_⟩
      unfold digitCh
      exact eq_ofNat_of_toNat c _ (by omega)
    · rw [if_neg hc] at h; simp at h

/-- hexadecimal of either case: `hexCh u d` is the character of value `d`, and the only one -/
theorem hexSys (u : Bool) : DigitSys (hexCh u) 16 (hexDigit u) where
  base := by omega
  val_ch := by
    intro d hd
    unfold hexDigit hexCh
    by_cases h10 : d < 10
    · rw [if_pos h10, toNat_ofNat_small _ (by omega), if_pos (by omega)]
      congr 1; omega
    · rw [if_neg h10]
      cases u
      · simp only [Bool.false_eq_true, if_false]
        rw [toNat_ofNat_small _ (by omega), if_neg (by omega), if_pos (by omega)]
        congr 1; omega
      · simp only [if_true]
        rw [toNat_ofNat_small _ (by omega), if_neg (by omega), if_pos (by omega)]
        congr 1; omega
  ch_val := by
    intro c d h
    unfold hexDigit at h
    unfold hexCh
    by_cases hc : 48 ≤ c.toNat ∧ c.toNat ≤ 57
    · rw [if_pos hc] at h
      simp only [Option.some.injEq] at h
      refine ⟨by omega, ?_⟩
      rw [if_pos (by omega)]
      exact eq_ofNat_of_toNat c _ (by omega)
    · rw [if_neg hc] at h
      cases u
      · simp only [Bool.false_eq_true, if_false] at h ⊢
        by_cases hl : 97 ≤ c.toNat ∧ c.toNat ≤ 102
        · rw [if_pos hl] at h
          simp only [Option.some.injEq] at h
          refine ⟨by omega, ?_⟩
          rw [if_neg (by omega)]
          exact eq_ofNat_of_toNat c _ (by omega)
        · rw [if_neg hl] at h; simp at h
      · simp only [if_true] at h ⊢
        by_cases hl : 65 ≤ c.toNat ∧ c.toNat ≤ 70
        · rw [if_pos hl] at h
          simp only [Option.some.injEq] at h
          refine ⟨by omega, ?_⟩
          rw [if_neg (by omega)]
          exact eq_ofNat_of_toNat c _ (by omega)
        · rw [if_neg hl] at h; simp at h

/-- the decimal digit zero is the character `0` -/
theorem digitCh_zero : digitCh 0 = 48 := rfl
/-- the hexadecimal digit zero is the character `0` -/
theorem hexCh_zero (u : Bool) : hexCh u 0 = 48 := by cases u <;> rfl
/-- the character `0` has decimal value 0 -/
theorem decDigit_48 : decDigit 48 = some 0 := by decide
/-- the character `0` has hexadecimal value 0 -/
theorem hexDigit_48 (u : Bool) : hexDigit u 48 = some 0 := by cases u <;> decide

/-! ## Decimal: `decNat`, `decInt`, `padNat`, `fmt0d` -/

/-- `decNat n` read as a decimal numeral is `n` -/
theorem decNat_val (n : Nat) : decVal (decNat n) = some n := by
  rw [decNat_eq]; exact gnum_numVal decSys n

/-- `decNat 0` is the single character `0` -/
theorem decNat_zero : decNat 0 = [48] := rfl

/-- `decNat n` is never empty, has no leading `0` unless `n = 0`, and `decNat 0 = "0"` -/
theorem decNat_canonical (n : Nat) :
    decNat n ≠ [] ∧ (n ≠ 0 → (decNat n).head? ≠ some 48) ∧ decNat 0 = [48] := by
  refine ⟨?_, ?_, rfl⟩
  · rw [decNat_eq]; exact gnum_ne_nil _ _ decSys.base n
  · intro hn; rw [decNat_eq]; exact gnum_head decSys n hn

/-- the only decimal numeral of value `n` that is `"0"` or has no leading `0` is `decNat n` -/
theorem decNat_unique (n : Nat) (s : Bytes) (hv : decVal s = some n) (hz : s = [48] ∨ s.head? ≠ some 48) :
    s = decNat n := by
  have hne : s ≠ [] := by intro e; rw [e] at hv; simp [decVal, numVal] at hv
  unfold decVal numVal at hv
  rw [if_neg hne] at hv
  rw [decNat_eq]
  exact gnum_unique decSys s n hne hv hz

/-- different numbers have different decimal numerals -/
theorem decNat_injective (a b : Nat) (h : decNat a = decNat b) : a = b := by
  have := congrArg decVal h
  rw [decNat_val, decNat_val] at this
  exact Option.some.inj this

/-- `decNat n` has exactly as many characters as `n` has decimal digits: `10^(len-1) ≤ n < 10^len` -/
theorem decNat_length (n : Nat) :
    (0 < n → 10 ^ ((decNat n).length - 1) ≤ n) ∧ n < 10 ^ (decNat n).length := by
  rw [decNat_eq]
  have := gnum_length (ch := digitCh) (b := 10) (by omega) n
  exact ⟨fun h => this.1 (by omega), this.2⟩

/-- the first character of a decimal numeral is a digit `'0'..'9'` (in particular not `-`) -/
theorem decVal_head_digit (c : UInt8) (t : Bytes) (n : Nat) (h : decVal (c :: t) = some n) :
    48 ≤ c.toNat ∧ c.toNat ≤ 57 := by
  unfold decVal numVal at h
  rw [if_neg (by simp)] at h
  simp only [valAux] at h
  cases hd : decDigit c with
  | none => rw [hd] at h; simp at h
  | some d =>
    unfold decDigit at hd
    by_cases hc : 48 ≤ c.toNat ∧ c.toNat ≤ 57
    · exact hc
    · rw [if_neg hc] at hd; simp at hd

/-- a decimal numeral does not start with `-` -/
theorem decVal_head_ne_minus (c : UInt8) (t : Bytes) (n : Nat) (h : decVal (c :: t) = some n) : c ≠ 45 := by
  intro e; subst e
  have := decVal_head_digit _ _ _ h
  simp at this

/-- a string without a leading `-` that is a decimal numeral of `n` denotes the integer `n` -/
theorem decIntVal_of_decVal (s : Bytes) (n : Nat) (h : decVal s = some n) : decIntVal s = some (n : Int) := by
  cases s with
  | nil => simp [decVal, numVal] at h
  | cons c t =>
    have hc := decVal_head_ne_minus c t n h
    unfold decIntVal
    simp only [if_neg hc, h, Option.map_some]

/-- `-` followed by a decimal numeral of `n` denotes the integer `-n` -/
theorem decIntVal_minus (s : Bytes) (n : Nat) (h : decVal s = some n) : decIntVal (45 :: s) = some (-(n : Int)) := by
  unfold decIntVal
  simp only [if_true, h, Option.map_some]

/-- `decInt i` is `decNat |i|` for `i ≥ 0` -/
theorem decInt_nonneg (i : Int) (h : 0 ≤ i) : decInt i = decNat i.toNat := by
  unfold decInt
  rw [if_neg (by omega)]
  congr 1; omega

/-- `decInt i` is `-` followed by `decNat |i|` for `i < 0` -/
theorem decInt_neg (i : Int) (h : i < 0) : decInt i = 45 :: decNat i.natAbs := by
  unfold decInt
  rw [if_pos h]

/-- `decInt i` read as a signed decimal numeral is `i` -/
theorem decInt_val (i : Int) : decIntVal (decInt i) = some i := by
  by_cases h : i < 0
  · rw [decInt_neg i h, decIntVal_minus _ _ (decNat_val _)]
    congr 1; omega
  · rw [decInt_nonneg i (by omega), decIntVal_of_decVal _ _ (decNat_val _)]
    congr 1; omega

/-- different integers have different `%d` texts -/
theorem decInt_injective (a b : Int) (h : decInt a = decInt b) : a = b := by
  have := congrArg decIntVal h
  rw [decInt_val, decInt_val] at this
  exact Option.some.inj this

/-- `padNat w n` read as a decimal numeral is `n` -/
theorem padNat_val (w n : Nat) : decVal (padNat w n) = some n := by
  unfold padNat decVal
  rw [numVal_zpad decDigit_48 w _ (decNat_canonical n).1]
  exact decNat_val n

/-- `padNat w n` has `w` characters, or as many as `decNat n` if that is more -/
theorem padNat_length (w n : Nat) : (padNat w n).length = max w (decNat n).length := zpad_length _ _

/-- a number that fits in `w` digits is printed by `%0wd` with exactly `w` characters -/
theorem padNat_of_lt (w n : Nat) (h : n < 10 ^ w) (hw : 0 < w) : (padNat w n).length = w := by
  rw [padNat_length, decNat_eq]
  have := gnum_length_le (ch := digitCh) (b := 10) (by omega) w n h hw
  omega

/-- the only string of exactly `w` decimal digits of value `n` is `padNat w n` -/
theorem padNat_unique (w n : Nat) (s : Bytes) (hlen : s.length = w) (hw : 0 < w) (hv : decVal s = some n) :
    s = padNat w n := by
  unfold padNat; rw [decNat_eq]
  exact zpad_gnum_unique decSys decDigit_48 w n s hlen hw hv

/-- a string of `w` decimal digits has a value below `10 ^ w` -/
theorem decVal_lt (s : Bytes) (n : Nat) (hv : decVal s = some n) : n < 10 ^ s.length := by
  unfold decVal numVal at hv
  by_cases hne : s = []
  · rw [if_pos hne] at hv; simp at hv
  · rw [if_neg hne] at hv
    have := valAux_lt decSys s 0 n hv
    rwa [Nat.zero_add, Nat.one_mul] at this

/-- a width that the numeral already fills adds nothing -/
theorem padNat_of_ge (w n : Nat) (h : w ≤ (decNat n).length) : padNat w n = decNat n := by
  unfold padNat zpad
  rw [Nat.sub_eq_zero_of_le h]; rfl

/-- `%0wd` of a non-negative integer: the zero-padded numeral -/
theorem fmt0d_nonneg (w : Nat) (i : Int) (h : 0 ≤ i) : fmt0d w i = padNat w i.toNat := by
  unfold fmt0d
  rw [if_neg (by omega)]
  congr 1; omega

/-- `%0wd` of a negative integer: `-`, then the numeral padded to `w - 1` (the sign counts in the width) -/
theorem fmt0d_neg (w : Nat) (i : Int) (h : i < 0) : fmt0d w i = 45 :: padNat (w - 1) i.natAbs := by
  unfold fmt0d
  rw [if_pos h]

/-- `fmt0d w i` read as a signed decimal numeral is `i` -/
theorem fmt0d_val (w : Nat) (i : Int) : decIntVal (fmt0d w i) = some i := by
  by_cases h : i < 0
  · rw [fmt0d_neg w i h, decIntVal_minus _ _ (padNat_val _ _)]
    congr 1; omega
  · rw [fmt0d_nonneg w i (by omega), decIntVal_of_decVal _ _ (padNat_val _ _)]
    congr 1; omega

/-- different integers have different `%0wd` texts -/
theorem fmt0d_injective (w : Nat) (a b : Int) (h : fmt0d w a = fmt0d w b) : a = b := by
  have := congrArg decIntVal h
  rw [fmt0d_val, fmt0d_val] at this
  exact Option.some.inj this

/-- a non-negative integer below `10 ^ w` is printed by `%0wd` with exactly `w` characters -/
theorem fmt0d_length (w : Nat) (i : Int) (h0 : 0 ≤ i) (h : i.toNat < 10 ^ w) (hw : 0 < w) :
    (fmt0d w i).length = w := by
  rw [fmt0d_nonneg w i h0]; exact padNat_of_lt w _ h hw

/-! ## Hexadecimal: `hexNat`, `hexPad`, `hexBytes` -/

/-- `hexNat u n` read as a hexadecimal numeral of that case is `n` -/
theorem hexNat_val (u : Bool) (n : Nat) : hexVal u (hexNat u n) = some n := by
  rw [hexNat_eq]; exact gnum_numVal (hexSys u) n

/-- `hexNat u n` is never empty, has no leading `0` unless `n = 0`, and `hexNat u 0 = "0"` -/
theorem hexNat_canonical (u : Bool) (n : Nat) :
    hexNat u n ≠ [] ∧ (n ≠ 0 → (hexNat u n).head? ≠ some 48) ∧ hexNat u 0 = [48] := by
  refine ⟨?_, ?_, ?_⟩
  · rw [hexNat_eq]; exact gnum_ne_nil _ _ (hexSys u).base n
  · intro hn; rw [hexNat_eq, ← hexCh_zero u]; exact gnum_head (hexSys u) n hn
  · cases u <;> rfl

/-- the only hexadecimal numeral of value `n` that is `"0"` or has no leading `0` is `hexNat u n` -/
theorem hexNat_unique (u : Bool) (n : Nat) (s : Bytes) (hv : hexVal u s = some n)
    (hz : s = [48] ∨ s.head? ≠ some 48) : s = hexNat u n := by
  have hne : s ≠ [] := by intro e; rw [e] at hv; simp [hexVal, numVal] at hv
  unfold hexVal numVal at hv
  rw [if_neg hne] at hv
  rw [hexNat_eq]
  rw [← hexCh_zero u] at hz
  exact gnum_unique (hexSys u) s n hne hv hz

/-- different numbers have different hexadecimal numerals -/
theorem hexNat_injective (u : Bool) (a b : Nat) (h : hexNat u a = hexNat u b) : a = b := by
  have := congrArg (hexVal u) h
  rw [hexNat_val, hexNat_val] at this
  exact Option.some.inj this

/-- `hexNat u n` has exactly as many characters as `n` has hexadecimal digits -/
theorem hexNat_length (u : Bool) (n : Nat) :
    (0 < n → 16 ^ ((hexNat u n).length - 1) ≤ n) ∧ n < 16 ^ (hexNat u n).length := by
  rw [hexNat_eq]
  have := gnum_length (ch := hexCh u) (b := 16) (by omega) n
  exact ⟨fun h => this.1 (by omega), this.2⟩

/-- `hexPad w n` read as a lower-case hexadecimal numeral is `n` -/
theorem hexPad_val (w n : Nat) : hexVal false (hexPad w n) = some n := by
  unfold hexPad hexVal
  rw [numVal_zpad (hexDigit_48 false) w _ (hexNat_canonical false n).1]
  exact hexNat_val false n

/-- a number that fits in `w` hexadecimal digits is printed by `%0wx` with exactly `w` characters -/
theorem hexPad_length (w n : Nat) (h : n < 16 ^ w) (hw : 0 < w) : (hexPad w n).length = w := by
  unfold hexPad
  rw [zpad_length, hexNat_eq]
  have := gnum_length_le (ch := hexCh false) (b := 16) (by omega) w n h hw
  omega

/-- the only string of exactly `w` lower-case hexadecimal digits of value `n` is `hexPad w n` -/
theorem hexPad_unique (w n : Nat) (s : Bytes) (hlen : s.length = w) (hw : 0 < w) (hv : hexVal false s = some n) :
    s = hexPad w n := by
  unfold hexPad; rw [hexNat_eq]
  exact zpad_gnum_unique (hexSys false) (hexDigit_48 false) w n s hlen hw hv

/-- different numbers have different `%0wx` texts -/
theorem hexPad_injective (w a b : Nat) (h : hexPad w a = hexPad w b) : a = b := by
  have := congrArg (hexVal false) h
  rw [hexPad_val, hexPad_val] at this
  exact Option.some.inj this

/-- `%x` of the empty slice is empty -/
theorem hexBytes_nil : hexBytes [] = [] := rfl

/-- `%x` of a slice: the two digits of the first byte, then the rest -/
theorem hexBytes_cons (x : UInt8) (bs : Bytes) :
    hexBytes (x :: bs) = hexCh false (x.toNat / 16) :: hexCh false (x.toNat % 16) :: hexBytes bs := by
  unfold hexBytes
  rw [List.flatMap_cons]; rfl

/-- `%x` of a byte slice is two characters per byte -/
theorem hexBytes_length (bs : Bytes) : (hexBytes bs).length = 2 * bs.length := by
  induction bs with
  | nil => rfl
  | cons x bs ih => rw [hexBytes_cons]; simp only [List.length_cons, ih]; omega

/-- the two characters printed for a byte are the lower-case hexadecimal numeral of that byte -/
theorem hexVal_pair (x : UInt8) :
    hexVal false [hexCh false (x.toNat / 16), hexCh false (x.toNat % 16)] = some x.toNat := by
  have hx : x.toNat < 256 := x.toNat_lt
  unfold hexVal numVal
  rw [if_neg (by simp)]
  simp only [valAux, (hexSys false).val_ch (x.toNat / 16) (by omega),
    (hexSys false).val_ch (x.toNat % 16) (by omega), Option.some.injEq]
  omega

/-- byte `i` of the slice is recovered from characters `2i` and `2i+1` of its `%x` text -/
theorem hexBytes_pair (bs : Bytes) (i : Nat) (h : i < bs.length) :
    hexVal false (((hexBytes bs).drop (2 * i)).take 2) = some (bs[i]).toNat := by
  induction bs generalizing i with
  | nil => simp at h
  | cons x bs ih =>
    rw [hexBytes_cons]
    cases i with
    | zero => simp only [Nat.mul_zero, List.drop_zero, List.take_succ_cons, List.take_zero,
        List.getElem_cons_zero]; exact hexVal_pair x
    | succ i =>
      have h' : i < bs.length := by simp only [List.length_cons] at h; omega
      have e : 2 * (i + 1) = 2 * i + 1 + 1 := by omega
      rw [e, List.drop_succ_cons, List.drop_succ_cons, List.getElem_cons_succ]
      exact ih i h'

/-- characters `2i` and `2i+1` of the `%x` text are the high and the low hexadecimal digit of byte `i` -/
theorem hexBytes_chars (bs : Bytes) (i : Nat) (h : i < bs.length) :
    (hexBytes bs)[2 * i]? = some (hexCh false ((bs[i]).toNat / 16)) ∧
    (hexBytes bs)[2 * i + 1]? = some (hexCh false ((bs[i]).toNat % 16)) := by
  induction bs generalizing i with
  | nil => simp at h
  | cons x bs ih =>
    rw [hexBytes_cons]
    cases i with
    | zero => exact ⟨rfl, rfl⟩
    | succ i =>
      have h' : i < bs.length := by simp only [List.length_cons] at h; omega
      have e : 2 * (i + 1) = 2 * i + 1 + 1 := by omega
      rw [e, List.getElem?_cons_succ, List.getElem?_cons_succ, List.getElem?_cons_succ,
        List.getElem?_cons_succ, List.getElem_cons_succ]
      exact ih i h'

/-- different byte slices have different `%x` texts -/
theorem hexBytes_injective (as bs : Bytes) (h : hexBytes as = hexBytes bs) : as = bs := by
  induction as generalizing bs with
  | nil =>
    cases bs with
    | nil => rfl
    | cons y bs => have := congrArg List.length h; simp [hexBytes_length] at this
  | cons x as ih =>
    cases bs with
    | nil => have := congrArg List.length h; simp [hexBytes_length] at this
    | cons y bs =>
      rw [hexBytes_cons, hexBytes_cons] at h
      have h1 := (List.cons.inj h).1
      have h2 := (List.cons.inj (List.cons.inj h).2).1
      have h3 := (List.cons.inj (List.cons.inj h).2).2
      have hx : x.toNat < 256 := x.toNat_lt
      have hy : y.toNat < 256 := y.toNat_lt
      have e1 := congrArg (hexDigit false) h1
      have e2 := congrArg (hexDigit false) h2
      rw [(hexSys false).val_ch _ (by omega), (hexSys false).val_ch _ (by omega)] at e1 e2
      have e1 := Option.some.inj e1
      have e2 := Option.some.inj e2
      have : x = y := UInt8.toNat_inj.mp (by omega)
      rw [this, ih bs h3]

/-! ## `joinBytes` -/

/-- joining at least two parts: the first, the separator, the rest joined -/
theorem joinBytes_cons_cons (sep x y : Bytes) (ys : List Bytes) :
    joinBytes sep (x :: y :: ys) = x ++ sep ++ joinBytes sep (y :: ys) := rfl

/-- the length of a joined list: the parts, plus one separator between neighbours -/
theorem joinBytes_length (sep : Bytes) (parts : List Bytes) :
    (joinBytes sep parts).length = (parts.map List.length).sum + sep.length * (parts.length - 1) := by
  induction parts with
  | nil => rfl
  | cons x xs ih =>
    cases xs with
    | nil => simp [joinBytes]
    | cons y ys =>
      rw [joinBytes_cons_cons]
      simp only [List.length_append, ih, List.map_cons, List.sum_cons, List.length_cons,
        Nat.add_sub_cancel, Nat.mul_add, Nat.mul_one]
      omega

/-- two texts that continue after the first separator byte, with heads free of it, agree piecewise -/
theorem split_at_sep (c : UInt8) (x y r r' : Bytes) (hx : c ∉ x) (hy : c ∉ y)
    (h : x ++ c :: r = y ++ c :: r') : x = y ∧ r = r' := by
  induction x generalizing y with
  | nil =>
    cases y with
    | nil => simp only [List.nil_append, List.cons.injEq, true_and] at h; exact ⟨rfl, h⟩
    | cons b y =>
      simp only [List.nil_append, List.cons_append, List.cons.injEq] at h
      exact absurd (h.1 ▸ List.mem_cons_self) hy
  | cons a x ih =>
    cases y with
    | nil =>
      simp only [List.nil_append, List.cons_append, List.cons.injEq] at h
      exact absurd (h.1 ▸ List.mem_cons_self) hx
    | cons b y =>
      simp only [List.cons_append, List.cons.injEq] at h
      have hx' : c ∉ x := fun m => hx (List.mem_cons_of_mem _ m)
      have hy' : c ∉ y := fun m => hy (List.mem_cons_of_mem _ m)
      obtain ⟨e1, e2⟩ := ih y hx' hy' h.2
      exact ⟨by rw [h.1, e1], e2⟩

/-- non-empty lists of parts, none containing the separator byte, joined to the same text are the same list -/
theorem joinBytes_inj (c : UInt8) (xs ys : List Bytes) (hxs : xs ≠ []) (hys : ys ≠ [])
    (hx : ∀ x ∈ xs, c ∉ x) (hy : ∀ y ∈ ys, c ∉ y)
    (h : joinBytes [c] xs = joinBytes [c] ys) : xs = ys := by
  induction xs generalizing ys with
  | nil => exact absurd rfl hxs
  | cons x xs ih =>
    cases ys with
    | nil => exact absurd rfl hys
    | cons y ys =>
      have hcx : c ∉ x := hx x List.mem_cons_self
      have hcy : c ∉ y := hy y List.mem_cons_self
      cases xs with
      | nil =>
        cases ys with
        | nil => simp only [joinBytes] at h; rw [h]
        | cons y' ys' =>
          rw [joinBytes_cons_cons] at h
          simp only [joinBytes, List.append_assoc, List.cons_append, List.nil_append] at h
          have : c ∈ x := by rw [h]; simp
          exact absurd this hcx
      | cons x' xs' =>
        cases ys with
        | nil =>
          rw [joinBytes_cons_cons] at h
          simp only [joinBytes, List.append_assoc, List.cons_append, List.nil_append] at h
          have : c ∈ y := by rw [← h]; simp
          exact absurd this hcy
        | cons y' ys' =>
          rw [joinBytes_cons_cons, joinBytes_cons_cons] at h
          simp only [List.append_assoc, List.cons_append, List.nil_append] at h
          obtain ⟨e1, e2⟩ := split_at_sep c x y _ _ hcx hcy h
          have := ih (y' :: ys') (by simp) (by simp)
            (fun z hz => hx z (List.mem_cons_of_mem _ hz)) (fun z hz => hy z (List.mem_cons_of_mem _ hz)) e2
          rw [e1, this]

/-! ## Spot checks against the Go verbs -/

example : decNat 1234567890 = asc "1234567890" := by decide
example : decNat 0 = asc "0" := by decide
example : decInt (-42) = asc "-42" := by decide
example : padNat 2 7 = asc "07" := by decide
example : padNat 4 2024 = asc "2024" := by decide
example : padNat 2 123 = asc "123" := by decide
example : fmt0d 2 (-5) = asc "-5" := by decide
example : fmt0d 4 (-5) = asc "-005" := by decide
example : fmt0d 4 33 = asc "0033" := by decide
example : hexNat true 255 = asc "FF" := by decide
example : hexNat false 48879 = asc "beef" := by decide
example : hexPad 8 48879 = asc "0000beef" := by decide
example : hexBytes [0x00, 0xab, 0x7f] = asc "00ab7f" := by decide
example : joinBytes (asc ", ") [asc "a", asc "b", asc "c"] = asc "a, b, c" := by decide

end PgVerif.Proofs.TxtNumerals
