/-
  Helper lemmas for the row model (heap.go / types.go:ReadVarlena) against the tuple-formation spec.
  Adapted from the checked spike DESIGN.md B.7.
-/
import PgVerif.Model.Rows
import PgVerif.Spec.Rows
import PgVerif.Proofs.InlineComp
namespace PgVerif.Proofs.Rows
open PgVerif PgVerif.Model PgVerif.Spec

/-! ### alignment -/

theorem alignUp_one (o : Nat) : alignUp o 1 = o := by simp [alignUp]

theorem alignUp_ge (o a : Nat) (ha : 0 < a) : o ≤ alignUp o a := by
  unfold alignUp
  have := Nat.div_add_mod (o + a - 1) a
  have := Nat.mod_lt (o + a - 1) ha
  have : a * ((o + a - 1) / a) = (o + a - 1) / a * a := Nat.mul_comm _ _
  omega

def Pow2Align (a : Nat) : Prop := a = 1 ∨ a = 2 ∨ a = 4 ∨ a = 8

/-- binary.go:align (`&^` form) is rounding up, for the four alignments PostgreSQL has -/
theorem align_eq_alignUp (o a : Nat) (ha : Pow2Align a) : Model.align o a = alignUp o a := by
  rcases ha with h | h | h | h <;> subst h
  · simp [Model.align, alignUp]
  · have := andNot_mask (o + 2 - 1) 1; simpa [Model.align, alignUp] using this
  · have := andNot_mask (o + 4 - 1) 2; simpa [Model.align, alignUp] using this
  · have := andNot_mask (o + 8 - 1) 3; simpa [Model.align, alignUp] using this

/-- whatever the alignment value (hostile schemas included), aligning never moves backwards -/
theorem align_ge (o a : Nat) : o ≤ Model.align o a := by
  unfold Model.align
  split
  · exact Nat.le_refl _
  · unfold andNot
    have := @Nat.and_le_right (o + a - 1) (a - 1)
    omega

@[simp] theorem pad_length (o a : Nat) : (pad o a).length = alignUp o a - o := by simp [pad]

/-! ### ReadVarlena on the four varlena forms -/

theorem shortHdr_toNat (n : Nat) (h : n ≤ 126) : (UInt8.ofNat (2 * (n + 1) + 1)).toNat = 2 * (n + 1) + 1 := by
  simp [UInt8.toNat_ofNat']; omega

theorem take_drop_mid (a p rest : Bytes) (n : Nat) (hn : n = a.length) :
    ((a ++ (p ++ rest)).take (p.length + n)).drop n = p := by
  subst hn
  rw [← List.append_assoc, show p.length + a.length = (a ++ p).length by simp; omega, List.take_left']
  · simp
  · rfl

theorem readVarlena_short (p rest : Bytes) (hp : p.length ≤ 126) :
    readVarlena (UInt8.ofNat (2 * (p.length + 1) + 1) :: (p ++ rest)) = .ok (some p, p.length + 1) := by
  have hb := shortHdr_toNat p.length hp
  have htd := take_drop_mid [UInt8.ofNat (2 * (p.length + 1) + 1)] p rest 1 rfl
  unfold readVarlena
  rw [if_neg (by simp)]
  simp only [idx, List.getElem?_cons_zero, ok_bind, pure_eq_ok, hb]
  rw [if_pos ⟨by omega, by omega⟩]
  have h2 : (2 * (p.length + 1) + 1) / 2 = p.length + 1 := by omega
  rw [h2, if_neg (by simp only [List.length_cons, List.length_append]; omega)]
  rw [slice_ok _ _ _ (by simp only [List.length_cons, List.length_append]; omega) (by omega)]
  simp only [ok_bind]
  rw [show ([UInt8.ofNat (2 * (p.length + 1) + 1)] ++ (p ++ rest)) = UInt8.ofNat (2 * (p.length + 1) + 1) :: (p ++ rest) from rfl] at htd
  rw [htd]

theorem readVarlena_ext (body rest : Bytes) (hb : body.length = 16) :
    readVarlena (1 :: 18 :: (body ++ rest)) = .ok (none, 18) := by
  unfold readVarlena
  rw [if_neg (by simp)]
  simp only [idx, List.getElem?_cons_zero, ok_bind, pure_eq_ok]
  rw [if_neg (by decide), if_pos (by decide), if_pos (by simp only [List.length_cons, List.length_append]; omega)]
  simp only [List.getElem?_cons_succ, List.getElem?_cons_zero, ok_bind]
  rw [if_pos (by decide)]

/-- an uncompressed 4-byte header `h` = 4·total (low bits 00) -/
theorem readVarlena_long (h : Nat) (p rest : Bytes) (hh : h = (p.length + 4) * 4)
    (hlt : p.length + 4 < 2 ^ 30) :
    readVarlena (le 4 h ++ (p ++ rest)) = .ok (some p, p.length + 4) := by
  have h32 : h < 256 ^ 4 := by omega
  have hrd : rd 4 ((le 4 h ++ (p ++ rest)).drop 0) = h := by simpa using rd_le 4 h (p ++ rest) h32
  have hb : (UInt8.ofNat (h % 256)).toNat = h % 256 := by simp [UInt8.toNat_ofNat']
  have htd := take_drop_mid (le 4 h) p rest 4 (by simp)
  have hX : le 4 h ++ (p ++ rest) = UInt8.ofNat (h % 256) :: (le 3 (h / 256) ++ (p ++ rest)) := rfl
  have hlenX : (le 4 h ++ (p ++ rest)).length = 4 + (p.length + rest.length) := by simp
  generalize le 4 h ++ (p ++ rest) = X at hrd hX hlenX htd
  unfold readVarlena
  rw [if_neg (by omega)]
  have hi : idx X 0 = .ok (UInt8.ofNat (h % 256)) := by rw [hX]; rfl
  simp only [hi, ok_bind, hb]
  have c1 : ¬ (h % 256 % 2 = 1 ∧ h % 256 ≠ 1) := by omega
  have c2 : ¬ (h % 256 = 1) := by omega
  rw [if_neg c1, if_neg c2, if_neg (by omega)]
  rw [uN_ok 4 X 0 (by omega)]
  simp only [ok_bind, hrd]
  have h4 : h / 4 = p.length + 4 := by omega
  rw [h4, if_neg (by omega), if_neg (by omega), slice_ok _ _ _ (by omega) (by omega)]
  simp only [ok_bind, pure_eq_ok, htd]

/-- an inline-compressed value (header 4·total + 2, then va_tcinfo and the rendering of any valid pglz / LZ4 stream):
ReadVarlena returns the ORIGINAL bytes and consumes the stored length (fix 09) -/
theorem readVarlena_comp (z : Comp) (rest : Bytes) (hz : z.WF) (hlt : z.stored.length + 4 < 2 ^ 30) :
    readVarlena (le 4 ((z.stored.length + 4) * 4 + 2) ++ (z.stored ++ rest)) = .ok (some z.original, z.stored.length + 4) := by
  have henc := InlineComp.inlineDecompress_enc z (le 4 ((z.stored.length + 4) * 4 + 2)) rest (by simp) hz
  have hs4 : 4 ≤ z.stored.length := by simp [Comp.stored]
  generalize hh : (z.stored.length + 4) * 4 + 2 = h at henc
  generalize z.stored = p at henc hs4 hh hlt
  have h32 : h < 256 ^ 4 := by omega
  have hrd : rd 4 ((le 4 h ++ (p ++ rest)).drop 0) = h := by simpa using rd_le 4 h (p ++ rest) h32
  have hb : (UInt8.ofNat (h % 256)).toNat = h % 256 := by simp [UInt8.toNat_ofNat']
  have hX : le 4 h ++ (p ++ rest) = UInt8.ofNat (h % 256) :: (le 3 (h / 256) ++ (p ++ rest)) := rfl
  have hlenX : (le 4 h ++ (p ++ rest)).length = 4 + (p.length + rest.length) := by simp
  generalize le 4 h ++ (p ++ rest) = X at hrd hX hlenX henc
  unfold readVarlena
  rw [if_neg (by omega)]
  have hi : idx X 0 = .ok (UInt8.ofNat (h % 256)) := by rw [hX]; rfl
  simp only [hi, ok_bind, hb]
  have c1 : ¬ (h % 256 % 2 = 1 ∧ h % 256 ≠ 1) := by omega
  have c2 : ¬ (h % 256 = 1) := by omega
  rw [if_neg c1, if_neg c2, if_neg (by omega)]
  rw [uN_ok 4 X 0 (by omega)]
  simp only [ok_bind, hrd]
  have h4 : h / 4 = p.length + 4 := by omega
  rw [h4, if_neg (by omega), if_pos ⟨by omega, by omega⟩, henc]
  rfl

/-! ### readValue -/

/-- reading at the end of a prefix is reading the rest from 0 -/
theorem readValue_shift (dec : Dec) (pre X : Bytes) (typid len : Int) :
    readValue dec (pre ++ X) pre.length typid len = readValue dec X 0 typid len := by
  unfold readValue
  by_cases hX : X.length = 0
  · rw [if_pos (by simp; omega), if_pos (by omega)]
  · rw [if_neg (by simp; omega), if_neg (by omega)]
    rw [sliceFrom_ok _ _ (by simp), sliceFrom_ok _ _ (by omega)]
    simp

theorem readValue_fixed (dec : Dec) (bs rest : Bytes) (typid len : Int) (hpos : 0 < len) (hlen : (bs.length : Int) = len) :
    readValue dec (bs ++ rest) 0 typid len = (dec bs typid >>= fun v => pure (v, bs.length)) := by
  have hb0 : 0 < bs.length := by omega
  have hbs : len.toNat = bs.length := by
    have h1 : (len.toNat : Int) = len := Int.toNat_of_nonneg (Int.le_of_lt hpos)
    exact Int.ofNat_inj.mp (by rw [h1, hlen])
  have hl0 : ¬ (0 ≥ (bs ++ rest).length) := by simp only [List.length_append]; omega
  have hl1 : ¬ (((bs ++ rest).length : Int) < len) := by simp only [List.length_append]; omega
  clear hb0
  unfold readValue
  rw [if_neg hl0, sliceFrom_ok _ _ (Nat.zero_le _)]
  simp only [ok_bind, List.drop_zero, hpos, if_true]
  rw [if_neg hl1, hbs, sliceTo_ok _ _ (by simp)]
  simp

theorem readValue_varlena (dec : Dec) (X : Bytes) (typid : Int) (hX : 0 < X.length) :
    readValue dec X 0 typid (-1) = (readVarlena X >>= fun r =>
      match r.1 with
      | none => pure (GoVal.nil, max r.2 1)
      | some val => varlenaVal dec val typid >>= fun v => pure (v, r.2)) := by
  unfold readValue
  rw [if_neg (by omega), sliceFrom_ok _ _ (by omega)]
  simp only [ok_bind, List.drop_zero]
  rw [if_neg (by omega)]
  simp only [if_true]
  rfl

theorem takeWhile_nonzero (p rest : Bytes) (hp : (0 : UInt8) ∉ p) :
    (p ++ 0 :: rest).takeWhile (· != 0) = p := by
  induction p with
  | nil => simp
  | cons b p ih =>
    have hb : b ≠ 0 := fun h => hp (by simp [h])
    have hp' : (0 : UInt8) ∉ p := fun h => hp (by simp [h])
    simp [hb, ih hp']

theorem readValue_cstr (dec : Dec) (p rest : Bytes) (typid : Int) (hp : (0 : UInt8) ∉ p) :
    readValue dec (p ++ 0 :: rest) 0 typid (-2) = .ok (.str p, p.length + 1) := by
  unfold readValue
  rw [if_neg (by simp), sliceFrom_ok _ _ (by omega)]
  simp only [ok_bind, List.drop_zero]
  rw [if_neg (by omega), if_neg (by omega)]
  simp only [readCString, takeWhile_nonzero p rest hp, pure_eq_ok]
  rw [if_pos (by simp)]


/-! ### where the reader lands, and one column -/

theorem chooseAlign_eq (col : Column) (data : Bytes) (offset : Nat) :
    chooseAlign col data offset =
      .ok (if col.len = -1 ∧ offset < data.length ∧ data[offset]?.getD 0 ≠ 0 then 1 else colAlign col) := by
  unfold chooseAlign
  by_cases h : col.len = -1 ∧ offset < data.length
  · rw [if_pos h, idx_ok _ _ h.2]
    simp only [ok_bind, pure_eq_ok]
    by_cases hb : data[offset] = 0
    · simp [h, hb]
    · simp [h, hb]
  · rw [if_neg h]
    have : ¬ (col.len = -1 ∧ offset < data.length ∧ data[offset]?.getD 0 ≠ 0) := fun ⟨a, b, _⟩ => h ⟨a, b⟩
    rw [if_neg this]; rfl

theorem varlenaVal_nonempty (dec : Dec) (val : Bytes) (typid : Int) (h : 0 < val.length) :
    varlenaVal dec val typid = dec val typid := by
  unfold varlenaVal
  rw [if_neg (by omega)]

/-- a model column describes the same layout as a spec column -/
def ColMatch (i : Nat) (mc : Column) (c : Col) : Prop :=
  mc.name = c.name ∧ mc.typid = c.typid ∧ mc.len = c.len ∧ (mc.num = 0 ∨ mc.num = (i : Int) + 1) ∧ colAlign mc = c.align

def ColsMatch : Nat → List Column → List Col → Prop
  | _, [], [] => True
  | i, mc :: ms, c :: cs => ColMatch i mc c ∧ ColsMatch (i + 1) ms cs
  | _, _, _ => False

theorem getD_at_prefix (pre X : Bytes) : (pre ++ X)[pre.length]?.getD 0 = X.headD 0 := by
  rw [List.getElem?_append_right (Nat.le_refl _), Nat.sub_self]
  cases X <;> rfl

/-- one stored column: the alignment chosen, what is read, and where the reader continues -/
theorem step (dec : Dec) (mc : Column) (c : Col) (d : Datum) (hl : mc.len = c.len) (ht : mc.typid = c.typid)
    (hal : colAlign mc = c.align) (ha : Pow2Align c.align) (hd : d.WF c) (pre rest : Bytes) :
    ∃ a n, chooseAlign mc (pre ++ (formDatum c pre.length d ++ rest)) pre.length = .ok a ∧
      readValue dec (pre ++ (formDatum c pre.length d ++ rest)) (Model.align pre.length a) mc.typid mc.len
        = (expectedVal (varlenaVal dec) c d >>= fun v => pure (v, n)) ∧
      Model.align pre.length a + n = pre.length + (formDatum c pre.length d).length := by
  have hpos : 0 < c.align := by rcases ha with h | h | h | h <;> omega
  have hge := alignUp_ge pre.length c.align hpos
  have hpadlen : (pre ++ pad pre.length c.align).length = alignUp pre.length c.align := by
    simp only [List.length_append, pad_length]; omega
  rw [chooseAlign_eq, hl, ht, hal]
  cases d with
  | fixed bs =>
    obtain ⟨hp, hlen⟩ := hd
    refine ⟨_, bs.length, rfl, ?_, ?_⟩
    · rw [if_neg (by intro ⟨h, _⟩; omega), align_eq_alignUp _ _ ha, ← hpadlen]
      have : pre ++ (formDatum c pre.length (.fixed bs) ++ rest) = (pre ++ pad pre.length c.align) ++ (bs ++ rest) := by
        simp [formDatum]
      rw [this, readValue_shift, readValue_fixed dec bs rest c.typid c.len hp hlen]
      simp only [expectedVal]
      rw [varlenaVal_nonempty dec bs c.typid (by omega)]
    · rw [if_neg (by intro ⟨h, _⟩; omega), align_eq_alignUp _ _ ha]
      simp only [formDatum, List.length_append, pad_length]; omega
  | short p =>
    obtain ⟨hlen, hp⟩ := hd
    have hb := shortHdr_toNat p.length hp
    have hnz : UInt8.ofNat (2 * (p.length + 1) + 1) ≠ 0 := by
      intro h; have := congrArg UInt8.toNat h; rw [hb] at this; simp at this
    have hc : c.len = -1 ∧ pre.length < (pre ++ (formDatum c pre.length (.short p) ++ rest)).length ∧
        (pre ++ (formDatum c pre.length (.short p) ++ rest))[pre.length]?.getD 0 ≠ 0 := by
      refine ⟨hlen, by simp [formDatum], ?_⟩
      rw [getD_at_prefix]; simpa [formDatum] using hnz
    refine ⟨_, p.length + 1, rfl, ?_, ?_⟩
    · rw [if_pos hc]
      have : Model.align pre.length 1 = pre.length := by simp [Model.align]
      rw [this, readValue_shift, hlen]
      simp only [formDatum, List.cons_append]
      rw [readValue_varlena _ _ _ (by simp), readVarlena_short p rest hp]
      simp only [ok_bind, expectedVal]
    · rw [if_pos hc]; simp [Model.align, formDatum]
  | external body =>
    obtain ⟨hlen, hb⟩ := hd
    have hc : c.len = -1 ∧ pre.length < (pre ++ (formDatum c pre.length (.external body) ++ rest)).length ∧
        (pre ++ (formDatum c pre.length (.external body) ++ rest))[pre.length]?.getD 0 ≠ 0 := by
      refine ⟨hlen, by simp [formDatum], ?_⟩
      rw [getD_at_prefix]; simp [formDatum]
    refine ⟨_, 18, rfl, ?_, ?_⟩
    · rw [if_pos hc]
      have : Model.align pre.length 1 = pre.length := by simp [Model.align]
      rw [this, readValue_shift, hlen]
      simp only [formDatum, List.cons_append]
      rw [readValue_varlena _ _ _ (by simp), readVarlena_ext body rest hb]
      simp only [ok_bind, expectedVal, pure_eq_ok]
      rfl
    · rw [if_pos hc]; simp [Model.align, formDatum, hb]
  | cstr p =>
    obtain ⟨hlen, hal1, hp⟩ := hd
    refine ⟨_, p.length + 1, rfl, ?_, ?_⟩
    · rw [if_neg (by intro ⟨h, _⟩; omega), hal1]
      have : Model.align pre.length 1 = pre.length := by simp [Model.align]
      rw [this, readValue_shift, hlen]
      have : formDatum c pre.length (.cstr p) ++ rest = p ++ 0 :: rest := by simp [formDatum]
      rw [this, readValue_cstr dec p rest c.typid hp]
      simp only [expectedVal, pure_eq_ok, ok_bind]
    · rw [if_neg (by intro ⟨h, _⟩; omega), hal1]; simp [Model.align, formDatum]
  | long p =>
    obtain ⟨hlen, hp⟩ := hd
    have hland : Model.align pre.length
        (if c.len = -1 ∧ pre.length < (pre ++ (formDatum c pre.length (.long p) ++ rest)).length ∧
          (pre ++ (formDatum c pre.length (.long p) ++ rest))[pre.length]?.getD 0 ≠ 0 then 1 else c.align)
        = alignUp pre.length c.align := by
      by_cases hpad : alignUp pre.length c.align = pre.length
      · split
        · simp [Model.align, hpad]
        · rw [align_eq_alignUp _ _ ha]
      · have hz : (pre ++ (formDatum c pre.length (.long p) ++ rest))[pre.length]?.getD 0 = 0 := by
          rw [getD_at_prefix]
          have : 0 < alignUp pre.length c.align - pre.length := by omega
          simp only [formDatum, pad, zeros]
          generalize alignUp pre.length c.align - pre.length = k at this
          cases k with
          | zero => omega
          | succ k => simp [List.replicate_succ]
        rw [if_neg (by intro ⟨_, _, h⟩; exact h hz), align_eq_alignUp _ _ ha]
    refine ⟨_, p.length + 4, rfl, ?_, ?_⟩
    · rw [hland, ← hpadlen]
      have : pre ++ (formDatum c pre.length (.long p) ++ rest)
          = (pre ++ pad pre.length c.align) ++ (le 4 ((p.length + 4) * 4) ++ (p ++ rest)) := by simp [formDatum]
      rw [this, readValue_shift, hlen, readValue_varlena _ _ _ (by simp; omega),
        readVarlena_long _ p rest rfl hp]
      simp only [ok_bind, expectedVal]
    · rw [hland]; simp only [formDatum, List.length_append, pad_length, le_length]; omega
  | compressed z =>
    obtain ⟨hlen, hzwf, hp⟩ := hd
    have hland : Model.align pre.length
        (if c.len = -1 ∧ pre.length < (pre ++ (formDatum c pre.length (.compressed z) ++ rest)).length ∧
          (pre ++ (formDatum c pre.length (.compressed z) ++ rest))[pre.length]?.getD 0 ≠ 0 then 1 else c.align)
        = alignUp pre.length c.align := by
      by_cases hpad : alignUp pre.length c.align = pre.length
      · split
        · simp [Model.align, hpad]
        · rw [align_eq_alignUp _ _ ha]
      · have hz : (pre ++ (formDatum c pre.length (.compressed z) ++ rest))[pre.length]?.getD 0 = 0 := by
          rw [getD_at_prefix]
          have : 0 < alignUp pre.length c.align - pre.length := by omega
          simp only [formDatum, pad, zeros]
          generalize alignUp pre.length c.align - pre.length = k at this
          cases k with
          | zero => omega
          | succ k => simp [List.replicate_succ]
        rw [if_neg (by intro ⟨_, _, h⟩; exact h hz), align_eq_alignUp _ _ ha]
    refine ⟨_, z.stored.length + 4, rfl, ?_, ?_⟩
    · rw [hland, ← hpadlen]
      have : pre ++ (formDatum c pre.length (.compressed z) ++ rest)
          = (pre ++ pad pre.length c.align) ++ (le 4 ((z.stored.length + 4) * 4 + 2) ++ (z.stored ++ rest)) := by simp [formDatum]
      rw [this, readValue_shift, hlen, readValue_varlena _ _ _ (by simp; omega),
        readVarlena_comp z rest hzwf hp]
      simp only [ok_bind, expectedVal]
    · rw [hland]; simp only [formDatum, List.length_append, pad_length, le_length]; omega


/-! ### the null bitmap -/

theorem bits8_lt (x0 x1 x2 x3 x4 x5 x6 x7 : Bool) : bits8 x0 x1 x2 x3 x4 x5 x6 x7 < 256 := by
  cases x0 <;> cases x1 <;> cases x2 <;> cases x3 <;> cases x4 <;> cases x5 <;> cases x6 <;> cases x7 <;> decide

theorem bits8_test (x0 x1 x2 x3 x4 x5 x6 x7 : Bool) (b : Nat) (hb : b < 8) :
    (bits8 x0 x1 x2 x3 x4 x5 x6 x7 &&& (1 <<< b) == 0) = !([x0, x1, x2, x3, x4, x5, x6, x7].getD b false) := by
  have : b = 0 ∨ b = 1 ∨ b = 2 ∨ b = 3 ∨ b = 4 ∨ b = 5 ∨ b = 6 ∨ b = 7 := by omega
  rcases this with h | h | h | h | h | h | h | h <;> subst h <;>
    cases x0 <;> cases x1 <;> cases x2 <;> cases x3 <;> cases x4 <;> cases x5 <;> cases x6 <;> cases x7 <;> rfl

theorem bitmapByte_test (bits : List Bool) (j b : Nat) (hb : b < 8) :
    (bitmapByte bits j &&& (1 <<< b) == 0) = !(bits.getD (8 * j + b) false) := by
  unfold bitmapByte
  simp only []
  rw [bits8_test _ _ _ _ _ _ _ _ b hb]
  have : b = 0 ∨ b = 1 ∨ b = 2 ∨ b = 3 ∨ b = 4 ∨ b = 5 ∨ b = 6 ∨ b = 7 := by omega
  rcases this with h | h | h | h | h | h | h | h <;> subst h <;> rfl

/-- IsNull on PostgreSQL's bitmap: attribute i+1 is NULL iff its bit is clear; attributes beyond the bitmap
(or in the unused bits of its last byte) are NULL -/
theorem isNull_enc (hdr : TupleHeader) (data : Bytes) (bits : List Bool) (i : Nat) :
    HeapTuple.isNull ⟨hdr, some (encBitmap bits), data⟩ ((i : Int) + 1) = !(bits.getD i false) := by
  unfold HeapTuple.isNull
  simp only []
  rw [if_neg (by omega)]
  have hk : ((i : Int) + 1 - 1).toNat = i := by omega
  simp only [hk]
  unfold encBitmap
  have hr : (List.range ((bits.length + 7) / 8))[i / 8]? =
      if i / 8 < (bits.length + 7) / 8 then some (i / 8) else none := by
    by_cases h : i / 8 < (bits.length + 7) / 8 <;> simp [h]
  rw [List.getElem?_map, hr]
  by_cases hj : i / 8 < (bits.length + 7) / 8
  · simp only [hj, if_true, Option.map_some]
    have hlt : bitmapByte bits (i / 8) < 256 := by unfold bitmapByte; exact bits8_lt ..
    have hto : (UInt8.ofNat (bitmapByte bits (i / 8))).toNat = bitmapByte bits (i / 8) := by
      simp [UInt8.toNat_ofNat']; omega
    rw [hto, bitmapByte_test bits (i / 8) (i % 8) (Nat.mod_lt _ (by decide))]
    have : 8 * (i / 8) + i % 8 = i := Nat.div_add_mod i 8
    rw [this]
  · simp only [hj, if_false, Option.map_none]
    have : bits.length ≤ i := by omega
    simp [List.getD, List.getElem?_eq_none this]

theorem isNull_nobitmap (hdr : TupleHeader) (data : Bytes) (n : Int) :
    HeapTuple.isNull ⟨hdr, none, data⟩ n = false := rfl

/-! ### columns beyond the stored data -/

theorem readValue_beyond (dec : Dec) (data : Bytes) (off : Nat) (typid len : Int) (h : data.length ≤ off) :
    readValue dec data off typid len = .ok (.nil, 0) := by
  unfold readValue; rw [if_pos h]; rfl

/-- once the offset has reached the end of the data every further column reads as NULL -/
theorem decodeCols_tail (dec : Dec) (t : HeapTuple) (mcols : List Column) (i offset : Nat)
    (h : t.data.length ≤ offset) :
    decodeCols dec t mcols i offset = .ok (mcols.map fun c => (c.name, GoVal.nil)) := by
  induction mcols generalizing i offset with
  | nil => rfl
  | cons col cs ih =>
    simp only [decodeCols]
    generalize (if col.num = 0 then (i : Int) + 1 else col.num) = num
    by_cases hnl : t.isNull num = true
    · rw [if_pos hnl, ih (i + 1) offset h]; rfl
    · have hc : ¬ (col.len = -1 ∧ offset < t.data.length ∧ t.data[offset]?.getD 0 ≠ 0) := by
        intro ⟨_, h2, _⟩; omega
      rw [if_neg hnl, chooseAlign_eq, if_neg hc]
      simp only [ok_bind]
      have hge := align_ge offset (colAlign col)
      rw [readValue_beyond dec t.data _ _ _ (by omega)]
      simp only [ok_bind]
      rw [ih (i + 1) _ (by omega)]; rfl

theorem expectedCols_zero (val : Bytes → Int → M GoVal) (cols : List Col) (vals : List (Option Datum))
    (h : vals.length = cols.length) :
    expectedCols val cols vals 0 = .ok (cols.map fun c => (c.name, GoVal.nil)) := by
  induction cols generalizing vals with
  | nil => cases vals <;> rfl
  | cons c cs ih =>
    cases vals with
    | nil => simp at h
    | cons v vs =>
      simp only [expectedCols]
      rw [ih vs (by simpa using h)]
      cases v <;> rfl

theorem colsMatch_names : ∀ (i : Nat) (mcols : List Column) (cols : List Col), ColsMatch i mcols cols →
    mcols.map (fun c => (c.name, GoVal.nil)) = cols.map (fun c => (c.name, GoVal.nil))
  | _, [], [], _ => rfl
  | i, mc :: ms, c :: cs, h => by
    simp only [List.map_cons]
    rw [h.1.1, colsMatch_names (i + 1) ms cs h.2]
  | _, [], _ :: _, h => h.elim
  | _, _ :: _, [], h => h.elim

/-! ### the row layout theorem, general form -/

/-- Invariant form: after the reader has consumed `pre`, with `k` stored attributes still to come, the
column loop returns what the spec expects.  `nullAt` abstracts the tuple's IsNull. -/
theorem decodeCols_form (dec : Dec) (t : HeapTuple) (nullAt : Nat → Bool)
    (hnull : ∀ i : Nat, t.isNull ((i : Int) + 1) = nullAt i) :
    ∀ (cols : List Col) (mcols : List Column) (vals : List (Option Datum)) (i k : Nat) (pre : Bytes),
      ColsMatch i mcols cols → vals.length = cols.length →
      (∀ p ∈ cols.zip vals, Pow2Align p.1.align ∧ ∀ d, p.2 = some d → d.WF p.1) →
      (∀ j, j < k → j < vals.length → nullAt (i + j) = (vals.getD j none).isNone) →
      t.data = pre ++ form (cols.take k) (vals.take k) pre.length →
      decodeCols dec t mcols i pre.length = expectedCols (varlenaVal dec) cols vals k := by
  intro cols
  induction cols with
  | nil =>
    intro mcols vals i k pre hm hlen _ _ _
    cases mcols with
    | nil => cases vals <;> rfl
    | cons _ _ => exact hm.elim
  | cons c cs ih =>
    intro mcols vals i k pre hm hlen hwf hn hdata
    cases mcols with
    | nil => exact hm.elim
    | cons mc ms =>
    cases vals with
    | nil => simp at hlen
    | cons v vs =>
    have hlen' : vs.length = cs.length := by simpa using hlen
    have hwf' : ∀ p ∈ cs.zip vs, Pow2Align p.1.align ∧ ∀ d, p.2 = some d → d.WF p.1 :=
      fun p hp => hwf p (by simp [List.zip_cons_cons, hp])
    obtain ⟨⟨hname, htyp, hl, hnum, hal⟩, hms⟩ := hm
    cases k with
    | zero =>
      -- nothing stored any more: the offset is at the end of the data
      have hend : t.data.length ≤ pre.length := by rw [hdata]; simp [form]
      rw [decodeCols_tail dec t _ i pre.length hend, expectedCols_zero _ _ _ hlen]
      have := colsMatch_names i (mc :: ms) (c :: cs) ⟨⟨hname, htyp, hl, hnum, hal⟩, hms⟩
      rw [this]
    | succ k =>
      have hnumv : (if mc.num = 0 then (i : Int) + 1 else mc.num) = (i : Int) + 1 := by
        rcases hnum with h | h
        · rw [if_pos h]
        · by_cases h0 : mc.num = 0
          · rw [if_pos h0]
          · rw [if_neg h0, h]
      have hn0 := hn 0 (by omega) (by simp)
      have hn' : ∀ j, j < k → j < vs.length → nullAt (i + 1 + j) = (vs.getD j none).isNone := by
        intro j hj hjl
        have := hn (j + 1) (by omega) (by simp; omega)
        simpa [Nat.add_assoc, Nat.add_comm 1 j] using this
      simp only [decodeCols, hnumv, hnull]
      cases v with
      | none =>
        have h1 : nullAt i = true := by simpa using hn0
        rw [if_pos h1]
        have hdata' : t.data = pre ++ form (cs.take k) (vs.take k) pre.length := by
          rw [hdata]; simp [form]
        rw [ih ms vs (i + 1) k pre hms hlen' hwf' hn' hdata']
        simp only [expectedCols, hname]
        rfl
      | some d =>
        have h1 : nullAt i = false := by simpa using hn0
        rw [if_neg (by simp [h1])]
        obtain ⟨hpa, hdw⟩ := hwf (c, some d) (by simp [List.zip_cons_cons])
        have hdata1 : t.data = pre ++ (formDatum c pre.length d ++
            form (cs.take k) (vs.take k) (pre.length + (formDatum c pre.length d).length)) := by
          rw [hdata]; simp [form]
        obtain ⟨a, n, hca, hrv, hoff⟩ := step dec mc c d hl htyp hal hpa (hdw d rfl) pre
          (form (cs.take k) (vs.take k) (pre.length + (formDatum c pre.length d).length))
        rw [← hdata1] at hca hrv
        rw [hca]
        simp only [ok_bind]
        rw [hrv]
        have hdata' : t.data = (pre ++ formDatum c pre.length d) ++
            form (cs.take k) (vs.take k) (pre ++ formDatum c pre.length d).length := by
          rw [hdata1]; simp [List.append_assoc]
        have hrec := ih ms vs (i + 1) k (pre ++ formDatum c pre.length d) hms hlen' hwf' hn' hdata'
        simp only [List.length_append] at hrec
        simp only [expectedCols, Nat.add_sub_cancel, hname]
        cases hx : expectedVal (varlenaVal dec) c d with
        | error e => rfl
        | ok x =>
          simp only [ok_bind, pure_eq_ok]
          rw [hoff, hrec]

end PgVerif.Proofs.Rows
