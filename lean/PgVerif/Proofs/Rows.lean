/-
  Helper lemmas for the row model (heap.go / types.go:ReadVarlena) against the tuple-formation spec.
  Adapted from the checked spike DESIGN.md B.7.
-/
import PgVerif.Model.Rows
import PgVerif.Spec.Rows
namespace PgVerif.Proofs.Rows
open PgVerif PgVerif.Model PgVerif.Spec

/-! ### alignment -/

theorem alignUp_one (o : Nat) : alignUp o 1 = o := by simp [alignUp]

theorem alignUp_ge (o a : Nat) (ha : 0 < a) : o ≤ alignUp o a := by
  unfold alignUp
  have := Nat.div_add_mod (o + a - 1) a
  have := Nat.mod_lt (o + a - 1) ha
  have : a * ((o + a - 1) / a) = (o + a - 1) / a * a := Nat.mul_comm _ _
  omega

def Pow2Align (a : Nat) : Prop := a = 1 ∨ a = 2 ∨ a = 4 ∨ a = 8

/-- binary.go:align (`&^` form) is rounding up, for the four alignments PostgreSQL has -/
theorem align_eq_alignUp (o a : Nat) (ha : Pow2Align a) : Model.align o a = alignUp o a := by
  rcases ha with h | h | h | h <;> subst h
  · simp [Model.align, alignUp]
  · have := andNot_mask (o + 2 - 1) 1; simpa [Model.align, alignUp] using this
  · have := andNot_mask (o + 4 - 1) 2; simpa [Model.align, alignUp] using this
  · have := andNot_mask (o + 8 - 1) 3; simpa [Model.align, alignUp] using this

/-- whatever the alignment value (hostile schemas included), aligning never moves backwards -/
theorem align_ge (o a : Nat) : o ≤ Model.align o a := by
  unfold Model.align
  split
  · exact Nat.le_refl _
  · unfold andNot
    have := @Nat.and_le_right (o + a - 1) (a - 1)
    omega

@[simp] theorem pad_length (o a : Nat) : (pad o a).length = alignUp o a - o := by simp [pad]

/-! ### ReadVarlena on the four varlena forms -/

theorem shortHdr_toNat (n : Nat) (h : n ≤ 126) : (UInt8.ofNat (2 * (n + 1) + 1)).toNat = 2 * (n + 1) + 1 := by
  simp [UInt8.toNat_ofNat']; omega

theorem take_drop_mid (a p rest : Bytes) (n : Nat) (hn : n = a.length) :
    ((a ++ (p ++ rest)).take (p.length + n)).drop n = p := by
  subst hn
  rw [← List.append_assoc, show p.length + a.length = (a ++ p).length by simp; omega, List.take_left']
  · simp
  · rfl

theorem readVarlena_short (p rest : Bytes) (hp : p.length ≤ 126) :
    readVarlena (UInt8.ofNat (2 * (p.length + 1) + 1) :: (p ++ rest)) = .ok (some p, p.length + 1) := by
  have hb := shortHdr_toNat p.length hp
  have htd := take_drop_mid [UInt8.ofNat (2 * (p.length + 1) + 1)] p rest 1 rfl
  unfold readVarlena
  rw [if_neg (by simp)]
  simp only [idx, List.getElem?_cons_zero, ok_bind, pure_eq_ok, hb]
  rw [if_pos ⟨by omega, by omega⟩]
  have h2 : (2 * (p.length + 1) + 1) / 2 = p.length + 1 := by omega
  rw [h2, if_neg (by simp only [List.length_cons, List.length_append]; omega)]
  rw [slice_ok _ _ _ (by simp only [List.length_cons, List.length_append]; omega) (by omega)]
  simp only [ok_bind]
  rw [show ([UInt8.ofNat (2 * (p.length + 1) + 1)] ++ (p ++ rest)) = UInt8.ofNat (2 * (p.length + 1) + 1) :: (p ++ rest) from rfl] at htd
  rw [htd]

theorem readVarlena_ext (body rest : Bytes) (hb : body.length = 16) :
    readVarlena (1 :: 18 :: (body ++ rest)) = .ok (none, 18) := by
  unfold readVarlena
  rw [if_neg (by simp)]
  simp only [idx, List.getElem?_cons_zero, ok_bind, pure_eq_ok]
  rw [if_neg (by decide), if_pos (by decide), if_pos (by simp only [List.length_cons, List.length_append]; omega)]
  simp only [List.getElem?_cons_succ, List.getElem?_cons_zero, ok_bind]
  rw [if_pos (by decide)]

/-- a 4-byte header `h` = 4·total or 4·total + 2 (inline compressed): same reading -/
theorem readVarlena_long (h : Nat) (p rest : Bytes) (hh : h = (p.length + 4) * 4 ∨ h = (p.length + 4) * 4 + 2)
    (hlt : p.length + 4 < 2 ^ 30) :
    readVarlena (le 4 h ++ (p ++ rest)) = .ok (some p, p.length + 4) := by
  have h32 : h < 256 ^ 4 := by rcases hh with e | e <;> omega
  have hrd : rd 4 ((le 4 h ++ (p ++ rest)).drop 0) = h := by simpa using rd_le 4 h (p ++ rest) h32
  have hb : (UInt8.ofNat (h % 256)).toNat = h % 256 := by simp [UInt8.toNat_ofNat']
  have htd := take_drop_mid (le 4 h) p rest 4 (by simp)
  have hX : le 4 h ++ (p ++ rest) = UInt8.ofNat (h % 256) :: (le 3 (h / 256) ++ (p ++ rest)) := rfl
  have hlenX : (le 4 h ++ (p ++ rest)).length = 4 + (p.length + rest.length) := by simp
  generalize le 4 h ++ (p ++ rest) = X at hrd hX hlenX htd
  unfold readVarlena
  rw [if_neg (by omega)]
  have hi : idx X 0 = .ok (UInt8.ofNat (h % 256)) := by rw [hX]; rfl
  simp only [hi, ok_bind, hb]
  have c1 : ¬ (h % 256 % 2 = 1 ∧ h % 256 ≠ 1) := by rcases hh with e | e <;> omega
  have c2 : ¬ (h % 256 = 1) := by rcases hh with e | e <;> omega
  rw [if_neg c1, if_neg c2, if_neg (by omega)]
  rw [uN_ok 4 X 0 (by omega)]
  simp only [ok_bind, hrd]
  have h4 : h / 4 = p.length + 4 := by rcases hh with e | e <;> omega
  rw [h4, if_neg (by omega), slice_ok _ _ _ (by omega) (by omega)]
  simp only [ok_bind, pure_eq_ok, htd]

/-! ### readValue -/

/-- reading at the end of a prefix is reading the rest from 0 -/
theorem readValue_shift (dec : Dec) (pre X : Bytes) (typid len : Int) :
    readValue dec (pre ++ X) pre.length typid len = readValue dec X 0 typid len := by
  unfold readValue
  by_cases hX : X.length = 0
  · rw [if_pos (by simp; omega), if_pos (by omega)]
  · rw [if_neg (by simp; omega), if_neg (by omega)]
    rw [sliceFrom_ok _ _ (by simp), sliceFrom_ok _ _ (by omega)]
    simp

theorem readValue_fixed (dec : Dec) (bs rest : Bytes) (typid len : Int) (hpos : 0 < len) (hlen : (bs.length : Int) = len) :
    readValue dec (bs ++ rest) 0 typid len = (dec bs typid >>= fun v => pure (v, bs.length)) := by
  have hb0 : 0 < bs.length := by omega
  have hbs : len.toNat = bs.length := by
    have h1 : (len.toNat : Int) = len := Int.toNat_of_nonneg (Int.le_of_lt hpos)
    exact Int.ofNat_inj.mp (by rw [h1, hlen])
  have hl0 : ¬ (0 ≥ (bs ++ rest).length) := by simp only [List.length_append]; omega
  have hl1 : ¬ (((bs ++ rest).length : Int) < len) := by simp only [List.length_append]; omega
  clear hb0
  unfold readValue
  rw [if_neg hl0, sliceFrom_ok _ _ (Nat.zero_le _)]
  simp only [ok_bind, List.drop_zero, hpos, if_true]
  rw [if_neg hl1, hbs, sliceTo_ok _ _ (by simp)]
  simp

theorem readValue_varlena (dec : Dec) (X : Bytes) (typid : Int) (hX : 0 < X.length) :
    readValue dec X 0 typid (-1) = (readVarlena X >>= fun r =>
      match r.1 with
      | none => pure (GoVal.nil, max r.2 1)
      | some val => varlenaVal dec val typid >>= fun v => pure (v, r.2)) := by
  unfold readValue
  rw [if_neg (by omega), sliceFrom_ok _ _ (by omega)]
  simp only [ok_bind, List.drop_zero]
  rw [if_neg (by omega)]
  simp only [if_true]
  rfl

theorem takeWhile_nonzero (p rest : Bytes) (hp : (0 : UInt8) ∉ p) :
    (p ++ 0 :: rest).takeWhile (· != 0) = p := by
  induction p with
  | nil => simp
  | cons b p ih =>
    have hb : b ≠ 0 := fun h => hp (by simp [h])
    have hp' : (0 : UInt8) ∉ p := fun h => hp (by simp [h])
    simp [hb, ih hp']

theorem readValue_cstr (dec : Dec) (p rest : Bytes) (typid : Int) (hp : (0 : UInt8) ∉ p) :
    readValue dec (p ++ 0 :: rest) 0 typid (-2) = .ok (.str p, p.length + 1) := by
  unfold readValue
  rw [if_neg (by simp), sliceFrom_ok _ _ (by omega)]
  simp only [ok_bind, List.drop_zero]
  rw [if_neg (by omega), if_neg (by omega)]
  simp only [readCString, takeWhile_nonzero p rest hp, pure_eq_ok]
  rw [if_pos (by simp)]

end PgVerif.Proofs.Rows
